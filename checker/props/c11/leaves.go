package c11

import (
	"fmt"
	"go/token"
	"go/types"
	"sort"
	"strings"

	"golang.org/x/tools/go/ssa"

	"polycheck/props"
	"polycheck/props/c11/flow"
	"polycheck/ssau"
)

// leaf describes a node without inputs whose version counts accepted updates.
type leaf struct {
	rel, typ, mutator string
}

var repoLeaves = []leaf{
	{"nodes", "ValueNode", "Set"},
	{"generator/parameter", "Value", "ApplyMessage"},
	{"generator/parameter", "File", "ApplyMessage"},
	{"generator/parameter", "Image", "ApplyMessage"},
}

func methodOf(named *types.Named, name string) *types.Func {
	obj, _, _ := types.LookupFieldOrMethod(types.NewPointer(named), true, named.Obj().Pkg(), name)
	if f, ok := obj.(*types.Func); ok {
		return f.Origin()
	}
	return nil
}

func checkVersionedLeaves(c *props.Ctx, rep reporter, leaves []leaf) {
	p := c.P
	// VersionData.Increment is the only writer of VersionData.version and adds exactly one
	nsp := p.SSAPkg("nodes")
	nfns := p.FuncsOf(nsp)
	nci := flow.IndexCalls(nfns)
	var incr *types.Func
	var vdVersion *types.Var
	if tn, ok := nsp.Pkg.Scope().Lookup("VersionData").(*types.TypeName); ok {
		named := tn.Type().(*types.Named)
		incr = methodOf(named, "Increment")
		// the counter is resolved by role: the field Increment() adds one to, else the field Version() returns
		vdVersion = incrementedIn(nci.Body[incr])
		if vdVersion == nil {
			vdVersion = counterOf(p.SSA, methodOf(named, "Version"))
		}
	}
	if incr == nil || vdVersion == nil || nci.Body[incr] == nil {
		c.R.Failf("anchor nodes.VersionData.Increment / .version not found")
		return
	}
	{
		reg := nci.Region(incr)
		n, bad := 0, false
		for _, fn := range nfns {
			ssau.AllInstrs(fn, func(in ssa.Instruction) {
				s, ok := in.(*ssa.Store)
				if !ok || flow.IsFreshBase(s.Addr) {
					return
				}
				if fv, _ := flow.FieldBase(s.Addr); sameField(fv, vdVersion) {
					n++
					if !reg[flow.Owner(fn)] {
						bad = true
						rep.violate("NODE-1", "nodes.VersionData.version←"+p.FuncName(fn), ssau.PosOf(s), "version counter written outside Increment()")
					} else if !isIncrementOf(s.Val, vdVersion) {
						bad = true
						rep.violate("NODE-1", "nodes.VersionData.version←"+p.FuncName(fn), ssau.PosOf(s), "Increment() assigns something other than version+1")
					}
				}
			})
		}
		body := nci.Body[incr]
		vecs := flow.AllVectors(body, flow.Vec{}, func(in ssa.Instruction, cur flow.Vec) []flow.Vec {
			if s, ok := in.(*ssa.Store); ok && !flow.IsFreshBase(s.Addr) {
				if fv, _ := flow.FieldBase(s.Addr); sameField(fv, vdVersion) {
					return []flow.Vec{cur.Bump(0)}
				}
			}
			return nil
		})
		for _, v := range vecs {
			if v[0] != 1 {
				bad = true
				rep.violate("NODE-1", "nodes.VersionData.Increment#once", body.Pos(), "a path through Increment() changes the counter a number of times other than exactly one", fmt.Sprint(vecs))
				break
			}
		}
		if !bad {
			rep.hold("NODE-1", "nodes.VersionData.version", body.Pos(), fmt.Sprintf("%d store(s), only in Increment(), exactly version+1 once per call", n))
		}
	}

	for _, lf := range leaves {
		sp := p.SSAPkg(lf.rel)
		if sp == nil {
			c.R.Failf("anchor package %s not found", lf.rel)
			continue
		}
		key := lf.rel + "." + lf.typ
		tn, ok := sp.Pkg.Scope().Lookup(lf.typ).(*types.TypeName)
		if !ok {
			c.R.Failf("anchor type %s not found", key)
			continue
		}
		named, ok := tn.Type().(*types.Named)
		if !ok {
			c.R.Failf("anchor %s is not a named type", key)
			continue
		}
		fns := p.FuncsOf(sp)
		ci := flow.IndexCalls(fns)
		mut, reader, state, getter := methodOf(named, lf.mutator), methodOf(named, "Value"), methodOf(named, "State"), methodOf(named, "Version")
		if mut == nil || reader == nil || state == nil || getter == nil || ci.Body[mut] == nil || ci.Body[reader] == nil || ci.Body[state] == nil {
			c.R.Failf("anchor methods %s.{%s,Value,State,Version} not all found", key, lf.mutator)
			continue
		}
		// the version counter is resolved by role: the field the exported Version() returns
		var version *types.Var
		{
			// the field a method of the type increments, else the field Version() returns
			c := map[*types.Var]bool{}
			for i := 0; i < named.NumMethods(); i++ {
				if fv := incrementedIn(ci.Body[named.Method(i).Origin()]); fv != nil {
					c[fv.Origin()] = true
				}
			}
			if len(c) == 1 {
				for f := range c {
					version = f
				}
			} else {
				version = counterOf(p.SSA, getter)
			}
		}
		if version == nil {
			c.R.Failf("anchor: the version counter of %s (the field Version() returns) cannot be resolved uniquely", key)
			continue
		}
		st, _ := named.Underlying().(*types.Struct)
		ownField := func(fv *types.Var) bool {
			if fv == nil || st == nil {
				return false
			}
			for i := 0; i < st.NumFields(); i++ {
				if sameField(st.Field(i), fv) {
					return true
				}
			}
			return false
		}
		// value-carrying fields: own fields loaded by the reader
		regReader := ci.Region(reader)
		carry := map[*types.Var]bool{}
		for _, fn := range fns {
			if !regReader[flow.Owner(fn)] {
				continue
			}
			ssau.AllInstrs(fn, func(in ssa.Instruction) {
				if v, ok := in.(ssa.Value); ok {
					if fv, _ := flow.LoadedField(v); ownField(fv) && !sameField(fv, version) {
						carry[fv.Origin()] = true
					}
				}
			})
		}
		var carryNames []string
		for f := range carry {
			carryNames = append(carryNames, f.Name())
		}
		sort.Strings(carryNames)
		if len(carry) == 0 {
			rep.undecide("NODE-1", key+".Value", ci.Body[reader].Pos(), "the reader loads no field of the node: cannot tell what the value is")
			continue
		}
		isBump := func(in ssa.Instruction) bool {
			switch x := in.(type) {
			case *ssa.Store:
				if flow.IsFreshBase(x.Addr) {
					return false
				}
				fv, _ := flow.FieldBase(x.Addr)
				return sameField(fv, version)
			case ssa.CallInstruction:
				return flow.Callee(x) == incr
			}
			return false
		}
		isValueStore := func(in ssa.Instruction) bool {
			s, ok := in.(*ssa.Store)
			if !ok || flow.IsFreshBase(s.Addr) {
				return false
			}
			fv, _ := flow.FieldBase(s.Addr)
			return fv != nil && carry[fv.Origin()]
		}
		regMut := ci.Region(mut)
		// (a) who may bump
		nb, bad := 0, false
		for _, fn := range fns {
			ssau.AllInstrs(fn, func(in ssa.Instruction) {
				if !isBump(in) {
					return
				}
				// only bumps on this type: the store's field identity already guarantees it for own fields;
				// for Increment() calls check the receiver type
				if cI, ok := in.(ssa.CallInstruction); ok {
					if len(cI.Common().Args) == 0 {
						return
					}
					if fv, base := flow.FieldBase(cI.Common().Args[0]); fv == nil || base == nil || ssau.NamedOf(base.Type()) == nil || ssau.NamedOf(base.Type()).Origin() != named.Origin() {
						return
					}
				} else if vdVersion != nil && sameField(version, vdVersion) {
					return // the embedded counter's own stores are checked above
				}
				nb++
				if s, ok := in.(*ssa.Store); ok && !isIncrementOf(s.Val, version) {
					bad = true
					rep.violate("NODE-1", key+".version←"+p.FuncName(fn), ssau.PosOf(in), "version is assigned something other than version+1")
				}
				if !regMut[flow.Owner(fn)] {
					bad = true
					rep.violate("NODE-1", key+".version←"+p.FuncName(fn), ssau.PosOf(in),
						fmt.Sprintf("the version is bumped outside %s: dependents re-execute although the value did not change through the update path", lf.mutator))
				}
			})
		}
		if !bad {
			if nb == 0 {
				rep.violate("NODE-1", key+".version", ci.Body[mut].Pos(), "no version bump found in "+lf.mutator+": dependents never notice an update")
			} else {
				rep.hold("NODE-1", key+".version", ci.Body[mut].Pos(), fmt.Sprintf("%d bump(s), all inside {%s}", nb, regionNames(regMut)))
			}
		}
		// (b)/(c) one bump per call path that changes the value
		exempt := map[*types.Func]bool{}
		for f := range regReader {
			exempt[f] = true // lazy materialisation inside the reader is not an update
		}
		if fj := methodOf(named, "FromJSON"); fj != nil {
			// initialiser of a freshly created node (graph load), with the private helpers only it calls
			for f := range ci.Region(fj) {
				exempt[f] = true
			}
		}
		checked := 0
		for _, fn := range fns {
			if fn.Parent() != nil {
				continue
			}
			owner := flow.Owner(fn)
			if owner == nil || exempt[owner] {
				continue
			}
			if owner != mut {
				has := false
				ssau.AllInstrs(fn, func(in ssa.Instruction) {
					if isValueStore(in) {
						has = true
					}
				})
				if !has || regMut[owner] {
					continue
				}
			}
			checked++
			var step flow.Step
			stack := map[*ssa.Function]bool{fn: true}
			step = func(in ssa.Instruction, cur flow.Vec) []flow.Vec {
				if isValueStore(in) {
					return []flow.Vec{cur.Bump(0)}
				}
				if isBump(in) {
					return []flow.Vec{cur.Bump(1)}
				}
				if cI, ok := in.(*ssa.Call); ok {
					cal := flow.Callee(cI)
					if cal != nil && cal != owner && regMut[cal] && owner == mut {
						g := ci.Body[cal]
						if g != nil && !stack[g] {
							stack[g] = true
							r := flow.AllVectors(g, cur, step)
							delete(stack, g)
							if len(r) > 0 {
								return r
							}
						}
					}
				}
				return nil
			}
			vecs := flow.AllVectors(fn, flow.Vec{}, step)
			construct := p.FuncName(fn) + "#bump"
			ok := true
			for _, v := range vecs {
				if !((v[0] == 0 && v[1] == 0) || (v[0] >= 1 && v[1] == 1)) {
					ok = false
				}
			}
			facts := fmt.Sprintf("value-carrying fields {%s}; per-path (value stores, version bumps): %v", strings.Join(carryNames, ","), pairList(vecs))
			if ok && len(vecs) > 0 {
				rep.hold("NODE-1", construct, fn.Pos(), facts)
			} else if len(vecs) == 0 {
				rep.undecide("NODE-1", construct, fn.Pos(), "no normal return")
			} else {
				rep.violate("NODE-1", construct, fn.Pos(),
					"a call path changes the node's value without bumping the version exactly once (0 bumps: dependents keep serving the output computed from the old value; 2 bumps: version does not count updates)", facts)
			}
		}
		if checked == 0 {
			rep.undecide("NODE-1", key+"."+lf.mutator+"#bump", ci.Body[mut].Pos(), "mutator not analysed")
		}
		// NODE-10: every accepted update bumps — the only returns of the mutator without a bump are error returns.
		// A value-equality shortcut (==, reflect.DeepEqual, bytes.Equal) guarding a bump-less return is exactly such a
		// path: equality of aliased containers (a slice edited in place and re-submitted) or +0/-0 does not mean "unchanged".
		{
			fn := ci.Body[mut]
			var step flow.Step
			stack := map[*ssa.Function]bool{fn: true}
			step = func(in ssa.Instruction, cur flow.Vec) []flow.Vec {
				if isBump(in) {
					return []flow.Vec{cur.Bump(0)}
				}
				if cI, ok := in.(*ssa.Call); ok {
					cal := flow.Callee(cI)
					if cal != nil && cal != mut && regMut[cal] {
						if g := ci.Body[cal]; g != nil && !stack[g] {
							stack[g] = true
							r := flow.AllVectors(g, cur, step)
							delete(stack, g)
							if len(r) > 0 {
								return r
							}
						}
					}
				}
				return nil
			}
			construct := p.FuncName(fn) + "#must-bump"
			bad := false
			nRet, nErr := 0, 0
			for r, vs := range flow.PathVectors(fn, flow.Vec{}, step) {
				if isErrorReturnC11(r) {
					nErr++
					continue
				}
				nRet++
				for v := range vs {
					if v[0] == 0 {
						bad = true
						rep.violate("NODE-10", construct, ssau.PosOf(r),
							"a path of "+lf.mutator+" returns normally (not an error return) without bumping the version: whatever guards it (an equality / DeepEqual shortcut, a cached comparison) claims the value is unchanged, but equal-looking aliased containers or re-submitted in-place edits are changes — dependents keep serving the output computed from the old content")
						break
					}
				}
				if bad {
					break
				}
			}
			if !bad {
				rep.hold("NODE-10", construct, fn.Pos(), fmt.Sprintf("%d non-error return(s) all behind a version bump, %d error return(s) exempt", nRet, nErr))
			}
		}
		// NODE-11: decode-then-commit — no call that consumes the message is handed a pointer into the live node
		{
			fn := ci.Body[mut]
			construct := p.FuncName(fn) + "#decode-target"
			recv := fn.Params[0]
			var msgParams []*ssa.Parameter
			for _, prm := range fn.Params[1:] {
				msgParams = append(msgParams, prm)
			}
			fromRecv := func(v ssa.Value) bool {
				return derivesC11(v, func(y ssa.Value) bool { return y == ssa.Value(recv) })
			}
			fromMsg := func(v ssa.Value) bool {
				return derivesC11(v, func(y ssa.Value) bool {
					for _, m := range msgParams {
						if y == ssa.Value(m) {
							return true
						}
					}
					return false
				})
			}
			bad := false
			nCalls := 0
			ssau.AllInstrs(fn, func(in ssa.Instruction) {
				c, ok := in.(*ssa.Call)
				if !ok || bad {
					return
				}
				cal := flow.Callee(c)
				if cal != nil && (regMut[cal] || (ssau.RecvNamed(cal) != nil && ssau.RecvNamed(cal).Origin() == named.Origin())) {
					return // methods of the node itself are covered by the path law above
				}
				args := c.Common().Args
				if c.Common().IsInvoke() {
					args = append([]ssa.Value{c.Common().Value}, args...)
				}
				takesMsg := false
				for _, a := range args {
					if fromMsg(a) {
						takesMsg = true
					}
				}
				if !takesMsg {
					return
				}
				nCalls++
				for _, a := range args {
					if fromMsg(a) && !fromRecv(a) {
						continue
					}
					// only a pointer lets the callee write the live value (a copy wrapped in an interface does not)
					if _, isPtr := flow.StripAll(a).Type().Underlying().(*types.Pointer); !isPtr || !fromRecv(a) {
						continue
					}
					bad = true
					name := "?"
					if cal != nil {
						name = cal.Name()
					}
					rep.violate("NODE-11", construct, ssau.PosOf(c),
						"the message is decoded by "+name+"() straight into memory reachable from the node (the live value) instead of a fresh local: a message rejected half-way leaves the value partly edited with no version bump (dependents stale), and an accepted one mutates a value readers may still hold")
				}
			})
			if !bad {
				rep.hold("NODE-11", construct, fn.Pos(), fmt.Sprintf("%d call(s) consuming the message, none is given a pointer into the node", nCalls))
			}
		}
		// the getter returns the counter
		if gb := bodyOf(p.SSA, getter); gb != nil {
			okG := true
			for _, s := range flow.ReturnSites(gb, 0) {
				if fv, _ := flow.LoadedField(s.Val); !sameField(fv, version) {
					okG = false
				}
			}
			if okG {
				rep.hold("NODE-1", key+".Version", gb.Pos(), "Version() returns the counter")
			} else {
				rep.violate("NODE-1", key+".Version", gb.Pos(), "Version() does not return the version counter: dependents compare something else")
			}
		}
		// NODE-7 for leaves: always Processed
		sb := ci.Body[state]
		procV, _ := lookupConst(nsp.Pkg, "Processed")
		okS := true
		for _, s := range flow.ReturnSites(sb, 0) {
			if v, ok := ssau.ConstInt(s.Val); !ok || v != procV {
				okS = false
			}
		}
		if okS {
			rep.hold("NODE-7", key+".State", sb.Pos(), "an input-less node is always Processed")
		} else {
			rep.violate("NODE-7", key+".State", sb.Pos(), "State() of an input-less node can be something other than Processed: every dependent's Outdated() (State() != Processed) is then permanently true and it re-executes on every read")
		}
	}
}

func bodyOf(prog *ssa.Program, f *types.Func) *ssa.Function {
	if f == nil {
		return nil
	}
	fn := prog.FuncValue(f.Origin())
	if fn == nil || fn.Blocks == nil {
		return nil
	}
	return fn
}

func pairList(vs []flow.Vec) string {
	var s []string
	for _, v := range vs {
		s = append(s, fmt.Sprintf("(%d,%d)", v[0], v[1]))
	}
	return strings.Join(s, " ")
}

var _ = token.NoPos

// isErrorReturnC11: the last result is an error that is not the nil constant.
func isErrorReturnC11(r *ssa.Return) bool {
	if len(r.Results) == 0 {
		return false
	}
	last := flow.Unspill(r, r.Results[len(r.Results)-1])
	if !types.Identical(last.Type(), types.Universe.Lookup("error").Type()) {
		return false
	}
	return !flow.IsNilConst(last)
}

// derivesC11 walks backwards through operands and the contents of local objects.
func derivesC11(v ssa.Value, pred func(ssa.Value) bool) bool {
	seen := map[ssa.Value]bool{}
	var walk func(v ssa.Value) bool
	walk = func(v ssa.Value) bool {
		if v == nil || seen[v] {
			return false
		}
		seen[v] = true
		if pred(v) {
			return true
		}
		if a, ok := v.(*ssa.Alloc); ok {
			var visit func(addr ssa.Value) bool
			visit = func(addr ssa.Value) bool {
				for _, r := range ssau.Refs(addr) {
					switch y := r.(type) {
					case *ssa.Store:
						if y.Addr == addr && walk(y.Val) {
							return true
						}
					case *ssa.FieldAddr:
						if visit(y) {
							return true
						}
					case *ssa.IndexAddr:
						if visit(y) {
							return true
						}
					}
				}
				return false
			}
			return visit(a)
		}
		in, ok := v.(ssa.Instruction)
		if !ok {
			return false
		}
		for _, op := range in.Operands(nil) {
			if op != nil && *op != nil && walk(*op) {
				return true
			}
		}
		return false
	}
	return walk(v)
}

// counterOf: the single field every return of the getter loads.
func counterOf(prog *ssa.Program, getter *types.Func) *types.Var {
	b := bodyOf(prog, getter)
	if b == nil {
		return nil
	}
	var out *types.Var
	for _, s := range flow.ReturnSites(b, 0) {
		fv, _ := flow.LoadedField(s.Val)
		if fv == nil || (out != nil && !sameField(out, fv)) {
			return nil
		}
		out = fv
	}
	return out
}

// incrementedIn: the single field fn increments (f = f + 1), or nil.
func incrementedIn(fn *ssa.Function) *types.Var {
	if fn == nil {
		return nil
	}
	var out *types.Var
	many := false
	ssau.AllInstrs(fn, func(in ssa.Instruction) {
		if st, ok := in.(*ssa.Store); ok && !flow.IsFreshBase(st.Addr) {
			if fv, _ := flow.FieldBase(st.Addr); fv != nil && isIncrementOf(st.Val, fv) {
				if out != nil && !sameField(out, fv) {
					many = true
				}
				out = fv
			}
		}
	})
	if many {
		return nil
	}
	return out
}
