package c11

import (
	"fmt"
	"go/constant"
	"go/token"
	"go/types"
	"sort"
	"strings"

	"golang.org/x/tools/go/ssa"

	"polycheck/load"
	"polycheck/props"
	"polycheck/props/c11/flow"
	"polycheck/ssau"
)

func constantInt(o *types.Const) (int64, bool) {
	if o.Val().Kind() != constant.Int {
		return 0, false
	}
	return constant.Int64Val(o.Val())
}

// ---------------------------------------------------------------------------
// recognisers shared by NODE-4 and NODE-6

// elemOf: v is D[idx] (a load through IndexAddr, or an Index of an array value).
func elemOf(v ssa.Value) (d, idx ssa.Value, ok bool) {
	v = flow.StripAll(v)
	if u, isU := v.(*ssa.UnOp); isU && u.Op == token.MUL {
		if ia, isIA := u.X.(*ssa.IndexAddr); isIA {
			return ia.X, ia.Index, true
		}
	}
	return nil, nil, false
}

// projOfElem: v is D[idx] itself or the result of one call whose receiver / first argument is D[idx]
// (nodeDep.Dependency()).
func projOfElem(v ssa.Value) (d, idx ssa.Value, ok bool) {
	v = flow.StripAll(v)
	if d, idx, ok = elemOf(v); ok {
		return
	}
	if c, isC := v.(*ssa.Call); isC {
		cc := c.Common()
		var recv ssa.Value
		if cc.IsInvoke() {
			recv = cc.Value
		} else if len(cc.Args) > 0 {
			recv = cc.Args[0]
		}
		if recv != nil {
			return elemOf(recv)
		}
	}
	return nil, nil, false
}

// methodCallOn: v is a call of a method named `name` ; returns the receiver.
func methodCallOn(v ssa.Value, name string) (ssa.Value, bool) {
	c, ok := flow.StripAll(v).(*ssa.Call)
	if !ok {
		return nil, false
	}
	cal := flow.Callee(c)
	if cal == nil || cal.Name() != name {
		return nil, false
	}
	sig, _ := cal.Type().(*types.Signature)
	if sig == nil || sig.Recv() == nil || sig.Params().Len() != 0 {
		return nil, false
	}
	cc := c.Common()
	if cc.IsInvoke() {
		return cc.Value, true
	}
	if len(cc.Args) > 0 {
		return cc.Args[0], true
	}
	return nil, false
}

// lenOf: v is len(x); returns x.
func lenOf(v ssa.Value) (ssa.Value, bool) {
	c, ok := flow.StripAll(v).(*ssa.Call)
	if !ok || ssau.Builtin(c) != "len" {
		return nil, false
	}
	return c.Call.Args[0], true
}

// equalEdge: cond is (through !, ==true …) an ==/!= comparison; returns the BinOp and the successor index taken when the operands are equal.
func equalEdge(cond ssa.Value) (*ssa.BinOp, int, bool) {
	v, pos := flow.BoolTest(cond)
	b, ok := v.(*ssa.BinOp)
	if !ok || (b.Op != token.EQL && b.Op != token.NEQ) {
		return nil, 0, false
	}
	if (b.Op == token.EQL) == pos {
		return b, 0, true
	}
	return b, 1, true
}

// countedLoop describes `for idx over [0,len(D))` in either SSA shape.
type countedLoop struct {
	loop    *ssau.Loop
	idx     ssa.Value
	d       ssa.Value
	exhaust flow.Edge
	body    *ssa.BasicBlock
}

func recogniseLoop(l *ssau.Loop) (*countedLoop, string) {
	ifi := flow.IfOf(l.Header)
	if ifi == nil {
		return nil, "loop header does not end in a test"
	}
	v, pos := flow.BoolTest(ifi.Cond)
	b, ok := v.(*ssa.BinOp)
	if !ok {
		return nil, "loop condition is not a comparison"
	}
	var idx, lim ssa.Value
	switch b.Op {
	case token.LSS:
		idx, lim = b.X, b.Y
	case token.GTR:
		idx, lim = b.Y, b.X
	default:
		return nil, "loop condition is not idx < len(deps)"
	}
	d, ok := lenOf(lim)
	if !ok {
		return nil, "loop bound is not len(deps)"
	}
	// induction variable
	one := func(v ssa.Value) bool { k, ok := ssau.ConstInt(v); return ok && k == 1 }
	okInd := false
	switch x := idx.(type) {
	case *ssa.Phi: // i := 0; i < n; i++
		if x.Block() == l.Header {
			okInd = true
			for k, e := range x.Edges {
				pred := l.Header.Preds[k]
				if l.Blocks[pred] {
					inc, isB := e.(*ssa.BinOp)
					if !isB || inc.Op != token.ADD || !((inc.X == x && one(inc.Y)) || (inc.Y == x && one(inc.X))) {
						okInd = false
					}
				} else if k0, isC := ssau.ConstInt(e); !isC || k0 != 0 {
					okInd = false
				}
			}
		}
	case *ssa.BinOp: // range: idx = phi + 1, phi starts at -1
		if x.Op == token.ADD && one(x.Y) {
			if ph, isP := x.X.(*ssa.Phi); isP && ph.Block() == l.Header {
				okInd = true
				for k, e := range ph.Edges {
					pred := l.Header.Preds[k]
					if l.Blocks[pred] {
						if e != x {
							okInd = false
						}
					} else if k0, isC := ssau.ConstInt(e); !isC || k0 != -1 {
						okInd = false
					}
				}
			}
		}
	}
	if !okInd {
		return nil, "index does not run 0,1,2,… by steps of one"
	}
	bodyK, exK := 0, 1
	if !pos {
		bodyK, exK = 1, 0
	}
	if !l.Blocks[l.Header.Succs[bodyK]] || l.Blocks[l.Header.Succs[exK]] {
		return nil, "loop shape not recognised"
	}
	return &countedLoop{loop: l, idx: idx, d: d, exhaust: flow.Edge{From: l.Header, K: exK}, body: l.Header.Succs[bodyK]}, ""
}

// ---------------------------------------------------------------------------
// NODE-4

type depTest struct {
	kind   string // ver | state
	at     *ssa.If
	cleanK int
	d, idx ssa.Value
}

func (pr *proto) node4() {
	fn := pr.body(pr.mOutdated)
	name := pr.fname(fn)
	nilClean := map[flow.Edge]bool{}
	flagClean := map[flow.Edge]bool{}
	emptyEdges := map[flow.Edge]bool{}
	var tests []depTest
	var emptyOf []ssa.Value

	for _, b := range fn.Blocks {
		ifi := flow.IfOf(b)
		if ifi == nil {
			continue
		}
		// flag test
		if v, pos := flow.BoolTest(ifi.Cond); v != nil {
			if fv, _ := flow.LoadedField(v); sameField(fv, pr.fFlag) {
				k := 1
				if !pos {
					k = 0
				}
				flagClean[flow.Edge{From: b, K: k}] = true
				continue
			}
		}
		bo, eqK, ok := equalEdge(ifi.Cond)
		if !ok {
			continue
		}
		for _, sw := range [][2]ssa.Value{{bo.X, bo.Y}, {bo.Y, bo.X}} {
			x, y := sw[0], sw[1]
			// depVersions == nil
			if fv, _ := flow.LoadedField(flow.StripAll(x)); sameField(fv, pr.fDepV) && flow.IsNilConst(y) {
				nilClean[flow.Edge{From: b, K: 1 - eqK}] = true
				break
			}
			if inner, isLen := lenOf(x); isLen {
				if k0, isC := ssau.ConstInt(y); isC && k0 == 0 {
					if fv, _ := flow.LoadedField(flow.StripAll(inner)); sameField(fv, pr.fDepV) {
						nilClean[flow.Edge{From: b, K: 1 - eqK}] = true
						break
					}
					if _, isCall := flow.StripAll(inner).(*ssa.Call); isCall {
						emptyEdges[flow.Edge{From: b, K: eqK}] = true
						emptyOf = append(emptyOf, flow.StripAll(inner))
						break
					}
				}
			}
			// dep.Version() != depVersions[i]
			if recv, isV := methodCallOn(x, "Version"); isV {
				if d, idx, isP := projOfElem(recv); isP {
					if rd, ridx, isE := elemOf(y); isE {
						if fv, _ := flow.LoadedField(flow.StripAll(rd)); sameField(fv, pr.fDepV) {
							if ridx != idx {
								pr.rep.violate("NODE-4", name+"#version-compared", ssau.PosOf(ifi), "the version of dependency i is compared with the remembered version at a different position")
							}
							tests = append(tests, depTest{kind: "ver", at: ifi, cleanK: eqK, d: d, idx: idx})
							break
						}
					}
				}
			}
			// dep.State() != Processed
			if recv, isS := methodCallOn(x, "State"); isS {
				if d, idx, isP := projOfElem(recv); isP {
					if k0, isC := ssau.ConstInt(y); isC {
						if k0 != pr.processed {
							pr.rep.violate("NODE-4", name+"#state-compared", ssau.PosOf(ifi), "dependency State() is compared with a constant other than Processed")
						}
						tests = append(tests, depTest{kind: "state", at: ifi, cleanK: eqK, d: d, idx: idx})
						// NODE-12: a test against a constant is not relative to the last execution. A dependency the
						// processing never reads (a lazily evaluated input) is never processed, stays Stale, and keeps
						// this test true after every execution: the node re-executes on every read with nothing changed.
						pr.rep.violate("NODE-12", name+"#state-relative", ssau.PosOf(ifi), "the state of dependency i is compared with the constant Processed instead of the state remembered for it at the last execution: a dependency the processing never reads stays Stale, so Outdated() is still true right after processing and the node re-executes (and bumps its version) on every read")
						break
					}
					// dep.State() != depStates[i]: the state remembered at the last execution, same position
					if rd, ridx, isE := elemOf(y); isE {
						if fv, _ := flow.LoadedField(flow.StripAll(rd)); ownStateField(fv, pr) {
							if ridx != idx {
								pr.rep.violate("NODE-4", name+"#state-compared", ssau.PosOf(ifi), "the state of dependency i is compared with the remembered state at a different position")
							}
							if !recordedFromState(pr, fv) {
								pr.rep.violate("NODE-12", name+"#state-relative", ssau.PosOf(ifi), "the remembered states are never recorded from the dependencies' State() when the node executes")
							} else {
								pr.rep.hold("NODE-12", name+"#state-relative", ssau.PosOf(ifi), "the state of dependency i is compared with the state recorded for it at the last execution (read dependencies are Processed then; unread ones may stay Stale without making the node outdated)")
							}
							tests = append(tests, depTest{kind: "state", at: ifi, cleanK: eqK, d: d, idx: idx})
							break
						}
					}
				}
			}
		}
	}

	// the dependency slice and its enumerator
	var D ssa.Value
	for _, t := range tests {
		if D == nil {
			D = t.d
		} else if D != t.d {
			pr.rep.undecide("NODE-4", name+"#loop", ssau.PosOf(t.at), "dependency tests use different slices")
			return
		}
	}
	nVer, nState := 0, 0
	for _, t := range tests {
		if t.kind == "ver" {
			nVer++
		} else {
			nState++
		}
	}
	if nVer == 0 {
		pr.rep.violate("NODE-4", name+"#version-compared", fn.Pos(), "Outdated() never compares dep.Version() of a dependency with the version remembered at the same position: a parameter update or upstream execution goes unnoticed")
	}
	if nState == 0 {
		pr.rep.violate("NODE-4", name+"#state-compared", fn.Pos(), "Outdated() never tests dep.State() != Processed: a dependency that is itself outdated (its version only moves when it is read) is not noticed, so transitive staleness is lost")
	}

	sites := flow.ReturnSites(fn, 0)
	var falseSites []flow.RetSite
	nTrue := 0
	for k, s := range sites {
		cb, ok := flow.ConstBool(s.Cons)
		if !ok {
			pr.rep.undecide("NODE-4", fmt.Sprintf("%s#return%d", name, k), s.Pos(), "Outdated() returns a computed value; only constant true/false return sites (possibly merged by a phi) are recognised")
			return
		}
		if cb {
			nTrue++
		} else {
			falseSites = append(falseSites, s)
		}
	}
	if len(falseSites) == 0 || nTrue == 0 {
		pr.rep.violate("NODE-4", name, fn.Pos(), "Outdated() does not have both a `return true` and a `return false`")
		return
	}

	guard := func(construct string, cut map[flow.Edge]bool, missing, leak string) {
		if len(cut) == 0 {
			pr.rep.violate("NODE-4", construct, fn.Pos(), missing)
			return
		}
		for _, s := range falseSites {
			if s.Reachable(fn, cut) {
				pr.rep.violate("NODE-4", construct, s.Pos(), leak, fmt.Sprintf("%d guarding edge(s) recognised", len(cut)))
				return
			}
		}
		pr.rep.hold("NODE-4", construct, fn.Pos(), fmt.Sprintf("every path to `return false` passes one of %d guarding edge(s)", len(cut)))
	}
	guard(name+"#nil-snapshot", nilClean,
		"Outdated() never tests depVersions == nil: a node that has never executed would be reported fresh",
		"`return false` is reachable without passing the depVersions != nil edge")
	guard(name+"#flag", flagClean,
		"Outdated() never tests inputChangedSinceLastProcess: re-wiring would not invalidate the cache",
		"`return false` is reachable without passing the flag-clear edge")

	if D == nil {
		return
	}
	if sl, isSl := D.(*ssa.Slice); isSl {
		if dc, isC := flow.StripAll(sl.X).(*ssa.Call); isC && !dc.Common().IsInvoke() {
			pr.enumerator = flow.Callee(dc)
		}
		pr.rep.violate("NODE-4", name+"#all-dependencies", ssau.PosOf(sl), "the dependency loop runs over a sub-slice of the dependency list: the remaining dependencies are never consulted")
		return
	}
	dcall, ok := flow.StripAll(D).(*ssa.Call)
	if !ok || flow.Callee(dcall) == nil || dcall.Common().IsInvoke() {
		pr.rep.undecide("NODE-4", name+"#loop", fn.Pos(), "the dependency slice is not the direct result of a static call")
		return
	}
	pr.enumerator = flow.Callee(dcall)

	// loops
	loops := ssau.Loops(fn)
	exhaust := map[flow.Edge]bool{}
	for e := range emptyEdges {
		exhaust[e] = true
	}
	for i, ev := range emptyOf {
		_ = i
		if ev != flow.StripAll(D) {
			pr.rep.undecide("NODE-4", name+"#loop", fn.Pos(), "an emptiness shortcut tests a slice other than the dependency slice")
			return
		}
	}
	seenLoop := map[*ssau.Loop]*countedLoop{}
	for _, t := range tests {
		l := ssau.InnermostLoop(loops, t.at.Block())
		if l == nil {
			pr.rep.violate("NODE-4", name+"#all-dependencies", ssau.PosOf(t.at), "a dependency is tested outside any loop: only one dependency is consulted")
			return
		}
		cl := seenLoop[l]
		if cl == nil {
			var why string
			cl, why = recogniseLoop(l)
			if cl == nil {
				pr.rep.undecide("NODE-4", name+"#loop", ssau.PosOf(t.at), "dependency loop not recognised: "+why)
				return
			}
			seenLoop[l] = cl
			if flow.StripAll(cl.d) != flow.StripAll(D) {
				pr.rep.violate("NODE-4", name+"#all-dependencies", ssau.PosOf(t.at), "the loop is not bounded by len() of the full dependency slice: not every dependency is consulted")
				return
			}
			exhaust[cl.exhaust] = true
		}
		if t.idx != cl.idx {
			pr.rep.violate("NODE-4", name+"#all-dependencies", ssau.PosOf(t.at), "the tested dependency is not the loop's current element")
			return
		}
	}
	leaked := false
	for _, s := range falseSites {
		if s.Reachable(fn, exhaust) {
			pr.rep.violate("NODE-4", name+"#all-dependencies", s.Pos(),
				"`return false` is reachable without exhausting the loop over Dependencies() (break / early return / bounded prefix): later dependencies are never consulted",
				fmt.Sprintf("%d exhaustion/empty edge(s) recognised", len(exhaust)))
			leaked = true
			break
		}
	}
	if !leaked {
		pr.rep.hold("NODE-4", name+"#all-dependencies", fn.Pos(), fmt.Sprintf("`return false` only after the loop over %s() is exhausted (or the slice is empty); %d edge(s)", pr.enumerator.Name(), len(exhaust)))
	}

	// inside the loop: every iteration passes the equal-edge of a version test and of a state test;
	// the unequal edges lead to `return true` only
	var cls []*countedLoop
	for _, cl := range seenLoop {
		cls = append(cls, cl)
	}
	sort.Slice(cls, func(i, j int) bool { return cls[i].loop.Header.Index < cls[j].loop.Header.Index })
	for _, kind := range []string{"ver", "state"} {
		construct := name + "#version-compared"
		what := "dep.Version() against the remembered version"
		if kind == "state" {
			construct = name + "#state-compared"
			what = "dep.State() against Processed"
		}
		n := 0
		for _, t := range tests {
			if t.kind == kind {
				n++
			}
		}
		if n == 0 {
			continue // already reported
		}
		bad := false
		for _, cl := range cls {
			cut := map[flow.Edge]bool{}
			for _, t := range tests {
				if t.kind == kind {
					cut[flow.Edge{From: t.at.Block(), K: t.cleanK}] = true
				}
			}
			// stay inside the loop
			for b := range cl.loop.Blocks {
				for k, s := range b.Succs {
					if !cl.loop.Blocks[s] {
						cut[flow.Edge{From: b, K: k}] = true
					}
				}
			}
			r := flow.ReachFrom(cl.body, cut)
			if r[cl.loop.Header] {
				pr.rep.violate("NODE-4", construct, cl.loop.Header.Instrs[0].Pos(), "an iteration can move on to the next dependency without having compared "+what)
				bad = true
			}
		}
		for _, t := range tests {
			if t.kind != kind {
				continue
			}
			staleTarget := t.at.Block().Succs[1-t.cleanK]
			// from the unequal edge only `return true` may be reached (without re-testing)
			r := flow.ReachFrom(staleTarget, nil)
			for _, s := range falseSites {
				reach := false
				if s.Via != nil {
					reach = r[s.Via.From]
				} else {
					reach = r[s.Ret.Block()]
				}
				if reach {
					pr.rep.violate("NODE-4", construct, ssau.PosOf(t.at), "after a mismatch of "+what+" the function can still return false")
					bad = true
					break
				}
			}
		}
		if !bad {
			pr.rep.hold("NODE-4", construct, fn.Pos(), fmt.Sprintf("%d test(s); no iteration avoids the comparison; the mismatch edge reaches only `return true`", n))
		}
	}
}

// ---------------------------------------------------------------------------
// NODE-6 positional consistency + ORD-1

func (pr *proto) node6() {
	if pr.enumerator == nil {
		pr.rep.undecide("NODE-6", pr.key+"#same-enumerator", pr.body(pr.mOutdated).Pos(), "the enumerator used by Outdated() was not identified (see NODE-4)")
		pr.rep.undecide("ORD-1", pr.key+"#enumerator", pr.body(pr.mOutdated).Pos(), "the enumerator used by Outdated() was not identified (see NODE-4)")
		return
	}
	// snapshot side: element stores depVersions[j] = D'[j].Dependency().Version()
	nElem := 0
	okAll := true
	for _, w := range pr.writes {
		if !sameField(w.field, pr.fDepV) || !w.elem {
			continue
		}
		nElem++
		fn := w.fn
		construct := pr.fname(fn) + "#positional"
		ia := w.at.Addr.(*ssa.IndexAddr)
		recv, isV := methodCallOn(w.at.Val, "Version")
		if !isV {
			pr.rep.violate("NODE-6", construct, ssau.PosOf(w.at), "a remembered dependency version is assigned something other than dep.Version()")
			okAll = false
			continue
		}
		d, idx, isP := projOfElem(recv)
		if !isP {
			pr.rep.undecide("NODE-6", construct, ssau.PosOf(w.at), "the snapshot does not read Version() of an element of the dependency slice")
			okAll = false
			continue
		}
		if idx != ia.Index {
			pr.rep.violate("NODE-6", construct, ssau.PosOf(w.at), "the version of dependency i is remembered at a position other than i, while Outdated() compares position i with dependency i")
			okAll = false
			continue
		}
		dc, isC := flow.StripAll(d).(*ssa.Call)
		if !isC {
			// the list was first remembered in a field of the node (`sn.deps = sn.Dependencies(); deps := sn.deps`):
			// the value read back is what the dominating store put there
			if lf, _ := flow.LoadedField(flow.StripAll(d)); lf != nil {
				if ld, isLd := flow.StripAll(d).(ssa.Instruction); isLd {
					var best *ssa.Store
					ssau.AllInstrs(fn, func(in ssa.Instruction) {
						st, isSt := in.(*ssa.Store)
						if !isSt {
							return
						}
						if sf, _ := flow.FieldBase(st.Addr); sameField(sf, lf) && ssau.Before(st, ld) && (best == nil || ssau.Before(best, st)) {
							best = st
						}
					})
					if best != nil {
						dc, isC = flow.StripAll(best.Val).(*ssa.Call)
					}
				}
			}
		}
		if !isC || flow.Callee(dc) == nil {
			pr.rep.undecide("NODE-6", construct, ssau.PosOf(w.at), "the snapshot's dependency slice is not a direct call result")
			okAll = false
			continue
		}
		if flow.Callee(dc) != pr.enumerator {
			pr.rep.violate("NODE-6", pr.key+"#same-enumerator", ssau.PosOf(w.at),
				fmt.Sprintf("the snapshot enumerates dependencies through %s() but Outdated() through %s(): positions need not correspond", flow.Callee(dc).Name(), pr.enumerator.Name()))
			okAll = false
			continue
		}
		// exhaustive loop and a snapshot slice of the same length
		l := ssau.InnermostLoop(ssau.Loops(fn), w.at.Block())
		if l == nil {
			pr.rep.violate("NODE-6", construct, ssau.PosOf(w.at), "the snapshot is not taken in a loop over all dependencies")
			okAll = false
			continue
		}
		cl, why := recogniseLoop(l)
		if cl == nil {
			pr.rep.undecide("NODE-6", construct, ssau.PosOf(w.at), "snapshot loop not recognised: "+why)
			okAll = false
			continue
		}
		if flow.StripAll(cl.d) != flow.StripAll(d) || cl.idx != idx {
			pr.rep.violate("NODE-6", construct, ssau.PosOf(w.at), "the snapshot loop does not run over every position of the dependency slice")
			okAll = false
			continue
		}
		// length of the remembered slice
		lenOK := false
		for _, w2 := range pr.writes {
			if sameField(w2.field, pr.fDepV) && !w2.elem && w2.fn == fn {
				if mk, isM := flow.StripAll(w2.at.Val).(*ssa.MakeSlice); isM {
					if x, isL := lenOf(mk.Len); isL && flow.StripAll(x) == flow.StripAll(d) {
						lenOK = true
					}
				}
			}
		}
		if !lenOK {
			pr.rep.undecide("NODE-6", construct, ssau.PosOf(w.at), "the remembered slice is not make([]int, len(deps)) of the same dependency slice")
			okAll = false
			continue
		}
		pr.rep.hold("NODE-6", construct, ssau.PosOf(w.at), "depVersions[i] = deps[i].Dependency().Version() for every i in [0,len(deps)), deps from "+pr.enumerator.Name()+"()")
	}
	if nElem == 0 {
		pr.rep.undecide("NODE-6", pr.key+"#same-enumerator", pr.body(pr.mProcess).Pos(), "no element-wise snapshot of dependency versions found")
		return
	}
	if okAll {
		pr.rep.hold("NODE-6", pr.key+"#same-enumerator", pr.body(pr.mOutdated).Pos(), "Outdated() and the snapshot both enumerate through "+pr.enumerator.Name()+"()")
	}

	// ORD-1: the enumerator is order-deterministic
	efn := pr.body(pr.enumerator)
	if efn == nil {
		pr.rep.undecide("ORD-1", pr.key+"."+pr.enumerator.Name(), pr.body(pr.mOutdated).Pos(), "enumerator has no body in package nodes")
		return
	}
	pr.eng.checkReturnsOrdered(pr.rep, "ORD-1", pr.fname(efn), efn,
		"Outdated() compares this slice position by position with the versions remembered by the previous call: with two or more inputs the order differs between calls, so an unchanged node looks outdated and re-executes (and bumps its version) spuriously")
}

// ---------------------------------------------------------------------------
// ORD-1 engine glue

type ordEngine struct {
	c      *props.Ctx
	o      *flow.Ord1
	byName map[string][]*ssa.Function
}

func funcModulePath(fn *ssa.Function) string {
	if fn == nil {
		return ""
	}
	if fn.Pkg != nil {
		return fn.Pkg.Pkg.Path()
	}
	if o := fn.Origin(); o != nil && o.Pkg != nil {
		return o.Pkg.Pkg.Path()
	}
	if fn.Object() != nil && fn.Object().Pkg() != nil {
		return fn.Object().Pkg().Path()
	}
	if fn.Parent() != nil {
		return funcModulePath(fn.Parent())
	}
	return ""
}

func newOrdEngine(c *props.Ctx) *ordEngine {
	e := &ordEngine{c: c, byName: map[string][]*ssa.Function{}}
	// index all repository methods by name (for interface calls)
	for _, pk := range c.P.Pkgs {
		scope := pk.Types.Scope()
		for _, n := range scope.Names() {
			tn, ok := scope.Lookup(n).(*types.TypeName)
			if !ok {
				continue
			}
			named, ok := tn.Type().(*types.Named)
			if !ok {
				continue
			}
			for i := 0; i < named.NumMethods(); i++ {
				m := named.Method(i)
				if f := c.P.SSA.FuncValue(m.Origin()); f != nil && f.Blocks != nil {
					e.byName[m.Name()] = append(e.byName[m.Name()], f)
				}
			}
		}
	}
	e.o = &flow.Ord1{
		InScope: func(fn *ssa.Function) bool {
			p := funcModulePath(fn)
			return strings.HasPrefix(p, load.Module) || strings.HasPrefix(p, "github.com/EliCDavis/jbtf")
		},
		Impls: func(m *types.Func) []*ssa.Function {
			msig, _ := m.Type().(*types.Signature)
			var out []*ssa.Function
			for _, f := range e.byName[m.Name()] {
				fsig := f.Signature
				if msig != nil && types.Identical(msig.Params(), fsig.Params()) && types.Identical(msig.Results(), fsig.Results()) {
					out = append(out, f)
				}
			}
			return out
		},
	}
	return e
}

func (e *ordEngine) describeSources(s *flow.Summary) []string {
	var out []string
	for _, src := range s.Sources {
		st := "kept local"
		switch {
		case src.Leaks:
			st = "LEAKS: " + src.How
		case src.Sorted:
			st = "sorted before use"
		}
		out = append(out, fmt.Sprintf("%s at %s — %s", src.What, e.c.P.Pos(ssau.PosOf(src.At)), st))
	}
	return out
}

// checkReturnsOrdered records one obligation: the result of fn does not carry map iteration order.
func (e *ordEngine) checkReturnsOrdered(rep reporter, rule, construct string, fn *ssa.Function, consequence string) {
	sums := e.o.Summarise(fn)
	s := sums[fn]
	if s == nil {
		rep.undecide(rule, construct, fn.Pos(), "no summary")
		return
	}
	facts := e.describeSources(s)
	facts = append(facts, fmt.Sprintf("%d map-range loop(s) in the function, %d function(s) summarised", flow.MapRangeLoops(fn), len(sums)))
	if s.Ret != nil {
		rep.violate(rule, construct, ssau.PosOf(s.Ret.At),
			"the returned slice is built in map-iteration order ("+s.Ret.Why+") and is not sorted before it is returned. "+consequence, facts...)
		return
	}
	rep.hold(rule, construct, fn.Pos(), facts...)
}

// ownStateField: a slice field of the node type, other than the remembered versions, whose elements are of the type
// State() returns (the remembered dependency states).
func ownStateField(fv *types.Var, pr *proto) bool {
	if fv == nil || sameField(fv, pr.fDepV) {
		return false
	}
	sl, ok := fv.Type().Underlying().(*types.Slice)
	if !ok {
		return false
	}
	n, ok := sl.Elem().(*types.Named)
	return ok && n.Obj().Name() == "NodeState"
}

// recordedFromState: some method of the node type stores the result of a dependency's State() into an element of fv.
func recordedFromState(pr *proto, fv *types.Var) bool {
	found := false
	for _, fn := range pr.fns {
		ssau.AllInstrs(fn, func(in ssa.Instruction) {
			st, ok := in.(*ssa.Store)
			if !ok {
				return
			}
			ia, ok := st.Addr.(*ssa.IndexAddr)
			if !ok {
				return
			}
			if f, _ := flow.LoadedField(flow.StripAll(ia.X)); !sameField(f, fv) {
				return
			}
			if _, isS := methodCallOn(st.Val, "State"); isS {
				found = true
			}
		})
	}
	return found
}
