package c11

import (
	"fmt"
	"go/token"
	"go/types"

	"golang.org/x/tools/go/ssa"

	"polycheck/props/c11/flow"
	"polycheck/ssau"
)

// REFL-1 (beyond DESIGN.md; necessary for NODE-4/NODE-6/NODE-9 to mean anything):
// the reflective helpers through which the enumerator sees the data struct walk
// *every* field. For each refutil function called by the enumerator that returns a
// map: its field loop runs i = 0,1,…,NumField()-1, cannot be left early (break /
// return) except by panicking, every element loop nested in it is bounded by
// Len() from 0 by steps of one, and the returned map is filled inside the loop.
//
// Deliberately tolerated: early exit from the nested *element* loop
// (FieldValuesOfTypeInArray stops at the first element that is not a T). That is
// element-independent for well-formed arrays; see REPORT.md, open issues.

func reflBound(v ssa.Value, method string) bool {
	c, ok := flow.StripAll(v).(*ssa.Call)
	if !ok {
		return false
	}
	cal := flow.Callee(c)
	if cal == nil || cal.Name() != method || cal.Pkg() == nil || cal.Pkg().Path() != "reflect" {
		return false
	}
	return true
}

// countedOver recognises `for i := 0; i < bound; i++` where bound satisfies isBound.
func countedOver(l *ssau.Loop, isBound func(ssa.Value) bool) (exhaust flow.Edge, ok bool, why string) {
	ifi := flow.IfOf(l.Header)
	if ifi == nil {
		return flow.Edge{}, false, "loop header does not end in a test"
	}
	v, pos := flow.BoolTest(ifi.Cond)
	b, isB := v.(*ssa.BinOp)
	if !isB {
		return flow.Edge{}, false, "loop condition is not a comparison"
	}
	var idx, lim ssa.Value
	switch b.Op {
	case token.LSS:
		idx, lim = b.X, b.Y
	case token.GTR:
		idx, lim = b.Y, b.X
	default:
		return flow.Edge{}, false, "loop condition is not i < bound"
	}
	if !isBound(lim) {
		return flow.Edge{}, false, "bound is not the full count"
	}
	ph, isP := idx.(*ssa.Phi)
	if !isP || ph.Block() != l.Header {
		return flow.Edge{}, false, "index is not a loop counter"
	}
	one := func(v ssa.Value) bool { k, ok := ssau.ConstInt(v); return ok && k == 1 }
	for k, e := range ph.Edges {
		pred := l.Header.Preds[k]
		if l.Blocks[pred] {
			inc, isInc := e.(*ssa.BinOp)
			if !isInc || inc.Op != token.ADD || !((inc.X == ph && one(inc.Y)) || (inc.Y == ph && one(inc.X))) {
				return flow.Edge{}, false, "counter does not advance by one on every iteration"
			}
		} else if k0, isC := ssau.ConstInt(e); !isC || k0 != 0 {
			return flow.Edge{}, false, "counter does not start at 0"
		}
	}
	exK := 1
	if !pos {
		exK = 0
	}
	return flow.Edge{From: l.Header, K: exK}, true, ""
}

func reachesReturn(b *ssa.BasicBlock) bool {
	for blk := range flow.ReachFrom(b, nil) {
		if len(blk.Instrs) > 0 {
			if _, ok := blk.Instrs[len(blk.Instrs)-1].(*ssa.Return); ok {
				return true
			}
		}
	}
	return false
}

func (pr *proto) refl1() {
	if pr.enumerator == nil {
		return
	}
	efn := pr.body(pr.enumerator)
	if efn == nil {
		return
	}
	seen := map[*types.Func]bool{}
	var helpers []*types.Func
	ssau.AllInstrs(efn, func(in ssa.Instruction) {
		c, ok := in.(ssa.CallInstruction)
		if !ok {
			return
		}
		cal := flow.Callee(c)
		if cal == nil || cal.Pkg() == nil || cal.Pkg().Path() != refutilPath || seen[cal] {
			return
		}
		sig := cal.Type().(*types.Signature)
		if sig.Results().Len() != 1 {
			return
		}
		if _, isMap := sig.Results().At(0).Type().Underlying().(*types.Map); !isMap {
			return
		}
		seen[cal] = true
		helpers = append(helpers, cal)
	})
	if len(helpers) == 0 {
		pr.rep.undecide("REFL-1", pr.fname(efn), efn.Pos(), "the enumerator does not obtain its inputs from a refutil helper returning a map; field coverage of the enumeration cannot be established")
		return
	}
	for _, h := range helpers {
		fn := pr.c.P.SSA.FuncValue(h)
		if fn == nil || fn.Blocks == nil {
			pr.rep.undecide("REFL-1", "refutil."+h.Name(), efn.Pos(), "helper has no body")
			continue
		}
		pr.reflHelper(fn)
	}
}

// reflHelper checks one reflective field enumerator.
func (pr *proto) reflHelper(fn *ssa.Function) {
	for once := true; once; once = false {
		construct := pr.c.P.FuncName(fn)
		loops := ssau.Loops(fn)
		var outer *ssau.Loop
		var exhaust flow.Edge
		for _, l := range loops {
			if e, ok, _ := countedOver(l, func(v ssa.Value) bool { return reflBound(v, "NumField") }); ok {
				if outer == nil || len(l.Blocks) > len(outer.Blocks) {
					outer, exhaust = l, e
				}
			}
		}
		if outer == nil {
			pr.rep.violate("REFL-1", construct, fn.Pos(), "no loop `for i := 0; i < NumField(); i++` found: the helper does not walk every field of the data struct, so some inputs are invisible to Dependencies()/Outdated()")
			continue
		}
		bad := false
		// no early exit except panics
		for b := range outer.Blocks {
			for k, s := range b.Succs {
				if outer.Blocks[s] || (flow.Edge{From: b, K: k}) == exhaust {
					continue
				}
				if reachesReturn(s) {
					bad = true
					pr.rep.violate("REFL-1", construct, ssau.PosOf(b.Instrs[len(b.Instrs)-1]),
						"the field loop can be left before the last field (break / return): fields declared after that point are never enumerated, so Outdated() does not consult those inputs")
				}
			}
		}
		// nested element loops are bounded by Len() from 0 by one
		nInner := 0
		for _, l := range loops {
			if l == outer || !outer.Blocks[l.Header] {
				continue
			}
			nInner++
			if _, ok, why := countedOver(l, func(v ssa.Value) bool { return reflBound(v, "Len") }); !ok {
				bad = true
				pr.rep.violate("REFL-1", construct, l.Header.Instrs[0].Pos(), "a nested element loop does not run over 0..Len()-1 ("+why+"): some array inputs are never enumerated")
			}
		}
		// the returned map is filled inside the loop
		filled := false
		var retMap ssa.Value
		for _, s := range flow.ReturnSites(fn, 0) {
			retMap = flow.StripAll(s.Val)
		}
		for b := range outer.Blocks {
			for _, in := range b.Instrs {
				if mu, ok := in.(*ssa.MapUpdate); ok && flow.StripAll(mu.Map) == retMap {
					filled = true
				}
			}
		}
		if !filled {
			bad = true
			pr.rep.violate("REFL-1", construct, fn.Pos(), "the returned map is never filled inside the field loop")
		}
		if !bad {
			pr.rep.hold("REFL-1", construct, fn.Pos(), fmt.Sprintf("field loop 0..NumField()-1 with no early exit, %d nested element loop(s) over 0..Len()-1, result map filled in the loop", nInner))
		}
	}
}
