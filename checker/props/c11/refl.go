package c11

import (
	"fmt"
	"go/token"
	"go/types"
	"sort"
	"strings"

	"golang.org/x/tools/go/ssa"

	"polycheck/props/c11/flow"
	"polycheck/ssau"
)

// REFL-1 (beyond DESIGN.md; necessary for NODE-4/NODE-6/NODE-9 to mean anything):
// the reflective helpers through which the enumerator sees the data struct walk
// *every* field. For each refutil function called by the enumerator that returns a
// map: its field loop runs i = 0,1,…,NumField()-1, cannot be left early (break /
// return) except by panicking, every element loop nested in it is bounded by
// Len() from 0 by steps of one, and the returned map is filled inside the loop.
//
// Deliberately tolerated: early exit from the nested *element* loop
// (FieldValuesOfTypeInArray stops at the first element that is not a T). That is
// element-independent for well-formed arrays; see REPORT.md, open issues.

func reflBound(v ssa.Value, method string) bool {
	c, ok := flow.StripAll(v).(*ssa.Call)
	if !ok {
		return false
	}
	cal := flow.Callee(c)
	if cal == nil || cal.Name() != method || cal.Pkg() == nil || cal.Pkg().Path() != "reflect" {
		return false
	}
	return true
}

// countedOver recognises `for i := 0; i < bound; i++` where bound satisfies isBound.
func countedOver(l *ssau.Loop, isBound func(ssa.Value) bool) (exhaust flow.Edge, ok bool, why string) {
	ifi := flow.IfOf(l.Header)
	if ifi == nil {
		return flow.Edge{}, false, "loop header does not end in a test"
	}
	v, pos := flow.BoolTest(ifi.Cond)
	b, isB := v.(*ssa.BinOp)
	if !isB {
		return flow.Edge{}, false, "loop condition is not a comparison"
	}
	var idx, lim ssa.Value
	switch b.Op {
	case token.LSS:
		idx, lim = b.X, b.Y
	case token.GTR:
		idx, lim = b.Y, b.X
	default:
		return flow.Edge{}, false, "loop condition is not i < bound"
	}
	if !isBound(lim) {
		return flow.Edge{}, false, "bound is not the full count"
	}
	ph, isP := idx.(*ssa.Phi)
	if !isP || ph.Block() != l.Header {
		return flow.Edge{}, false, "index is not a loop counter"
	}
	one := func(v ssa.Value) bool { k, ok := ssau.ConstInt(v); return ok && k == 1 }
	for k, e := range ph.Edges {
		pred := l.Header.Preds[k]
		if l.Blocks[pred] {
			inc, isInc := e.(*ssa.BinOp)
			if !isInc || inc.Op != token.ADD || !((inc.X == ph && one(inc.Y)) || (inc.Y == ph && one(inc.X))) {
				return flow.Edge{}, false, "counter does not advance by one on every iteration"
			}
		} else if k0, isC := ssau.ConstInt(e); !isC || k0 != 0 {
			return flow.Edge{}, false, "counter does not start at 0"
		}
	}
	exK := 1
	if !pos {
		exK = 0
	}
	return flow.Edge{From: l.Header, K: exK}, true, ""
}

func reachesReturn(b *ssa.BasicBlock) bool {
	for blk := range flow.ReachFrom(b, nil) {
		if len(blk.Instrs) > 0 {
			if _, ok := blk.Instrs[len(blk.Instrs)-1].(*ssa.Return); ok {
				return true
			}
		}
	}
	return false
}

func (pr *proto) refl1() {
	if pr.enumerator == nil {
		return
	}
	efn := pr.body(pr.enumerator)
	if efn == nil {
		return
	}
	seen := map[*types.Func]bool{}
	var helpers []*types.Func
	ssau.AllInstrs(efn, func(in ssa.Instruction) {
		c, ok := in.(ssa.CallInstruction)
		if !ok {
			return
		}
		cal := flow.Callee(c)
		if cal == nil || cal.Pkg() == nil || cal.Pkg().Path() != refutilPath || seen[cal] {
			return
		}
		sig := cal.Type().(*types.Signature)
		if sig.Results().Len() != 1 {
			return
		}
		if _, isMap := sig.Results().At(0).Type().Underlying().(*types.Map); !isMap {
			return
		}
		seen[cal] = true
		helpers = append(helpers, cal)
	})
	if len(helpers) == 0 {
		pr.rep.undecide("REFL-1", pr.fname(efn), efn.Pos(), "the enumerator does not obtain its inputs from a refutil helper returning a map; field coverage of the enumeration cannot be established")
		return
	}
	for _, h := range helpers {
		fn := pr.c.P.SSA.FuncValue(h)
		if fn == nil || fn.Blocks == nil {
			pr.rep.undecide("REFL-1", "refutil."+h.Name(), efn.Pos(), "helper has no body")
			continue
		}
		pr.reflHelper(fn)
	}
	pr.reflArrayWriter()
}

// reflHelper checks one reflective field enumerator.
func (pr *proto) reflHelper(fn *ssa.Function) {
	for once := true; once; once = false {
		construct := pr.c.P.FuncName(fn)
		loops := ssau.Loops(fn)
		var outer *ssau.Loop
		var exhaust flow.Edge
		for _, l := range loops {
			if e, ok, _ := countedOver(l, func(v ssa.Value) bool { return reflBound(v, "NumField") }); ok {
				if outer == nil || len(l.Blocks) > len(outer.Blocks) {
					outer, exhaust = l, e
				}
			}
		}
		if outer == nil {
			pr.rep.violate("REFL-1", construct, fn.Pos(), "no loop `for i := 0; i < NumField(); i++` found: the helper does not walk every field of the data struct, so some inputs are invisible to Dependencies()/Outdated()")
			continue
		}
		bad := false
		// no early exit except panics
		for b := range outer.Blocks {
			for k, s := range b.Succs {
				if outer.Blocks[s] || (flow.Edge{From: b, K: k}) == exhaust {
					continue
				}
				if reachesReturn(s) {
					bad = true
					pr.rep.violate("REFL-1", construct, ssau.PosOf(b.Instrs[len(b.Instrs)-1]),
						"the field loop can be left before the last field (break / return): fields declared after that point are never enumerated, so Outdated() does not consult those inputs")
				}
			}
		}
		// nested element loops are bounded by Len() from 0 by one
		nInner := 0
		for _, l := range loops {
			if l == outer || !outer.Blocks[l.Header] {
				continue
			}
			nInner++
			if _, ok, why := countedOver(l, func(v ssa.Value) bool { return reflBound(v, "Len") }); !ok {
				bad = true
				pr.rep.violate("REFL-1", construct, l.Header.Instrs[0].Pos(), "a nested element loop does not run over 0..Len()-1 ("+why+"): some array inputs are never enumerated")
			}
		}
		// the returned map is filled inside the loop
		filled := false
		var retMap ssa.Value
		for _, s := range flow.ReturnSites(fn, 0) {
			retMap = flow.StripAll(s.Val)
		}
		for b := range outer.Blocks {
			for _, in := range b.Instrs {
				if mu, ok := in.(*ssa.MapUpdate); ok && flow.StripAll(mu.Map) == retMap {
					filled = true
				}
			}
		}
		if !filled {
			bad = true
			pr.rep.violate("REFL-1", construct, fn.Pos(), "the returned map is never filled inside the field loop")
		}
		if !bad {
			pr.rep.hold("REFL-1", construct, fn.Pos(), fmt.Sprintf("field loop 0..NumField()-1 with no early exit, %d nested element loop(s) over 0..Len()-1, result map filled in the loop", nInner))
		}
		pr.refl2(fn, outer, retMap)
	}
}

// REFL-2: value currency of the reflective enumeration. What is stored into the result
// map under the key of field i belongs to field i alone:
//   - key and stored value (for slice values: every appended element) derive from the
//     accessors of the *current* field (reflect Field(i) with i the field loop's counter);
//   - a slice stored under a key is a distinct allocation per key: walking back from the
//     stored value through append (first argument), re-slicing, phis, conversions and
//     local variables, every alias root is created inside the iteration (make, literal,
//     nil, a cloning call) or is the map's own entry for the same key. A root that is a
//     phi at the field loop's header, or is defined outside the loop (one scratch slice
//     re-sliced to [:0] per field), is shared across keys: collecting a later field
//     overwrites the elements stored for an earlier one, so Dependencies() loses or
//     mis-attributes inputs and an update of the lost input is never noticed.
func (pr *proto) refl2(fn *ssa.Function, outer *ssau.Loop, retMap ssa.Value) {
	construct := pr.c.P.FuncName(fn)
	// the field counter
	var idx *ssa.Phi
	if ifi := flow.IfOf(outer.Header); ifi != nil {
		if v, _ := flow.BoolTest(ifi.Cond); v != nil {
			if b, ok := v.(*ssa.BinOp); ok {
				for _, o := range []ssa.Value{b.X, b.Y} {
					if ph, isP := o.(*ssa.Phi); isP && ph.Block() == outer.Header {
						idx = ph
					}
				}
			}
		}
	}
	fromCurrentField := func(v ssa.Value) bool {
		return idx != nil && derivesC11(v, func(y ssa.Value) bool {
			c, ok := y.(*ssa.Call)
			if !ok {
				return false
			}
			cal := flow.Callee(c)
			if cal == nil || cal.Name() != "Field" || cal.Pkg() == nil || cal.Pkg().Path() != "reflect" {
				return false
			}
			for _, a := range c.Common().Args {
				if a == ssa.Value(idx) {
					return true
				}
			}
			return false
		})
	}
	inLoop := func(v ssa.Value) bool {
		in, ok := v.(ssa.Instruction)
		return ok && outer.Blocks[in.Block()]
	}
	var problems []string
	nStores := 0
	for b := range outer.Blocks {
		for _, in := range b.Instrs {
			mu, ok := in.(*ssa.MapUpdate)
			if !ok || flow.StripAll(mu.Map) != retMap {
				continue
			}
			nStores++
			if !fromCurrentField(mu.Key) {
				problems = append(problems, "the key does not derive from the current field (Field(i))")
			}
			_, isSlice := mu.Value.Type().Underlying().(*types.Slice)
			if !isSlice {
				if !fromCurrentField(mu.Value) {
					problems = append(problems, "the stored value does not derive from the current field (Field(i))")
				}
				continue
			}
			// alias roots of the stored slice, and the elements appended on the way
			seen := map[ssa.Value]bool{}
			var walk func(v ssa.Value)
			walk = func(v ssa.Value) {
				if v == nil || seen[v] {
					return
				}
				seen[v] = true
				switch x := v.(type) {
				case *ssa.Const:
					return // nil
				case *ssa.Phi:
					if x.Block() == outer.Header {
						problems = append(problems, "the stored slice is carried round the field loop (one slice shared by all keys)")
						return
					}
					for _, e := range x.Edges {
						walk(e)
					}
				case *ssa.Slice:
					walk(x.X)
				case *ssa.ChangeType:
					walk(x.X)
				case *ssa.Convert:
					walk(x.X)
				case *ssa.MakeSlice:
					if !inLoop(x) {
						problems = append(problems, "the stored slice is allocated once, outside the field loop, and shared by all keys")
					}
				case *ssa.Alloc:
					if !inLoop(x) {
						problems = append(problems, "the stored slice's backing array is allocated outside the field loop")
					}
				case *ssa.UnOp:
					if cell, isCell := x.X.(*ssa.Alloc); isCell && x.Op == token.MUL {
						if !inLoop(cell) {
							// a variable declared before the loop: what it holds when loaded may come from an earlier field
							stale := true
							for _, r := range ssau.Refs(cell) {
								if st, isSt := r.(*ssa.Store); isSt && st.Addr == ssa.Value(cell) && inLoop(st.Val) && ssau.Before(st, x) {
									stale = false // re-initialised in this iteration before the load
									walk(st.Val)
								}
							}
							if stale {
								problems = append(problems, "the stored slice lives in a variable declared outside the field loop and is not re-created per field")
							}
							return
						}
						for _, r := range ssau.Refs(cell) {
							if st, isSt := r.(*ssa.Store); isSt && st.Addr == ssa.Value(cell) {
								walk(st.Val)
							}
						}
						return
					}
					problems = append(problems, "the stored slice is loaded from memory that outlives the iteration")
				case *ssa.Lookup:
					// the map's own entry for the same key: append(out[k], e)
					if flow.StripAll(x.X) == retMap && (x.Index == mu.Key || fromCurrentField(x.Index)) {
						return
					}
					problems = append(problems, "the stored slice aliases another map entry")
				case *ssa.Extract:
					walk(x.Tuple)
				case *ssa.Call:
					if ssau.Builtin(x) == "append" {
						for _, e := range x.Call.Args[1:] {
							if !fromCurrentField(e) {
								problems = append(problems, "an appended element does not derive from the current field (Field(i).Index(j))")
							}
						}
						walk(x.Call.Args[0])
						return
					}
					if cal := flow.Callee(x); cal != nil && cal.Pkg() != nil && cal.Pkg().Path() == "slices" && (cal.Name() == "Clone" || cal.Name() == "Concat") {
						if !inLoop(x) {
							problems = append(problems, "the cloned slice is made outside the field loop")
						}
						for _, a := range x.Call.Args {
							if !fromCurrentField(a) {
								problems = append(problems, "the cloned elements do not derive from the current field")
							}
						}
						return
					}
					problems = append(problems, "the stored slice is the result of a call whose aliasing is not known ("+x.Call.Value.Name()+")")
				default:
					if !inLoop(v) {
						problems = append(problems, "the stored slice is defined outside the field loop")
					}
				}
			}
			walk(mu.Value)
		}
	}
	if nStores == 0 {
		return // REFL-1 already reported an unfilled map
	}
	if len(problems) > 0 {
		sort.Strings(problems)
		uniq := problems[:0]
		for i, p := range problems {
			if i == 0 || p != problems[i-1] {
				uniq = append(uniq, p)
			}
		}
		pr.rep.violate("REFL-2", construct, fn.Pos(), strings.Join(uniq, "; ")+": what is stored for one field can be overwritten or mixed with another field's inputs, so Dependencies() loses or mis-attributes an input and its updates go unnoticed (stale value, unchanged version)")
		return
	}
	pr.rep.hold("REFL-2", construct, fn.Pos(), fmt.Sprintf("%d store(s) into the result map: key and values from the current field, slices allocated per key", nStores))
}

// reflArrayWriter: AddToStructFieldArray appends exactly the value it is given to the field it is asked for.
func (pr *proto) reflArrayWriter() {
	fn := pr.c.P.Func("refutil", "AddToStructFieldArray")
	if fn == nil || fn.Blocks == nil || len(fn.Params) < 3 {
		pr.c.R.Failf("anchor refutil.AddToStructFieldArray not found")
		return
	}
	construct := pr.c.P.FuncName(fn)
	ok := false
	ssau.AllInstrs(fn, func(in ssa.Instruction) {
		c, isC := in.(*ssa.Call)
		if !isC {
			return
		}
		cal := flow.Callee(c)
		if cal == nil || cal.Pkg() == nil || cal.Pkg().Path() != "reflect" || cal.Name() != "Append" || len(c.Call.Args) < 2 {
			return
		}
		from := func(v ssa.Value, p *ssa.Parameter) bool {
			return derivesC11(v, func(y ssa.Value) bool { return y == ssa.Value(p) })
		}
		if from(c.Call.Args[0], fn.Params[0]) && from(c.Call.Args[0], fn.Params[1]) && from(c.Call.Args[1], fn.Params[2]) && !from(c.Call.Args[1], fn.Params[1]) {
			ok = true
		}
	})
	if ok {
		pr.rep.hold("REFL-2", construct, fn.Pos(), "reflect.Append(field named by the argument, the given value)")
	} else {
		pr.rep.violate("REFL-2", construct, fn.Pos(), "the array writer does not append the given value to the field it is asked for: SetInput wires something else than requested")
	}
}
