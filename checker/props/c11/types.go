package c11

import (
	"fmt"
	"go/token"
	"go/types"
	"sort"
	"strings"

	"golang.org/x/tools/go/ssa"

	"polycheck/load"
	"polycheck/ob"
	"polycheck/props"
	"polycheck/props/c11/flow"
	"polycheck/ssau"
)

// ---------------------------------------------------------------------------
// NODE-9: every node-output reference inside a node's data struct is visible to
// refutil.FieldValuesOfType / FieldValuesOfTypeInArray (exported, top-level,
// interface-typed field or slice of interfaces). NODE-8: Process uses them only
// through Value() / nil tests.

type dataStruct struct {
	inst  *types.Named // nodes.Struct[T,G]
	g     types.Type
	gName string
	pos   token.Pos
	pkg   string
}

func relType(t types.Type) string {
	return types.TypeString(t, func(p *types.Package) string {
		return strings.TrimPrefix(strings.TrimPrefix(p.Path(), load.Module), "/")
	})
}

func hasTypeParam(t types.Type, seen map[types.Type]bool) bool {
	if seen[t] {
		return false
	}
	seen[t] = true
	switch x := t.(type) {
	case *types.TypeParam:
		return true
	case *types.Named:
		for i := 0; i < x.TypeArgs().Len(); i++ {
			if hasTypeParam(x.TypeArgs().At(i), seen) {
				return true
			}
		}
	case *types.Pointer:
		return hasTypeParam(x.Elem(), seen)
	case *types.Slice:
		return hasTypeParam(x.Elem(), seen)
	case *types.Array:
		return hasTypeParam(x.Elem(), seen)
	case *types.Map:
		return hasTypeParam(x.Key(), seen) || hasTypeParam(x.Elem(), seen)
	case *types.Alias:
		return hasTypeParam(types.Unalias(x), seen)
	}
	return false
}

func collectDataStructs(c *props.Ctx, structNamed *types.Named, wantControl bool) []dataStruct {
	seen := map[string]bool{}
	var out []dataStruct
	for _, pk := range c.P.Pkgs {
		add := func(t types.Type, pos token.Pos) {
			n, ok := types.Unalias(t).(*types.Named)
			if !ok {
				if p, isP := types.Unalias(t).(*types.Pointer); isP {
					n, ok = types.Unalias(p.Elem()).(*types.Named)
				}
				if !ok {
					return
				}
			}
			if n.Origin() != structNamed.Origin() || n.TypeArgs().Len() != 2 {
				return
			}
			if hasTypeParam(n, map[types.Type]bool{}) {
				return
			}
			g := n.TypeArgs().At(1)
			k := relType(g)
			if seen[k] {
				return
			}
			if c.P.IsControl(pos) != wantControl {
				return
			}
			seen[k] = true
			out = append(out, dataStruct{inst: n, g: g, gName: k, pos: pos, pkg: pk.PkgPath})
		}
		for e, tv := range pk.TypesInfo.Types {
			if tv.Type != nil {
				add(tv.Type, e.Pos())
			}
		}
	}
	sort.Slice(out, func(i, j int) bool { return out[i].gName < out[j].gName })
	return out
}

type refKind int

const (
	refNone refKind = iota
	refIface
	refConcrete
)

type refClassifier struct {
	ref *types.Interface
}

func (rc refClassifier) direct(t types.Type) refKind {
	if _, ok := t.Underlying().(*types.Interface); ok {
		if types.Implements(t, rc.ref) {
			return refIface
		}
		return refNone
	}
	if _, ok := t.(*types.TypeParam); ok {
		return refNone
	}
	if types.Implements(t, rc.ref) {
		return refConcrete
	}
	if _, isPtr := t.Underlying().(*types.Pointer); !isPtr {
		if types.Implements(types.NewPointer(t), rc.ref) {
			return refConcrete
		}
	}
	return refNone
}

// contains walks t structurally and reports where a node-output reference hides.
func (rc refClassifier) contains(t types.Type, seen map[types.Type]bool, path string) (string, bool) {
	if seen[t] {
		return "", false
	}
	seen[t] = true
	if k := rc.direct(t); k != refNone {
		what := "interface"
		if k == refConcrete {
			what = "concrete node/output type " + relType(t)
		}
		return path + " (" + what + ")", true
	}
	switch x := t.Underlying().(type) {
	case *types.Pointer:
		return rc.contains(x.Elem(), seen, path+"*")
	case *types.Slice:
		return rc.contains(x.Elem(), seen, path+"[]")
	case *types.Array:
		return rc.contains(x.Elem(), seen, path+"[n]")
	case *types.Map:
		if w, ok := rc.contains(x.Key(), seen, path+"map-key"); ok {
			return w, true
		}
		return rc.contains(x.Elem(), seen, path+"map[]")
	case *types.Struct:
		for i := 0; i < x.NumFields(); i++ {
			if w, ok := rc.contains(x.Field(i).Type(), seen, path+"."+x.Field(i).Name()); ok {
				return w, true
			}
		}
	case *types.Chan:
		return rc.contains(x.Elem(), seen, path+"chan")
	}
	return "", false
}

func checkDataStructs(c *props.Ctx, eng *ordEngine) {
	nsp := c.P.SSAPkg("nodes")
	stn, ok := nsp.Pkg.Scope().Lookup("Struct").(*types.TypeName)
	rtn, ok2 := nsp.Pkg.Scope().Lookup("NodeOutputReference").(*types.TypeName)
	if !ok || !ok2 {
		c.R.Failf("anchor nodes.Struct / nodes.NodeOutputReference not found")
		return
	}
	structNamed, _ := stn.Type().(*types.Named)
	refI, _ := rtn.Type().Underlying().(*types.Interface)
	if structNamed == nil || refI == nil {
		c.R.Failf("anchor nodes.Struct is not a named type or NodeOutputReference not an interface")
		return
	}
	rc := refClassifier{ref: refI}
	ds := collectDataStructs(c, structNamed, false)
	c.R.Extra["struct_instantiations"] = len(ds)
	rep := repoRep{c}
	nFields, nRef := checkData(c, rep, rc, ds)
	c.R.Extra["data_struct_fields"] = nFields
	c.R.Extra["node_output_fields"] = nRef
	if c.Tier == "thorough" {
		c.R.Extra["process_methods_analysed"] = node8(c, rep, rc, ds)
	}
	if len(c.P.Controls) > 0 {
		cds := collectDataStructs(c, structNamed, true)
		if len(cds) == 0 {
			return
		}
		ctl := newCtl()
		checkData(c, ctl, rc, cds)
		node8(c, ctl, rc, cds)
		hidden, visible := 0, 0
		for _, f := range ctl.fired["NODE-9"] {
			if strings.Contains(f, "verifControlHiddenData") {
				hidden++
			}
			if strings.Contains(f, "verifControlVisibleData") {
				visible++
			}
		}
		v := ob.Holds
		if hidden == 4 {
			v = ob.Violation
		}
		c.R.Control("NODE-9", "control:bad", controlFile, v, ob.Violation, fmt.Sprintf("4 hidden references seeded, %d reported", hidden))
		v = ob.Holds
		if visible > 0 || len(ctl.und["NODE-9"]) > 0 {
			v = ob.Violation
		}
		c.R.Control("NODE-9", "control:good", controlFile, v, ob.Holds, "visible shapes must stay silent")
		h8, v8 := 0, 0
		for _, f := range ctl.fired["NODE-8"] {
			if strings.Contains(f, "verifControlHiddenData") {
				h8++
			}
			if strings.Contains(f, "verifControlVisibleData") {
				v8++
			}
		}
		v = ob.Holds
		if h8 > 0 {
			v = ob.Violation
		}
		c.R.Control("NODE-8", "control:bad", controlFile, v, ob.Violation, "Node().Version() around Value() must be reported")
		v = ob.Holds
		if v8 > 0 || len(ctl.und["NODE-8"]) > 0 {
			v = ob.Violation
		}
		c.R.Control("NODE-8", "control:good", controlFile, v, ob.Holds, strings.Join(append(ctl.fired["NODE-8"], ctl.und["NODE-8"]...), "; "))
	}
}

func checkData(c *props.Ctx, rep reporter, rc refClassifier, ds []dataStruct) (nFields, nRef int) {
	for _, d := range ds {
		g := d.g
		if p, isP := g.Underlying().(*types.Pointer); isP {
			g = p.Elem()
		}
		st, isS := g.Underlying().(*types.Struct)
		if !isS {
			rep.undecide("NODE-9", d.gName, d.pos, "the data type of this node is not a struct; the reflective enumeration panics on it")
			continue
		}
		pos := d.pos
		if n := ssau.NamedOf(g); n != nil {
			pos = n.Obj().Pos()
		}
		bad := false
		var seenFields []string
		for i := 0; i < st.NumFields(); i++ {
			f := st.Field(i)
			nFields++
			ft := f.Type()
			visibleShape := false
			if rc.direct(ft) == refIface {
				visibleShape = true
			} else if sl, isSl := ft.Underlying().(*types.Slice); isSl && rc.direct(sl.Elem()) == refIface {
				visibleShape = true
			}
			construct := d.gName + "." + f.Name()
			if visibleShape {
				nRef++
				if !f.Exported() {
					bad = true
					rep.violate("NODE-9", construct, f.Pos(),
						"node-output reference in an unexported field: reflect cannot Interface() it, so Dependencies()/Outdated() never consult this input and the node serves a stale output after the input changes")
					continue
				}
				seenFields = append(seenFields, f.Name())
				continue
			}
			if where, has := rc.contains(ft, map[types.Type]bool{}, f.Name()); has {
				nRef++
				bad = true
				rep.violate("NODE-9", construct, f.Pos(),
					"a node-output reference is hidden at "+where+": refutil.FieldValuesOfType/InArray only see exported top-level fields of interface type or slices of them, so Outdated() never consults this dependency (stale read)")
			}
		}
		if !bad {
			rep.hold("NODE-9", d.gName, pos, fmt.Sprintf("%d field(s); visible inputs: {%s}", st.NumFields(), strings.Join(seenFields, ",")))
		}
	}
	return
}

// ---------------------------------------------------------------------------
// NODE-8

type n8 struct {
	c    *props.Ctx
	rc   refClassifier
	memo map[string]string // fn+param -> "" ok | reason
	busy map[string]bool
}

func (a *n8) interesting(t types.Type) bool {
	switch x := t.Underlying().(type) {
	case *types.Interface:
		return a.rc.direct(t) == refIface
	case *types.Slice:
		return a.interesting(x.Elem())
	case *types.Array:
		return a.interesting(x.Elem())
	case *types.Pointer:
		return a.interesting(x.Elem())
	}
	return false
}

// uses checks every use of the reference-typed value v. It returns "" when all uses are Value()/nil tests/forwarding.
func (a *n8) uses(fn *ssa.Function, v ssa.Value, depth int, seen map[ssa.Value]bool) string {
	if seen[v] {
		return ""
	}
	seen[v] = true
	for _, r := range ssau.Refs(v) {
		switch x := r.(type) {
		case *ssa.DebugRef:
		case *ssa.Phi, *ssa.Slice, *ssa.ChangeInterface, *ssa.ChangeType, *ssa.Index, *ssa.IndexAddr, *ssa.Extract, *ssa.Range, *ssa.Next, *ssa.TypeAssert:
			val := x.(ssa.Value)
			if _, isNext := x.(*ssa.Next); isNext || a.interesting(val.Type()) || isTuple(val.Type()) || isRange(x) {
				if why := a.uses(fn, val, depth, seen); why != "" {
					return why
				}
			}
		case *ssa.UnOp:
			if x.Op == token.MUL && a.interesting(x.Type()) {
				if why := a.uses(fn, x, depth, seen); why != "" {
					return why
				}
			}
		case *ssa.BinOp:
			if x.Op != token.EQL && x.Op != token.NEQ {
				return "used in an operation other than a nil test at " + a.c.P.Pos(ssau.PosOf(x))
			}
		case *ssa.Store:
			if x.Val == v {
				if !flow.IsFreshBase(x.Addr) {
					return "stored outside the method's locals at " + a.c.P.Pos(ssau.PosOf(x))
				}
				// follow the local
				root := x.Addr
				for {
					if fa, ok := root.(*ssa.FieldAddr); ok {
						root = fa.X
						continue
					}
					if ia, ok := root.(*ssa.IndexAddr); ok {
						root = ia.X
						continue
					}
					break
				}
				if why := a.usesOfLocal(fn, root, depth, seen); why != "" {
					return why
				}
			}
		case *ssa.MakeClosure:
			// captured by a closure: follow the free variable
			cl, _ := x.Fn.(*ssa.Function)
			if cl == nil {
				return "captured by an unknown closure"
			}
			for i, b := range x.Bindings {
				if b == v && i < len(cl.FreeVars) {
					if why := a.usesOfLocal(cl, cl.FreeVars[i], depth, seen); why != "" {
						return why
					}
				}
			}
		case ssa.CallInstruction:
			cc := x.Common()
			if cc.IsInvoke() && cc.Value == v {
				if cc.Method.Name() != "Value" {
					return "method " + cc.Method.Name() + "() called on an input at " + a.c.P.Pos(ssau.PosOf(x)) + " (only Value() goes through the cache protocol)"
				}
				continue
			}
			if b := ssau.Builtin(x); b != "" {
				switch b {
				case "len", "cap":
					continue
				case "append":
					if val, ok := x.(ssa.Value); ok {
						if why := a.uses(fn, val, depth, seen); why != "" {
							return why
						}
					}
					continue
				}
				return "passed to builtin " + b
			}
			callee := cc.StaticCallee()
			if callee == nil || callee.Blocks == nil {
				return "passed to a dynamic or body-less call at " + a.c.P.Pos(ssau.PosOf(x))
			}
			if !strings.HasPrefix(funcModulePath(callee), "github.com/EliCDavis/") {
				return "passed to " + callee.String() + " outside the repository at " + a.c.P.Pos(ssau.PosOf(x))
			}
			if depth <= 0 {
				return "forwarded deeper than 4 calls at " + a.c.P.Pos(ssau.PosOf(x))
			}
			for i, arg := range cc.Args {
				if arg != v || i >= len(callee.Params) {
					continue
				}
				k := fmt.Sprintf("%p#%d", callee, i)
				if a.busy[k] {
					continue
				}
				why, done := a.memo[k]
				if !done {
					a.busy[k] = true
					why = a.uses(callee, callee.Params[i], depth-1, map[ssa.Value]bool{})
					delete(a.busy, k)
					a.memo[k] = why
				}
				if why != "" {
					return "forwarded to " + callee.Name() + ", where it is " + why
				}
			}
		case *ssa.MakeInterface:
			return "converted to " + relType(x.Type()) + " at " + a.c.P.Pos(ssau.PosOf(x))
		case *ssa.Return:
			return "returned from the method at " + a.c.P.Pos(ssau.PosOf(x))
		case *ssa.MapUpdate, *ssa.Send:
			return "stored into a map / sent on a channel at " + a.c.P.Pos(ssau.PosOf(r))
		case *ssa.Field, *ssa.FieldAddr:
			// a struct containing refs? not interesting here
		default:
			return fmt.Sprintf("used by %T at %s", r, a.c.P.Pos(ssau.PosOf(r)))
		}
	}
	return ""
}

func isTuple(t types.Type) bool { _, ok := t.(*types.Tuple); return ok }
func isRange(in ssa.Instruction) bool {
	_, ok := in.(*ssa.Range)
	return ok
}

// usesOfLocal follows loads of a local cell (or free variable) that holds a reference.
func (a *n8) usesOfLocal(fn *ssa.Function, cell ssa.Value, depth int, seen map[ssa.Value]bool) string {
	if seen[cell] {
		return ""
	}
	seen[cell] = true
	var walk func(addr ssa.Value) string
	walk = func(addr ssa.Value) string {
		for _, r := range ssau.Refs(addr) {
			switch x := r.(type) {
			case *ssa.UnOp:
				if x.Op == token.MUL && (a.interesting(x.Type()) || containsInteresting(a, x.Type())) {
					if a.interesting(x.Type()) {
						if why := a.uses(fn, x, depth, seen); why != "" {
							return why
						}
					}
				}
			case *ssa.FieldAddr:
				if why := walk(x); why != "" {
					return why
				}
			case *ssa.IndexAddr:
				if why := walk(x); why != "" {
					return why
				}
			case *ssa.Slice:
				if a.interesting(x.Type()) {
					if why := a.uses(fn, x, depth, seen); why != "" {
						return why
					}
				}
			}
		}
		return ""
	}
	return walk(cell)
}

func containsInteresting(a *n8, t types.Type) bool {
	_, has := a.rc.contains(t, map[types.Type]bool{}, "")
	return has
}

func node8(c *props.Ctx, rep reporter, rc refClassifier, ds []dataStruct) int {
	a := &n8{c: c, rc: rc, memo: map[string]string{}, busy: map[string]bool{}}
	n := 0
	for _, d := range ds {
		// the Process method of G
		ms := types.NewMethodSet(d.g)
		sel := ms.Lookup(nil, "Process")
		if sel == nil {
			ms = types.NewMethodSet(types.NewPointer(d.g))
			for i := 0; i < ms.Len(); i++ {
				if ms.At(i).Obj().Name() == "Process" {
					sel = ms.At(i)
				}
			}
		}
		if sel == nil {
			for i := 0; i < ms.Len(); i++ {
				if ms.At(i).Obj().Name() == "Process" {
					sel = ms.At(i)
				}
			}
		}
		if sel == nil {
			rep.undecide("NODE-8", d.gName+".Process", d.pos, "Process method not found")
			continue
		}
		fobj := sel.Obj().(*types.Func).Origin()
		fn := c.P.SSA.FuncValue(fobj)
		if fn == nil || fn.Blocks == nil {
			rep.undecide("NODE-8", d.gName+".Process", d.pos, "Process has no body")
			continue
		}
		n++
		construct := d.gName + ".Process"
		// start: every read of an input field of the receiver
		why := ""
		nIn := 0
		recv := fn.Params[0]
		seen := map[ssa.Value]bool{}
		var start func(v ssa.Value)
		start = func(v ssa.Value) {
			if why != "" {
				return
			}
			for _, r := range ssau.Refs(v) {
				switch x := r.(type) {
				case *ssa.FieldAddr:
					if a.interesting(x.Type().(*types.Pointer).Elem()) {
						nIn++
						for _, rr := range ssau.Refs(x) {
							switch y := rr.(type) {
							case *ssa.UnOp:
								if w := a.uses(fn, y, 4, seen); w != "" && why == "" {
									why = w
								}
							case *ssa.Store:
								if y.Addr == x && !flow.IsFreshBase(y.Addr) {
									why = "Process assigns its own input field at " + c.P.Pos(ssau.PosOf(y))
								}
							case *ssa.IndexAddr:
								for _, r3 := range ssau.Refs(y) {
									if u, ok := r3.(*ssa.UnOp); ok {
										if w := a.uses(fn, u, 4, seen); w != "" && why == "" {
											why = w
										}
									}
								}
							}
						}
					} else {
						start(x)
					}
				case *ssa.Field:
					if a.interesting(x.Type()) {
						nIn++
						if w := a.uses(fn, x, 4, seen); w != "" && why == "" {
							why = w
						}
					} else if _, isS := x.Type().Underlying().(*types.Struct); isS {
						start(x)
					}
				case *ssa.Store:
					// spilled value receiver
					if x.Val == v {
						if al, ok := x.Addr.(*ssa.Alloc); ok {
							start(al)
						}
					}
				case *ssa.UnOp:
					if x.Op == token.MUL {
						if _, isS := x.Type().Underlying().(*types.Struct); isS {
							// whole-struct copy of the receiver passed on: follow reads of the copy
							start(x)
						}
					}
				}
			}
		}
		start(recv)
		if why != "" {
			rep.violate("NODE-8", construct, fn.Pos(), "an input is "+why+": a value obtained around Value() is not covered by the freshness protocol", fmt.Sprintf("%d input read(s) followed", nIn))
		} else {
			rep.hold("NODE-8", construct, fn.Pos(), fmt.Sprintf("%d input read(s), all used through Value() / nil tests / forwarding", nIn))
		}
	}
	return n
}
