// Package c12: a saved graph reloads to the same graph, artifacts and bytes —
// completeness and determinism of encode/decode as structural rules
// (DESIGN.md section 4, C12).
package c12

import (
	"fmt"
	"go/token"
	"go/types"
	"os"
	"strings"

	"golang.org/x/tools/go/ssa"

	"polycheck/load"
	"polycheck/ob"
	"polycheck/props"
)

func init() {
	props.Register(&props.Prop{
		ID: "C12",
		Explanation: "Save/load of the node graph, decided on source: PERSIST-1 every field of each ToJSON/FromJSON schema struct is assigned from the " +
			"receiver on a feasible path (a guard on the schema's own still-zero field is dead), read back into the same receiver field, and every exported " +
			"field of the node survives; PERSIST-2 Instance.ApplyAppSchema creates and registers every node of the file under its id, replays one SetInput per " +
			"listed dependency, registers every producer, hands every serialisable node its own Data and returns errors; PERSIST-3 EncodeToAppSchema visits every " +
			"node and producer and buildNodeGraphInstanceSchema emits one dependency per Dependencies() element with id/port/name of that element; PERSIST-4 " +
			"nothing reachable from App.Schema() lets map iteration order reach the saved bytes (unsorted slices, or a stateful encoder fed inside a map range); " +
			"PERSIST-5 every schema.App field is written by App.Schema/EncodeToAppSchema and read back by App.ApplySchema/ApplyAppSchema into the field it came from. " +
			"Not decided: order of array inputs after reload (Values.10 sorts before Values.2), artifact content, id assignment after deletions, numeric JSON round trip.",
		Assumptions: []string{
			"encoding/json emits maps key-sorted and struct fields in declaration order",
			"a sort call (sort.*, slices.Sort*) fixes the order of the slice it is applied to",
		},
		Controls: controls,
		Run:      run,
	})
}

type reporter interface {
	hold(rule, construct string, pos token.Pos, facts ...string)
	violate(rule, construct string, pos token.Pos, msg string, facts ...string)
	undecide(rule, construct string, pos token.Pos, msg string)
}

type repoRep struct{ c *props.Ctx }

func (r repoRep) hold(rule, construct string, pos token.Pos, facts ...string) {
	r.c.R.Hold(rule, construct, r.c.P.Pos(pos), facts...)
}
func (r repoRep) violate(rule, construct string, pos token.Pos, msg string, facts ...string) {
	r.c.R.Violate(rule, construct, r.c.P.Pos(pos), msg, facts...)
}
func (r repoRep) undecide(rule, construct string, pos token.Pos, msg string) {
	r.c.R.Undecide(rule, construct, r.c.P.Pos(pos), msg)
}

type ctlRep struct {
	fired map[string][]string
	und   map[string][]string
	held  map[string][]string
}

func newCtl() *ctlRep {
	return &ctlRep{fired: map[string][]string{}, und: map[string][]string{}, held: map[string][]string{}}
}
func (r *ctlRep) hold(rule, construct string, pos token.Pos, facts ...string) {
	r.held[rule] = append(r.held[rule], construct)
}
func (r *ctlRep) violate(rule, construct string, pos token.Pos, msg string, facts ...string) {
	r.fired[rule] = append(r.fired[rule], construct)
	if os.Getenv("POLYCHECK_DEBUG") != "" {
		fmt.Printf("  ctl VIOLATION %s %s: %s\n", rule, construct, msg)
	}
}
func (r *ctlRep) undecide(rule, construct string, pos token.Pos, msg string) {
	r.und[rule] = append(r.und[rule], construct+": "+msg)
}

type checker struct {
	c        *props.Ctx
	serIface *types.Interface
	serNamed *types.Named
	repo     reporter
	ctl      *ctlRep
	// the instructions of a save function that put the bytes into the file (or hand them to the writing helper)
	saveActs map[*ssa.Function][]ssa.Instruction
}

func (k *checker) rep(pos token.Pos) reporter {
	if k.c.P.IsControl(pos) {
		return k.ctl
	}
	return k.repo
}

func (k *checker) rel(pkgPath string) string {
	r := strings.TrimPrefix(strings.TrimPrefix(pkgPath, load.Module), "/")
	if r == "" {
		return "."
	}
	return r
}

func relType(t types.Type) string {
	return types.TypeString(t, func(p *types.Package) string {
		return strings.TrimPrefix(strings.TrimPrefix(p.Path(), load.Module), "/")
	})
}

func (k *checker) fn(rel, name string) *ssa.Function {
	f := k.c.P.Func(rel, name)
	if f == nil || f.Blocks == nil {
		k.c.R.Failf("anchor %s.%s not found", rel, name)
		return nil
	}
	return f
}

func run(c *props.Ctx) {
	obs0 := len(c.R.Obs)
	k := &checker{c: c, repo: repoRep{c}, ctl: newCtl()}
	gp := c.P.Pkg("generator/graph")
	if gp == nil {
		c.R.Failf("anchor package generator/graph not found")
		return
	}
	if tn, ok := gp.Types.Scope().Lookup("CustomGraphSerialization").(*types.TypeName); ok {
		k.serNamed, _ = tn.Type().(*types.Named)
		k.serIface, _ = tn.Type().Underlying().(*types.Interface)
	}
	if k.serIface == nil {
		c.R.Failf("anchor generator/graph.CustomGraphSerialization not found")
		return
	}

	pairs := k.findPairs()
	nRepo := 0
	for _, pt := range pairs {
		if !c.P.IsControl(pt.toFn.Pos()) {
			nRepo++
		}
		k.persist1(pt)
	}
	c.R.Extra["serialisation_pairs"] = nRepo

	k.wireAll(pairs)
	k.metadataVerbatim()
	k.persist2()
	k.persist3()
	k.persist4()
	k.persist5()
	k.persist6()
	k.persist7()
	k.save1()
	k.save3()
	k.persist8()
	k.persist9(pairs)
	k.persist10()
	k.persist11()
	k.persist13()
	k.persist14(pairs)

	if len(c.P.Controls) > 0 {
		k.finishControls()
	}
	if os.Getenv("POLYCHECK_DEBUG") != "" {
		for _, o := range c.R.Obs[obs0:] {
			fmt.Printf("  %-9s %-9s ctl=%v %s @%s %s %v\n", o.Verdict, o.Rule, o.Control, o.Construct, o.Pos, o.Msg, o.Facts)
		}
	}
	c.R.Floor("PERSIST-1", 30)
	c.R.Floor("PERSIST-2", 5)
	c.R.Floor("PERSIST-3", 3)
	c.R.Floor("PERSIST-4", 2)
	c.R.Floor("PERSIST-5", 20)
	c.R.Floor("PERSIST-6", 1)
	c.R.Floor("PERSIST-7", 5)
	c.R.Floor("SAVE-1", 1)
	c.R.Floor("PERSIST-8", 3)
	c.R.Floor("PERSIST-9", 2)
	c.R.Floor("PERSIST-12", 8)
	c.R.Floor("PERSIST-10", 1)
	c.R.Floor("PERSIST-11", 1)
	c.R.Floor("PERSIST-13", 2)
	c.R.Floor("PERSIST-14", 2)
	c.R.Floor("SAVE-2", 1)
	c.R.Floor("SAVE-3", 1)
}

var _ = ob.Holds
