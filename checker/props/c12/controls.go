package c12

import (
	"fmt"
	"strings"

	"polycheck/ob"
)

const paramControlFile = "generator/parameter/zz_verif_control_c12.go"
const graphControlFile = "generator/graph/zz_verif_control_c12.go"

const nodesControlFile = "nodes/zz_verif_control_c12.go"
const genControlFile = "generator/zz_verif_control_c12.go"

func controls() map[string]string {
	return map[string]string{paramControlFile: paramControlSrc, graphControlFile: graphControlSrc + graphControlSrc2,
		nodesControlFile: nodesControlSrc, genControlFile: genControlSrc}
}

// PERSIST-6 controls (package nodes)
const nodesControlSrc = `package nodes

import (
	"sort"

	"github.com/EliCDavis/polyform/refutil"
)

// must fire: inputs whose source was already listed are filtered out
func verifControlDepsBad(data any) []NodeDependency {
	out := make([]NodeDependency, 0)
	seen := map[Node]bool{}
	for key, val := range refutil.FieldValuesOfType[NodeOutputReference](data) {
		if seen[val.Node()] {
			continue
		}
		seen[val.Node()] = true
		out = append(out, StructDependency{name: key, dep: val.Node(), dependencyPort: val.Port()})
	}
	return out
}

// must stay silent: keys sorted by a helper, entries built by a constructor, nil skipped
func verifControlDepsGood(data any) []NodeDependency {
	var out []NodeDependency
	m := refutil.FieldValuesOfType[NodeOutputReference](data)
	keys := make([]string, 0, len(m))
	for k := range m {
		keys = append(keys, k)
	}
	sort.Strings(keys)
	for i := 0; i < len(keys); i++ {
		ref := m[keys[i]]
		if ref == nil {
			continue
		}
		out = append(out, verifControlNewDep(keys[i], ref))
	}
	return out
}

func verifControlNewDep(name string, ref NodeOutputReference) StructDependency {
	return StructDependency{dependencyPort: ref.Port(), dep: ref.Node(), name: name}
}
`

// SAVE-1 controls (package generator)
const genControlSrc = `package generator

import (
	"os"

	"github.com/EliCDavis/jbtf"
	"github.com/EliCDavis/polyform/generator/schema"
)

// must fire: no truncation
func (gs *GraphSaver) verifControlSaveBad() {
	f, err := os.OpenFile(gs.savePath, os.O_RDWR|os.O_CREATE, 0666)
	if err != nil {
		panic(err)
	}
	defer f.Close()
	if _, err := f.Write(gs.app.Schema()); err != nil {
		panic(err)
	}
}

// SAVE-2 must fire: skipped when a counter did not move
func (gs *GraphSaver) verifControlSaveSkip(last *uint32) {
	v := gs.app.graphInstance.ModelVersion()
	if v == *last {
		return
	}
	*last = v
	if err := os.WriteFile(gs.savePath, gs.app.Schema(), 0666); err != nil {
		panic(err)
	}
}

var verifControlEncoder = &jbtf.Encoder{}

// SAVE-3 must fire: long-lived encoder
func (a *App) verifControlSchemaStale() []byte {
	g := schema.App{}
	a.graphInstance.EncodeToAppSchema(&g, verifControlEncoder)
	data, _ := verifControlEncoder.ToPgtf(g)
	return data
}

// SAVE-3 must stay silent
func (a *App) verifControlSchemaFresh() []byte {
	var g schema.App
	var enc jbtf.Encoder
	a.graphInstance.EncodeToAppSchema(&g, &enc)
	data, _ := enc.ToPgtf(g)
	return data
}

// must stay silent: fresh side file renamed onto the save path
func (gs *GraphSaver) verifControlSaveGood() {
	tmp := gs.savePath + ".new"
	f, err := os.Create(tmp)
	if err != nil {
		panic(err)
	}
	data := gs.app.Schema()
	if _, err = f.Write(data); err != nil {
		f.Close()
		panic(err)
	}
	if err = f.Close(); err != nil {
		panic(err)
	}
	if err = os.Rename(tmp, gs.savePath); err != nil {
		panic(err)
	}
}
`

// PERSIST-7 controls (package graph, appended to the graph control file)
const graphControlSrc2 = `
// PERSIST-8 must fire: index compared as text
func (i *Instance) verifControlSortBad(node nodes.Node) schema.AppNodeInstance {
	var out schema.AppNodeInstance
	for _, d := range node.Dependencies() {
		out.Dependencies = append(out.Dependencies, schema.NodeDependency{Name: d.Name()})
	}
	sort.Slice(out.Dependencies, func(a, b int) bool { return out.Dependencies[a].Name < out.Dependencies[b].Name })
	return out
}

// PERSIST-8 must stay silent: stable, keyed on the field name only
func (i *Instance) verifControlSortGood(node nodes.Node) schema.AppNodeInstance {
	var out schema.AppNodeInstance
	for _, d := range node.Dependencies() {
		out.Dependencies = append(out.Dependencies, schema.NodeDependency{Name: d.Name()})
	}
	sort.SliceStable(out.Dependencies, func(a, b int) bool {
		return verifControlField(out.Dependencies[a].Name) < verifControlField(out.Dependencies[b].Name)
	})
	return out
}

func verifControlField(name string) string {
	for k := 0; k < len(name); k++ {
		if name[k] == '.' {
			return name[:k]
		}
	}
	return name[:len(name)]
}

// PERSIST-10 must fire: id from a count, never compared with the ids in use
func (i *Instance) verifControlNewIDBad(node nodes.Node) {
	i.nodeIDs[node] = fmt.Sprintf("Node-%d", len(i.nodeIDs)+1)
}

// PERSIST-10 must stay silent: probe in a helper, retry loop
func (i *Instance) verifControlNewIDGood(node nodes.Node) {
	n := len(i.nodeIDs)
	id := fmt.Sprintf("Node-%d", n)
	for i.verifControlUsed(id) {
		n++
		id = fmt.Sprintf("Node-%d", n)
	}
	i.nodeIDs[node] = id
}

func (i *Instance) verifControlUsed(id string) bool {
	for _, used := range i.nodeIDs {
		if used == id {
			return true
		}
	}
	return false
}

// must fire: id removed before the producers are compared with it
func (i *Instance) verifControlDeleteBad(nodeId string) {
	for n, id := range i.nodeIDs {
		if id == nodeId {
			delete(i.nodeIDs, n)
		}
	}
	for filename, producer := range i.producers {
		if i.nodeIDs[producer.Node()] == nodeId {
			delete(i.producers, filename)
		}
	}
}

// must stay silent
func (i *Instance) verifControlDeleteGood(nodeId string) {
	node := i.Node(nodeId)
	for filename, producer := range i.producers {
		if producer.Node() != node {
			continue
		}
		delete(i.producers, filename)
	}
	delete(i.nodeIDs, node)
}
`

const paramControlSrc = `package parameter

import (
	"encoding/json"
	"io"

	"github.com/EliCDavis/jbtf"
)

type verifControlSchema struct {
	Name    string      ` + "`json:\"name\"`" + `
	Note    string      ` + "`json:\"note\"`" + `
	Default *jbtf.Bytes ` + "`json:\"default\"`" + `
	Extra   string      ` + "`json:\"extra\"`" + `
}

// must fire: dead guard on the schema's own field (Default), Extra never assigned,
// Name/Note swapped on the way back, Hidden never saved
type verifControlBadParam struct {
	Name    string
	Note    string
	Default []byte
	Hidden  string
	memo    []byte
}

func (p *verifControlBadParam) ToJSON(encoder *jbtf.Encoder) ([]byte, error) {
	if p.memo != nil {
		return p.memo, nil // PERSIST-14: memo never invalidated by FromJSON
	}
	schema := verifControlSchema{Name: p.Name, Note: p.Note}
	if schema.Default != nil {
		schema.Default = &jbtf.Bytes{Data: p.Default}
	}
	out, err := encoder.Marshal(schema)
	p.memo = out
	return out, err
}

func (p *verifControlBadParam) FromJSON(decoder jbtf.Decoder, body []byte) (err error) {
	gn, err := jbtf.Decode[verifControlSchema](decoder, body)
	if err != nil {
		return
	}
	p.Name = gn.Note
	if len(gn.Name) > 0 { // PERSIST-12: applied only when the saved value is not the zero value
		p.Note = gn.Name
	}
	if gn.Default != nil {
		p.Default = gn.Default.Data
	}
	return
}

// PERSIST-9: one payload type reads to EOF, the other is length-prefixed
type verifControlPayloadEOF struct{ Data []byte }

func (p *verifControlPayloadEOF) Deserialize(r io.Reader) (err error) {
	p.Data, err = io.ReadAll(r)
	return err
}
func (p verifControlPayloadEOF) Serialize(w io.Writer) error { _, err := w.Write(p.Data); return err }

type verifControlPayloadFixed struct{ Data [16]byte }

func (p *verifControlPayloadFixed) Deserialize(r io.Reader) error {
	_, err := io.ReadFull(r, p.Data[:])
	return err
}
func (p verifControlPayloadFixed) Serialize(w io.Writer) error { _, err := w.Write(p.Data[:]); return err }

type verifControlPayloadSchema struct {
	Loose *verifControlPayloadEOF   ` + "`json:\"loose\"`" + `
	Fixed *verifControlPayloadFixed ` + "`json:\"fixed\"`" + `
}

type verifControlPayloadParam struct {
	Loose []byte
	Fixed [16]byte
}

func (p *verifControlPayloadParam) ToJSON(encoder *jbtf.Encoder) ([]byte, error) {
	s := verifControlPayloadSchema{Loose: &verifControlPayloadEOF{Data: p.Loose}, Fixed: &verifControlPayloadFixed{Data: p.Fixed}}
	return encoder.Marshal(s)
}

func (p *verifControlPayloadParam) FromJSON(decoder jbtf.Decoder, body []byte) error {
	s, err := jbtf.Decode[verifControlPayloadSchema](decoder, body)
	if err != nil {
		return err
	}
	if s.Loose != nil {
		p.Loose = s.Loose.Data
	}
	if s.Fixed != nil {
		p.Fixed = s.Fixed.Data
	}
	return nil
}

// must stay silent: field-by-field construction, guard on the receiver, setter on the way back
type verifControlGoodParam struct {
	Name    string
	Note    string
	Default []byte
	Extra   string
	cache   int
}

func (p *verifControlGoodParam) verifControlSetNote(n string) { p.Note = n }

func (p *verifControlGoodParam) ToJSON(encoder *jbtf.Encoder) ([]byte, error) {
	var schema verifControlSchema
	schema.Name = p.Name
	schema.Note = p.Note
	schema.Extra = p.Extra
	if p.Default != nil {
		schema.Default = &jbtf.Bytes{Data: p.Default}
	}
	if schema.Default != nil && len(schema.Default.Data) == 0 {
		schema.Default = nil
	}
	return encoder.Marshal(schema)
}

func (p *verifControlGoodParam) FromJSON(decoder jbtf.Decoder, body []byte) error {
	gn := verifControlSchema{}
	if err := json.Unmarshal(body, &gn); err != nil {
		return err
	}
	p.Name = gn.Name
	p.verifControlSetNote(gn.Note)
	p.Extra = gn.Extra
	if d := gn.Default; d != nil {
		p.Default = d.Data
	}
	return nil
}
`

const graphControlSrc = `package graph

import (
	"encoding/json"
	"fmt"
	"maps"
	"sort"

	"github.com/EliCDavis/jbtf"
	"github.com/EliCDavis/polyform/generator/artifact"
	"github.com/EliCDavis/polyform/generator/schema"
	"github.com/EliCDavis/polyform/nodes"
	"github.com/EliCDavis/polyform/refutil"
)

// must fire: unregistered nodes, break after the first dependency, skipped producers, FromJSON error dropped
func (i *Instance) verifControlApplyBad(jsonPayload []byte) error {
	appSchema, err := jbtf.Unmarshal[schema.App](jsonPayload)
	if err != nil {
		return err
	}
	decoder, _ := jbtf.NewDecoder(jsonPayload)
	for key := range appSchema.Metadata {
		if key != "notes" {
			delete(appSchema.Metadata, key) // PERSIST-13: filtered
		}
	}
	i.metadata.OverwriteData(appSchema.Metadata)
	createdNodes := make(map[string]nodes.Node)
	for nodeID, instanceDetails := range appSchema.Nodes {
		casted := i.typeFactory.New(instanceDetails.Type).(nodes.Node)
		createdNodes[nodeID] = casted
	}
	for nodeID, instanceDetails := range appSchema.Nodes {
		node := createdNodes[nodeID]
		for _, dependency := range instanceDetails.Dependencies {
			outNode := createdNodes[dependency.DependencyID]
			ref := refutil.CallFuncValuesOfType(outNode, dependency.DependencyPort)[0].(nodes.NodeOutputReference)
			node.SetInput(dependency.Name, nodes.Output{NodeOutput: ref})
			break
		}
	}
	for fileName, producerDetails := range appSchema.Producers {
		if fileName == "" {
			continue
		}
		producerNode := createdNodes[producerDetails.NodeID]
		ref := refutil.CallFuncValuesOfType(producerNode, producerDetails.Port)[0].(nodes.NodeOutput[artifact.Artifact])
		i.producers[fileName] = ref
	}
	for nodeID, instanceDetails := range appSchema.Nodes {
		if p, ok := createdNodes[nodeID].(CustomGraphSerialization); ok {
			p.FromJSON(decoder, instanceDetails.Data)
		}
	}
	return nil
}

// must stay silent: other idioms (early-continue on the non-serialisable case, helper-free, sorted ids)
func (i *Instance) verifControlApplyGood(jsonPayload []byte) error {
	appSchema, err := jbtf.Unmarshal[schema.App](jsonPayload)
	if err != nil {
		return err
	}
	decoder, err := jbtf.NewDecoder(jsonPayload)
	if err != nil {
		return err
	}
	i.metadata.OverwriteData(maps.Clone(appSchema.Metadata))
	byID := make(map[string]nodes.Node)
	for id, details := range appSchema.Nodes {
		n, ok := i.typeFactory.New(details.Type).(nodes.Node)
		if !ok {
			panic("not a node")
		}
		i.nodeIDs[n] = id
		byID[id] = n
	}
	for id, details := range appSchema.Nodes {
		deps := details.Dependencies
		for k := 0; k < len(deps); k++ {
			d := deps[k]
			out := refutil.CallFuncValuesOfType(byID[d.DependencyID], d.DependencyPort)
			byID[id].SetInput(d.Name, nodes.Output{NodeOutput: out[0].(nodes.NodeOutputReference)})
		}
	}
	for fileName, details := range appSchema.Producers {
		vals := refutil.CallFuncValuesOfType(byID[details.NodeID], details.Port)
		i.producers[fileName] = vals[0].(nodes.NodeOutput[artifact.Artifact])
	}
	for id, details := range appSchema.Nodes {
		p, ok := byID[id].(CustomGraphSerialization)
		if !ok {
			continue
		}
		if err := p.FromJSON(decoder, details.Data); err != nil {
			return err
		}
	}
	return nil
}

// must fire: producers skipped when unnamed; wrong id; a slice of map keys reaches the encoder unsorted; encoder fed in map order
func (i *Instance) verifControlEncodeBad(appSchema *schema.App, encoder *jbtf.Encoder) {
	nodeInstances := make(map[string]schema.AppNodeInstance)
	for node := range i.nodeIDs {
		if len(nodeInstances) > 10 {
			break
		}
		nodeInstances[i.nodeIDs[node]] = i.verifControlBuildBad(node, encoder)
	}
	for key, producer := range i.producers {
		appSchema.Producers[key] = schema.Producer{NodeID: key, Port: producer.Port()}
	}
	appSchema.Nodes = nodeInstances
}

func (i *Instance) verifControlBuildBad(node nodes.Node, encoder *jbtf.Encoder) schema.AppNodeInstance {
	nodeInstance := schema.AppNodeInstance{Type: "node", Dependencies: make([]schema.NodeDependency, 0)}
	for _, d := range node.Dependencies() {
		if d.Name() == "" {
			continue
		}
		nodeInstance.Dependencies = append(nodeInstance.Dependencies, schema.NodeDependency{
			DependencyID:   i.nodeIDs[d.Dependency()],
			DependencyPort: d.Name(),
			Name:           d.Name(),
		})
	}
	if param, ok := node.(CustomGraphSerialization); ok {
		data, err := param.ToJSON(encoder)
		if err == nil {
			nodeInstance.Data = data
		}
	}
	return nodeInstance
}

func (i *Instance) verifControlBytesBad() []byte {
	names := make([]string, 0)
	for name := range i.producers {
		names = append(names, name)
	}
	data, _ := json.Marshal(names)
	return data
}

// must stay silent
func (i *Instance) verifControlEncodeGood(appSchema *schema.App, encoder *jbtf.Encoder) {
	ordered := make([]nodes.Node, 0, len(i.nodeIDs))
	for node := range i.nodeIDs {
		ordered = append(ordered, node)
	}
	sort.Slice(ordered, func(a, b int) bool { return i.nodeIDs[ordered[a]] < i.nodeIDs[ordered[b]] })
	appSchema.Nodes = make(map[string]schema.AppNodeInstance)
	for _, node := range ordered {
		appSchema.Nodes[i.nodeIDs[node]] = i.verifControlBuildGood(node, encoder)
	}
	for name, producer := range i.producers {
		p := schema.Producer{}
		p.Port = producer.Port()
		p.NodeID = i.nodeIDs[producer.Node()]
		appSchema.Producers[name] = p
	}
}

func (i *Instance) verifControlBuildGood(node nodes.Node, encoder *jbtf.Encoder) schema.AppNodeInstance {
	var out schema.AppNodeInstance
	out.Type = refutil.GetTypeWithPackage(node)
	deps := node.Dependencies()
	for k := 0; k < len(deps); k++ {
		var nd schema.NodeDependency
		nd.Name = deps[k].Name()
		nd.DependencyPort = deps[k].DependencyPort()
		nd.DependencyID = i.nodeIDs[deps[k].Dependency()]
		out.Dependencies = append(out.Dependencies, nd)
	}
	sort.Slice(out.Dependencies, func(a, b int) bool { return out.Dependencies[a].Name < out.Dependencies[b].Name })
	param, ok := node.(CustomGraphSerialization)
	if !ok {
		return out
	}
	data, err := param.ToJSON(encoder)
	if err != nil {
		panic(err)
	}
	out.Data = data
	return out
}

func (i *Instance) verifControlBytesGood() []byte {
	names := make([]string, 0)
	for name := range i.producers {
		names = append(names, name)
	}
	sort.Strings(names)
	data, _ := json.Marshal(names)
	return data
}
`

func (k *checker) finishControls() {
	c := k.c
	// graph-side controls are analysed explicitly (they are plain functions)
	get := func(name string) bool {
		return c.P.Func("generator/graph", "Instance."+name) != nil
	}
	if get("verifControlApplyBad") {
		k.persist2On(c.P.Func("generator/graph", "Instance.verifControlApplyBad"), "control.ApplyBad")
		k.persist2On(c.P.Func("generator/graph", "Instance.verifControlApplyGood"), "control.ApplyGood")
		k.persist3Encode(c.P.Func("generator/graph", "Instance.verifControlEncodeBad"), c.P.Func("generator/graph", "Instance.verifControlBuildBad"), "control.EncodeBad")
		k.persist3Build(c.P.Func("generator/graph", "Instance.verifControlBuildBad"), "control.BuildBad")
		k.persist3Encode(c.P.Func("generator/graph", "Instance.verifControlEncodeGood"), c.P.Func("generator/graph", "Instance.verifControlBuildGood"), "control.EncodeGood")
		k.persist3Build(c.P.Func("generator/graph", "Instance.verifControlBuildGood"), "control.BuildGood")
		k.persist4On(c.P.Func("generator/graph", "Instance.verifControlBytesBad"), "control.BytesBad")
		k.persist4On(c.P.Func("generator/graph", "Instance.verifControlEncodeBad"), "control.EncodeBad")
		k.persist4On(c.P.Func("generator/graph", "Instance.verifControlBytesGood"), "control.BytesGood")
		k.persist4On(c.P.Func("generator/graph", "Instance.verifControlEncodeGood"), "control.EncodeGood")
		if tables, ok := k.instanceTables(); ok && get("verifControlDeleteBad") {
			k.persist7Delete(c.P.Func("generator/graph", "Instance.verifControlDeleteBad"), "control.DeleteBad", tables)
			k.persist7Delete(c.P.Func("generator/graph", "Instance.verifControlDeleteGood"), "control.DeleteGood", tables)
		}
	} else {
		c.R.Note("C12 graph control overlay not loaded")
	}
	if f := c.P.Func("nodes", "verifControlDepsBad"); f != nil {
		k.persist6On(f, "control.DepsBad")
		k.persist6On(c.P.Func("nodes", "verifControlDepsGood"), "control.DepsGood")
	}
	if f := c.P.Func("generator", "GraphSaver.verifControlSaveBad"); f != nil {
		if sf := c.P.Func("generator", "App.Schema"); sf != nil {
			k.save1On(f, sf, "control.SaveBad")
			k.save1On(c.P.Func("generator", "GraphSaver.verifControlSaveGood"), sf, "control.SaveGood")
			if f2 := c.P.Func("generator", "GraphSaver.verifControlSaveSkip"); f2 != nil {
				k.save1On(f2, sf, "control.SaveSkip")
			}
		}
	}
	if f := c.P.Func("generator", "App.verifControlSchemaStale"); f != nil {
		k.save3On(f, "control.SchemaStale")
		k.save3On(c.P.Func("generator", "App.verifControlSchemaFresh"), "control.SchemaGoodFresh")
	}
	if f := c.P.Func("generator/graph", "Instance.verifControlNewIDBad"); f != nil {
		if table := k.idTableName(); table != "" {
			k.persist10On(f, "control.NewIDBad", table)
			k.persist10On(c.P.Func("generator/graph", "Instance.verifControlNewIDGood"), "control.NewIDGood", table)
		}
	}
	if get("verifControlApplyBad") {
		k.persist13Load(c.P.Func("generator/graph", "Instance.verifControlApplyBad"), "control.ApplyBad")
		k.persist13Load(c.P.Func("generator/graph", "Instance.verifControlApplyGood"), "control.ApplyGood")
	}
	if f := c.P.Func("generator/graph", "Instance.verifControlSortBad"); f != nil {
		k.persist8Sorts(f, "control.SortBad")
		k.persist8Sorts(c.P.Func("generator/graph", "Instance.verifControlSortGood"), "control.SortGood")
	}
	has := func(list []string, sub string) bool {
		for _, s := range list {
			if strings.Contains(s, sub) {
				return true
			}
		}
		return false
	}
	type want struct {
		rule, sub string
	}
	bad := []want{
		{"PERSIST-1", "verifControlBadParam.ToJSON#Default"},
		{"PERSIST-1", "verifControlBadParam.ToJSON#Extra"},
		{"PERSIST-1", "verifControlBadParam.FromJSON#Extra"},
		{"PERSIST-1", "verifControlBadParam#Name↔"},
		{"PERSIST-1", "verifControlBadParam#recv.Hidden"},
		{"PERSIST-2", "control.ApplyBad#nodes-registered"},
		{"PERSIST-2", "control.ApplyBad#dependencies"},
		{"PERSIST-2", "control.ApplyBad#producers"},
		{"PERSIST-2", "control.ApplyBad#error:FromJSON"},
		{"PERSIST-2", "control.ApplyBad#error:NewDecoder"},
		{"PERSIST-3", "control.EncodeBad#nodes"},
		{"PERSIST-3", "control.EncodeBad#producers"},
		{"PERSIST-3", "control.BuildBad#dependencies"},
		{"PERSIST-3", "control.BuildBad#type"},
		{"PERSIST-3", "control.BuildBad#data"},
		{"PERSIST-4", "verifControlBytesBad"},
		{"PERSIST-4", "verifControlEncodeBad#encoder"},
		{"PERSIST-6", "control.DepsBad#FieldValuesOfType"},
		{"PERSIST-7", "control.DeleteBad#id-read-before-delete"},
		{"SAVE-1", "control.SaveBad#replace"},
		{"SAVE-2", "control.SaveSkip#always-writes"},
		{"SAVE-3", "control.SchemaStale#fresh-encoder"},
		{"PERSIST-8", "control.SortBad#sort"},
		{"PERSIST-9", "verifControlPayloadParam#payload.Loose"},
		{"PERSIST-10", "control.NewIDBad#unique-id"},
		{"PERSIST-12", "verifControlBadParam.FromJSON#Name"},
		{"PERSIST-13", "control.ApplyBad#metadata-whole"},
		{"PERSIST-14", "verifControlBadParam.FromJSON#invalidates-memo"},
	}
	for _, w := range bad {
		v := ob.Holds
		if has(k.ctl.fired[w.rule], w.sub) {
			v = ob.Violation
		}
		c.R.Control(w.rule, "control:bad:"+w.sub, "zz_verif_control_c12.go", v, ob.Violation, "seeded defect must be reported")
	}
	{
		v := ob.Violation
		for _, h := range k.ctl.held["PERSIST-9"] {
			if strings.Contains(h, "verifControlPayloadParam#payload.Fixed") {
				v = ob.Holds
			}
		}
		c.R.Control("PERSIST-9", "control:good", "zz_verif_control_c12.go", v, ob.Holds, "a length-delimited payload type must hold")
	}
	for _, rule := range []string{"PERSIST-1", "PERSIST-2", "PERSIST-3", "PERSIST-4", "PERSIST-6", "PERSIST-7", "SAVE-1", "SAVE-2", "SAVE-3", "PERSIST-8", "PERSIST-10", "PERSIST-12", "PERSIST-13", "PERSIST-14"} {
		v := ob.Holds
		var msgs []string
		for _, f := range k.ctl.fired[rule] {
			if strings.Contains(f, "Good") {
				v = ob.Violation
				msgs = append(msgs, f)
			}
		}
		for _, f := range k.ctl.und[rule] {
			if strings.Contains(f, "Good") {
				v = ob.Undecided
				msgs = append(msgs, f)
			}
		}
		nHeld := 0
		for _, f := range k.ctl.held[rule] {
			if strings.Contains(f, "Good") {
				nHeld++
			}
		}
		if nHeld == 0 {
			v = ob.Undecided
			msgs = append(msgs, "rule recorded nothing on the good control")
		}
		c.R.Control(rule, "control:good", "zz_verif_control_c12.go", v, ob.Holds, fmt.Sprintf("accepted idioms must stay silent (%d held) %s", nHeld, strings.Join(msgs, "; ")))
	}
}
