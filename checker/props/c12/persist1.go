package c12

import (
	"fmt"
	"go/constant"
	"go/token"
	"go/types"
	"sort"
	"strings"

	"golang.org/x/tools/go/ssa"

	"polycheck/props/c11/flow"
	"polycheck/ssau"
)

// ---------------------------------------------------------------------------
// PERSIST-1: field coverage of every ToJSON / FromJSON pair.

type pairType struct {
	named  *types.Named
	key    string
	toFn   *ssa.Function
	fromFn *ssa.Function
}

func sigEqual(a, b *types.Signature) bool {
	return types.Identical(a.Params(), b.Params()) && types.Identical(a.Results(), b.Results())
}

// findPairs returns every named type of the repository that implements the
// custom graph serialisation interface (by method names and signatures, so the
// generic parameter.Value[T] is found uninstantiated).
func (k *checker) findPairs() []pairType {
	var out []pairType
	var toSig, fromSig *types.Signature
	for i := 0; i < k.serIface.NumMethods(); i++ {
		m := k.serIface.Method(i)
		switch m.Name() {
		case "ToJSON":
			toSig = m.Type().(*types.Signature)
		case "FromJSON":
			fromSig = m.Type().(*types.Signature)
		}
	}
	if toSig == nil || fromSig == nil {
		k.c.R.Failf("anchor: CustomGraphSerialization has no ToJSON/FromJSON")
		return nil
	}
	for _, pk := range k.c.P.Pkgs {
		scope := pk.Types.Scope()
		for _, n := range scope.Names() {
			tn, ok := scope.Lookup(n).(*types.TypeName)
			if !ok || tn.IsAlias() {
				continue
			}
			named, ok := tn.Type().(*types.Named)
			if !ok {
				continue
			}
			var to, from *types.Func
			for i := 0; i < named.NumMethods(); i++ {
				m := named.Method(i)
				switch {
				case m.Name() == "ToJSON" && sigEqual(m.Type().(*types.Signature), toSig):
					to = m.Origin()
				case m.Name() == "FromJSON" && sigEqual(m.Type().(*types.Signature), fromSig):
					from = m.Origin()
				}
			}
			if to == nil && from == nil {
				continue
			}
			key := k.rel(pk.PkgPath) + "." + n
			if to == nil || from == nil {
				if !k.c.P.IsControl(tn.Pos()) {
					k.rep(tn.Pos()).violate("PERSIST-1", key, tn.Pos(), "the type has only one half of the ToJSON/FromJSON pair: what is saved cannot be restored (or the reverse)")
				}
				continue
			}
			tf, ff := k.c.P.SSA.FuncValue(to), k.c.P.SSA.FuncValue(from)
			if tf == nil || ff == nil || tf.Blocks == nil || ff.Blocks == nil {
				continue
			}
			out = append(out, pairType{named: named, key: key, toFn: tf, fromFn: ff})
		}
	}
	sort.Slice(out, func(i, j int) bool { return out[i].key < out[j].key })
	return out
}

func isZeroConst(v ssa.Value) bool {
	c, ok := v.(*ssa.Const)
	if !ok {
		return false
	}
	if c.Value == nil {
		return true
	}
	switch c.Value.Kind() {
	case constant.String:
		return constant.StringVal(c.Value) == ""
	case constant.Int, constant.Float:
		return constant.Sign(c.Value) == 0
	case constant.Bool:
		return !constant.BoolVal(c.Value)
	}
	return false
}

// writer of one field of a local struct object.
type writer struct {
	at   ssa.Instruction // point at which the field of *this* object gets the value (the store, or the whole-struct copy)
	orig *ssa.Store      // the store that computes the value (guards are examined here)
	val  ssa.Value
}

type objModel struct {
	fn *ssa.Function
}

func sameStruct(a, b types.Type) bool { return types.Identical(a, b) }

// writers returns the stores that can define field f of local object a, following whole-struct copies
// from other local objects. unknown is set when the object also receives a value of unknown content.
func (om objModel) writers(a *ssa.Alloc, f int, depth int) (ws []writer, unknown []ssa.Instruction) {
	for _, r := range ssau.Refs(a) {
		switch x := r.(type) {
		case *ssa.FieldAddr:
			if x.Field != f {
				continue
			}
			for _, rr := range ssau.Refs(x) {
				if s, ok := rr.(*ssa.Store); ok && s.Addr == x {
					ws = append(ws, writer{at: s, orig: s, val: s.Val})
				}
			}
		case *ssa.Store:
			if x.Addr != a {
				continue
			}
			if ld, ok := x.Val.(*ssa.UnOp); ok && ld.Op == token.MUL && depth > 0 {
				if b, ok := ld.X.(*ssa.Alloc); ok && b != a {
					bw, bu := om.writers(b, f, depth-1)
					for _, w := range bw {
						if ssau.CanFollow(w.at, ld) {
							ws = append(ws, writer{at: x, orig: w.orig, val: w.val})
						}
					}
					for _, u := range bu {
						if ssau.CanFollow(u, ld) {
							unknown = append(unknown, x)
						}
					}
					continue
				}
			}
			unknown = append(unknown, x)
		case ssa.CallInstruction:
			// the object's address escapes to a call (json.Unmarshal(&gn)): unknown content afterwards
			unknown = append(unknown, x)
		case *ssa.MakeInterface:
			for _, rr := range ssau.Refs(x) {
				if ci, ok := rr.(ssa.CallInstruction); ok {
					unknown = append(unknown, ci)
				}
			}
		}
	}
	return
}

// zeroAt: field f of local object a still holds its zero value when instruction at executes.
func (om objModel) zeroAt(a *ssa.Alloc, f int, at ssa.Instruction) bool {
	ws, unk := om.writers(a, f, 3)
	for _, w := range ws {
		if ssau.CanFollow(w.at, at) {
			return false
		}
	}
	for _, u := range unk {
		if ssau.CanFollow(u, at) {
			return false
		}
	}
	return true
}

// deadBy returns the branch that makes instruction in unreachable because its
// condition compares a still-zero field of a local object with the zero value.
func (om objModel) deadBy(in ssa.Instruction) *ssa.If {
	b := in.Block()
	for d := b.Idom(); d != nil; d = d.Idom() {
		ifi := flow.IfOf(d)
		if ifi == nil {
			continue
		}
		bo, eqK, ok := equalEdgeOf(ifi.Cond)
		if !ok {
			continue
		}
		for _, sw := range [][2]ssa.Value{{bo.X, bo.Y}, {bo.Y, bo.X}} {
			x, y := sw[0], sw[1]
			if !isZeroConst(y) {
				continue
			}
			ld, ok := x.(*ssa.UnOp)
			if !ok || ld.Op != token.MUL {
				continue
			}
			fa, ok := ld.X.(*ssa.FieldAddr)
			if !ok {
				continue
			}
			a, ok := fa.X.(*ssa.Alloc)
			if !ok {
				continue
			}
			if !om.zeroAt(a, fa.Field, ld) {
				continue
			}
			// the operands are always equal: the other edge is dead
			dead := d.Succs[1-eqK]
			if len(dead.Preds) == 1 && dead.Dominates(b) {
				return ifi
			}
		}
	}
	return nil
}

func equalEdgeOf(cond ssa.Value) (*ssa.BinOp, int, bool) {
	v, pos := flow.BoolTest(cond)
	b, ok := v.(*ssa.BinOp)
	if !ok || (b.Op != token.EQL && b.Op != token.NEQ) {
		return nil, 0, false
	}
	if (b.Op == token.EQL) == pos {
		return b, 0, true
	}
	return b, 1, true
}

// recvFieldsRead: the receiver fields whose content flows into v (directly or
// through methods of the receiver called on the way).
func (k *checker) recvFieldsRead(fn *ssa.Function, v ssa.Value, depth int) map[*types.Var]bool {
	out := map[*types.Var]bool{}
	if len(fn.Params) == 0 {
		return out
	}
	recvP := fn.Params[0]
	// the receiver itself, or the receiver read back from the cell it lives in once a function literal captures it
	isRecv := func(v ssa.Value) bool {
		if v == ssa.Value(recvP) {
			return true
		}
		if ld, ok := v.(*ssa.UnOp); ok && ld.Op == token.MUL {
			if cell, ok := ld.X.(*ssa.Alloc); ok {
				n, hit := 0, false
				for _, r := range ssau.Refs(cell) {
					if st, isSt := r.(*ssa.Store); isSt && st.Addr == ssa.Value(cell) {
						n++
						hit = hit || st.Val == ssa.Value(recvP)
					}
				}
				return n == 1 && hit
			}
		}
		return false
	}
	for _, x := range collect(v, func(y ssa.Value) bool {
		switch z := y.(type) {
		case *ssa.FieldAddr:
			return isRecv(z.X)
		case *ssa.Call:
			for _, a := range z.Common().Args {
				if isRecv(a) {
					return true
				}
			}
			if z.Common().IsInvoke() && isRecv(z.Common().Value) {
				return true
			}
		}
		return false
	}) {
		switch z := x.(type) {
		case *ssa.FieldAddr:
			if f := ssau.FieldOf(z); f != nil {
				out[f.Origin()] = true
			}
		case *ssa.Call:
			if depth <= 0 {
				continue
			}
			if cal := flow.Callee(z); cal != nil {
				if g := k.c.P.SSA.FuncValue(cal); g != nil && g.Blocks != nil && len(g.Params) > 0 {
					for f := range k.fieldsReadBy(g, depth-1) {
						out[f] = true
					}
				}
			}
		}
	}
	return out
}

// fieldsReadBy: receiver fields loaded anywhere in method g (and in receiver methods it calls).
func (k *checker) fieldsReadBy(g *ssa.Function, depth int) map[*types.Var]bool {
	out := map[*types.Var]bool{}
	recv := g.Params[0]
	var bases []ssa.Value
	bases = append(bases, recv)
	// a value receiver is spilled into a local
	for _, r := range ssau.Refs(recv) {
		if s, ok := r.(*ssa.Store); ok && s.Val == recv {
			bases = append(bases, s.Addr)
		}
	}
	for _, b := range bases {
		for _, r := range ssau.Refs(b) {
			switch x := r.(type) {
			case *ssa.FieldAddr:
				for _, rr := range ssau.Refs(x) {
					if u, ok := rr.(*ssa.UnOp); ok && u.Op == token.MUL {
						if f := ssau.FieldOf(x); f != nil {
							out[f.Origin()] = true
						}
					}
				}
			case *ssa.Call:
				if depth > 0 {
					if cal := flow.Callee(x); cal != nil {
						if h := k.c.P.SSA.FuncValue(cal); h != nil && h.Blocks != nil && len(h.Params) > 0 && h != g {
							for f := range k.fieldsReadBy(h, depth-1) {
								out[f] = true
							}
						}
					}
				}
			}
		}
	}
	return out
}

func fieldSetNames(m map[*types.Var]bool) string {
	var ns []string
	for f := range m {
		ns = append(ns, f.Name())
	}
	sort.Strings(ns)
	return "{" + strings.Join(ns, ",") + "}"
}

// schemaStructOf: t is a named struct type declared in pkg other than self.
func schemaStructOf(t types.Type, pkg *types.Package, self *types.Named) (*types.Struct, bool) {
	n, ok := types.Unalias(t).(*types.Named)
	if !ok || n.Obj().Pkg() != pkg || n.Origin() == self.Origin() {
		return nil, false
	}
	st, ok := n.Underlying().(*types.Struct)
	return st, ok
}

type recvStore struct {
	field  *types.Var
	val    ssa.Value
	at     ssa.Instruction
	fn     *ssa.Function
	fields map[int]bool // schema fields, when already known (struct handed to a helper)
	guards []*ssa.If    // value-dependent conditions the store is subject to (PERSIST-12)
}

// valueGuards returns the branches that decide whether `at` executes and whose condition
// derives from the decoded value (fromSrc), other than the presence test of an optional
// (pointer-like) field against nil and tests of an error.
func valueGuards(at ssa.Instruction, fromSrc func(ssa.Value) bool, isSrcField func(ssa.Value) bool) []*ssa.If {
	var out []*ssa.If
	b := at.Block()
	for d := b.Idom(); d != nil; d = d.Idom() {
		ifi := flow.IfOf(d)
		if ifi == nil {
			continue
		}
		guarded := false
		for _, t := range d.Succs {
			if len(t.Preds) == 1 && t.Dominates(b) {
				guarded = true
			}
		}
		if !guarded || !fromSrc(ifi.Cond) {
			continue
		}
		// presence test of an optional field: field == nil / field != nil
		if bo, _, ok := equalEdgeOf(ifi.Cond); ok {
			presence := false
			for _, sw := range [][2]ssa.Value{{bo.X, bo.Y}, {bo.Y, bo.X}} {
				if flow.IsNilConst(sw[1]) {
					switch sw[0].Type().Underlying().(type) {
					case *types.Pointer, *types.Interface:
						if isSrcField(sw[0]) {
							presence = true
						}
					}
					if types.Identical(sw[0].Type(), errType) {
						presence = true
					}
				}
			}
			if presence {
				continue
			}
		}
		out = append(out, ifi)
	}
	return out
}

// schemaObject finds the local schema struct a ToJSON marshals: built in ToJSON itself, or
// in a receiver helper (`json.Marshal(pn.schemaOf())`) whose result it is. It returns the
// function that builds it, the object and the instruction by which it must be complete.
func (k *checker) schemaObject(pt pairType) (*ssa.Function, *ssa.Alloc, ssa.Instruction) {
	pkg := pt.named.Obj().Pkg()
	var obj *ssa.Alloc
	var sink ssa.Instruction
	isSchema := func(t types.Type) bool {
		_, ok := schemaStructOf(t, pkg, pt.named)
		return ok
	}
	ssau.AllInstrs(pt.toFn, func(in ssa.Instruction) {
		c, ok := in.(ssa.CallInstruction)
		if !ok || obj != nil {
			return
		}
		for _, a := range c.Common().Args {
			if ld, ok := flow.StripAll(a).(*ssa.UnOp); ok && ld.Op == token.MUL {
				if al, ok := ld.X.(*ssa.Alloc); ok && isSchema(al.Type().(*types.Pointer).Elem()) {
					obj, sink = al, c
					return
				}
			}
			if al, ok := flow.StripAll(a).(*ssa.Alloc); ok && isSchema(al.Type().(*types.Pointer).Elem()) {
				obj, sink = al, c
				return
			}
		}
	})
	if obj != nil {
		return pt.toFn, obj, sink
	}
	// built by a helper of the receiver
	var body *ssa.Function
	recv := pt.toFn.Params[0]
	ssau.AllInstrs(pt.toFn, func(in ssa.Instruction) {
		c, ok := in.(*ssa.Call)
		if !ok || obj != nil || c.Common().IsInvoke() || !isSchema(c.Type()) {
			return
		}
		if len(c.Common().Args) == 0 || c.Common().Args[0] != ssa.Value(recv) {
			return
		}
		cal := flow.Callee(c)
		if cal == nil {
			return
		}
		g := k.c.P.SSA.FuncValue(cal)
		if g == nil || g.Blocks == nil {
			return
		}
		for _, s := range flow.ReturnSites(g, 0) {
			if a := localStructOf(s.Val); a != nil {
				body, obj, sink = g, a, s.Ret
			}
		}
	})
	return body, obj, sink
}

func (k *checker) persist1(pt pairType) {
	rep := k.rep(pt.toFn.Pos())
	pkg := pt.named.Obj().Pkg()
	om := objModel{}

	// ---- ToJSON: the local schema object handed to the marshaller
	toBody, obj, sink := k.schemaObject(pt)
	if obj == nil {
		rep.undecide("PERSIST-1", pt.key+".ToJSON", pt.toFn.Pos(), "no local schema struct handed to a marshalling call found")
		return
	}
	schemaT := obj.Type().(*types.Pointer).Elem()
	st, _ := schemaStructOf(schemaT, pkg, pt.named)
	rTo := map[int]map[*types.Var]bool{}
	savedRecv := map[*types.Var]bool{}
	for f := 0; f < st.NumFields(); f++ {
		construct := fmt.Sprintf("%s.ToJSON#%s", pt.key, st.Field(f).Name())
		ws, unk := om.writers(obj, f, 3)
		rTo[f] = map[*types.Var]bool{}
		feasible, fromRecv := 0, 0
		var deadIf *ssa.If
		var deadAt ssa.Instruction
		for _, w := range ws {
			if !ssau.CanFollow(w.at, sink) {
				continue
			}
			if d := om.deadBy(w.orig); d != nil {
				deadIf, deadAt = d, w.orig
				continue
			}
			feasible++
			rf := k.recvFieldsRead(toBody, w.val, 3)
			if len(rf) > 0 {
				fromRecv++
			}
			for r := range rf {
				rTo[f][r] = true
				savedRecv[r] = true
			}
		}
		switch {
		case fromRecv > 0:
			rep.hold("PERSIST-1", construct, ssau.PosOf(sink), fmt.Sprintf("%d feasible assignment(s) from receiver state %s", feasible, fieldSetNames(rTo[f])))
		case len(unk) > 0:
			rep.undecide("PERSIST-1", construct, pt.toFn.Pos(), "the schema object receives a value of unknown content; field-wise coverage cannot be established")
		case deadIf != nil:
			rep.violate("PERSIST-1", construct, ssau.PosOf(deadAt),
				fmt.Sprintf("the only assignment of schema field %s is guarded by a test (%s) of the schema's own, still zero, field: the guard is constantly false, the assignment is dead and the field is always saved as null — the receiver's value is lost on save/reload",
					st.Field(f).Name(), k.c.P.Pos(ssau.PosOf(deadIf))))
		case feasible > 0:
			rep.violate("PERSIST-1", construct, pt.toFn.Pos(), "schema field "+st.Field(f).Name()+" is assigned, but not from the receiver's state")
		default:
			rep.violate("PERSIST-1", construct, pt.toFn.Pos(), "schema field "+st.Field(f).Name()+" is never assigned in ToJSON: it is always saved as the zero value")
		}
	}

	// ---- FromJSON: decoded schema object and receiver stores
	var src []ssa.Value
	var srcT types.Type
	ssau.AllInstrs(pt.fromFn, func(in ssa.Instruction) {
		al, ok := in.(*ssa.Alloc)
		if !ok {
			return
		}
		if _, ok := schemaStructOf(al.Type().(*types.Pointer).Elem(), pkg, pt.named); ok {
			src = append(src, al)
			srcT = al.Type().(*types.Pointer).Elem()
		}
	})
	ssau.AllInstrs(pt.fromFn, func(in ssa.Instruction) {
		if v, ok := in.(ssa.Value); ok {
			if _, isAlloc := v.(*ssa.Alloc); isAlloc {
				return
			}
			if _, ok := schemaStructOf(v.Type(), pkg, pt.named); ok {
				src = append(src, v)
				srcT = v.Type()
			}
		}
	})
	if len(src) == 0 {
		k.rep(pt.fromFn.Pos()).undecide("PERSIST-1", pt.key+".FromJSON", pt.fromFn.Pos(), "no decoded schema struct found")
		return
	}
	if !types.Identical(srcT, schemaT) {
		// generic schema instantiated with the method's own type parameter on both sides: compare origins
		a, b := ssau.NamedOf(srcT), ssau.NamedOf(schemaT)
		if a == nil || b == nil || a.Origin() != b.Origin() {
			rep.violate("PERSIST-1", pt.key, pt.fromFn.Pos(), "ToJSON and FromJSON use different schema structs: "+relType(schemaT)+" vs "+relType(srcT))
			return
		}
	}
	isSrc := func(v ssa.Value) bool {
		for _, s := range src {
			if s == v {
				return true
			}
		}
		return false
	}
	schemaFieldsIn := func(v ssa.Value) map[int]bool {
		out := map[int]bool{}
		for _, x := range collect(v, func(y ssa.Value) bool {
			switch z := y.(type) {
			case *ssa.FieldAddr:
				return isSrc(z.X)
			case *ssa.Field:
				return isSrc(z.X)
			}
			return false
		}) {
			switch z := x.(type) {
			case *ssa.FieldAddr:
				out[z.Field] = true
			case *ssa.Field:
				out[z.Field] = true
			}
		}
		return out
	}
	recv := pt.fromFn.Params[0]
	var stores []recvStore
	srcField := func(y ssa.Value) bool {
		switch z := y.(type) {
		case *ssa.FieldAddr:
			return isSrc(z.X)
		case *ssa.Field:
			return isSrc(z.X)
		}
		return false
	}
	fromSrc := func(v ssa.Value) bool { return derives(v, srcField) }
	// a value that is exactly one schema field (possibly copied into a local)
	isSrcFieldVal := func(v ssa.Value) bool {
		v = flow.StripAll(v)
		if ld, ok := v.(*ssa.UnOp); ok && ld.Op == token.MUL {
			if srcField(ld.X) {
				return true
			}
			if cell, isCell := ld.X.(*ssa.Alloc); isCell {
				for _, r := range ssau.Refs(cell) {
					if st, isSt := r.(*ssa.Store); isSt && st.Addr == ssa.Value(cell) {
						if l2, ok2 := flow.StripAll(st.Val).(*ssa.UnOp); ok2 && srcField(l2.X) {
							return true
						}
					}
				}
			}
		}
		return srcField(v)
	}
	ssau.AllInstrs(pt.fromFn, func(in ssa.Instruction) {
		switch x := in.(type) {
		case *ssa.Store:
			if fa, ok := x.Addr.(*ssa.FieldAddr); ok && fa.X == recv {
				if f := ssau.FieldOf(fa); f != nil {
					stores = append(stores, recvStore{field: f.Origin(), val: x.Val, at: x, fn: pt.fromFn, guards: valueGuards(x, fromSrc, isSrcFieldVal)})
				}
			}
		case *ssa.Call:
			// pn.SetName(gn.Name) / pn.apply(gn): one level of receiver methods
			cc := x.Common()
			var g *ssa.Function
			if cal := flow.Callee(x); cal != nil && !cc.IsInvoke() {
				g = k.c.P.SSA.FuncValue(cal) // the declared body, not an instantiation wrapper
			}
			if g == nil || g.Blocks == nil || len(cc.Args) == 0 || cc.Args[0] != recv || len(g.Params) != len(cc.Args) {
				return
			}
			callGuards := valueGuards(x, fromSrc, isSrcFieldVal)
			ssau.AllInstrs(g, func(gi ssa.Instruction) {
				s, ok := gi.(*ssa.Store)
				if !ok {
					return
				}
				fa, ok := s.Addr.(*ssa.FieldAddr)
				if !ok || fa.X != g.Params[0] {
					return
				}
				for j := 1; j < len(g.Params); j++ {
					pj := g.Params[j]
					if !derives(s.Val, func(y ssa.Value) bool { return y == pj }) {
						continue
					}
					f := ssau.FieldOf(fa)
					if f == nil {
						continue
					}
					// the parameter inside the helper, and the local it is spilled to
					isPj := func(v ssa.Value) bool {
						if v == ssa.Value(pj) {
							return true
						}
						if al, isAl := v.(*ssa.Alloc); isAl {
							for _, r := range ssau.Refs(al) {
								if st, isSt := r.(*ssa.Store); isSt && st.Addr == ssa.Value(al) && st.Val == ssa.Value(pj) {
									return true
								}
							}
						}
						return false
					}
					pjField := func(y ssa.Value) bool {
						switch z := y.(type) {
						case *ssa.FieldAddr:
							return isPj(z.X)
						case *ssa.Field:
							return isPj(z.X)
						}
						return false
					}
					rs := recvStore{field: f.Origin(), val: cc.Args[j], at: x, fn: pt.fromFn}
					rs.guards = append(rs.guards, callGuards...)
					tj := pj.Type()
					if ptr, isPtr := tj.Underlying().(*types.Pointer); isPtr {
						tj = ptr.Elem()
					}
					if _, whole := schemaStructOf(tj, pkg, pt.named); whole {
						// the whole decoded struct is handed over: the fields are selected inside the helper
						rs.fields = map[int]bool{}
						for _, y := range collect(s.Val, pjField) {
							switch z := y.(type) {
							case *ssa.FieldAddr:
								rs.fields[z.Field] = true
							case *ssa.Field:
								rs.fields[z.Field] = true
							}
						}
						rs.guards = append(rs.guards, valueGuards(s, func(v ssa.Value) bool { return derives(v, pjField) }, func(v ssa.Value) bool {
							v = flow.StripAll(v)
							if ld, isLd := v.(*ssa.UnOp); isLd {
								return pjField(ld.X)
							}
							return pjField(v)
						})...)
					} else {
						// one decoded value is handed over: a condition on the parameter is a condition on that value
						rs.guards = append(rs.guards, valueGuards(s, func(v ssa.Value) bool {
							return derives(v, func(y ssa.Value) bool { return y == ssa.Value(pj) })
						}, func(v ssa.Value) bool { return flow.StripAll(v) == ssa.Value(pj) && isSrcFieldVal(cc.Args[j]) })...)
					}
					stores = append(stores, rs)
				}
			})
		}
	})
	fFrom := map[int]map[*types.Var]bool{} // schema field -> receiver fields it is restored into
	restoredRecv := map[*types.Var]bool{}
	guardsOf := map[int][]*ssa.If{}
	unguarded := map[int]bool{}
	for _, s := range stores {
		if om.deadBy(s.at) != nil {
			continue
		}
		fs := s.fields
		if fs == nil {
			fs = schemaFieldsIn(s.val)
		}
		for f := range fs {
			if fFrom[f] == nil {
				fFrom[f] = map[*types.Var]bool{}
			}
			fFrom[f][s.field] = true
			restoredRecv[s.field] = true
			if len(s.guards) == 0 {
				unguarded[f] = true
			} else {
				guardsOf[f] = append(guardsOf[f], s.guards...)
			}
		}
	}
	// PERSIST-12: what was saved is applied whatever its value
	for f := 0; f < st.NumFields(); f++ {
		if len(fFrom[f]) == 0 {
			continue
		}
		name := st.Field(f).Name()
		construct := fmt.Sprintf("%s.FromJSON#%s", pt.key, name)
		if unguarded[f] || len(guardsOf[f]) == 0 {
			k.rep(pt.fromFn.Pos()).hold("PERSIST-12", construct, pt.fromFn.Pos(), "applied under no condition on the decoded value (presence / error tests only)")
			continue
		}
		k.rep(pt.fromFn.Pos()).violate("PERSIST-12", construct, ssau.PosOf(guardsOf[f][0]),
			"schema field "+name+" is applied to the node only if a condition on the DECODED VALUE holds (a comparison with the zero value / a default, IsZero, len, …): a saved value for which the condition fails — 0, \"\", false, an empty list — is dropped on load and the node falls back to something else, so the reloaded graph is not the saved one. Only presence (optional pointer field == nil) and error tests may guard the store")
	}
	repF := k.rep(pt.fromFn.Pos())
	for f := 0; f < st.NumFields(); f++ {
		name := st.Field(f).Name()
		if len(fFrom[f]) == 0 {
			repF.violate("PERSIST-1", fmt.Sprintf("%s.FromJSON#%s", pt.key, name), pt.fromFn.Pos(),
				"schema field "+name+" is saved but never read back into the receiver: after reload the node has lost it")
		} else {
			repF.hold("PERSIST-1", fmt.Sprintf("%s.FromJSON#%s", pt.key, name), pt.fromFn.Pos(), "restored into "+fieldSetNames(fFrom[f]))
		}
		// pairing
		if len(fFrom[f]) > 0 && len(rTo[f]) > 0 {
			paired := false
			for r := range fFrom[f] {
				if rTo[f][r] {
					paired = true
				}
			}
			if paired {
				repF.hold("PERSIST-1", fmt.Sprintf("%s#%s↔", pt.key, name), pt.fromFn.Pos(), fmt.Sprintf("saved from %s, restored into %s", fieldSetNames(rTo[f]), fieldSetNames(fFrom[f])))
			} else {
				repF.violate("PERSIST-1", fmt.Sprintf("%s#%s↔", pt.key, name), pt.fromFn.Pos(),
					fmt.Sprintf("schema field %s is saved from receiver state %s but restored into %s: the round trip moves the value to another field", name, fieldSetNames(rTo[f]), fieldSetNames(fFrom[f])))
			}
		}
	}
	// ---- receiver coverage: every exported (user-settable) field of the node survives
	if rst, ok := pt.named.Underlying().(*types.Struct); ok {
		for i := 0; i < rst.NumFields(); i++ {
			r := rst.Field(i)
			if !r.Exported() {
				continue
			}
			construct := fmt.Sprintf("%s#recv.%s", pt.key, r.Name())
			switch {
			case savedRecv[r.Origin()] && restoredRecv[r.Origin()]:
				rep.hold("PERSIST-1", construct, r.Pos(), "saved by ToJSON and restored by FromJSON")
			case !savedRecv[r.Origin()] && !restoredRecv[r.Origin()]:
				rep.violate("PERSIST-1", construct, r.Pos(),
					"exported field "+r.Name()+" of the node never reaches the saved schema and is never restored: a value set on the node (SetDescription / struct literal) is lost by save + reload")
			case !savedRecv[r.Origin()]:
				rep.violate("PERSIST-1", construct, r.Pos(), "exported field "+r.Name()+" is restored by FromJSON but no feasible assignment in ToJSON saves it")
			default:
				rep.violate("PERSIST-1", construct, r.Pos(), "exported field "+r.Name()+" is saved by ToJSON but never restored by FromJSON")
			}
		}
	}
}
