package c12

import (
	"fmt"
	"go/token"
	"go/types"
	"strings"

	"golang.org/x/tools/go/ssa"

	"polycheck/props/c11/flow"
	"polycheck/ssau"
)

// ---------------------------------------------------------------------------
// PERSIST-10: node ids are unique. Every id put into the id table for a node that
// does not come with an id of its own (i.e. outside the loader) is either
//   - probed: compared (==/!=) with the ids in use — the values of an iteration over
//     the id table, directly or inside an in-package bool helper that receives the
//     candidate — and the store (or, in an id helper, the return) is guarded by a
//     branch whose condition derives from that comparison; or
//   - taken from a monotone counter: an integer field of the instance that is only
//     ever incremented in the package and is re-initialised from the file's ids by the
//     loader.
// A candidate derived from len(table) / a count alone collides with a live id as soon as
// a node other than the newest was deleted or a loaded file has a gap in its ids; the
// next save then has two nodes under one id.

func (k *checker) idTableName() string {
	tables, ok := k.instanceTables()
	if !ok {
		return ""
	}
	for _, t := range tables {
		if t.kind == "node-key" {
			return t.name
		}
	}
	return ""
}

// probeOf: does cond derive from a comparison of candidate with the ids in use (in fn)?
func (k *checker) probeOf(fi *fnInfo, cond ssa.Value, candidate ssa.Value, idTable string, depth int) bool {
	candP := fi.prov(candidate)
	isCand := func(v ssa.Value) bool { return v == candidate || fi.prov(v) == candP }
	return derivesCtl(fi, cond, func(y ssa.Value) bool {
		switch x := y.(type) {
		case *ssa.BinOp:
			if x.Op != token.EQL && x.Op != token.NEQ {
				return false
			}
			for _, sw := range [][2]ssa.Value{{x.X, x.Y}, {x.Y, x.X}} {
				if isCand(sw[0]) && strings.HasPrefix(fi.prov(sw[1]), idTable+"[v@") {
					return true
				}
			}
		case *ssa.Lookup:
			// a reverse table / set of ids keyed by the candidate
			if isCand(x.Index) {
				if m, ok := x.X.Type().Underlying().(*types.Map); ok && isStr(m.Key()) && strings.HasPrefix(fi.prov(x.X), strings.SplitN(idTable, ".", 2)[0]+".") {
					return true
				}
			}
		case *ssa.Call:
			// an in-package bool helper that receives the candidate and compares it with the ids in use
			if depth <= 0 || x.Common().IsInvoke() {
				return false
			}
			g := x.Common().StaticCallee()
			if g == nil || g.Blocks == nil || funcPkgPath(g) != funcPkgPath(fi.fn) || len(g.Params) != len(x.Common().Args) {
				return false
			}
			for j, a := range x.Common().Args {
				if !isCand(a) {
					continue
				}
				gfi := newFnInfo(g)
				gTable := g.Params[0].Name() + "." + strings.SplitN(idTable, ".", 2)[1]
				hit := false
				ssau.AllInstrs(g, func(in ssa.Instruction) {
					if v, ok := in.(ssa.Value); ok && k.probeOf(gfi, v, g.Params[j], gTable, depth-1) {
						if _, isBin := v.(*ssa.BinOp); isBin {
							hit = true
						}
						if _, isLk := v.(*ssa.Lookup); isLk {
							hit = true
						}
					}
				})
				if hit {
					return true
				}
			}
		}
		return false
	})
}

// derivesCtl is derives() extended with control dependence at phis: a flag variable
// (`taken := false; for … { if used == id { taken = true } }; if !taken { … }`) carries
// the outcome of the branches that decide which of its assignments ran, so at a phi the
// conditions of the branches inside the innermost loop around the phi (or, outside any
// loop, of all branches that can reach it) are walked too.
func derivesCtl(fi *fnInfo, v ssa.Value, pred func(ssa.Value) bool) bool {
	seen := map[ssa.Value]bool{}
	var walk func(v ssa.Value) bool
	walk = func(v ssa.Value) bool {
		if v == nil || seen[v] {
			return false
		}
		seen[v] = true
		if derives(v, pred) {
			return true
		}
		found := false
		derives(v, func(y ssa.Value) bool {
			ph, ok := y.(*ssa.Phi)
			if !ok || found {
				return false
			}
			l := ssau.InnermostLoop(fi.loops, ph.Block())
			for _, b := range fi.fn.Blocks {
				if b == ph.Block() && l == nil {
					continue
				}
				if l != nil && !l.Blocks[b] {
					continue
				}
				if l == nil && !ssau.Reaches(b, ph.Block()) {
					continue
				}
				if ifi := flow.IfOf(b); ifi != nil && walk(ifi.Cond) {
					found = true
					return true
				}
			}
			return false
		})
		return found
	}
	return walk(v)
}

// guardedByProbe: `use` executes only on one outcome of a branch whose condition is a probe of candidate.
func (k *checker) guardedByProbe(fi *fnInfo, use ssa.Instruction, candidate ssa.Value, idTable string) bool {
	b := use.Block()
	for d := b; d != nil; d = d.Idom() {
		ifi := flow.IfOf(d)
		if ifi == nil || d == b {
			continue
		}
		guarded := false
		for _, t := range d.Succs {
			if len(t.Preds) == 1 && t.Dominates(b) {
				guarded = true
			}
		}
		if guarded && k.probeOf(fi, ifi.Cond, candidate, idTable, 2) {
			return true
		}
	}
	return false
}

func (k *checker) persist10() {
	table := k.idTableName()
	gp := k.c.P.SSAPkg("generator/graph")
	loader := k.c.P.Func("generator/graph", "Instance.ApplyAppSchema")
	if table == "" || gp == nil {
		k.c.R.Failf("anchor: id table of graph.Instance not found")
		return
	}
	n := 0
	for _, fn := range k.c.P.FuncsOf(gp) {
		if fn == loader || fn.Signature.Recv() == nil || k.c.P.IsControl(fn.Pos()) {
			continue
		}
		if !ssau.IsNamed(fn.Signature.Recv().Type(), gp.Pkg.Path(), "Instance") {
			continue
		}
		n += k.persist10On(fn, k.c.P.FuncName(fn), table)
	}
	if n == 0 {
		k.repo.violate("PERSIST-10", "generator/graph.Instance#ids", gp.Func("New").Pos(), "no function assigns ids to new nodes")
	}
}

func (k *checker) persist10On(fn *ssa.Function, name, table string) int {
	rep := k.rep(fn.Pos())
	fi := newFnInfo(fn)
	idTable := fn.Params[0].Name() + "." + table
	n := 0
	ssau.AllInstrs(fn, func(in ssa.Instruction) {
		mu, ok := in.(*ssa.MapUpdate)
		if !ok || fi.prov(mu.Map) != idTable {
			return
		}
		n++
		construct := name + "#unique-id"
		cand := mu.Value
		// (a) probed here
		if k.guardedByProbe(fi, mu, cand, idTable) {
			rep.hold("PERSIST-10", construct, ssau.PosOf(mu), "the candidate id is compared with the ids in use and stored only behind that test")
			return
		}
		// (b) produced by an in-package id helper that probes before it returns
		if c, isC := flow.StripAll(cand).(*ssa.Call); isC && !c.Common().IsInvoke() {
			if g := c.Common().StaticCallee(); g != nil && g.Blocks != nil && funcPkgPath(g) == funcPkgPath(fn) && len(g.Params) > 0 {
				gfi := newFnInfo(g)
				gTable := g.Params[0].Name() + "." + table
				all, any := true, false
				for _, s := range flow.ReturnSites(g, 0) {
					any = true
					if !k.guardedByProbe(gfi, s.Ret, s.Val, gTable) {
						all = false
					}
				}
				if any && all {
					rep.hold("PERSIST-10", construct, ssau.PosOf(mu), "the id comes from "+g.Name()+"(), which returns a candidate only behind a comparison with the ids in use")
					return
				}
			}
		}
		// (c) monotone counter
		if fv := k.counterField(fn, cand); fv != nil {
			if why := k.counterMonotone(fv); why == "" {
				rep.hold("PERSIST-10", construct, ssau.PosOf(mu), "the id derives from the counter field "+fv.Name()+", which is only incremented and is re-initialised from the file's ids on load")
				return
			} else {
				rep.violate("PERSIST-10", construct, ssau.PosOf(mu), "the id derives from the counter field "+fv.Name()+" but "+why)
				return
			}
		}
		rep.violate("PERSIST-10", construct, ssau.PosOf(mu),
			"a new node is given an id ("+fi.prov(cand)+") that is never compared with the ids still in use (no probe of the id table guarding the store, no monotone counter): after a node other than the newest was deleted, or after loading a file whose ids have a gap, the id is still live — two nodes share one id and the next save panics / drops one of them")
	})
	return n
}

// counterField: the integer field of the receiver the candidate derives from, if any.
func (k *checker) counterField(fn *ssa.Function, cand ssa.Value) *types.Var {
	var out *types.Var
	derives(cand, func(y ssa.Value) bool {
		fa, ok := y.(*ssa.FieldAddr)
		if !ok || fa.X != ssa.Value(fn.Params[0]) {
			return false
		}
		if f := ssau.FieldOf(fa); f != nil && isInt(f.Type()) {
			out = f
			return true
		}
		return false
	})
	return out
}

// counterMonotone: every store into the counter in its package is an increment, except in the loader,
// where it must be set from the file's ids. Returns "" or the reason it is not.
func (k *checker) counterMonotone(fv *types.Var) string {
	gp := k.c.P.SSAPkg("generator/graph")
	loader := k.c.P.Func("generator/graph", "Instance.ApplyAppSchema")
	why := ""
	loaderInit := false
	for _, fn := range k.c.P.FuncsOf(gp) {
		ssau.AllInstrs(fn, func(in ssa.Instruction) {
			s, ok := in.(*ssa.Store)
			if !ok || flow.IsFreshBase(s.Addr) {
				return
			}
			f, _ := flow.FieldBase(s.Addr)
			if f == nil || f.Origin() != fv.Origin() {
				return
			}
			if fn == loader {
				fi := newFnInfo(fn)
				if derives(s.Val, func(y ssa.Value) bool { return strings.Contains(fi.prov(y), ".Nodes[k@") }) {
					loaderInit = true
				}
				return
			}
			bo, isB := s.Val.(*ssa.BinOp)
			inc := false
			if isB && bo.Op == token.ADD {
				for _, sw := range [][2]ssa.Value{{bo.X, bo.Y}, {bo.Y, bo.X}} {
					if lf, _ := flow.LoadedField(sw[0]); lf != nil && lf.Origin() == fv.Origin() {
						if c, isC := ssau.ConstInt(sw[1]); isC && c > 0 {
							inc = true
						}
					}
				}
			}
			if !inc {
				why = "it is assigned something other than itself plus a positive constant in " + fn.Name() + " (ids can be reused)"
			}
		})
	}
	if why == "" && !loaderInit {
		why = "the loader does not re-initialise it from the ids of the file (a loaded id can be handed out again)"
	}
	return why
}

// ---------------------------------------------------------------------------
// PERSIST-11: no stale cache of the wiring. Struct.Dependencies() is the edge list the
// encoder saves. It is recomputed from Data on every call — or, if it can return a value
// kept in a field of the node, every function of package nodes that re-wires Data (the
// reflective writers on &sn.Data, or a direct store) stores into that field on every path
// from the re-wiring to its return.

var reflectiveWriters = map[string]bool{"SetStructField": true, "AddToStructFieldArray": true, "RemoveFromStructFieldArray": true}

func (k *checker) persist11() {
	enum := k.fn("nodes", "Struct.Dependencies")
	if enum == nil {
		return
	}
	k.persist11On(enum, "Struct", k.c.P.FuncName(enum))
}

func (k *checker) persist11On(enum *ssa.Function, typeName, name string) {
	rep := k.rep(enum.Pos())
	fi := newFnInfo(enum)
	recvN := enum.Params[0].Name()
	// the cache fields: fields of the receiver a return value is loaded from
	caches := map[string]bool{}
	for _, s := range flow.ReturnSites(enum, 0) {
		p := fi.prov(s.Val)
		if strings.HasPrefix(p, recvN+".") && !strings.ContainsAny(p[len(recvN)+1:], "()[]{}.") {
			caches[p[len(recvN)+1:]] = true
		}
	}
	if len(caches) == 0 {
		rep.hold("PERSIST-11", name+"#recomputed", enum.Pos(), "no return value is loaded from a field of the node: the list is computed from Data on every call")
		return
	}
	sp := k.c.P.SSAPkg("nodes")
	touchesData := func(v ssa.Value) bool {
		return derives(v, func(y ssa.Value) bool {
			fa, ok := y.(*ssa.FieldAddr)
			if !ok {
				return false
			}
			f := ssau.FieldOf(fa)
			return f != nil && f.Name() == "Data" && ssau.IsNamed(fa.X.Type(), sp.Pkg.Path(), typeName)
		})
	}
	for cache := range caches {
		nW := 0
		bad := false
		for _, fn := range k.c.P.FuncsOf(sp) {
			if k.c.P.IsControl(fn.Pos()) != k.c.P.IsControl(enum.Pos()) {
				continue
			}
			ssau.AllInstrs(fn, func(in ssa.Instruction) {
				isWrite := false
				switch x := in.(type) {
				case *ssa.Call:
					cal := flow.Callee(x)
					if cal != nil && cal.Pkg() != nil && cal.Pkg().Path() == refutilPath && reflectiveWriters[cal.Name()] && len(x.Call.Args) > 0 && touchesData(x.Call.Args[0]) {
						isWrite = true
					}
				case *ssa.Store:
					if !flow.IsFreshBase(x.Addr) && touchesData(x.Addr) {
						isWrite = true
					}
				}
				if !isWrite {
					return
				}
				nW++
				invalidates := func(i2 ssa.Instruction) bool {
					s, ok := i2.(*ssa.Store)
					if !ok || flow.IsFreshBase(s.Addr) {
						return false
					}
					f, base := flow.FieldBase(s.Addr)
					return f != nil && f.Name() == cache && base != nil && ssau.IsNamed(base.Type(), sp.Pkg.Path(), typeName)
				}
				for _, b := range fn.Blocks {
					if len(b.Instrs) == 0 {
						continue
					}
					if r, isR := b.Instrs[len(b.Instrs)-1].(*ssa.Return); isR && flow.PathAvoiding(fn, in, r, invalidates, nil) {
						bad = true
						rep.violate("PERSIST-11", k.c.P.FuncName(fn)+"#invalidates-"+cache, ssau.PosOf(in),
							"Dependencies() can return the list remembered in field "+cache+", and this re-wiring of Data can return without storing into "+cache+": until the next execution Dependencies() — and therefore the saved file — still carries the old wiring")
						return
					}
				}
			})
		}
		if !bad {
			rep.hold("PERSIST-11", name+"#cache-"+cache, enum.Pos(), fmt.Sprintf("the list may come from field %s; all %d re-wirings of Data store into it on every path", cache, nW))
		}
	}
}

// ---------------------------------------------------------------------------
// PERSIST-13: metadata round trip is the identity. The metadata object decoded from the
// file reaches the instance whole: what is handed to the metadata store is the decoded
// map itself or a clone of it (maps.Clone), and nothing reachable from the decoded
// metadata is deleted from / written into on the way. Same on the way out.

func (k *checker) persist13() {
	if fn := k.fn("generator/graph", "Instance.ApplyAppSchema"); fn != nil {
		k.persist13Load(fn, k.c.P.FuncName(fn))
	}
	if fn := k.fn("generator/graph", "Instance.EncodeToAppSchema"); fn != nil {
		k.persist13Save(fn, k.c.P.FuncName(fn))
	}
}

func isCloneOf(fi *fnInfo, v ssa.Value, want string) bool {
	v = flow.StripAll(v)
	if fi.prov(v) == want {
		return true
	}
	if c, ok := v.(*ssa.Call); ok {
		pk, nm := pkgFunc(c)
		if pk == "maps" && nm == "Clone" && len(c.Call.Args) == 1 {
			return isCloneOf(fi, c.Call.Args[0], want)
		}
	}
	return false
}

func (k *checker) mutationsOf(fi *fnInfo, fn *ssa.Function, rootProv string) []ssa.Instruction {
	var out []ssa.Instruction
	from := func(v ssa.Value) bool {
		return derives(v, func(y ssa.Value) bool { return fi.prov(y) == rootProv })
	}
	ssau.AllInstrs(fn, func(in ssa.Instruction) {
		switch x := in.(type) {
		case *ssa.Call:
			if ssau.Builtin(x) == "delete" && len(x.Call.Args) == 2 && from(x.Call.Args[0]) {
				out = append(out, x)
			}
			if ssau.Builtin(x) == "clear" && len(x.Call.Args) == 1 && from(x.Call.Args[0]) {
				out = append(out, x)
			}
		case *ssa.MapUpdate:
			if from(x.Map) {
				out = append(out, x)
			}
		}
	})
	return out
}

func (k *checker) persist13Load(fn *ssa.Function, name string) {
	rep := k.rep(fn.Pos())
	fi := newFnInfo(fn)
	S := decodedSchema(fn)
	if S == nil {
		rep.undecide("PERSIST-13", name+"#metadata-whole", fn.Pos(), "no decoded schema.App")
		return
	}
	metaP := fi.prov(S) + ".Metadata"
	recv := fn.Params[0].Name()
	construct := name + "#metadata-whole"
	roles, okRoles := k.instRoles()
	if !okRoles {
		return
	}
	metaField := recv + "." + roles.metadata
	// handed to the metadata store
	var handed ssa.Instruction
	ok := false
	ssau.AllInstrs(fn, func(in ssa.Instruction) {
		switch x := in.(type) {
		case *ssa.Call:
			args := x.Common().Args
			if len(args) == 0 || !strings.HasPrefix(fi.prov(args[0]), metaField) {
				return
			}
			for _, a := range args[1:] {
				if derives(a, func(y ssa.Value) bool { return fi.prov(y) == metaP }) {
					handed = x
					if isCloneOf(fi, a, metaP) {
						ok = true
					}
				}
			}
		case *ssa.Store:
			if strings.HasPrefix(fi.prov(x.Addr), metaField) && derives(x.Val, func(y ssa.Value) bool { return fi.prov(y) == metaP }) {
				handed = x
				if isCloneOf(fi, x.Val, metaP) {
					ok = true
				}
			}
		}
	})
	muts := k.mutationsOf(fi, fn, metaP)
	switch {
	case handed == nil:
		rep.violate("PERSIST-13", construct, fn.Pos(), "the file's metadata is never handed to the instance's metadata store")
	case len(muts) > 0:
		rep.violate("PERSIST-13", construct, ssau.PosOf(muts[0]),
			"entries of the decoded metadata are deleted / overwritten before it is stored (a filtering pass over the file's metadata): what is saved again is not what was loaded, so a file carrying such entries is not reproduced byte for byte")
	case !ok:
		rep.violate("PERSIST-13", construct, ssau.PosOf(handed), "what is handed to the metadata store is derived from the decoded metadata but is neither the decoded map itself nor a maps.Clone of it (a partial / transformed copy)")
	default:
		rep.hold("PERSIST-13", construct, ssau.PosOf(handed), "the decoded metadata map (or a clone) is stored whole; nothing reachable from it is deleted or written")
	}
}

func (k *checker) persist13Save(fn *ssa.Function, name string) {
	rep := k.rep(fn.Pos())
	fi := newFnInfo(fn)
	construct := name + "#metadata-whole"
	var app *ssa.Parameter
	for _, p := range fn.Params[1:] {
		if pt, ok := p.Type().Underlying().(*types.Pointer); ok && isNamedType(pt.Elem(), schemaPath, "App") {
			app = p
		}
	}
	if app == nil {
		rep.undecide("PERSIST-13", construct, fn.Pos(), "no *schema.App parameter")
		return
	}
	recv := fn.Params[0].Name()
	roles, okRoles := k.instRoles()
	if !okRoles {
		return
	}
	var st *ssa.Store
	ssau.AllInstrs(fn, func(in ssa.Instruction) {
		if s, ok := in.(*ssa.Store); ok && fi.prov(s.Addr) == app.Name()+".Metadata" {
			st = s
		}
	})
	if st == nil {
		rep.violate("PERSIST-13", construct, fn.Pos(), "the instance's metadata is never written to the schema")
		return
	}
	// Data() of the instance's metadata store, or a clone of it
	whole := false
	v := flow.StripAll(st.Val)
	if c, ok := v.(*ssa.Call); ok {
		pk, nm := pkgFunc(c)
		if pk == "maps" && nm == "Clone" && len(c.Call.Args) == 1 {
			v = flow.StripAll(c.Call.Args[0])
		}
	}
	if c, ok := v.(*ssa.Call); ok && len(c.Common().Args) == 1 && strings.HasPrefix(fi.prov(c.Common().Args[0]), recv+"."+roles.metadata) {
		whole = true
		if muts := k.mutationsOf(fi, fn, fi.prov(c)); len(muts) > 0 {
			rep.violate("PERSIST-13", construct, ssau.PosOf(muts[0]), "entries of the instance's metadata are deleted / overwritten while saving")
			return
		}
	}
	if whole {
		rep.hold("PERSIST-13", construct, ssau.PosOf(st), "the instance's metadata map (or a clone) is written whole")
	} else {
		rep.violate("PERSIST-13", construct, ssau.PosOf(st), "what is written as metadata is not the instance's metadata map itself (or a maps.Clone of it)")
	}
}
