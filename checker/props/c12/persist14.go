package c12

import (
	"fmt"
	"go/types"
	"sort"
	"strings"

	"golang.org/x/tools/go/ssa"

	"polycheck/props/c11/flow"
	"polycheck/ssau"
)

// ---------------------------------------------------------------------------
// PERSIST-14: ToJSON is computed from the live fields. For every ToJSON of a
// serialisation pair: the bytes it returns are produced by an encode call made in this
// invocation — or, if a return hands out bytes loaded from a field of the receiver (a
// memo slot), then every function of the package that stores into a field ToJSON reads
// (directly or through the receiver methods it calls; the slot's own bookkeeping fields,
// i.e. those ToJSON itself writes, excluded) stores into that slot on every path from the
// store to its return (the must-pass-through of PERSIST-11). A setter that can return with
// the slot intact makes the next save write the old name / description / value.

func (k *checker) persist14(pairs []pairType) {
	for _, pt := range pairs {
		k.persist14On(pt)
	}
}

func (k *checker) persist14On(pt pairType) {
	fn := pt.toFn
	rep := k.rep(fn.Pos())
	fi := newFnInfo(fn)
	recvN := fn.Params[0].Name()
	slots := map[string]bool{}
	nLive := 0
	for _, s := range flow.ReturnSites(fn, 0) {
		if flow.IsNilConst(s.Val) {
			continue // the error return
		}
		p := fi.prov(s.Val)
		if strings.HasPrefix(p, recvN+".") && !strings.ContainsAny(p[len(recvN)+1:], "()[]{}.") {
			slots[p[len(recvN)+1:]] = true
			continue
		}
		nLive++
	}
	if len(slots) == 0 {
		rep.hold("PERSIST-14", pt.key+".ToJSON#computed-live", fn.Pos(), fmt.Sprintf("%d return(s) of bytes, none loaded from a field of the receiver: encoded from the current fields on every call", nLive))
		return
	}
	// what ToJSON reads, minus what it writes itself (the memo's bookkeeping)
	reads := k.fieldsReadBy(fn, 3)
	written := map[*types.Var]bool{}
	ssau.AllInstrs(fn, func(in ssa.Instruction) {
		if s, ok := in.(*ssa.Store); ok {
			if fa, isFA := s.Addr.(*ssa.FieldAddr); isFA && fa.X == ssa.Value(fn.Params[0]) {
				if f := ssau.FieldOf(fa); f != nil {
					written[f.Origin()] = true
				}
			}
		}
	})
	// key fields: read by ToJSON only to be compared with (or copied into) the memo's own bookkeeping
	// (`serializedVersion == pn.version`). A store into a key field changes the memo's key, i.e. invalidates.
	keys := map[*types.Var]bool{}
	{
		uses := map[*types.Var][]ssa.Instruction{}
		ssau.AllInstrs(fn, func(in ssa.Instruction) {
			ld, ok := in.(*ssa.UnOp)
			if !ok {
				return
			}
			fa, isFA := ld.X.(*ssa.FieldAddr)
			if !isFA || fa.X != ssa.Value(fn.Params[0]) {
				return
			}
			if f := ssau.FieldOf(fa); f != nil {
				uses[f.Origin()] = append(uses[f.Origin()], ssau.Refs(ld)...)
				if len(ssau.Refs(ld)) == 0 {
					uses[f.Origin()] = append(uses[f.Origin()], ld)
				}
			}
		})
		bookLoad := func(v ssa.Value) bool {
			lf, base := flow.LoadedField(v)
			return lf != nil && base == ssa.Value(fn.Params[0]) && written[lf.Origin()]
		}
		for f, us := range uses {
			if written[f] || slots[f.Name()] {
				continue
			}
			all := len(us) > 0
			for _, u := range us {
				switch x := u.(type) {
				case *ssa.BinOp:
					if !(bookLoad(x.X) || bookLoad(x.Y)) {
						all = false
					}
				case *ssa.Store:
					bf, base := flow.FieldBase(x.Addr)
					if bf == nil || base != ssa.Value(fn.Params[0]) || !written[bf.Origin()] {
						all = false
					}
				case *ssa.DebugRef:
				default:
					all = false
				}
			}
			// the field must not also be read through a helper (then it is encoded, not only compared)
			if all {
				keys[f] = true
			}
		}
		// fields reached through receiver methods (pn.Value()) are encoded
		direct := map[*types.Var]bool{}
		for f := range uses {
			direct[f] = true
		}
		sub := k.fieldsReadBy(fn, 3)
		_ = sub
		for f := range keys {
			if !direct[f] {
				delete(keys, f)
			}
		}
		// a key that a called receiver method also reads is not only a key
		ssau.AllInstrs(fn, func(in ssa.Instruction) {
			c, ok := in.(*ssa.Call)
			if !ok || c.Common().IsInvoke() || len(c.Common().Args) == 0 || c.Common().Args[0] != ssa.Value(fn.Params[0]) {
				return
			}
			if cal := flow.Callee(c); cal != nil {
				if g := k.c.P.SSA.FuncValue(cal); g != nil && g.Blocks != nil && len(g.Params) > 0 {
					for f := range k.fieldsReadBy(g, 2) {
						delete(keys, f)
					}
				}
			}
		})
	}
	live := map[*types.Var]bool{}
	var liveNames []string
	for f := range reads {
		if !written[f] && !slots[f.Name()] && !keys[f] {
			live[f] = true
			liveNames = append(liveNames, f.Name())
		}
	}
	sort.Strings(liveNames)
	sp := k.c.P.SSA.Package(pt.named.Obj().Pkg())
	var slotNames []string
	for s := range slots {
		slotNames = append(slotNames, s)
	}
	sort.Strings(slotNames)
	isOurs := func(t types.Type) bool {
		n := ssau.NamedOf(t)
		return n != nil && n.Origin() == pt.named.Origin()
	}
	for _, slot := range slotNames {
		nW, bad := 0, false
		for _, g := range k.c.P.FuncsOf(sp) {
			if g == fn || k.c.P.IsControl(g.Pos()) != k.c.P.IsControl(fn.Pos()) {
				continue
			}
			ssau.AllInstrs(g, func(in ssa.Instruction) {
				s, ok := in.(*ssa.Store)
				if !ok || flow.IsFreshBase(s.Addr) {
					return
				}
				f, base := flow.FieldBase(s.Addr)
				if f == nil || base == nil || !live[f.Origin()] || !isOurs(base.Type()) {
					return
				}
				nW++
				invalidates := func(i2 ssa.Instruction) bool {
					s2, ok := i2.(*ssa.Store)
					if !ok || flow.IsFreshBase(s2.Addr) {
						return false
					}
					f2, b2 := flow.FieldBase(s2.Addr)
					return f2 != nil && (f2.Name() == slot || keys[f2.Origin()]) && b2 != nil && isOurs(b2.Type())
				}
				// an invalidation before the store in the same function counts as well
				before := false
				ssau.AllInstrs(g, func(i2 ssa.Instruction) {
					if invalidates(i2) && ssau.Before(i2, s) {
						before = true
					}
				})
				if before {
					return
				}
				for _, b := range g.Blocks {
					if len(b.Instrs) == 0 {
						continue
					}
					if r, isR := b.Instrs[len(b.Instrs)-1].(*ssa.Return); isR && flow.PathAvoiding(g, s, r, invalidates, nil) {
						{
							rep.violate("PERSIST-14", k.c.P.FuncName(g)+"#invalidates-"+slot, ssau.PosOf(s),
								"ToJSON can return the bytes memoised in field "+slot+", and this store into "+f.Name()+" — a field ToJSON encodes — can return without storing into "+slot+": the next save writes the bytes of the OLD "+f.Name()+" (save, rename, save: the second file still carries the old name)")
						}
						bad = true
						return
					}
				}
			})
		}
		if !bad {
			rep.hold("PERSIST-14", pt.key+".ToJSON#cache-"+slot, fn.Pos(), fmt.Sprintf("bytes may come from field %s; all %d stores into the encoded fields {%s} store into it on every path", slot, nW, strings.Join(liveNames, ",")))
		}
	}
}
