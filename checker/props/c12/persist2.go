package c12

import (
	"fmt"
	"go/types"
	"strings"

	"golang.org/x/tools/go/ssa"

	"polycheck/load"
	"polycheck/props/c11/flow"
	"polycheck/ssau"
)

const schemaPath = load.Module + "/generator/schema"
const nodesPath = load.Module + "/nodes"

func isNamedType(t types.Type, path, name string) bool {
	n, ok := types.Unalias(t).(*types.Named)
	return ok && n.Obj().Pkg() != nil && n.Obj().Pkg().Path() == path && n.Origin().Obj().Name() == name
}

// decodedSchema finds the schema.App value a function decodes (a local of that type).
func decodedSchema(fn *ssa.Function) ssa.Value {
	var out ssa.Value
	ssau.AllInstrs(fn, func(in ssa.Instruction) {
		if out != nil {
			return
		}
		if al, ok := in.(*ssa.Alloc); ok && isNamedType(al.Type().(*types.Pointer).Elem(), schemaPath, "App") {
			out = al
			return
		}
	})
	if out != nil {
		return out
	}
	ssau.AllInstrs(fn, func(in ssa.Instruction) {
		if out != nil {
			return
		}
		if v, ok := in.(ssa.Value); ok && isNamedType(v.Type(), schemaPath, "App") {
			out = v
		}
	})
	return out
}

func (fi *fnInfo) derivesProv(v ssa.Value, want string) bool {
	return derives(v, func(y ssa.Value) bool { return fi.prov(y) == want })
}

// derivesLookup: v derives from a lookup in map m (by provenance) whose key has provenance keyWant.
func (fi *fnInfo) derivesLookup(v ssa.Value, mapProv, keyWant string) bool {
	return derives(v, func(y ssa.Value) bool {
		lk, ok := y.(*ssa.Lookup)
		return ok && fi.prov(lk.X) == mapProv && fi.prov(lk.Index) == keyWant
	})
}

// errorChecked: the error value e is compared with nil and, on the non-nil edge, a
// return carrying it (possibly wrapped) is reached — or the function panics with it.
func errorChecked(fn *ssa.Function, e ssa.Value) bool {
	for _, r := range ssau.Refs(e) {
		bo, ok := r.(*ssa.BinOp)
		if !ok {
			continue
		}
		for _, rr := range ssau.Refs(bo) {
			ifi, ok := rr.(*ssa.If)
			if !ok {
				continue
			}
			b, eqK, ok := equalEdgeOf(ifi.Cond)
			if !ok || b != bo {
				continue
			}
			if !(flow.IsNilConst(bo.X) || flow.IsNilConst(bo.Y)) {
				continue
			}
			bad := ifi.Block().Succs[1-eqK] // e != nil
			for blk := range flow.ReachFrom(bad, nil) {
				if len(blk.Instrs) == 0 {
					continue
				}
				switch last := blk.Instrs[len(blk.Instrs)-1].(type) {
				case *ssa.Return:
					if len(last.Results) > 0 && derives(last.Results[len(last.Results)-1], func(y ssa.Value) bool { return y == e }) {
						return true
					}
				case *ssa.Panic:
					if derives(last.X, func(y ssa.Value) bool { return y == e }) {
						return true
					}
				}
			}
		}
	}
	return false
}

var errType = types.Universe.Lookup("error").Type()

// errorsOfCalls lists (call, error value) for every call of fn whose last result is an error.
func errorsOfCalls(fn *ssa.Function) (calls []*ssa.Call, errs []ssa.Value) {
	ssau.AllInstrs(fn, func(in ssa.Instruction) {
		c, ok := in.(*ssa.Call)
		if !ok {
			return
		}
		sig := c.Common().Signature()
		if sig == nil || sig.Results().Len() == 0 {
			return
		}
		n := sig.Results().Len()
		if !types.Identical(sig.Results().At(n-1).Type(), errType) {
			return
		}
		if f := flow.Callee(c); f != nil && f.Pkg() != nil && f.Pkg().Path() == "fmt" {
			return // fmt.Errorf constructs an error, it does not report one
		}
		if n == 1 {
			calls, errs = append(calls, c), append(errs, c)
			return
		}
		var ev ssa.Value
		for _, r := range ssau.Refs(c) {
			if ex, ok := r.(*ssa.Extract); ok && ex.Index == n-1 {
				ev = ex
			}
		}
		calls, errs = append(calls, c), append(errs, ev)
	})
	return
}

func (k *checker) persist2() {
	fn := k.fn("generator/graph", "Instance.ApplyAppSchema")
	if fn == nil {
		return
	}
	k.persist2On(fn, k.c.P.FuncName(fn))
}

func (k *checker) persist2On(fn *ssa.Function, name string) {
	rep := k.rep(fn.Pos())
	fi := newFnInfo(fn)
	S := decodedSchema(fn)
	if S == nil {
		rep.undecide("PERSIST-2", name, fn.Pos(), "no decoded schema.App value found")
		return
	}
	sP := fi.prov(S)
	recv := fn.Params[0].Name()
	nodesP := sP + ".Nodes"
	roles, okRoles := k.instRoles()
	if !okRoles {
		return
	}

	mapItersOver := func(coll string) []*iter {
		var out []*iter
		for _, l := range fi.loops {
			if it := fi.iters[l]; it != nil && it.kind == "map" && fi.prov(it.coll) == coll {
				out = append(out, it)
			}
		}
		return out
	}
	eachOK := func(it *iter, action func(ssa.Instruction) bool, cut map[flow.Edge]bool) (bool, string) {
		if it.skips(action, cut) {
			return false, "an iteration can reach the next entry without performing it (early continue / conditional)"
		}
		if ex := it.earlyExits(); len(ex) > 0 {
			return false, "the loop can be left before the last entry and still return success (break / return nil) at " + k.c.P.Pos(ssau.PosOf(ex[0]))
		}
		return true, ""
	}

	// (a) every node created and registered under its file id
	var created ssa.Value
	{
		construct := name + "#nodes-created"
		var found *ssa.MapUpdate
		var foundIt *iter
		for _, it := range mapItersOver(nodesP) {
			keyP := nodesP + "[k" + it.tag + "]"
			for b := range it.loop.Blocks {
				for _, in := range b.Instrs {
					mu, ok := in.(*ssa.MapUpdate)
					if !ok || fi.prov(mu.Key) != keyP {
						continue
					}
					if _, isIface := mu.Value.Type().Underlying().(*types.Interface); !isIface {
						continue
					}
					if _, isLocal := flow.StripAll(mu.Map).(*ssa.MakeMap); !isLocal {
						continue
					}
					found, foundIt = mu, it
				}
			}
		}
		if found == nil {
			rep.violate("PERSIST-2", construct, fn.Pos(), "no loop over the file's nodes that records the created node under its file id was found")
		} else {
			created = found.Map
			ok, why := eachOK(foundIt, func(in ssa.Instruction) bool { return in == ssa.Instruction(found) }, nil)
			typed := fi.derivesProv(found.Value, nodesP+"[v"+foundIt.tag+"].Type")
			switch {
			case !ok:
				rep.violate("PERSIST-2", construct, ssau.PosOf(found), "not every node of the file is created: "+why)
			case !typed:
				rep.violate("PERSIST-2", construct, ssau.PosOf(found), "the created node does not derive from the entry's own Type")
			default:
				rep.hold("PERSIST-2", construct, ssau.PosOf(found), "created["+nodesP+"[k]] = factory(entry.Type) on every iteration; loop exhaustive")
			}
			// registration
			construct = name + "#nodes-registered"
			var reg *ssa.MapUpdate
			for b := range foundIt.loop.Blocks {
				for _, in := range b.Instrs {
					mu, ok := in.(*ssa.MapUpdate)
					if ok && fi.prov(mu.Map) == recv+"."+roles.ids {
						reg = mu
					}
				}
			}
			switch {
			case reg == nil:
				rep.violate("PERSIST-2", construct, ssau.PosOf(found), "the created node is not registered in nodeIDs inside the creation loop: the reloaded graph loses the node's file id")
			case fi.prov(reg.Value) != nodesP+"[k"+foundIt.tag+"]":
				rep.violate("PERSIST-2", construct, ssau.PosOf(reg), "the node is registered under something other than its file id ("+fi.prov(reg.Value)+")")
			case fi.prov(reg.Key) != fi.prov(found.Value):
				rep.violate("PERSIST-2", construct, ssau.PosOf(reg), "the node registered is not the node created for this entry")
			default:
				if ok, why := eachOK(foundIt, func(in ssa.Instruction) bool { return in == ssa.Instruction(reg) }, nil); !ok {
					rep.violate("PERSIST-2", construct, ssau.PosOf(reg), "not every created node is registered: "+why)
				} else {
					rep.hold("PERSIST-2", construct, ssau.PosOf(reg), "nodeIDs[created] = file id on every iteration")
				}
			}
		}
	}
	createdP := ""
	if created != nil {
		createdP = fi.prov(created)
	}

	// (b) one SetInput per listed dependency
	{
		construct := name + "#dependencies"
		var calls []*ssa.Call
		ssau.AllInstrs(fn, func(in ssa.Instruction) {
			if c, ok := in.(*ssa.Call); ok && c.Common().IsInvoke() && c.Common().Method.Name() == "SetInput" {
				calls = append(calls, c)
			}
		})
		switch {
		case len(calls) == 0:
			rep.violate("PERSIST-2", construct, fn.Pos(), "no SetInput call found: the wiring of the file is not replayed")
		case created == nil:
			rep.undecide("PERSIST-2", construct, fn.Pos(), "node table not identified")
		default:
			for _, c := range calls {
				li := fi.loopOf(c)
				if li == nil || li.kind != "slice" {
					rep.violate("PERSIST-2", construct, ssau.PosOf(c), "SetInput is not called inside a loop over the entry's dependency list: at most one dependency is replayed")
					continue
				}
				lo := fi.outerOf(li)
				if lo == nil || lo.kind != "map" || fi.prov(lo.coll) != nodesP {
					rep.undecide("PERSIST-2", construct, ssau.PosOf(c), "the dependency loop is not nested in a loop over the file's nodes")
					continue
				}
				collP := nodesP + "[v" + lo.tag + "].Dependencies"
				if fi.prov(li.coll) != collP {
					rep.violate("PERSIST-2", construct, ssau.PosOf(c), "the inner loop does not run over the full dependency list of the current entry (it runs over "+fi.prov(li.coll)+")")
					continue
				}
				elemP := collP + "[e" + li.tag + "]"
				cc := c.Common()
				var problems []string
				if fi.prov(cc.Value) != createdP+"{"+nodesP+"[k"+lo.tag+"]}" {
					problems = append(problems, "SetInput is not called on the node created for the current entry")
				}
				if len(cc.Args) != 2 || fi.prov(cc.Args[0]) != elemP+".Name" {
					problems = append(problems, "the input name is not the dependency's own Name")
				}
				if len(cc.Args) == 2 {
					if !fi.derivesLookup(cc.Args[1], createdP, elemP+".DependencyID") {
						problems = append(problems, "the connected output does not come from the node named by the dependency's DependencyID")
					}
					if !fi.derivesProv(cc.Args[1], elemP+".DependencyPort") {
						problems = append(problems, "the connected output ignores the dependency's DependencyPort")
					}
				}
				if ok, why := eachOK(li, func(in ssa.Instruction) bool { return in == ssa.Instruction(c) }, nil); !ok {
					problems = append(problems, "not every listed dependency leads to a SetInput: "+why)
				}
				if ok, why := eachOK(lo, func(in ssa.Instruction) bool { return in.Block() == li.loop.Header }, nil); !ok {
					problems = append(problems, "not every node has its dependencies replayed: "+why)
				}
				if len(problems) > 0 {
					rep.violate("PERSIST-2", construct, ssau.PosOf(c), strings.Join(problems, "; "))
				} else {
					rep.hold("PERSIST-2", construct, ssau.PosOf(c), "created[k].SetInput(dep.Name, port(created[dep.DependencyID], dep.DependencyPort)) for every dep of every entry")
				}
			}
		}
	}

	// (c) every producer entry sets producers[name]
	{
		construct := name + "#producers"
		prodP := sP + ".Producers"
		var mus []*ssa.MapUpdate
		ssau.AllInstrs(fn, func(in ssa.Instruction) {
			if mu, ok := in.(*ssa.MapUpdate); ok && fi.prov(mu.Map) == recv+"."+roles.producers {
				mus = append(mus, mu)
			}
		})
		if len(mus) == 0 {
			rep.violate("PERSIST-2", construct, fn.Pos(), "producers of the file are never registered")
		}
		for _, mu := range mus {
			it := fi.loopOf(mu)
			if it == nil || it.kind != "map" || fi.prov(it.coll) != prodP {
				rep.violate("PERSIST-2", construct, ssau.PosOf(mu), "producers[…] is not assigned inside a loop over the file's producer table")
				continue
			}
			var problems []string
			if fi.prov(mu.Key) != prodP+"[k"+it.tag+"]" {
				problems = append(problems, "the producer is registered under something other than its file name")
			}
			if created != nil && !fi.derivesLookup(mu.Value, createdP, prodP+"[v"+it.tag+"].NodeID") {
				problems = append(problems, "the producer does not come from the node named by the entry's NodeID")
			}
			if !fi.derivesProv(mu.Value, prodP+"[v"+it.tag+"].Port") {
				problems = append(problems, "the producer ignores the entry's Port")
			}
			if ok, why := eachOK(it, func(in ssa.Instruction) bool { return in == ssa.Instruction(mu) }, nil); !ok {
				problems = append(problems, "not every producer entry is registered: "+why)
			}
			if len(problems) > 0 {
				rep.violate("PERSIST-2", construct, ssau.PosOf(mu), strings.Join(problems, "; "))
			} else {
				rep.hold("PERSIST-2", construct, ssau.PosOf(mu), "producers[file name] = port(created[entry.NodeID], entry.Port) for every entry")
			}
		}
	}

	// (d) every serialisable node gets FromJSON with its own Data
	{
		construct := name + "#parameters"
		var calls []*ssa.Call
		ssau.AllInstrs(fn, func(in ssa.Instruction) {
			if c, ok := in.(*ssa.Call); ok && c.Common().IsInvoke() && c.Common().Method.Name() == "FromJSON" {
				calls = append(calls, c)
			}
		})
		if len(calls) == 0 {
			rep.violate("PERSIST-2", construct, fn.Pos(), "FromJSON is never called: parameter values, names and descriptions of the file are not restored")
		}
		for _, c := range calls {
			it := fi.loopOf(c)
			if it == nil || it.kind != "map" || fi.prov(it.coll) != nodesP {
				rep.violate("PERSIST-2", construct, ssau.PosOf(c), "FromJSON is not called inside a loop over the file's nodes")
				continue
			}
			var problems []string
			cc := c.Common()
			nodeP := createdP + "{" + nodesP + "[k" + it.tag + "]}"
			if created != nil && fi.prov(cc.Value) != nodeP {
				problems = append(problems, "FromJSON is not called on the node created for the current entry")
			}
			if len(cc.Args) != 2 || fi.prov(cc.Args[1]) != nodesP+"[v"+it.tag+"].Data" {
				problems = append(problems, "FromJSON does not receive the entry's own Data")
			}
			// the only way to skip the call is the failed interface assertion
			cut := map[flow.Edge]bool{}
			for b := range it.loop.Blocks {
				ifi := flow.IfOf(b)
				if ifi == nil {
					continue
				}
				v, pos := flow.BoolTest(ifi.Cond)
				ex, ok := v.(*ssa.Extract)
				if !ok || ex.Index != 1 {
					continue
				}
				ta, ok := ex.Tuple.(*ssa.TypeAssert)
				if !ok || !types.Identical(ta.AssertedType, k.serNamed) || fi.prov(ta.X) != nodeP {
					continue
				}
				if pos {
					cut[flow.Edge{From: b, K: 1}] = true
				} else {
					cut[flow.Edge{From: b, K: 0}] = true
				}
			}
			if ok, why := eachOK(it, func(in ssa.Instruction) bool { return in == ssa.Instruction(c) }, cut); !ok {
				problems = append(problems, "a node implementing the serialisation interface can be skipped: "+why)
			}
			if len(problems) > 0 {
				rep.violate("PERSIST-2", construct, ssau.PosOf(c), strings.Join(problems, "; "))
			} else {
				rep.hold("PERSIST-2", construct, ssau.PosOf(c), fmt.Sprintf("created[k].(CustomGraphSerialization).FromJSON(decoder, entry.Data) for every entry; %d assertion edge(s)", len(cut)))
			}
		}
	}

	// (e) errors returned, not dropped
	k.errorsReturned(rep, "PERSIST-2", fn, name)
}

func (k *checker) errorsReturned(rep reporter, rule string, fn *ssa.Function, name string) {
	calls, errs := errorsOfCalls(fn)
	for i, c := range calls {
		construct := fmt.Sprintf("%s#error:%s", name, calleeName(c))
		if errs[i] == nil {
			rep.violate(rule, construct, ssau.PosOf(c), "the error result of this call is discarded: a corrupt file would load 'successfully' into a partial graph")
			continue
		}
		if errorChecked(fn, errs[i]) {
			rep.hold(rule, construct, ssau.PosOf(c), "error compared with nil and returned on the non-nil edge")
		} else if isReturned(fn, errs[i]) {
			rep.hold(rule, construct, ssau.PosOf(c), "error returned to the caller")
		} else {
			rep.violate(rule, construct, ssau.PosOf(c), "the error of this call is not returned to the caller: a corrupt file would load 'successfully' into a partial graph")
		}
	}
}

func isReturned(fn *ssa.Function, e ssa.Value) bool {
	for _, b := range fn.Blocks {
		if len(b.Instrs) == 0 {
			continue
		}
		if r, ok := b.Instrs[len(b.Instrs)-1].(*ssa.Return); ok && len(r.Results) > 0 {
			if derives(r.Results[len(r.Results)-1], func(y ssa.Value) bool { return y == e }) {
				return true
			}
		}
	}
	return false
}
