package c12

import (
	"fmt"
	"go/token"
	"go/types"
	"strings"

	"golang.org/x/tools/go/ssa"

	"polycheck/props/c11/flow"
	"polycheck/ssau"
)

// fieldIndex returns the index of the named field in struct type t, or -1.
func fieldIndex(t types.Type, name string) int {
	if p, ok := t.Underlying().(*types.Pointer); ok {
		t = p.Elem()
	}
	st, ok := t.Underlying().(*types.Struct)
	if !ok {
		return -1
	}
	for i := 0; i < st.NumFields(); i++ {
		if st.Field(i).Name() == name {
			return i
		}
	}
	return -1
}

// localStructOf: v is (a load of) a local struct object; returns the object.
func localStructOf(v ssa.Value) *ssa.Alloc {
	v = flow.StripAll(v)
	if ld, ok := v.(*ssa.UnOp); ok && ld.Op == token.MUL {
		if a, ok := ld.X.(*ssa.Alloc); ok {
			return a
		}
	}
	if a, ok := v.(*ssa.Alloc); ok {
		return a
	}
	return nil
}

// fieldValues returns the values assigned to field `name` of the local struct object a.
func fieldValues(a *ssa.Alloc, name string) []ssa.Value {
	idx := fieldIndex(a.Type(), name)
	if idx < 0 {
		return nil
	}
	ws, _ := objModel{}.writers(a, idx, 3)
	var out []ssa.Value
	for _, w := range ws {
		out = append(out, w.val)
	}
	return out
}

// derivesCallOn: v derives from a call of method `method` whose receiver has provenance recvProv.
func (fi *fnInfo) derivesCallOn(v ssa.Value, method, recvProv string) bool {
	return derives(v, func(y ssa.Value) bool {
		c, ok := y.(*ssa.Call)
		if !ok || calleeName(c) != method {
			return false
		}
		cc := c.Common()
		var r ssa.Value
		if cc.IsInvoke() {
			r = cc.Value
		} else if len(cc.Args) > 0 {
			r = cc.Args[0]
		}
		return r != nil && fi.prov(r) == recvProv
	})
}

func (k *checker) persist3() {
	enc := k.fn("generator/graph", "Instance.EncodeToAppSchema")
	bld := k.nodeEncoder()
	if enc == nil || bld == nil {
		return
	}
	k.persist3Encode(enc, bld, k.c.P.FuncName(enc))
	k.persist3Build(bld, k.c.P.FuncName(bld))
}

func (k *checker) persist3Encode(fn, bld *ssa.Function, name string) {
	rep := k.rep(fn.Pos())
	fi := newFnInfo(fn)
	if len(fn.Params) < 2 {
		rep.undecide("PERSIST-3", name, fn.Pos(), "unexpected signature")
		return
	}
	recv := fn.Params[0].Name()
	var app *ssa.Parameter
	for _, p := range fn.Params[1:] {
		if pt, ok := p.Type().Underlying().(*types.Pointer); ok && isNamedType(pt.Elem(), schemaPath, "App") {
			app = p
		}
	}
	if app == nil {
		rep.undecide("PERSIST-3", name, fn.Pos(), "no *schema.App parameter")
		return
	}
	appP := app.Name()
	roles, okRoles := k.instRoles()
	if !okRoles {
		return
	}
	idsP := recv + "." + roles.ids

	eachOK := func(it *iter, action func(ssa.Instruction) bool) (bool, string) {
		if it.skips(action, nil) {
			return false, "an iteration can reach the next entry without performing it"
		}
		if ex := it.earlyExits(); len(ex) > 0 {
			return false, "the loop can be left before the last entry at " + k.c.P.Pos(ssau.PosOf(ex[0]))
		}
		return true, ""
	}
	// visits: does loop `it` visit every key of map mapP, and what is the provenance of the current key?
	visits := func(it *iter, mapP string) (keyP string, ok bool) {
		if it == nil {
			return "", false
		}
		if it.kind == "map" && fi.prov(it.coll) == mapP {
			return mapP + "[k" + it.tag + "]", true
		}
		if m, isKeys := fi.keysOf(it); isKeys && m == mapP {
			return fi.prov(it.coll) + "[e" + it.tag + "]", true
		}
		return "", false
	}

	// ---- nodes
	{
		construct := name + "#nodes"
		var calls []*ssa.Call
		ssau.AllInstrs(fn, func(in ssa.Instruction) {
			if c, ok := in.(*ssa.Call); ok {
				if sc := c.Common().StaticCallee(); sc != nil && (sc == bld || sc.Origin() == bld) {
					calls = append(calls, c)
				}
			}
		})
		if len(calls) == 0 {
			rep.violate("PERSIST-3", construct, fn.Pos(), "the per-node encoder is never called")
		}
		for _, c := range calls {
			it := fi.loopOf(c)
			keyP, ok := visits(it, idsP)
			if !ok {
				rep.violate("PERSIST-3", construct, ssau.PosOf(c), "nodes are not encoded inside a loop over every entry of nodeIDs (directly or through a slice of all its keys)")
				continue
			}
			var problems []string
			var nodeArg ssa.Value
			for _, a := range c.Common().Args[1:] {
				if _, isIface := a.Type().Underlying().(*types.Interface); isIface {
					nodeArg = a
				}
			}
			if nodeArg == nil || fi.prov(nodeArg) != keyP {
				problems = append(problems, "the node encoded is not the current entry of nodeIDs")
			}
			// stored under the node's id into the map that becomes appSchema.Nodes
			var mu *ssa.MapUpdate
			for _, r := range ssau.Refs(c) {
				if m, ok := r.(*ssa.MapUpdate); ok && m.Value == ssa.Value(c) {
					mu = m
				}
			}
			if mu == nil {
				problems = append(problems, "the encoded node is not stored into the node table")
			} else {
				kp := fi.prov(mu.Key)
				okKey := kp == idsP+"{"+keyP+"}"
				if it.kind == "map" && kp == idsP+"[v"+it.tag+"]" {
					okKey = true
				}
				if !okKey {
					problems = append(problems, "the encoded node is stored under something other than its own id ("+kp+")")
				}
				// the table reaches appSchema.Nodes
				reaches := fi.prov(mu.Map) == appP+".Nodes"
				ssau.AllInstrs(fn, func(in ssa.Instruction) {
					if s, ok := in.(*ssa.Store); ok && fi.prov(s.Addr) == appP+".Nodes" && flow.StripAll(s.Val) == flow.StripAll(mu.Map) {
						reaches = true
					}
				})
				if !reaches {
					problems = append(problems, "the node table is never assigned to the schema's Nodes")
				}
				if ok, why := eachOK(it, func(in ssa.Instruction) bool { return in == ssa.Instruction(mu) }); !ok {
					problems = append(problems, "not every node is saved: "+why)
				}
			}
			if len(problems) > 0 {
				rep.violate("PERSIST-3", construct, ssau.PosOf(c), strings.Join(problems, "; "))
			} else {
				rep.hold("PERSIST-3", construct, ssau.PosOf(c), "Nodes[nodeIDs[node]] = encode(node) for every entry of nodeIDs")
			}
		}
	}

	// ---- producers
	{
		construct := name + "#producers"
		prodP := recv + "." + roles.producers
		var mus []*ssa.MapUpdate
		ssau.AllInstrs(fn, func(in ssa.Instruction) {
			if mu, ok := in.(*ssa.MapUpdate); ok && fi.prov(mu.Map) == appP+".Producers" {
				mus = append(mus, mu)
			}
		})
		if len(mus) == 0 {
			rep.violate("PERSIST-3", construct, fn.Pos(), "producers are never written to the schema")
		}
		for _, mu := range mus {
			it := fi.loopOf(mu)
			if it == nil || it.kind != "map" || fi.prov(it.coll) != prodP {
				if _, ok := visits(it, prodP); !ok {
					rep.violate("PERSIST-3", construct, ssau.PosOf(mu), "Producers[…] is not assigned inside a loop over every entry of the producer table")
					continue
				}
			}
			var problems []string
			keyP, _ := visits(it, prodP)
			valP := prodP + "[v" + it.tag + "]"
			if it.kind != "map" {
				valP = prodP + "{" + keyP + "}"
			}
			if fi.prov(mu.Key) != keyP {
				problems = append(problems, "the producer is saved under something other than its name")
			}
			obj := localStructOf(mu.Value)
			if obj == nil {
				problems = append(problems, "saved producer is not a local struct literal (idiom not recognised)")
			} else {
				idOK, portOK := false, false
				for _, v := range fieldValues(obj, "NodeID") {
					if derives(v, func(y ssa.Value) bool {
						lk, ok := y.(*ssa.Lookup)
						return ok && fi.prov(lk.X) == idsP && fi.derivesCallOn(lk.Index, "Node", valP)
					}) {
						idOK = true
					}
				}
				for _, v := range fieldValues(obj, "Port") {
					if fi.derivesCallOn(v, "Port", valP) {
						portOK = true
					}
				}
				if !idOK {
					problems = append(problems, "NodeID is not the id of the producer's own node")
				}
				if !portOK {
					problems = append(problems, "Port is not the producer's own port")
				}
			}
			if ok, why := eachOK(it, func(in ssa.Instruction) bool { return in == ssa.Instruction(mu) }); !ok {
				problems = append(problems, "not every producer is saved: "+why)
			}
			if len(problems) > 0 {
				rep.violate("PERSIST-3", construct, ssau.PosOf(mu), strings.Join(problems, "; "))
			} else {
				rep.hold("PERSIST-3", construct, ssau.PosOf(mu), "Producers[name] = {nodeIDs[p.Node()], p.Port()} for every entry of producers")
			}
		}
	}
}

// accessor of the dependency element that must feed each field of schema.NodeDependency
var depFieldAccessor = [][2]string{{"DependencyID", "Dependency"}, {"DependencyPort", "DependencyPort"}, {"Name", "Name"}}

func (k *checker) persist3Build(fn *ssa.Function, name string) {
	rep := k.rep(fn.Pos())
	fi := newFnInfo(fn)
	recv := fn.Params[0].Name()
	var node *ssa.Parameter
	for _, p := range fn.Params[1:] {
		if _, ok := p.Type().Underlying().(*types.Interface); ok && node == nil {
			node = p
		}
	}
	if node == nil {
		rep.undecide("PERSIST-3", name, fn.Pos(), "no node parameter")
		return
	}
	// the returned object
	var result *ssa.Alloc
	for _, s := range flow.ReturnSites(fn, 0) {
		if a := localStructOf(s.Val); a != nil {
			result = a
		}
	}
	if result == nil {
		rep.undecide("PERSIST-3", name, fn.Pos(), "the result is not a local struct object")
		return
	}
	resP := fi.prov(result)
	depsP := "Dependencies(" + node.Name() + ")"

	// ---- dependencies
	{
		construct := name + "#dependencies"
		var appends []*ssa.Call
		ssau.AllInstrs(fn, func(in ssa.Instruction) {
			c, ok := in.(*ssa.Call)
			if !ok || ssau.Builtin(c) != "append" {
				return
			}
			// result stored into result.Dependencies
			for _, r := range ssau.Refs(c) {
				if s, ok := r.(*ssa.Store); ok && s.Val == ssa.Value(c) && fi.prov(s.Addr) == resP+".Dependencies" {
					appends = append(appends, c)
				}
			}
		})
		if len(appends) == 0 {
			rep.violate("PERSIST-3", construct, fn.Pos(), "the node's dependencies are never appended to the saved instance: the wiring is lost on save")
		}
		for _, a := range appends {
			it := fi.loopOf(a)
			if it == nil || it.kind != "slice" || fi.prov(it.coll) != depsP {
				rep.violate("PERSIST-3", construct, ssau.PosOf(a), "dependencies are not appended inside a loop over the full node.Dependencies() list")
				continue
			}
			elemP := depsP + "[e" + it.tag + "]"
			var problems []string
			if fi.prov(a.Call.Args[0]) != resP+".Dependencies" {
				problems = append(problems, "append does not extend the instance's own Dependencies")
			}
			// the appended element
			var elems []ssa.Value
			if len(a.Call.Args) == 2 {
				elems = collect(a.Call.Args[1], func(y ssa.Value) bool {
					al, ok := y.(*ssa.Alloc)
					return ok && isNamedType(al.Type().(*types.Pointer).Elem(), schemaPath, "NodeDependency")
				})
			}
			if len(elems) != 1 {
				problems = append(problems, "appended element is not a single schema.NodeDependency literal (idiom not recognised)")
			} else {
				obj := elems[0].(*ssa.Alloc)
				for _, fa := range depFieldAccessor {
					ok := false
					for _, v := range fieldValues(obj, fa[0]) {
						if fa[0] == "DependencyID" {
							if derives(v, func(y ssa.Value) bool {
								lk, isLk := y.(*ssa.Lookup)
								return isLk && fi.prov(lk.X) == recv+"."+k.idTableName() && fi.derivesCallOn(lk.Index, fa[1], elemP)
							}) {
								ok = true
							}
						} else if fi.derivesCallOn(v, fa[1], elemP) {
							ok = true
						}
					}
					if !ok {
						problems = append(problems, fmt.Sprintf("%s is not taken from %s() of the current dependency", fa[0], fa[1]))
					}
				}
			}
			if it.skips(func(in ssa.Instruction) bool { return in == ssa.Instruction(a) }, nil) {
				problems = append(problems, "a dependency can be skipped")
			}
			if ex := it.earlyExits(); len(ex) > 0 {
				problems = append(problems, "the loop can be left before the last dependency")
			}
			if len(problems) > 0 {
				rep.violate("PERSIST-3", construct, ssau.PosOf(a), strings.Join(problems, "; "))
			} else {
				rep.hold("PERSIST-3", construct, ssau.PosOf(a), "one NodeDependency{nodeIDs[d.Dependency()], d.DependencyPort(), d.Name()} per element of node.Dependencies()")
			}
		}
	}

	// ---- type
	{
		construct := name + "#type"
		keyFns := k.typeKeyCallees()
		ok, sameKey := false, false
		for _, v := range fieldValues(result, "Type") {
			if derives(v, func(y ssa.Value) bool { return y == ssa.Value(node) }) {
				ok = true
			}
			if derives(v, func(y ssa.Value) bool {
				c, isC := y.(*ssa.Call)
				return isC && keyFns[flow.Callee(c)]
			}) {
				sameKey = true
			}
		}
		switch {
		case !ok:
			rep.violate("PERSIST-3", construct, fn.Pos(), "the saved Type does not derive from the node: reload cannot re-create it")
		case len(keyFns) > 0 && !sameKey:
			rep.violate("PERSIST-3", construct, fn.Pos(), "the saved Type is not computed by the function the type factory uses for its registry key: reload looks the type up under a different name")
		default:
			rep.hold("PERSIST-3", construct, fn.Pos(), fmt.Sprintf("Type derives from the node through the factory's key function (%d key function(s))", len(keyFns)))
		}
	}

	// ---- data
	{
		construct := name + "#data"
		var toJSON *ssa.Call
		ssau.AllInstrs(fn, func(in ssa.Instruction) {
			if c, ok := in.(*ssa.Call); ok && c.Common().IsInvoke() && c.Common().Method.Name() == "ToJSON" {
				toJSON = c
			}
		})
		if toJSON == nil {
			rep.violate("PERSIST-3", construct, fn.Pos(), "ToJSON is never called: parameter values are not saved")
			return
		}
		var problems []string
		if fi.prov(toJSON.Common().Value) != node.Name() {
			problems = append(problems, "ToJSON is not called on the node being encoded")
		}
		idx := fieldIndex(result.Type(), "Data")
		ws, _ := objModel{}.writers(result, idx, 3)
		var store ssa.Instruction
		for _, w := range ws {
			if derives(w.val, func(y ssa.Value) bool { return y == ssa.Value(toJSON) }) {
				store = w.at
			}
		}
		if store == nil {
			problems = append(problems, "the result of ToJSON is not stored into the instance's Data")
		} else {
			// every normal path on which the node implements the interface stores Data
			cut := map[flow.Edge]bool{}
			for _, b := range fn.Blocks {
				ifi := flow.IfOf(b)
				if ifi == nil {
					continue
				}
				v, pos := flow.BoolTest(ifi.Cond)
				ex, ok := v.(*ssa.Extract)
				if !ok || ex.Index != 1 {
					continue
				}
				ta, ok := ex.Tuple.(*ssa.TypeAssert)
				if !ok || !types.Identical(ta.AssertedType, k.serNamed) || fi.prov(ta.X) != node.Name() {
					continue
				}
				if pos {
					cut[flow.Edge{From: b, K: 1}] = true
				} else {
					cut[flow.Edge{From: b, K: 0}] = true
				}
			}
			for _, b := range fn.Blocks {
				if len(b.Instrs) == 0 {
					continue
				}
				if r, ok := b.Instrs[len(b.Instrs)-1].(*ssa.Return); ok {
					if flow.PathAvoiding(fn, nil, r, func(in ssa.Instruction) bool { return in == store }, cut) {
						problems = append(problems, "a serialisable node can be returned without its Data")
					}
				}
			}
		}
		if len(problems) > 0 {
			rep.violate("PERSIST-3", construct, ssau.PosOf(toJSON), strings.Join(problems, "; "))
		} else {
			rep.hold("PERSIST-3", construct, ssau.PosOf(toJSON), "Data = node.(CustomGraphSerialization).ToJSON(encoder) whenever the node implements the interface")
		}
	}
}
