package c12

import (
	"fmt"
	"go/types"
	"sort"
	"strings"

	"golang.org/x/tools/go/ssa"

	"polycheck/load"
	"polycheck/props/c11/flow"
	"polycheck/ssau"
)

// ---------------------------------------------------------------------------
// PERSIST-4: byte determinism (ORD-1 with the saved bytes as sink)

func funcPkgPath(fn *ssa.Function) string {
	if fn == nil {
		return ""
	}
	if fn.Pkg != nil {
		return fn.Pkg.Pkg.Path()
	}
	if o := fn.Origin(); o != nil && o.Pkg != nil {
		return o.Pkg.Pkg.Path()
	}
	if fn.Object() != nil && fn.Object().Pkg() != nil {
		return fn.Object().Pkg().Path()
	}
	if fn.Parent() != nil {
		return funcPkgPath(fn.Parent())
	}
	return ""
}

func (k *checker) newOrd() *flow.Ord1 {
	byName := map[string][]*ssa.Function{}
	for _, pk := range k.c.P.Pkgs {
		scope := pk.Types.Scope()
		for _, n := range scope.Names() {
			tn, ok := scope.Lookup(n).(*types.TypeName)
			if !ok {
				continue
			}
			named, ok := tn.Type().(*types.Named)
			if !ok {
				continue
			}
			for i := 0; i < named.NumMethods(); i++ {
				m := named.Method(i)
				if f := k.c.P.SSA.FuncValue(m.Origin()); f != nil && f.Blocks != nil {
					byName[m.Name()] = append(byName[m.Name()], f)
				}
			}
		}
	}
	return &flow.Ord1{
		InScope: func(fn *ssa.Function) bool {
			p := funcPkgPath(fn)
			return strings.HasPrefix(p, load.Module) || strings.HasPrefix(p, "github.com/EliCDavis/jbtf")
		},
		Impls: func(m *types.Func) []*ssa.Function {
			msig, _ := m.Type().(*types.Signature)
			var out []*ssa.Function
			for _, f := range byName[m.Name()] {
				if msig != nil && types.Identical(msig.Params(), f.Signature.Params()) && types.Identical(msig.Results(), f.Signature.Results()) {
					out = append(out, f)
				}
			}
			return out
		},
		SinkCall: func(c ssa.CallInstruction, arg int) bool {
			f := flow.Callee(c)
			if f == nil || f.Pkg() == nil {
				return false
			}
			p := f.Pkg().Path()
			if p != "encoding/json" && !strings.HasPrefix(p, "github.com/EliCDavis/jbtf") {
				return false
			}
			switch f.Name() {
			case "Marshal", "MarshalIndent", "ToPgtf", "Encode":
				return true
			}
			return false
		},
	}
}

func (k *checker) persist4() {
	root := k.fn("generator", "App.Schema")
	if root == nil {
		return
	}
	k.persist4On(root, k.c.P.FuncName(root))
}

func (k *checker) persist4On(root *ssa.Function, name string) {
	rep := k.rep(root.Pos())
	o := k.newOrd()
	sums := o.Summarise(root)
	rs := sums[root]
	if rs == nil {
		rep.undecide("PERSIST-4", name, root.Pos(), "no summary for the root")
		return
	}
	// every order-carrying accumulation found on the way
	var fns []*ssa.Function
	for f := range sums {
		fns = append(fns, f)
	}
	sort.Slice(fns, func(i, j int) bool {
		a, b := k.c.P.FuncName(fns[i]), k.c.P.FuncName(fns[j])
		if a != b {
			return a < b
		}
		return fns[i].Pos() < fns[j].Pos()
	})
	nMapLoops, nSources := 0, 0
	rootLeaks := rs.Ret != nil
	for _, src := range rs.Sources {
		if src.Leaks {
			rootLeaks = true
		}
	}
	// the accumulations that actually reach the encoder / the returned bytes
	culprit := map[ssa.Instruction]bool{}
	if rs.Ret != nil {
		culprit[rs.Ret.Root().At] = true
	}
	for _, src := range rs.Sources {
		if src.Leaks {
			if src.Origin != nil {
				culprit[src.Origin.Root().At] = true
			} else {
				culprit[src.At] = true
			}
		}
	}
	seenC := map[string]int{}
	attributed := false
	for _, f := range fns {
		s := sums[f]
		nMapLoops += flow.MapRangeLoops(f)
		if s == nil || !strings.HasPrefix(funcPkgPath(f), load.Module) {
			continue
		}
		if k.c.P.IsControl(f.Pos()) != k.c.P.IsControl(root.Pos()) {
			continue
		}
		for _, src := range s.Sources {
			nSources++
			construct := k.c.P.FuncName(f) + "#" + src.Key
			seenC[construct]++
			if seenC[construct] > 1 {
				construct = fmt.Sprintf("%s#%d", construct, seenC[construct])
			}
			hop := strings.HasPrefix(src.Key, "call:")
			switch {
			case src.Fatal:
				attributed = true
				rep.violate("PERSIST-4", construct, ssau.PosOf(src.At),
					src.What+": "+src.How+". Two saves of the same graph (in particular the save of a reloaded graph) lay the accumulated data out in different orders, so the file is not reproduced byte for byte")
			case src.Leaks && !hop && rootLeaks && culprit[src.At]:
				attributed = true
				rep.violate("PERSIST-4", construct, ssau.PosOf(src.At), src.What+" — "+src.How+", and no caller up to "+name+" sorts it before it reaches the encoder: the saved bytes depend on map iteration order")
			case src.Leaks:
				rep.hold("PERSIST-4", construct, ssau.PosOf(src.At), src.What+" leaves this function unsorted ("+src.How+"); sorted or dropped by a caller")
			case src.Sorted:
				rep.hold("PERSIST-4", construct, ssau.PosOf(src.At), src.What+", sorted before it is used")
			default:
				rep.hold("PERSIST-4", construct, ssau.PosOf(src.At), src.What+", never leaves the function")
			}
		}
	}
	facts := []string{fmt.Sprintf("%d function(s) reachable from the root summarised, %d map-range loop(s), %d order-carrying accumulation(s)", len(sums), nMapLoops, nSources)}
	switch {
	case rootLeaks && !attributed:
		why := "a map-ordered slice reaches the encoder"
		if rs.Ret != nil {
			why = rs.Ret.Why
		}
		rep.violate("PERSIST-4", name+"#bytes", root.Pos(), "the saved bytes carry map iteration order: "+why, facts...)
	case !rootLeaks:
		rep.hold("PERSIST-4", name+"#bytes", root.Pos(), facts...)
	}
	if k.c.P.IsControl(root.Pos()) {
		return
	}
	k.c.R.Extra["persist4_functions_summarised"] = len(sums)
	k.c.R.Extra["persist4_map_range_loops"] = nMapLoops
}

// ---------------------------------------------------------------------------
// PERSIST-5: every schema.App field travels both ways

func (k *checker) persist5() {
	schemaFn := k.fn("generator", "App.Schema")
	applyFn := k.fn("generator", "App.ApplySchema")
	encFn := k.fn("generator/graph", "Instance.EncodeToAppSchema")
	decFn := k.fn("generator/graph", "Instance.ApplyAppSchema")
	if schemaFn == nil || applyFn == nil || encFn == nil || decFn == nil {
		return
	}
	rep := k.rep(schemaFn.Pos())
	sp := k.c.P.Pkg("generator/schema")
	if sp == nil {
		k.c.R.Failf("anchor package generator/schema not found")
		return
	}
	tn, _ := sp.Types.Scope().Lookup("App").(*types.TypeName)
	if tn == nil {
		k.c.R.Failf("anchor generator/schema.App not found")
		return
	}
	st, _ := tn.Type().Underlying().(*types.Struct)
	if st == nil {
		k.c.R.Failf("anchor generator/schema.App is not a struct")
		return
	}

	// ---- encode side
	var obj *ssa.Alloc
	ssau.AllInstrs(schemaFn, func(in ssa.Instruction) {
		if al, ok := in.(*ssa.Alloc); ok && obj == nil && isNamedType(al.Type().(*types.Pointer).Elem(), schemaPath, "App") {
			// prefer the variable that is handed to the instance / encoder
			for _, r := range ssau.Refs(al) {
				if _, isCall := r.(ssa.CallInstruction); isCall {
					obj = al
				}
				// captured by a function literal that a once-helper runs
				if _, isMC := r.(*ssa.MakeClosure); isMC {
					obj = al
				}
			}
		}
	})
	if obj == nil {
		rep.undecide("PERSIST-5", k.c.P.FuncName(schemaFn), schemaFn.Pos(), "no local schema.App handed to the encoder found")
		return
	}
	// the instance fills the rest through the pointer
	encCalled := false
	ssau.AllInstrs(schemaFn, func(in ssa.Instruction) {
		if c, ok := in.(*ssa.Call); ok {
			if sc := c.Common().StaticCallee(); sc != nil && sc == encFn {
				for _, a := range c.Common().Args {
					if a == ssa.Value(obj) {
						encCalled = true
					}
				}
			}
		}
	})
	if !encCalled {
		for _, w := range k.wrappers(schemaFn) {
			if !w.once {
				continue
			}
			ssau.AllInstrs(w.body, func(in ssa.Instruction) {
				c, ok := in.(*ssa.Call)
				if !ok {
					return
				}
				if sc := c.Common().StaticCallee(); sc == nil || sc != encFn {
					return
				}
				for _, a := range c.Common().Args {
					for i, fv := range w.body.FreeVars {
						if a == ssa.Value(fv) && i < len(w.closure.Bindings) && w.closure.Bindings[i] == ssa.Value(obj) {
							encCalled = true
						}
					}
				}
			})
		}
	}
	encFi := newFnInfo(encFn)
	var appParam *ssa.Parameter
	for _, p := range encFn.Params[1:] {
		if pt, ok := p.Type().Underlying().(*types.Pointer); ok && isNamedType(pt.Elem(), schemaPath, "App") {
			appParam = p
		}
	}
	byInstance := map[int]bool{}
	if appParam != nil && encCalled {
		recvName := encFn.Params[0].Name()
		ssau.AllInstrs(encFn, func(in ssa.Instruction) {
			fromState := func(v ssa.Value) bool {
				return derives(v, func(y ssa.Value) bool {
					fa, ok := y.(*ssa.FieldAddr)
					return ok && strings.HasPrefix(encFi.prov(fa), recvName+".")
				})
			}
			switch x := in.(type) {
			case *ssa.Store:
				if fa, ok := x.Addr.(*ssa.FieldAddr); ok && fa.X == ssa.Value(appParam) && fromState(x.Val) {
					byInstance[fa.Field] = true
				}
			case *ssa.MapUpdate:
				if ld, ok := x.Map.(*ssa.UnOp); ok {
					if fa, ok := ld.X.(*ssa.FieldAddr); ok && fa.X == ssa.Value(appParam) && (fromState(x.Value) || fromState(x.Key)) {
						byInstance[fa.Field] = true
					}
				}
			}
		})
	}
	om := objModel{}
	rEnc := map[int]map[*types.Var]bool{}
	for f := 0; f < st.NumFields(); f++ {
		ws, _ := om.writers(obj, f, 3)
		rEnc[f] = map[*types.Var]bool{}
		for _, w := range ws {
			if om.deadBy(w.orig) != nil {
				continue
			}
			for r := range k.recvFieldsRead(schemaFn, w.val, 2) {
				rEnc[f][r] = true
			}
		}
	}

	// ---- decode side
	applyRep := k.rep(applyFn.Pos())
	S := decodedSchema(applyFn)
	fDec := map[int]map[*types.Var]bool{}
	if S == nil {
		applyRep.undecide("PERSIST-5", k.c.P.FuncName(applyFn), applyFn.Pos(), "no decoded schema.App value found")
		return
	}
	isS := func(v ssa.Value) bool {
		if v == S {
			return true
		}
		// whole value stored into the local, or the local loaded
		if a, ok := S.(*ssa.Alloc); ok {
			if ld, ok := v.(*ssa.UnOp); ok && ld.X == ssa.Value(a) {
				return true
			}
		}
		return isNamedType(v.Type(), schemaPath, "App")
	}
	recvA := applyFn.Params[0]
	ssau.AllInstrs(applyFn, func(in ssa.Instruction) {
		s, ok := in.(*ssa.Store)
		if !ok {
			return
		}
		fa, ok := s.Addr.(*ssa.FieldAddr)
		if !ok || fa.X != ssa.Value(recvA) {
			return
		}
		r := ssau.FieldOf(fa)
		if r == nil || om.deadBy(s) != nil {
			return
		}
		for _, x := range collect(s.Val, func(y ssa.Value) bool {
			switch z := y.(type) {
			case *ssa.FieldAddr:
				return isS(z.X)
			case *ssa.Field:
				return isS(z.X)
			}
			return false
		}) {
			idx := -1
			switch z := x.(type) {
			case *ssa.FieldAddr:
				idx = z.Field
			case *ssa.Field:
				idx = z.Field
			}
			if idx >= 0 {
				if fDec[idx] == nil {
					fDec[idx] = map[*types.Var]bool{}
				}
				fDec[idx][r.Origin()] = true
			}
		}
	})
	// the instance's share of the decode
	decByInstance := map[int]bool{}
	decCalled := false
	ssau.AllInstrs(applyFn, func(in ssa.Instruction) {
		if c, ok := in.(*ssa.Call); ok {
			if sc := c.Common().StaticCallee(); sc != nil && sc == decFn {
				decCalled = true
			}
		}
	})
	if decCalled {
		dS := decodedSchema(decFn)
		ssau.AllInstrs(decFn, func(in ssa.Instruction) {
			var base ssa.Value
			idx := -1
			switch z := in.(type) {
			case *ssa.FieldAddr:
				base, idx = z.X, z.Field
			case *ssa.Field:
				base, idx = z.X, z.Field
			}
			if idx < 0 || dS == nil {
				return
			}
			if base == dS || isNamedType(base.Type(), schemaPath, "App") {
				// the read must be used
				for _, r := range ssau.Refs(in.(ssa.Value)) {
					if u, ok := r.(ssa.Value); ok && len(ssau.Refs(u)) > 0 {
						decByInstance[idx] = true
					}
				}
			}
		})
	}

	for f := 0; f < st.NumFields(); f++ {
		name := st.Field(f).Name()
		construct := "generator/schema.App." + name
		encOK := len(rEnc[f]) > 0 || byInstance[f]
		decOK := len(fDec[f]) > 0 || decByInstance[f]
		switch {
		case !encOK:
			rep.violate("PERSIST-5", construct+"#save", schemaFn.Pos(), "schema.App."+name+" is never filled from application / graph state by App.Schema or EncodeToAppSchema: it is not saved")
		default:
			who := "the graph instance"
			if len(rEnc[f]) > 0 {
				who = "App" + fieldSetNames(rEnc[f])
			}
			rep.hold("PERSIST-5", construct+"#save", schemaFn.Pos(), "filled from "+who)
		}
		switch {
		case !decOK:
			applyRep.violate("PERSIST-5", construct+"#load", applyFn.Pos(), "schema.App."+name+" is never read back by App.ApplySchema or Instance.ApplyAppSchema: it is lost on reload")
		default:
			who := "the graph instance"
			if len(fDec[f]) > 0 {
				who = "App" + fieldSetNames(fDec[f])
			}
			applyRep.hold("PERSIST-5", construct+"#load", applyFn.Pos(), "read back into "+who)
		}
		if len(rEnc[f]) > 0 && len(fDec[f]) > 0 {
			paired := false
			for r := range fDec[f] {
				if rEnc[f][r] {
					paired = true
				}
			}
			if paired {
				applyRep.hold("PERSIST-5", construct+"↔", applyFn.Pos(), "saved from and restored into the same App field")
			} else {
				applyRep.violate("PERSIST-5", construct+"↔", applyFn.Pos(),
					fmt.Sprintf("schema.App.%s is saved from App%s but restored into App%s", name, fieldSetNames(rEnc[f]), fieldSetNames(fDec[f])))
			}
		}
	}
	k.errorsReturned(applyRep, "PERSIST-5", applyFn, k.c.P.FuncName(applyFn))
}
