package c12

import (
	"fmt"
	"go/types"
	"strings"

	"golang.org/x/tools/go/ssa"

	"polycheck/load"
	"polycheck/props/c11/flow"
	"polycheck/ssau"
)

// ---------------------------------------------------------------------------
// PERSIST-6: the edge list the encoder saves is complete. buildNodeGraphInstanceSchema
// emits one saved dependency per element of node.Dependencies() (PERSIST-3); for
// nodes.Struct that list comes from the two reflective maps of wired inputs. Every
// non-nil value of those maps must yield one appended entry that carries the input's
// own name, the source node and the source port. The only way to skip an input
// between "value obtained" and "append" is the nil test of that value: any other
// conditional (set membership, comparison with an earlier entry, …) is a
// data-dependent filter that loses edges of the saved graph.

const refutilPath = load.Module + "/refutil"

// accessorFields maps the accessor methods of the appended element type
// (Name/Dependency/DependencyPort of nodes.NodeDependency) to the struct fields they return.
func (k *checker) accessorFields(named *types.Named) map[string]int {
	out := map[string]int{}
	for i := 0; i < named.NumMethods(); i++ {
		m := named.Method(i)
		fn := k.c.P.SSA.FuncValue(m.Origin())
		if fn == nil || fn.Blocks == nil || len(fn.Params) != 1 {
			continue
		}
		fi := newFnInfo(fn)
		for _, s := range flow.ReturnSites(fn, 0) {
			p := fi.prov(s.Val)
			pre := fn.Params[0].Name() + "."
			if strings.HasPrefix(p, pre) {
				if idx := fieldIndex(named, strings.TrimPrefix(p, pre)); idx >= 0 {
					out[m.Name()] = idx
				}
			}
		}
	}
	return out
}

// fieldSpec says what a field of the appended entry must be.
type fieldSpec struct {
	prov   string    // the value with this provenance (the map key) …
	value  ssa.Value // … or this very SSA value (the element index) …
	method string    // … or the result of method() called on the value with provenance recv
	recv   string
}

func (sp fieldSpec) pred(fi *fnInfo) func(ssa.Value) bool {
	return func(y ssa.Value) bool {
		switch {
		case sp.method != "":
			return isCallOn(fi, y, sp.method, sp.recv)
		case sp.value != nil:
			return y == sp.value
		default:
			return fi.prov(y) == sp.prov
		}
	}
}

// elemFieldDerives: does field #idx of the struct appended by `arg` satisfy spec?
// The struct is a local literal, or the result of one repository constructor call
// whose result fields are followed back to its parameters (the accessor call may be
// made by the caller or inside the constructor).
func (k *checker) elemFieldDerives(fi *fnInfo, arg ssa.Value, elemT *types.Named, idx int, spec fieldSpec) (found, ok bool) {
	isElem := func(t types.Type) bool {
		n := ssau.NamedOf(t)
		return n != nil && n.Origin() == elemT.Origin()
	}
	pred := spec.pred(fi)
	for _, a := range collect(arg, func(y ssa.Value) bool {
		al, isA := y.(*ssa.Alloc)
		return isA && isElem(al.Type().(*types.Pointer).Elem())
	}) {
		found = true
		ws, _ := objModel{}.writers(a.(*ssa.Alloc), idx, 3)
		for _, w := range ws {
			if derives(w.val, pred) {
				return true, true
			}
		}
	}
	if found {
		return true, false
	}
	for _, cv := range collect(arg, func(y ssa.Value) bool {
		c, isC := y.(*ssa.Call)
		return isC && !c.Common().IsInvoke() && isElem(c.Type())
	}) {
		c := cv.(*ssa.Call)
		cal := flow.Callee(c)
		if cal == nil {
			continue
		}
		g := k.c.P.SSA.FuncValue(cal)
		if g == nil || g.Blocks == nil || len(g.Params) != len(c.Common().Args) {
			continue
		}
		found = true
		gfi := newFnInfo(g)
		for _, s := range flow.ReturnSites(g, 0) {
			r := localStructOf(s.Val)
			if r == nil {
				continue
			}
			ws, _ := objModel{}.writers(r, idx, 3)
			for _, w := range ws {
				for j, pj := range g.Params {
					if !derives(w.val, func(y ssa.Value) bool { return y == ssa.Value(pj) }) {
						continue
					}
					if derives(c.Common().Args[j], pred) {
						return true, true
					}
					// the accessor is called inside the constructor on the parameter that receives the input
					if spec.method != "" && fi.prov(c.Common().Args[j]) == spec.recv &&
						derives(w.val, func(y ssa.Value) bool { return isCallOn(gfi, y, spec.method, pj.Name()) }) {
						return true, true
					}
				}
			}
		}
	}
	return found, false
}

// nilSkipEdges: edges of loop `it` taken when the value with provenance valP is nil.
func nilSkipEdges(fi *fnInfo, it *iter, valP string) map[flow.Edge]bool {
	cut := map[flow.Edge]bool{}
	for b := range it.loop.Blocks {
		ifi := flow.IfOf(b)
		if ifi == nil {
			continue
		}
		bo, eqK, ok := equalEdgeOf(ifi.Cond)
		if !ok {
			continue
		}
		if (flow.IsNilConst(bo.Y) && fi.prov(bo.X) == valP) || (flow.IsNilConst(bo.X) && fi.prov(bo.Y) == valP) {
			cut[flow.Edge{From: b, K: eqK}] = true
		}
	}
	return cut
}

func (k *checker) persist6() {
	fn := k.fn("nodes", "Struct.Dependencies")
	if fn == nil {
		return
	}
	k.persist6On(fn, k.c.P.FuncName(fn))
}

// persist6On analyses the enumerator and every private helper of its package it calls.
func (k *checker) persist6On(root *ssa.Function, name string) {
	rep := k.rep(root.Pos())
	// functions to look at: the root and the same-package functions it (transitively) calls statically
	var fns []*ssa.Function
	seen := map[*ssa.Function]bool{}
	var visit func(f *ssa.Function, depth int)
	visit = func(f *ssa.Function, depth int) {
		if f == nil || f.Blocks == nil || seen[f] || depth > 3 {
			return
		}
		seen[f] = true
		fns = append(fns, f)
		ssau.AllInstrs(f, func(in ssa.Instruction) {
			if c, ok := in.(*ssa.Call); ok && !c.Common().IsInvoke() {
				if cal := flow.Callee(c); cal != nil && cal.Pkg() != nil && root.Pkg != nil && cal.Pkg() == root.Pkg.Pkg {
					visit(k.c.P.SSA.FuncValue(cal), depth+1)
				}
			}
		})
	}
	visit(root, 0)

	nMaps := 0
	for _, fn := range fns {
		fi := newFnInfo(fn)
		// the reflective maps obtained here
		var maps []*ssa.Call
		ssau.AllInstrs(fn, func(in ssa.Instruction) {
			c, ok := in.(*ssa.Call)
			if !ok {
				return
			}
			cal := flow.Callee(c)
			if cal == nil || cal.Pkg() == nil || cal.Pkg().Path() != refutilPath {
				return
			}
			if _, isMap := c.Type().Underlying().(*types.Map); isMap {
				maps = append(maps, c)
			}
		})
		for _, mc := range maps {
			nMaps++
			k.persist6Map(rep, root, fn, fi, mc, name)
		}
	}
	if nMaps == 0 {
		rep.undecide("PERSIST-6", name, root.Pos(), "the enumerator does not obtain its inputs from refutil maps; completeness of the saved edge list cannot be established")
	}
}

func (k *checker) persist6Map(rep reporter, root, fn *ssa.Function, fi *fnInfo, mc *ssa.Call, name string) {
	mP := fi.prov(mc)
	mt := mc.Type().Underlying().(*types.Map)
	_, arrayValued := mt.Elem().Underlying().(*types.Slice)
	construct := name + "#" + calleeName(mc)

	// the loop that visits every key of the map
	var outer *iter
	var keyP, valP string
	for _, l := range fi.loops {
		it := fi.iters[l]
		if it == nil {
			continue
		}
		if it.kind == "map" && fi.prov(it.coll) == mP {
			outer, keyP, valP = it, mP+"[k"+it.tag+"]", mP+"[v"+it.tag+"]"
			// a loop that only collects the keys is not the enumeration loop
			if ks := k.onlyCollectsKeys(fi, it); ks {
				outer = nil
				continue
			}
			break
		}
		if m, isKeys := fi.keysOf(it); isKeys && m == mP {
			outer = it
			keyP = fi.prov(it.coll) + "[e" + it.tag + "]"
			valP = mP + "{" + keyP + "}"
			break
		}
	}
	if outer == nil {
		rep.violate("PERSIST-6", construct, ssau.PosOf(mc), "no loop over every entry of this input map (directly or through a slice of all its keys) was found: wired inputs are missing from Dependencies(), hence from the saved graph")
		return
	}
	var problems []string
	if ex := outer.earlyExits(); len(ex) > 0 {
		problems = append(problems, "the loop over the inputs can be left before the last input at "+k.c.P.Pos(ssau.PosOf(ex[0])))
	}

	// where the entries are appended
	loopForAppend := outer
	elemP := valP
	var inner *iter
	if arrayValued {
		for _, l := range fi.loops {
			it := fi.iters[l]
			if it != nil && it.kind == "slice" && outer.loop.Blocks[it.loop.Header] && it != outer && fi.prov(it.coll) == valP {
				inner = it
			}
		}
		if inner == nil {
			rep.violate("PERSIST-6", construct, ssau.PosOf(mc), "array inputs are not walked element by element over the full slice")
			return
		}
		if ex := inner.earlyExits(); len(ex) > 0 {
			problems = append(problems, "the element loop can be left before the last element")
		}
		// every outer iteration reaches the element loop
		if outer.skips(func(in ssa.Instruction) bool { return in.Block() == inner.loop.Header }, nil) {
			problems = append(problems, "an array input can be skipped as a whole")
		}
		loopForAppend = inner
		elemP = valP + "[e" + inner.tag + "]"
	}

	var app *ssa.Call
	for b := range loopForAppend.loop.Blocks {
		for _, in := range b.Instrs {
			if c, ok := in.(*ssa.Call); ok && ssau.Builtin(c) == "append" && len(c.Call.Args) == 2 {
				if _, isSl := c.Type().Underlying().(*types.Slice); isSl {
					app = c
				}
			}
		}
	}
	if app == nil {
		rep.violate("PERSIST-6", construct, ssau.PosOf(mc), "no entry is appended for the inputs of this map")
		return
	}
	// the appended slice reaches the enumerator's result
	reaches := false
	for _, s := range flow.ReturnSites(fn, 0) {
		if derives(s.Val, func(y ssa.Value) bool { return y == ssa.Value(app) }) {
			reaches = true
		}
	}
	if !reaches {
		problems = append(problems, "the appended entries do not reach the function's result")
	}
	if fn != root {
		// the helper's result must reach the enumerator's result
		ok := false
		ssau.AllInstrs(root, func(in ssa.Instruction) {
			if c, isC := in.(*ssa.Call); isC && flow.Callee(c) != nil && k.c.P.SSA.FuncValue(flow.Callee(c)) == fn {
				for _, s := range flow.ReturnSites(root, 0) {
					if derives(s.Val, func(y ssa.Value) bool { return y == ssa.Value(c) }) {
						ok = true
					}
				}
			}
		})
		if !ok {
			// allow one more level: some call in root whose result derives … keep simple
			problems = append(problems, "the helper's result does not reach the enumerator's result")
		}
	}
	// the only skip is the nil test of the input itself
	cut := nilSkipEdges(fi, loopForAppend, elemP)
	if loopForAppend.skips(func(in ssa.Instruction) bool { return in == ssa.Instruction(app) }, cut) {
		problems = append(problems, "a non-nil input can be skipped without an entry being appended (a data-dependent filter between the input and the append): when one source feeds two inputs, or whatever the filter tests, an edge of the graph is missing from the saved file")
	}
	// the entry carries the input's own name, node and port
	elemT := ssau.NamedOf(sliceElemConcrete(app))
	if elemT == nil {
		problems = append(problems, "appended element type not recognised")
	} else {
		acc := k.accessorFields(elemT)
		type want struct {
			method, what string
			spec         fieldSpec
		}
		wants := []want{
			{"Name", "the input's name (map key)", fieldSpec{prov: keyP}},
			{"Dependency", "Node() of the input", fieldSpec{method: "Node", recv: elemP}},
			{"DependencyPort", "Port() of the input", fieldSpec{method: "Port", recv: elemP}},
		}
		for _, w := range wants {
			idx, has := acc[w.method]
			if !has {
				problems = append(problems, "accessor "+w.method+"() of the entry type not resolved to a field")
				continue
			}
			found, ok := k.elemFieldDerives(fi, app.Call.Args[1], elemT, idx, w.spec)
			if !found {
				problems = append(problems, "appended entry is neither a local literal nor a constructor call (idiom not recognised)")
				break
			}
			if !ok {
				problems = append(problems, fmt.Sprintf("the entry's %s() is not %s", w.method, w.what))
			}
		}
		if arrayValued && inner != nil {
			if idx, has := acc["Name"]; has {
				if _, ok := k.elemFieldDerives(fi, app.Call.Args[1], elemT, idx, fieldSpec{value: inner.idx}); !ok {
					problems = append(problems, "the name of an array element does not contain its index")
				}
			}
		}
	}
	if arrayValued && inner != nil {
		// PERSIST-8 (1): elements of one array field are enumerated in index order and appended at the end
		c8 := name + "#enumerated-in-index-order"
		accum := derives(app.Call.Args[0], func(y ssa.Value) bool {
			ph, isPhi := y.(*ssa.Phi)
			return isPhi && (ph.Block() == inner.loop.Header || ph.Block() == outer.loop.Header)
		})
		if !accum {
			if ld, isLd := flow.StripAll(app.Call.Args[0]).(*ssa.UnOp); isLd {
				// accumulated in a variable / field: append(x, e) stored back to x
				for _, r := range ssau.Refs(app) {
					if st, isSt := r.(*ssa.Store); isSt && fi.prov(st.Addr) == fi.prov(ld.X) {
						accum = true
					}
				}
			}
		}
		if accum {
			rep.hold("PERSIST-8", c8, ssau.PosOf(app), "array elements are walked by an ascending loop over the field's slice and appended at the end of the list")
		} else {
			rep.violate("PERSIST-8", c8, ssau.PosOf(app), "the entries of an array input are not appended at the end of the accumulated list (prepend / fresh slice): they are not listed in element-index order, and the loader appends in listed order")
		}
	}
	if len(problems) > 0 {
		rep.violate("PERSIST-6", construct, ssau.PosOf(app), strings.Join(problems, "; "))
		return
	}
	shape := "every non-nil input"
	if arrayValued {
		shape = "every non-nil element of every array input"
	}
	rep.hold("PERSIST-6", construct, ssau.PosOf(app), fmt.Sprintf("%s yields one entry {name, Node(), Port()} of its own; %d nil-test skip edge(s), no other way round the append", shape, len(cut)))
}

// sliceElemConcrete: the concrete struct type put into the appended slice (through MakeInterface).
func sliceElemConcrete(app *ssa.Call) types.Type {
	var t types.Type
	derives(app.Call.Args[1], func(y ssa.Value) bool {
		if mi, ok := y.(*ssa.MakeInterface); ok && t == nil {
			t = mi.X.Type()
			return true
		}
		return false
	})
	if t == nil {
		if sl, ok := app.Type().Underlying().(*types.Slice); ok {
			t = sl.Elem()
		}
	}
	return t
}

func isCallOn(fi *fnInfo, y ssa.Value, method, recvProv string) bool {
	c, ok := y.(*ssa.Call)
	if !ok || calleeName(c) != method {
		return false
	}
	cc := c.Common()
	var r ssa.Value
	if cc.IsInvoke() {
		r = cc.Value
	} else if len(cc.Args) > 0 {
		r = cc.Args[0]
	}
	return r != nil && fi.prov(r) == recvProv
}

// onlyCollectsKeys: the map-range loop does nothing but append its key to a slice.
func (k *checker) onlyCollectsKeys(fi *fnInfo, it *iter) bool {
	want := fi.prov(it.coll) + "[k" + it.tag + "]"
	n := 0
	for b := range it.loop.Blocks {
		for _, in := range b.Instrs {
			switch x := in.(type) {
			case *ssa.Call:
				if ssau.Builtin(x) == "append" && len(x.Call.Args) == 2 && derives(x.Call.Args[1], func(y ssa.Value) bool { return fi.prov(y) == want }) {
					// a slice of keys, not a slice of entries
					mt, _ := it.coll.Type().Underlying().(*types.Map)
					sl, _ := x.Type().Underlying().(*types.Slice)
					if mt != nil && sl != nil && types.Identical(sl.Elem(), mt.Key()) {
						n++
						continue
					}
				}
				return false
			case *ssa.MapUpdate:
				return false
			}
		}
	}
	return n > 0
}
