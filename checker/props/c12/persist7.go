package c12

import (
	"fmt"
	"go/types"
	"sort"
	"strings"

	"golang.org/x/tools/go/ssa"

	"polycheck/props/c11/flow"
	"polycheck/ssau"
)

// ---------------------------------------------------------------------------
// PERSIST-7: the edit operations keep the Instance's tables referentially intact,
// so that what is saved afterwards is a well-formed graph. The tables are found by
// type: map-typed fields of graph.Instance whose key or element can hold a node
// (implements nodes.Node) or a node output (implements nodes.NodeOutputReference)
// — today nodeIDs and producers.
//
// DeleteNode: both kinds of table lose the node's entries; the entries of an
// output-valued table are found by relating each entry's Node() to the deleted node
// inside an exhaustive loop; and every lookup of an id in the id table that is
// compared with the id being deleted happens while the id is still there (no such
// read can follow the delete on any path).
// SetNodeAsProducer / ConnectNodes / DeleteNodeInputConnection / CreateNode: the
// operation's effect (table update / SetInput with the operation's own arguments)
// happens on every path to a normal return.

type nodeTable struct {
	field *types.Var
	name  string
	kind  string // "node-key" | "output-elem"
}

func (k *checker) instanceTables() (tables []nodeTable, ok bool) {
	gp := k.c.P.Pkg("generator/graph")
	np := k.c.P.Pkg("nodes")
	if gp == nil || np == nil {
		return nil, false
	}
	itn, _ := gp.Types.Scope().Lookup("Instance").(*types.TypeName)
	ntn, _ := np.Types.Scope().Lookup("Node").(*types.TypeName)
	rtn, _ := np.Types.Scope().Lookup("NodeOutputReference").(*types.TypeName)
	if itn == nil || ntn == nil || rtn == nil {
		return nil, false
	}
	st, _ := itn.Type().Underlying().(*types.Struct)
	nodeI, _ := ntn.Type().Underlying().(*types.Interface)
	refI, _ := rtn.Type().Underlying().(*types.Interface)
	if st == nil || nodeI == nil || refI == nil {
		return nil, false
	}
	holds := func(t types.Type, iface *types.Interface) bool {
		if _, isI := t.Underlying().(*types.Interface); !isI {
			return false
		}
		return types.Implements(t, iface)
	}
	for i := 0; i < st.NumFields(); i++ {
		f := st.Field(i)
		m, isMap := f.Type().Underlying().(*types.Map)
		if !isMap {
			continue
		}
		switch {
		case holds(m.Key(), nodeI):
			tables = append(tables, nodeTable{f, f.Name(), "node-key"})
		case holds(m.Elem(), refI) || holds(m.Key(), refI):
			tables = append(tables, nodeTable{f, f.Name(), "output-elem"})
		case holds(m.Elem(), nodeI):
			tables = append(tables, nodeTable{f, f.Name(), "node-elem"})
		}
	}
	return tables, true
}

// instRoles resolves the unexported fields of graph.Instance the rules talk about by role
// (type), never by name: the id table (map keyed by nodes.Node), the producer table (map
// whose elements are node outputs) and the metadata store (*sync.NestedSyncMap). Each must
// be unique; otherwise the check fails hard.
type instRoles struct{ ids, producers, metadata string }

func (k *checker) instRoles() (instRoles, bool) {
	var r instRoles
	tables, ok := k.instanceTables()
	if !ok {
		return r, false
	}
	n := map[string]int{}
	for _, t := range tables {
		n[t.kind]++
		switch t.kind {
		case "node-key":
			r.ids = t.name
		case "output-elem":
			r.producers = t.name
		}
	}
	if n["node-key"] != 1 || n["output-elem"] != 1 {
		k.c.R.Failf("anchor: id table / producer table of graph.Instance cannot be resolved uniquely by type (%d map(s) keyed by nodes.Node, %d map(s) of node outputs)", n["node-key"], n["output-elem"])
		return r, false
	}
	gp := k.c.P.Pkg("generator/graph")
	itn, _ := gp.Types.Scope().Lookup("Instance").(*types.TypeName)
	st, _ := itn.Type().Underlying().(*types.Struct)
	nm := 0
	for i := 0; st != nil && i < st.NumFields(); i++ {
		if ssau.IsNamed(st.Field(i).Type(), "github.com/EliCDavis/polyform/generator/sync", "NestedSyncMap") {
			r.metadata = st.Field(i).Name()
			nm++
		}
	}
	if nm != 1 {
		k.c.R.Failf("anchor: the metadata store of graph.Instance (*sync.NestedSyncMap field) cannot be resolved uniquely (%d candidates)", nm)
		return r, false
	}
	return r, true
}

// tableLabel: stable construct label of a table role (independent of the field's name).
func tableLabel(kind string) string {
	switch kind {
	case "node-key":
		return "nodeIDs"
	case "output-elem":
		return "producers"
	}
	return kind
}

// nodeEncoder resolves the unexported per-node encoder by role: the static callee of the
// exported EncodeToAppSchema that returns a schema.AppNodeInstance.
func (k *checker) nodeEncoder() *ssa.Function {
	enc := k.fn("generator/graph", "Instance.EncodeToAppSchema")
	if enc == nil {
		return nil
	}
	cands := map[*ssa.Function]bool{}
	ssau.AllInstrs(enc, func(in ssa.Instruction) {
		c, ok := in.(*ssa.Call)
		if !ok || c.Common().IsInvoke() || !isNamedType(c.Type(), schemaPath, "AppNodeInstance") {
			return
		}
		if g := c.Common().StaticCallee(); g != nil && g.Blocks != nil {
			cands[g] = true
		}
	})
	if len(cands) != 1 {
		k.c.R.Failf("anchor: the per-node encoder (callee of EncodeToAppSchema returning schema.AppNodeInstance) cannot be resolved uniquely (%d candidates)", len(cands))
		return nil
	}
	for g := range cands {
		return g
	}
	return nil
}

func (k *checker) persist7() {
	tables, ok := k.instanceTables()
	if !ok {
		k.c.R.Failf("anchor graph.Instance / nodes.Node / nodes.NodeOutputReference not found")
		return
	}
	if del := k.fn("generator/graph", "Instance.DeleteNode"); del != nil {
		k.persist7Delete(del, k.c.P.FuncName(del), tables)
	}
	k.persist7Effects(tables)
}

func paramNamed(fn *ssa.Function, idx int) *ssa.Parameter {
	if idx < len(fn.Params) {
		return fn.Params[idx]
	}
	return nil
}

func (k *checker) persist7Delete(fn *ssa.Function, name string, tables []nodeTable) {
	rep := k.rep(fn.Pos())
	fi := newFnInfo(fn)
	recv := fn.Params[0].Name()
	idParam := paramNamed(fn, 1)
	if idParam == nil {
		rep.undecide("PERSIST-7", name, fn.Pos(), "unexpected signature")
		return
	}
	var idTable string
	for _, t := range tables {
		if t.kind == "node-key" {
			idTable = recv + "." + t.name
		}
	}
	// deletes per table
	dels := map[string][]*ssa.Call{}
	ssau.AllInstrs(fn, func(in ssa.Instruction) {
		if c, ok := in.(*ssa.Call); ok && ssau.Builtin(c) == "delete" && len(c.Call.Args) == 2 {
			dels[fi.prov(c.Call.Args[0])] = append(dels[fi.prov(c.Call.Args[0])], c)
		}
	})
	fromDeleted := func(v ssa.Value) bool {
		// the node being deleted: derived from the id parameter (i.Node(nodeId)) or from a key of an iteration over the id table
		return derives(v, func(y ssa.Value) bool {
			if y == ssa.Value(idParam) {
				return true
			}
			p := fi.prov(y)
			return idTable != "" && (strings.HasPrefix(p, idTable+"[k@") || strings.HasPrefix(p, idTable+"[v@"))
		})
	}
	for _, t := range tables {
		tp := recv + "." + t.name
		construct := name + "#" + tableLabel(t.kind)
		ds := dels[tp]
		if len(ds) == 0 {
			rep.violate("PERSIST-7", construct, fn.Pos(), "DeleteNode never removes the node's entries from "+t.name+": the deleted node stays referenced and the next save writes a dangling "+t.name+" entry")
			continue
		}
		switch t.kind {
		case "node-key":
			ok := false
			for _, d := range ds {
				if fromDeleted(d.Call.Args[1]) {
					ok = true
				}
			}
			if !ok {
				rep.violate("PERSIST-7", construct, ssau.PosOf(ds[0]), "the key removed from "+t.name+" does not derive from the id being deleted")
			} else {
				rep.hold("PERSIST-7", construct, ssau.PosOf(ds[0]), "the node found for the id is removed from "+t.name)
			}
		default:
			var problems []string
			okAny := false
			for _, d := range ds {
				it := fi.loopOf(d)
				if it == nil || it.kind != "map" || fi.prov(it.coll) != tp {
					problems = append(problems, "entries of "+t.name+" are not removed inside a loop over the whole table")
					continue
				}
				if fi.prov(d.Call.Args[1]) != tp+"[k"+it.tag+"]" {
					problems = append(problems, "the entry removed is not the current entry of the loop")
					continue
				}
				if ex := it.earlyExits(); len(ex) > 0 {
					problems = append(problems, "the clean-up loop can stop before the last entry (the node may be referenced under several names)")
					continue
				}
				// the guard relates the entry's own node to the deleted node
				entryP := tp + "[v" + it.tag + "]"
				var guard *ssa.If
				var eqK int
				for b := range it.loop.Blocks {
					ifi := flow.IfOf(b)
					if ifi == nil {
						continue
					}
					bo, ek, isEq := equalEdgeOf(ifi.Cond)
					if !isEq {
						continue
					}
					for _, sw := range [][2]ssa.Value{{bo.X, bo.Y}, {bo.Y, bo.X}} {
						if fi.derivesCallOn(sw[0], "Node", entryP) && fromDeleted(sw[1]) {
							guard, eqK = ifi, ek
						}
					}
				}
				if guard == nil {
					problems = append(problems, "no test relating the entry's Node() to the node being deleted guards the removal")
					continue
				}
				// on the matching edge the delete cannot be avoided
				tgt := guard.Block().Succs[eqK]
				reachHeaderWithout := func() bool {
					seen := map[*ssa.BasicBlock]bool{tgt: true}
					stack := []*ssa.BasicBlock{tgt}
					for len(stack) > 0 {
						b := stack[len(stack)-1]
						stack = stack[:len(stack)-1]
						if b == it.loop.Header {
							return true
						}
						has := false
						for _, in := range b.Instrs {
							if in == ssa.Instruction(d) {
								has = true
							}
						}
						if has {
							continue
						}
						for _, s := range b.Succs {
							if it.loop.Blocks[s] && !seen[s] {
								seen[s] = true
								stack = append(stack, s)
							}
						}
					}
					return false
				}
				if tgt != d.Block() && reachHeaderWithout() {
					problems = append(problems, "a matching entry can be kept (the removal is conditional on something else)")
					continue
				}
				okAny = true
			}
			if okAny && len(problems) == 0 {
				rep.hold("PERSIST-7", construct, ssau.PosOf(ds[0]), "every entry of "+t.name+" whose Node() is the deleted node is removed (exhaustive loop)")
			} else {
				sort.Strings(problems)
				rep.violate("PERSIST-7", construct, ssau.PosOf(ds[0]), strings.Join(problems, "; ")+": a deleted node can stay in "+t.name+" and be saved as a dangling reference")
			}
		}
	}
	// read-before-delete ordering on the id table
	if idTable != "" {
		construct := name + "#id-read-before-delete"
		bad := false
		nReads := 0
		comparedWithID := func(v ssa.Value) bool {
			for _, r := range ssau.Refs(v) {
				if bo, ok := r.(*ssa.BinOp); ok {
					other := bo.X
					if other == v {
						other = bo.Y
					}
					if fi.prov(other) == idParam.Name() {
						return true
					}
				}
			}
			return false
		}
		ssau.AllInstrs(fn, func(in ssa.Instruction) {
			var read ssa.Instruction
			switch x := in.(type) {
			case *ssa.Lookup:
				if fi.prov(x.X) != idTable {
					return
				}
				cmp := comparedWithID(x)
				for _, r := range ssau.Refs(x) {
					if ex, ok := r.(*ssa.Extract); ok && ex.Index == 0 && comparedWithID(ex) {
						cmp = true
					}
				}
				if cmp {
					read = x
				}
			case *ssa.Next:
				for _, it := range fi.iters {
					if it.next == x && fi.prov(it.coll) == idTable {
						for _, r := range ssau.Refs(x) {
							if ex, ok := r.(*ssa.Extract); ok && ex.Index == 2 && comparedWithID(ex) {
								read = x
							}
						}
					}
				}
			}
			if read == nil {
				return
			}
			nReads++
			for _, d := range dels[idTable] {
				if l := ssau.InnermostLoop(fi.loops, d.Block()); l != nil {
					if _, isNext := read.(*ssa.Next); isNext && l.Blocks[read.Block()] {
						continue // deleting the current key while ranging is well defined
					}
				}
				if ssau.CanFollow(d, read) {
					bad = true
					rep.violate("PERSIST-7", construct, ssau.PosOf(read),
						fmt.Sprintf("an id is looked up in %s and compared with the id being deleted after the node's id may already have been removed (delete at %s): the comparison can never match, so references to the deleted node (producers) survive, are saved with an empty node id and make the reload fail",
							idTable, k.c.P.Pos(ssau.PosOf(d))))
					return
				}
			}
		})
		if !bad {
			rep.hold("PERSIST-7", construct, fn.Pos(), fmt.Sprintf("%d id read(s) compared with the deleted id, none can follow the removal of the id", nReads))
		}
	}
}

// persist7Effects: the other edit operations take effect on every path.
func (k *checker) persist7Effects(tables []nodeTable) {
	everyPath := func(fn *ssa.Function, action func(ssa.Instruction) bool) bool {
		for _, b := range fn.Blocks {
			if len(b.Instrs) == 0 {
				continue
			}
			if r, ok := b.Instrs[len(b.Instrs)-1].(*ssa.Return); ok && !isErrorReturn(r) {
				if flow.PathAvoiding(fn, nil, r, action, nil) {
					return false
				}
			}
		}
		return true
	}
	fromParam := func(v ssa.Value, p *ssa.Parameter) bool {
		return p != nil && derives(v, func(y ssa.Value) bool { return y == ssa.Value(p) })
	}
	setInputs := func(fn *ssa.Function) []*ssa.Call {
		var out []*ssa.Call
		ssau.AllInstrs(fn, func(in ssa.Instruction) {
			if c, ok := in.(*ssa.Call); ok && c.Common().IsInvoke() && c.Common().Method.Name() == "SetInput" && len(c.Common().Args) == 2 {
				out = append(out, c)
			}
		})
		return out
	}
	var outputTable string
	for _, t := range tables {
		if t.kind == "output-elem" {
			outputTable = t.name
		}
	}

	// SetNodeAsProducer(nodeId, producerName)
	if fn := k.fn("generator/graph", "Instance.SetNodeAsProducer"); fn != nil {
		rep, name := k.rep(fn.Pos()), k.c.P.FuncName(fn)
		fi := newFnInfo(fn)
		id, pname := paramNamed(fn, 1), paramNamed(fn, 2)
		var mu *ssa.MapUpdate
		ssau.AllInstrs(fn, func(in ssa.Instruction) {
			if m, ok := in.(*ssa.MapUpdate); ok && fi.prov(m.Map) == fn.Params[0].Name()+"."+outputTable {
				mu = m
			}
		})
		switch {
		case mu == nil || pname == nil:
			rep.violate("PERSIST-7", name, fn.Pos(), "the producer table is never updated")
		case fi.prov(mu.Key) != pname.Name():
			rep.violate("PERSIST-7", name, ssau.PosOf(mu), "the producer is registered under something other than the requested name")
		case !fromParam(mu.Value, id):
			rep.violate("PERSIST-7", name, ssau.PosOf(mu), "the registered producer does not derive from the requested node")
		case !everyPath(fn, func(in ssa.Instruction) bool { return in == ssa.Instruction(mu) }):
			rep.violate("PERSIST-7", name, ssau.PosOf(mu), "a path returns normally without registering the producer")
		default:
			rep.hold("PERSIST-7", name, ssau.PosOf(mu), "producers[name] = output of Node(id) on every path")
		}
	}
	// ConnectNodes(nodeOutId, outPortName, nodeInId, inPortName)
	if fn := k.fn("generator/graph", "Instance.ConnectNodes"); fn != nil {
		rep, name := k.rep(fn.Pos()), k.c.P.FuncName(fn)
		fi := newFnInfo(fn)
		outID, outPort, inID, inPort := paramNamed(fn, 1), paramNamed(fn, 2), paramNamed(fn, 3), paramNamed(fn, 4)
		cs := setInputs(fn)
		if len(cs) != 1 || inPort == nil {
			rep.violate("PERSIST-7", name, fn.Pos(), "ConnectNodes does not call SetInput exactly once")
		} else {
			c := cs[0]
			var problems []string
			if !fromParam(c.Common().Value, inID) || fromParam(c.Common().Value, outID) {
				problems = append(problems, "SetInput is not called on the node named by nodeInId")
			}
			if fi.prov(c.Common().Args[0]) != inPort.Name() {
				problems = append(problems, "the input port is not inPortName")
			}
			if !fromParam(c.Common().Args[1], outID) || !fromParam(c.Common().Args[1], outPort) {
				problems = append(problems, "the connected output does not derive from nodeOutId and outPortName")
			}
			if !everyPath(fn, func(in ssa.Instruction) bool { return in == ssa.Instruction(c) }) {
				problems = append(problems, "a path returns without connecting")
			}
			if len(problems) > 0 {
				rep.violate("PERSIST-7", name, ssau.PosOf(c), strings.Join(problems, "; "))
			} else {
				rep.hold("PERSIST-7", name, ssau.PosOf(c), "Node(in).SetInput(inPort, port(Node(out), outPort)) on every path")
			}
		}
	}
	// DeleteNodeInputConnection(nodeId, portName)
	if fn := k.fn("generator/graph", "Instance.DeleteNodeInputConnection"); fn != nil {
		rep, name := k.rep(fn.Pos()), k.c.P.FuncName(fn)
		fi := newFnInfo(fn)
		id, port := paramNamed(fn, 1), paramNamed(fn, 2)
		cs := setInputs(fn)
		if len(cs) != 1 || port == nil {
			rep.violate("PERSIST-7", name, fn.Pos(), "DeleteNodeInputConnection does not call SetInput exactly once")
		} else {
			c := cs[0]
			var problems []string
			if !fromParam(c.Common().Value, id) {
				problems = append(problems, "SetInput is not called on the node named by nodeId")
			}
			if fi.prov(c.Common().Args[0]) != port.Name() {
				problems = append(problems, "the port is not portName")
			}
			// the output passed is empty
			if obj := localStructOf(c.Common().Args[1]); obj != nil {
				for _, v := range fieldValues(obj, "NodeOutput") {
					if !flow.IsNilConst(v) {
						problems = append(problems, "the output passed is not nil: nothing is disconnected")
					}
				}
			}
			if !everyPath(fn, func(in ssa.Instruction) bool { return in == ssa.Instruction(c) }) {
				problems = append(problems, "a path returns without disconnecting")
			}
			if len(problems) > 0 {
				rep.violate("PERSIST-7", name, ssau.PosOf(c), strings.Join(problems, "; "))
			} else {
				rep.hold("PERSIST-7", name, ssau.PosOf(c), "Node(id).SetInput(port, nil output) on every path")
			}
		}
	}
	// CreateNode(nodeType): the created node is registered and its id returned
	if fn := k.fn("generator/graph", "Instance.CreateNode"); fn != nil {
		rep, name := k.rep(fn.Pos()), k.c.P.FuncName(fn)
		fi := newFnInfo(fn)
		var idTable string
		for _, t := range tables {
			if t.kind == "node-key" {
				idTable = fn.Params[0].Name() + "." + t.name
			}
		}
		ok := true
		var why string
		n := 0
		for _, b := range fn.Blocks {
			if len(b.Instrs) == 0 {
				continue
			}
			r, isR := b.Instrs[len(b.Instrs)-1].(*ssa.Return)
			if !isR || isErrorReturn(r) || len(r.Results) < 2 {
				continue
			}
			n++
			node := flow.Unspill(r, r.Results[0])
			idv := flow.Unspill(r, r.Results[1])
			if fi.prov(idv) != idTable+"{"+fi.prov(node)+"}" {
				ok, why = false, "the id returned is not the created node's entry in the id table"
			}
			// registered on the way: a call taking the node (into a function that fills the id table) or a direct update
			registers := func(in ssa.Instruction) bool {
				switch x := in.(type) {
				case *ssa.MapUpdate:
					return fi.prov(x.Map) == idTable && fi.prov(x.Key) == fi.prov(node)
				case *ssa.Call:
					g := x.Common().StaticCallee()
					if g == nil || g.Blocks == nil {
						return false
					}
					for j, a := range x.Common().Args {
						if fi.prov(a) == fi.prov(node) && j < len(g.Params) {
							gfi := newFnInfo(g)
							hit := false
							ssau.AllInstrs(g, func(gi ssa.Instruction) {
								if mu, isMU := gi.(*ssa.MapUpdate); isMU && gfi.prov(mu.Key) == g.Params[j].Name() && strings.HasSuffix(gfi.prov(mu.Map), strings.TrimPrefix(idTable, fn.Params[0].Name())) {
									hit = true
								}
							})
							if hit {
								return true
							}
						}
					}
				}
				return false
			}
			if flow.PathAvoiding(fn, nil, r, registers, nil) {
				ok, why = false, "a node can be returned without having been given an id"
			}
		}
		switch {
		case n == 0:
			rep.undecide("PERSIST-7", name, fn.Pos(), "no successful return found")
		case !ok:
			rep.violate("PERSIST-7", name, fn.Pos(), why+": the node is missing from the next save")
		default:
			rep.hold("PERSIST-7", name, fn.Pos(), "the created node is registered in the id table and its id returned")
		}
	}
}
