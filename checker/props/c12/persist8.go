package c12

import (
	"fmt"
	"go/token"
	"go/types"
	"strings"

	"golang.org/x/tools/go/ssa"

	"polycheck/props/c11/flow"
	"polycheck/ssau"
)

// ---------------------------------------------------------------------------
// PERSIST-8: array-input order. The loader replays the listed dependencies in file
// order and the array branch of SetInput APPENDS, so the elements of one array input
// must be listed in element-index order. Decided in three places:
//
//	#enumerated-in-index-order  Struct.Dependencies walks each array field by an ascending
//	                            slice loop and appends (never prepends) the entries
//	#sort                       every sort applied to the schema dependency list between
//	                            enumeration and encoding either compares the element index
//	                            NUMERICALLY, or is stable and keyed on something that no
//	                            longer contains the index. An ordered string comparison
//	                            (<, <=, >, >=, strings.Compare, cmp.Compare) of a value that
//	                            still contains the decimal index ("values.10" < "values.2")
//	                            is the violation
//	#listed-order / #appends    the loader walks the list ascending and the reflective
//	                            array writer appends
//
// String classes: F = derived from NodeDependency.Name as a whole (ToLower etc. keep
// it), I = the part behind a separator (s[k:], strings.Cut after, Split()[>0]), clean =
// the part in front (s[:k], Cut before, Split()[0]) or anything else. strconv.Atoi /
// ParseInt / ParseUint of I (or F) gives the numeric index. A function that returns F
// only on paths that cannot follow the success edge of its own Atoi (the "no numeric
// suffix" fallback of a splitter) returns clean there.

type scls int

const (
	sClean scls = iota
	sIndex
	sFull
)

func maxCls(a, b scls) scls {
	if a > b {
		return a
	}
	return b
}

var pureStringFuncs = map[string]bool{"ToLower": true, "ToUpper": true, "TrimSpace": true, "Title": true, "ToTitle": true, "Clone": true,
	"ToValidUTF8": true, "TrimLeft": true, "TrimRight": true, "Trim": true}
var atoiFuncs = map[string]bool{"Atoi": true, "ParseInt": true, "ParseUint": true}

type ordEvents struct {
	badString []ssa.Instruction // ordered string comparison of F / I
	numeric   []ssa.Instruction // ordered int comparison of a numeric index
	cleanStr  int               // ordered string comparisons of clean values
}

type strAnalysis struct {
	k      *checker
	nameOf func(v ssa.Value) bool // v reads NodeDependency.Name
	memo   map[string][]scls
	numMem map[string][]bool
	busy   map[string]bool
}

func envKey(fn *ssa.Function, env []scls) string { return fmt.Sprintf("%p%v", fn, env) }

func isStr(t types.Type) bool {
	b, ok := t.Underlying().(*types.Basic)
	return ok && b.Info()&types.IsString != 0
}

func isInt(t types.Type) bool {
	b, ok := t.Underlying().(*types.Basic)
	return ok && b.Info()&types.IsInteger != 0
}

type fnCtx struct {
	a    *strAnalysis
	fn   *ssa.Function
	env  []scls
	cls  map[ssa.Value]scls
	num  map[ssa.Value]bool
	busy map[ssa.Value]bool
}

func (a *strAnalysis) ctx(fn *ssa.Function, env []scls) *fnCtx {
	return &fnCtx{a: a, fn: fn, env: env, cls: map[ssa.Value]scls{}, num: map[ssa.Value]bool{}, busy: map[ssa.Value]bool{}}
}

func pkgFunc(c ssa.CallInstruction) (pkg, name string) {
	f := flow.Callee(c)
	if f == nil || f.Pkg() == nil {
		return "", ""
	}
	return f.Pkg().Path(), f.Name()
}

// classOf: string class of v.
func (c *fnCtx) classOf(v ssa.Value) scls {
	if v == nil {
		return sClean
	}
	if r, ok := c.cls[v]; ok {
		return r
	}
	if c.busy[v] {
		return sClean
	}
	c.busy[v] = true
	r := c.class1(v)
	delete(c.busy, v)
	c.cls[v] = r
	return r
}

func (c *fnCtx) class1(v ssa.Value) scls {
	if c.a.nameOf(v) {
		return sFull
	}
	switch x := v.(type) {
	case *ssa.Parameter:
		for i, p := range c.fn.Params {
			if p == x && i < len(c.env) {
				return c.env[i]
			}
		}
	case *ssa.Phi:
		r := sClean
		for _, e := range x.Edges {
			r = maxCls(r, c.classOf(e))
		}
		return r
	case *ssa.UnOp:
		if x.Op == token.MUL {
			// a local variable: what was stored into it
			if al, ok := x.X.(*ssa.Alloc); ok {
				r := sClean
				for _, ref := range ssau.Refs(al) {
					if s, ok := ref.(*ssa.Store); ok && s.Addr == ssa.Value(al) {
						r = maxCls(r, c.classOf(s.Val))
					}
				}
				return r
			}
			if ia, ok := x.X.(*ssa.IndexAddr); ok {
				// element of strings.Split(...)
				if k, isC := ssau.ConstInt(ia.Index); isC && k == 0 {
					if c.classOf(ia.X) != sClean {
						return sClean
					}
				}
				if c.classOf(ia.X) != sClean {
					return sIndex
				}
			}
		}
	case *ssa.Slice:
		base := c.classOf(x.X)
		if !isStr(x.X.Type()) {
			return base
		}
		switch {
		case base == sClean:
			return sClean
		case base == sIndex:
			return sIndex
		case x.Low == nil:
			return sClean // the part in front of the cut
		case x.High == nil:
			return sIndex // the part behind it
		}
		return sFull
	case *ssa.BinOp:
		if x.Op == token.ADD && isStr(x.Type()) {
			return maxCls(c.classOf(x.X), c.classOf(x.Y))
		}
	case *ssa.ChangeType:
		return c.classOf(x.X)
	case *ssa.Convert:
		return c.classOf(x.X)
	case *ssa.MakeInterface:
		return c.classOf(x.X)
	case *ssa.Extract:
		if call, ok := x.Tuple.(*ssa.Call); ok {
			pk, nm := pkgFunc(call)
			if pk == "strings" && (nm == "Cut" || nm == "CutPrefix" || nm == "CutSuffix") && len(call.Call.Args) > 0 && c.classOf(call.Call.Args[0]) != sClean {
				if x.Index == 0 {
					return sClean
				}
				if x.Index == 1 {
					return sIndex
				}
			}
			if rs := c.calleeResults(call); rs != nil && x.Index < len(rs) {
				return rs[x.Index]
			}
		}
	case *ssa.Call:
		pk, nm := pkgFunc(x)
		if pk == "strings" && pureStringFuncs[nm] && len(x.Call.Args) > 0 {
			return c.classOf(x.Call.Args[0])
		}
		if pk == "strings" && (nm == "Split" || nm == "SplitN" || nm == "Fields") && len(x.Call.Args) > 0 {
			return c.classOf(x.Call.Args[0]) // class of the slice of parts = "was split from"
		}
		if rs := c.calleeResults(x); len(rs) == 1 {
			return rs[0]
		}
	}
	return sClean
}

// numericIndex: v is the element index as a number.
func (c *fnCtx) numericIndex(v ssa.Value) bool {
	if v == nil {
		return false
	}
	if r, ok := c.num[v]; ok {
		return r
	}
	c.num[v] = false
	r := false
	switch x := v.(type) {
	case *ssa.Extract:
		if call, ok := x.Tuple.(*ssa.Call); ok {
			pk, nm := pkgFunc(call)
			if pk == "strconv" && atoiFuncs[nm] && x.Index == 0 && len(call.Call.Args) > 0 && c.classOf(call.Call.Args[0]) != sClean {
				r = true
			} else if _, ns := c.a.summary(call, c); ns != nil && x.Index < len(ns) {
				r = ns[x.Index]
			}
		}
	case *ssa.Call:
		if _, ns := c.a.summary(x, c); len(ns) == 1 {
			r = ns[0]
		}
	case *ssa.Phi:
		for _, e := range x.Edges {
			if c.numericIndex(e) {
				r = true
			}
		}
	case *ssa.Convert:
		r = c.numericIndex(x.X)
	case *ssa.ChangeType:
		r = c.numericIndex(x.X)
	case *ssa.BinOp:
		if isInt(x.Type()) {
			r = c.numericIndex(x.X) || c.numericIndex(x.Y)
		}
	case *ssa.UnOp:
		if x.Op == token.MUL {
			if al, ok := x.X.(*ssa.Alloc); ok {
				for _, ref := range ssau.Refs(al) {
					if s, ok := ref.(*ssa.Store); ok && s.Addr == ssa.Value(al) && c.numericIndex(s.Val) {
						r = true
					}
				}
			}
		}
	case *ssa.Parameter:
		// numeric parameters are not tracked across calls (events inside callees are found there)
	}
	c.num[v] = r
	return r
}

func (c *fnCtx) calleeResults(call *ssa.Call) []scls {
	rs, _ := c.a.summary(call, c)
	return rs
}

// summary: classes / numeric flags of the results of a repository callee under the caller's argument classes.
func (a *strAnalysis) summary(call *ssa.Call, caller *fnCtx) ([]scls, []bool) {
	if call.Common().IsInvoke() {
		return nil, nil
	}
	cal := flow.Callee(call)
	if cal == nil {
		return nil, nil
	}
	g := a.k.c.P.SSA.FuncValue(cal)
	if g == nil || g.Blocks == nil || !strings.HasPrefix(funcPkgPath(g), "github.com/EliCDavis/polyform") {
		return nil, nil
	}
	env := make([]scls, len(g.Params))
	any := false
	for i, arg := range call.Common().Args {
		if i < len(env) {
			env[i] = caller.classOf(arg)
			if env[i] != sClean {
				any = true
			}
		}
	}
	if !any {
		return nil, nil
	}
	key := envKey(g, env)
	if rs, ok := a.memo[key]; ok {
		return rs, a.numMem[key]
	}
	if a.busy[key] {
		return nil, nil
	}
	a.busy[key] = true
	gc := a.ctx(g, env)
	n := g.Signature.Results().Len()
	rs := make([]scls, n)
	ns := make([]bool, n)
	// success edges of the function's own Atoi calls
	var successTargets []*ssa.BasicBlock
	ssau.AllInstrs(g, func(in ssa.Instruction) {
		c2, ok := in.(*ssa.Call)
		if !ok {
			return
		}
		pk, nm := pkgFunc(c2)
		if pk != "strconv" || !atoiFuncs[nm] || len(c2.Call.Args) == 0 || gc.classOf(c2.Call.Args[0]) == sClean {
			return
		}
		for _, r := range ssau.Refs(c2) {
			ex, ok := r.(*ssa.Extract)
			if !ok || ex.Index != 1 {
				continue
			}
			for _, rr := range ssau.Refs(ex) {
				bo, ok := rr.(*ssa.BinOp)
				if !ok {
					continue
				}
				for _, r3 := range ssau.Refs(bo) {
					if ifi, ok := r3.(*ssa.If); ok {
						if b, eqK, ok := equalEdgeOf(ifi.Cond); ok && b == bo {
							successTargets = append(successTargets, ifi.Block().Succs[eqK]) // err == nil
						}
					}
				}
			}
		}
	})
	for i := 0; i < n; i++ {
		for _, s := range flow.ReturnSites(g, i) {
			cl := gc.classOf(s.Val)
			if cl == sFull && len(successTargets) > 0 {
				// the fallback of a splitter: reached only when there is no numeric suffix
				after := false
				for _, t := range successTargets {
					r := flow.ReachFrom(t, nil)
					blk := s.Ret.Block()
					if s.Via != nil {
						blk = s.Via.From
					}
					if r[blk] {
						after = true
					}
				}
				if !after {
					cl = sClean
				}
			}
			rs[i] = maxCls(rs[i], cl)
			if gc.numericIndex(s.Val) {
				ns[i] = true
			}
		}
	}
	delete(a.busy, key)
	a.memo[key], a.numMem[key] = rs, ns
	return rs, ns
}

// events collects the ordering comparisons made by fn (and the repository functions it calls) under env.
func (a *strAnalysis) events(fn *ssa.Function, env []scls, ev *ordEvents, depth int, seen map[string]bool) {
	key := envKey(fn, env)
	if seen[key] || depth > 4 {
		return
	}
	seen[key] = true
	c := a.ctx(fn, env)
	ordered := map[token.Token]bool{token.LSS: true, token.LEQ: true, token.GTR: true, token.GEQ: true}
	ssau.AllInstrs(fn, func(in ssa.Instruction) {
		switch x := in.(type) {
		case *ssa.BinOp:
			if !ordered[x.Op] {
				return
			}
			switch {
			case isStr(x.X.Type()):
				if c.classOf(x.X) != sClean || c.classOf(x.Y) != sClean {
					ev.badString = append(ev.badString, x)
				} else {
					ev.cleanStr++
				}
			case isInt(x.X.Type()):
				if c.numericIndex(x.X) || c.numericIndex(x.Y) {
					ev.numeric = append(ev.numeric, x)
				}
			}
		case *ssa.Call:
			pk, nm := pkgFunc(x)
			if (pk == "strings" && nm == "Compare") || (pk == "cmp" && (nm == "Compare" || nm == "Less")) {
				args := x.Call.Args
				if len(args) == 2 {
					switch {
					case isStr(args[0].Type()):
						if c.classOf(args[0]) != sClean || c.classOf(args[1]) != sClean {
							ev.badString = append(ev.badString, x)
						} else {
							ev.cleanStr++
						}
					case isInt(args[0].Type()):
						if c.numericIndex(args[0]) || c.numericIndex(args[1]) {
							ev.numeric = append(ev.numeric, x)
						}
					}
				}
				return
			}
			if x.Common().IsInvoke() {
				return
			}
			cal := flow.Callee(x)
			if cal == nil {
				return
			}
			g := a.k.c.P.SSA.FuncValue(cal)
			if g == nil || g.Blocks == nil || !strings.HasPrefix(funcPkgPath(g), "github.com/EliCDavis/polyform") {
				return
			}
			genv := make([]scls, len(g.Params))
			for i, arg := range x.Common().Args {
				if i < len(genv) {
					genv[i] = c.classOf(arg)
				}
			}
			a.events(g, genv, ev, depth+1, seen)
		}
	})
}

func (k *checker) persist8() {
	bld := k.nodeEncoder()
	if bld == nil {
		return
	}
	k.persist8Sorts(bld, k.c.P.FuncName(bld))
	k.persist8Loader()
}

// persist8Sorts examines every sort applied to the saved dependency list in fn.
func (k *checker) persist8Sorts(fn *ssa.Function, name string) {
	rep := k.rep(fn.Pos())
	fi := newFnInfo(fn)
	var result *ssa.Alloc
	for _, s := range flow.ReturnSites(fn, 0) {
		if a := localStructOf(s.Val); a != nil {
			result = a
		}
	}
	if result == nil {
		rep.undecide("PERSIST-8", name+"#sort", fn.Pos(), "result object not found")
		return
	}
	listP := fi.prov(result) + ".Dependencies"
	isName := func(v ssa.Value) bool {
		var fv *types.Var
		var base ssa.Value
		switch x := v.(type) {
		case *ssa.UnOp:
			if x.Op != token.MUL {
				return false
			}
			fv, base = flow.FieldBase(x.X)
		case *ssa.Field:
			fv, base = flow.FieldBase(x)
		}
		if fv == nil || base == nil || fv.Name() != "Name" {
			return false
		}
		t := base.Type()
		if p, ok := t.Underlying().(*types.Pointer); ok {
			t = p.Elem()
		}
		return isNamedType(t, schemaPath, "NodeDependency")
	}
	n := 0
	ssau.AllInstrs(fn, func(in ssa.Instruction) {
		c, ok := in.(*ssa.Call)
		if !ok {
			return
		}
		arg := flow.SortedArg(c)
		if arg == nil || fi.prov(arg) != listP {
			return
		}
		n++
		construct := name + "#sort"
		if n > 1 {
			construct = fmt.Sprintf("%s#sort%d", name, n)
		}
		f := flow.Callee(c)
		stable := strings.Contains(f.Name(), "Stable")
		// the comparator
		var cmpFn *ssa.Function
		if len(c.Call.Args) >= 2 {
			switch x := flow.StripAll(c.Call.Args[1]).(type) {
			case *ssa.MakeClosure:
				cmpFn, _ = x.Fn.(*ssa.Function)
			case *ssa.Function:
				cmpFn = x
			}
		}
		if cmpFn == nil || cmpFn.Blocks == nil {
			rep.undecide("PERSIST-8", construct, ssau.PosOf(c), "the comparator of this sort is not a function literal or a named function (sort.Sort with a Less method is not followed)")
			return
		}
		a := &strAnalysis{k: k, nameOf: isName, memo: map[string][]scls{}, numMem: map[string][]bool{}, busy: map[string]bool{}}
		ev := &ordEvents{}
		a.events(cmpFn, make([]scls, len(cmpFn.Params)), ev, 0, map[string]bool{})
		switch {
		case len(ev.badString) > 0:
			rep.violate("PERSIST-8", construct, ssau.PosOf(ev.badString[0]),
				"the saved dependency list is sorted by an ordered STRING comparison of a value that still contains the decimal element index (derived from NodeDependency.Name without the index being split off and converted with strconv): \"Values.10\" sorts before \"Values.2\", and the loader appends array elements in the listed order, so an array input with ten or more elements comes back permuted (0 1 10 11 2 …)",
				fmt.Sprintf("%d string comparison(s) of index-carrying values, %d numeric index comparison(s)", len(ev.badString), len(ev.numeric)))
		case len(ev.numeric) > 0:
			rep.hold("PERSIST-8", construct, ssau.PosOf(c), fmt.Sprintf("element index compared numerically (%d comparison(s)); %d string comparison(s) on index-free keys", len(ev.numeric), ev.cleanStr))
		case stable:
			rep.hold("PERSIST-8", construct, ssau.PosOf(c), fmt.Sprintf("stable sort keyed without the element index (%d string comparison(s) on index-free keys): the enumeration's index order is kept", ev.cleanStr))
		default:
			rep.violate("PERSIST-8", construct, ssau.PosOf(c),
				"the saved dependency list is sorted by a key that does not contain the element index, with an UNSTABLE sort: elements of one array input compare equal and may be permuted, and the loader appends them in the listed order")
		}
	})
	if n == 0 {
		rep.hold("PERSIST-8", name+"#sort", fn.Pos(), "no sort applied to the saved dependency list: the enumeration order is written as is")
	}
}

// persist8Loader: the loader walks the list in ascending order and the reflective writer appends.
func (k *checker) persist8Loader() {
	if fn := k.fn("generator/graph", "Instance.ApplyAppSchema"); fn != nil {
		rep := k.rep(fn.Pos())
		fi := newFnInfo(fn)
		name := k.c.P.FuncName(fn)
		var call *ssa.Call
		ssau.AllInstrs(fn, func(in ssa.Instruction) {
			if c, ok := in.(*ssa.Call); ok && c.Common().IsInvoke() && c.Common().Method.Name() == "SetInput" {
				call = c
			}
		})
		if call == nil {
			rep.undecide("PERSIST-8", name+"#listed-order", fn.Pos(), "no SetInput call")
		} else if it := fi.loopOf(call); it != nil && it.kind == "slice" && strings.HasSuffix(fi.prov(it.coll), ".Dependencies") {
			rep.hold("PERSIST-8", name+"#listed-order", ssau.PosOf(call), "dependencies are replayed by an ascending loop over the listed slice")
		} else {
			rep.violate("PERSIST-8", name+"#listed-order", ssau.PosOf(call), "the listed dependencies are not replayed in ascending list order: array inputs are rebuilt in another order than they were saved")
		}
	}
	if fn := k.fn("refutil", "AddToStructFieldArray"); fn != nil {
		rep := k.rep(fn.Pos())
		name := k.c.P.FuncName(fn)
		ok := false
		ssau.AllInstrs(fn, func(in ssa.Instruction) {
			c, isC := in.(*ssa.Call)
			if !isC {
				return
			}
			pk, nm := pkgFunc(c)
			if pk != "reflect" || nm != "Append" || len(c.Call.Args) < 1 {
				return
			}
			// the appended-to slice is the field that is then Set with the result
			for _, r := range ssau.Refs(c) {
				if set, isSet := r.(*ssa.Call); isSet {
					pk2, nm2 := pkgFunc(set)
					if pk2 == "reflect" && nm2 == "Set" && len(set.Call.Args) == 2 && set.Call.Args[1] == ssa.Value(c) && sameValue(set.Call.Args[0], c.Call.Args[0]) {
						ok = true
					}
				}
			}
		})
		if ok {
			rep.hold("PERSIST-8", name+"#appends", fn.Pos(), "field.Set(reflect.Append(field, value)): a new element goes to the end")
		} else {
			rep.violate("PERSIST-8", name+"#appends", fn.Pos(), "the array writer does not append to the end of the field (field.Set(reflect.Append(field, v)) not found): reloaded array inputs are not in listed order")
		}
	}
}

func sameValue(a, b ssa.Value) bool {
	if a == b {
		return true
	}
	// a reflect.Value kept in a local and loaded twice
	la, ok1 := a.(*ssa.UnOp)
	lb, ok2 := b.(*ssa.UnOp)
	return ok1 && ok2 && la.X == lb.X
}
