package c12

import (
	"fmt"
	"go/types"
	"sort"
	"strings"

	"golang.org/x/tools/go/ssa"

	"polycheck/props/c11/flow"
	"polycheck/ssau"
)

// ---------------------------------------------------------------------------
// PERSIST-9: binary payloads are self-delimiting. The jbtf encoder writes the payloads
// of all Serializable schema fields of a file back to back into one buffer and the
// decoder seeks to a payload's offset and hands Deserialize the reader of the WHOLE
// buffer (the view's length is not applied). A Deserialize that consumes its reader to
// EOF therefore swallows every payload stored behind its own: all payloads but the last
// of a file are corrupted on load.
//
// For every field of a ToJSON/FromJSON schema struct whose type implements
// jbtf.Serializable: the type's Deserialize (dependency source, loaded as SSA) must not
// pass its reader to an EOF-consuming reader (table below) — unless the decoder gives
// it a length-limited reader (io.LimitReader / io.NewSectionReader / a reader over a
// sub-slice) at its `Deserialize(…)` call. Self-delimiting consumers are a named table.

const jbtfPath = "github.com/EliCDavis/jbtf"

// consumers of a reader up to EOF: package → function / method
var eofConsumers = map[string]map[string]bool{
	"io":        {"ReadAll": true, "Copy": true, "CopyBuffer": true},
	"io/ioutil": {"ReadAll": true},
	"bytes":     {"ReadFrom": true},
	"bufio":     {"ReadFrom": true, "NewScanner": true},
	"os":        {"ReadFrom": true},
}

// consumers that stop at the end of their own encoding (named table; image decoders stop at the
// terminating chunk — PNG IEND, JPEG EOI —, fixed-size reads stop after the requested bytes)
var selfDelimiting = map[string]map[string]bool{
	"image":           {"Decode": true, "DecodeConfig": true},
	"image/png":       {"Decode": true, "DecodeConfig": true},
	"image/jpeg":      {"Decode": true, "DecodeConfig": true},
	"image/gif":       {"Decode": true, "DecodeAll": true},
	"encoding/binary": {"Read": true},
	"io":              {"ReadFull": true, "ReadAtLeast": true, "CopyN": true, "LimitReader": true, "NewSectionReader": true},
}

var limiters = map[string]map[string]bool{
	"io": {"LimitReader": true, "NewSectionReader": true},
}

type deserVerdict struct {
	eof     []string // EOF-consuming calls the reader reaches
	self    []string
	unknown []string
	pos     ssa.Instruction
}

// readerUses classifies what fn does with its reader parameter (param index idx).
func (k *checker) readerUses(fn *ssa.Function, idx int, depth int, v *deserVerdict) {
	if fn == nil || fn.Blocks == nil || idx >= len(fn.Params) {
		v.unknown = append(v.unknown, "body not available")
		return
	}
	rd := fn.Params[idx]
	isReader := func(x ssa.Value) bool {
		return derives(x, func(y ssa.Value) bool { return y == ssa.Value(rd) })
	}
	ssau.AllInstrs(fn, func(in ssa.Instruction) {
		c, ok := in.(*ssa.Call)
		if !ok {
			return
		}
		args := c.Common().Args
		hit := -1
		for i, a := range args {
			if isReader(a) {
				hit = i
			}
		}
		if c.Common().IsInvoke() && isReader(c.Common().Value) {
			// a direct Read on the reader: a hand-written loop — not classified
			v.unknown = append(v.unknown, "direct "+c.Common().Method.Name()+"() on the reader")
			return
		}
		if hit < 0 {
			return
		}
		pk, nm := pkgFunc(c)
		switch {
		case eofConsumers[pk][nm]:
			v.eof = append(v.eof, pk+"."+nm)
			if v.pos == nil {
				v.pos = c
			}
		case selfDelimiting[pk][nm]:
			v.self = append(v.self, pk+"."+nm)
		default:
			g := c.Common().StaticCallee()
			if g != nil && g.Blocks != nil && depth > 0 && (strings.HasPrefix(funcPkgPath(g), jbtfPath) || strings.HasPrefix(funcPkgPath(g), "github.com/EliCDavis/polyform")) && hit < len(g.Params) {
				k.readerUses(g, hit, depth-1, v)
			} else {
				v.unknown = append(v.unknown, pk+"."+nm)
			}
		}
	})
}

// decoderLimits: does the decoder hand Deserialize a length-limited reader?
func (k *checker) decoderLimits() (limited bool, where string, found bool) {
	sp := k.c.P.DepSSAPkg(jbtfPath)
	if sp == nil {
		return false, "", false
	}
	for _, fn := range k.c.P.FuncsOf(sp) {
		ssau.AllInstrs(fn, func(in ssa.Instruction) {
			c, ok := in.(*ssa.Call)
			if !ok || !c.Common().IsInvoke() || c.Common().Method.Name() != "Deserialize" || len(c.Common().Args) != 1 {
				return
			}
			found = true
			where = fn.Name()
			arg := c.Common().Args[0]
			if derives(arg, func(y ssa.Value) bool {
				cc, isC := y.(*ssa.Call)
				if !isC {
					return false
				}
				pk, nm := pkgFunc(cc)
				return limiters[pk][nm]
			}) {
				limited = true
			}
		})
	}
	return
}

func (k *checker) persist9(pairs []pairType) {
	var ser *types.Interface
	if pk := k.c.P.All[jbtfPath]; pk != nil {
		if tn, ok := pk.Types.Scope().Lookup("Serializable").(*types.TypeName); ok {
			ser, _ = tn.Type().Underlying().(*types.Interface)
		}
	}
	if ser == nil {
		k.c.R.Failf("anchor %s.Serializable not found", jbtfPath)
		return
	}
	limited, where, found := k.decoderLimits()
	if !found {
		k.c.R.Failf("anchor: no Deserialize call found in %s (decoder side of PERSIST-9)", jbtfPath)
		return
	}
	memo := map[string]*deserVerdict{}
	n := 0
	for _, pt := range pairs {
		rep := k.rep(pt.toFn.Pos())
		// the schema struct
		var st *types.Struct
		if _, al, _ := k.schemaObject(pt); al != nil {
			if s, ok := schemaStructOf(al.Type().(*types.Pointer).Elem(), pt.named.Obj().Pkg(), pt.named); ok {
				st = s
			}
		}
		if st == nil {
			continue
		}
		for i := 0; i < st.NumFields(); i++ {
			f := st.Field(i)
			t := f.Type()
			if !(types.Implements(t, ser) || types.Implements(types.NewPointer(t), ser)) {
				continue
			}
			named := ssau.NamedOf(t)
			if named == nil {
				continue
			}
			n++
			construct := fmt.Sprintf("%s#payload.%s", pt.key, f.Name())
			tkey := relType(named)
			v := memo[tkey]
			if v == nil {
				v = &deserVerdict{}
				var m *types.Func
				for j := 0; j < named.NumMethods(); j++ {
					if named.Method(j).Name() == "Deserialize" {
						m = named.Method(j).Origin()
					}
				}
				var body *ssa.Function
				if m != nil {
					body = k.c.P.SSA.FuncValue(m)
				}
				k.readerUses(body, 1, 2, v)
				sort.Strings(v.eof)
				sort.Strings(v.self)
				sort.Strings(v.unknown)
				memo[tkey] = v
			}
			pos := f.Pos()
			switch {
			case len(v.eof) > 0 && !limited:
				rep.violate("PERSIST-9", construct, pos,
					fmt.Sprintf("the payload type %s reads its reader to EOF in Deserialize (%s) and the decoder (%s.%s) hands it the reader of the whole shared buffer, positioned at the payload's offset, without applying the view's length: every payload stored behind this one is appended to it on load — a file holding two such payloads (current + default value, or two File parameters) reloads with a corrupted value",
						tkey, strings.Join(v.eof, ", "), jbtfPath, where),
					"Deserialize at "+k.c.P.Pos(ssau.PosOf(v.pos)))
			case len(v.eof) > 0:
				rep.hold("PERSIST-9", construct, pos, "Deserialize reads to EOF but the decoder limits the reader to the view")
			case len(v.unknown) > 0:
				rep.undecide("PERSIST-9", construct, pos, "cannot classify how "+tkey+".Deserialize consumes its reader: "+strings.Join(v.unknown, ", "))
			case len(v.self) > 0:
				rep.hold("PERSIST-9", construct, pos, tkey+".Deserialize consumes its reader only through self-delimiting decoders ("+strings.Join(v.self, ", ")+")")
			default:
				rep.undecide("PERSIST-9", construct, pos, tkey+".Deserialize does not use its reader")
			}
		}
	}
	if !k.c.P.IsControl(0) {
		k.c.R.Extra["persist9_payload_fields"] = n
		k.c.R.Extra["persist9_decoder_limits_reader"] = limited
	}
}

var _ = flow.StripAll
