package c12

import (
	"fmt"
	"go/token"
	"go/types"
	"sort"
	"strings"

	"golang.org/x/tools/go/ssa"

	"polycheck/props/c11/flow"
	"polycheck/ssau"
)

// ---------------------------------------------------------------------------
// provenance: a canonical access path for an SSA value, insensitive to spills,
// local names and statement order. Examples (ApplyAppSchema):
//
//	Unmarshal(jsonPayload)#0.Nodes[k@5]                 the file id of the node of the first loop
//	Unmarshal(jsonPayload)#0.Nodes[v@12].Dependencies[e@15].Name
//	i.nodeIDs                                            a receiver field
//	created{Unmarshal(jsonPayload)#0.Nodes[k@12]}       lookup in a local map
//
// [k@B] / [v@B] = key / value of the map-range loop whose header is block B,
// [e@B] = current element of the slice loop with header B.

type fnInfo struct {
	fn    *ssa.Function
	loops []*ssau.Loop
	iters map[*ssau.Loop]*iter
	memo  map[ssa.Value]string
	busy  map[ssa.Value]bool
}

// iter describes what a loop iterates over.
type iter struct {
	loop    *ssau.Loop
	kind    string // "map" | "slice"
	coll    ssa.Value
	next    *ssa.Next // map
	idx     ssa.Value // slice
	exhaust flow.Edge // edge taken when the collection is exhausted
	body    *ssa.BasicBlock
	tag     string
}

func newFnInfo(fn *ssa.Function) *fnInfo {
	fi := &fnInfo{fn: fn, loops: ssau.Loops(fn), iters: map[*ssau.Loop]*iter{}, memo: map[ssa.Value]string{}, busy: map[ssa.Value]bool{}}
	for _, l := range fi.loops {
		if it := recogniseIter(l); it != nil {
			fi.iters[l] = it
		}
	}
	return fi
}

func recogniseIter(l *ssau.Loop) *iter {
	tag := fmt.Sprintf("@%d", l.Header.Index)
	ifi := flow.IfOf(l.Header)
	if ifi == nil {
		return nil
	}
	// map range: header has `next`, branch on extract #0
	for _, in := range l.Header.Instrs {
		if nx, ok := in.(*ssa.Next); ok && !nx.IsString {
			r, isR := nx.Iter.(*ssa.Range)
			if !isR {
				return nil
			}
			if _, isMap := r.X.Type().Underlying().(*types.Map); !isMap {
				return nil
			}
			v, pos := flow.BoolTest(ifi.Cond)
			ex, isEx := v.(*ssa.Extract)
			if !isEx || ex.Tuple != nx || ex.Index != 0 {
				return nil
			}
			bodyK, exK := 0, 1
			if !pos {
				bodyK, exK = 1, 0
			}
			return &iter{loop: l, kind: "map", coll: r.X, next: nx, exhaust: flow.Edge{From: l.Header, K: exK}, body: l.Header.Succs[bodyK], tag: tag}
		}
	}
	// slice loop
	v, pos := flow.BoolTest(ifi.Cond)
	b, ok := v.(*ssa.BinOp)
	if !ok {
		return nil
	}
	var idx, lim ssa.Value
	switch b.Op {
	case token.LSS:
		idx, lim = b.X, b.Y
	case token.GTR:
		idx, lim = b.Y, b.X
	default:
		return nil
	}
	lc, ok := flow.StripAll(lim).(*ssa.Call)
	if !ok || ssau.Builtin(lc) != "len" {
		return nil
	}
	one := func(v ssa.Value) bool { k, ok := ssau.ConstInt(v); return ok && k == 1 }
	okInd := false
	switch x := idx.(type) {
	case *ssa.Phi:
		if x.Block() == l.Header {
			okInd = true
			for k, e := range x.Edges {
				if l.Blocks[l.Header.Preds[k]] {
					inc, isB := e.(*ssa.BinOp)
					if !isB || inc.Op != token.ADD || !((inc.X == x && one(inc.Y)) || (inc.Y == x && one(inc.X))) {
						okInd = false
					}
				} else if k0, isC := ssau.ConstInt(e); !isC || k0 != 0 {
					okInd = false
				}
			}
		}
	case *ssa.BinOp:
		if x.Op == token.ADD && one(x.Y) {
			if ph, isP := x.X.(*ssa.Phi); isP && ph.Block() == l.Header {
				okInd = true
				for k, e := range ph.Edges {
					if l.Blocks[l.Header.Preds[k]] {
						if e != x {
							okInd = false
						}
					} else if k0, isC := ssau.ConstInt(e); !isC || k0 != -1 {
						okInd = false
					}
				}
			}
		}
	}
	if !okInd {
		return nil
	}
	bodyK, exK := 0, 1
	if !pos {
		bodyK, exK = 1, 0
	}
	return &iter{loop: l, kind: "slice", coll: lc.Call.Args[0], idx: idx, exhaust: flow.Edge{From: l.Header, K: exK}, body: l.Header.Succs[bodyK], tag: tag}
}

func calleeName(c ssa.CallInstruction) string {
	if f := flow.Callee(c); f != nil {
		return f.Name()
	}
	if b := ssau.Builtin(c); b != "" {
		return b
	}
	return "?"
}

func (fi *fnInfo) prov(v ssa.Value) string {
	if v == nil {
		return "<nil>"
	}
	if s, ok := fi.memo[v]; ok {
		return s
	}
	if fi.busy[v] {
		return "cycle#" + v.Name()
	}
	fi.busy[v] = true
	s := fi.prov1(v)
	delete(fi.busy, v)
	fi.memo[v] = s
	return s
}

func fieldName(t types.Type, idx int) string {
	if p, ok := t.Underlying().(*types.Pointer); ok {
		t = p.Elem()
	}
	if st, ok := t.Underlying().(*types.Struct); ok && idx < st.NumFields() {
		return st.Field(idx).Name()
	}
	return fmt.Sprintf("#%d", idx)
}

func (fi *fnInfo) prov1(v ssa.Value) string {
	switch x := v.(type) {
	case *ssa.Parameter:
		return x.Name()
	case *ssa.FreeVar:
		return "free:" + x.Name()
	case *ssa.Global:
		return "global:" + x.Name()
	case *ssa.Const:
		if x.Value == nil {
			return "nil"
		}
		return x.Value.ExactString()
	case *ssa.Alloc:
		// a variable that is assigned exactly one whole value stands for that value
		var whole []ssa.Value
		for _, r := range ssau.Refs(x) {
			if s, ok := r.(*ssa.Store); ok && s.Addr == x {
				whole = append(whole, s.Val)
			}
		}
		if len(whole) == 1 {
			return fi.prov(whole[0])
		}
		return "local#" + x.Name()
	case *ssa.UnOp:
		if x.Op == token.MUL {
			return fi.prov(x.X)
		}
		return x.Op.String() + fi.prov(x.X)
	case *ssa.FieldAddr:
		return fi.prov(x.X) + "." + fieldName(x.X.Type(), x.Field)
	case *ssa.Field:
		return fi.prov(x.X) + "." + fieldName(x.X.Type(), x.Field)
	case *ssa.IndexAddr:
		return fi.prov(x.X) + "[" + fi.idxProv(x.Index) + "]"
	case *ssa.Index:
		return fi.prov(x.X) + "[" + fi.idxProv(x.Index) + "]"
	case *ssa.Lookup:
		return fi.prov(x.X) + "{" + fi.prov(x.Index) + "}"
	case *ssa.Extract:
		switch t := x.Tuple.(type) {
		case *ssa.Next:
			for _, it := range fi.iters {
				if it.next == t {
					which := "k"
					if x.Index == 2 {
						which = "v"
					}
					return fi.prov(it.coll) + "[" + which + it.tag + "]"
				}
			}
			return "next#" + t.Name()
		case *ssa.TypeAssert:
			if x.Index == 0 {
				return fi.prov(t.X)
			}
			return "ok(" + fi.prov(t.X) + ")"
		case *ssa.Lookup:
			if x.Index == 0 {
				return fi.prov(t)
			}
			return "has(" + fi.prov(t) + ")"
		}
		return fmt.Sprintf("%s#%d", fi.prov(x.Tuple), x.Index)
	case *ssa.ChangeType:
		return fi.prov(x.X)
	case *ssa.ChangeInterface:
		return fi.prov(x.X)
	case *ssa.MakeInterface:
		return fi.prov(x.X)
	case *ssa.Convert:
		return fi.prov(x.X)
	case *ssa.TypeAssert:
		return fi.prov(x.X)
	case *ssa.Slice:
		if x.Low == nil && x.High == nil {
			return fi.prov(x.X)
		}
		return fi.prov(x.X) + "[:]#" + x.Name()
	case *ssa.Call:
		var args []string
		cc := x.Common()
		if cc.IsInvoke() {
			args = append(args, fi.prov(cc.Value))
		}
		for _, a := range cc.Args {
			args = append(args, fi.prov(a))
		}
		return calleeName(x) + "(" + strings.Join(args, ",") + ")"
	case *ssa.MakeMap:
		return "map#" + x.Name()
	case *ssa.MakeSlice:
		return "slice#" + x.Name()
	case *ssa.Phi:
		return "phi#" + x.Name()
	case *ssa.BinOp:
		return "(" + fi.prov(x.X) + x.Op.String() + fi.prov(x.Y) + ")"
	}
	return "val#" + v.Name()
}

func (fi *fnInfo) idxProv(idx ssa.Value) string {
	for _, it := range fi.iters {
		if it.kind == "slice" && it.idx == idx {
			return "e" + it.tag
		}
	}
	if k, ok := ssau.ConstInt(idx); ok {
		return fmt.Sprint(k)
	}
	return fi.prov(idx)
}

// ---------------------------------------------------------------------------
// backward slice

// derives walks backwards from v through operands, through the contents of
// local objects (stores into an Alloc) and through value-preserving wrappers,
// and reports whether some visited value satisfies pred.
func derives(v ssa.Value, pred func(ssa.Value) bool) bool {
	seen := map[ssa.Value]bool{}
	var walk func(v ssa.Value) bool
	walk = func(v ssa.Value) bool {
		if v == nil || seen[v] {
			return false
		}
		seen[v] = true
		if pred(v) {
			return true
		}
		if a, ok := v.(*ssa.Alloc); ok {
			// what was put into the local object
			var visit func(addr ssa.Value) bool
			visit = func(addr ssa.Value) bool {
				for _, r := range ssau.Refs(addr) {
					switch y := r.(type) {
					case *ssa.Store:
						if y.Addr == addr && walk(y.Val) {
							return true
						}
					case *ssa.FieldAddr:
						if visit(y) {
							return true
						}
					case *ssa.IndexAddr:
						if visit(y) {
							return true
						}
					}
				}
				return false
			}
			return visit(a)
		}
		if mk, ok := v.(*ssa.MakeMap); ok {
			// what was put into the local map
			for _, r := range ssau.Refs(mk) {
				if mu, ok := r.(*ssa.MapUpdate); ok && mu.Map == ssa.Value(mk) {
					if walk(mu.Key) || walk(mu.Value) {
						return true
					}
				}
			}
		}
		in, ok := v.(ssa.Instruction)
		if !ok {
			return false
		}
		for _, op := range in.Operands(nil) {
			if op != nil && *op != nil && walk(*op) {
				return true
			}
		}
		return false
	}
	return walk(v)
}

// collect gathers every visited value satisfying pred.
func collect(v ssa.Value, pred func(ssa.Value) bool) []ssa.Value {
	var out []ssa.Value
	derives(v, func(x ssa.Value) bool {
		if pred(x) {
			out = append(out, x)
		}
		return false
	})
	return out
}

// ---------------------------------------------------------------------------
// EACH: every complete iteration of a loop performs an action, and the loop
// cannot be left early except by panicking or returning an error.

func isErrorReturn(r *ssa.Return) bool {
	if len(r.Results) == 0 {
		return false
	}
	last := flow.Unspill(r, r.Results[len(r.Results)-1])
	if !types.Identical(last.Type(), types.Universe.Lookup("error").Type()) {
		return false
	}
	return !flow.IsNilConst(last)
}

// earlyExits returns the instructions at which the loop can be left without
// exhausting its collection and still reach a normal (non-error) return.
func (it *iter) earlyExits() []ssa.Instruction {
	var out []ssa.Instruction
	for b := range it.loop.Blocks {
		for k, s := range b.Succs {
			if it.loop.Blocks[s] || (flow.Edge{From: b, K: k}) == it.exhaust {
				continue
			}
			for blk := range flow.ReachFrom(s, nil) {
				if len(blk.Instrs) == 0 {
					continue
				}
				if r, ok := blk.Instrs[len(blk.Instrs)-1].(*ssa.Return); ok && !isErrorReturn(r) {
					out = append(out, b.Instrs[len(b.Instrs)-1])
				}
			}
		}
		// a return inside the loop body itself
		if len(b.Instrs) > 0 {
			if r, ok := b.Instrs[len(b.Instrs)-1].(*ssa.Return); ok && !isErrorReturn(r) {
				out = append(out, r)
			}
		}
	}
	sort.Slice(out, func(i, j int) bool { return out[i].Pos() < out[j].Pos() })
	return out
}

// skips reports whether an iteration can get from the body entry back to the
// header without executing an instruction satisfying action (edges in cut are
// not available — used for "unless the node does not implement the interface").
func (it *iter) skips(action func(ssa.Instruction) bool, cut map[flow.Edge]bool) bool {
	c := map[flow.Edge]bool{}
	for e := range cut {
		c[e] = true
	}
	for b := range it.loop.Blocks {
		for k, s := range b.Succs {
			if !it.loop.Blocks[s] {
				c[flow.Edge{From: b, K: k}] = true
			}
		}
	}
	// target: first instruction of the header, entered from inside the loop
	type pt struct {
		b *ssa.BasicBlock
		i int
	}
	entered := map[*ssa.BasicBlock]bool{}
	stack := []pt{{it.body, 0}}
	entered[it.body] = true
	for len(stack) > 0 {
		p := stack[len(stack)-1]
		stack = stack[:len(stack)-1]
		if p.b == it.loop.Header {
			return true
		}
		blocked := false
		for j := p.i; j < len(p.b.Instrs); j++ {
			if action(p.b.Instrs[j]) {
				blocked = true
				break
			}
		}
		if blocked {
			continue
		}
		for k, s := range p.b.Succs {
			if c[flow.Edge{From: p.b, K: k}] || entered[s] {
				continue
			}
			entered[s] = true
			stack = append(stack, pt{s, 0})
		}
	}
	return false
}

// loopOf returns the iter of the innermost recognised loop containing in, or nil.
func (fi *fnInfo) loopOf(in ssa.Instruction) *iter {
	l := ssau.InnermostLoop(fi.loops, in.Block())
	if l == nil {
		return nil
	}
	return fi.iters[l]
}

// outerOf returns the innermost recognised loop strictly containing it.
func (fi *fnInfo) outerOf(it *iter) *iter {
	var best *ssau.Loop
	for _, l := range fi.loops {
		if l == it.loop || !l.Blocks[it.loop.Header] {
			continue
		}
		if best == nil || len(l.Blocks) < len(best.Blocks) {
			best = l
		}
	}
	if best == nil {
		return nil
	}
	return fi.iters[best]
}

// keysOf: when it ranges over a slice that was filled with every key of a map
// inside an exhaustive map-range loop (and possibly sorted), return that map's
// provenance: the loop visits every key of the map. The slice may also be the
// result of an in-package (possibly generic) helper that builds it that way from
// its map parameter (sortedMapKeys(m)).
func (fi *fnInfo) keysOf(it *iter) (string, bool) {
	if it.kind != "slice" {
		return "", false
	}
	return fi.keysOfValue(it.coll, 3)
}

// keysOfValue: v is a slice holding every key of the map whose provenance is returned.
func (fi *fnInfo) keysOfValue(v ssa.Value, depth int) (string, bool) {
	found, ok := "", false
	seen := map[ssa.Value]bool{}
	var walk func(v ssa.Value)
	walk = func(v ssa.Value) {
		if v == nil || seen[v] || ok {
			return
		}
		seen[v] = true
		switch x := v.(type) {
		case *ssa.Phi:
			for _, e := range x.Edges {
				walk(e)
			}
		case *ssa.Slice:
			walk(x.X)
		case *ssa.ChangeType:
			walk(x.X)
		case *ssa.UnOp:
			// a variable captured by a closure (sort.Slice's less) lives in a cell
			if cell, isCell := x.X.(*ssa.Alloc); isCell && x.Op == token.MUL {
				for _, r := range ssau.Refs(cell) {
					if s, isStore := r.(*ssa.Store); isStore && s.Addr == ssa.Value(cell) {
						walk(s.Val)
					}
				}
			}
		case *ssa.Call:
			if ssau.Builtin(x) == "append" {
				src := fi.loopOf(x)
				if src != nil && src.kind == "map" && len(x.Call.Args) == 2 {
					// appended element = the key of the source loop
					want := fi.prov(src.coll) + "[k" + src.tag + "]"
					elemOK := derives(x.Call.Args[1], func(y ssa.Value) bool { return fi.prov(y) == want })
					if elemOK && !src.skips(func(in ssa.Instruction) bool { return in == ssa.Instruction(x) }, nil) && len(src.earlyExits()) == 0 {
						found, ok = fi.prov(src.coll), true
						return
					}
				}
				walk(x.Call.Args[0])
				return
			}
			// an in-package helper returning every key of one of its map parameters
			g := x.Common().StaticCallee()
			if g == nil || g.Blocks == nil || depth <= 0 || x.Common().IsInvoke() || funcPkgPath(g) != funcPkgPath(fi.fn) || len(g.Params) != len(x.Common().Args) {
				return
			}
			gfi := newFnInfo(g)
			which := ""
			sites := flow.ReturnSites(g, 0)
			for _, s := range sites {
				m, isKeys := gfi.keysOfValue(s.Val, depth-1)
				if !isKeys || (which != "" && which != m) {
					return
				}
				which = m
			}
			if which == "" {
				return
			}
			for j, prm := range g.Params {
				if _, isMap := prm.Type().Underlying().(*types.Map); isMap && prm.Name() == which {
					found, ok = fi.prov(x.Common().Args[j]), true
					return
				}
			}
		}
	}
	walk(v)
	return found, ok
}
