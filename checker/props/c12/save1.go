package c12

import (
	"fmt"
	"go/constant"
	"go/types"
	"strings"

	"golang.org/x/tools/go/ssa"

	"polycheck/props/c11/flow"
	"polycheck/ssau"
)

// ---------------------------------------------------------------------------
// SAVE-1: GraphSaver.Save puts exactly App.Schema()'s bytes into the save file and
// REPLACES the previous content. Accepted ways of replacing:
//
//	os.WriteFile(path, bytes, perm)                         (creates or truncates)
//	os.Create(path) + Write                                 (truncates)
//	os.OpenFile(path, flags, perm) + Write                  flags a constant containing O_TRUNC
//	… + f.Truncate(n) / os.Truncate(path, n) on every path to a normal return
//	write into a fresh file (os.CreateTemp, os.Create, OpenFile with O_TRUNC or O_EXCL)
//	  and os.Rename(thatFile, path) on every path            (rename replaces the destination)
//
// The bytes written are the Schema() result itself (no slicing / chunking), the path
// derives from the saver's own state, and the errors of open / write / rename are
// checked (compared with nil; the non-nil edge returns or panics with them).
// Close()/Sync() errors are not examined.

func (k *checker) osConst(name string) (int64, bool) {
	pk := k.c.P.All["os"]
	if pk == nil {
		return 0, false
	}
	c, ok := pk.Types.Scope().Lookup(name).(*types.Const)
	if !ok {
		return 0, false
	}
	return constant.Int64Val(constant.ToInt(c.Val()))
}

func isOS(c ssa.CallInstruction, name string) bool {
	f := flow.Callee(c)
	return f != nil && f.Pkg() != nil && f.Pkg().Path() == "os" && f.Name() == name && ssau.RecvNamed(f) == nil
}

func isFileMethod(c ssa.CallInstruction, names ...string) bool {
	f := flow.Callee(c)
	if f == nil || f.Pkg() == nil || f.Pkg().Path() != "os" {
		return false
	}
	n := ssau.RecvNamed(f)
	if n == nil || n.Obj().Name() != "File" {
		return false
	}
	for _, nm := range names {
		if f.Name() == nm {
			return true
		}
	}
	return false
}

func (k *checker) save1() {
	fn := k.fn("generator", "GraphSaver.Save")
	schemaFn := k.fn("generator", "App.Schema")
	if fn == nil || schemaFn == nil {
		return
	}
	k.save1On(fn, schemaFn, k.c.P.FuncName(fn))
}

// onceWrapper describes `helper(func(){ body })`: a function literal handed to an in-package
// helper that calls its function parameter exactly once on every path to a normal return
// (a lock / recover / timing wrapper). The literal is then analysed as the body: it runs
// exactly when the call of the helper runs.
type onceWrapper struct {
	call    *ssa.Call     // the call of the helper in the outer function
	helper  *ssa.Function // the helper
	body    *ssa.Function // the function literal
	closure *ssa.MakeClosure
	once    bool // the helper calls the parameter exactly once, unconditionally
}

// callsParamOnce: every path of h to a normal return calls parameter #j exactly once (directly or deferred).
func callsParamOnce(h *ssa.Function, j int) bool {
	if h == nil || h.Blocks == nil || j >= len(h.Params) {
		return false
	}
	p := h.Params[j]
	escapes := false
	for _, r := range ssau.Refs(p) {
		switch x := r.(type) {
		case *ssa.Call:
			if x.Common().Value != ssa.Value(p) {
				escapes = true // handed on to somebody else
			}
		case *ssa.Defer:
			if x.Common().Value != ssa.Value(p) {
				escapes = true
			}
		case *ssa.DebugRef:
		default:
			escapes = true // stored, sent to a goroutine, compared, …
		}
	}
	if escapes {
		return false
	}
	vs := flow.AllVectors(h, flow.Vec{}, func(in ssa.Instruction, cur flow.Vec) []flow.Vec {
		switch x := in.(type) {
		case *ssa.Call:
			if x.Common().Value == ssa.Value(p) {
				return []flow.Vec{cur.Bump(0)}
			}
		case *ssa.Defer:
			if x.Common().Value == ssa.Value(p) {
				return []flow.Vec{cur.Bump(0)}
			}
		}
		return nil
	})
	if len(vs) == 0 {
		return false
	}
	for _, v := range vs {
		if v[0] != 1 {
			return false
		}
	}
	return true
}

// wrappers lists the function literals fn hands to in-package helpers.
func (k *checker) wrappers(fn *ssa.Function) []onceWrapper {
	var out []onceWrapper
	ssau.AllInstrs(fn, func(in ssa.Instruction) {
		c, ok := in.(*ssa.Call)
		if !ok || c.Common().IsInvoke() {
			return
		}
		h := c.Common().StaticCallee()
		if h == nil || h.Blocks == nil || funcPkgPath(h) != funcPkgPath(fn) {
			return
		}
		for j, a := range c.Common().Args {
			mc, isMC := a.(*ssa.MakeClosure)
			if !isMC {
				continue
			}
			body, _ := mc.Fn.(*ssa.Function)
			if body == nil || body.Blocks == nil {
				continue
			}
			out = append(out, onceWrapper{call: c, helper: h, body: body, closure: mc, once: callsParamOnce(h, j)})
		}
	})
	return out
}

// freeProv: the provenance name, inside the literal, of the outer function's value v (captured through a cell).
func freeProv(w onceWrapper, v ssa.Value) string {
	for i, b := range w.closure.Bindings {
		if i >= len(w.body.FreeVars) {
			break
		}
		if b == v {
			return "free:" + w.body.FreeVars[i].Name()
		}
		if cell, ok := b.(*ssa.Alloc); ok {
			for _, r := range ssau.Refs(cell) {
				if s, isS := r.(*ssa.Store); isS && s.Addr == ssa.Value(cell) && s.Val == v {
					return "free:" + w.body.FreeVars[i].Name()
				}
			}
		}
	}
	return ""
}

func containsCallTo(k *checker, fn, target *ssa.Function) *ssa.Call {
	var hit *ssa.Call
	ssau.AllInstrs(fn, func(in ssa.Instruction) {
		if c, ok := in.(*ssa.Call); ok {
			if cal := flow.Callee(c); cal != nil && k.c.P.SSA.FuncValue(cal) == target {
				hit = c
			}
		}
	})
	return hit
}

func (k *checker) save1On(fn, schemaFn *ssa.Function, name string) {
	rep := k.rep(fn.Pos())
	body := fn
	recv := fn.Params[0].Name()
	var wrap *onceWrapper
	// the bytes
	bytesCall := containsCallTo(k, fn, schemaFn)
	if bytesCall == nil {
		// the body may live in a function literal run by a lock / recover wrapper
		for _, w := range k.wrappers(fn) {
			if c := containsCallTo(k, w.body, schemaFn); c != nil {
				w := w
				wrap, body, bytesCall = &w, w.body, c
				if fp := freeProv(w, fn.Params[0]); fp != "" {
					recv = fp
				}
			}
		}
	}
	if bytesCall == nil {
		rep.violate("SAVE-1", name+"#bytes", fn.Pos(), "Save does not obtain the bytes from App.Schema()")
		return
	}
	k.save1Writer(rep, body, name, func(fi *fnInfo, v ssa.Value) bool {
		return flow.StripAll(v) == ssa.Value(bytesCall) || fi.prov(v) == fi.prov(bytesCall)
	},
		func(fi *fnInfo, v ssa.Value) bool {
			// the save path: a string field of the saver itself (recv.f, recv.f.g) — not something computed from it
			if b, ok := v.Type().Underlying().(*types.Basic); !ok || b.Info()&types.IsString == 0 {
				return false
			}
			p := fi.prov(v)
			if !strings.HasPrefix(p, recv+".") {
				return false
			}
			for _, r := range p[len(recv)+1:] {
				if !(r == '.' || r == '_' || r >= '0' && r <= '9' || r >= 'a' && r <= 'z' || r >= 'A' && r <= 'Z') {
					return false
				}
			}
			return true
		}, 1)
	if wrap == nil {
		k.save2(rep, fn, name, fn.Params[0], recv)
		return
	}
	// the literal always writes, the helper always runs the literal, Save always calls the helper
	if !wrap.once {
		rep.violate("SAVE-2", name+"#always-writes", ssau.PosOf(wrap.call),
			"the saving code lives in a function literal handed to "+wrap.helper.Name()+"(), which does not call it exactly once on every path (conditional, repeated, stored or handed on): the write may not happen")
		return
	}
	k.save2(rep, body, name, nil, recv)
	k.noteSaveAct(fn, wrap.call)
	k.save2(rep, fn, name, fn.Params[0], fn.Params[0].Name())
}

func (k *checker) noteSaveAct(fn *ssa.Function, in ssa.Instruction) {
	if k.saveActs == nil {
		k.saveActs = map[*ssa.Function][]ssa.Instruction{}
	}
	k.saveActs[fn] = append(k.saveActs[fn], in)
}

// SAVE-2: Save always writes. Every path from the entry of Save to a normal return puts
// the bytes into the file; the only skips accepted are "nothing to save to": the nil test
// of the saver itself and the emptiness test of its own path field. A return guarded by
// anything else — in particular a comparison of version counters ("unchanged since the
// last save") — skips edits that do not move that counter (create/delete node, metadata,
// parameter name/description) and is a violation.
func (k *checker) save2(rep reporter, fn *ssa.Function, name string, recv ssa.Value, recvProv string) {
	acts := k.saveActs[fn]
	construct := name + "#always-writes"
	if len(acts) == 0 {
		rep.undecide("SAVE-2", construct, fn.Pos(), "the write was not located (see SAVE-1)")
		return
	}
	fi := newFnInfo(fn)
	cut := map[flow.Edge]bool{}
	for _, b := range fn.Blocks {
		ifi := flow.IfOf(b)
		if ifi == nil {
			continue
		}
		bo, eqK, ok := equalEdgeOf(ifi.Cond)
		if !ok {
			continue
		}
		for _, sw := range [][2]ssa.Value{{bo.X, bo.Y}, {bo.Y, bo.X}} {
			x, y := sw[0], sw[1]
			// gs == nil
			if ((recv != nil && x == recv) || fi.prov(x) == recvProv) && flow.IsNilConst(y) {
				cut[flow.Edge{From: b, K: eqK}] = true
			}
			// gs.savePath == ""  /  len(gs.savePath) == 0
			if isZeroConst(y) {
				v := x
				if c, isC := x.(*ssa.Call); isC && ssau.Builtin(c) == "len" {
					v = c.Call.Args[0]
				}
				if isStr(v.Type()) && strings.HasPrefix(fi.prov(v), recvProv+".") && !strings.ContainsAny(fi.prov(v), "()[]{}") {
					cut[flow.Edge{From: b, K: eqK}] = true
				}
			}
		}
	}
	isAct := func(in ssa.Instruction) bool {
		for _, a := range acts {
			if a == in {
				return true
			}
		}
		return false
	}
	for _, b := range fn.Blocks {
		if len(b.Instrs) == 0 {
			continue
		}
		r, ok := b.Instrs[len(b.Instrs)-1].(*ssa.Return)
		if !ok || isErrorReturn(r) || b == fn.Recover {
			continue
		}
		if flow.PathAvoiding(fn, nil, r, isAct, cut) {
			rep.violate("SAVE-2", construct, ssau.PosOf(r),
				"Save can return normally without writing the file, on a condition other than 'no saver / no path configured' (e.g. a model-version or dirty-flag comparison): edits that do not move that condition — creating or deleting a node, metadata, a parameter's name or description — are never written, and the file on disk is not the current graph",
				fmt.Sprintf("%d accepted skip edge(s) (nil saver / empty path)", len(cut)))
			return
		}
	}
	rep.hold("SAVE-2", construct, fn.Pos(), fmt.Sprintf("every path to a normal return writes the file; %d accepted skip edge(s) (nil saver / empty path)", len(cut)))
}

// SAVE-3: every save uses a fresh encoder. The jbtf encoder accumulates buffers and buffer
// views; the encoder handed to EncodeToAppSchema and asked for the bytes (ToPgtf) must be
// created by the saving function itself (new / composite literal, or the result of a call),
// never loaded from a field of a longer-lived object or from a package-level variable —
// otherwise the payloads of earlier saves stay in the file and it grows with every save.
func (k *checker) save3() {
	fn := k.fn("generator", "App.Schema")
	if fn == nil {
		return
	}
	k.save3On(fn, k.c.P.FuncName(fn))
}

func (k *checker) save3On(fn *ssa.Function, name string) {
	rep := k.rep(fn.Pos())
	construct := name + "#fresh-encoder"
	isEnc := func(t types.Type) bool {
		p, ok := t.Underlying().(*types.Pointer)
		return ok && isNamedType(p.Elem(), jbtfPath, "Encoder")
	}
	var uses []ssa.Value
	var at []ssa.Instruction
	ssau.AllInstrs(fn, func(in ssa.Instruction) {
		c, ok := in.(*ssa.Call)
		if !ok {
			return
		}
		for _, a := range c.Common().Args {
			if isEnc(a.Type()) {
				uses = append(uses, a)
				at = append(at, c)
			}
		}
	})
	if len(uses) == 0 {
		// the saving code may live in a function literal run by a once-wrapper
		for _, w := range k.wrappers(fn) {
			has := false
			ssau.AllInstrs(w.body, func(in ssa.Instruction) {
				if c, ok := in.(*ssa.Call); ok {
					for _, a := range c.Common().Args {
						if isEnc(a.Type()) {
							has = true
						}
					}
				}
			})
			if has && w.once {
				k.save3On(w.body, name)
				return
			}
		}
		rep.undecide("SAVE-3", construct, fn.Pos(), "no *jbtf.Encoder is passed to any call in the saving function")
		return
	}
	// fresh: every origin of the value (through phis and local variables) is an allocation or a call result of this function
	var stale func(v ssa.Value, seen map[ssa.Value]bool) string
	stale = func(v ssa.Value, seen map[ssa.Value]bool) string {
		if seen[v] {
			return ""
		}
		seen[v] = true
		switch x := flow.StripAll(v).(type) {
		case *ssa.Alloc:
			return ""
		case *ssa.Call:
			return ""
		case *ssa.Phi:
			for _, e := range x.Edges {
				if why := stale(e, seen); why != "" {
					return why
				}
			}
			return ""
		case *ssa.UnOp:
			if al, ok := x.X.(*ssa.Alloc); ok {
				// a local variable holding the encoder
				for _, r := range ssau.Refs(al) {
					if s, ok := r.(*ssa.Store); ok && s.Addr == ssa.Value(al) {
						if why := stale(s.Val, seen); why != "" {
							return why
						}
					}
				}
				return ""
			}
			if fv, _ := flow.FieldBase(x.X); fv != nil {
				return "loaded from field " + fv.Name() + " of a longer-lived object"
			}
			if g, ok := x.X.(*ssa.Global); ok {
				return "loaded from the package-level variable " + g.Name()
			}
			return "loaded from memory that outlives the call"
		case *ssa.FreeVar:
			return "captured from the enclosing function (not followed)"
		case *ssa.Parameter:
			return "received as parameter " + x.Name() + " (its freshness is the caller's business)"
		case *ssa.Global:
			return "the package-level variable " + x.Name()
		}
		return "of unknown origin"
	}
	for i, u := range uses {
		if why := stale(u, map[ssa.Value]bool{}); why != "" {
			if strings.HasPrefix(why, "received as parameter") || strings.HasPrefix(why, "captured from") || why == "of unknown origin" {
				rep.undecide("SAVE-3", construct, ssau.PosOf(at[i]), "the encoder is "+why)
			} else {
				rep.violate("SAVE-3", construct, ssau.PosOf(at[i]),
					"the encoder used for this save is "+why+": it still holds the buffers and buffer views of earlier saves, so every save appends to them — the file grows with each save and a freshly started application writes different bytes for the same graph")
			}
			return
		}
	}
	// one encoder for the whole save: what is filled by EncodeToAppSchema is what produces the bytes
	origin := func(v ssa.Value) ssa.Value {
		v = flow.StripAll(v)
		if ld, ok := v.(*ssa.UnOp); ok {
			return ld.X
		}
		return v
	}
	for i := 1; i < len(uses); i++ {
		if origin(uses[i]) != origin(uses[0]) {
			rep.violate("SAVE-3", construct, ssau.PosOf(at[i]), "the save uses two different encoders: the payloads collected while encoding the graph are not in the encoder that produces the file")
			return
		}
	}
	rep.hold("SAVE-3", construct, fn.Pos(), fmt.Sprintf("%d use(s) of one encoder created by this call of the saving function", len(uses)))
}

// save1Writer analyses the function that performs the file write. isBytes recognises the
// schema bytes, isPath a value deriving from the saver's path. depth allows one helper.
func (k *checker) save1Writer(rep reporter, fn *ssa.Function, name string, isBytes func(*fnInfo, ssa.Value) bool, isPathFi func(*fnInfo, ssa.Value) bool, depth int) {
	fi := newFnInfo(fn)
	isPath := func(v ssa.Value) bool { return isPathFi(fi, v) }
	truncFlag, okT := k.osConst("O_TRUNC")
	exclFlag, _ := k.osConst("O_EXCL")

	// helper hand-off: the bytes are passed to a repository function that does the writing
	if depth > 0 {
		var hand *ssa.Call
		var bi, pi = -1, -1
		ssau.AllInstrs(fn, func(in ssa.Instruction) {
			c, ok := in.(*ssa.Call)
			if !ok || c.Common().IsInvoke() {
				return
			}
			g := c.Common().StaticCallee()
			if g == nil || g.Blocks == nil || !strings.HasPrefix(funcPkgPath(g), "github.com/EliCDavis/polyform") {
				return
			}
			for j, a := range c.Common().Args {
				if isBytes(fi, a) && j < len(g.Params) {
					hand, bi = c, j
				}
			}
			if hand == c {
				for j, a := range c.Common().Args {
					if j != bi && isPath(a) {
						if _, isStr := a.Type().Underlying().(*types.Basic); isStr {
							pi = j
						}
					}
				}
			}
		})
		if hand != nil {
			k.noteSaveAct(fn, hand)
			g := hand.Common().StaticCallee()
			// the helper's error must be handled by the caller
			if sig := g.Signature; sig.Results().Len() > 0 && types.Identical(sig.Results().At(sig.Results().Len()-1).Type(), errType) {
				var ev ssa.Value = hand
				if sig.Results().Len() > 1 {
					ev = nil
					for _, r := range ssau.Refs(hand) {
						if ex, ok := r.(*ssa.Extract); ok && ex.Index == sig.Results().Len()-1 {
							ev = ex
						}
					}
				}
				if ev == nil || !(errorChecked(fn, ev) || isReturned(fn, ev)) {
					rep.violate("SAVE-1", name+"#errors", ssau.PosOf(hand), "the error of the writing helper is dropped: a failed save is reported as written")
				}
			}
			k.save1Writer(rep, g, name, func(_ *fnInfo, v ssa.Value) bool { return flow.StripAll(v) == ssa.Value(g.Params[bi]) },
				func(gfi *fnInfo, v ssa.Value) bool {
					return pi >= 0 && gfi.prov(v) == g.Params[pi].Name()
				}, depth-1)
			return
		}
	}

	type fileSrc struct {
		call    *ssa.Call // os.Create / os.OpenFile / os.CreateTemp
		file    ssa.Value // the *os.File value
		fresh   bool      // content starts empty (truncated or new)
		atPath  bool      // opened at the save path
		pathArg ssa.Value
		why     string
	}
	var files []fileSrc
	var problems []string
	var writes []*ssa.Call
	var sinks []*ssa.Call // calls whose error must be checked
	nBytesWrites := 0
	replaced := false

	fileOf := func(c *ssa.Call) ssa.Value {
		for _, r := range ssau.Refs(c) {
			if ex, ok := r.(*ssa.Extract); ok && ex.Index == 0 {
				return ex
			}
		}
		return nil
	}
	ssau.AllInstrs(fn, func(in ssa.Instruction) {
		c, ok := in.(*ssa.Call)
		if !ok {
			return
		}
		switch {
		case isOS(c, "WriteFile") && len(c.Call.Args) == 3:
			sinks = append(sinks, c)
			if !isBytes(fi, c.Call.Args[1]) {
				problems = append(problems, "os.WriteFile does not receive the Schema() bytes themselves")
				return
			}
			nBytesWrites++
			if isPath(c.Call.Args[0]) {
				replaced = true // WriteFile truncates
			} else {
				// temp file written with WriteFile: fresh by construction, needs a rename
				files = append(files, fileSrc{call: c, fresh: true, pathArg: c.Call.Args[0], why: "os.WriteFile"})
			}
			writes = append(writes, c)
		case isOS(c, "Create") && len(c.Call.Args) == 1:
			sinks = append(sinks, c)
			files = append(files, fileSrc{call: c, file: fileOf(c), fresh: true, atPath: isPath(c.Call.Args[0]), pathArg: c.Call.Args[0], why: "os.Create truncates"})
		case isOS(c, "CreateTemp"):
			sinks = append(sinks, c)
			files = append(files, fileSrc{call: c, file: fileOf(c), fresh: true, why: "os.CreateTemp creates a new file"})
		case isOS(c, "OpenFile") && len(c.Call.Args) == 3:
			sinks = append(sinks, c)
			fs := fileSrc{call: c, file: fileOf(c), atPath: isPath(c.Call.Args[0]), pathArg: c.Call.Args[0]}
			if fl, isC := ssau.ConstInt(c.Call.Args[1]); isC && okT {
				if fl&truncFlag != 0 {
					fs.fresh, fs.why = true, "O_TRUNC in the constant flag set"
				} else if exclFlag != 0 && fl&exclFlag != 0 {
					fs.fresh, fs.why = true, "O_EXCL: the file is new"
				} else {
					fs.why = fmt.Sprintf("flags %#x contain neither O_TRUNC (%#x) nor O_EXCL", fl, truncFlag)
				}
			} else {
				fs.why = "flags are not a compile-time constant"
				problems = append(problems, "os.OpenFile flags are not a constant expression (cannot tell whether the file is truncated)")
			}
			files = append(files, fs)
		case isFileMethod(c, "Write", "WriteString", "WriteAt"):
			sinks = append(sinks, c)
			writes = append(writes, c)
			if len(c.Call.Args) >= 2 && isBytes(fi, c.Call.Args[1]) {
				nBytesWrites++
			} else if len(c.Call.Args) >= 2 {
				problems = append(problems, "a file write does not receive the Schema() bytes themselves (sliced, converted or chunked)")
			}
		case isOS(c, "Rename"):
			sinks = append(sinks, c)
		}
	})
	for _, w := range writes {
		k.noteSaveAct(fn, w)
	}
	if nBytesWrites == 0 && len(problems) == 0 {
		rep.undecide("SAVE-1", name+"#bytes", fn.Pos(), "no os.WriteFile / (*os.File).Write of the Schema() bytes found (writer idiom not recognised)")
		return
	}
	if nBytesWrites > 1 {
		problems = append(problems, "the bytes are written more than once")
	}

	everyPath := func(action func(ssa.Instruction) bool) bool {
		for _, b := range fn.Blocks {
			if len(b.Instrs) == 0 {
				continue
			}
			if r, ok := b.Instrs[len(b.Instrs)-1].(*ssa.Return); ok && !isErrorReturn(r) {
				// only paths that actually wrote
				wrote := false
				for _, w := range writes {
					if ssau.CanFollow(w, r) {
						wrote = true
					}
				}
				if !wrote {
					continue
				}
				for _, w := range writes {
					if flow.PathAvoiding(fn, w, r, action, nil) {
						return false
					}
				}
			}
		}
		return true
	}
	truncates := func(in ssa.Instruction) bool {
		c, ok := in.(*ssa.Call)
		if !ok {
			return false
		}
		if isFileMethod(c, "Truncate") {
			return true
		}
		return isOS(c, "Truncate") && len(c.Call.Args) > 0 && isPath(c.Call.Args[0])
	}
	truncatedBefore := func(w *ssa.Call) bool {
		// a Truncate dominating the write
		hit := false
		ssau.AllInstrs(fn, func(in ssa.Instruction) {
			if truncates(in) && ssau.Before(in, w) {
				hit = true
			}
		})
		return hit
	}

	// how is the previous content replaced?
	how := ""
	if replaced {
		how = "os.WriteFile on the save path"
	}
	for _, w := range writes {
		if replaced || isOS(w, "WriteFile") && how != "" {
			break
		}
		// which file does this write go to?
		var fs *fileSrc
		for i := range files {
			f := &files[i]
			if f.call == w {
				fs = f
			}
			if f.file != nil && len(w.Call.Args) > 0 && derives(w.Call.Args[0], func(y ssa.Value) bool { return y == f.file }) {
				fs = f
			}
		}
		if fs == nil {
			problems = append(problems, "the file written to is not opened in this function (idiom not recognised)")
			continue
		}
		switch {
		case fs.atPath && fs.fresh:
			replaced, how = true, fs.why
		case fs.atPath:
			if truncatedBefore(w) || everyPath(truncates) {
				replaced, how = true, "explicit Truncate on every path"
			} else {
				problems = append(problems, "the save file is opened without truncation ("+fs.why+") and never truncated: when the graph gets shorter the tail of the previous, longer save stays in the file and the result is not the Schema() bytes (invalid JSON)")
			}
		default:
			// a side file: must start empty and be renamed onto the save path on every path
			renamed := func(in ssa.Instruction) bool {
				c, ok := in.(*ssa.Call)
				if !ok || !isOS(c, "Rename") || len(c.Call.Args) != 2 || !isPath(c.Call.Args[1]) {
					return false
				}
				src := c.Call.Args[0]
				if fs.pathArg != nil && fi.prov(src) == fi.prov(fs.pathArg) {
					return true
				}
				// f.Name()
				return fs.file != nil && derives(src, func(y ssa.Value) bool { return y == fs.file })
			}
			switch {
			case !fs.fresh && !truncatedBefore(w):
				problems = append(problems, "the side file is opened without truncation ("+fs.why+"): it can keep the tail of an earlier, longer save")
			case !everyPath(renamed):
				problems = append(problems, "the bytes are written to a side file that is not renamed onto the save path on every path: the save file keeps its old content")
			default:
				replaced, how = true, "fresh side file ("+fs.why+") renamed onto the save path (rename replaces the destination)"
			}
		}
	}
	if len(problems) > 0 {
		rep.violate("SAVE-1", name+"#replace", fn.Pos(), strings.Join(problems, "; "))
	} else if replaced {
		rep.hold("SAVE-1", name+"#replace", fn.Pos(), "the Schema() bytes replace the previous file content: "+how)
	} else {
		rep.undecide("SAVE-1", name+"#replace", fn.Pos(), "could not establish how the previous content is replaced")
	}

	// errors
	bad := false
	for _, c := range sinks {
		sig := c.Common().Signature()
		n := sig.Results().Len()
		if n == 0 || !types.Identical(sig.Results().At(n-1).Type(), errType) {
			continue
		}
		var ev ssa.Value = c
		if n > 1 {
			ev = nil
			for _, r := range ssau.Refs(c) {
				if ex, ok := r.(*ssa.Extract); ok && ex.Index == n-1 {
					ev = ex
				}
			}
		}
		if ev == nil || !(errorChecked(fn, ev) || isReturned(fn, ev) || storedAndChecked(fn, ev)) {
			bad = true
			rep.violate("SAVE-1", name+"#errors", ssau.PosOf(c), "the error of "+calleeName(c)+" is dropped: a failed save is reported as written")
		}
	}
	if !bad {
		rep.hold("SAVE-1", name+"#errors", fn.Pos(), fmt.Sprintf("%d open/write/rename call(s), every error checked", len(sinks)))
	}
}

// storedAndChecked: `if _, err = f.Write(b); err != nil` with err a variable assigned
// several times: the error goes through a local cell; follow the store and the loads.
func storedAndChecked(fn *ssa.Function, e ssa.Value) bool {
	for _, r := range ssau.Refs(e) {
		s, ok := r.(*ssa.Store)
		if !ok || s.Val != e {
			continue
		}
		cell, ok := s.Addr.(*ssa.Alloc)
		if !ok {
			continue
		}
		for _, rr := range ssau.Refs(cell) {
			if ld, ok := rr.(*ssa.UnOp); ok && ssau.CanFollow(s, ld) && errorChecked(fn, ld) {
				return true
			}
		}
	}
	// a phi of error values tested once
	for _, r := range ssau.Refs(e) {
		if ph, ok := r.(*ssa.Phi); ok && errorChecked(fn, ph) {
			return true
		}
	}
	return false
}
