package c12

import (
	"fmt"
	"go/types"
	"reflect"
	"sort"
	"strings"

	"golang.org/x/tools/go/ssa"

	"polycheck/props/c11/flow"
	"polycheck/ssau"
)

// ---------------------------------------------------------------------------
// wire visibility (beyond DESIGN.md; necessary for PERSIST-1/5 to mean anything):
// a field that is assigned in ToJSON / App.Schema reaches the file only if
// encoding/json can see it — exported, not tagged "-", and not sharing its wire
// name with a sibling (encoding/json silently drops both of two fields with the
// same name at the same depth).

func wireName(f *types.Var, tag string) (name string, skip bool) {
	name = f.Name()
	if t, ok := reflect.StructTag(tag).Lookup("json"); ok {
		parts := strings.Split(t, ",")
		if parts[0] == "-" && len(parts) == 1 {
			return "", true
		}
		if parts[0] != "" {
			name = parts[0]
		}
	}
	return name, false
}

// wireStruct checks one struct that is written to / read from the file. top: fields must be exported.
func (k *checker) wireStruct(rep reporter, rule, key string, st *types.Struct, top bool) int {
	seen := map[string]string{}
	n := 0
	for i := 0; i < st.NumFields(); i++ {
		f := st.Field(i)
		construct := key + "#wire." + f.Name()
		if !f.Exported() {
			if top && !f.Embedded() {
				rep.violate(rule, construct, f.Pos(), "unexported field of a persisted schema struct: encoding/json never writes or reads it, whatever ToJSON/FromJSON assign")
			}
			continue
		}
		n++
		name, skip := wireName(f, st.Tag(i))
		if skip {
			rep.violate(rule, construct, f.Pos(), `field is tagged json:"-": it is never written to the file`)
			continue
		}
		if other, dup := seen[name]; dup {
			rep.violate(rule, construct, f.Pos(), fmt.Sprintf("wire name %q is shared with field %s: encoding/json drops both fields, so neither is saved", name, other))
			continue
		}
		seen[name] = f.Name()
		rep.hold(rule, construct, f.Pos(), "exported, wire name "+name)
	}
	return n
}

func (k *checker) wireAll(pairs []pairType) {
	// schema structs of the serialisation pairs
	for _, pt := range pairs {
		rep := k.rep(pt.toFn.Pos())
		var st *types.Struct
		var name string
		if _, al, _ := k.schemaObject(pt); al != nil {
			if s, ok := schemaStructOf(al.Type().(*types.Pointer).Elem(), pt.named.Obj().Pkg(), pt.named); ok {
				st = s
				name = relType(al.Type().(*types.Pointer).Elem())
				if n := ssau.NamedOf(al.Type().(*types.Pointer).Elem()); n != nil {
					name = k.rel(n.Obj().Pkg().Path()) + "." + n.Origin().Obj().Name()
				}
			}
		}
		if st != nil {
			k.wireStruct(rep, "PERSIST-1", name, st, true)
		}
	}
	// schema.App and the structs reachable from it inside package generator/schema
	sp := k.c.P.Pkg("generator/schema")
	if sp == nil {
		return
	}
	tn, _ := sp.Types.Scope().Lookup("App").(*types.TypeName)
	if tn == nil {
		return
	}
	seen := map[*types.Named]bool{}
	var queue []*types.Named
	if n, ok := tn.Type().(*types.Named); ok {
		queue = append(queue, n)
	}
	var walkT func(t types.Type)
	walkT = func(t types.Type) {
		switch x := types.Unalias(t).(type) {
		case *types.Named:
			if x.Obj().Pkg() == sp.Types && !seen[x] {
				if _, ok := x.Underlying().(*types.Struct); ok {
					queue = append(queue, x)
				}
			}
		case *types.Pointer:
			walkT(x.Elem())
		case *types.Slice:
			walkT(x.Elem())
		case *types.Array:
			walkT(x.Elem())
		case *types.Map:
			walkT(x.Elem())
		}
	}
	var order []*types.Named
	for len(queue) > 0 {
		n := queue[0]
		queue = queue[1:]
		if seen[n] {
			continue
		}
		seen[n] = true
		order = append(order, n)
		st := n.Underlying().(*types.Struct)
		for i := 0; i < st.NumFields(); i++ {
			walkT(st.Field(i).Type())
		}
	}
	sort.Slice(order, func(i, j int) bool { return order[i].Obj().Name() < order[j].Obj().Name() })
	for _, n := range order {
		k.wireStruct(k.repo, "PERSIST-5", "generator/schema."+n.Obj().Name(), n.Underlying().(*types.Struct), true)
	}
}

// ---------------------------------------------------------------------------
// metadata is persisted verbatim: NestedSyncMap.OverwriteData keeps the map it is
// given, Data() returns the map it keeps.

func (k *checker) metadataVerbatim() {
	over := k.fn("generator/sync", "NestedSyncMap.OverwriteData")
	data := k.fn("generator/sync", "NestedSyncMap.Data")
	if over == nil || data == nil {
		return
	}
	rep := k.repo
	om := objModel{}
	// OverwriteData: some feasible store of the parameter into a map-typed field of the receiver
	var field *types.Var
	if len(over.Params) == 2 {
		ssau.AllInstrs(over, func(in ssa.Instruction) {
			s, ok := in.(*ssa.Store)
			if !ok {
				return
			}
			fa, ok := s.Addr.(*ssa.FieldAddr)
			if !ok || fa.X != ssa.Value(over.Params[0]) {
				return
			}
			if flow.StripAll(s.Val) == ssa.Value(over.Params[1]) && om.deadBy(s) == nil {
				field = ssau.FieldOf(fa)
			}
		})
	}
	name := k.c.P.FuncName(over)
	if field == nil {
		rep.violate("PERSIST-5", name, over.Pos(), "OverwriteData never keeps the map it is given: the file's metadata is dropped on load")
	} else {
		rep.hold("PERSIST-5", name, over.Pos(), "keeps its argument in field "+field.Name())
	}
	// Data(): returns that field
	name = k.c.P.FuncName(data)
	ok := field != nil
	sites := flow.ReturnSites(data, 0)
	fi := newFnInfo(data)
	for _, s := range sites {
		// (with a deferred Unlock the result travels through a spill slot; provenance sees through it)
		if field == nil || fi.prov(s.Val) != data.Params[0].Name()+"."+field.Name() {
			ok = false
		}
	}
	if ok && len(sites) > 0 {
		rep.hold("PERSIST-5", name, data.Pos(), "returns the kept map itself")
	} else {
		rep.violate("PERSIST-5", name, data.Pos(), "Data() does not return the map OverwriteData keeps: saved metadata differs from what was loaded / set")
	}
}

// ---------------------------------------------------------------------------
// the saved node Type is the key under which the factory registered the type

func (k *checker) typeKeyCallees() map[*types.Func]bool {
	out := map[*types.Func]bool{}
	reg := k.c.P.Func("refutil", "TypeFactory.RegisterType")
	if reg == nil || reg.Blocks == nil {
		return out
	}
	ssau.AllInstrs(reg, func(in ssa.Instruction) {
		mu, ok := in.(*ssa.MapUpdate)
		if !ok {
			return
		}
		for _, v := range collect(mu.Key, func(y ssa.Value) bool { _, isC := y.(*ssa.Call); return isC }) {
			if f := flow.Callee(v.(*ssa.Call)); f != nil {
				out[f] = true
			}
		}
	})
	return out
}
