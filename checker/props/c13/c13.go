// Package c13: concurrent parameter updates and artifact reads are linearizable
// (mutual-exclusion argument, DESIGN.md §3.7 CONC-1/CONC-4, §4 C13).
package c13

import (
	"fmt"
	"go/types"
	"os"
	"sort"
	"strings"

	"golang.org/x/tools/go/callgraph"
	"golang.org/x/tools/go/callgraph/cha"
	"golang.org/x/tools/go/callgraph/vta"
	"golang.org/x/tools/go/ssa"
	"golang.org/x/tools/go/ssa/ssautil"

	"polycheck/load"
	"polycheck/ob"
	"polycheck/props"
	"polycheck/props/c13/lockset"
	"polycheck/ssau"
)

func init() {
	props.Register(&props.Prop{
		ID: "C13",
		Explanation: "Mutual exclusion of graph.Instance's three concurrent entry points, decided on source. CONC-1: inside UpdateParameter, " +
			"ParameterData and Artifact (following static calls) every evaluating call (Parameter.ApplyMessage / ToMessage, NodeOutput.Value) " +
			"and every access to an Instance field that the region writes, and the node-table lookup, happens while a mutex field of the same " +
			"receiver is certainly held (must-hold lockset over the CFG; defer Unlock and explicit unlocks recognised; go/defer bodies are not " +
			"covered by the caller's lock). CONC-4: the three entry points lock the same mutex field in exclusive mode, the lock is released on " +
			"every exit and paired with its deferred Unlock before anything can panic; who-may-call: every other non-test, non-example call " +
			"site of the three evaluating calls is inside a held region or only reachable (CHA call graph, VTA in the thorough tier) through " +
			"held call sites; the Instance (and so its mutex) is never copied by value. One critical section per operation on one mutex is " +
			"the standard sufficient condition for linearizability with real-time order. Not decided: immutability of the artifact after " +
			"unlock, the other server endpoints (listed as notes), fairness/liveness.",
		Controls: controls,
		Run:      run,
	})
}

const graphRel = "generator/graph"

var entryNames = []string{"UpdateParameter", "ParameterData", "Artifact"}

// what each entry point must be seen to do (anchor sanity: if the entry no longer
// performs its evaluating call the anchor table is outdated and the check must fail).
var entryMust = map[string]string{
	"UpdateParameter": evApply,
	"ParameterData":   evToMsg,
	"Artifact":        evValueArt,
}

const (
	evApply    = "call Parameter.ApplyMessage"
	evToMsg    = "call Parameter.ToMessage"
	evValueArt = "call NodeOutput[Artifact].Value"
	evValueAny = "call NodeOutput.Value"
)

func controls() map[string]string {
	return map[string]string{
		"generator/graph/zz_verif_control_c13.go": `package graph

// must fire: lookup and update outside the critical section (lock narrowed)
func (i *Instance) verifControlC13BadNarrow(nodeId string, data []byte) (bool, error) {
	i.producerLock.Lock()
	p := i.Parameter(nodeId)
	i.producerLock.Unlock()
	return p.ApplyMessage(data)
}

// must fire: a path leaves the function with the mutex held
func (i *Instance) verifControlC13BadLeak(nodeId string) []byte {
	i.producerLock.Lock()
	if nodeId == "" {
		return nil
	}
	out := i.Parameter(nodeId).ToMessage()
	i.producerLock.Unlock()
	return out
}

// must fire (CONC-5): explicit unlock on every normal exit, but a panic in the evaluation keeps the mutex
func (i *Instance) verifControlC13BadExplicit(nodeId string) []byte {
	i.producerLock.Lock()
	if nodeId == "" {
		i.producerLock.Unlock()
		return nil
	}
	out := i.verifControlC13GoodHelper(nodeId)
	i.producerLock.Unlock()
	return out
}

// must stay silent: deferred function literal unlocks, early return, evaluation through a helper
func (i *Instance) verifControlC13Good(nodeId string) []byte {
	i.producerLock.Lock()
	defer func() {
		i.producerLock.Unlock()
	}()
	if nodeId == "" {
		return nil
	}
	return i.verifControlC13GoodHelper(nodeId)
}

func (i *Instance) verifControlC13WithLock(f func()) {
	i.producerLock.Lock()
	defer i.producerLock.Unlock()
	f()
}

// must stay silent: critical section provided by a helper that defers inside
func (i *Instance) verifControlC13GoodWrapped(nodeId string) []byte {
	var out []byte
	i.verifControlC13WithLock(func() {
		out = i.Parameter(nodeId).ToMessage()
	})
	return out
}

func (i *Instance) verifControlC13GoodHelper(nodeId string) []byte {
	return i.Parameter(nodeId).ToMessage()
}
`,
		"generator/parameter/zz_verif_control_c13.go": `package parameter

import "encoding/json"

// must fire FRESH-1: the message is appended onto the buffer of the value it replaces
type verifControlC13BadReuse struct{ File }

func (pn *verifControlC13BadReuse) ApplyMessage(msg []byte) (bool, error) {
	pn.version++
	pn.appliedProfile = append(pn.appliedProfile[:0], msg...)
	return true, nil
}

// must fire FRESH-1: decode on top of a copy of the current value
type verifControlC13BadDecode struct {
	File
	cur []float64
}

func (pn *verifControlC13BadDecode) ApplyMessage(msg []byte) (bool, error) {
	val := pn.cur
	if err := json.Unmarshal(msg, &val); err != nil {
		return false, err
	}
	pn.cur = val
	return true, nil
}

// must stay silent: fresh copy of the message, decode into a new object, helper that stores it
type verifControlC13GoodFresh struct {
	File
	cur *[]float64
}

func (pn *verifControlC13GoodFresh) ApplyMessage(msg []byte) (bool, error) {
	p := new([]float64)
	if err := json.Unmarshal(msg, p); err != nil {
		return false, err
	}
	pn.verifControlC13Store(p)
	pn.appliedProfile = append([]byte(nil), msg...)
	return true, nil
}

func (pn *verifControlC13GoodFresh) verifControlC13Store(p *[]float64) {
	pn.version++
	pn.cur = p
}

// must fire FRESH-1 (read side): the message is encoded into a buffer the parameter keeps
type verifControlC13BadScratch struct {
	File
	scratch []byte
}

func (pn *verifControlC13BadScratch) ToMessage() []byte {
	pn.scratch = append(pn.scratch[:0], pn.appliedProfile...)
	return pn.scratch
}

// must stay silent: a copy made for this reader
type verifControlC13GoodCopy struct{ File }

func (pn *verifControlC13GoodCopy) ToMessage() []byte {
	out, err := json.Marshal(pn.appliedProfile)
	if err != nil {
		return append([]byte(nil), pn.appliedProfile...)
	}
	return out
}

// must fire VIS-1: success return that skips the store, compared against a stale notion of the value
type verifControlC13BadSkip struct{ File }

func (pn *verifControlC13BadSkip) ApplyMessage(msg []byte) (bool, error) {
	if len(msg) == len(pn.DefaultValue) {
		return false, nil
	}
	pn.version++
	pn.appliedProfile = append([]byte(nil), msg...)
	return true, nil
}
`,
		"nodes/zz_verif_control_c13.go": `package nodes

// must fire CONC-9: evaluation fanned out from a Value() implementation of package nodes
type verifControlC13Par[T any] struct{ in []NodeOutput[T] }

func (v verifControlC13Par[T]) Value() T {
	out := make([]T, len(v.in))
	done := make(chan bool)
	for i, n := range v.in {
		go func(i int, n NodeOutput[T]) {
			out[i] = n.Value()
			done <- true
		}(i, n)
	}
	for range v.in {
		<-done
	}
	return out[0]
}
`,
		"nodes/zz_verif_control2_c13.go": `package nodes

// must fire CONC-10: the node is marked processed in a defer
type verifControlC13Eager[T any, G Processor[T]] struct {
	Data    G
	value   T
	version int
}

func (v *verifControlC13Eager[T, G]) process() {
	defer func() { v.version++ }()
	v.value, _ = v.Data.Process()
}
`,
		"generator/zz_verif_control_c13.go": `package generator

import (
	"bufio"
	"fmt"
	"net/http"
	"sync"
)

// must fire CONC-6: artifact and model version come from two separate calls
func (as *AppServer) verifControlC13BadTwoReads(w http.ResponseWriter, name string) {
	artifact := as.app.graphInstance.Artifact(name)
	w.Header().Set("ETag", fmt.Sprint(as.app.graphInstance.ModelVersion()))
	artifact.Write(w)
}

type verifControlC13Cache struct {
	slots map[string][]byte
}

var verifControlC13Shared = &verifControlC13Cache{slots: map[string][]byte{}}

// must fire CONC-8: the response is served from a slot other requests fill
func (as *AppServer) verifControlC13BadShared(w http.ResponseWriter, name string) {
	if data, ok := verifControlC13Shared.slots[name]; ok {
		w.Write(data)
		return
	}
	artifact := as.app.graphInstance.Artifact(name)
	verifControlC13Shared.slots[name] = []byte(artifact.Mime())
	w.Write(verifControlC13Shared.slots[name])
}

type verifControlC13Out struct {
	wr   *bufio.Writer
	last map[string][]byte
}

var verifControlC13Pool = sync.Pool{New: func() any { return bufio.NewWriter(nil) }}

// must fire CONC-11: one buffered writer kept on a long-lived object, Reset per request
func (as *AppServer) verifControlC13BadWriter(o *verifControlC13Out, w http.ResponseWriter, name string) {
	artifact := as.app.graphInstance.Artifact(name)
	bw := o.wr
	bw.Reset(w)
	artifact.Write(bw)
	bw.Flush()
}

// must stay silent: pooled writer, Put back after the last write
func (as *AppServer) verifControlC13GoodPool(w http.ResponseWriter, name string) {
	artifact := as.app.graphInstance.Artifact(name)
	bw := verifControlC13Pool.Get().(*bufio.Writer)
	defer verifControlC13Pool.Put(bw)
	bw.Reset(w)
	artifact.Write(bw)
	bw.Flush()
}

// must fire VIS-2: repeats are acknowledged without calling UpdateParameter
func (as *AppServer) verifControlC13BadDedup(o *verifControlC13Out, id string, body []byte) error {
	if string(o.last[id]) == string(body) {
		return nil
	}
	_, err := as.app.graphInstance.UpdateParameter(id, body)
	o.last[id] = body
	return err
}

// must stay silent: always applies
func (as *AppServer) verifControlC13GoodApply(id string, body []byte) error {
	if id == "" {
		return fmt.Errorf("no parameter id")
	}
	_, err := as.app.graphInstance.UpdateParameter(id, body)
	return err
}

// must stay silent: one call feeds the response
func (as *AppServer) verifControlC13GoodOneRead(w http.ResponseWriter, name string) {
	artifact := as.app.graphInstance.Artifact(name)
	w.Header().Set("Content-Type", artifact.Mime())
	artifact.Write(w)
}
`,
	}
}

type anchors struct {
	c          *props.Ctx
	pkg        *ssa.Package
	inst       *types.Named
	instStruct *types.Struct
	paramIface *types.Interface
	nodeOutput *types.TypeName // nodes.NodeOutput (generic interface)
	tryGet     *types.Func     // nodes.TryGetOutputValue
	artifactT  types.Type
	nodeT      types.Type
	mutexPaths map[string]bool // access paths (relative to an *Instance) that name a mutex of the Instance
	analyses   map[*ssa.Function]*lockset.Result
	cgForNotes *callgraph.Graph
	// fields of Instance written by the three entry points
	regionWritten map[*types.Var]bool
}

func run(c *props.Ctx) {
	p := c.P
	a := &anchors{c: c, mutexPaths: map[string]bool{}, analyses: map[*ssa.Function]*lockset.Result{}}
	a.pkg = p.SSAPkg(graphRel)
	if a.pkg == nil {
		c.R.Failf("anchor package %s not found", graphRel)
		return
	}
	obj := a.pkg.Pkg.Scope().Lookup("Instance")
	if obj == nil {
		c.R.Failf("anchor type %s.Instance not found", graphRel)
		return
	}
	a.inst, _ = obj.Type().(*types.Named)
	if a.inst != nil {
		a.instStruct, _ = a.inst.Underlying().(*types.Struct)
	}
	if a.instStruct == nil {
		c.R.Failf("anchor %s.Instance is not a struct type", graphRel)
		return
	}
	if po := a.pkg.Pkg.Scope().Lookup("Parameter"); po != nil {
		a.paramIface, _ = po.Type().Underlying().(*types.Interface)
	}
	if a.paramIface == nil {
		c.R.Failf("anchor interface %s.Parameter not found", graphRel)
		return
	}
	for _, m := range []string{"ApplyMessage", "ToMessage"} {
		if o, _, _ := types.LookupFieldOrMethod(a.paramIface, false, a.pkg.Pkg, m); o == nil {
			c.R.Failf("anchor method %s.Parameter.%s not found", graphRel, m)
			return
		}
	}
	np := p.Pkg("nodes")
	ap := p.Pkg("generator/artifact")
	if np == nil || ap == nil {
		c.R.Failf("anchor packages nodes / generator/artifact not found")
		return
	}
	a.nodeOutput, _ = np.Types.Scope().Lookup("NodeOutput").(*types.TypeName)
	a.tryGet, _ = np.Types.Scope().Lookup("TryGetOutputValue").(*types.Func)
	if n := np.Types.Scope().Lookup("Node"); n != nil {
		a.nodeT = n.Type()
	}
	if n := ap.Types.Scope().Lookup("Artifact"); n != nil {
		a.artifactT = n.Type()
	}
	if a.nodeOutput == nil || a.nodeT == nil || a.artifactT == nil {
		c.R.Failf("anchor types nodes.NodeOutput / nodes.Node / artifact.Artifact not found")
		return
	}
	// mutex fields of Instance
	for i := 0; i < a.instStruct.NumFields(); i++ {
		f := a.instStruct.Field(i)
		if isMutexType(f.Type()) {
			path := "|" + types.TypeString(a.inst, func(p *types.Package) string { return p.Name() }) + "." + f.Name()
			if _, ok := f.Type().Underlying().(*types.Pointer); ok {
				path += "^"
			}
			a.mutexPaths[path] = true
		}
	}
	if len(a.mutexPaths) == 0 {
		c.R.Failf("graph.Instance has no sync.Mutex / sync.RWMutex field: the mechanism the property names is gone")
		return
	}

	var entries []*ssa.Function
	for _, n := range entryNames {
		fn := p.Func(graphRel, "Instance."+n)
		if fn == nil || len(fn.Blocks) == 0 {
			c.R.Failf("anchor entry point %s.Instance.%s not found", graphRel, n)
			return
		}
		entries = append(entries, fn)
	}

	// control pseudo-entries
	var ctlEntries []*ssa.Function
	for _, fn := range p.FuncsOf(a.pkg) {
		if p.IsControl(fn.Pos()) && fn.Parent() == nil && strings.HasPrefix(fn.Name(), "verifControlC13") && !strings.HasSuffix(fn.Name(), "Helper") && !strings.HasSuffix(fn.Name(), "WithLock") {
			ctlEntries = append(ctlEntries, fn)
		}
	}

	a.regionRules(entries, ctlEntries)
	a.whoMayCall()
	a.noCopy()
	a.fresh1()
	a.freshRead()
	a.vis1()
	a.conc6(entries)
	a.conc8(entries)
	a.conc9()
	a.conc10()
	a.conc11(entries)
	a.vis2()
	a.otherMethods(entries)

	c.R.Floor("CONC-1", 5)
	c.R.Floor("CONC-4", 4)
	c.R.Floor("CONC-5", 3)
	c.R.Floor("CONC-4/who-may-call", 2)
	c.R.Floor("CONC-4/no-copy", 15)
}

func isMutexType(t types.Type) bool {
	return ssau.IsNamed(t, "sync", "Mutex") || ssau.IsNamed(t, "sync", "RWMutex")
}

// ---------------------------------------------------------------------------
// event classification

func (a *anchors) inModule(fn *ssa.Function) bool {
	if fn == nil {
		return false
	}
	var pk *types.Package
	if fn.Pkg != nil {
		pk = fn.Pkg.Pkg
	} else if o := fn.Object(); o != nil {
		pk = o.Pkg()
	} else if fn.Parent() != nil {
		return a.inModule(fn.Parent())
	} else if fn.Origin() != nil {
		return a.inModule(fn.Origin())
	}
	if pk == nil {
		return false
	}
	return pk.Path() == load.Module || strings.HasPrefix(pk.Path(), load.Module+"/")
}

func (a *anchors) isExample(fn *ssa.Function) bool {
	for f := fn; f != nil; f = f.Parent() {
		var pk *types.Package
		if f.Pkg != nil {
			pk = f.Pkg.Pkg
		} else if o := f.Object(); o != nil {
			pk = o.Pkg()
		} else if f.Origin() != nil && f.Origin().Pkg != nil {
			pk = f.Origin().Pkg.Pkg
		}
		if pk != nil {
			return strings.HasPrefix(pk.Path(), load.Module+"/examples")
		}
	}
	return false
}

func (a *anchors) implementsParameter(t types.Type) bool {
	if t == nil {
		return false
	}
	if types.Implements(t, a.paramIface) {
		return true
	}
	if _, ok := t.Underlying().(*types.Pointer); !ok {
		return types.Implements(types.NewPointer(t), a.paramIface)
	}
	return false
}

// classify returns the evaluating-call kind of a call instruction, or "".
func (a *anchors) classify(c ssa.CallInstruction) string {
	cc := c.Common()
	o := ssau.CalleeObj(c)
	if o == nil {
		return ""
	}
	switch o.Name() {
	case "ApplyMessage", "ToMessage":
		ok := false
		if cc.IsInvoke() {
			// the method must be (the embedding of) graph.Parameter's
			im, _, _ := types.LookupFieldOrMethod(a.paramIface, false, a.pkg.Pkg, o.Name())
			if im != nil && (im == o || sameOrigin(im, o)) {
				ok = true
			} else if it, _ := cc.Value.Type().Underlying().(*types.Interface); it != nil && types.Implements(cc.Value.Type(), a.paramIface) {
				ok = true
			}
		} else if sig, _ := o.Type().(*types.Signature); sig != nil && sig.Recv() != nil {
			ok = a.implementsParameter(sig.Recv().Type())
			if !ok {
				// generic receiver whose method set cannot be decided: compare signatures
				im, _, _ := types.LookupFieldOrMethod(a.paramIface, false, a.pkg.Pkg, o.Name())
				if imf, _ := im.(*types.Func); imf != nil {
					s1, _ := imf.Type().(*types.Signature)
					if s1 != nil && types.Identical(types.NewSignatureType(nil, nil, nil, s1.Params(), s1.Results(), false),
						types.NewSignatureType(nil, nil, nil, sig.Params(), sig.Results(), false)) && ssau.RecvNamed(o) != nil && ssau.RecvNamed(o).TypeParams().Len() > 0 {
						ok = true
					}
				}
			}
		}
		if ok {
			if o.Name() == "ApplyMessage" {
				return evApply
			}
			return evToMsg
		}
	case "Value":
		sig, _ := o.Type().(*types.Signature)
		if sig == nil || sig.Params().Len() != 0 || sig.Results().Len() != 1 {
			return ""
		}
		res := sig.Results().At(0).Type()
		if cc.IsInvoke() {
			n := ssau.NamedOf(cc.Value.Type())
			if n != nil && n.Origin().Obj() == a.nodeOutput {
				if types.Identical(res, a.artifactT) {
					return evValueArt
				}
				return evValueAny
			}
			if types.Identical(res, a.artifactT) {
				return evValueArt
			}
			return ""
		}
		if types.Identical(res, a.artifactT) {
			return evValueArt
		}
	case "TryGetOutputValue":
		if a.tryGet != nil && (o == a.tryGet || o.Origin() == a.tryGet) {
			if sig := cc.Signature(); sig != nil && sig.Results().Len() == 1 && types.Identical(sig.Results().At(0).Type(), a.artifactT) {
				return evValueArt
			}
			return evValueAny
		}
	}
	return ""
}

func sameOrigin(x types.Object, y *types.Func) bool {
	f, ok := x.(*types.Func)
	return ok && f.Origin() == y.Origin()
}

func needsExclusive(kind string) bool { return kind != evToMsg }

// ---------------------------------------------------------------------------
// region walk

type event struct {
	key    string // evApply … or "field <name>"
	field  *types.Var
	write  bool
	instr  ssa.Instruction
	fn     *ssa.Function
	mode   lockset.Mode
	how    string // "", "go", "defer", "closure"
	chain  string
	lockIn bool // a lock operation on the instance mutex inside a callee
}

type walkCtx struct {
	fn       *ssa.Function
	instRoot ssa.Value
	entry    lockset.State
	ambient  lockset.Mode
	how      string
	// function literals bound to func-typed parameters of fn (withLock(func(){…}) helpers)
	funcArgs map[*ssa.Parameter]closureArg
}

type closureArg struct {
	fn       *ssa.Function
	instRoot ssa.Value
}

// closureOperand: the function literal behind a call operand, if any.
func closureOperand(v ssa.Value) *ssa.MakeClosure {
	mc, _ := ssau.Strip(v).(*ssa.MakeClosure)
	return mc
}

// onlyPassedToRepoCalls: the literal is never called on the spot but handed, as an argument,
// to statically resolved repository functions (which are followed with the binding).
func (a *anchors) onlyPassedToRepoCalls(mc *ssa.MakeClosure) bool {
	n := 0
	for _, r := range ssau.Refs(mc) {
		switch r := r.(type) {
		case *ssa.DebugRef:
		case *ssa.ChangeType:
			return false
		case ssa.CallInstruction:
			if _, isGo := r.(*ssa.Go); isGo {
				return false
			}
			callee := r.Common().StaticCallee()
			if r.Common().Value == ssa.Value(mc) || callee == nil || !a.inModule(callee) || len(callee.Blocks) == 0 {
				return false
			}
			n++
		default:
			return false
		}
	}
	return n > 0
}

// isLockWrapper: a helper that takes the mutex of the Instance it is given, releases it on
// every exit and runs its body in between (func (i *Instance) withLock(f func()) { Lock; defer Unlock; f() }).
func (a *anchors) isLockWrapper(fn *ssa.Function) (ssa.Value, bool) {
	if fn == nil || len(fn.Blocks) == 0 {
		return nil, false
	}
	res := a.analysis(fn)
	var root ssa.Value
	for _, op := range res.Ops {
		if op.Deferred || !(op.Kind == lockset.OpLock || op.Kind == lockset.OpRLock) || !a.mutexPaths[op.Key.Path] {
			continue
		}
		if prm, ok := op.Key.Root.(*ssa.Parameter); ok && prm.Parent() == fn {
			root = prm
		}
	}
	if root == nil {
		return nil, false
	}
	for _, ex := range res.Exits {
		for k := range ex.Held {
			if k.Root == root {
				return nil, false
			}
		}
	}
	return root, true
}

type walker struct {
	a      *anchors
	seen   map[string]bool
	events []event
	copies []ssa.Instruction
	fns    map[*ssa.Function]bool
}

func (w *walker) mode(st lockset.State, c walkCtx) lockset.Mode {
	best := c.ambient
	if c.instRoot != nil {
		for k, m := range st {
			if k.Root == c.instRoot && w.a.mutexPaths[k.Path] && m > best {
				best = m
			}
		}
	}
	return best
}

func (w *walker) walk(c walkCtx, depth int, chain string) {
	sig := fmt.Sprintf("%p|%p|%s|%d|%s|%d", c.fn, c.instRoot, c.entry.Sig(), c.ambient, c.how, len(c.funcArgs))
	if w.seen[sig] || depth > 6 || len(c.fn.Blocks) == 0 {
		return
	}
	w.seen[sig] = true
	w.fns[c.fn] = true
	a := w.a
	res := lockset.Analyze(c.fn, c.entry)
	name := a.c.P.FuncName(c.fn)
	if chain == "" {
		chain = name
	} else {
		chain = chain + " → " + name
	}
	isInstPtr := func(v ssa.Value) bool {
		if c.instRoot == nil {
			return false
		}
		k := lockset.Canon(v)
		return k.Root == c.instRoot && k.Path == ""
	}
	for _, b := range c.fn.Blocks {
		for _, instr := range b.Instrs {
			held := res.HeldBefore(instr)
			mode := w.mode(held, c)
			how := c.how
			switch x := instr.(type) {
			case ssa.CallInstruction:
				if op, ok := lockset.ClassifyCall(x); ok {
					releaseInDefer := c.how == "defer" && (op.Kind == lockset.OpUnlock || op.Kind == lockset.OpRUnlock)
					_, wrapper := a.isLockWrapper(c.fn)
					if depth > 0 && !releaseInDefer && !wrapper && c.instRoot != nil && op.Key.Root == c.instRoot && a.mutexPaths[op.Key.Path] {
						w.events = append(w.events, event{key: "lock operation in helper", instr: instr, fn: c.fn, chain: chain, lockIn: true})
					}
					continue
				}
				switch instr.(type) {
				case *ssa.Go:
					how, mode = "go", 0
				case *ssa.Defer:
					if how == "" {
						how = "defer"
					}
				}
				if kind := a.classify(x); kind != "" {
					w.events = append(w.events, event{key: kind, write: needsExclusive(kind), instr: instr, fn: c.fn, mode: mode, how: how, chain: chain})
					continue
				}
				cc := x.Common()
				if prm, ok := cc.Value.(*ssa.Parameter); ok && !cc.IsInvoke() {
					if ca, ok := c.funcArgs[prm]; ok {
						// the body handed to a helper runs here, under whatever the helper holds
						w.walk(walkCtx{fn: ca.fn, instRoot: ca.instRoot, entry: lockset.State{}, ambient: mode, how: how}, depth+1, chain)
						continue
					}
				}
				var callee *ssa.Function
				closure := false
				if mc, ok := cc.Value.(*ssa.MakeClosure); ok {
					callee, _ = mc.Fn.(*ssa.Function)
					closure = true
				} else {
					callee = cc.StaticCallee()
				}
				if callee == nil || len(callee.Blocks) == 0 || !a.inModule(callee) {
					continue
				}
				nc := walkCtx{fn: callee, how: how}
				if how == "go" {
					nc.entry = lockset.State{}
					if closure {
						nc.instRoot = c.instRoot
					} else {
						for j, arg := range cc.Args {
							if j < len(callee.Params) && isInstPtr(arg) {
								nc.instRoot = callee.Params[j]
								break
							}
						}
					}
				} else if closure {
					nc.instRoot, nc.entry, nc.ambient = c.instRoot, held, c.ambient
				} else {
					for j, arg := range cc.Args {
						if j < len(callee.Params) && isInstPtr(arg) {
							nc.instRoot = callee.Params[j]
							break
						}
					}
					nc.entry = lockset.Translate(held, cc.Args, callee)
					nc.ambient = c.ambient // a hold inherited from an enclosing helper stays in force
					if nc.instRoot == nil {
						nc.ambient = mode
					}
				}
				if !closure {
					for j, arg := range cc.Args {
						if mc := closureOperand(arg); mc != nil && j < len(callee.Params) {
							if lit, _ := mc.Fn.(*ssa.Function); lit != nil {
								if nc.funcArgs == nil {
									nc.funcArgs = map[*ssa.Parameter]closureArg{}
								}
								nc.funcArgs[callee.Params[j]] = closureArg{lit, c.instRoot}
							}
						}
					}
				}
				w.walk(nc, depth+1, chain)
			case *ssa.MakeClosure:
				// a closure that is not called on the spot: its body runs at an unknown time
				direct := false
				for _, r := range ssau.Refs(x) {
					if ci, ok := r.(ssa.CallInstruction); ok && ci.Common().Value == ssa.Value(x) {
						direct = true
					}
				}
				if a.onlyPassedToRepoCalls(x) {
					continue // followed at the call that receives it
				}
				if fn, _ := x.Fn.(*ssa.Function); fn != nil && !direct {
					w.walk(walkCtx{fn: fn, instRoot: c.instRoot, entry: lockset.State{}, how: "closure"}, depth+1, chain)
				}
			case *ssa.FieldAddr:
				if !isInstPtr(x.X) || ssau.NamedOf(x.X.Type()) == nil || ssau.NamedOf(x.X.Type()).Obj() != a.inst.Obj() {
					continue
				}
				f := a.instStruct.Field(x.Field)
				if isMutexType(f.Type()) {
					continue
				}
				for _, acc := range fieldAccesses(x) {
					h := res.HeldBefore(acc.at)
					w.events = append(w.events, event{key: "field " + f.Name(), field: f, write: acc.write, instr: acc.at, fn: c.fn,
						mode: w.mode(h, c), how: c.how, chain: chain})
				}
			case *ssa.UnOp:
				if x.Op.String() == "*" && isInstPtr(x.X) && types.Identical(x.Type(), a.inst) {
					w.copies = append(w.copies, instr)
				}
			}
		}
	}
}

type access struct {
	at    ssa.Instruction
	write bool
}

// fieldAccesses classifies the uses of &inst.f: plain loads/stores, and through the
// loaded map/slice value: MapUpdate / delete / append-and-store-back / IndexAddr stores.
func fieldAccesses(fa *ssa.FieldAddr) []access {
	var out []access
	for _, r := range ssau.Refs(fa) {
		switch r := r.(type) {
		case *ssa.Store:
			if r.Addr == ssa.Value(fa) {
				out = append(out, access{r, true})
			} else {
				out = append(out, access{r, true}) // address stored somewhere: treat as write
			}
		case *ssa.UnOp:
			out = append(out, access{r, false})
			for _, rr := range ssau.Refs(r) {
				switch rr := rr.(type) {
				case *ssa.MapUpdate:
					if rr.Map == ssa.Value(r) {
						out = append(out, access{rr, true})
					}
				case ssa.CallInstruction:
					if b := ssau.Builtin(rr); (b == "delete" || b == "clear") && len(rr.Common().Args) > 0 && rr.Common().Args[0] == ssa.Value(r) {
						out = append(out, access{rr.(ssa.Instruction), true})
					}
				case *ssa.IndexAddr:
					for _, r3 := range ssau.Refs(rr) {
						if s, ok := r3.(*ssa.Store); ok && s.Addr == ssa.Value(rr) {
							out = append(out, access{s, true})
						}
					}
				}
			}
		case *ssa.DebugRef:
		default:
			if in, ok := r.(ssa.Instruction); ok {
				out = append(out, access{in, true}) // address escapes (call argument, …)
			}
		}
	}
	return out
}

// ---------------------------------------------------------------------------
// CONC-1 / CONC-4 on the region

type entryFacts struct {
	fn      *ssa.Function
	events  []event
	copies  []ssa.Instruction
	lockKey map[string]lockset.Mode // mutex path -> mode taken (keys rooted at the receiver)
	res     *lockset.Result
	// the function that takes the mutex (the entry itself, or a lock-wrapper helper it calls)
	lockFn   *ssa.Function
	lockRoot ssa.Value
}

func (a *anchors) analyseEntry(fn *ssa.Function) *entryFacts {
	w := &walker{a: a, seen: map[string]bool{}, fns: map[*ssa.Function]bool{}}
	var root ssa.Value
	if len(fn.Params) > 0 {
		root = fn.Params[0]
	}
	w.walk(walkCtx{fn: fn, instRoot: root, entry: lockset.State{}}, 0, "")
	ef := &entryFacts{fn: fn, events: w.events, copies: w.copies, lockKey: map[string]lockset.Mode{}}
	ef.res = lockset.Analyze(fn, nil)
	for _, op := range ef.res.Ops {
		if op.Deferred || op.Key.Root != root || !a.mutexPaths[op.Key.Path] {
			continue
		}
		switch op.Kind {
		case lockset.OpLock:
			ef.lockKey[op.Key.Path] = lockset.Excl
		case lockset.OpRLock:
			if ef.lockKey[op.Key.Path] < lockset.Shared {
				ef.lockKey[op.Key.Path] = lockset.Shared
			}
		}
	}
	ef.lockFn, ef.lockRoot = fn, root
	if len(ef.lockKey) == 0 {
		// the critical section may be provided by a helper (i.withLock(func(){…}))
		ssau.AllInstrs(fn, func(in ssa.Instruction) {
			ci, ok := in.(*ssa.Call)
			if !ok || ef.lockFn != fn {
				return
			}
			callee := ci.Common().StaticCallee()
			wr, isW := a.isLockWrapper(callee)
			if !isW {
				return
			}
			for j, arg := range ci.Common().Args {
				if k := lockset.Canon(arg); k.Root == root && k.Path == "" && j < len(callee.Params) && ssa.Value(callee.Params[j]) == wr {
					ef.lockFn, ef.lockRoot = callee, wr
					ef.res = lockset.Analyze(callee, nil)
					for _, op := range ef.res.Ops {
						if op.Deferred || op.Key.Root != wr || !a.mutexPaths[op.Key.Path] {
							continue
						}
						switch op.Kind {
						case lockset.OpLock:
							ef.lockKey[op.Key.Path] = lockset.Excl
						case lockset.OpRLock:
							if ef.lockKey[op.Key.Path] < lockset.Shared {
								ef.lockKey[op.Key.Path] = lockset.Shared
							}
						}
					}
				}
			}
		})
	}
	return ef
}

type verdictSink struct {
	hold     func(rule, construct, pos string, facts ...string)
	violate  func(rule, construct, pos, msg string, facts ...string)
	undecide func(rule, construct, pos, msg string)
}

func (a *anchors) regionRules(entries, ctl []*ssa.Function) {
	c := a.c
	p := c.P
	facts := map[*ssa.Function]*entryFacts{}
	written := map[*types.Var]bool{}
	for _, fn := range entries {
		ef := a.analyseEntry(fn)
		facts[fn] = ef
		for _, e := range ef.events {
			if e.field != nil && e.write {
				written[e.field] = true
			}
		}
	}
	a.regionWritten = written
	repo := verdictSink{hold: c.R.Hold, violate: c.R.Violate, undecide: func(r, k, pos, m string) { c.R.Undecide(r, k, pos, m) }}
	fnCount := 0
	for _, fn := range entries {
		a.entryObligations(facts[fn], written, repo, entryMust[fn.Name()])
		fnCount += 1
	}
	c.R.Extra["entry_points"] = len(entries)

	// CONC-4 same mutex across the three entry points
	var paths []string
	allSame := true
	first := ""
	for _, fn := range entries {
		ks := sortedKeys(facts[fn].lockKey)
		paths = append(paths, fn.Name()+": "+strings.Join(ks, "+"))
		if len(ks) != 1 {
			allSame = false
			continue
		}
		if first == "" {
			first = ks[0]
		} else if ks[0] != first {
			allSame = false
		}
	}
	construct := graphRel + ".Instance:same-mutex"
	if allSame && first != "" {
		c.R.Hold("CONC-4", construct, p.Pos(a.inst.Obj().Pos()), "all entry points lock receiver"+strings.ReplaceAll(first, "|", "."))
	} else {
		c.R.Violate("CONC-4", construct, p.Pos(a.inst.Obj().Pos()),
			"the three entry points do not serialise on one and the same mutex field of the receiver", paths...)
	}

	// controls
	if len(p.Controls) > 0 {
		for _, fn := range ctl {
			ef := a.analyseEntry(fn)
			bad := false
			sink := verdictSink{
				hold: func(rule, construct, pos string, facts ...string) {},
				violate: func(rule, construct, pos, msg string, facts ...string) {
					bad = true
					if os.Getenv("POLYCHECK_DUMP") != "" {
						fmt.Println("CONTROL", rule, construct, msg)
					}
				},
				undecide: func(rule, construct, pos, msg string) {
					bad = true
					if os.Getenv("POLYCHECK_DUMP") != "" {
						fmt.Println("CONTROL?", rule, construct, msg)
					}
				},
			}
			a.entryObligations(ef, written, sink, "")
			got, want := ob.Holds, ob.Holds
			if bad {
				got = ob.Violation
			}
			if strings.Contains(fn.Name(), "Bad") {
				want = ob.Violation
			}
			c.R.Control("CONC-1", "control:"+fn.Name(), "generator/graph/zz_verif_control_c13.go", got, want,
				"control entry point analysed with the same CONC-1/CONC-4 rules")
		}
	}
}

func sortedKeys(m map[string]lockset.Mode) []string {
	var ks []string
	for k := range m {
		ks = append(ks, k)
	}
	sort.Strings(ks)
	return ks
}

func (a *anchors) isNodeTable(f *types.Var) bool {
	m, ok := f.Type().Underlying().(*types.Map)
	return ok && types.Identical(m.Key(), a.nodeT)
}

func (a *anchors) entryObligations(ef *entryFacts, written map[*types.Var]bool, out verdictSink, must string) {
	p := a.c.P
	ename := p.FuncName(ef.fn)

	// ---- CONC-4: lock taken, mode, pairing, release on every exit
	construct := ename + ":lock"
	pos := p.Pos(ef.fn.Pos())
	ks := sortedKeys(ef.lockKey)
	switch {
	case len(ks) == 0:
		out.violate("CONC-4", construct, pos, "entry point takes no mutex of its receiver")
	default:
		var problems []string
		var facts []string
		root := ef.lockRoot
		if ef.lockFn != ef.fn {
			facts = append(facts, "critical section provided by helper "+p.FuncName(ef.lockFn))
		}
		if sig := ef.fn.Signature; sig.Recv() != nil {
			if _, ok := sig.Recv().Type().(*types.Pointer); !ok {
				problems = append(problems, "value receiver: the mutex that is locked is a copy")
			}
		}
		for _, k := range ks {
			facts = append(facts, "locks receiver"+strings.ReplaceAll(k, "|", ".")+" ("+ef.lockKey[k].String()+")")
		}
		for _, ex := range ef.res.Exits {
			for k := range ex.Held {
				if k.Root == root && a.mutexPaths[k.Path] {
					problems = append(problems, "exit at "+p.Pos(ssau.PosOf(ex.Instr))+" is reachable with the mutex still held (no Unlock / deferred Unlock on that path)")
				}
			}
		}
		for _, op := range ef.res.DoubleLock {
			problems = append(problems, "Lock at "+p.Pos(ssau.PosOf(op.Instr))+" while the same mutex is already held (self-deadlock)")
		}
		for _, op := range ef.res.BadUnlock {
			if op.Key.Root == root && a.mutexPaths[op.Key.Path] {
				problems = append(problems, "Unlock at "+p.Pos(ssau.PosOf(op.Instr))+" on a path where the mutex is not certainly held")
			}
		}
		// pairing: between Lock and the registration of its deferred Unlock nothing may leave the function
		deferred := false
		var deferRegs []ssa.Instruction
		ssau.AllInstrs(ef.lockFn, func(in ssa.Instruction) {
			if d, ok := in.(*ssa.Defer); ok {
				for _, k := range lockset.DeferredClosureUnlocks(d) {
					if k.Root == root && a.mutexPaths[k.Path] {
						deferred = true
						deferRegs = append(deferRegs, d)
						if msg := a.pairing(ef, lockset.Op{Instr: d, Key: k, Deferred: true}); msg != "" {
							problems = append(problems, msg)
						} else {
							facts = append(facts, "deferred function literal unlocks, registered directly after Lock")
						}
					}
				}
			}
		})
		for _, op := range ef.res.Ops {
			if op.Deferred && op.Key.Root == root && a.mutexPaths[op.Key.Path] {
				deferred = true
				deferRegs = append(deferRegs, op.Instr)
				if msg := a.pairing(ef, op); msg != "" {
					problems = append(problems, msg)
				} else {
					facts = append(facts, "defer Unlock registered directly after Lock")
				}
			}
		}
		if !deferred {
			facts = append(facts, "explicit Unlock on every normal exit")
		}
		if len(problems) > 0 {
			sort.Strings(problems)
			out.violate("CONC-4", construct, pos, problems[0], append(problems[1:], facts...)...)
		} else {
			out.hold("CONC-4", construct, pos, facts...)
		}
		// ---- CONC-5: release on every exit, panics included. Node evaluation, parameter decoding and the
		// node lookup are code that may panic (the HTTP layer recovers and keeps serving), so every call that
		// can run repository / user code while the mutex is held must come after the registration of a
		// deferred unlock; an Unlock on the normal path only leaves the mutex held for ever.
		var unsafeCalls, safeCalls []string
		ssau.AllInstrs(ef.lockFn, func(in ssa.Instruction) {
			ci, ok := in.(*ssa.Call)
			if !ok || ssau.Builtin(ci) != "" {
				return
			}
			if _, isLock := lockset.ClassifyCall(ci); isLock {
				return
			}
			heldHere := false
			for k := range ef.res.HeldBefore(in) {
				if k.Root == root && a.mutexPaths[k.Path] {
					heldHere = true
				}
			}
			if !heldHere {
				return
			}
			cc := ci.Common()
			callee := cc.StaticCallee()
			mayPanic := a.classify(ci) != "" || cc.IsInvoke() || callee == nil || a.inModule(callee)
			if !mayPanic {
				return
			}
			covered := false
			for _, d := range deferRegs {
				if ssau.Before(d, in) {
					covered = true
				}
			}
			what := "call"
			if k := a.classify(ci); k != "" {
				what = strings.TrimPrefix(k, "call ")
			} else if callee != nil {
				what = p.FuncName(callee)
			}
			if covered {
				safeCalls = append(safeCalls, what+" at "+p.Pos(ssau.PosOf(in)))
			} else {
				unsafeCalls = append(unsafeCalls, what+" at "+p.Pos(ssau.PosOf(in))+" runs with the mutex held but no deferred Unlock is registered: if it panics (recovered by the HTTP layer) the mutex stays locked and every later UpdateParameter / ParameterData / Artifact blocks for ever")
			}
		})
		c5 := ename + ":release-on-panic"
		if len(unsafeCalls) > 0 {
			sort.Strings(unsafeCalls)
			out.violate("CONC-5", c5, pos, unsafeCalls[0], unsafeCalls[1:]...)
		} else {
			sort.Strings(safeCalls)
			out.hold("CONC-5", c5, pos, append([]string{"every call in the critical section that can run repository / user code comes after the deferred Unlock"}, safeCalls...)...)
		}
	}

	// ---- copies of the Instance inside the region
	for _, in := range ef.copies {
		out.violate("CONC-4/no-copy", ename+":copy", p.Pos(ssau.PosOf(in)), "the Instance is copied by value inside the critical region (the copy carries its own mutex)")
	}

	// ---- CONC-1: events grouped by key
	groups := map[string][]event{}
	var order []string
	for _, e := range ef.events {
		if _, ok := groups[e.key]; !ok {
			order = append(order, e.key)
		}
		groups[e.key] = append(groups[e.key], e)
	}
	sort.Strings(order)
	if must != "" && len(groups[must]) == 0 {
		out.undecide("CONC-1", ename+"→"+must, pos, "the entry point no longer performs its evaluating call ("+must+") on a statically resolvable path: the anchor table is outdated")
	}
	for _, key := range order {
		evs := groups[key]
		construct := ename + "→" + key
		first := evs[0]
		epos := p.Pos(ssau.PosOf(first.instr))
		if first.lockIn {
			out.undecide("CONC-1", construct, epos, "a helper locks/unlocks the receiver's mutex ("+first.chain+"): inter-procedural lock effects are not modelled")
			continue
		}
		// which requirement applies?
		req := lockset.Mode(0)
		why := ""
		if first.field == nil {
			req, why = lockset.Shared, "evaluating call"
			if needsExclusive(key) {
				req = lockset.Excl
			}
		} else if written[first.field] {
			req, why = lockset.Shared, "field is written in the region"
		} else if a.isNodeTable(first.field) {
			req, why = lockset.Shared, "node-table lookup that selects the node to evaluate"
		}
		var bad []string
		var undec []string
		var ok []string
		for _, e := range evs {
			need := req
			if e.field != nil && e.write && req > 0 {
				need = lockset.Excl
			}
			at := p.Pos(ssau.PosOf(e.instr))
			desc := at + " via " + e.chain
			switch {
			case need == 0:
				if e.mode == 0 {
					ok = append(ok, "unlocked read at "+desc+" (no writer among the three entry points)")
				} else {
					ok = append(ok, "read at "+desc+" held "+e.mode.String())
				}
			case e.how == "go":
				bad = append(bad, "runs in a goroutine spawned at "+desc+": not covered by the caller's lock")
			case e.how == "defer" || e.how == "closure":
				if e.mode >= need && e.how == "closure" {
					ok = append(ok, desc)
				} else {
					undec = append(undec, "inside a deferred call / stored closure at "+desc+": execution point relative to Unlock not modelled")
				}
			case e.mode >= need:
				ok = append(ok, "held ("+e.mode.String()+") at "+desc)
			case e.mode == lockset.Shared:
				bad = append(bad, "only a shared (RLock) hold at "+desc+" but the access writes evaluation state")
			default:
				bad = append(bad, "mutex not held at "+desc)
			}
		}
		switch {
		case len(bad) > 0:
			out.violate("CONC-1", construct, epos, key+" ("+why+") outside the region held by the receiver's mutex: "+bad[0], append(bad[1:], ok...)...)
		case len(undec) > 0:
			out.undecide("CONC-1", construct, epos, undec[0])
		default:
			if req == 0 {
				ok = append([]string{"no obligation: field is only read by the three entry points"}, ok...)
				if first.mode == 0 && !a.c.P.IsControl(ef.fn.Pos()) {
					a.c.R.Note("out of scope: %s reads Instance.%s without the mutex (no writer among the three entry points; writers exist in other endpoints)", ename, first.field.Name())
				}
			}
			out.hold("CONC-1", construct, epos, ok...)
		}
		// shared hold of ToMessage: implementers must not write
		if key == evToMsg && len(bad) == 0 {
			shared := false
			for _, e := range evs {
				if e.mode == lockset.Shared {
					shared = true
				}
			}
			if shared {
				if w := a.toMessageWrites(); w != "" {
					out.violate("CONC-1", construct+":shared", epos, "ToMessage runs under a shared (RLock) hold but an implementation writes state: "+w)
				} else {
					out.hold("CONC-1", construct+":shared", epos, "all ToMessage implementations are store-free on non-local memory")
				}
			}
		}
	}
}

// pairing checks that nothing between Lock and its `defer Unlock` can leave the
// function (call into repository code, panic, return, branch).
func (a *anchors) pairing(ef *entryFacts, d lockset.Op) string {
	p := a.c.P
	b := d.Instr.Block()
	idx := ssau.InstrIndex(d.Instr)
	for j := idx - 1; j >= 0; j-- {
		in := b.Instrs[j]
		if ci, ok := in.(ssa.CallInstruction); ok {
			if op, ok := lockset.ClassifyCall(ci); ok && op.Key == d.Key && (op.Kind == lockset.OpLock || op.Kind == lockset.OpRLock) {
				return ""
			}
			if a.classify(ci) != "" {
				return "evaluating call at " + p.Pos(ssau.PosOf(in)) + " sits between Lock and defer Unlock: a panic there leaves the mutex held forever"
			}
			if cal := ci.Common().StaticCallee(); cal == nil || a.inModule(cal) {
				if ssau.Builtin(ci) == "" {
					return "call at " + p.Pos(ssau.PosOf(in)) + " sits between Lock and defer Unlock: a panic there leaves the mutex held forever"
				}
			}
		}
	}
	// Lock is in another block: accept only if it dominates and no exit is reachable with the lock held (checked by Exits)
	for _, op := range ef.res.Ops {
		if !op.Deferred && op.Key == d.Key && (op.Kind == lockset.OpLock || op.Kind == lockset.OpRLock) && op.Instr.Block().Dominates(b) {
			return ""
		}
	}
	return "defer Unlock at " + p.Pos(ssau.PosOf(d.Instr)) + " is not preceded by a Lock of the same mutex"
}

// toMessageWrites looks for stores to non-local memory in the ToMessage implementations.
func (a *anchors) toMessageWrites() string {
	p := a.c.P
	for _, pk := range p.Pkgs {
		sp := p.SSA.Package(pk.Types)
		for _, fn := range p.FuncsOf(sp) {
			if fn.Name() != "ToMessage" || fn.Signature.Recv() == nil || fn.Parent() != nil {
				continue
			}
			if !a.implementsParameter(fn.Signature.Recv().Type()) && ssau.RecvNamed(objOf(fn)) == nil {
				continue
			}
			if w := a.storesNonLocal(fn, 0, map[*ssa.Function]bool{}); w != "" {
				return w
			}
		}
	}
	return ""
}

func objOf(fn *ssa.Function) *types.Func {
	o, _ := fn.Object().(*types.Func)
	return o
}

func (a *anchors) storesNonLocal(fn *ssa.Function, depth int, seen map[*ssa.Function]bool) string {
	if seen[fn] || depth > 3 {
		return ""
	}
	seen[fn] = true
	p := a.c.P
	out := ""
	ssau.AllInstrs(fn, func(in ssa.Instruction) {
		if out != "" {
			return
		}
		switch x := in.(type) {
		case *ssa.Store:
			if _, ok := lockset.Canon(x.Addr).Root.(*ssa.Alloc); !ok {
				out = "store at " + p.Pos(ssau.PosOf(in))
			}
		case *ssa.MapUpdate:
			if _, ok := x.Map.(*ssa.MakeMap); !ok {
				out = "map update at " + p.Pos(ssau.PosOf(in))
			}
		case ssa.CallInstruction:
			if cal := x.Common().StaticCallee(); cal != nil && a.inModule(cal) && len(cal.Blocks) > 0 {
				out = a.storesNonLocal(cal, depth+1, seen)
			}
		}
	})
	return out
}

// ---------------------------------------------------------------------------
// CONC-4 who-may-call

func (a *anchors) libraryFuncs() []*ssa.Function {
	p := a.c.P
	var out []*ssa.Function
	for _, pk := range p.Pkgs {
		if strings.HasPrefix(pk.PkgPath, load.Module+"/examples") {
			continue
		}
		sp := p.SSA.Package(pk.Types)
		if sp == nil {
			continue
		}
		for _, fn := range p.FuncsOf(sp) {
			if fn.Synthetic != "" || p.IsTestFile(fn.Pos()) {
				continue
			}
			out = append(out, fn)
		}
	}
	return out
}

func (a *anchors) analysis(fn *ssa.Function) *lockset.Result {
	if r, ok := a.analyses[fn]; ok {
		return r
	}
	// closures resolve their captured variables to the enclosing function's values,
	// so an empty entry state is the right context for "called by anyone".
	r := lockset.Analyze(fn, nil)
	a.analyses[fn] = r
	return r
}

// heldAt: strongest hold of an Instance mutex (any Instance value) at instr.
func (a *anchors) heldAt(fn *ssa.Function, in ssa.Instruction) lockset.Mode {
	var best lockset.Mode
	for k, m := range a.analysis(fn).HeldBefore(in) {
		if a.isInstanceMutexKey(k) && m > best {
			best = m
		}
	}
	return best
}

func (a *anchors) isInstanceMutexKey(k lockset.Key) bool {
	for mp := range a.mutexPaths {
		if strings.HasSuffix(k.Path, mp) {
			return true
		}
	}
	return false
}

func (a *anchors) whoMayCall() {
	c := a.c
	p := c.P
	var cg *callgraph.Graph
	cg = cha.CallGraph(p.SSA)
	algo := "CHA"
	if c.Tier == "thorough" {
		cg = vta.CallGraph(ssautil.AllFunctions(p.SSA), cg)
		algo = "CHA+VTA"
	}
	c.R.Extra["callgraph"] = algo

	type site struct {
		fn   *ssa.Function
		in   ssa.Instruction
		kind string
	}
	var sites []site
	lib := a.libraryFuncs()
	for _, fn := range lib {
		ssau.AllInstrs(fn, func(in ssa.Instruction) {
			if ci, ok := in.(ssa.CallInstruction); ok {
				if k := a.classify(ci); k != "" && k != evValueAny {
					sites = append(sites, site{fn, in, k})
				}
			}
		})
	}
	c.R.Extra["library_functions_scanned"] = len(lib)
	// method values of the evaluating calls (x := p.ApplyMessage; … x(data)): the call time is not tracked
	for _, fn := range lib {
		ssau.AllInstrs(fn, func(in ssa.Instruction) {
			mc, ok := in.(*ssa.MakeClosure)
			if !ok {
				return
			}
			w, _ := mc.Fn.(*ssa.Function)
			if w == nil || w.Synthetic == "" {
				return
			}
			ssau.AllInstrs(w, func(win ssa.Instruction) {
				if ci, ok := win.(ssa.CallInstruction); ok {
					if k := a.classify(ci); k != "" && k != evValueAny && !p.IsControl(fn.Pos()) {
						c.R.Undecide("CONC-4/who-may-call", p.FuncName(fn)+"→method value of "+strings.TrimPrefix(k, "call "), p.Pos(ssau.PosOf(in)),
							"a method value of an evaluating call is created: where it is finally called is not tracked")
					}
				}
			})
		})
	}

	var taken map[*ssa.Function]bool
	addrTaken := func() map[*ssa.Function]bool {
		if taken != nil {
			return taken
		}
		taken = map[*ssa.Function]bool{}
		for _, pk := range p.Pkgs {
			for _, fn := range p.FuncsOf(p.SSA.Package(pk.Types)) {
				ssau.AllInstrs(fn, func(in ssa.Instruction) {
					var ops [16]*ssa.Value
					for _, op := range in.Operands(ops[:0]) {
						f, ok := (*op).(*ssa.Function)
						if !ok {
							continue
						}
						if ci, isCall := in.(ssa.CallInstruction); isCall && ci.Common().Value == ssa.Value(f) {
							continue
						}
						taken[f] = true
					}
				})
			}
		}
		return taken
	}
	// backward search over call-graph edges that are not inside a held region
	unprotected := func(start *ssa.Function) (bool, string, int) {
		seen := map[*ssa.Function]bool{start: true}
		type item struct {
			fn   *ssa.Function
			path string
		}
		work := []item{{start, p.FuncName(start)}}
		heldEdges := 0
		for len(work) > 0 {
			it := work[0]
			work = work[1:]
			n := cg.Nodes[it.fn]
			var in []*callgraph.Edge
			if n != nil {
				in = n.In
			}
			live := 0
			sort.SliceStable(in, func(i, j int) bool { return in[i].Caller.Func.String() < in[j].Caller.Func.String() })
			if it.fn.Parent() != nil {
				// function literal: its callers are decided by the uses of the closure value, not by
				// CHA's "every function of that signature"
				sites, esc := a.literalCallSites(it.fn)
				if esc != "" {
					return true, it.path + " (function literal " + esc + ": runs at an unknown time)", heldEdges
				}
				if len(sites) > 0 {
					// handed to repository helpers that only call it: the helpers' call sites are its callers
					for _, st := range sites {
						g := st.Parent()
						if a.heldAt(g, st) == lockset.Excl {
							heldEdges++
							continue
						}
						if !seen[g] {
							seen[g] = true
							work = append(work, item{g, it.path + " ← " + p.FuncName(g)})
						}
					}
					continue
				}
			}
			for _, e := range in {
				g := e.Caller.Func
				if a.isExample(g) {
					continue
				}
				if p.IsControl(g.Pos()) && !p.IsControl(start.Pos()) {
					continue // self-test overlays are not callers of repository code
				}
				if e.Site != nil && e.Site.Common().StaticCallee() == nil && !e.Site.Common().IsInvoke() {
					// dynamic call through a function value
					if it.fn.Parent() != nil {
						if mc, ok := e.Site.Common().Value.(*ssa.MakeClosure); !ok || mc.Fn != ssa.Value(it.fn) {
							continue
						}
					} else if !addrTaken()[it.fn] {
						continue
					}
				}
				live++
				if !a.inModule(g) {
					return true, it.path + " ← " + g.String() + " (foreign caller)", heldEdges
				}
				if e.Site != nil {
					if _, isGo := e.Site.(*ssa.Go); isGo {
						return true, it.path + " ← go statement in " + p.FuncName(g), heldEdges
					}
					if _, isDefer := e.Site.(*ssa.Defer); !isDefer && len(g.Blocks) > 0 && a.heldAt(g, e.Site) == lockset.Excl {
						heldEdges++
						continue
					}
				}
				if !seen[g] {
					seen[g] = true
					work = append(work, item{g, it.path + " ← " + p.FuncName(g)})
				}
			}
			if live == 0 && it.fn.Synthetic == "" {
				// nobody in the library calls it: API surface / handler registered with foreign code
				return true, it.path + " (no library caller: callable by anyone)", heldEdges
			}
		}
		return false, "", heldEdges
	}

	seenConstruct := map[string]int{}
	ctlBad, ctlGood := false, true
	for _, s := range sites {
		construct := p.FuncName(s.fn) + "→" + s.kind
		seenConstruct[construct]++
		if n := seenConstruct[construct]; n > 1 {
			construct = fmt.Sprintf("%s#%d", construct, n)
		}
		pos := p.Pos(ssau.PosOf(s.in))
		need := lockset.Excl
		if !needsExclusive(s.kind) {
			need = lockset.Shared
		}
		_, isGo := s.in.(*ssa.Go)
		_, isDefer := s.in.(*ssa.Defer)
		local := a.heldAt(s.fn, s.in)
		violated, msg := false, ""
		var facts []string
		switch {
		case isGo:
			violated, msg = true, "evaluating call spawned as a goroutine: it runs without the caller's lock"
		case local >= need && !isDefer:
			facts = append(facts, "call site lies in a region held ("+local.String()+") by an Instance mutex")
		default:
			un, path, held := unprotected(s.fn)
			if un {
				violated, msg = true, s.kind+" outside any region held by the Instance mutex; reachable unlocked: "+path
			} else {
				facts = append(facts, fmt.Sprintf("not held locally, but every call-graph path into the function passes a held call site (%d held edges)", held))
			}
		}
		if p.IsControl(s.fn.Pos()) {
			if strings.Contains(s.fn.Name(), "Bad") && violated {
				ctlBad = true
			}
			if strings.Contains(s.fn.Name(), "Good") && violated {
				ctlGood = false
			}
			continue
		}
		if violated {
			c.R.Violate("CONC-4/who-may-call", construct, pos, msg)
		} else {
			c.R.Hold("CONC-4/who-may-call", construct, pos, facts...)
		}
	}
	if len(p.Controls) > 0 {
		v := ob.Holds
		if ctlBad {
			v = ob.Violation
		}
		c.R.Control("CONC-4/who-may-call", "control:bad", "generator/graph/zz_verif_control_c13.go", v, ob.Violation, "unlocked ApplyMessage call site must be reported")
		v = ob.Holds
		if !ctlGood {
			v = ob.Violation
		}
		c.R.Control("CONC-4/who-may-call", "control:good", "generator/graph/zz_verif_control_c13.go", v, ob.Holds, "helper only called under the lock must stay silent")
	}
	a.cgForNotes = cg
}

// closureEscapes reports how a function literal is used other than being called on
// the spot ("" = every use is a direct call / defer of the literal).
func closureEscapes(fn *ssa.Function) string {
	site := lockset.ClosureSite(fn)
	if site == nil {
		return "created at several sites"
	}
	for _, r := range ssau.Refs(site) {
		switch r := r.(type) {
		case *ssa.Go:
			if r.Call.Value == ssa.Value(site) {
				return "spawned as a goroutine"
			}
			return "passed to a goroutine"
		case ssa.CallInstruction:
			if r.Common().Value != ssa.Value(site) {
				return "passed as an argument"
			}
		case *ssa.DebugRef:
		default:
			return "stored / returned"
		}
	}
	return ""
}

// literalCallSites: when a function literal is (also) handed as an argument to statically resolved
// repository functions whose parameter is only ever called, the call sites of that parameter are
// returned (plus the direct calls of the literal); esc != "" when some use lets it escape.
func (a *anchors) literalCallSites(fn *ssa.Function) (sites []ssa.Instruction, esc string) {
	site := lockset.ClosureSite(fn)
	if site == nil {
		return nil, "created at several sites"
	}
	passed := false
	for _, r := range ssau.Refs(site) {
		switch r := r.(type) {
		case *ssa.DebugRef:
		case *ssa.Go:
			if r.Call.Value == ssa.Value(site) {
				return nil, "spawned as a goroutine"
			}
			return nil, "passed to a goroutine"
		case ssa.CallInstruction:
			cc := r.Common()
			if cc.Value == ssa.Value(site) {
				if passed {
					sites = append(sites, r.(ssa.Instruction))
				}
				continue
			}
			callee := cc.StaticCallee()
			if callee == nil || !a.inModule(callee) || len(callee.Blocks) == 0 {
				return nil, "passed as an argument"
			}
			for j, arg := range cc.Args {
				if arg != ssa.Value(site) || j >= len(callee.Params) {
					continue
				}
				for _, pr := range ssau.Refs(callee.Params[j]) {
					switch pr := pr.(type) {
					case *ssa.DebugRef:
					case *ssa.Go:
						return nil, "spawned as a goroutine by " + callee.Name()
					case ssa.CallInstruction:
						if pr.Common().Value != ssa.Value(callee.Params[j]) {
							return nil, "passed on by " + callee.Name()
						}
						sites = append(sites, pr.(ssa.Instruction))
						passed = true
					default:
						return nil, "stored / returned by " + callee.Name()
					}
				}
			}
		default:
			return nil, "stored / returned"
		}
	}
	if !passed {
		return nil, closureEscapes(fn)
	}
	return sites, ""
}
