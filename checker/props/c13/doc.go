// Rules of C13 (DESIGN.md §3.7, §4 C13). Anchors resolved by name: generator/graph.Instance and its
// methods UpdateParameter, ParameterData, Artifact; graph.Parameter (ApplyMessage, ToMessage);
// nodes.NodeOutput, nodes.Node, nodes.TryGetOutputValue; artifact.Artifact. The mutex is found by
// type (any sync.Mutex / sync.RWMutex field of Instance, also behind a pointer), the node table as the
// field of type map[nodes.Node]….
//
//   - CONC-1  <Entry>→call Parameter.ApplyMessage | …ToMessage | …NodeOutput[Artifact].Value | →field f:
//     from each entry point, following static calls into repository code with the held set re-rooted at
//     the callee's formals (function literals called on the spot inherit it, go targets start empty,
//     deferred calls / stored literals containing events are UNDECIDED), every evaluating call and every
//     access to a field of the same *Instance that the region writes, and the node-table lookup, must be
//     held by a mutex field of the same receiver value (exclusive for writes / evaluation, ≥ shared for
//     ToMessage and reads). Fields the three entry points only read carry no obligation (note).
//
//   - CONC-4  <Entry>:lock — a mutex of the pointer receiver is taken, released on every exit (return and
//     explicit panic), no double Lock / stray Unlock, nothing that can panic between Lock and the
//     registration of its deferred unlock (`defer mu.Unlock()`, `defer func(){…mu.Unlock()}()`, or
//     explicit unlocks on every exit). Instance:same-mutex — all three lock one and the same field.
//
//   - CONC-4/who-may-call — every call site of the three evaluating calls in non-test, non-example
//     library code is inside a held region or in a function into which every call-graph path (CHA, VTA in
//     the thorough tier; literals' callers taken from their MakeClosure uses, dynamic edges only to
//     address-taken functions) passes a held call site. Roots: no library caller, foreign caller, go
//     statement, escaping function literal. Method values of evaluating calls are UNDECIDED.
//
//   - CONC-4/no-copy — pointer receivers only; no SSA value in library code whose type contains
//     graph.Instance by value.
//
//   - FRESH-1  <T>.ApplyMessage (every implementation of graph.Parameter.ApplyMessage) — the value stored into
//     a current-value field (the fields the type's Value() reads) is built from fresh storage or from the
//     message, never from storage reachable from the receiver's state before the update (no decode on top
//     of a copy of the current value, no decode into receiver-held storage, no append onto a receiver-held
//     slice, no in-place element / map writes); keeping the message slice itself is recorded as an assumption.
//
//   - CONC-5  <Entry>:release-on-panic — every call in the critical section that can run repository / user
//     code (evaluating calls, interface and dynamic calls, repository functions) comes after the
//     registration of a deferred unlock (`defer mu.Unlock()` or a deferred literal that unlocks); an
//     explicit Unlock on the normal path only is a violation (a recovered panic leaves the mutex held).
//     The critical section may be provided by a lock-wrapper helper (withLock(func(){…})).
//
//   - CONC-6  <function>:one-snapshot — in code that builds an HTTP response (http.ResponseWriter in
//     scope, or the return value of a handler-shaped function) at most one call of a state-reading
//     Instance method (the entry points, and exported methods touching fields they write) flows, by
//     def-use, into the response; two calls combined in one response are two critical sections.
//
//   - VIS-1   <T>.ApplyMessage:visible — every success return (nil error) is dominated by a store into a
//     current-value field (directly or through a helper method on the receiver), unless the path is an
//     equality shortcut against Value() (or `f != nil && v == *f` for the field Value() tests first);
//     a shortcut whose notion of the current value ignores fields Value() consults is a violation.
//
//   - FRESH-1 (read side) <T>.ToMessage — every returned slice is newly allocated in the call or is the
//     result of the type's own Value(); never storage the parameter keeps and re-uses.
//
//   - CONC-8  <function>:own-result — data written to an http.ResponseWriter by code that reaches a locked
//     entry point is not read from server struct fields that request-handling code writes (in-flight /
//     cached results of other requests), unless the object is a fresh local of this activation.
//
//   - CONC-9  nodes.<function>:single-threaded — no go statement in the functions of package nodes reachable
//     from its Value() methods.
//
//   - CONC-10 nodes.<function>:commit-after-success — the stores that mark a node up to date are dominated by
//     its Processor.Process call and are not made by a deferred function (unless under recover() == nil).
//
//   - CONC-11 <function>:per-request-output — the ResponseWriter is never installed into, and a request's
//     result never staged in, a writer object that outlives the request (server field, package variable);
//     sync.Pool Get/Put is accepted.
//
//   - VIS-2   <function>:update-applied — between the HTTP handler and Instance.UpdateParameter every return
//     that is not dominated by the call reports an error.
//
// Evidence also lists (notes, coverage.other_instance_methods) what the other Instance methods touch
// without the mutex and which HTTP handlers reach them; the property does not quantify over them.
package c13
