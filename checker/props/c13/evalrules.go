package c13

import (
	"fmt"
	"go/token"
	"go/types"
	"sort"
	"strings"

	"golang.org/x/tools/go/ssa"

	"polycheck/ob"
	"polycheck/ssau"
)

// ---------------------------------------------------------------------------
// CONC-9: evaluation is single-threaded inside the critical section. The mutex serialises the three
// entry points, but only if the evaluation they start stays on the calling goroutine: the node
// framework (package nodes) must not fan evaluation out — in a diamond two goroutines would process
// the shared node at once while the lock is held by one client. No function of package nodes that is
// reachable from a Value() implementation of that package may contain a go statement. (What a node's
// own Process does with private data is the node author's business and not covered.)

func origin0(fn *ssa.Function) *ssa.Function {
	if fn != nil && fn.Origin() != nil {
		return fn.Origin()
	}
	return fn
}

func (a *anchors) conc9() {
	c := a.c
	p := c.P
	np := p.SSAPkg("nodes")
	if np == nil {
		c.R.Failf("anchor package nodes not found")
		return
	}
	all := p.FuncsOf(np)
	byName := map[string][]*ssa.Function{}
	for _, fn := range all {
		if fn.Parent() == nil && !p.IsTestFile(fn.Pos()) {
			byName[fn.Name()] = append(byName[fn.Name()], fn)
		}
	}
	// roots: the Value() methods of package nodes (implementations of NodeOutput[T].Value)
	var roots []*ssa.Function
	for _, fn := range byName["Value"] {
		if fn.Signature.Recv() != nil && fn.Signature.Params().Len() == 0 && fn.Signature.Results().Len() == 1 {
			roots = append(roots, fn)
		}
	}
	if len(roots) == 0 {
		c.R.Failf("anchor: no Value() method found in package nodes")
		return
	}
	reach := map[*ssa.Function]string{}
	var order []*ssa.Function
	var visit func(fn *ssa.Function, via string)
	visit = func(fn *ssa.Function, via string) {
		fn = origin0(fn)
		if fn == nil || len(fn.Blocks) == 0 || fn.Pkg != np && (fn.Parent() == nil || origin0(fn.Parent()).Pkg != np) {
			return
		}
		if _, ok := reach[fn]; ok {
			return
		}
		reach[fn] = via
		order = append(order, fn)
		here := p.FuncName(fn)
		for _, an := range fn.AnonFuncs {
			visit(an, here)
		}
		ssau.AllInstrs(fn, func(in ssa.Instruction) {
			ci, ok := in.(ssa.CallInstruction)
			if !ok {
				return
			}
			cc := ci.Common()
			if callee := cc.StaticCallee(); callee != nil {
				visit(callee, here)
				return
			}
			// interface / type-parameter / dynamic call: every method of that name in the package
			if cc.IsInvoke() && cc.Method != nil {
				for _, m := range byName[cc.Method.Name()] {
					if m.Signature.Recv() != nil {
						visit(m, here)
					}
				}
			}
		})
	}
	sort.SliceStable(roots, func(i, j int) bool { return !p.IsControl(roots[i].Pos()) && p.IsControl(roots[j].Pos()) })
	for _, r := range roots {
		visit(r, "")
	}
	sort.Slice(order, func(i, j int) bool { return p.FuncName(order[i]) < p.FuncName(order[j]) })
	ctlBad := false
	seen := map[string]bool{}
	for _, fn := range order {
		var gos []string
		ssau.AllInstrs(fn, func(in ssa.Instruction) {
			if _, ok := in.(*ssa.Go); ok {
				gos = append(gos, p.Pos(ssau.PosOf(in)))
			}
		})
		name := p.FuncName(fn) + ":single-threaded"
		if seen[name] {
			continue
		}
		seen[name] = true
		if p.IsControl(fn.Pos()) {
			if len(gos) > 0 {
				ctlBad = true
			}
			continue
		}
		if fn.Parent() != nil && len(gos) == 0 {
			continue // literals are reported with their parent unless they spawn themselves
		}
		via := reach[fn]
		if via == "" {
			via = "Value() implementation"
		} else {
			via = "reached from " + via
		}
		if len(gos) > 0 {
			c.R.Violate("CONC-9", name, gos[0], "go statement in the node framework's evaluation path ("+via+"): nodes shared by two branches are processed by two goroutines at once although the caller holds the Instance mutex", gos[1:]...)
		} else {
			c.R.Hold("CONC-9", name, p.Pos(fn.Pos()), via+"; no go statement")
		}
	}
	c.R.Extra["evaluation_path_functions_in_nodes"] = len(order)
	c.R.Floor("CONC-9", 6)
	if len(p.Controls) > 0 {
		v := ob.Holds
		if ctlBad {
			v = ob.Violation
		}
		c.R.Control("CONC-9", "control:bad", "nodes/zz_verif_control_c13.go", v, ob.Violation, "a go statement reachable from Value() in package nodes must be reported")
	}
}

// ---------------------------------------------------------------------------
// CONC-8: no result sharing across requests. A response that carries the result of a locked entry
// point must be built from THIS request's own call: the data written to the ResponseWriter must not
// be read out of server state that request-handling code writes (a map / field of the server holding
// an in-flight or cached result that another request's goroutine filled): a request that begins
// after an update completed could be answered with the pre-update result.

type serverState struct {
	a        *anchors
	writable map[*types.Var]string // struct fields written by request-handling code -> where
}

func fieldVarOf(fa *ssa.FieldAddr) *types.Var {
	t := fa.X.Type()
	if pt, ok := t.Underlying().(*types.Pointer); ok {
		t = pt.Elem()
	}
	if st, ok := t.Underlying().(*types.Struct); ok && fa.Field < st.NumFields() {
		return st.Field(fa.Field)
	}
	return nil
}

// requestCode: functions reachable (static calls, literals) from handler-shaped functions and from
// functions that take an http.ResponseWriter, outside the graph / nodes packages.
func (a *anchors) requestCode() []*ssa.Function {
	seen := map[*ssa.Function]bool{}
	var out []*ssa.Function
	skipPkg := func(fn *ssa.Function) bool {
		for f := fn; f != nil; f = f.Parent() {
			if f.Pkg != nil {
				pp := f.Pkg.Pkg.Path()
				return f.Pkg == a.pkg || strings.HasSuffix(pp, "/nodes") || strings.HasSuffix(pp, "/generator/parameter")
			}
		}
		return true
	}
	var visit func(fn *ssa.Function, d int)
	visit = func(fn *ssa.Function, d int) {
		fn = origin0(fn)
		if fn == nil || seen[fn] || d > 8 || len(fn.Blocks) == 0 || !a.inModule(fn) || a.isExample(fn) || skipPkg(fn) {
			return
		}
		seen[fn] = true
		out = append(out, fn)
		for _, an := range fn.AnonFuncs {
			visit(an, d+1)
		}
		ssau.AllInstrs(fn, func(in ssa.Instruction) {
			if ci, ok := in.(ssa.CallInstruction); ok {
				visit(ci.Common().StaticCallee(), d+1)
			}
		})
	}
	for _, fn := range a.libraryFuncs() {
		hasW := false
		for _, prm := range fn.Params {
			if isResponseWriter(prm.Type()) {
				hasW = true
			}
		}
		if hasW || handlerShaped(fn) {
			visit(fn, 0)
		}
	}
	return out
}

func (a *anchors) conc8(entries []*ssa.Function) {
	c := a.c
	p := c.P
	req := a.requestCode()
	ss := &serverState{a: a, writable: map[*types.Var]string{}}
	for _, fn := range req {
		ssau.AllInstrs(fn, func(in ssa.Instruction) {
			mark := func(addr ssa.Value) {
				for i := 0; i < 6; i++ {
					switch x := addr.(type) {
					case *ssa.FieldAddr:
						if fv := fieldVarOf(x); fv != nil {
							if _, ok := ss.writable[fv]; !ok {
								ss.writable[fv] = p.Pos(ssau.PosOf(in))
							}
						}
						return
					case *ssa.IndexAddr:
						addr = x.X
					case *ssa.UnOp:
						addr = x.X
					default:
						return
					}
				}
			}
			switch x := in.(type) {
			case *ssa.Store:
				mark(x.Addr)
			case *ssa.MapUpdate:
				mark(x.Map)
			case *ssa.Call:
				if b := ssau.Builtin(x); b == "delete" || b == "clear" {
					mark(x.Call.Args[0])
				}
			}
		})
	}
	isEntry := map[*ssa.Function]bool{}
	for _, e := range entries {
		isEntry[e] = true
	}
	// does fn's static call tree reach a locked entry point?
	memo := map[*ssa.Function]int{}
	var reaches func(fn *ssa.Function, d int) bool
	reaches = func(fn *ssa.Function, d int) bool {
		fn = origin0(fn)
		if fn == nil || d > 6 {
			return false
		}
		if isEntry[fn] {
			return true
		}
		if v, ok := memo[fn]; ok {
			return v == 2
		}
		memo[fn] = 1
		found := false
		if a.inModule(fn) && len(fn.Blocks) > 0 && fn.Pkg != a.pkg {
			for _, an := range fn.AnonFuncs {
				if reaches(an, d+1) {
					found = true
				}
			}
			ssau.AllInstrs(fn, func(in ssa.Instruction) {
				if ci, ok := in.(ssa.CallInstruction); ok && !found {
					if reaches(ci.Common().StaticCallee(), d+1) {
						found = true
					}
				}
			})
		}
		if found {
			memo[fn] = 2
		}
		return found
	}
	ctlBad, ctlGood := false, true
	n := 0
	for _, fn := range a.libraryFuncs() {
		if fn.Pkg == a.pkg {
			continue
		}
		var resp []ssa.Value
		for _, prm := range fn.Params {
			if isResponseWriter(prm.Type()) {
				resp = append(resp, prm)
			}
		}
		if len(resp) == 0 || !reaches(fn, 0) {
			continue
		}
		respSet := forward(fn, resp)
		var hits, facts []string
		ssau.AllInstrs(fn, func(in ssa.Instruction) {
			ci, ok := in.(ssa.CallInstruction)
			if !ok {
				return
			}
			cc := ci.Common()
			ops := append([]ssa.Value{}, cc.Args...)
			if cc.IsInvoke() {
				ops = append(ops, cc.Value)
			}
			isSink := false
			for _, o := range ops {
				if respSet[o] {
					isSink = true
				}
			}
			if !isSink {
				return
			}
			for _, o := range ops {
				if respSet[o] {
					continue
				}
				if _, isConst := o.(*ssa.Const); isConst {
					continue
				}
				if h := ss.sharedOrigin(o, 0, map[ssa.Value]bool{}, isEntry); h != "" {
					hits = append(hits, "data written to the response at "+p.Pos(ssau.PosOf(in))+" is read from "+h)
				} else {
					facts = append(facts, "operand of the response write at "+p.Pos(ssau.PosOf(in))+" does not come from request-written server state")
				}
			}
		})
		name := p.FuncName(fn) + ":own-result"
		pos := p.Pos(fn.Pos())
		hits = dedupStrings(hits)
		if p.IsControl(fn.Pos()) {
			if strings.Contains(fn.Name(), "BadShared") && len(hits) > 0 {
				ctlBad = true
			}
			if strings.Contains(fn.Name(), "Good") && len(hits) > 0 {
				ctlGood = false
			}
			continue
		}
		n++
		if len(hits) > 0 {
			c.R.Violate("CONC-8", name, pos, hits[0]+": the response can carry a result another request obtained before this request began (an update completed in between is not reflected)", hits[1:]...)
		} else {
			c.R.Hold("CONC-8", name, pos, dedupStrings(facts)...)
		}
	}
	c.R.Extra["request_written_server_fields"] = len(ss.writable)
	c.R.Floor("CONC-8", 1)
	if len(p.Controls) > 0 {
		v := ob.Holds
		if ctlBad {
			v = ob.Violation
		}
		c.R.Control("CONC-8", "control:bad", "generator/zz_verif_control_c13.go", v, ob.Violation, "response data read from a shared cache slot must be reported")
		v = ob.Holds
		if !ctlGood {
			v = ob.Violation
		}
		c.R.Control("CONC-8", "control:good", "generator/zz_verif_control_c13.go", v, ob.Holds, "a response built from this request's own call must stay silent")
	}
	_ = fmt.Sprint
}

// sharedOrigin walks a value backwards (through repository callees' return values) and reports
// the first load of a request-written field whose base object is not a fresh local.
func (ss *serverState) sharedOrigin(v ssa.Value, depth int, seen map[ssa.Value]bool, isEntry map[*ssa.Function]bool) string {
	if v == nil || seen[v] || depth > 40 {
		return ""
	}
	seen[v] = true
	p := ss.a.c.P
	rec := func(x ssa.Value) string { return ss.sharedOrigin(x, depth+1, seen, isEntry) }
	// is the object a pointer points to possibly shared (not created by this very activation)?
	switch x := v.(type) {
	case *ssa.Const, *ssa.Function, *ssa.Global, *ssa.MakeSlice, *ssa.MakeMap, *ssa.MakeChan, *ssa.MakeClosure:
		return ""
	case *ssa.Parameter, *ssa.FreeVar:
		return ""
	case *ssa.Alloc:
		for _, r := range ssau.Refs(x) {
			switch r := r.(type) {
			case *ssa.Store:
				if r.Addr == ssa.Value(x) {
					if h := rec(r.Val); h != "" {
						return h
					}
				}
			case *ssa.FieldAddr:
				for _, rr := range ssau.Refs(r) {
					if st, ok := rr.(*ssa.Store); ok && st.Addr == ssa.Value(r) {
						if h := rec(st.Val); h != "" {
							return h
						}
					}
				}
			}
		}
		return ""
	case *ssa.UnOp:
		if x.Op == token.MUL {
			if fa, ok := x.X.(*ssa.FieldAddr); ok {
				if fv := fieldVarOf(fa); fv != nil {
					if where, w := ss.writable[fv]; w && !ss.freshBase(fa.X, 0) {
						owner := "?"
						if n := ssau.NamedOf(fa.X.Type()); n != nil {
							owner = n.Obj().Name()
						}
						return owner + "." + fv.Name() + " (loaded at " + p.Pos(ssau.PosOf(x)) + "; written by request-handling code at " + where + ")"
					}
				}
				return rec(fa.X)
			}
			return rec(x.X)
		}
		return rec(x.X)
	case *ssa.FieldAddr:
		return rec(x.X)
	case *ssa.IndexAddr:
		return rec(x.X)
	case *ssa.Call:
		cc := x.Common()
		callee := origin0(cc.StaticCallee())
		if callee != nil && isEntry[callee] {
			return "" // this request's own call of a locked entry point
		}
		if callee != nil && callee.Pkg == ss.a.pkg {
			return "" // graph state is governed by the lock rules
		}
		if callee != nil && ss.a.inModule(callee) && len(callee.Blocks) > 0 {
			for _, b := range callee.Blocks {
				if len(b.Instrs) == 0 || b == callee.Recover {
					continue
				}
				if ret, ok := b.Instrs[len(b.Instrs)-1].(*ssa.Return); ok {
					for _, rv := range ret.Results {
						if h := rec(rv); h != "" {
							return h + " via " + p.FuncName(callee)
						}
					}
				}
			}
			return ""
		}
		for _, arg := range cc.Args {
			if h := rec(arg); h != "" {
				return h
			}
		}
		if cc.IsInvoke() {
			return rec(cc.Value)
		}
		return ""
	}
	if in, ok := v.(ssa.Instruction); ok {
		var ops [8]*ssa.Value
		for _, o := range in.Operands(ops[:0]) {
			if *o != nil {
				if h := rec(*o); h != "" {
					return h
				}
			}
		}
	}
	return ""
}

// freshBase: the struct whose field is read was allocated by this activation (a literal / new).
func (ss *serverState) freshBase(v ssa.Value, depth int) bool {
	if depth > 10 {
		return false
	}
	switch x := v.(type) {
	case *ssa.Alloc:
		// a cell holding a pointer: look at what is stored; a struct cell itself is fresh
		if _, isPtr := x.Type().(*types.Pointer).Elem().Underlying().(*types.Pointer); !isPtr {
			return true
		}
		for _, r := range ssau.Refs(x) {
			if st, ok := r.(*ssa.Store); ok && st.Addr == ssa.Value(x) && !ss.freshBase(st.Val, depth+1) {
				return false
			}
		}
		return true
	case *ssa.UnOp:
		if x.Op == token.MUL {
			if a, ok := x.X.(*ssa.Alloc); ok {
				return ss.freshBase(a, depth+1)
			}
		}
		return false
	case *ssa.Phi:
		for _, e := range x.Edges {
			if !ss.freshBase(e, depth+1) {
				return false
			}
		}
		return true
	case *ssa.Call:
		callee := origin0(x.Call.StaticCallee())
		if callee == nil || !ss.a.inModule(callee) || len(callee.Blocks) == 0 {
			return false
		}
		for _, b := range callee.Blocks {
			if len(b.Instrs) == 0 || b == callee.Recover {
				continue
			}
			if ret, ok := b.Instrs[len(b.Instrs)-1].(*ssa.Return); ok {
				for _, rv := range ret.Results {
					if types.Identical(rv.Type(), x.Type()) && !ss.freshBase(rv, depth+1) {
						return false
					}
				}
			}
		}
		return true
	case *ssa.FieldAddr:
		return ss.freshBase(x.X, depth+1)
	}
	return false
}
