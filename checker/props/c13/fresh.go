package c13

import (
	"fmt"
	"go/token"
	"go/types"
	"sort"
	"strings"

	"golang.org/x/tools/go/ssa"

	"polycheck/load"
	"polycheck/ob"
	"polycheck/props/c13/lockset"
	"polycheck/ssau"
)

// FRESH-1: an update must not recycle storage of the value it replaces. Artifacts are handed
// out after Unlock and keep (copies of) the parameter values they were evaluated from; a copy
// of a struct/slice/map value shares its backing storage. So in every implementation of
// graph.Parameter.ApplyMessage the value that becomes the parameter's new current value must
// be built from fresh storage (or from the message), never from storage reachable from the
// receiver's current state: no decode on top of a copy of the current value, no decode into
// receiver-held storage, no in-place element / map writes, no append onto a receiver-held slice.

type origin int

const (
	oFresh   origin = iota // new storage (zero local, new(T), literal, result of a call on non-receiver data)
	oMessage               // the caller's message buffer (or something aliasing it)
	oUnknown               // not classified
	oTainted               // reachable from the receiver's state before the update
)

func (o origin) String() string {
	return [...]string{"fresh", "message buffer", "unknown", "receiver state"}[o]
}

func worst(a, b origin) origin {
	if b > a {
		return b
	}
	return a
}

// refCapable: can a value of this type carry mutable storage shared with another value?
func refCapable(t types.Type, depth int) bool {
	if depth > 6 || t == nil {
		return true
	}
	switch u := t.Underlying().(type) {
	case *types.Basic:
		return false // numbers, bools, strings (immutable)
	case *types.Pointer, *types.Slice, *types.Map, *types.Chan, *types.Interface, *types.Signature:
		return true
	case *types.Struct:
		for i := 0; i < u.NumFields(); i++ {
			if refCapable(u.Field(i).Type(), depth+1) {
				return true
			}
		}
		return false
	case *types.Array:
		return refCapable(u.Elem(), depth+1)
	case *types.Tuple:
		for i := 0; i < u.Len(); i++ {
			if refCapable(u.At(i).Type(), depth+1) {
				return true
			}
		}
		return false
	}
	return true // type parameters and anything else: may hold references
}

type freshFn struct {
	a      *anchors
	fn     *ssa.Function
	class  map[*ssa.Parameter]origin
	memo   map[ssa.Value]origin
	busy   map[ssa.Value]bool
	why    map[ssa.Value]string
	depth  int
	report *freshReport
}

type freshReport struct {
	problems  []string
	undecided []string
	facts     []string
	message   []string
}

// aliasing constructors of the standard library: the result shares the argument's storage
var aliasCtor = map[string]bool{
	"bytes.NewBuffer": true, "bytes.NewReader": true, "bytes.NewBufferString": true,
	"bufio.NewReader": true, "bufio.NewReaderSize": true, "io.LimitReader": true, "io.NopCloser": true,
}

// standard-library functions whose result is always newly allocated storage
var freshResult = map[string]bool{
	"encoding/json.Marshal": true, "encoding/json.MarshalIndent": true, "bytes.Clone": true, "slices.Clone": true,
	"io.ReadAll": true, "os.ReadFile": true, "fmt.Sprintf": true, "fmt.Sprint": true, "fmt.Sprintln": true,
	"fmt.Errorf": true, "strings.Clone": true,
}

// decoder-like standard-library entry points that write through a pointer / into a buffer argument
func decoderLike(o *types.Func) bool {
	if o == nil || o.Pkg() == nil {
		return false
	}
	for _, p := range []string{"Unmarshal", "Decode", "Read", "Scan", "Fscan", "Sscan", "Fill", "Copy"} {
		if strings.HasPrefix(o.Name(), p) {
			return true
		}
	}
	return false
}

func (f *freshFn) classify(v ssa.Value) origin {
	if v == nil {
		return oFresh
	}
	if o, ok := f.memo[v]; ok {
		return o
	}
	if f.busy[v] {
		return oFresh
	}
	f.busy[v] = true
	defer delete(f.busy, v)
	o := f.classify1(v)
	f.memo[v] = o
	return o
}

// allocContents classifies what a local cell holds: every value stored into it (whole or by
// field / element), and what module calls that receive its address may have put there.
func (f *freshFn) allocContents(a *ssa.Alloc) origin {
	o := oFresh
	var visit func(addr ssa.Value, d int)
	visit = func(addr ssa.Value, d int) {
		if d > 4 {
			return
		}
		for _, r := range ssau.Refs(addr) {
			switch r := r.(type) {
			case *ssa.Store:
				if r.Addr == addr && refCapable(r.Val.Type(), 0) {
					o = worst(o, f.classify(r.Val))
				}
			case *ssa.FieldAddr:
				visit(r, d+1)
			case *ssa.IndexAddr:
				visit(r, d+1)
			case *ssa.MakeInterface:
				// &local wrapped for a decoder: handled at the call
			case ssa.CallInstruction:
				cc := r.Common()
				if callee := cc.StaticCallee(); callee != nil && f.a.inModule(callee) {
					// a repository function receives the cell's address: does it put receiver state there?
					o = worst(o, f.pollutedBy(callee, cc.Args, addr))
				}
			}
		}
	}
	visit(a, 0)
	return o
}

// pollutedBy: what a repository callee may store through the pointer argument ptr.
func (f *freshFn) pollutedBy(callee *ssa.Function, args []ssa.Value, ptr ssa.Value) origin {
	if len(callee.Blocks) == 0 || f.depth > 2 {
		return oUnknown
	}
	nc := map[*ssa.Parameter]origin{}
	var target *ssa.Parameter
	for i, prm := range callee.Params {
		if i >= len(args) {
			break
		}
		if args[i] == ptr {
			target = prm
			nc[prm] = oFresh
			continue
		}
		nc[prm] = f.classify(args[i])
	}
	if target == nil {
		return oUnknown
	}
	g := &freshFn{a: f.a, fn: callee, class: nc, memo: map[ssa.Value]origin{}, busy: map[ssa.Value]bool{}, depth: f.depth + 1}
	o := oFresh
	ssau.AllInstrs(callee, func(in ssa.Instruction) {
		switch x := in.(type) {
		case *ssa.Store:
			if lockset.Canon(x.Addr).Root == ssa.Value(target) && refCapable(x.Val.Type(), 0) {
				o = worst(o, g.classify(x.Val))
			}
		case ssa.CallInstruction:
			// handed on to another repository function: give up precision
			for _, a := range x.Common().Args {
				if lockset.Canon(a).Root == ssa.Value(target) {
					if c2 := x.Common().StaticCallee(); c2 != nil && f.a.inModule(c2) {
						o = worst(o, g.pollutedBy(c2, x.Common().Args, a))
					}
				}
			}
		}
	})
	return o
}

func (f *freshFn) classify1(v ssa.Value) origin {
	if !refCapable(v.Type(), 0) {
		return oFresh
	}
	switch x := v.(type) {
	case *ssa.Const, *ssa.MakeSlice, *ssa.MakeMap, *ssa.MakeChan, *ssa.Function, *ssa.Global:
		return oFresh
	case *ssa.MakeClosure:
		return oFresh
	case *ssa.Parameter:
		if o, ok := f.class[x]; ok {
			return o
		}
		return oUnknown
	case *ssa.FreeVar:
		return oUnknown
	case *ssa.Alloc:
		return f.allocContents(x)
	case *ssa.MakeInterface:
		return f.classify(x.X)
	case *ssa.ChangeType:
		return f.classify(x.X)
	case *ssa.ChangeInterface:
		return f.classify(x.X)
	case *ssa.Convert:
		// string <-> []byte conversions copy
		_, fromBasic := x.X.Type().Underlying().(*types.Basic)
		_, toBasic := x.Type().Underlying().(*types.Basic)
		if fromBasic != toBasic {
			return oFresh
		}
		return f.classify(x.X)
	case *ssa.TypeAssert:
		return f.classify(x.X)
	case *ssa.Extract:
		return f.classify(x.Tuple)
	case *ssa.Slice:
		return f.classify(x.X)
	case *ssa.Field:
		return f.classify(x.X)
	case *ssa.Index:
		return f.classify(x.X)
	case *ssa.Lookup:
		return f.classify(x.X)
	case *ssa.FieldAddr:
		return f.classify(x.X)
	case *ssa.IndexAddr:
		return f.classify(x.X)
	case *ssa.Phi:
		o := oFresh
		for _, e := range x.Edges {
			o = worst(o, f.classify(e))
		}
		return o
	case *ssa.UnOp:
		if x.Op == token.MUL {
			return f.classify(x.X) // what the pointer points into
		}
		if x.Op == token.ARROW {
			return oUnknown
		}
		return f.classify(x.X)
	case *ssa.BinOp:
		return oFresh
	case *ssa.Call:
		cc := x.Common()
		if b := ssau.Builtin(x); b != "" {
			switch b {
			case "append":
				o := f.classify(cc.Args[0]) // the result may share the first operand's array
				if len(cc.Args) > 1 {
					if sl, ok := cc.Args[1].Type().Underlying().(*types.Slice); ok && refCapable(sl.Elem(), 0) {
						o = worst(o, f.classify(cc.Args[1]))
					}
				}
				return o
			case "min", "max", "len", "cap", "copy":
				return oFresh
			}
			return oFresh
		}
		o := oFresh
		args := append([]ssa.Value{}, cc.Args...)
		if cc.IsInvoke() {
			args = append(args, cc.Value)
		}
		callee := cc.StaticCallee()
		obj := ssau.CalleeObj(x)
		if obj != nil && obj.Pkg() != nil && freshResult[obj.Pkg().Path()+"."+obj.Name()] {
			return oFresh // documented to return newly allocated storage whatever it is given
		}
		aliases := callee == nil || f.a.inModule(callee)
		if obj != nil && obj.Pkg() != nil && aliasCtor[obj.Pkg().Name()+"."+obj.Name()] {
			aliases = true
		}
		for _, a := range args {
			if !refCapable(a.Type(), 0) {
				continue
			}
			ao := f.classify(a)
			switch {
			case ao == oTainted:
				o = worst(o, oTainted) // the result may be (part of) the receiver's state
			case ao == oMessage && aliases:
				o = worst(o, oMessage)
			case ao == oUnknown && aliases:
				o = worst(o, oUnknown)
			}
		}
		return o
	}
	return oUnknown
}

// valueFields: the receiver fields the type's Value() method reads (the "current value").
func (a *anchors) valueFields(recv *types.Named) map[string]bool {
	out := map[string]bool{}
	recv = recv.Origin()
	for i := 0; i < recv.NumMethods(); i++ {
		m := recv.Method(i).Origin()
		if m.Name() != "Value" {
			continue
		}
		fn := a.c.P.SSA.FuncValue(m)
		if fn == nil || len(fn.Params) == 0 {
			continue
		}
		ssau.AllInstrs(fn, func(in ssa.Instruction) {
			if fa, ok := in.(*ssa.FieldAddr); ok {
				if n := ssau.NamedOf(fa.X.Type()); n != nil && n.Origin().Obj() == recv.Origin().Obj() {
					st, _ := n.Underlying().(*types.Struct)
					if st != nil && fa.Field < st.NumFields() {
						out[st.Field(fa.Field).Name()] = true
					}
				}
			}
			if fv, ok := in.(*ssa.Field); ok {
				if n := ssau.NamedOf(fv.X.Type()); n != nil && n.Origin().Obj() == recv.Origin().Obj() {
					st, _ := n.Underlying().(*types.Struct)
					if st != nil && fv.Field < st.NumFields() {
						out[st.Field(fv.Field).Name()] = true
					}
				}
			}
		})
	}
	return out
}

func (a *anchors) freshBody(fn *ssa.Function, class map[*ssa.Parameter]origin, vf map[string]bool, recvNamed *types.Named, rep *freshReport, depth int, seen map[*ssa.Function]bool) {
	if seen[fn] || depth > 3 || len(fn.Blocks) == 0 {
		return
	}
	seen[fn] = true
	p := a.c.P
	f := &freshFn{a: a, fn: fn, class: class, memo: map[ssa.Value]origin{}, busy: map[ssa.Value]bool{}, report: rep}
	// receiver-rooted address?  (path relative to a tainted parameter)
	taintedPath := func(addr ssa.Value) (lockset.Key, bool) {
		k := lockset.Canon(addr)
		prm, ok := k.Root.(*ssa.Parameter)
		return k, ok && class[prm] == oTainted
	}
	ssau.AllInstrs(fn, func(in ssa.Instruction) {
		at := p.Pos(ssau.PosOf(in))
		switch x := in.(type) {
		case *ssa.Store:
			k, ok := taintedPath(x.Addr)
			if !ok {
				return
			}
			deep := strings.Contains(k.Path, "^")
			if _, isIdx := x.Addr.(*ssa.IndexAddr); isIdx && deep {
				rep.problems = append(rep.problems, "element of receiver-held storage overwritten in place at "+at+": a value handed out earlier shares that array")
				return
			}
			if !refCapable(x.Val.Type(), 0) {
				return
			}
			// direct field of the receiver: only the fields Value() reads are the current value
			if !deep {
				fname := k.Field()
				if i := strings.LastIndex(fname, "."); i >= 0 {
					fname = fname[i+1:]
				}
				if len(vf) > 0 && !vf[fname] {
					return
				}
				switch o := f.classify(x.Val); o {
				case oTainted:
					rep.problems = append(rep.problems, "new value of "+fname+" stored at "+at+" is built from storage of the value it replaces (a copy of a struct / slice / map shares its backing arrays)")
				case oMessage:
					rep.message = append(rep.message, fname+" keeps the caller's message buffer (stored at "+at+")")
				case oUnknown:
					rep.undecided = append(rep.undecided, "origin of the value stored into "+fname+" at "+at+" not classified")
				default:
					rep.facts = append(rep.facts, fname+" ← freshly built value at "+at)
				}
				return
			}
			if f.classify(x.Val) == oTainted {
				rep.problems = append(rep.problems, "receiver-held object updated in place at "+at+" with storage of the old value")
			}
		case *ssa.MapUpdate:
			if f.classify(x.Map) == oTainted {
				rep.problems = append(rep.problems, "map held by the receiver updated in place at "+at+": copies of the old value share that map")
			}
		case ssa.CallInstruction:
			cc := x.Common()
			obj := ssau.CalleeObj(x)
			if b := ssau.Builtin(x); b == "copy" || b == "clear" || b == "delete" {
				if f.classify(cc.Args[0]) == oTainted {
					rep.problems = append(rep.problems, b+"() writes into receiver-held storage at "+at)
				}
				return
			}
			callee := cc.StaticCallee()
			if callee != nil && a.inModule(callee) && len(callee.Blocks) > 0 {
				// follow repository helpers with the classification of their actuals
				nc := map[*ssa.Parameter]origin{}
				interesting := false
				for i, prm := range callee.Params {
					if i < len(cc.Args) {
						nc[prm] = f.classify(cc.Args[i])
						if nc[prm] == oTainted {
							interesting = true
						}
					}
				}
				if interesting && a.classify(x) == "" {
					if rn := ssau.RecvNamed(objOf(callee)); rn != nil && callee.Name() == "Value" {
						return // reading the current value is not an update
					}
					a.freshBody(callee, nc, vf, recvNamed, rep, depth+1, seen)
				}
				return
			}
			if obj == nil || a.inModuleObj(obj) || !decoderLike(obj) {
				return
			}
			args := cc.Args
			for i, arg := range args {
				if i == 0 && !cc.IsInvoke() && obj.Type().(*types.Signature).Recv() != nil {
					continue // the decoder object itself
				}
				switch arg.Type().Underlying().(type) {
				case *types.Pointer, *types.Slice, *types.Map, *types.Interface:
				default:
					continue
				}
				switch o := f.classify(arg); o {
				case oTainted:
					rep.problems = append(rep.problems, shortObj(obj)+" at "+at+" decodes into storage of the current value (json/decoders re-use existing slices and maps): values handed out earlier are rewritten in place")
				case oFresh:
					if _, isPtr := ssau.Strip(arg).Type().Underlying().(*types.Pointer); isPtr {
						rep.facts = append(rep.facts, shortObj(obj)+" at "+at+" decodes into a zero-initialised local / new object")
					}
				}
			}
		}
	})
}

func shortObj(o *types.Func) string {
	if o.Pkg() != nil {
		return o.Pkg().Name() + "." + o.Name()
	}
	return o.Name()
}

func (a *anchors) inModuleObj(o *types.Func) bool {
	if o.Pkg() == nil {
		return false
	}
	pp := o.Pkg().Path()
	return pp == load.Module || strings.HasPrefix(pp, load.Module+"/")
}

func (a *anchors) fresh1() {
	c := a.c
	p := c.P
	im, _, _ := types.LookupFieldOrMethod(a.paramIface, false, a.pkg.Pkg, "ApplyMessage")
	if im == nil {
		return
	}
	imSig, _ := im.Type().(*types.Signature)
	var impls []*ssa.Function
	for _, fn := range a.libraryFuncs() {
		if fn.Parent() != nil || fn.Name() != im.Name() || fn.Signature.Recv() == nil || len(fn.Params) == 0 {
			continue
		}
		rt := fn.Signature.Recv().Type()
		ok := a.implementsParameter(rt)
		if !ok && imSig != nil {
			if n := ssau.NamedOf(rt); n != nil && n.TypeParams().Len() > 0 &&
				types.Identical(types.NewSignatureType(nil, nil, nil, imSig.Params(), imSig.Results(), false),
					types.NewSignatureType(nil, nil, nil, fn.Signature.Params(), fn.Signature.Results(), false)) {
				ok = true
			}
		}
		if ok {
			impls = append(impls, fn)
		}
	}
	// supporting fact for the message-buffer assumption: request readers hand over fresh buffers
	readers := 0
	if ep := p.SSAPkg("generator/endpoint"); ep != nil {
		for _, fn := range p.FuncsOf(ep) {
			res := fn.Signature.Results()
			if res.Len() == 0 {
				continue
			}
			if sl, ok := res.At(0).Type().Underlying().(*types.Slice); !ok || !types.Identical(sl.Elem(), types.Typ[types.Byte]) {
				continue
			}
			ssau.AllInstrs(fn, func(in ssa.Instruction) {
				if ret, ok := in.(*ssa.Return); ok && len(ret.Results) > 0 {
					v := ret.Results[0]
					if ex, ok := v.(*ssa.Extract); ok {
						v = ex.Tuple
					}
					if call, ok := v.(*ssa.Call); ok {
						if o := ssau.CalleeObj(call); o != nil && ssau.IsFunc(o, "io", "ReadAll") {
							readers++
						}
					}
				}
			})
		}
	}
	ctlBad, ctlGood := false, true
	for _, fn := range impls {
		recvNamed := ssau.NamedOf(fn.Signature.Recv().Type())
		vf := map[string]bool{}
		if recvNamed != nil {
			vf = a.valueFields(recvNamed)
		}
		class := map[*ssa.Parameter]origin{}
		for i, prm := range fn.Params {
			if i == 0 {
				class[prm] = oTainted
			} else {
				class[prm] = oMessage
			}
		}
		rep := &freshReport{}
		a.freshBody(fn, class, vf, recvNamed, rep, 0, map[*ssa.Function]bool{})
		name := p.FuncName(fn)
		pos := p.Pos(fn.Pos())
		sort.Strings(rep.problems)
		sort.Strings(rep.undecided)
		facts := append([]string{}, rep.facts...)
		if len(vf) > 0 {
			var fs []string
			for k := range vf {
				fs = append(fs, k)
			}
			sort.Strings(fs)
			facts = append(facts, "current-value fields (read by Value()): "+strings.Join(fs, ", "))
		}
		if p.IsControl(fn.Pos()) {
			if strings.Contains(name, "Bad") && len(rep.problems) > 0 {
				ctlBad = true
			}
			if strings.Contains(name, "Good") && (len(rep.problems) > 0 || len(rep.undecided) > 0) {
				ctlGood = false
			}
			continue
		}
		switch {
		case len(rep.problems) > 0:
			c.R.Violate("FRESH-1", name, pos, rep.problems[0], append(rep.problems[1:], facts...)...)
		case len(rep.undecided) > 0:
			c.R.Undecide("FRESH-1", name, pos, rep.undecided[0])
		default:
			if len(rep.message) > 0 {
				facts = append(facts, rep.message...)
				facts = append(facts, fmt.Sprintf("assumed: the caller never re-uses the message buffer (%d request readers in generator/endpoint return io.ReadAll's fresh buffer)", readers))
				c.R.Assume("FRESH-1: a parameter that keeps the message slice itself (" + name + ") relies on callers of Instance.UpdateParameter not re-using that buffer; the edit server reads each request body with io.ReadAll")
			}
			c.R.Hold("FRESH-1", name, pos, facts...)
		}
	}
	c.R.Extra["applymessage_implementations"] = len(impls)
	c.R.Floor("FRESH-1", 4)
	if len(p.Controls) > 0 {
		v := ob.Holds
		if ctlBad {
			v = ob.Violation
		}
		c.R.Control("FRESH-1", "control:bad", "generator/parameter/zz_verif_control_c13.go", v, ob.Violation, "decode on top of the current value must be reported")
		v = ob.Holds
		if !ctlGood {
			v = ob.Violation
		}
		c.R.Control("FRESH-1", "control:good", "generator/parameter/zz_verif_control_c13.go", v, ob.Holds, "decode into a fresh object / fresh copy of the message must stay silent")
	}
}

// FRESH-1, read side: the message ToMessage / ParameterData hands to a reader is that reader's own:
// every returned slice is newly allocated in the call (json.Marshal result, bytes of a local buffer,
// append onto nil, conversions) or is the parameter's current value itself (the result of the type's
// Value(), which FRESH-1 keeps immutable) — never storage the parameter keeps and re-uses (a scratch
// buffer field, a re-sliced field): a later read would overwrite bytes an earlier reader still holds.
func (a *anchors) freshRead() {
	c := a.c
	p := c.P
	im, _, _ := types.LookupFieldOrMethod(a.paramIface, false, a.pkg.Pkg, "ToMessage")
	if im == nil {
		return
	}
	imSig, _ := im.Type().(*types.Signature)
	ctlBad, ctlGood := false, true
	n := 0
	for _, fn := range a.libraryFuncs() {
		if fn.Parent() != nil || fn.Name() != im.Name() || fn.Signature.Recv() == nil || len(fn.Params) == 0 {
			continue
		}
		rt := fn.Signature.Recv().Type()
		ok := a.implementsParameter(rt)
		if !ok && imSig != nil {
			if nn := ssau.NamedOf(rt); nn != nil && nn.TypeParams().Len() > 0 &&
				types.Identical(types.NewSignatureType(nil, nil, nil, imSig.Params(), imSig.Results(), false),
					types.NewSignatureType(nil, nil, nil, fn.Signature.Params(), fn.Signature.Results(), false)) {
				ok = true
			}
		}
		if !ok {
			continue
		}
		recv := fn.Params[0]
		class := map[*ssa.Parameter]origin{recv: oTainted}
		f := &freshFn{a: a, fn: fn, class: class, memo: map[ssa.Value]origin{}, busy: map[ssa.Value]bool{}}
		isOwnValue := func(v ssa.Value) bool {
			call, ok := ssau.Strip(v).(*ssa.Call)
			if !ok || call.Call.IsInvoke() || len(call.Call.Args) == 0 {
				return false
			}
			o := ssau.CalleeObj(call)
			if o == nil || o.Name() != "Value" {
				return false
			}
			rn, cn := ssau.NamedOf(rt), ssau.RecvNamed(o)
			if rn == nil || cn == nil || rn.Origin().Obj() != cn.Origin().Obj() {
				return false
			}
			return f.classify(call.Call.Args[0]) == oTainted || call.Call.Args[0] == ssa.Value(recv)
		}
		var problems, undecided, facts []string
		ssau.AllInstrs(fn, func(in ssa.Instruction) {
			ret, ok := in.(*ssa.Return)
			if !ok || in.Block() == fn.Recover {
				return
			}
			for _, rv := range ret.Results {
				if !refCapable(rv.Type(), 0) {
					continue
				}
				at := p.Pos(ssau.PosOf(in))
				switch {
				case isOwnValue(rv):
					facts = append(facts, "returns the current value itself at "+at+" (Value(); kept immutable by FRESH-1 on the update side)")
				default:
					switch o := f.classify(rv); o {
					case oFresh:
						facts = append(facts, "returns newly allocated bytes at "+at)
					case oTainted:
						problems = append(problems, "the message returned at "+at+" is (part of) storage the parameter keeps: every reader gets the same backing array, and the next ToMessage / update overwrites bytes an earlier reader still holds")
					default:
						undecided = append(undecided, "origin of the message returned at "+at+" not classified")
					}
				}
			}
		})
		name := p.FuncName(fn)
		pos := p.Pos(fn.Pos())
		if p.IsControl(fn.Pos()) {
			if strings.Contains(name, "Bad") && len(problems) > 0 {
				ctlBad = true
			}
			if strings.Contains(name, "Good") && len(problems)+len(undecided) > 0 {
				ctlGood = false
			}
			continue
		}
		n++
		sort.Strings(problems)
		facts = dedupStrings(facts)
		switch {
		case len(problems) > 0:
			c.R.Violate("FRESH-1", name, pos, problems[0], append(problems[1:], facts...)...)
		case len(undecided) > 0:
			c.R.Undecide("FRESH-1", name, pos, undecided[0])
		default:
			c.R.Hold("FRESH-1", name, pos, facts...)
		}
	}
	c.R.Extra["tomessage_implementations"] = n
	if len(p.Controls) > 0 {
		v := ob.Holds
		if ctlBad {
			v = ob.Violation
		}
		c.R.Control("FRESH-1", "control:read-bad", "generator/parameter/zz_verif_control_c13.go", v, ob.Violation, "ToMessage that returns a re-used buffer must be reported")
		v = ob.Holds
		if !ctlGood {
			v = ob.Violation
		}
		c.R.Control("FRESH-1", "control:read-good", "generator/parameter/zz_verif_control_c13.go", v, ob.Holds, "ToMessage that returns fresh bytes must stay silent")
	}
}

func dedupStrings(xs []string) []string {
	sort.Strings(xs)
	var out []string
	for i, x := range xs {
		if i == 0 || xs[i-1] != x {
			out = append(out, x)
		}
	}
	return out
}
