// Package lockset: a must-hold lockset dataflow over go/ssa, shared by the CONC
// rules of C13 and C10. It decides, for every instruction of a function, which
// sync.Mutex / sync.RWMutex objects are certainly held (dominated by Lock on every
// path, not yet passed Unlock; `defer Unlock` keeps the mutex held up to RunDefers).
//
// Mutex identity is an access path: (root value, ".field" / "^" load steps). Roots
// are canonicalised through closure cells (a `new T` cell with a single store is
// read as the stored value; a free variable is read as its binding at the unique
// MakeClosure site), so a key computed inside a spawned closure compares equal to
// the key computed in the enclosing function.
package lockset

import (
	"go/types"
	"sort"
	"strings"

	"golang.org/x/tools/go/ssa"

	"polycheck/ssau"
)

// Mode of holding.
type Mode int

const (
	Shared Mode = 1 // RLock
	Excl   Mode = 2 // Lock
)

func (m Mode) String() string {
	if m == Shared {
		return "shared"
	}
	if m == Excl {
		return "exclusive"
	}
	return "none"
}

// Key identifies one mutex object by access path.
type Key struct {
	Root ssa.Value // canonical root (Parameter, Global, Alloc, opaque value); nil = unknown
	Path string    // e.g. ".graph.Instance.producerLock" or ".marching.MarchingCanvas.chunkMutex^"
}

// Field returns the trailing field step of the path ("pkg.Type.field"), without load marks.
func (k Key) Field() string {
	p := strings.TrimRight(k.Path, "^")
	if i := strings.LastIndex(p, "|"); i >= 0 {
		return p[i+1:]
	}
	return p
}

func (k Key) String() string {
	r := "?"
	if k.Root != nil {
		r = k.Root.Name()
		if p, ok := k.Root.(*ssa.Parameter); ok {
			r = p.Name()
		}
	}
	return r + strings.ReplaceAll(k.Path, "|", ".")
}

// State is the set of certainly-held mutexes.
type State map[Key]Mode

func (s State) clone() State {
	o := make(State, len(s))
	for k, v := range s {
		o[k] = v
	}
	return o
}

func (s State) equal(o State) bool {
	if len(s) != len(o) {
		return false
	}
	for k, v := range s {
		if o[k] != v {
			return false
		}
	}
	return true
}

// Sig renders a state deterministically (memo key / facts).
func (s State) Sig() string {
	var parts []string
	for k, m := range s {
		parts = append(parts, k.String()+":"+m.String())
	}
	sort.Strings(parts)
	return strings.Join(parts, ",")
}

// HasField reports the strongest mode in which some mutex whose trailing field is
// `field` is held.
func (s State) HasField(field string) Mode {
	var best Mode
	for k, m := range s {
		if k.Field() == field && m > best {
			best = m
		}
	}
	return best
}

func meet(a, b State) State {
	o := State{}
	for k, m := range a {
		if m2, ok := b[k]; ok {
			if m2 < m {
				m = m2
			}
			o[k] = m
		}
	}
	return o
}

// OpKind of a lock operation.
type OpKind int

const (
	OpLock OpKind = iota
	OpUnlock
	OpRLock
	OpRUnlock
)

func (k OpKind) String() string { return [...]string{"Lock", "Unlock", "RLock", "RUnlock"}[k] }

// Op is one recognised lock operation.
type Op struct {
	Instr    ssa.Instruction
	Kind     OpKind
	Key      Key
	Deferred bool
	RW       bool // on a sync.RWMutex
}

// ClassifyCall recognises calls of (*sync.Mutex|*sync.RWMutex).(Lock|Unlock|RLock|RUnlock).
func ClassifyCall(c ssa.CallInstruction) (Op, bool) {
	o := ssau.CalleeObj(c)
	if o == nil || o.Pkg() == nil || o.Pkg().Path() != "sync" {
		return Op{}, false
	}
	n := ssau.RecvNamed(o)
	if n == nil {
		return Op{}, false
	}
	tn := n.Obj().Name()
	if tn != "Mutex" && tn != "RWMutex" {
		return Op{}, false
	}
	var kind OpKind
	switch o.Name() {
	case "Lock":
		kind = OpLock
	case "Unlock":
		kind = OpUnlock
	case "RLock":
		kind = OpRLock
	case "RUnlock":
		kind = OpRUnlock
	default:
		return Op{}, false
	}
	cc := c.Common()
	if cc.IsInvoke() || len(cc.Args) == 0 {
		return Op{}, false
	}
	_, isDefer := c.(*ssa.Defer)
	return Op{Instr: c.(ssa.Instruction), Kind: kind, Key: Canon(cc.Args[0]), Deferred: isDefer, RW: tn == "RWMutex"}, true
}

// SingleStore returns the only value ever stored into the cell a (looking into
// closures that capture the cell), or nil.
func SingleStore(a *ssa.Alloc) ssa.Value {
	var val ssa.Value
	n := 0
	var visit func(addr ssa.Value) bool
	visit = func(addr ssa.Value) bool {
		for _, r := range ssau.Refs(addr) {
			switch r := r.(type) {
			case *ssa.Store:
				if r.Addr == addr {
					n++
					val = r.Val
				}
			case *ssa.MakeClosure:
				fn, _ := r.Fn.(*ssa.Function)
				if fn == nil {
					return false
				}
				for i, b := range r.Bindings {
					if b == addr && i < len(fn.FreeVars) {
						if !visit(fn.FreeVars[i]) {
							return false
						}
					}
				}
			case *ssa.UnOp, *ssa.DebugRef:
			case *ssa.FieldAddr, *ssa.IndexAddr:
				// partial writes through the cell: not a plain variable cell
				for _, rr := range ssau.Refs(r.(ssa.Value)) {
					if s, ok := rr.(*ssa.Store); ok && s.Addr == r.(ssa.Value) {
						n += 2
					}
				}
			default:
				// address escapes some other way (call argument, …)
				if _, ok := r.(ssa.CallInstruction); ok {
					n += 2
				}
			}
		}
		return true
	}
	if !visit(a) || n != 1 {
		return nil
	}
	return val
}

// ClosureSite returns the unique MakeClosure that creates fn, or nil.
func ClosureSite(fn *ssa.Function) *ssa.MakeClosure {
	p := fn.Parent()
	if p == nil {
		return nil
	}
	var site *ssa.MakeClosure
	count := 0
	var scan func(f *ssa.Function)
	scan = func(f *ssa.Function) {
		ssau.AllInstrs(f, func(in ssa.Instruction) {
			if mc, ok := in.(*ssa.MakeClosure); ok && mc.Fn == fn {
				site = mc
				count++
			}
		})
	}
	scan(p)
	if count != 1 {
		return nil
	}
	return site
}

// Canon canonicalises an address / pointer value into an access path.
func Canon(v ssa.Value) Key {
	return canon(v, 0)
}

func fieldStep(x ssa.Value, idx int) string {
	t := x.Type()
	if p, ok := t.Underlying().(*types.Pointer); ok {
		t = p.Elem()
	}
	owner := types.TypeString(t, func(p *types.Package) string { return p.Name() })
	st, _ := t.Underlying().(*types.Struct)
	name := "?"
	if st != nil && idx < st.NumFields() {
		name = st.Field(idx).Name()
	}
	return "|" + owner + "." + name
}

func canon(v ssa.Value, depth int) Key {
	if depth > 24 {
		return Key{Root: v}
	}
	switch x := v.(type) {
	case *ssa.FieldAddr:
		k := canon(x.X, depth+1)
		k.Path += fieldStep(x.X, x.Field)
		return k
	case *ssa.Field:
		k := canon(x.X, depth+1)
		k.Path += fieldStep(x.X, x.Field) + "'"
		return k
	case *ssa.UnOp:
		if x.Op.String() != "*" {
			return Key{Root: v}
		}
		switch a := x.X.(type) {
		case *ssa.Alloc:
			if sv := SingleStore(a); sv != nil {
				return canon(sv, depth+1)
			}
		case *ssa.FreeVar:
			// cell captured by reference: resolve to the binding in the parent
			if b := bindingOf(a); b != nil {
				if al, ok := b.(*ssa.Alloc); ok {
					if sv := SingleStore(al); sv != nil {
						return canon(sv, depth+1)
					}
				}
				k := canon(b, depth+1)
				k.Path += "^"
				return k
			}
		}
		k := canon(x.X, depth+1)
		k.Path += "^"
		return k
	case *ssa.FreeVar:
		if b := bindingOf(x); b != nil {
			return canon(b, depth+1)
		}
		return Key{Root: v}
	case *ssa.ChangeType:
		return canon(x.X, depth+1)
	case *ssa.Convert:
		return canon(x.X, depth+1)
	}
	return Key{Root: v}
}

func bindingOf(fv *ssa.FreeVar) ssa.Value {
	fn := fv.Parent()
	site := ClosureSite(fn)
	if site == nil {
		return nil
	}
	for i, f := range fn.FreeVars {
		if f == fv && i < len(site.Bindings) {
			return site.Bindings[i]
		}
	}
	return nil
}

// Exit is a function exit reached with mutexes still held.
type Exit struct {
	Instr ssa.Instruction // *ssa.Return or *ssa.Panic
	Held  State
}

// Result of analysing one function under one entry state.
type Result struct {
	Fn      *ssa.Function
	Ops     []Op
	before  map[ssa.Instruction]State
	Exits   []Exit // exits with a non-empty held set (locks acquired here or inherited)
	Unknown []ssa.Instruction
	// DoubleLock: Lock of a key already held (self-deadlock).
	DoubleLock []Op
	// BadUnlock: Unlock of a key not certainly held.
	BadUnlock []Op
}

// HeldBefore returns the must-held set immediately before in.
func (r *Result) HeldBefore(in ssa.Instruction) State {
	if s, ok := r.before[in]; ok {
		return s
	}
	return State{}
}

type blockState struct {
	held     State
	deferred State // keys whose Unlock is certainly deferred
	set      bool
}

// Analyze runs the must-hold dataflow on fn with the given entry state.
func Analyze(fn *ssa.Function, entry State) *Result {
	res := &Result{Fn: fn, before: map[ssa.Instruction]State{}}
	if fn == nil || len(fn.Blocks) == 0 {
		return res
	}
	if entry == nil {
		entry = State{}
	}
	in := make([]blockState, len(fn.Blocks))
	in[0] = blockState{held: entry.clone(), deferred: State{}, set: true}
	if fn.Recover != nil {
		// reached after a panic once the deferred calls have run
		in[fn.Recover.Index] = blockState{held: State{}, deferred: State{}, set: true}
	}
	ops := map[ssa.Instruction]Op{}
	for _, b := range fn.Blocks {
		for _, instr := range b.Instrs {
			if c, ok := instr.(ssa.CallInstruction); ok {
				if op, ok := ClassifyCall(c); ok {
					ops[instr] = op
					res.Ops = append(res.Ops, op)
				}
			}
		}
	}
	transfer := func(b *ssa.BasicBlock, st blockState, record bool) blockState {
		held, def := st.held.clone(), st.deferred.clone()
		for _, instr := range b.Instrs {
			if record {
				res.before[instr] = held.clone()
			}
			if d, ok := instr.(*ssa.Defer); ok {
				// defer func() { …; mu.Unlock() }() — the closure releases on the way out
				for _, k := range DeferredClosureUnlocks(d) {
					def[k] = Excl
				}
			}
			if op, ok := ops[instr]; ok {
				switch {
				case op.Deferred && (op.Kind == OpUnlock || op.Kind == OpRUnlock):
					def[op.Key] = Excl
				case op.Deferred:
					// deferred Lock: ignore (never seen); conservatively nothing is acquired
				case op.Kind == OpLock:
					if record {
						if _, dup := held[op.Key]; dup {
							res.DoubleLock = append(res.DoubleLock, op)
						}
					}
					held[op.Key] = Excl
				case op.Kind == OpRLock:
					if held[op.Key] < Shared {
						held[op.Key] = Shared
					}
				case op.Kind == OpUnlock || op.Kind == OpRUnlock:
					if record {
						if _, ok := held[op.Key]; !ok {
							res.BadUnlock = append(res.BadUnlock, op)
						}
					}
					delete(held, op.Key)
				}
				continue
			}
			switch x := instr.(type) {
			case *ssa.RunDefers:
				for k := range def {
					delete(held, k)
				}
				def = State{}
			case *ssa.Return:
				if record && len(held) > 0 {
					res.Exits = append(res.Exits, Exit{Instr: x, Held: held.clone()})
				}
			case *ssa.Panic:
				if record {
					// deferred unlocks run while panicking
					h := held.clone()
					for k := range def {
						delete(h, k)
					}
					if len(h) > 0 {
						res.Exits = append(res.Exits, Exit{Instr: x, Held: h})
					}
				}
			}
		}
		return blockState{held: held, deferred: def, set: true}
	}
	// fixpoint (must analysis: start from "unset" = top)
	work := []*ssa.BasicBlock{fn.Blocks[0]}
	if fn.Recover != nil {
		work = append(work, fn.Recover)
	}
	inq := map[*ssa.BasicBlock]bool{}
	for _, b := range work {
		inq[b] = true
	}
	iter := 0
	for len(work) > 0 && iter < 100000 {
		iter++
		b := work[0]
		work = work[1:]
		inq[b] = false
		out := transfer(b, in[b.Index], false)
		for _, s := range b.Succs {
			cur := in[s.Index]
			var nw blockState
			if !cur.set {
				nw = blockState{held: out.held.clone(), deferred: out.deferred.clone(), set: true}
			} else {
				nw = blockState{held: meet(cur.held, out.held), deferred: meet(cur.deferred, out.deferred), set: true}
			}
			if !cur.set || !nw.held.equal(cur.held) || !nw.deferred.equal(cur.deferred) {
				in[s.Index] = nw
				if !inq[s] {
					inq[s] = true
					work = append(work, s)
				}
			}
		}
	}
	for _, b := range fn.Blocks {
		if in[b.Index].set {
			transfer(b, in[b.Index], true)
		}
	}
	return res
}

// Translate maps the caller's held set at a call into the callee's entry state:
// a held key whose path extends the access path of actual j is re-rooted at the
// callee's formal j. Keys rooted at globals are kept as they are.
func Translate(held State, args []ssa.Value, callee *ssa.Function) State {
	out := State{}
	if callee == nil {
		return out
	}
	for k, m := range held {
		if _, ok := k.Root.(*ssa.Global); ok {
			out[k] = m
			continue
		}
		for j, a := range args {
			if j >= len(callee.Params) {
				break
			}
			ak := Canon(a)
			if ak.Root == k.Root && ak.Root != nil && strings.HasPrefix(k.Path, ak.Path) {
				nk := Key{Root: callee.Params[j], Path: k.Path[len(ak.Path):]}
				if old, ok := out[nk]; !ok || old < m {
					out[nk] = m
				}
			}
		}
	}
	return out
}

// DeferredClosureUnlocks returns the mutexes certainly released by a deferred
// function literal (Unlock in a block that dominates every return of the literal).
func DeferredClosureUnlocks(d *ssa.Defer) []Key {
	mc, ok := d.Call.Value.(*ssa.MakeClosure)
	if !ok {
		return nil
	}
	fn, _ := mc.Fn.(*ssa.Function)
	if fn == nil || len(fn.Blocks) == 0 {
		return nil
	}
	var out []Key
	for _, b := range fn.Blocks {
		for _, in := range b.Instrs {
			c, ok := in.(*ssa.Call)
			if !ok {
				continue
			}
			op, ok := ClassifyCall(c)
			if !ok || (op.Kind != OpUnlock && op.Kind != OpRUnlock) {
				continue
			}
			dominatesAll := true
			for _, rb := range fn.Blocks {
				if len(rb.Instrs) == 0 {
					continue
				}
				if _, isRet := rb.Instrs[len(rb.Instrs)-1].(*ssa.Return); isRet && rb != fn.Recover && !b.Dominates(rb) {
					dominatesAll = false
				}
			}
			if dominatesAll {
				out = append(out, op.Key)
			}
		}
	}
	return out
}
