package c13

import (
	"fmt"
	"go/types"
	"sort"
	"strings"

	"golang.org/x/tools/go/callgraph"
	"golang.org/x/tools/go/ssa"

	"polycheck/props/c13/lockset"
	"polycheck/ssau"
)

// ---------------------------------------------------------------------------
// CONC-4/no-copy: the Instance (and therefore its mutex) never exists by value.

func (a *anchors) containsInstance(t types.Type, depth int) bool {
	if depth > 6 || t == nil {
		return false
	}
	if n, ok := t.(*types.Named); ok && n.Origin().Obj() == a.inst.Obj() {
		return true
	}
	switch u := t.Underlying().(type) {
	case *types.Struct:
		for i := 0; i < u.NumFields(); i++ {
			if a.containsInstance(u.Field(i).Type(), depth+1) {
				return true
			}
		}
	case *types.Array:
		return a.containsInstance(u.Elem(), depth+1)
	case *types.Tuple:
		for i := 0; i < u.Len(); i++ {
			if a.containsInstance(u.At(i).Type(), depth+1) {
				return true
			}
		}
	}
	return false
}

func (a *anchors) noCopy() {
	c := a.c
	p := c.P
	// (1) every declared method has a pointer receiver
	for i := 0; i < a.inst.NumMethods(); i++ {
		m := a.inst.Method(i)
		if p.IsControl(m.Pos()) {
			continue
		}
		construct := graphRel + ".Instance." + m.Name() + ":receiver"
		sig := m.Type().(*types.Signature)
		if _, ok := sig.Recv().Type().(*types.Pointer); ok {
			c.R.Hold("CONC-4/no-copy", construct, p.Pos(m.Pos()))
		} else {
			c.R.Violate("CONC-4/no-copy", construct, p.Pos(m.Pos()),
				"method has a value receiver: every call copies the Instance together with its mutex, so the lock that is taken protects nothing")
		}
	}
	// (2) no SSA value of a type that contains the Instance by value exists in library code
	n := 0
	var found []string
	for _, fn := range a.libraryFuncs() {
		if p.IsControl(fn.Pos()) {
			continue
		}
		n++
		check := func(v ssa.Value, at ssa.Instruction) {
			if v == nil || v.Type() == nil {
				return
			}
			if _, isConst := v.(*ssa.Const); isConst {
				return
			}
			if a.containsInstance(v.Type(), 0) {
				pos := fn.Pos()
				if at != nil {
					pos = ssau.PosOf(at)
				}
				found = append(found, p.FuncName(fn)+" at "+p.Pos(pos))
			}
		}
		for _, prm := range fn.Params {
			check(prm, nil)
		}
		for _, fv := range fn.FreeVars {
			check(fv, nil)
		}
		ssau.AllInstrs(fn, func(in ssa.Instruction) {
			if v, ok := in.(ssa.Value); ok {
				check(v, in)
			}
		})
	}
	construct := graphRel + ".Instance:by-value"
	if len(found) == 0 {
		c.R.Hold("CONC-4/no-copy", construct, p.Pos(a.inst.Obj().Pos()), fmt.Sprintf("%d library functions scanned: no value whose type contains graph.Instance by value", n))
	} else {
		sort.Strings(found)
		if len(found) > 6 {
			found = found[:6]
		}
		c.R.Violate("CONC-4/no-copy", construct, p.Pos(a.inst.Obj().Pos()),
			"a graph.Instance value (not a pointer) is materialised: the copy carries its own mutex", found...)
	}
}

// ---------------------------------------------------------------------------
// Out-of-scope notes: what the other Instance methods touch, and whether an HTTP
// handler reaches them. The property quantifies over the three entry points only,
// so this is evidence, not an obligation.

var mutatingNodeCalls = map[string]bool{
	"SetInput": true, "SetName": true, "SetDescription": true, "FromJSON": true, "ApplyMessage": true, "InitializeForCLI": true,
}

type methodEffects struct {
	name       string
	evals      map[string]bool
	mutates    map[string]bool
	nodeReads  map[string]bool
	fieldReads map[string]bool
	fieldWrite map[string]bool
	locks      bool
	handlers   []string
}

func (a *anchors) otherMethods(entries []*ssa.Function) {
	c := a.c
	p := c.P
	isEntry := map[string]bool{}
	for _, e := range entries {
		isEntry[e.Name()] = true
	}
	var all []methodEffects
	for i := 0; i < a.inst.NumMethods(); i++ {
		m := a.inst.Method(i)
		if p.IsControl(m.Pos()) || isEntry[m.Name()] || !m.Exported() {
			continue
		}
		fn := p.SSA.FuncValue(m)
		if fn == nil || len(fn.Blocks) == 0 {
			continue
		}
		me := methodEffects{name: m.Name(), evals: map[string]bool{}, mutates: map[string]bool{}, nodeReads: map[string]bool{},
			fieldReads: map[string]bool{}, fieldWrite: map[string]bool{}}
		w := &walker{a: a, seen: map[string]bool{}, fns: map[*ssa.Function]bool{}}
		var root ssa.Value
		if len(fn.Params) > 0 {
			root = fn.Params[0]
		}
		w.walk(walkCtx{fn: fn, instRoot: root, entry: lockset.State{}}, 0, "")
		unheld := false
		for _, e := range w.events {
			if e.mode == 0 {
				unheld = true
			}
			switch {
			case e.field != nil && e.write:
				me.fieldWrite[e.field.Name()] = true
			case e.field != nil:
				me.fieldReads[e.field.Name()] = true
			case e.lockIn:
			default:
				me.evals[strings.TrimPrefix(e.key, "call ")] = true
			}
		}
		for f := range w.fns {
			ssau.AllInstrs(f, func(in ssa.Instruction) {
				ci, ok := in.(ssa.CallInstruction)
				if !ok {
					return
				}
				if op, ok := lockset.ClassifyCall(ci); ok && a.isInstanceMutexKey(op.Key) {
					me.locks = true
				}
				if !ci.Common().IsInvoke() {
					return
				}
				o := ci.Common().Method
				if o == nil || o.Pkg() == nil {
					return
				}
				pp := o.Pkg().Path()
				if !strings.HasSuffix(pp, "/nodes") && !strings.HasSuffix(pp, "/generator/graph") {
					return
				}
				if a.classify(ci) != "" {
					return
				}
				if mutatingNodeCalls[o.Name()] {
					me.mutates[o.Name()] = true
				} else {
					me.nodeReads[o.Name()] = true
				}
			})
		}
		_ = unheld
		me.handlers = a.handlersReaching(fn)
		all = append(all, me)
	}
	sort.Slice(all, func(i, j int) bool { return all[i].name < all[j].name })
	var rows []map[string]any
	var readers []string
	for _, me := range all {
		touches := len(me.evals)+len(me.mutates)+len(me.fieldWrite) > 0 || len(me.nodeReads)+len(me.fieldReads) > 0
		if !touches {
			continue
		}
		row := map[string]any{
			"method":                "Instance." + me.name,
			"takes_instance_mutex":  me.locks,
			"evaluating_calls":      setList(me.evals),
			"node_mutations":        setList(me.mutates),
			"node_reads":            setList(me.nodeReads),
			"instance_field_writes": setList(me.fieldWrite),
			"instance_field_reads":  setList(me.fieldReads),
			"http_handlers":         me.handlers,
		}
		rows = append(rows, row)
		if !me.locks && len(me.handlers) > 0 && (len(me.evals)+len(me.mutates)+len(me.fieldWrite) > 0) {
			c.R.Note("out of scope (not one of the three entry points): Instance.%s runs without the Instance mutex; evaluates:%v mutates-nodes:%v writes-fields:%v; reachable from handler(s) %s",
				me.name, setList(me.evals), setList(me.mutates), setList(me.fieldWrite), strings.Join(me.handlers, ", "))
		} else if !me.locks && len(me.handlers) > 0 {
			readers = append(readers, "Instance."+me.name)
		}
	}
	if len(readers) > 0 {
		c.R.Note("out of scope: %d further Instance methods reachable from HTTP handlers read node / instance state without the Instance mutex (details in coverage.other_instance_methods): %s",
			len(readers), strings.Join(readers, ", "))
	}
	c.R.Extra["other_instance_methods"] = rows
}

func setList(m map[string]bool) []string {
	out := []string{}
	for k := range m {
		out = append(out, k)
	}
	sort.Strings(out)
	return out
}

// handlerShaped: a function that serves an HTTP request (has a *net/http.Request or an
// endpoint.Request[...] parameter).
func handlerShaped(fn *ssa.Function) bool {
	for _, prm := range fn.Params {
		ts := prm.Type().String()
		if strings.Contains(ts, "net/http.Request") || strings.Contains(ts, "generator/endpoint.Request[") {
			return true
		}
	}
	return false
}

func (a *anchors) handlersReaching(fn *ssa.Function) []string {
	cg := a.cgForNotes
	if cg == nil {
		return nil
	}
	p := a.c.P
	seen := map[*ssa.Function]bool{fn: true}
	work := []*ssa.Function{fn}
	found := map[string]bool{}
	steps := 0
	for len(work) > 0 && steps < 4000 {
		steps++
		f := work[0]
		work = work[1:]
		n := cg.Nodes[f]
		if n == nil {
			continue
		}
		for _, e := range n.In {
			g := e.Caller.Func
			if seen[g] || !a.inModule(g) || a.isExample(g) {
				continue
			}
			// only follow static edges and closures' dynamic edges inside the generator packages:
			// CHA's "every function of that signature" edges would drown the note in noise
			if e.Site != nil && e.Site.Common().StaticCallee() == nil && !e.Site.Common().IsInvoke() {
				continue
			}
			if e.Site != nil && e.Site.Common().IsInvoke() {
				continue
			}
			seen[g] = true
			if handlerShaped(g) {
				found[p.FuncName(g)] = true
				continue
			}
			work = append(work, g)
		}
	}
	out := setList(found)
	if len(out) > 4 {
		out = append(out[:4], fmt.Sprintf("… %d more", len(out)-4))
	}
	return out
}

var _ *callgraph.Graph
