package c13

import (
	"go/token"
	"go/types"
	"sort"
	"strings"

	"golang.org/x/tools/go/ssa"

	"polycheck/ob"
	"polycheck/props/c13/lockset"
	"polycheck/ssau"
)

// ---------------------------------------------------------------------------
// CONC-10: commit only after success. A node is marked up to date (version, recorded dependency
// versions, changed-flag, cached value) only on the normal completion path of its Process call: the
// stores are dominated by the call and are not made by a deferred function (which also runs while
// Process is panicking — the server recovers, and every later read is served the stale cache as if it
// were current), unless the deferred stores are guarded by recover() == nil.

// storesToReceiver: does fn (a method / literal) store into fields of the object recv denotes?
func (a *anchors) storesReceiverState(fn *ssa.Function, isRecv func(ssa.Value) bool, depth int, seen map[*ssa.Function]bool) []ssa.Instruction {
	fn = origin0(fn)
	if fn == nil || seen[fn] || depth > 3 || len(fn.Blocks) == 0 {
		return nil
	}
	seen[fn] = true
	var out []ssa.Instruction
	ssau.AllInstrs(fn, func(in ssa.Instruction) {
		switch x := in.(type) {
		case *ssa.Store:
			k := lockset.Canon(x.Addr)
			if k.Path != "" && isRecv(k.Root) {
				out = append(out, in)
			}
		case *ssa.Call:
			callee := origin0(x.Call.StaticCallee())
			if callee == nil || !a.inModule(callee) || len(x.Call.Args) == 0 {
				return
			}
			if k := lockset.Canon(x.Call.Args[0]); k.Path == "" && isRecv(k.Root) && len(callee.Params) > 0 {
				cr := callee.Params[0]
				if len(a.storesReceiverState(callee, func(v ssa.Value) bool { return v == ssa.Value(cr) }, depth+1, seen)) > 0 {
					out = append(out, in)
				}
			}
		}
	})
	return out
}

func (a *anchors) conc10() {
	c := a.c
	p := c.P
	np := p.SSAPkg("nodes")
	if np == nil {
		return
	}
	ctlBad := false
	n := 0
	for _, fn := range p.FuncsOf(np) {
		if fn.Parent() != nil || p.IsTestFile(fn.Pos()) || len(fn.Params) == 0 || fn.Signature.Recv() == nil {
			continue
		}
		var procCall ssa.Instruction
		ssau.AllInstrs(fn, func(in ssa.Instruction) {
			if call, ok := in.(*ssa.Call); ok && call.Call.IsInvoke() && call.Call.Method != nil &&
				call.Call.Method.Name() == "Process" && call.Call.Method.Pkg() == np.Pkg {
				procCall = in
			}
		})
		if procCall == nil {
			continue
		}
		recv := fn.Params[0]
		isRecv := func(v ssa.Value) bool { return v == ssa.Value(recv) }
		var problems, facts []string
		// (1) commit stores in the function itself are dominated by the Process call
		for _, st := range a.storesReceiverState(fn, isRecv, 0, map[*ssa.Function]bool{}) {
			if st == procCall {
				continue
			}
			if !ssau.Before(procCall, st) {
				problems = append(problems, "node state is written at "+p.Pos(ssau.PosOf(st))+" on a path that has not completed Process()")
			}
		}
		// (2) deferred functions must not commit unless guarded by recover() == nil
		ssau.AllInstrs(fn, func(in ssa.Instruction) {
			d, ok := in.(*ssa.Defer)
			if !ok {
				return
			}
			var body *ssa.Function
			if mc, ok := d.Call.Value.(*ssa.MakeClosure); ok {
				body, _ = mc.Fn.(*ssa.Function)
			} else {
				body = origin0(d.Call.StaticCallee())
			}
			if body == nil || !a.inModule(body) {
				return
			}
			// inside a literal the receiver is a captured cell that resolves to fn's parameter
			stores := a.storesReceiverState(body, func(v ssa.Value) bool {
				if v == ssa.Value(recv) {
					return true
				}
				if len(body.Params) > 0 && d.Call.StaticCallee() != nil && len(d.Call.Args) > 0 && v == ssa.Value(body.Params[0]) {
					return lockset.Canon(d.Call.Args[0]).Root == ssa.Value(recv)
				}
				return false
			}, 0, map[*ssa.Function]bool{})
			if len(stores) == 0 {
				return
			}
			// guarded by recover() == nil ?
			var okSucc *ssa.BasicBlock
			ssau.AllInstrs(body, func(bi ssa.Instruction) {
				ifi, ok := bi.(*ssa.If)
				if !ok {
					return
				}
				cmp, ok := ifi.Cond.(*ssa.BinOp)
				if !ok || (cmp.Op != token.EQL && cmp.Op != token.NEQ) {
					return
				}
				isRecover := func(v ssa.Value) bool {
					call, ok := v.(*ssa.Call)
					return ok && ssau.Builtin(call) == "recover"
				}
				isNil := func(v ssa.Value) bool { cst, ok := v.(*ssa.Const); return ok && cst.IsNil() }
				if (isRecover(cmp.X) && isNil(cmp.Y)) || (isRecover(cmp.Y) && isNil(cmp.X)) {
					if cmp.Op == token.EQL {
						okSucc = bi.Block().Succs[0]
					} else {
						okSucc = bi.Block().Succs[1]
					}
				}
			})
			for _, st := range stores {
				if okSucc != nil && st.Parent() == body && okSucc.Dominates(st.Block()) {
					facts = append(facts, "deferred commit at "+p.Pos(ssau.PosOf(st))+" is guarded by recover() == nil")
					continue
				}
				problems = append(problems, "node state is written by a deferred function ("+p.Pos(ssau.PosOf(st))+"): it also runs while Process() is panicking, so a failed generation marks the node up to date with its old value")
			}
		})
		name := p.FuncName(fn) + ":commit-after-success"
		if p.IsControl(fn.Pos()) {
			if len(problems) > 0 {
				ctlBad = true
			}
			continue
		}
		n++
		problems = dedupStrings(problems)
		if len(problems) > 0 {
			c.R.Violate("CONC-10", name, p.Pos(ssau.PosOf(procCall)), problems[0], append(problems[1:], facts...)...)
		} else {
			c.R.Hold("CONC-10", name, p.Pos(ssau.PosOf(procCall)), append([]string{"every store that marks the node up to date is dominated by the Process() call and runs on the normal path"}, facts...)...)
		}
	}
	if n == 0 {
		c.R.Failf("anchor: no function of package nodes calls Processor.Process")
	}
	c.R.Floor("CONC-10", 1)
	if len(p.Controls) > 0 {
		v := ob.Holds
		if ctlBad {
			v = ob.Violation
		}
		c.R.Control("CONC-10", "control:bad", "nodes/zz_verif_control_c13.go", v, ob.Violation, "bookkeeping in a defer must be reported")
	}
}

// ---------------------------------------------------------------------------
// CONC-11: per-request output state. Whatever a handler routes its response through (buffered
// writers, encoders, scratch buffers) is created by this request's own activation; the ResponseWriter
// is never installed into — and this request's result never staged in — an object that outlives the
// request (a field of the server, a package-level variable). sync.Pool is the accepted sharing idiom.

func (a *anchors) longLived(v ssa.Value, depth int, seen map[ssa.Value]bool) string {
	if v == nil || seen[v] || depth > 30 {
		return ""
	}
	seen[v] = true
	p := a.c.P
	switch x := v.(type) {
	case *ssa.Global:
		return "package-level variable " + x.Name()
	case *ssa.UnOp:
		if x.Op != token.MUL {
			return ""
		}
		switch ad := x.X.(type) {
		case *ssa.Global:
			return "package-level variable " + ad.Name()
		case *ssa.FieldAddr:
			// field of an object that was not created by this activation
			root := lockset.Canon(ad).Root
			switch root.(type) {
			case *ssa.Parameter, *ssa.FreeVar, *ssa.Global:
				owner := "?"
				if n := ssau.NamedOf(ad.X.Type()); n != nil {
					owner = n.Obj().Name()
				}
				return "field " + owner + "." + fieldNameOf(ad) + " (loaded at " + p.Pos(ssau.PosOf(x)) + ")"
			}
			return a.longLived(ad.X, depth+1, seen)
		case *ssa.Alloc:
			for _, r := range ssau.Refs(ad) {
				if st, ok := r.(*ssa.Store); ok && st.Addr == ssa.Value(ad) {
					if h := a.longLived(st.Val, depth+1, seen); h != "" {
						return h
					}
				}
			}
		}
		return ""
	case *ssa.FieldAddr:
		// the address of a field of an object this activation did not create (&as.staging)
		switch lockset.Canon(x).Root.(type) {
		case *ssa.Parameter, *ssa.FreeVar, *ssa.Global:
			owner := "?"
			if n := ssau.NamedOf(x.X.Type()); n != nil {
				owner = n.Obj().Name()
			}
			return "field " + owner + "." + fieldNameOf(x) + " (addressed at " + p.Pos(ssau.PosOf(x)) + ")"
		}
		return ""
	case *ssa.TypeAssert:
		return a.longLived(x.X, depth+1, seen)
	case *ssa.ChangeType:
		return a.longLived(x.X, depth+1, seen)
	case *ssa.MakeInterface:
		return a.longLived(x.X, depth+1, seen)
	case *ssa.ChangeInterface:
		return a.longLived(x.X, depth+1, seen)
	case *ssa.Extract:
		return a.longLived(x.Tuple, depth+1, seen)
	case *ssa.Phi:
		for _, e := range x.Edges {
			if h := a.longLived(e, depth+1, seen); h != "" {
				return h
			}
		}
	case *ssa.Call:
		if o := ssau.CalleeObj(x); o != nil && ssau.IsMethod(o, "sync", "Pool", "Get") {
			return "" // per-request by the pool's contract
		}
		callee := origin0(x.Call.StaticCallee())
		if callee != nil && a.inModule(callee) && len(callee.Blocks) > 0 {
			for _, b := range callee.Blocks {
				if len(b.Instrs) == 0 || b == callee.Recover {
					continue
				}
				if ret, ok := b.Instrs[len(b.Instrs)-1].(*ssa.Return); ok {
					for _, rv := range ret.Results {
						if types.Identical(rv.Type(), x.Type()) {
							if h := a.longLived(rv, depth+1, seen); h != "" {
								return h
							}
						}
					}
				}
			}
		}
	}
	return ""
}

func pointerLike(t types.Type) bool {
	switch t.Underlying().(type) {
	case *types.Pointer, *types.Interface, *types.Map, *types.Chan, *types.Slice:
		return true
	}
	return false
}

// retains: does callee keep its parameter k (or something made from it) in long-lived storage?
func (a *anchors) retains(callee *ssa.Function, k int, depth int) bool {
	callee = origin0(callee)
	if callee == nil || depth > 2 || len(callee.Blocks) == 0 || k >= len(callee.Params) {
		return false
	}
	set := forward(callee, []ssa.Value{callee.Params[k]})
	kept := false
	ssau.AllInstrs(callee, func(in ssa.Instruction) {
		st, ok := in.(*ssa.Store)
		if !ok || !set[st.Val] {
			return
		}
		switch lockset.Canon(st.Addr).Root.(type) {
		case *ssa.Parameter, *ssa.FreeVar, *ssa.Global:
			if lockset.Canon(st.Addr).Path != "" || isGlobalAddr(st.Addr) {
				kept = true
			}
		}
	})
	return kept
}

func isGlobalAddr(v ssa.Value) bool { _, ok := v.(*ssa.Global); return ok }

func (a *anchors) conc11(entries []*ssa.Function) {
	c := a.c
	p := c.P
	isEntry := map[*ssa.Function]bool{}
	for _, e := range entries {
		isEntry[e] = true
	}
	ctlBad, ctlGood := false, true
	for _, fn := range a.libraryFuncs() {
		if fn.Pkg == a.pkg {
			continue
		}
		var resp []ssa.Value
		for _, prm := range fn.Params {
			if isResponseWriter(prm.Type()) {
				resp = append(resp, prm)
			}
		}
		if len(resp) == 0 {
			continue
		}
		respSet := forward(fn, resp)
		// results of this request's entry-point calls
		var results []ssa.Value
		ssau.AllInstrs(fn, func(in ssa.Instruction) {
			if call, ok := in.(*ssa.Call); ok && isEntry[origin0(call.Call.StaticCallee())] {
				results = append(results, call)
			}
		})
		resSet := forward(fn, results)
		var problems []string
		sinks := 0
		ssau.AllInstrs(fn, func(in ssa.Instruction) {
			ci, ok := in.(ssa.CallInstruction)
			if !ok || ssau.Builtin(ci) != "" {
				return
			}
			cc := ci.Common()
			ops := append([]ssa.Value{}, cc.Args...)
			recvIdx := -1
			if cc.IsInvoke() {
				ops = append([]ssa.Value{cc.Value}, ops...)
				recvIdx = 0
			} else if o := ssau.CalleeObj(ci); o != nil && o.Type().(*types.Signature).Recv() != nil {
				recvIdx = 0
			}
			hasResp, hasRes := false, false
			for _, o := range ops {
				if respSet[o] {
					hasResp = true
				}
				if resSet[o] && !respSet[o] {
					hasRes = true
				}
			}
			if !hasResp && !hasRes {
				return
			}
			sinks++
			callee := origin0(cc.StaticCallee())
			for i, o := range ops {
				if respSet[o] || resSet[o] || !pointerLike(o.Type()) {
					continue
				}
				h := a.longLived(o, 0, map[ssa.Value]bool{})
				if h == "" {
					continue
				}
				at := p.Pos(ssau.PosOf(in))
				switch {
				case callee != nil && a.inModule(callee):
					// a repository callee: only a problem if it keeps the writer / result
					for j, o2 := range ops {
						k := j
						if cc.IsInvoke() {
							k = j - 1
						}
						if (respSet[o2] || resSet[o2]) && k >= 0 && a.retains(callee, k, 0) {
							problems = append(problems, "call at "+at+" hands the response writer / this request's result to "+p.FuncName(callee)+", which keeps it in long-lived state")
						}
					}
				case i == recvIdx || !hasResp:
					what := "the ResponseWriter is installed into"
					if !hasResp {
						if !isWriterType(o.Type()) && !isWriterType(ssau.Strip(o).Type()) {
							continue
						}
						what = "this request's result is staged in"
					} else if !isWriterType(o.Type()) {
						continue // a stateless helper object (e.g. an upgrader / template): nothing is written through it
					}
					problems = append(problems, what+" a long-lived object ("+h+") at "+at+": overlapping requests share it and corrupt each other's responses")
				}
			}
		})
		// pool discipline: Put only after the last write
		ssau.AllInstrs(fn, func(in ssa.Instruction) {
			call, ok := in.(*ssa.Call)
			if !ok {
				return
			}
			if o := ssau.CalleeObj(call); o == nil || !ssau.IsMethod(o, "sync", "Pool", "Put") || len(call.Call.Args) < 2 {
				return
			}
			obj := ssau.Strip(call.Call.Args[1])
			ssau.AllInstrs(fn, func(use ssa.Instruction) {
				uc, ok := use.(ssa.CallInstruction)
				if !ok || use == in {
					return
				}
				for _, o := range uc.Common().Args {
					if ssau.Strip(o) == obj && ssau.CanFollow(in, use) {
						problems = append(problems, "pooled object is used at "+p.Pos(ssau.PosOf(use))+" after it was Put back at "+p.Pos(ssau.PosOf(in)))
					}
				}
			})
		})
		if sinks == 0 {
			continue
		}
		name := p.FuncName(fn) + ":per-request-output"
		if p.IsControl(fn.Pos()) {
			if strings.Contains(fn.Name(), "BadWriter") && len(problems) > 0 {
				ctlBad = true
			}
			if strings.Contains(fn.Name(), "Good") && len(problems) > 0 {
				ctlGood = false
			}
			continue
		}
		problems = dedupStrings(problems)
		if len(problems) > 0 {
			c.R.Violate("CONC-11", name, p.Pos(fn.Pos()), problems[0], problems[1:]...)
		} else {
			c.R.Hold("CONC-11", name, p.Pos(fn.Pos()), "every object the response is routed through is created by this activation (or is the ResponseWriter itself)")
		}
	}
	c.R.Floor("CONC-11", 5)
	if len(p.Controls) > 0 {
		v := ob.Holds
		if ctlBad {
			v = ob.Violation
		}
		c.R.Control("CONC-11", "control:bad", "generator/zz_verif_control_c13.go", v, ob.Violation, "a server-held bufio.Writer Reset per request must be reported")
		v = ob.Holds
		if !ctlGood {
			v = ob.Violation
		}
		c.R.Control("CONC-11", "control:good", "generator/zz_verif_control_c13.go", v, ob.Holds, "bufio.NewWriter(w) per request / sync.Pool must stay silent")
	}
}

// ---------------------------------------------------------------------------
// VIS-2: an acknowledged update was applied. On every path on which code between the HTTP handler and
// Instance.UpdateParameter reports success (returns a nil error), the locked entry point has been called
// with this request's body: a success return not dominated by the call (a de-duplication on handler-side
// state, kept outside the graph mutex) acknowledges an update that was never applied.

// closureTarget resolves a dynamic callee to the function literal it denotes (through variable cells).
func closureTarget(v ssa.Value) *ssa.Function {
	for i := 0; i < 8; i++ {
		switch x := v.(type) {
		case *ssa.MakeClosure:
			fn, _ := x.Fn.(*ssa.Function)
			return fn
		case *ssa.Function:
			return x
		case *ssa.UnOp:
			if x.Op != token.MUL {
				return nil
			}
			switch ad := x.X.(type) {
			case *ssa.Alloc:
				sv := lockset.SingleStore(ad)
				if sv == nil {
					return nil
				}
				v = sv
			case *ssa.FreeVar:
				site := lockset.ClosureSite(ad.Parent())
				if site == nil {
					return nil
				}
				var b ssa.Value
				for j, f := range ad.Parent().FreeVars {
					if f == ad && j < len(site.Bindings) {
						b = site.Bindings[j]
					}
				}
				al, ok := b.(*ssa.Alloc)
				if !ok {
					return nil
				}
				sv := lockset.SingleStore(al)
				if sv == nil {
					return nil
				}
				v = sv
			default:
				return nil
			}
		case *ssa.ChangeType:
			v = x.X
		default:
			return nil
		}
	}
	return nil
}

func (a *anchors) vis2() {
	c := a.c
	p := c.P
	update := p.Func(graphRel, "Instance.UpdateParameter")
	if update == nil {
		return
	}
	lib := a.libraryFuncs()
	// level 0: functions that call UpdateParameter; then their callers (static or through a literal variable)
	target := map[*ssa.Function]bool{update: true}
	type site struct {
		fn   *ssa.Function
		call ssa.Instruction
	}
	var chain []site
	for round := 0; round < 4; round++ {
		added := false
		for _, fn := range lib {
			if fn.Pkg == a.pkg || target[fn] {
				continue
			}
			var calls []ssa.Instruction
			ssau.AllInstrs(fn, func(in ssa.Instruction) {
				call, ok := in.(*ssa.Call)
				if !ok {
					return
				}
				callee := origin0(call.Call.StaticCallee())
				if callee == nil && !call.Call.IsInvoke() {
					callee = closureTarget(call.Call.Value)
				}
				if callee != nil && target[callee] {
					calls = append(calls, in)
				}
			})
			if len(calls) > 0 {
				for _, cl := range calls {
					chain = append(chain, site{fn, cl})
				}
				target[fn] = true
				added = true
			}
		}
		if !added {
			break
		}
	}
	byFn := map[*ssa.Function][]ssa.Instruction{}
	var order []*ssa.Function
	for _, s := range chain {
		if _, ok := byFn[s.fn]; !ok {
			order = append(order, s.fn)
		}
		byFn[s.fn] = append(byFn[s.fn], s.call)
	}
	sort.Slice(order, func(i, j int) bool { return p.FuncName(order[i]) < p.FuncName(order[j]) })
	ctlBad, ctlGood := false, true
	n := 0
	errT := types.Universe.Lookup("error").Type()
	for _, fn := range order {
		calls := byFn[fn]
		res := fn.Signature.Results()
		hasErr := res.Len() > 0 && types.Identical(res.At(res.Len()-1).Type(), errT)
		var problems, facts []string
		ssau.AllInstrs(fn, func(in ssa.Instruction) {
			ret, ok := in.(*ssa.Return)
			if !ok || in.Block() == fn.Recover {
				return
			}
			dominated := false
			for _, cl := range calls {
				if ssau.Before(cl, in) {
					dominated = true
				}
			}
			if dominated {
				return
			}
			at := p.Pos(ssau.PosOf(in))
			if hasErr {
				ev := ret.Results[len(ret.Results)-1]
				if cst, ok := ev.(*ssa.Const); !ok || !cst.IsNil() {
					facts = append(facts, "return at "+at+" without the update reports an error")
					return
				}
			}
			problems = append(problems, "return at "+at+" reports success although the path never called Instance.UpdateParameter: the update is acknowledged but not applied (de-duplication on state kept outside the graph mutex)")
		})
		// the body handed on is this request's
		for _, cl := range calls {
			call := cl.(*ssa.Call)
			if origin0(call.Call.StaticCallee()) != update || len(call.Call.Args) < 3 {
				continue
			}
			if h := a.longLived(call.Call.Args[2], 0, map[ssa.Value]bool{}); h != "" {
				problems = append(problems, "UpdateParameter at "+p.Pos(ssau.PosOf(cl))+" is handed data from "+h+", not this request's body")
			}
		}
		name := p.FuncName(fn) + ":update-applied"
		if p.IsControl(fn.Pos()) {
			if strings.Contains(name, "BadDedup") && len(problems) > 0 {
				ctlBad = true
			}
			if strings.Contains(name, "Good") && len(problems) > 0 {
				ctlGood = false
			}
			continue
		}
		n++
		pos := p.Pos(ssau.PosOf(calls[0]))
		problems = dedupStrings(problems)
		if len(problems) > 0 {
			c.R.Violate("VIS-2", name, pos, problems[0], append(problems[1:], facts...)...)
		} else {
			c.R.Hold("VIS-2", name, pos, append([]string{"every success return is dominated by the call that leads to Instance.UpdateParameter"}, dedupStrings(facts)...)...)
		}
	}
	c.R.Floor("VIS-2", 1)
	if len(p.Controls) > 0 {
		v := ob.Holds
		if ctlBad {
			v = ob.Violation
		}
		c.R.Control("VIS-2", "control:bad", "generator/zz_verif_control_c13.go", v, ob.Violation, "a success return that skips UpdateParameter must be reported")
		v = ob.Holds
		if !ctlGood {
			v = ob.Violation
		}
		c.R.Control("VIS-2", "control:good", "generator/zz_verif_control_c13.go", v, ob.Holds, "a handler that always calls UpdateParameter must stay silent")
	}
}

// isWriterType: values of this type are written through (they have a Write([]byte) (int, error) method).
func isWriterType(t types.Type) bool {
	obj, _, _ := types.LookupFieldOrMethod(t, true, nil, "Write")
	f, ok := obj.(*types.Func)
	if !ok {
		return false
	}
	sig := f.Type().(*types.Signature)
	return sig.Params().Len() == 1 && sig.Results().Len() == 2
}
