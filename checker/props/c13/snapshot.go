package c13

import (
	"fmt"
	"go/token"
	"go/types"
	"sort"
	"strings"

	"golang.org/x/tools/go/ssa"

	"polycheck/ob"
	"polycheck/props/c13/lockset"
	"polycheck/ssau"
)

// ---------------------------------------------------------------------------
// CONC-6: one snapshot per response. Everything one HTTP response derives from the evaluation
// state of the graph (artifact, parameter data, model version) must come out of ONE critical
// section, i.e. from a single call of a state-reading Instance method; results of two separate
// calls (Artifact() and then ModelVersion()) combined into one response are a check-then-act
// across critical sections: an update may complete in between.

// stateReaders: the three entry points plus every exported Instance method whose statically
// reachable code touches a field that the three entry points write.
func (a *anchors) stateReaders(entries []*ssa.Function) map[*ssa.Function]string {
	out := map[*ssa.Function]string{}
	for _, e := range entries {
		out[e] = "locked entry point"
	}
	for i := 0; i < a.inst.NumMethods(); i++ {
		m := a.inst.Method(i)
		if !m.Exported() || a.c.P.IsControl(m.Pos()) {
			continue
		}
		fn := a.c.P.SSA.FuncValue(m)
		if fn == nil || len(fn.Blocks) == 0 || out[fn] != "" || fn.Signature.Results().Len() == 0 {
			continue
		}
		w := &walker{a: a, seen: map[string]bool{}, fns: map[*ssa.Function]bool{}}
		var root ssa.Value
		if len(fn.Params) > 0 {
			root = fn.Params[0]
		}
		w.walk(walkCtx{fn: fn, instRoot: root, entry: lockset.State{}}, 0, "")
		for _, e := range w.events {
			if e.field != nil && a.regionWritten[e.field] {
				out[fn] = "touches " + e.field.Name() + " (written by the entry points)"
			}
		}
	}
	return out
}

func isResponseWriter(t types.Type) bool {
	return ssau.IsNamed(t, "net/http", "ResponseWriter")
}

// forward closes a set of values under "is computed from": results of instructions that have a
// member as operand, loads of cells / arrays a member was stored into.
func forward(fn *ssa.Function, seeds []ssa.Value) map[ssa.Value]bool {
	set := map[ssa.Value]bool{}
	var work []ssa.Value
	add := func(v ssa.Value) {
		if v != nil && !set[v] {
			set[v] = true
			work = append(work, v)
		}
	}
	for _, s := range seeds {
		add(s)
	}
	baseAlloc := func(addr ssa.Value) ssa.Value {
		for i := 0; i < 8; i++ {
			switch x := addr.(type) {
			case *ssa.IndexAddr:
				addr = x.X
			case *ssa.FieldAddr:
				addr = x.X
			default:
				return addr
			}
		}
		return addr
	}
	for len(work) > 0 {
		v := work[0]
		work = work[1:]
		for _, r := range ssau.Refs(v) {
			switch x := r.(type) {
			case *ssa.Store:
				if x.Val == v {
					if al, ok := baseAlloc(x.Addr).(*ssa.Alloc); ok {
						add(al)
					}
				}
			case *ssa.DebugRef, *ssa.If, *ssa.Return, *ssa.Send, *ssa.Panic, *ssa.MapUpdate:
			default:
				if val, ok := r.(ssa.Value); ok {
					add(val)
				}
			}
		}
	}
	return set
}

func (a *anchors) conc6(entries []*ssa.Function) {
	c := a.c
	p := c.P
	readers := a.stateReaders(entries)
	var rnames []string
	for fn, why := range readers {
		rnames = append(rnames, "Instance."+fn.Name()+" ("+why+")")
	}
	sort.Strings(rnames)
	c.R.Extra["snapshot_state_readers"] = rnames
	// out-of-scope note: who reads / writes entry-point-written fields without the mutex
	if a.cgForNotes != nil {
		for fn, why := range readers {
			if why == "locked entry point" {
				continue
			}
			callers := map[string]bool{}
			if n := a.cgForNotes.Nodes[fn]; n != nil {
				for _, e := range n.In {
					g := e.Caller.Func
					if a.inModule(g) && !a.isExample(g) && !p.IsControl(g.Pos()) && e.Site != nil && e.Site.Common().StaticCallee() == fn {
						callers[p.FuncName(g)] = true
					}
				}
			}
			c.R.Note("out of scope, data race with UpdateParameter: Instance.%s %s without the Instance mutex; called from %s (the property quantifies over UpdateParameter / ParameterData / Artifact only; a lockset over all accessors would report this)",
				fn.Name(), why, strings.Join(setList(callers), ", "))
		}
	}
	ctlBad, ctlGood := false, true
	n := 0
	for _, fn := range a.libraryFuncs() {
		if fn.Pkg == a.pkg && !p.IsControl(fn.Pos()) {
			continue // the Instance's own methods are not response builders
		}
		var sites []*ssa.Call
		ssau.AllInstrs(fn, func(in ssa.Instruction) {
			if call, ok := in.(*ssa.Call); ok {
				if callee := call.Common().StaticCallee(); callee != nil && readers[callee] != "" {
					sites = append(sites, call)
				}
			}
		})
		if len(sites) == 0 {
			continue
		}
		// what is the response?
		var resp []ssa.Value
		for _, prm := range fn.Params {
			if isResponseWriter(prm.Type()) {
				resp = append(resp, prm)
			}
		}
		for _, fv := range fn.FreeVars {
			if pt, ok := fv.Type().(*types.Pointer); ok && isResponseWriter(pt.Elem()) {
				resp = append(resp, fv)
			}
		}
		respSet := forward(fn, resp)
		handler := handlerShaped(fn)
		var reaching []*ssa.Call
		var facts []string
		for _, s := range sites {
			taint := forward(fn, []ssa.Value{s})
			hit := ""
			ssau.AllInstrs(fn, func(in ssa.Instruction) {
				if hit != "" {
					return
				}
				switch x := in.(type) {
				case ssa.CallInstruction:
					cc := x.Common()
					ops := append([]ssa.Value{}, cc.Args...)
					if cc.IsInvoke() {
						ops = append(ops, cc.Value)
					}
					t, r := false, false
					for _, o := range ops {
						if taint[o] && ssa.Value(s) != o || o == ssa.Value(s) {
							t = true
						}
						if respSet[o] && !taint[o] {
							r = true
						}
					}
					if t && r {
						hit = "written to the response at " + p.Pos(ssau.PosOf(in))
					}
				case *ssa.Return:
					if handler && len(resp) == 0 {
						for _, rv := range x.Results {
							if taint[rv] {
								hit = "returned as the response body at " + p.Pos(ssau.PosOf(in))
							}
						}
					}
				}
			})
			if hit != "" {
				reaching = append(reaching, s)
				facts = append(facts, "Instance."+s.Common().StaticCallee().Name()+"() at "+p.Pos(ssau.PosOf(s))+" "+hit)
			}
		}
		if len(reaching) == 0 {
			continue
		}
		name := p.FuncName(fn) + ":one-snapshot"
		pos := p.Pos(ssau.PosOf(reaching[0]))
		bad := len(reaching) > 1
		if p.IsControl(fn.Pos()) {
			if strings.Contains(fn.Name(), "Bad") && bad {
				ctlBad = true
			}
			if strings.Contains(fn.Name(), "Good") && bad {
				ctlGood = false
			}
			continue
		}
		n++
		if bad {
			c.R.Violate("CONC-6", name, pos, fmt.Sprintf("one response combines graph state obtained in %d separate calls (each its own critical section, or not locked at all): an update can complete in between, so the parts need not belong to one snapshot", len(reaching)), facts...)
		} else {
			c.R.Hold("CONC-6", name, pos, facts...)
		}
	}
	c.R.Floor("CONC-6", 2)
	if len(p.Controls) > 0 {
		v := ob.Holds
		if ctlBad {
			v = ob.Violation
		}
		c.R.Control("CONC-6", "control:bad", "generator/zz_verif_control_c13.go", v, ob.Violation, "artifact and model version from two calls in one response must be reported")
		v = ob.Holds
		if !ctlGood {
			v = ob.Violation
		}
		c.R.Control("CONC-6", "control:good", "generator/zz_verif_control_c13.go", v, ob.Holds, "a response built from one call must stay silent")
	}
}

// ---------------------------------------------------------------------------
// VIS-1: a completed update is visible. Every path of an ApplyMessage implementation to a
// success return (nil error) stores the decoded value into a current-value field (the fields
// Value() reads), unless the path is an equality shortcut that compares the decoded value with
// what Value() returns.

func (a *anchors) applyImpls() []*ssa.Function {
	im, _, _ := types.LookupFieldOrMethod(a.paramIface, false, a.pkg.Pkg, "ApplyMessage")
	if im == nil {
		return nil
	}
	imSig, _ := im.Type().(*types.Signature)
	var impls []*ssa.Function
	for _, fn := range a.libraryFuncs() {
		if fn.Parent() != nil || fn.Name() != im.Name() || fn.Signature.Recv() == nil || len(fn.Params) == 0 {
			continue
		}
		rt := fn.Signature.Recv().Type()
		ok := a.implementsParameter(rt)
		if !ok && imSig != nil {
			if n := ssau.NamedOf(rt); n != nil && n.TypeParams().Len() > 0 &&
				types.Identical(types.NewSignatureType(nil, nil, nil, imSig.Params(), imSig.Results(), false),
					types.NewSignatureType(nil, nil, nil, fn.Signature.Params(), fn.Signature.Results(), false)) {
				ok = true
			}
		}
		if ok {
			impls = append(impls, fn)
		}
	}
	return impls
}

// primaryField: the field Value() tests first (`if pn.f != nil { return *pn.f / pn.f }`).
func (a *anchors) primaryField(recv *types.Named) string {
	recv = recv.Origin()
	for i := 0; i < recv.NumMethods(); i++ {
		m := recv.Method(i).Origin()
		if m.Name() != "Value" {
			continue
		}
		fn := a.c.P.SSA.FuncValue(m)
		if fn == nil || len(fn.Blocks) == 0 {
			continue
		}
		b := fn.Blocks[0]
		ifi, ok := b.Instrs[len(b.Instrs)-1].(*ssa.If)
		if !ok {
			continue
		}
		cmp, ok := ifi.Cond.(*ssa.BinOp)
		if !ok || cmp.Op != token.NEQ {
			continue
		}
		for _, o := range []ssa.Value{cmp.X, cmp.Y} {
			if u, ok := o.(*ssa.UnOp); ok {
				if fa, ok := u.X.(*ssa.FieldAddr); ok {
					return fieldNameOf(fa)
				}
			}
			if f, ok := o.(*ssa.Field); ok {
				if st, ok := f.X.Type().Underlying().(*types.Struct); ok {
					return st.Field(f.Field).Name()
				}
			}
		}
	}
	return ""
}

func fieldNameOf(fa *ssa.FieldAddr) string {
	t := fa.X.Type()
	if pt, ok := t.Underlying().(*types.Pointer); ok {
		t = pt.Elem()
	}
	if st, ok := t.Underlying().(*types.Struct); ok && fa.Field < st.NumFields() {
		return st.Field(fa.Field).Name()
	}
	return "?"
}

func (a *anchors) vis1() {
	c := a.c
	p := c.P
	ctlBad, ctlGood := false, true
	for _, fn := range a.applyImpls() {
		recv := fn.Params[0]
		rn := ssau.NamedOf(fn.Signature.Recv().Type())
		vf := map[string]bool{}
		primary := ""
		if rn != nil {
			vf = a.valueFields(rn)
			primary = a.primaryField(rn)
		}
		recvField := func(addr ssa.Value) (string, bool) {
			k := lockset.Canon(addr)
			if k.Root != ssa.Value(recv) || k.Path == "" || strings.Contains(k.Path, "^") {
				return "", false
			}
			f := k.Field()
			if i := strings.LastIndex(f, "."); i >= 0 {
				f = f[i+1:]
			}
			return f, true
		}
		var stores []ssa.Instruction
		var succ []*ssa.Return
		ssau.AllInstrs(fn, func(in ssa.Instruction) {
			switch x := in.(type) {
			case *ssa.Store:
				if f, ok := recvField(x.Addr); ok && (len(vf) == 0 || vf[f]) && refCapable(x.Val.Type(), 0) {
					stores = append(stores, x)
				}
			case *ssa.Call:
				// a helper method on the same receiver that stores the value (pn.setCurrent(&val))
				callee := x.Common().StaticCallee()
				if callee != nil && callee.Origin() != nil {
					callee = callee.Origin() // generic method called from a generic body
				}
				if callee == nil || !a.inModule(callee) || len(callee.Blocks) == 0 || len(callee.Params) == 0 || len(x.Call.Args) == 0 {
					return
				}
				if k := lockset.Canon(x.Call.Args[0]); k.Root != ssa.Value(recv) || k.Path != "" {
					return
				}
				cr := callee.Params[0]
				unconditional := false
				ssau.AllInstrs(callee, func(ci ssa.Instruction) {
					st, ok := ci.(*ssa.Store)
					if !ok || !refCapable(st.Val.Type(), 0) {
						return
					}
					k := lockset.Canon(st.Addr)
					if k.Root != ssa.Value(cr) || k.Path == "" || strings.Contains(k.Path, "^") {
						return
					}
					f := k.Field()
					if i := strings.LastIndex(f, "."); i >= 0 {
						f = f[i+1:]
					}
					if (len(vf) == 0 || vf[f]) && st.Block() == callee.Blocks[0] {
						unconditional = true
					}
				})
				if unconditional {
					stores = append(stores, x)
				}
			case *ssa.Return:
				if n := len(x.Results); n > 0 && x.Block() != fn.Recover {
					if cst, ok := x.Results[n-1].(*ssa.Const); ok && cst.IsNil() && types.Identical(cst.Type(), types.Universe.Lookup("error").Type()) {
						succ = append(succ, x)
					}
				}
			}
		})
		// values that come out of the decode (the local the message is decoded into)
		var problems, undecided, facts []string
		for _, ret := range succ {
			stored := false
			for _, s := range stores {
				if ssau.Before(s, ret) {
					stored = true
				}
			}
			at := p.Pos(ssau.PosOf(ret))
			if stored {
				facts = append(facts, "success return at "+at+" is dominated by the store of the new value")
				continue
			}
			// an equality shortcut?
			verdict, msg := a.shortcutGuard(fn, recv, ret, vf, primary)
			switch verdict {
			case ob.Holds:
				facts = append(facts, "success return at "+at+": "+msg)
			case ob.Undecided:
				undecided = append(undecided, "success return at "+at+" without storing the value: "+msg)
			default:
				problems = append(problems, "success return at "+at+" without storing the decoded value into a field Value() reads: "+msg)
			}
		}
		name := p.FuncName(fn) + ":visible"
		pos := p.Pos(fn.Pos())
		if p.IsControl(fn.Pos()) {
			if strings.Contains(name, "BadSkip") && len(problems)+len(undecided) > 0 {
				ctlBad = true
			}
			if strings.Contains(name, "Good") && len(problems)+len(undecided) > 0 {
				ctlGood = false
			}
			continue
		}
		sort.Strings(problems)
		switch {
		case len(succ) == 0:
			c.R.Undecide("VIS-1", name, pos, "no success return (nil error constant) found: idiom not recognised")
		case len(problems) > 0:
			c.R.Violate("VIS-1", name, pos, problems[0], append(problems[1:], facts...)...)
		case len(undecided) > 0:
			c.R.Undecide("VIS-1", name, pos, undecided[0])
		default:
			c.R.Hold("VIS-1", name, pos, facts...)
		}
	}
	c.R.Floor("VIS-1", 2)
	if len(p.Controls) > 0 {
		v := ob.Holds
		if ctlBad {
			v = ob.Violation
		}
		c.R.Control("VIS-1", "control:bad", "generator/parameter/zz_verif_control_c13.go", v, ob.Violation, "success return that skips the store must be reported")
		v = ob.Holds
		if !ctlGood {
			v = ob.Violation
		}
		c.R.Control("VIS-1", "control:good", "generator/parameter/zz_verif_control_c13.go", v, ob.Holds, "shortcut comparing with Value() must stay silent")
	}
}

// shortcutGuard decides whether the branch leading to ret is an equality test between the
// decoded value and the parameter's current value.
func (a *anchors) shortcutGuard(fn *ssa.Function, recv *ssa.Parameter, ret *ssa.Return, vf map[string]bool, primary string) (ob.Verdict, string) {
	// nearest branch one of whose sides leads to ret only
	var cond ssa.Value
	for d := ret.Block(); d != nil; d = d.Idom() {
		id := d.Idom()
		if id == nil || len(id.Instrs) == 0 {
			continue
		}
		ifi, ok := id.Instrs[len(id.Instrs)-1].(*ssa.If)
		if !ok {
			continue
		}
		t, f := id.Succs[0], id.Succs[1]
		if (t.Dominates(ret.Block()) && t != f && !f.Dominates(ret.Block())) || (f.Dominates(ret.Block()) && !t.Dominates(ret.Block())) {
			cond = ifi.Cond
			break
		}
	}
	if cond == nil {
		return ob.Violation, "the path is not guarded by any comparison"
	}
	var x, y ssa.Value
	switch cnd := cond.(type) {
	case *ssa.BinOp:
		if cnd.Op == token.EQL || cnd.Op == token.NEQ {
			x, y = cnd.X, cnd.Y
		}
	case *ssa.Call:
		if o := ssau.CalleeObj(cnd); o != nil && len(cnd.Call.Args) == 2 && (ssau.IsFunc(o, "reflect", "DeepEqual") || strings.Contains(o.Name(), "Equal")) {
			x, y = cnd.Call.Args[0], cnd.Call.Args[1]
		}
	case *ssa.UnOp:
		if cnd.Op == token.NOT {
			if call, ok := cnd.X.(*ssa.Call); ok && len(call.Call.Args) == 2 {
				x, y = call.Call.Args[0], call.Call.Args[1]
			}
		}
	}
	if x == nil {
		return ob.Violation, "the guarding branch is not an equality test of the decoded value against the current value"
	}
	// which operand is the current value?  the one that depends on the receiver
	type dep struct {
		fields    map[string]bool
		viaValue  bool
		onlyDeref string // operand is exactly *recv.f
	}
	analyse := func(v ssa.Value) dep {
		d := dep{fields: map[string]bool{}}
		seen := map[ssa.Value]bool{}
		var walk func(v ssa.Value, depth int)
		walk = func(v ssa.Value, depth int) {
			if v == nil || seen[v] || depth > 20 {
				return
			}
			seen[v] = true
			switch z := v.(type) {
			case *ssa.Call:
				if o := ssau.CalleeObj(z); o != nil && o.Name() == "Value" && !z.Call.IsInvoke() && len(z.Call.Args) > 0 {
					if k := lockset.Canon(z.Call.Args[0]); k.Root == ssa.Value(recv) && (k.Path == "" || !strings.Contains(k.Path, "|")) {
						d.viaValue = true
						return
					}
					if u, ok := z.Call.Args[0].(*ssa.UnOp); ok && u.X == ssa.Value(recv) {
						d.viaValue = true
						return
					}
				}
				for _, arg := range z.Call.Args {
					walk(arg, depth+1)
				}
			case *ssa.FieldAddr:
				if k := lockset.Canon(z); k.Root == ssa.Value(recv) {
					d.fields[fieldNameOf(z)] = true
					return
				}
				walk(z.X, depth+1)
			case *ssa.Alloc:
				for _, r := range ssau.Refs(z) {
					if st, ok := r.(*ssa.Store); ok && st.Addr == ssa.Value(z) {
						walk(st.Val, depth+1)
					}
				}
			case *ssa.Phi:
				for _, e := range z.Edges {
					walk(e, depth+1)
				}
			case ssa.Instruction:
				var ops [8]*ssa.Value
				for _, o := range z.Operands(ops[:0]) {
					if *o != nil {
						walk(*o, depth+1)
					}
				}
			}
		}
		walk(v, 0)
		// exact shape *recv.f
		if u, ok := ssau.Strip(v).(*ssa.UnOp); ok && u.Op == token.MUL {
			if u2, ok := u.X.(*ssa.UnOp); ok && u2.Op == token.MUL {
				if fa, ok := u2.X.(*ssa.FieldAddr); ok && lockset.Canon(fa).Root == ssa.Value(recv) {
					d.onlyDeref = fieldNameOf(fa)
				}
			}
		}
		return d
	}
	dx, dy := analyse(x), analyse(y)
	cur := dx
	if !dx.viaValue && len(dx.fields) == 0 {
		cur = dy
	}
	if cur.viaValue && len(cur.fields) == 0 {
		return ob.Holds, "equality shortcut against Value(): the update changes nothing a read could see"
	}
	if !cur.viaValue && len(cur.fields) == 0 {
		return ob.Violation, "the guarding comparison does not involve the parameter's current value"
	}
	var missing []string
	for f := range vf {
		if !cur.fields[f] && !cur.viaValue {
			missing = append(missing, f)
		}
	}
	sort.Strings(missing)
	if len(missing) == 0 {
		return ob.Undecided, "equality shortcut against a hand-written notion of the current value (not Value()): equivalence with Value() is not decided"
	}
	// the idiom `pn.f != nil && val == *pn.f` with f the field Value() tests first
	if cur.onlyDeref != "" && cur.onlyDeref == primary {
		for d := ret.Block(); d != nil; d = d.Idom() {
			id := d.Idom()
			if id == nil || len(id.Instrs) == 0 {
				continue
			}
			ifi, ok := id.Instrs[len(id.Instrs)-1].(*ssa.If)
			if !ok {
				continue
			}
			cmp, ok := ifi.Cond.(*ssa.BinOp)
			if !ok || cmp.Op != token.NEQ || !id.Succs[0].Dominates(ret.Block()) {
				continue
			}
			for _, o := range []ssa.Value{cmp.X, cmp.Y} {
				if u, ok := o.(*ssa.UnOp); ok {
					if fa, ok := u.X.(*ssa.FieldAddr); ok && lockset.Canon(fa).Root == ssa.Value(recv) && fieldNameOf(fa) == primary {
						return ob.Holds, "equality shortcut against *" + primary + " under " + primary + " != nil, which is what Value() returns then"
					}
				}
			}
		}
	}
	return ob.Violation, "the equality shortcut's notion of the current value ignores " + strings.Join(missing, ", ") + " which Value() consults: an update equal to that stale notion is reported successful but dropped"
}
