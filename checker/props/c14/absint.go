package c14

import (
	"go/token"
	"go/types"
	"sort"
	"strings"

	"golang.org/x/tools/go/ssa"

	"polycheck/ssau"
)

// ---------------------------------------------------------------------------
// Per-function facts: loops, counters, count comparisons, simple cells.
// ---------------------------------------------------------------------------

type countCmp struct {
	phi     *ssa.Phi // the record counter (self-incrementing loop-header phi, or a slice grown by append and measured with len)
	reached int      // successor index of the If on which "counter >= count" is known
	constB  bool     // the other operand is a constant (a fixed trip count, not a declared record count)
	lb      int64    // on the reached side: counter >= other + lb   (offsets of both operands and the operator folded in)
}

type fnInfo struct {
	fn       *ssa.Function
	name     string
	loops    []*ssau.Loop
	loopKey  map[*ssau.Loop]string
	counters map[*ssa.Phi]*ssau.Loop   // self-incrementing header phis
	exitCtl  map[*ssau.Loop][]*ssa.Phi // counters that control an exit of the loop
	cmps     map[*ssa.If]countCmp      // count comparisons
	cells    map[*ssa.Alloc]bool       // allocs only stored to / loaded from
	strict   map[*ssa.Alloc]bool       // … and not captured by a function literal
	recCtr   map[*ssa.Phi]*recInfo     // PRE-3 memo
	errRes   int                       // index of the last result if it is an error, else -1
	boolRes  int                       // index of the last result if it is a bool (and there is no error result), else -1
	sites    []*site
	siteOf   map[*ssa.Call]*site
}

func (a *analysis) info(fn *ssa.Function) *fnInfo {
	if fi, ok := a.infos[fn]; ok {
		return fi
	}
	fi := &fnInfo{fn: fn, name: a.p.FuncName(fn), loopKey: map[*ssau.Loop]string{}, counters: map[*ssa.Phi]*ssau.Loop{},
		exitCtl: map[*ssau.Loop][]*ssa.Phi{}, cmps: map[*ssa.If]countCmp{}, cells: map[*ssa.Alloc]bool{}, strict: map[*ssa.Alloc]bool{}, recCtr: map[*ssa.Phi]*recInfo{},
		errRes: -1, boolRes: -1, siteOf: map[*ssa.Call]*site{}}
	a.infos[fn] = fi
	idx, isErr, isBool := lastResult(fn.Signature)
	if isErr {
		fi.errRes = idx
	} else if isBool {
		fi.boolRes = idx
	}
	fi.loops = ssau.Loops(fn)
	sort.SliceStable(fi.loops, func(i, j int) bool { return fi.loops[i].Header.Index < fi.loops[j].Header.Index })
	for i, l := range fi.loops {
		fi.loopKey[l] = fi.name + "/loop#" + itoa(i+1)
	}
	// simple cells
	ssau.AllInstrs(fn, func(in ssa.Instruction) {
		al, ok := in.(*ssa.Alloc)
		if !ok {
			return
		}
		simple, captured := true, false
		for _, r := range ssau.Refs(al) {
			switch r := r.(type) {
			case *ssa.Store:
				if r.Addr != al || r.Val == al {
					simple = false
				}
			case *ssa.UnOp:
				if r.Op != token.MUL {
					simple = false
				}
			case *ssa.DebugRef:
			case *ssa.MakeClosure:
				captured = true // e.g. a named result read by a deferred function literal
			default:
				simple = false
			}
		}
		if simple {
			fi.cells[al] = true
			if !captured {
				fi.strict[al] = true
			}
		}
	})
	// counters
	for _, l := range fi.loops {
		for _, in := range l.Header.Instrs {
			p, ok := in.(*ssa.Phi)
			if !ok {
				break
			}
			if !isIntOrSlice(p.Type()) {
				continue
			}
			for i, pred := range l.Header.Preds {
				if !l.Blocks[pred] {
					continue
				}
				if adv, ok := derives(p.Edges[i], p, map[ssa.Value]bool{}, 0); ok && adv {
					fi.counters[p] = l
					break
				}
			}
		}
	}
	// count comparisons and exit-controlling counters
	for _, b := range fn.Blocks {
		if len(b.Instrs) == 0 {
			continue
		}
		ifi, ok := b.Instrs[len(b.Instrs)-1].(*ssa.If)
		if !ok {
			continue
		}
		cc, ok := fi.countCompare(ifi.Cond)
		if !ok {
			continue
		}
		fi.cmps[ifi] = cc
		l := fi.counters[cc.phi]
		if l.Blocks[b] && (!l.Blocks[b.Succs[0]] || !l.Blocks[b.Succs[1]]) {
			dup := false
			for _, q := range fi.exitCtl[l] {
				if q == cc.phi {
					dup = true
				}
			}
			if !dup {
				fi.exitCtl[l] = append(fi.exitCtl[l], cc.phi)
			}
		}
	}
	fi.sites = a.sitesOf(fn)
	for _, s := range fi.sites {
		fi.siteOf[s.call] = s
	}
	return fi
}

func isIntOrSlice(t types.Type) bool {
	switch u := t.Underlying().(type) {
	case *types.Basic:
		return u.Info()&types.IsInteger != 0
	case *types.Slice:
		return true
	}
	return false
}

// derives reports whether v is computed from phi p by ± constants / append /
// intermediate phis, and whether at least one such step changes the value.
func derives(v ssa.Value, p *ssa.Phi, seen map[ssa.Value]bool, depth int) (advanced bool, ok bool) {
	if v == p {
		return false, true
	}
	if depth > 8 || seen[v] {
		return false, false
	}
	seen[v] = true
	switch x := v.(type) {
	case *ssa.Convert:
		return derives(x.X, p, seen, depth+1)
	case *ssa.ChangeType:
		return derives(x.X, p, seen, depth+1)
	case *ssa.BinOp:
		if x.Op == token.ADD || x.Op == token.SUB {
			if c, isC := x.Y.(*ssa.Const); isC && !constZero(c) {
				if _, ok := derives(x.X, p, seen, depth+1); ok {
					return true, true
				}
			}
			if c, isC := x.X.(*ssa.Const); isC && x.Op == token.ADD && !constZero(c) {
				if _, ok := derives(x.Y, p, seen, depth+1); ok {
					return true, true
				}
			}
		}
	case *ssa.Call:
		if ssau.Builtin(x) == "append" && len(x.Call.Args) > 0 {
			if _, ok := derives(x.Call.Args[0], p, seen, depth+1); ok {
				return true, true
			}
		}
	case *ssa.Phi:
		anyOK, anyAdv := false, false
		for _, e := range x.Edges {
			if adv, ok := derives(e, p, seen, depth+1); ok {
				anyOK = true
				anyAdv = anyAdv || adv
			}
		}
		return anyAdv, anyOK
	}
	return false, false
}

func constZero(c *ssa.Const) bool {
	if c.Value == nil {
		return true
	}
	if v, ok := ssau.ConstInt(c); ok {
		return v == 0
	}
	return false
}

// counterOf: the counter phi an integer expression is an affine image of.
func (fi *fnInfo) counterOf(v ssa.Value, depth int) *ssa.Phi {
	if depth > 6 {
		return nil
	}
	switch x := v.(type) {
	case *ssa.Phi:
		if _, ok := fi.counters[x]; ok {
			return x
		}
	case *ssa.Convert:
		return fi.counterOf(x.X, depth+1)
	case *ssa.ChangeType:
		return fi.counterOf(x.X, depth+1)
	case *ssa.BinOp:
		if x.Op == token.ADD || x.Op == token.SUB {
			if _, isC := x.Y.(*ssa.Const); isC {
				return fi.counterOf(x.X, depth+1)
			}
			if _, isC := x.X.(*ssa.Const); isC && x.Op == token.ADD {
				return fi.counterOf(x.Y, depth+1)
			}
		}
	case *ssa.Call:
		if ssau.Builtin(x) == "len" && len(x.Call.Args) == 1 {
			// len of a slice that grows by append in the loop (possibly already appended to in this iteration)
			arg := x.Call.Args[0]
			for d := 0; d < 4; d++ {
				ap, ok := arg.(*ssa.Call)
				if !ok || ssau.Builtin(ap) != "append" || len(ap.Call.Args) == 0 {
					break
				}
				arg = ap.Call.Args[0]
			}
			if p, ok := arg.(*ssa.Phi); ok {
				if _, isCtr := fi.counters[p]; isCtr {
					if _, isSl := p.Type().Underlying().(*types.Slice); isSl {
						return p
					}
				}
			}
		}
	}
	return nil
}

// counterOff: v == phi + off for the ±constant chain above the counter phi (len(append…) counts as +0).
func counterOff(v ssa.Value, depth int) int64 {
	if depth > 6 {
		return 0
	}
	switch x := v.(type) {
	case *ssa.Convert:
		return counterOff(x.X, depth+1)
	case *ssa.ChangeType:
		return counterOff(x.X, depth+1)
	case *ssa.BinOp:
		if x.Op == token.ADD || x.Op == token.SUB {
			if k, isC := ssau.ConstInt(x.Y); isC {
				if x.Op == token.SUB {
					k = -k
				}
				return counterOff(x.X, depth+1) + k
			}
			if k, isC := ssau.ConstInt(x.X); isC && x.Op == token.ADD {
				return counterOff(x.Y, depth+1) + k
			}
		}
	}
	return 0
}

// countCompare recognises `counter OP count` (either operand order, optional
// negation) and says on which side of the branch counter >= count is known.
func (fi *fnInfo) countCompare(cond ssa.Value) (countCmp, bool) {
	neg := false
	for {
		u, ok := cond.(*ssa.UnOp)
		if !ok || u.Op != token.NOT {
			break
		}
		neg = !neg
		cond = u.X
	}
	b, ok := cond.(*ssa.BinOp)
	if !ok {
		return countCmp{}, false
	}
	op := b.Op
	px, py := fi.counterOf(b.X, 0), fi.counterOf(b.Y, 0)
	var phi *ssa.Phi
	switch {
	case px != nil && py == nil:
		phi = px
	case py != nil && px == nil:
		phi = py
		switch op { // flip so that the counter is on the left
		case token.LSS:
			op = token.GTR
		case token.LEQ:
			op = token.GEQ
		case token.GTR:
			op = token.LSS
		case token.GEQ:
			op = token.LEQ
		}
	default:
		return countCmp{}, false
	}
	if _, isSlice := phi.Type().Underlying().(*types.Slice); !isSlice {
		// integer counters: operands must be integers
		if !isIntOrSlice(b.X.Type()) {
			return countCmp{}, false
		}
	}
	reachedOnTrue := false
	switch op {
	case token.LSS, token.LEQ, token.NEQ:
		reachedOnTrue = false // reached on the false side (c >= n, c > n, c == n)
	case token.GTR, token.GEQ, token.EQL:
		reachedOnTrue = true
	default:
		return countCmp{}, false
	}
	if neg {
		reachedOnTrue = !reachedOnTrue
	}
	r := 1
	if reachedOnTrue {
		r = 0
	}
	other, cexpr := b.Y, b.X
	if phi == py {
		other, cexpr = b.X, b.Y
	}
	_, constB := other.(*ssa.Const)
	// counter + a  REL  other' + bo  holds on the reached side, REL being >= (l = 0) or > (l = 1)
	var l int64
	if op == token.LEQ || op == token.GTR {
		l = 1
	}
	var bo int64
	if _, o, ok := affine(other, 0); ok {
		bo = o
	}
	return countCmp{phi: phi, reached: r, constB: constB, lb: bo - counterOff(cexpr, 0) + l}, true
}

// recInfo (PRE-3): is a loop counter a *record* counter — starts at a known value c0, steps by exactly
// one, and every iteration that increments it stores a record (element store into a pre-sized array,
// append, or a call that is handed the counter)? Only then does "counter >= count + c0" prove that
// `count` records were read.
type recInfo struct {
	ok  bool
	c0  int64
	why string
}

func (r *recInfo) describe(a *analysis, cc countCmp) string {
	name := nameOfPhi(cc.phi)
	if !r.ok {
		return "the counter '" + name + "' compared with the declared count is not a record counter: it " + r.why
	}
	return "the comparison proves only '" + name + "' >= count" + signed(cc.lb) + " while '" + name + "' starts at " + itoa(int(r.c0)) +
		": it holds already when a record is missing"
}

func signed(k int64) string {
	if k == 0 {
		return ""
	}
	if k > 0 {
		return "+" + itoa(int(k))
	}
	return itoa(int(k))
}

func (a *analysis) recordCounter(fi *fnInfo, p *ssa.Phi) *recInfo {
	if r, ok := fi.recCtr[p]; ok {
		return r
	}
	r := &recInfo{}
	fi.recCtr[p] = r
	l := fi.counters[p]
	if l == nil {
		r.why = "is not a loop counter"
		return r
	}
	_, isSlice := p.Type().Underlying().(*types.Slice)
	first := true
	for i, pred := range l.Header.Preds {
		if l.Blocks[pred] {
			continue
		}
		var c0 int64
		if isSlice {
			if !emptySlice(p.Edges[i]) {
				r.why = "starts from a slice that is not known to be empty"
				return r
			}
		} else {
			k, isC := ssau.ConstInt(p.Edges[i])
			if !isC {
				r.why = "does not start from a constant"
				return r
			}
			c0 = k
		}
		if !first && c0 != r.c0 {
			r.why = "has several start values"
			return r
		}
		r.c0, first = c0, false
	}
	e := a.newExplorer(fi, modePRE2)
	e.pre2ctr = p
	e.fillArr = map[ssa.Value]bool{}
	ssau.AllInstrs(fi.fn, func(in ssa.Instruction) {
		if ms, ok := in.(*ssa.MakeSlice); ok && !l.Blocks[ms.Block()] {
			if _, isConst := ms.Len.(*ssa.Const); !isConst {
				e.fillArr[ms] = true
			}
		}
	})
	e.runFill(l)
	switch {
	case e.overflow:
		r.why = "could not be followed (budget)"
	case len(e.badCycles) > 0:
		r.why = e.badCycles[0].how
	default:
		r.ok = true
	}
	return r
}

func emptySlice(v ssa.Value) bool {
	switch x := v.(type) {
	case *ssa.Const:
		return x.Value == nil
	case *ssa.MakeSlice:
		k, ok := ssau.ConstInt(x.Len)
		return ok && k == 0
	case *ssa.Slice:
		if x.High != nil {
			if k, ok := ssau.ConstInt(x.High); ok && k == 0 {
				return true
			}
		}
		if pt, ok := x.X.Type().Underlying().(*types.Pointer); ok {
			if at, ok := pt.Elem().Underlying().(*types.Array); ok && at.Len() == 0 {
				return true
			}
		}
	}
	return false
}

func (fi *fnInfo) loopsContaining(b *ssa.BasicBlock) []*ssau.Loop {
	var out []*ssau.Loop
	for _, l := range fi.loops {
		if l.Blocks[b] {
			out = append(out, l)
		}
	}
	return out
}

// ---------------------------------------------------------------------------
// Abstract values and states.
// ---------------------------------------------------------------------------

type av int8

const (
	avUnknown av = iota
	avNil
	avNonNil // some non-nil error
	avSeed   // the error of the exhausted input site (non-nil)
	avTrue
	avFalse
)

// relv: value == base + off (off known, small) or base advanced by an unknown amount (far).
type relv struct {
	base *ssa.Phi
	off  int64
	far  bool
}

func (r relv) adv() bool { return r.far || r.off != 0 }

func (r relv) plus(k int64) relv {
	r.off += k
	if r.off > 3 || r.off < -3 {
		r.off, r.far = 0, true
	}
	return r
}

type state struct {
	vals map[ssa.Value]av
	keys map[string]av // results of pure accessors ((*bufio.Scanner).Err, (bitlib.Reader).Error) keyed by callee+operands
	rel  map[ssa.Value]relv
	eof  int8 // is the seed error io.EOF?  0 unknown, 1 yes, 2 no

	countReached  bool                // passed "counter >= declared count" for a counter of the seed's loop, counter not advanced since the exhausted read
	reentered     bool                // a back edge of a loop containing the seed was taken after exhaustion
	wrote         bool                // append / slice element store / use of bytes the failed read did not deliver, since the exhausted read
	window        bool                // REC-WHOLE: a window of the read buffer proven to lie within the n bytes delivered was taken
	le            map[ssa.Value]int64 // REC-WHOLE: root + le[root] <= n is known (n = byte count of the failed read; root nVal itself stands for constants)
	consumed      bool                // IO-4: passed the success side of an input site in this iteration
	stickyChecked bool                // STK-1: passed a checked Reader.Error()
	stored        bool                // PRE-2: an element of a pre-sized array was stored in this iteration
	uniEq         map[*ssa.Phi]bool   // TOK-3: the latched count p equals len(tokens) of this line (branch taken)
	uniNeg        map[*ssa.Phi]bool   // TOK-3: p is still negative, i.e. nothing was latched yet
	uniLen        map[ssa.Value]bool  // TOK-3: phis that currently hold len(tokens) of this line
	exhausted     *site
}

func newState() *state {
	return &state{vals: map[ssa.Value]av{}, keys: map[string]av{}, rel: map[ssa.Value]relv{}}
}

func (s *state) clone() *state {
	c := *s
	c.vals = make(map[ssa.Value]av, len(s.vals))
	for k, v := range s.vals {
		c.vals[k] = v
	}
	c.keys = make(map[string]av, len(s.keys))
	for k, v := range s.keys {
		c.keys[k] = v
	}
	c.rel = make(map[ssa.Value]relv, len(s.rel))
	for k, v := range s.rel {
		c.rel[k] = v
	}
	if s.le != nil {
		c.le = make(map[ssa.Value]int64, len(s.le))
		for k, v := range s.le {
			c.le[k] = v
		}
	}
	if s.uniEq != nil || s.uniNeg != nil || s.uniLen != nil {
		c.uniEq, c.uniNeg, c.uniLen = map[*ssa.Phi]bool{}, map[*ssa.Phi]bool{}, map[ssa.Value]bool{}
		for k := range s.uniEq {
			c.uniEq[k] = true
		}
		for k := range s.uniNeg {
			c.uniNeg[k] = true
		}
		for k := range s.uniLen {
			c.uniLen[k] = true
		}
	}
	return &c
}

func (s *state) key() string {
	parts := make([]string, 0, len(s.vals)+len(s.keys)+len(s.rel)+1)
	for k, v := range s.vals {
		parts = append(parts, k.Name()+"="+string(rune('0'+v)))
	}
	for k, v := range s.keys {
		parts = append(parts, k+"="+string(rune('0'+v)))
	}
	for k, v := range s.le {
		parts = append(parts, k.Name()+"<="+itoa(int(v)))
	}
	if s.window {
		parts = append(parts, "window")
	}
	for k := range s.uniEq {
		parts = append(parts, k.Name()+"==len")
	}
	for k := range s.uniNeg {
		parts = append(parts, k.Name()+"<0")
	}
	for k := range s.uniLen {
		parts = append(parts, k.Name()+"=len")
	}
	for k, v := range s.rel {
		a := itoa(int(v.off))
		if v.far {
			a = "far"
		}
		parts = append(parts, k.Name()+"~"+v.base.Name()+a)
	}
	sort.Strings(parts)
	fl := []byte{'0' + byte(s.eof), 'f', 'f', 'f', 'f', 'f', 'f'}
	for i, b := range []bool{s.countReached, s.reentered, s.wrote, s.consumed, s.stickyChecked, s.stored} {
		if b {
			fl[i+1] = 't'
		}
	}
	ex := ""
	if s.exhausted != nil {
		ex = s.exhausted.call.Name()
	}
	return strings.Join(parts, ";") + "|" + string(fl) + "|" + ex
}

func (s *state) set(v ssa.Value, a av) {
	if a == avUnknown {
		delete(s.vals, v)
	} else {
		s.vals[v] = a
	}
}

// ---------------------------------------------------------------------------
// Explorer: forward exploration of the CFG under the facts of a state.
// ---------------------------------------------------------------------------

type mode int

const (
	modeIO2 mode = iota
	modePRE1
	modeIO4
	modeSTK
	modeNN   // summary: does the function ever return a nil error?
	modePRE2 // fill loop: does every counted iteration store an element?
)

type badReturn struct {
	ret  *ssa.Return
	how  string
	what av
}

type badCycle struct {
	latch *ssa.BasicBlock
	site  *site
	how   string
	undec bool
}

type explorer struct {
	a    *analysis
	fi   *fnInfo
	mode mode
	seed *site
	loop *ssau.Loop
	// counters whose comparison with the declared count may discharge a nil return
	ctrs      map[*ssa.Phi]bool
	seedLoops []*ssau.Loop
	streaming bool               // no loop around the seed has a counter-controlled exit
	countless bool               // the function belongs to a format that declares no record count (spec table)
	stale     map[ssa.Value]bool // buffers handed to the seed call: their content is not input after the failed read
	nVal      ssa.Value          // REC-WHOLE: the byte count result of the failed io.ReadFull / ReadAtLeast (bytes [0,n) of the buffer ARE input)
	badUse    ssa.Instruction    // first use of the buffer not proven to lie within [0,n)
	windows   int                // windows validated
	fillArr   map[ssa.Value]bool // PRE-2: the pre-sized arrays of the fill loop
	uni       *uniCheck          // TOK-3: uniform token count per accepted line (runs inside the PRE-2 iteration exploration)
	pre2ctr   *ssa.Phi           // PRE-3: the one counter whose increments must each store a record (nil: see pre2set)
	pre2set   map[*ssa.Phi]bool  // PRE-2: the counters that bound the loop or subscript the stores (a line counter kept for messages is neither)

	// IO-4: header states reached without progress, and the edges between them
	roots map[string]*rootNode
	rootQ []*rootNode
	cur   *rootNode

	visited    map[string]bool
	work       []item
	steps      int
	overflow   bool
	badReturns []badReturn
	badCycles  []badCycle
	okReturns  int
	okFacts    map[string]bool
	weakCount  string // PRE-3: why a counter-vs-count comparison on the path did not discharge the return
}

type rootNode struct {
	key   string
	st    *state
	edges []rootEdge
	color int
}

type rootEdge struct {
	to    string
	latch *ssa.BasicBlock
	site  *site
	undec bool
}

type item struct {
	b    *ssa.BasicBlock
	idx  int
	from *ssa.BasicBlock
	st   *state
}

const stepLimit = 400000

func isNilConst(v ssa.Value) bool {
	c, ok := v.(*ssa.Const)
	return ok && c.Value == nil && !isBoolType(c.Type())
}

func isEOFLoad(v ssa.Value) bool {
	u, ok := v.(*ssa.UnOp)
	if !ok || u.Op != token.MUL {
		return false
	}
	g, ok := u.X.(*ssa.Global)
	return ok && g.Pkg != nil && g.Pkg.Pkg.Path() == "io" && g.Name() == "EOF"
}

// pureKey: key of a call to an accessor whose result does not change between input operations.
func pureKey(c *ssa.Call) (string, bool) {
	obj := ssau.CalleeObj(c)
	if obj == nil || obj.Pkg() == nil {
		return "", false
	}
	ok := (obj.Pkg().Path() == "bufio" && recvName(obj) == "Scanner" && obj.Name() == "Err") ||
		(obj.Pkg().Path() == bitlibPath && recvName(obj) == "Reader" && obj.Name() == "Error")
	if !ok {
		return "", false
	}
	k := obj.FullName() + "("
	for _, a := range c.Call.Args {
		k += a.Name() + ","
	}
	return k + ")", true
}

func isErrorsIs(c *ssa.Call) bool {
	obj := ssau.CalleeObj(c)
	return obj != nil && ssau.IsFunc(obj, "errors", "Is") && len(c.Call.Args) == 2
}

func alwaysNonNilCall(c *ssa.Call) bool {
	obj := ssau.CalleeObj(c)
	if obj == nil {
		return false
	}
	return ssau.IsFunc(obj, "fmt", "Errorf") || ssau.IsFunc(obj, "errors", "New")
}

func (e *explorer) eval(v ssa.Value, st *state) av {
	if a, ok := st.vals[v]; ok {
		return a
	}
	switch x := v.(type) {
	case *ssa.Const:
		if x.Value == nil {
			if isBoolType(x.Type()) {
				return avFalse
			}
			return avNil
		}
		if isBoolType(x.Type()) {
			if x.Value.ExactString() == "true" {
				return avTrue
			}
			return avFalse
		}
	case *ssa.Extract:
		if c, ok := x.Tuple.(*ssa.Call); ok {
			if a, ok := st.vals[c]; ok {
				if s := e.fi.siteOf[c]; s != nil && s.errIdx == x.Index {
					return a
				}
			}
		}
	case *ssa.Call:
		if alwaysNonNilCall(x) {
			return avNonNil
		}
		if k, ok := pureKey(x); ok {
			return st.keys[k]
		}
		if isErrorsIs(x) {
			if e.eval(x.Call.Args[0], st) == avSeed && isEOFLoad(x.Call.Args[1]) {
				switch st.eof {
				case 1:
					return avTrue
				case 2:
					return avFalse
				}
			}
			return avUnknown
		}
		if callee := x.Call.StaticCallee(); callee != nil && isErrorType(x.Type()) && e.a.neverNil(callee) {
			return avNonNil
		}
		// a call that is handed the non-nil error and returns an error: wrapping convention
		if isErrorType(x.Type()) && ssau.Builtin(x) == "" {
			for _, arg := range x.Call.Args {
				if a := e.eval(arg, st); (a == avSeed || a == avNonNil) && isErrorType(arg.Type()) {
					return avNonNil
				}
			}
		}
	case *ssa.MakeInterface:
		if types.IsInterface(x.Type()) {
			return avNonNil
		}
	case *ssa.ChangeInterface:
		return e.eval(x.X, st)
	case *ssa.ChangeType:
		return e.eval(x.X, st)
	case *ssa.UnOp:
		switch x.Op {
		case token.NOT:
			switch e.eval(x.X, st) {
			case avTrue:
				return avFalse
			case avFalse:
				return avTrue
			}
		case token.MUL:
			if g, ok := x.X.(*ssa.Global); ok && isErrorType(x.Type()) && g != nil {
				return avNonNil // package-level error variables (io.EOF, io.ErrUnexpectedEOF, ErrX) are non-nil by convention
			}
			if al, ok := x.X.(*ssa.Alloc); ok && e.fi.cells[al] {
				return st.vals[al]
			}
		}
	case *ssa.BinOp:
		if x.Op != token.EQL && x.Op != token.NEQ {
			return avUnknown
		}
		a, b := e.eval(x.X, st), e.eval(x.Y, st)
		res := avUnknown
		nonnil := func(v av) bool { return v == avNonNil || v == avSeed }
		switch {
		case a == avNil && b == avNil:
			res = avTrue
		case (a == avNil && nonnil(b)) || (b == avNil && nonnil(a)):
			res = avFalse
		case a == avSeed && isEOFLoad(x.Y), b == avSeed && isEOFLoad(x.X):
			switch st.eof {
			case 1:
				res = avTrue
			case 2:
				res = avFalse
			}
		case (a == avTrue || a == avFalse) && (b == avTrue || b == avFalse):
			if a == b {
				res = avTrue
			} else {
				res = avFalse
			}
		}
		if x.Op == token.NEQ {
			switch res {
			case avTrue:
				res = avFalse
			case avFalse:
				res = avTrue
			}
		}
		return res
	}
	return avUnknown
}

// refine records what taking one side of a branch teaches.
func (e *explorer) refine(cond ssa.Value, truth bool, st *state) {
	switch c := cond.(type) {
	case *ssa.UnOp:
		if c.Op == token.NOT {
			e.refine(c.X, !truth, st)
			return
		}
	case *ssa.BinOp:
		if c.Op == token.EQL || c.Op == token.NEQ {
			isEq := (c.Op == token.EQL) == truth
			a, b := e.eval(c.X, st), e.eval(c.Y, st)
			switch {
			case b == avNil && a == avUnknown:
				e.know(c.X, pick(isEq, avNil, avNonNil), st)
			case a == avNil && b == avUnknown:
				e.know(c.Y, pick(isEq, avNil, avNonNil), st)
			case (a == avSeed && isEOFLoad(c.Y)) || (b == avSeed && isEOFLoad(c.X)):
				if st.eof == 0 {
					st.eof = int8(pick(isEq, 1, 2))
				}
			}
			return
		}
	case *ssa.Call:
		if isErrorsIs(c) && e.eval(c.Call.Args[0], st) == avSeed && isEOFLoad(c.Call.Args[1]) {
			if st.eof == 0 {
				st.eof = int8(pick(truth, 1, 2))
			}
			return
		}
	}
	if isBoolType(cond.Type()) {
		e.know(cond, pick(truth, avTrue, avFalse), st)
	}
}

func pick[T any](c bool, a, b T) T {
	if c {
		return a
	}
	return b
}

func (e *explorer) know(v ssa.Value, a av, st *state) {
	switch x := v.(type) {
	case *ssa.Const:
		return
	case *ssa.Call:
		if k, ok := pureKey(x); ok {
			st.keys[k] = a
			return
		}
	case *ssa.UnOp:
		if al, ok := x.X.(*ssa.Alloc); ok && x.Op == token.MUL && e.fi.cells[al] {
			st.vals[al] = a
			return
		}
	case *ssa.ChangeInterface:
		e.know(x.X, a, st)
		return
	}
	st.vals[v] = a
}

func (e *explorer) evalRel(v ssa.Value, st *state, depth int) (relv, bool) {
	if r, ok := st.rel[v]; ok {
		return r, true
	}
	if depth > 8 {
		return relv{}, false
	}
	switch x := v.(type) {
	case *ssa.Convert:
		return e.evalRel(x.X, st, depth+1)
	case *ssa.ChangeType:
		return e.evalRel(x.X, st, depth+1)
	case *ssa.BinOp:
		if x.Op == token.ADD || x.Op == token.SUB {
			if k, isC := ssau.ConstInt(x.Y); isC {
				if r, ok := e.evalRel(x.X, st, depth+1); ok {
					if x.Op == token.SUB {
						k = -k
					}
					return r.plus(k), true
				}
			}
			if k, isC := ssau.ConstInt(x.X); isC && x.Op == token.ADD {
				if r, ok := e.evalRel(x.Y, st, depth+1); ok {
					return r.plus(k), true
				}
			}
		}
	case *ssa.Call:
		if ssau.Builtin(x) == "append" && len(x.Call.Args) > 0 {
			if r, ok := e.evalRel(x.Call.Args[0], st, depth+1); ok {
				r.far = true
				return r, true
			}
		}
	}
	return relv{}, false
}

func (e *explorer) assignPhis(b, from *ssa.BasicBlock, st *state) {
	pi := -1
	for i, p := range b.Preds {
		if p == from {
			pi = i
			break
		}
	}
	if pi < 0 {
		return
	}
	type upd struct {
		p   *ssa.Phi
		a   av
		r   relv
		rok bool
	}
	var ups []upd
	for _, in := range b.Instrs {
		p, ok := in.(*ssa.Phi)
		if !ok {
			break
		}
		u := upd{p: p, a: e.eval(p.Edges[pi], st)}
		if e.mode == modeIO4 || e.mode == modePRE2 {
			u.r, u.rok = e.evalRel(p.Edges[pi], st, 0)
		}
		ups = append(ups, u)
	}
	if e.uni != nil {
		var isLen []bool
		for _, u := range ups {
			v := stripConv(u.p.Edges[pi])
			isLen = append(isLen, e.uni.lenVals[v] || st.uniLen[v])
		}
		for i, u := range ups {
			if isLen[i] {
				st.uniLen[u.p] = true
			} else {
				delete(st.uniLen, u.p)
			}
		}
	}
	for _, u := range ups {
		st.set(u.p, u.a)
		if e.mode == modeIO4 || e.mode == modePRE2 {
			if u.rok {
				st.rel[u.p] = u.r
			} else {
				delete(st.rel, u.p)
			}
		}
	}
}

func (e *explorer) push(b *ssa.BasicBlock, idx int, from *ssa.BasicBlock, st *state) {
	e.work = append(e.work, item{b, idx, from, st})
}

// goTo follows the CFG edge b→s.
func (e *explorer) goTo(b, s *ssa.BasicBlock, st *state) {
	switch e.mode {
	case modeIO4, modePRE2:
		if s == e.loop.Header {
			e.cycle(b, st)
			return
		}
		if !e.loop.Blocks[s] {
			return // left the loop
		}
	case modeIO2, modeSTK:
		for _, l := range e.seedLoops {
			if s == l.Header && l.Blocks[b] {
				st.reentered = true
			}
		}
	}
	e.push(s, 0, b, st)
}

func (e *explorer) cycle(latch *ssa.BasicBlock, st *state) {
	pi := -1
	for i, p := range e.loop.Header.Preds {
		if p == latch {
			pi = i
		}
	}
	if e.mode == modePRE2 && e.uni != nil {
		e.uniCycle(latch, pi, st)
		return
	}
	if e.mode == modePRE2 {
		counted := false
		for c, cl := range e.fi.counters {
			if cl != e.loop || (e.pre2ctr != nil && c != e.pre2ctr) || (e.pre2ctr == nil && e.pre2set != nil && !e.pre2set[c]) {
				continue
			}
			r, ok := e.evalRel(c.Edges[pi], st, 0)
			if e.pre2ctr != nil {
				// PRE-3: the counter steps by exactly one (or stays) and never takes an unrelated value
				_, isSlice := c.Type().Underlying().(*types.Slice)
				switch {
				case !ok || r.base != c:
					e.badCycles = append(e.badCycles, badCycle{latch: latch, how: "is re-assigned from an unrelated value"})
					return
				case !isSlice && (r.far || (r.off != 0 && r.off != 1)):
					e.badCycles = append(e.badCycles, badCycle{latch: latch, how: "does not step by exactly one"})
					return
				}
			}
			if ok && r.base == c && r.adv() {
				counted = true
			}
		}
		if counted && !st.stored {
			e.badCycles = append(e.badCycles, badCycle{latch: latch, how: "is incremented on a path that stores no record"})
		}
		return
	}
	advanced, unknown := false, false
	for _, c := range e.fi.exitCtl[e.loop] {
		r, ok := e.evalRel(c.Edges[pi], st, 0)
		switch {
		case ok && r.base == c && r.adv():
			advanced = true
		case ok && r.base == c:
		default:
			unknown = true
		}
	}
	if advanced || st.consumed {
		return // progress: the iteration consumed input or moved the counter
	}
	// no progress: the next iteration starts in this abstract state; a cycle among such states never terminates
	st2 := st.clone()
	e.assignPhis(e.loop.Header, latch, st2)
	e.resetIteration(st2)
	ed := rootEdge{latch: latch, site: st.exhausted, undec: unknown}
	ed.to = e.addRoot(st2)
	e.cur.edges = append(e.cur.edges, ed)
}

func (e *explorer) resetIteration(st *state) {
	for k := range st.rel {
		delete(st.rel, k)
	}
	for p, pl := range e.fi.counters {
		if pl == e.loop {
			st.rel[p] = relv{base: p}
		}
	}
	for k := range st.vals {
		if c, ok := k.(*ssa.Call); ok && e.loop.Blocks[c.Block()] {
			delete(st.vals, k)
		}
	}
	st.consumed, st.exhausted = false, nil
}

func (e *explorer) addRoot(st *state) string {
	k := st.key()
	if _, ok := e.roots[k]; !ok {
		n := &rootNode{key: k, st: st}
		e.roots[k] = n
		e.rootQ = append(e.rootQ, n)
	}
	return k
}

// runFill explores one iteration of fill loop l (PRE-2).
func (e *explorer) runFill(l *ssau.Loop) {
	e.loop = l
	st := newState()
	e.resetIteration(st)
	first := 0
	for first < len(l.Header.Instrs) {
		if _, ok := l.Header.Instrs[first].(*ssa.Phi); !ok {
			break
		}
		first++
	}
	e.push(l.Header, first, nil, st)
	e.run()
}

// runLoop explores loop l (IO-4) and returns the non-progress cycles found.
func (e *explorer) runLoop(l *ssau.Loop) {
	e.loop = l
	e.roots = map[string]*rootNode{}
	st := newState()
	e.resetIteration(st)
	e.addRoot(st)
	first := 0
	for first < len(l.Header.Instrs) {
		if _, ok := l.Header.Instrs[first].(*ssa.Phi); !ok {
			break
		}
		first++
	}
	nvisited := 0
	for i := 0; i < len(e.rootQ); i++ {
		if i > 256 {
			e.overflow = true
			break
		}
		e.cur = e.rootQ[i]
		e.visited = map[string]bool{}
		e.push(l.Header, first, nil, e.cur.st.clone())
		e.run()
		nvisited += len(e.visited)
		if e.overflow {
			break
		}
	}
	e.visited = map[string]bool{}
	for i := 0; i < nvisited; i++ {
		e.visited[itoa(i)] = true // only the size is reported
	}
	// cycles among the no-progress header states
	var dfs func(n *rootNode)
	dfs = func(n *rootNode) {
		n.color = 1
		for _, ed := range n.edges {
			m := e.roots[ed.to]
			switch m.color {
			case 0:
				dfs(m)
			case 1:
				bc := badCycle{latch: ed.latch, site: ed.site, undec: ed.undec}
				switch {
				case ed.undec:
					bc.how = "the counter that controls the loop exit is re-assigned from a value the rule cannot relate to it"
				case len(e.fi.exitCtl[e.loop]) == 0:
					bc.how = "a path through the loop body returns to the loop head, in the state it started from, without passing the success side of any input call (the loop has no counter)"
				default:
					bc.how = "a path through the loop body returns to the loop head, in the state it started from, without advancing the loop counter and without passing the success side of any input call"
				}
				e.badCycles = append(e.badCycles, bc)
			}
		}
		n.color = 2
	}
	for _, n := range e.rootQ {
		if n.color == 0 {
			dfs(n)
		}
	}
}

func (e *explorer) run() {
	for len(e.work) > 0 {
		it := e.work[len(e.work)-1]
		e.work = e.work[:len(e.work)-1]
		e.block(it)
		if e.steps > stepLimit {
			e.overflow = true
			return
		}
	}
}

func (e *explorer) block(it item) {
	b, st := it.b, it.st
	if it.idx == 0 {
		// the block executes (again): what was learnt about the values it defines belongs to the previous execution
		for _, in := range b.Instrs {
			if _, isPhi := in.(*ssa.Phi); isPhi {
				continue
			}
			if v, ok := in.(ssa.Value); ok {
				delete(st.vals, v)
				delete(st.rel, v)
				delete(st.le, v)
			}
		}
		if it.from != nil {
			if len(st.le) > 0 {
				for _, in := range b.Instrs {
					p, isPhi := in.(*ssa.Phi)
					if !isPhi {
						break
					}
					delete(st.le, p)
				}
			}
			e.assignPhis(b, it.from, st)
		}
		k := itoa(b.Index) + "#" + st.key()
		if e.visited[k] {
			return
		}
		e.visited[k] = true
	}
	var opbuf [8]*ssa.Value
	for i := it.idx; i < len(b.Instrs); i++ {
		e.steps++
		if len(e.stale) > 0 && !st.wrote {
			if _, isDbg := b.Instrs[i].(*ssa.DebugRef); !isDbg {
				for _, op := range b.Instrs[i].Operands(opbuf[:0]) {
					if *op != nil && e.stale[*op] {
						if e.withinDelivered(b.Instrs[i], *op, st) {
							st.window = true
							e.windows++
							continue
						}
						st.wrote = true
						if e.badUse == nil {
							e.badUse = b.Instrs[i]
						}
					}
				}
			}
		}
		switch in := b.Instrs[i].(type) {
		case *ssa.Store:
			if al, ok := in.Addr.(*ssa.Alloc); ok && e.fi.cells[al] {
				st.set(al, e.eval(in.Val, st))
				if e.mode == modeIO4 || e.mode == modePRE2 {
					if r, ok := e.evalRel(in.Val, st, 0); ok {
						st.rel[al] = r
					} else {
						delete(st.rel, al)
					}
				}
			} else if ia, ok := in.Addr.(*ssa.IndexAddr); ok {
				if _, isAlloc := ia.X.(*ssa.Alloc); !isAlloc {
					st.wrote = true
				}
				if e.fillArr[ia.X] {
					st.stored = true
				}
			}
		case *ssa.UnOp:
			if (e.mode == modeIO4 || e.mode == modePRE2) && in.Op == token.MUL {
				if al, ok := in.X.(*ssa.Alloc); ok && e.fi.cells[al] {
					if r, ok := st.rel[al]; ok {
						st.rel[in] = r
					} else {
						delete(st.rel, in)
					}
				}
			}
		case *ssa.Call:
			if ssau.Builtin(in) == "append" {
				if !st.window {
					st.wrote = true // data added that does not come out of a validated window of the delivered bytes
				}
				st.stored = true // PRE-2: the iteration recorded data
				continue
			}
			if ssau.Builtin(in) == "copy" && len(in.Call.Args) == 2 {
				st.wrote = true
				dst := in.Call.Args[0]
				for d := 0; d < 4; d++ {
					sl, ok := dst.(*ssa.Slice)
					if !ok {
						break
					}
					dst = sl.X
				}
				if e.fillArr[dst] {
					st.stored = true
				}
				continue
			}
			if e.seed != nil && e.seed.kind == kBool && e.seed.prim {
				// the token accessors of the scanner whose Scan() just failed
				if obj := ssau.CalleeObj(in); obj != nil && obj.Pkg() != nil && obj.Pkg().Path() == "bufio" && recvName(obj) == "Scanner" &&
					(obj.Name() == "Text" || obj.Name() == "Bytes") && len(in.Call.Args) > 0 && len(e.seed.call.Call.Args) > 0 && in.Call.Args[0] == e.seed.call.Call.Args[0] {
					st.wrote = true
				}
			}
			if e.pre2ctr != nil && ssau.Builtin(in) == "" {
				// the record is handed to a helper together with its index
				for _, arg := range in.Call.Args {
					if fi := e.fi; fi.counterOf(arg, 0) == e.pre2ctr {
						st.stored = true
					}
				}
			}
			s := e.fi.siteOf[in]
			if s == nil || s.helper {
				continue
			}
			if s.stickyE {
				if e.mode == modeSTK && errUsed(e.fi, in, s) {
					st.stickyChecked = true
				}
				continue
			}
			// an input operation: accessor results are no longer known
			for k := range st.keys {
				delete(st.keys, k)
			}
			switch e.mode {
			case modeIO4:
				ex := st.clone()
				ex.exhausted = s
				switch s.kind {
				case kErr:
					ex.vals[in] = avSeed
					st.vals[in] = avNil
				case kBool:
					ex.vals[in] = avFalse
					st.vals[in] = avTrue
				default:
					delete(ex.vals, in)
					delete(st.vals, in)
				}
				st.consumed = true
				e.push(b, i+1, nil, ex)
			default:
				delete(st.vals, in) // executed again: outcome unknown
			}
		case *ssa.If:
			c := e.eval(in.Cond, st)
			take := func(k int, s2 *state) {
				if cc, ok := e.fi.cmps[in]; ok && e.ctrs[cc.phi] && !cc.constB && cc.reached == k && !s2.reentered {
					if rc := e.a.recordCounter(e.fi, cc.phi); rc.ok && cc.lb >= rc.c0 {
						s2.countReached = true
					} else {
						e.weakCount = rc.describe(e.a, cc)
					}
				}
				e.goTo(b, b.Succs[k], s2)
			}
			switch c {
			case avTrue:
				take(0, st)
			case avFalse:
				take(1, st)
			default:
				s2 := st.clone()
				e.refine(in.Cond, true, st)
				e.refine(in.Cond, false, s2)
				if e.nVal != nil {
					e.learnLE(in.Cond, true, st)
					e.learnLE(in.Cond, false, s2)
				}
				if e.uni != nil {
					e.learnUni(in.Cond, true, st)
					e.learnUni(in.Cond, false, s2)
				}
				take(0, st)
				take(1, s2)
			}
			return
		case *ssa.Jump:
			e.goTo(b, b.Succs[0], st)
			return
		case *ssa.Return:
			e.atReturn(in, st)
			return
		case *ssa.Panic:
			return
		}
	}
}

// ---- TOK-3: every accepted line has the same number of tokens --------------------------------------------

// uniCheck: candidates are the integer loop-header phis that start from a negative constant ("nothing
// latched yet"). A candidate p proves uniformity if on every iteration that records data
//   - the value carried to the next iteration is len(tokens) of this line (assigned, or p unchanged on a
//     path where the branch p == len(tokens) was taken), and
//   - p was either still negative (first record) or equal to len(tokens) of this line.
type uniCheck struct {
	lenVals map[ssa.Value]bool
	ok      map[*ssa.Phi]bool
	why     map[*ssa.Phi]string
	cycles  int
}

func (e *explorer) learnUni(cond ssa.Value, truth bool, st *state) {
	for {
		u, ok := cond.(*ssa.UnOp)
		if !ok || u.Op != token.NOT {
			break
		}
		truth = !truth
		cond = u.X
	}
	b, ok := cond.(*ssa.BinOp)
	if !ok {
		return
	}
	op := b.Op
	x, y := stripConv(b.X), stripConv(b.Y)
	// a candidate itself, or a value known to equal it on this path (the join after `if p < 0 { p = len }`)
	base := func(v ssa.Value) *ssa.Phi {
		if ph, ok := v.(*ssa.Phi); ok && e.uni.ok[ph] {
			return ph
		}
		if st.uniLen[v] || e.uni.lenVals[v] {
			return nil
		}
		if r, ok := e.evalRel(v, st, 0); ok && !r.adv() && e.uni.ok[r.base] {
			return r.base
		}
		return nil
	}
	px, py := base(x), base(y)
	var p *ssa.Phi
	var other ssa.Value
	switch {
	case px != nil:
		p, other = px, y
	case py != nil:
		p, other = py, x
		switch op {
		case token.LSS:
			op = token.GTR
		case token.LEQ:
			op = token.GEQ
		case token.GTR:
			op = token.LSS
		case token.GEQ:
			op = token.LEQ
		}
	default:
		return
	}
	if !truth {
		switch op {
		case token.LSS:
			op = token.GEQ
		case token.LEQ:
			op = token.GTR
		case token.GTR:
			op = token.LEQ
		case token.GEQ:
			op = token.LSS
		case token.EQL:
			op = token.NEQ
		case token.NEQ:
			op = token.EQL
		}
	}
	if e.uni.lenVals[other] || st.uniLen[other] {
		if op == token.EQL {
			st.uniEq[p] = true
		}
		return
	}
	if c, isC := ssau.ConstInt(other); isC {
		if (op == token.LSS && c <= 0) || (op == token.LEQ && c < 0) || (op == token.EQL && c < 0) {
			st.uniNeg[p] = true
		}
	}
}

func (e *explorer) uniCycle(latch *ssa.BasicBlock, pi int, st *state) {
	if !st.stored {
		return // the line was skipped, nothing recorded for it
	}
	e.uni.cycles++
	for p, ok := range e.uni.ok {
		if !ok {
			continue
		}
		next := stripConv(p.Edges[pi])
		nextIsLen := e.uni.lenVals[next] || st.uniLen[next]
		same := false
		if r, rok := e.evalRel(p.Edges[pi], st, 0); rok && r.base == p && !r.adv() {
			same = true
		}
		switch {
		case !(st.uniEq[p] || st.uniNeg[p]):
			e.uni.ok[p] = false
			e.uni.why[p] = "a line is accepted on a path (back edge near " + e.a.p.Pos(blockPos(latch)) + ") on which '" + nameOfPhi(p) + "' is neither still unset (negative) nor tested equal to the line's token count"
		case !(nextIsLen || (same && st.uniEq[p])):
			e.uni.ok[p] = false
			e.uni.why[p] = "'" + nameOfPhi(p) + "' does not carry the token count of the accepted line to the next one (back edge near " + e.a.p.Pos(blockPos(latch)) + ")"
		}
	}
}

// ---- REC-WHOLE: which bytes of the buffer did the failed read deliver --------------------------------

func stripConv(v ssa.Value) ssa.Value {
	for {
		switch x := v.(type) {
		case *ssa.Convert:
			v = x.X
		case *ssa.ChangeType:
			v = x.X
		default:
			return v
		}
	}
}

// learnLE records, for a branch `X OP n` (n the byte count of the failed read, X = root + off), what the
// side taken proves in the form root + k <= n.
func (e *explorer) learnLE(cond ssa.Value, truth bool, st *state) {
	for {
		u, ok := cond.(*ssa.UnOp)
		if !ok || u.Op != token.NOT {
			break
		}
		truth = !truth
		cond = u.X
	}
	b, ok := cond.(*ssa.BinOp)
	if !ok {
		return
	}
	op := b.Op
	x, y := b.X, b.Y
	switch {
	case stripConv(y) == e.nVal:
	case stripConv(x) == e.nVal:
		x = y
		switch op { // n OP X  ==  X OP' n
		case token.LSS:
			op = token.GTR
		case token.LEQ:
			op = token.GEQ
		case token.GTR:
			op = token.LSS
		case token.GEQ:
			op = token.LEQ
		}
	default:
		return
	}
	if !truth {
		switch op {
		case token.LSS:
			op = token.GEQ
		case token.LEQ:
			op = token.GTR
		case token.GTR:
			op = token.LEQ
		case token.GEQ:
			op = token.LSS
		case token.EQL:
			op = token.NEQ
		case token.NEQ:
			op = token.EQL
		}
	}
	root, off, aff := affine(x, 0)
	if !aff {
		return
	}
	var k int64
	switch op {
	case token.LEQ, token.EQL:
		k = off
	case token.LSS:
		k = off + 1
	default:
		return
	}
	key := e.nVal // constants: c <= n
	if root != nil {
		rv, isVal := root.(ssa.Value)
		if !isVal {
			return
		}
		key = rv
	}
	if st.le == nil {
		st.le = map[ssa.Value]int64{}
	}
	if old, ok := st.le[key]; !ok || k > old {
		st.le[key] = k
	}
}

// withinDelivered: is this use of the buffer a window [lo, hi) / an element proven to lie within [0, n)?
func (e *explorer) withinDelivered(in ssa.Instruction, buf ssa.Value, st *state) bool {
	if e.nVal == nil || len(st.le) == 0 {
		return false
	}
	var bound ssa.Value
	var plus int64
	switch x := in.(type) {
	case *ssa.Slice:
		if x.X != buf || x.High == nil {
			return false
		}
		bound = x.High
	case *ssa.IndexAddr:
		if x.X != buf {
			return false
		}
		bound, plus = x.Index, 1
	default:
		return false
	}
	root, off, aff := affine(bound, 0)
	if !aff {
		return false
	}
	key := e.nVal
	if root != nil {
		rv, isVal := root.(ssa.Value)
		if !isVal {
			return false
		}
		key = rv
	}
	k, ok := st.le[key]
	return ok && off+plus <= k
}

func (e *explorer) atReturn(r *ssa.Return, st *state) {
	if e.mode == modeIO4 || e.mode == modePRE2 {
		return
	}

	var what av
	switch {
	case e.fi.errRes >= 0:
		what = e.eval(r.Results[e.fi.errRes], st)
		if what == avNonNil || what == avSeed {
			e.okReturns++
			e.okFacts["error return at "+e.a.p.Pos(posOfReturn(r))] = true
			return
		}
	case e.fi.boolRes >= 0 && e.mode != modePRE1:
		what = e.eval(r.Results[e.fi.boolRes], st)
		if what == avFalse {
			e.okReturns++
			e.okFacts["false return at "+e.a.p.Pos(posOfReturn(r))] = true
			return
		}
	default:
		what = avNil
	}
	if e.mode == modeNN {
		e.badReturns = append(e.badReturns, badReturn{ret: r, what: what})
		return
	}
	if e.mode == modeSTK {
		if st.stickyChecked {
			e.okReturns++
			return
		}
		e.badReturns = append(e.badReturns, badReturn{ret: r, what: what, how: "no checked Reader.Error() on the path"})
		return
	}
	if st.countReached {
		e.okReturns++
		e.okFacts["count-reached branch before return at "+e.a.p.Pos(posOfReturn(r))] = true
		return
	}
	if e.mode == modeIO2 && e.countless && e.streaming && !st.wrote {
		e.okReturns++
		e.okFacts["count-less record stream: after the failed read nothing is appended/stored except out of buffer windows proven to lie within the bytes delivered, return at "+e.a.p.Pos(posOfReturn(r))] = true
		return
	}
	how := ""
	if e.mode == modeIO2 {
		switch {
		case e.countless && e.streaming && st.wrote:
			how = "data was appended/stored or the read buffer was used after the failed read"
		case st.eof == 1 && e.countless:
			how = "io.EOF accepted outside a count-less record loop"
		case st.eof == 1:
			how = "io.EOF accepted although the format declares a count"
		}
	}
	if st.reentered {
		if how != "" {
			how += "; "
		}
		how += "the loop continued after the exhausted read"
	}
	e.badReturns = append(e.badReturns, badReturn{ret: r, what: what, how: how})
}

func posOfReturn(r *ssa.Return) token.Pos {
	return ssau.PosOf(r)
}

func (a *analysis) newExplorer(fi *fnInfo, m mode) *explorer {
	e := &explorer{a: a, fi: fi, mode: m, ctrs: map[*ssa.Phi]bool{}, visited: map[string]bool{}, okFacts: map[string]bool{}}
	if fi.fn.Pkg != nil {
		e.countless = a.countless[fi.fn.Pkg.Pkg]
	}
	return e
}

// neverNil: every return of fn (a function of the scoped packages) yields a non-nil error.
func (a *analysis) neverNil(fn *ssa.Function) bool {
	if v, ok := a.nn[fn]; ok {
		return v == 2
	}
	a.nn[fn] = 1
	if fn.Blocks == nil || fn.Pkg == nil || !a.scopePkg[fn.Pkg.Pkg] {
		return false
	}
	if _, isErr, _ := lastResult(fn.Signature); !isErr {
		return false
	}
	e := a.newExplorer(a.info(fn), modeNN)
	e.push(fn.Blocks[0], 0, nil, newState())
	e.run()
	if !e.overflow && len(e.badReturns) == 0 && e.okReturns > 0 {
		a.nn[fn] = 2
		return true
	}
	return false
}

// staleRoots: slices / pointers handed to the call as destination buffers (the reader itself excluded).
func staleRoots(c *ssa.Call) map[ssa.Value]bool {
	out := map[ssa.Value]bool{}
	var add func(v ssa.Value, d int)
	add = func(v ssa.Value, d int) {
		if v == nil || d > 4 {
			return
		}
		switch x := v.(type) {
		case *ssa.Const, *ssa.Global, *ssa.Function, *ssa.Builtin:
			return
		case *ssa.MakeInterface:
			add(x.X, d+1)
			return
		case *ssa.Slice:
			out[x] = true
			add(x.X, d+1)
			return
		}
		switch v.Type().Underlying().(type) {
		case *types.Slice, *types.Pointer:
			out[v] = true
		}
	}
	obj := ssau.CalleeObj(c)
	if obj == nil {
		return out
	}
	sig, _ := obj.Type().(*types.Signature)
	if sig == nil {
		return out
	}
	off := 0
	if sig.Recv() != nil && !c.Call.IsInvoke() {
		off = 1 // Args[0] is the receiver (the reader object)
	}
	for i := off; i < len(c.Call.Args); i++ {
		pi := i - off
		if pi >= sig.Params().Len() {
			pi = sig.Params().Len() - 1
		}
		if pi >= 0 {
			if it, ok := sig.Params().At(pi).Type().Underlying().(*types.Interface); ok && it.NumMethods() > 0 {
				continue // io.Reader and friends: the source, not a destination
			}
		}
		add(c.Call.Args[i], 0)
	}
	return out
}

// seedCounters: which counters may discharge a nil return for a seed at block b.
func (e *explorer) seedCounters(b *ssa.BasicBlock) {
	e.seedLoops = e.fi.loopsContaining(b)
	if len(e.seedLoops) > 0 {
		e.streaming = true
		for p, l := range e.fi.counters {
			for _, sl := range e.seedLoops {
				if l == sl {
					e.ctrs[p] = true
				}
			}
		}
		for _, sl := range e.seedLoops {
			if len(e.fi.exitCtl[sl]) > 0 {
				e.streaming = false
			}
		}
		return
	}
	// a site outside every loop (e.g. a header line): counters of record loops, i.e. loops that contain an input site
	for p, l := range e.fi.counters {
		for _, s := range e.fi.sites {
			if !s.helper && !s.stickyE && l.Blocks[s.call.Block()] {
				e.ctrs[p] = true
			}
		}
	}
}

func sortedKeys(m map[string]bool) []string {
	out := make([]string, 0, len(m))
	for k := range m {
		out = append(out, k)
	}
	sort.Strings(out)
	return out
}
