// Package c14: truncated model files are rejected; no hang, no fabricated geometry.
//
// Rules (DESIGN.md §3.5, §4 C14), all decided on go/ssa of the decode side of
// formats/ply, formats/stl, formats/spz, formats/splat, formats/pts:
//
//	IO-1  a (*bufio.Scanner).Scan() inside a loop has its boolean result tested
//	IO-2  from the exhausted outcome of every input call (Scan()==false, err!=nil) no path reaches a
//	      nil-error return, unless it passes "record counter >= declared count" (counter of the
//	      site's loop, not advanced after the failed read) or — for io.ReadFull/binary.Read in a
//	      count-less record stream — the error is io.EOF (nothing read) and nothing was appended since
//	IO-3  no error result of an input primitive, an input wrapper or a decode helper of these packages is dropped
//	IO-4  in a loop that reads input every cycle advances the exit-controlling counter or passes the
//	      success side of an input call
//	IO-5  a raw Read([]byte) has its byte count looked at (beyond the design: short reads carry no error)
//	PRE-1 a loop filling arrays pre-sized from a run-time count reaches a nil-error return only through
//	      its counter reaching the count
//	STK-1 values read through a sticky-error reader (bitlib.Reader) are returned only after a checked Error()
package c14

import (
	"fmt"
	"go/token"
	"os"
	"sort"
	"strings"
	"time"

	"golang.org/x/tools/go/ssa"

	"polycheck/ob"
	"polycheck/props"
)

func init() {
	props.Register(&props.Prop{
		ID: "C14",
		Explanation: "End-of-input discipline of the PLY / STL / SPZ / .splat / PTS decoders, decided on go/ssa with input calls resolved by callee object " +
			"((*bufio.Scanner).Scan, io.ReadFull, binary.Read, Read([]byte), bufio.Reader.*, gzip.NewReader, bitlib.Reader.*, and repository wrappers found by summary). " +
			"IO-1 Scan() in a loop is tested; IO-2 from the exhausted outcome of every input call (Scan()==false / err!=nil) a path-sensitive exploration of the CFG " +
			"(facts: nil-ness of the error along phis, local variables, `if err := …`, switch on err, errors.Is, fmt.Errorf wrapping) finds no return with a nil error, " +
			"except after a branch proving record counter >= declared count, or io.EOF-after-a-whole-record in a count-less stream (.splat); IO-3 no error of an input call or decode helper is dropped; " +
			"IO-4 every cycle of a reading loop advances its counter or consumes input (no spin at EOF); IO-5 raw Read's n is used; PRE-1 pre-sized arrays are returned only when the filling loop " +
			"left through its counter reaching the count. Each read call is an obligation, cut positions do not appear in the argument. Not decided: panics on short token lists " +
			"(index out of range in the ASCII property readers), allocation size before reading, truncation inside header text that still parses, gzip's own framing.",
		Assumptions: []string{
			"io.ReadFull / io.ReadAtLeast / binary.Read return io.EOF only when no byte was read and io.ErrUnexpectedEOF after a partial read (documented contract)",
			"package-level error variables and the results of fmt.Errorf / errors.New are non-nil; a call that is handed a non-nil error and returns an error returns a non-nil error (wrapping convention)",
			"(*bufio.Scanner).Err() does not change between two input operations",
		},
		Controls: controls,
		Run:      run,
	})
}

const (
	controlFile      = "formats/pts/zz_verif_control_c14.go"
	controlFileSplat = "formats/splat/zz_verif_control_c14.go"
)

var badRule = map[string]string{
	"IO1Bad": "IO-1", "IO2Bad": "IO-2", "IO2BreakBad": "IO-2", "IO2EOFBad": "IO-2", "IO2WroteBad": "IO-2", "IO3Bad": "IO-3", "IO3LogBad": "IO-3",
	"IO4Bad": "IO-4", "IO5Bad": "IO-5", "PRE1Bad": "PRE-1", "STK1Bad": "STK-1", "IO2CountAfterAdvanceBad": "IO-2",
	"TOK3Bad": "TOK-3", "TOK2Bad": "TOK-2", "TOK2RetBad": "TOK-2", "RECBad": "REC-WHOLE", "PRE3Bad": "PRE-3", "CNT1Bad": "CNT-1", "CNT1CopyBad": "CNT-1",
	"TOK4Bad": "TOK-4", "TOK4BufBad": "TOK-4", "TOK1Bad": "TOK-1", "TOK1OffByOneBad": "TOK-1", "PRE2Bad": "PRE-2",
}

func run(c *props.Ctx) {
	t0 := time.Now()
	a, missing := newAnalysis(c.P)
	for _, m := range missing {
		c.R.Failf("anchor package %s not found", m)
	}
	// entry points named by the property must exist and be decode-side
	for _, an := range [][2]string{{"formats/ply", "ReadMesh"}, {"formats/ply", "MeshReader.Read"}, {"formats/ply", "ReadHeader"},
		{"formats/stl", "Read"}, {"formats/stl", "ReadMesh"}, {"formats/spz", "Read"}, {"formats/splat", "Read"}, {"formats/pts", "ReadPointCloud"}} {
		f := c.P.Func(an[0], an[1])
		if f == nil {
			c.R.Failf("anchor %s.%s not found", an[0], an[1])
			continue
		}
		if !a.reading[f] {
			c.R.Failf("anchor %s.%s contains no input primitive reachable by summary: the decode side is not where the rules look", an[0], an[1])
		}
	}

	// The decode side = what the decoder entry points can reach (static callees, function literals,
	// methods of the scoped packages called through interfaces). Callers of the entry points — the
	// node-graph adapters such as ply.ReadNodeData.Process, which deliberately maps unreadable input to
	// an empty cloud — are not decoders and are outside the property's observation points.
	reach := map[*ssa.Function]bool{}
	{
		byName := map[string][]*ssa.Function{}
		for _, fn := range a.fns {
			if fn.Signature.Recv() != nil {
				byName[fn.Name()] = append(byName[fn.Name()], fn)
			}
		}
		var work []*ssa.Function
		for _, an := range [][2]string{{"formats/ply", "ReadMesh"}, {"formats/ply", "MeshReader.Read"}, {"formats/ply", "ReadHeader"},
			{"formats/stl", "Read"}, {"formats/stl", "ReadMesh"}, {"formats/spz", "Read"}, {"formats/splat", "Read"}, {"formats/pts", "ReadPointCloud"}} {
			if f := c.P.Func(an[0], an[1]); f != nil {
				work = append(work, f)
			}
		}
		for len(work) > 0 {
			f := work[len(work)-1]
			work = work[:len(work)-1]
			if f == nil || reach[f] {
				continue
			}
			reach[f] = true
			work = append(work, f.AnonFuncs...)
			for _, b := range f.Blocks {
				for _, in := range b.Instrs {
					ci, ok := in.(ssa.CallInstruction)
					if !ok {
						continue
					}
					cc := ci.Common()
					if cc.IsInvoke() {
						work = append(work, byName[cc.Method.Name()]...)
						continue
					}
					if callee := cc.StaticCallee(); callee != nil {
						work = append(work, callee)
					}
					if mc, ok := cc.Value.(*ssa.MakeClosure); ok {
						if cf, ok := mc.Fn.(*ssa.Function); ok {
							work = append(work, cf)
						}
					}
					for _, arg := range cc.Args {
						if mc, ok := arg.(*ssa.MakeClosure); ok {
							if cf, ok := mc.Fn.(*ssa.Function); ok {
								work = append(work, cf)
							}
						}
						if cf, ok := arg.(*ssa.Function); ok {
							work = append(work, cf)
						}
					}
				}
			}
		}
	}
	nAbove := 0

	var all []finding
	nFns, nSites, nPrims := 0, 0, 0
	kinds := map[string]int{}
	for _, fn := range a.fns {
		if !a.reading[fn] {
			continue
		}
		if !reach[fn] && !c.P.IsControl(fn.Pos()) {
			nAbove++
			continue
		}
		fi := a.info(fn)
		n := a.checkFunction(fi, &all)
		if c.P.IsControl(fn.Pos()) {
			continue
		}
		nFns++
		nSites += n
		for _, s := range fi.sites {
			if s.prim {
				nPrims++
				kinds[s.name]++
			}
		}
	}

	// decode helpers that read nothing themselves but are handed scanner-line tokens (ply.listAsciiPropertyReader.Read):
	// CNT-1's merge detection applies to them as well
	for _, fn := range a.fns {
		if a.reading[fn] || (!reach[fn] && !c.P.IsControl(fn.Pos())) {
			continue
		}
		hasTok := false
		for _, p := range fn.Params {
			if a.tokParam()[p] {
				hasTok = true
			}
		}
		if !hasTok {
			continue
		}
		fi := a.info(fn)
		a.cnt1(fi, func(rule, construct string, pos token.Pos, v ob.Verdict, msg string, facts ...string) {
			all = append(all, finding{rule: rule, construct: construct, pos: pos, verdict: v, msg: msg, facts: facts, fn: fn})
		})
	}

	// deterministic order: by file, line, rule, construct (token.Pos values depend on the parse order of the loader)
	type sk struct {
		file string
		line int
	}
	keyOf := func(f finding) sk {
		po := c.P.Fset.Position(f.pos)
		return sk{c.P.RelFile(f.pos), po.Line}
	}
	sort.SliceStable(all, func(i, j int) bool {
		a, b := keyOf(all[i]), keyOf(all[j])
		if a.file != b.file {
			return a.file < b.file
		}
		if a.line != b.line {
			return a.line < b.line
		}
		if all[i].rule != all[j].rule {
			return all[i].rule < all[j].rule
		}
		return all[i].construct < all[j].construct
	})

	// route
	ctl := map[string][]finding{} // control function -> findings
	debug := os.Getenv("C14_DEBUG") != ""
	for _, f := range all {
		if debug {
			fmt.Fprintf(os.Stderr, "%-9s %-6s %s @%s %s %v\n", f.verdict, f.rule, f.construct, c.P.Pos(f.pos), f.msg, f.facts)
		}
		if c.P.IsControl(f.fn.Pos()) {
			top := f.fn
			for top.Parent() != nil {
				top = top.Parent()
			}
			ctl[top.Name()] = append(ctl[top.Name()], f)
			continue
		}
		pos := c.P.Pos(f.pos)
		switch f.verdict {
		case ob.Holds:
			c.R.Hold(f.rule, f.construct, pos, f.facts...)
		case ob.Violation:
			c.R.Violate(f.rule, f.construct, pos, f.msg, f.facts...)
		default:
			c.R.Undecide(f.rule, f.construct, pos, f.msg, f.facts...)
		}
	}

	if len(c.P.Controls) > 0 {
		var ctlFns []*ssa.Function
		for _, fn := range a.fns {
			if c.P.IsControl(fn.Pos()) && fn.Parent() == nil && strings.HasPrefix(fn.Name(), "verifControl") {
				ctlFns = append(ctlFns, fn)
			}
		}
		sort.Slice(ctlFns, func(i, j int) bool { return ctlFns[i].Name() < ctlFns[j].Name() })
		seenBad := map[string]bool{}
		for _, fn := range ctlFns {
			name := strings.TrimPrefix(fn.Name(), "verifControl")
			fs := ctl[fn.Name()]
			if rule, isBad := badRule[name]; isBad {
				got := ob.Holds
				for _, f := range fs {
					if f.rule == rule && f.verdict == ob.Violation {
						got = ob.Violation
					}
				}
				seenBad[rule] = true
				c.R.Control(rule, "control:bad:"+name, controlFile, got, ob.Violation, "positive control must be reported")
				continue
			}
			if strings.HasPrefix(name, "Good") {
				got := ob.Holds
				why := ""
				n := 0
				for _, f := range fs {
					n++
					if f.verdict != ob.Holds {
						got = f.verdict
						why = f.rule + " " + f.construct + ": " + f.msg
					}
				}
				if n == 0 {
					got, why = ob.Undecided, "no obligation was generated for this control (not recognised as decode-side)"
				}
				c.R.Control("IO", "control:good:"+name, controlFile, got, ob.Holds, "accepted idiom must stay silent "+why)
			}
		}
		for _, rule := range []string{"IO-1", "IO-2", "IO-3", "IO-4", "IO-5", "PRE-1", "PRE-2", "PRE-3", "TOK-1", "TOK-2", "TOK-3", "TOK-4", "CNT-1", "REC-WHOLE", "STK-1"} {
			if !seenBad[rule] {
				c.R.Control(rule, "control:bad:missing", controlFile, ob.Holds, ob.Violation, "no positive control found for the rule")
			}
		}
	}

	c.R.Extra["analysis_s"] = time.Since(t0).Seconds()
	c.R.Extra["functions_analysed"] = nFns
	c.R.Extra["call_sites"] = nSites
	c.R.Extra["input_primitive_sites"] = nPrims
	c.R.Extra["input_primitives_by_callee"] = kinds
	c.R.Note("decode-side functions (transitively containing an input primitive): %d; input/helper call sites: %d; primitive sites: %d", nFns, nSites, nPrims)
	c.R.Note("a header announcing a huge count allocates before reading (make([]T, count)); noted, not a truncation matter")

	// vacuity floors (today: IO-1 3 Scan sites, IO-2 50 sites, IO-3 58, IO-4 10 loops, PRE-1/PRE-2 10 fill loops, TOK-1 3 token lists)
	c.R.Floor("IO-1", 2)
	c.R.Floor("IO-2", 20)
	c.R.Floor("IO-3", 20)
	c.R.Floor("IO-4", 5)
	c.R.Floor("PRE-1", 3)
	c.R.Floor("PRE-2", 3)
	c.R.Floor("TOK-1", 2)
	c.R.Floor("TOK-2", 2)
	c.R.Floor("TOK-4", 2)
	c.R.Floor("CNT-1", 8)
	if nPrims < 12 {
		c.R.Failf("vacuity: only %d input-primitive call sites found in the five decoder packages (confirmed by hand: 4 Scan + 18 ReadFull/binary.Read + 2 gzip.NewReader)", nPrims)
	}
}
