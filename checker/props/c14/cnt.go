package c14

import (
	"go/token"
	"go/types"
	"sort"

	"golang.org/x/tools/go/ssa"

	"polycheck/ob"
	"polycheck/ssau"
)

// CNT-1 (beyond the design): the declared count is honoured.
//
// In a format that declares its record counts, the number of records demanded
// from the input must be the declared number itself. A value derived from the
// *amount of input available* (AV) — len() of a scanner-line token list, the
// result of copy() out of such a list, an integer answered by the reader about
// itself (Len(), Size(), Buffered(), Stat().Size(), …) — may be compared with the
// count (on the way to an error) and may cap the *capacity* of a pre-allocation,
// but must not be merged into the count: min/max builtins, a phi that joins an AV
// value with another non-constant value, or a store of an AV value into a variable
// that also holds decoded content (e.g. the destination of binary.Read). A merged
// value that sizes a slice (make len), bounds a slice expression, is returned,
// stored, passed on or indexes anything is a VIOLATION: a truncated input is then
// clamped instead of rejected. The copy() form of the same clamp lives in TOK-1's
// traversal (tokens.go: copyClamp).

func isReaderType(t types.Type) bool {
	if t == nil {
		return false
	}
	for _, tt := range []types.Type{t, types.NewPointer(t)} {
		ms := types.NewMethodSet(tt)
		for i := 0; i < ms.Len(); i++ {
			f, ok := ms.At(i).Obj().(*types.Func)
			if !ok || f.Name() != "Read" {
				continue
			}
			if sig, ok := f.Type().(*types.Signature); ok && isRawReadSig(sig) {
				return true
			}
		}
		if _, isPtr := t.(*types.Pointer); isPtr {
			break
		}
	}
	return false
}

func isIntType(t types.Type) bool {
	b, ok := t.Underlying().(*types.Basic)
	return ok && b.Info()&types.IsInteger != 0
}

type cntCheck struct {
	a      *analysis
	fi     *fnInfo
	reader map[ssa.Value]bool // the reader, views of it (type assertions), and objects it hands out about itself
	av     map[ssa.Value]bool
	avCell map[*ssa.Alloc]bool
	done   bool
}

func (c *cntCheck) readerDerived(v ssa.Value, d int) bool {
	if v == nil || d > 6 {
		return false
	}
	if r, ok := c.reader[v]; ok {
		return r
	}
	c.reader[v] = false
	res := false
	switch x := v.(type) {
	case *ssa.TypeAssert:
		res = c.readerDerived(x.X, d+1)
	case *ssa.ChangeInterface:
		res = c.readerDerived(x.X, d+1)
	case *ssa.MakeInterface:
		res = c.readerDerived(x.X, d+1)
	case *ssa.Extract:
		res = c.readerDerived(x.Tuple, d+1)
	case *ssa.Phi:
		for _, e := range x.Edges {
			if c.readerDerived(e, d+1) {
				res = true
			}
		}
	case *ssa.Call:
		// what a reader answers about itself (f.Stat(), …) — input primitives excluded
		if ssau.Builtin(x) == "" && c.fi.siteOf[x] == nil {
			cc := x.Common()
			if cc.IsInvoke() {
				res = c.readerDerived(cc.Value, d+1)
			} else if f := cc.StaticCallee(); f != nil && f.Signature.Recv() != nil && len(cc.Args) > 0 {
				res = c.readerDerived(cc.Args[0], d+1)
			}
		}
	}
	if !res {
		if _, isTuple := v.Type().(*types.Tuple); !isTuple && isReaderType(v.Type()) {
			res = true
		}
	}
	c.reader[v] = res
	return res
}

// openTokens: a token list whose length is the number of tokens available (not fixed by slice bounds).
func (a *analysis) openTokens(v ssa.Value, d int) bool {
	if d > 6 {
		return false
	}
	switch x := v.(type) {
	case *ssa.Call:
		return isSplitter(x) && isTokenList(x.Type()) && a.fromScannerLine(x.Call.Args[0], 0, map[ssa.Value]bool{})
	case *ssa.Slice:
		return x.High == nil && a.openTokens(x.X, d+1)
	case *ssa.Phi:
		for _, e := range x.Edges {
			if a.openTokens(e, d+1) {
				return true
			}
		}
	case *ssa.Parameter:
		return a.tokParam()[x]
	}
	return false
}

// tokParam: parameters of scoped functions that receive scanner-line tokens (fix-point over call sites).
func (a *analysis) tokParam() map[*ssa.Parameter]bool {
	if a.tokParams != nil {
		return a.tokParams
	}
	a.tokParams = map[*ssa.Parameter]bool{}
	for changed, round := true, 0; changed && round < 6; round++ {
		changed = false
		for _, fn := range a.fns {
			ssau.AllInstrs(fn, func(in ssa.Instruction) {
				call, ok := in.(*ssa.Call)
				if !ok || ssau.Builtin(call) != "" {
					return
				}
				cc := call.Common()
				for k, arg := range cc.Args {
					if !isTokenList(arg.Type()) {
						continue
					}
					tok := a.openTokens(arg, 0)
					if !tok {
						// bounded re-slices are tokens too, but their length is not "what is available"
						continue
					}
					var callees []*ssa.Function
					off := 0
					if cc.IsInvoke() {
						off = 1
						if a.inScope(cc.Method) {
							callees = a.implsOf(cc.Method)
						}
					} else if f := cc.StaticCallee(); f != nil && f.Pkg != nil && a.scopePkg[f.Pkg.Pkg] {
						callees = []*ssa.Function{f}
					}
					for _, f := range callees {
						if f.Blocks == nil || k+off >= len(f.Params) {
							continue
						}
						if p := f.Params[k+off]; !a.tokParams[p] {
							a.tokParams[p] = true
							changed = true
						}
					}
				}
			})
		}
	}
	return a.tokParams
}

// isAV: lookup in the least fix-point computed by computeAV (phis and local variables may be cyclic).
func (c *cntCheck) isAV(v ssa.Value, d int) bool {
	if !c.done {
		c.computeAV()
	}
	return c.av[v]
}

func (c *cntCheck) computeAV() {
	c.done = true
	var vals []ssa.Value
	ssau.AllInstrs(c.fi.fn, func(in ssa.Instruction) {
		if v, ok := in.(ssa.Value); ok {
			vals = append(vals, v)
		}
	})
	for changed := true; changed; {
		changed = false
		for _, v := range vals {
			if !c.av[v] && c.avLocal(v) {
				c.av[v] = true
				changed = true
			}
		}
	}
}

// avLocal: one step of the AV rules, operands looked up in the current approximation.
func (c *cntCheck) avLocal(v ssa.Value) bool {
	recv := func(call *ssa.Call) bool {
		cc := call.Common()
		if cc.IsInvoke() {
			return c.readerDerived(cc.Value, 0)
		}
		if f := cc.StaticCallee(); f != nil && f.Signature.Recv() != nil && len(cc.Args) > 0 {
			return c.readerDerived(cc.Args[0], 0)
		}
		return false
	}
	switch x := v.(type) {
	case *ssa.Call:
		switch ssau.Builtin(x) {
		case "len":
			return len(x.Call.Args) == 1 && c.a.openTokens(x.Call.Args[0], 0)
		case "copy":
			return len(x.Call.Args) == 2 && c.a.openTokens(x.Call.Args[1], 0)
		case "min", "max":
			for _, arg := range x.Call.Args {
				if c.av[arg] {
					return true
				}
			}
		case "":
			return isIntType(x.Type()) && c.fi.siteOf[x] == nil && recv(x)
		}
	case *ssa.Extract:
		if call, ok := x.Tuple.(*ssa.Call); ok && isIntType(x.Type()) && ssau.Builtin(call) == "" && c.fi.siteOf[call] == nil {
			return recv(call)
		}
	case *ssa.Convert:
		return c.av[x.X]
	case *ssa.ChangeType:
		return c.av[x.X]
	case *ssa.BinOp:
		switch x.Op {
		case token.ADD, token.SUB, token.MUL, token.QUO, token.REM, token.SHL, token.SHR, token.AND, token.OR:
			return c.av[x.X] || c.av[x.Y]
		}
	case *ssa.UnOp:
		switch x.Op {
		case token.SUB:
			return c.av[x.X]
		case token.MUL:
			if al, ok := x.X.(*ssa.Alloc); ok {
				for _, r := range ssau.Refs(al) {
					if st, ok := r.(*ssa.Store); ok && st.Addr == al && c.av[st.Val] {
						return true
					}
				}
			}
		}
	case *ssa.Phi:
		for _, e := range x.Edges {
			if c.av[e] {
				return true
			}
		}
	}
	return false
}

func nonConst(v ssa.Value) bool {
	_, isC := v.(*ssa.Const)
	return !isC
}

type merge struct {
	at   ssa.Instruction
	vals []ssa.Value // the values carrying the merged quantity
	how  string
}

func (a *analysis) cnt1(fi *fnInfo, add func(rule, construct string, pos token.Pos, v ob.Verdict, msg string, facts ...string)) {
	if fi.fn.Pkg != nil && a.countless[fi.fn.Pkg.Pkg] {
		return
	}
	c := &cntCheck{a: a, fi: fi, reader: map[ssa.Value]bool{}, av: map[ssa.Value]bool{}, avCell: map[*ssa.Alloc]bool{}}
	var merges []merge
	ssau.AllInstrs(fi.fn, func(in ssa.Instruction) {
		switch x := in.(type) {
		case *ssa.Call:
			if b := ssau.Builtin(x); b == "min" || b == "max" {
				nAV, nOther := 0, 0
				for _, arg := range x.Call.Args {
					switch {
					case c.isAV(arg, 0):
						nAV++
					case nonConst(arg):
						nOther++
					}
				}
				if nAV > 0 && nOther > 0 {
					merges = append(merges, merge{at: x, vals: []ssa.Value{x}, how: b + "() of a count and a quantity derived from the input still available"})
				}
			}
		case *ssa.Phi:
			if !isIntType(x.Type()) {
				return
			}
			nAV, nOther := 0, 0
			for _, e := range x.Edges {
				switch {
				case e == x:
				case c.isAV(e, 0):
					nAV++
				case nonConst(e):
					nOther++
				}
			}
			if nAV > 0 && nOther > 0 {
				merges = append(merges, merge{at: x, vals: []ssa.Value{x}, how: "a count is replaced on some path by a quantity derived from the input still available (if n > available { n = available })"})
			}
		case *ssa.Alloc:
			elem := x.Type().Underlying().(*types.Pointer).Elem()
			if !isIntType(elem) {
				return
			}
			nAV, nOther := 0, 0
			var loads []ssa.Value
			for _, r := range ssau.Refs(x) {
				switch r := r.(type) {
				case *ssa.Store:
					if r.Addr != x {
						continue
					}
					switch {
					case c.isAV(r.Val, 0):
						nAV++
					case nonConst(r.Val):
						nOther++
					}
				case *ssa.UnOp:
					if r.Op == token.MUL {
						loads = append(loads, r)
					}
				case *ssa.MakeInterface, ssa.CallInstruction:
					nOther++ // the address is handed out: somebody (binary.Read) decodes into the variable
				}
			}
			if nAV > 0 && nOther > 0 {
				merges = append(merges, merge{at: x, vals: loads, how: "a variable holding a decoded count is overwritten on some path by a quantity derived from the input still available"})
			}
		}
	})
	// what a merged value may be used for
	bad := map[ssa.Instruction]string{} // merge.at -> first offending use
	tainted := map[ssa.Value]ssa.Instruction{}
	for _, m := range merges {
		work := append([]ssa.Value{}, m.vals...)
		seen := map[ssa.Value]bool{}
		for len(work) > 0 {
			v := work[len(work)-1]
			work = work[:len(work)-1]
			if seen[v] {
				continue
			}
			seen[v] = true
			tainted[v] = m.at
			for _, r := range ssau.Refs(v) {
				switch r := r.(type) {
				case *ssa.DebugRef:
				case *ssa.Convert:
					work = append(work, r)
				case *ssa.ChangeType:
					work = append(work, r)
				case *ssa.Phi:
					work = append(work, r)
				case *ssa.BinOp:
					switch r.Op {
					case token.LSS, token.LEQ, token.GTR, token.GEQ, token.EQL, token.NEQ:
						// compared: fine
					default:
						work = append(work, r)
					}
				case *ssa.MakeSlice:
					if r.Len == v {
						if _, ok := bad[m.at]; !ok {
							bad[m.at] = "it is the length of the make at " + a.p.Pos(r.Pos())
						}
					}
					// capacity only: a hint, allowed
				case *ssa.Store:
					if al, ok := r.Addr.(*ssa.Alloc); ok && r.Val == v {
						if al == m.at {
							continue
						}
						// a local variable: follow its loads
						for _, l := range ssau.Refs(al) {
							if u, ok := l.(*ssa.UnOp); ok && u.Op == token.MUL {
								work = append(work, u)
							}
						}
						continue
					}
					if _, ok := bad[m.at]; !ok {
						bad[m.at] = "it is stored at " + a.p.Pos(ssau.PosOf(r))
					}
				case *ssa.Call:
					if b := ssau.Builtin(r); b == "min" || b == "max" {
						work = append(work, r)
						continue
					}
					if _, ok := bad[m.at]; !ok {
						bad[m.at] = "it is passed on at " + a.p.Pos(ssau.PosOf(r))
					}
				default:
					if _, ok := bad[m.at]; !ok {
						bad[m.at] = "it is used at " + a.p.Pos(ssau.PosOf(r))
					}
				}
			}
		}
	}
	sort.SliceStable(merges, func(i, j int) bool { return ssau.PosOf(merges[i].at) < ssau.PosOf(merges[j].at) })
	for i, m := range merges {
		key := fi.name + "→clamp#" + itoa(i+1)
		if why, isBad := bad[m.at]; isBad {
			add("CNT-1", key, ssau.PosOf(m.at), ob.Violation,
				m.how+" and "+why+": a truncated input is clamped to what is there instead of being rejected",
				"merge at "+a.p.Pos(ssau.PosOf(m.at)))
		} else {
			add("CNT-1", key, ssau.PosOf(m.at), ob.Holds, "", "clamped value only compared / used as a capacity hint")
		}
	}
	// one obligation per run-time sized allocation: its length is not a clamped count
	n := 0
	ssau.AllInstrs(fi.fn, func(in ssa.Instruction) {
		ms, ok := in.(*ssa.MakeSlice)
		if !ok {
			return
		}
		if _, isConst := ms.Len.(*ssa.Const); isConst {
			return
		}
		n++
		if _, isT := tainted[ms.Len]; isT {
			return // reported at the merge
		}
		add("CNT-1", fi.name+"→make#"+itoa(n), ms.Pos(), ob.Holds, "", "length is not merged with a quantity derived from the input still available")
	})
}
