package c14

// Positive / negative controls, type-checked inside package formats/pts.
func controls() map[string]string {
	return map[string]string{controlFile: controlSrc, controlFileSplat: controlSrcSplat}
}

// .splat is the one count-less record stream: its controls live in that package.
const controlSrcSplat = `package splat

import (
	"encoding/binary"
	"errors"
	"io"
)

// IO-2: record stream, but the stale buffer is appended before the error is looked at
func verifControlIO2WroteBad(in io.Reader) ([]byte, error) {
	buf := make([]byte, 4)
	var out []byte
	var err error
	for {
		_, err = io.ReadFull(in, buf)
		out = append(out, buf...)
		if err != nil {
			break
		}
	}
	if err == io.EOF {
		err = nil
	}
	return out, err
}

// record stream without a count: io.EOF after a whole record is success (errors.Is form)
func verifControlGood3(in io.Reader) ([]uint32, error) {
	buf := make([]byte, 4)
	out := make([]uint32, 0)
	var err error
	for {
		_, err = io.ReadFull(in, buf)
		if err != nil {
			break
		}
		out = append(out, binary.LittleEndian.Uint32(buf))
	}
	if errors.Is(err, io.EOF) {
		return out, nil
	}
	return nil, err
}

// REC-WHOLE: block reader whose decode loop is bounded in bytes: the trailing partial record is decoded
func verifControlRECBad(in io.Reader) ([]uint32, error) {
	block := make([]byte, 4*256)
	out := make([]uint32, 0)
	var err error
	for err == nil {
		var n int
		n, err = io.ReadFull(in, block)
		for off := 0; off < n; off += 4 {
			out = append(out, binary.LittleEndian.Uint32(block[off:off+4]))
		}
	}
	if err == io.EOF || err == io.ErrUnexpectedEOF {
		err = nil
	}
	return out, err
}

// block reader bounded in whole records; a partial tail is an error, the whole records before it are kept
func verifControlGood12(in io.Reader) ([]uint32, error) {
	block := make([]byte, 4*256)
	out := make([]uint32, 0)
	var err error
	for err == nil {
		var n int
		n, err = io.ReadFull(in, block)
		if err == io.ErrUnexpectedEOF && n%4 == 0 {
			err = io.EOF
		}
		for off := 0; off+4 <= n; off += 4 {
			out = append(out, binary.LittleEndian.Uint32(block[off:off+4]))
		}
	}
	if err == io.EOF {
		err = nil
	}
	return out, err
}

// the same stream reader, if/else form, a trailing partial record is dropped silently (allowed: exactly the whole records)
func verifControlGood8(in io.Reader) ([]uint32, error) {
	buf := make([]byte, 4)
	out := make([]uint32, 0)
	for {
		if _, err := io.ReadFull(in, buf); err != nil {
			if err == io.EOF || err == io.ErrUnexpectedEOF {
				return out, nil
			}
			return nil, err
		}
		out = append(out, binary.LittleEndian.Uint32(buf))
	}
}
`

const controlSrc = `package pts

import (
	"bufio"
	"encoding/binary"
	"errors"
	"fmt"
	"io"
	"log"
	"strings"

	"github.com/EliCDavis/bitlib"
)

// ---- must fire -------------------------------------------------------------

// IO-1: Scan() as a statement inside a counted loop (zeros fabricated)
func verifControlIO1Bad(in io.Reader, n int) ([]string, error) {
	s := bufio.NewScanner(in)
	out := make([]string, 0)
	for i := 0; i < n; i++ {
		s.Scan()
		out = append(out, s.Text())
	}
	return out, nil
}

// IO-4: continue on an empty token without consuming or counting (spins at EOF)
func verifControlIO4Bad(in io.Reader, n int) ([]string, error) {
	s := bufio.NewScanner(in)
	out := make([]string, 0)
	i := 0
	for i < n {
		s.Scan()
		if s.Text() == "" {
			continue
		}
		out = append(out, s.Text())
		i++
	}
	return out, nil
}

// IO-2: Scan()==false leaves with scanner.Err(), which is nil at a clean EOF
func verifControlIO2Bad(in io.Reader, n int) ([]string, error) {
	s := bufio.NewScanner(in)
	var out []string
	for i := 0; i < n; i++ {
		if !s.Scan() {
			return out, s.Err()
		}
		out = append(out, s.Text())
	}
	return out, nil
}

// IO-2: short read breaks out of the loop, nil error returned
func verifControlIO2BreakBad(in io.Reader, n int) ([][]byte, error) {
	var out [][]byte
	for i := 0; i < n; i++ {
		buf := make([]byte, 8)
		if _, err := io.ReadFull(in, buf); err != nil {
			break
		}
		out = append(out, buf)
	}
	return out, nil
}

// IO-2: io.EOF accepted although the format declares a count
func verifControlIO2EOFBad(in io.Reader, n int) ([]uint32, error) {
	out := make([]uint32, 0, n)
	for i := 0; i < n; i++ {
		var v uint32
		err := binary.Read(in, binary.LittleEndian, &v)
		if err == io.EOF {
			break
		}
		if err != nil {
			return nil, err
		}
		out = append(out, v)
	}
	return out, nil
}

// IO-2: the counter keeps counting after the failed read, so "count reached" proves nothing
func verifControlIO2CountAfterAdvanceBad(in io.Reader, n int) ([][]byte, error) {
	out := make([][]byte, 0)
	for i := 0; i < n; i++ {
		buf := make([]byte, 8)
		if _, err := io.ReadFull(in, buf); err != nil {
			continue
		}
		out = append(out, buf)
	}
	return out, nil
}

// IO-3: error dropped
func verifControlIO3Bad(in io.Reader) (uint32, error) {
	buf := make([]byte, 4)
	io.ReadFull(in, buf)
	return binary.LittleEndian.Uint32(buf), nil
}

// IO-3: error only logged
func verifControlIO3LogBad(in io.Reader) (uint32, error) {
	buf := make([]byte, 4)
	_, err := io.ReadFull(in, buf)
	log.Println("read", err)
	return binary.LittleEndian.Uint32(buf), nil
}

// IO-5: raw Read, byte count ignored
func verifControlIO5Bad(in io.Reader) ([]byte, error) {
	buf := make([]byte, 16)
	if _, err := in.Read(buf); err != nil {
		return nil, err
	}
	return buf, nil
}

// PRE-1: pre-sized array returned when the scanner runs dry
func verifControlPRE1Bad(in io.Reader, n int) ([]string, error) {
	s := bufio.NewScanner(in)
	out := make([]string, n)
	i := 0
	for s.Scan() && i < n {
		out[i] = s.Text()
		i++
	}
	if err := s.Err(); err != nil {
		return nil, err
	}
	return out, nil
}

// STK-1: sticky-error reader never asked for its error
func verifControlSTK1Bad(in io.Reader, n int) ([]float32, error) {
	r := bitlib.NewReader(in, binary.LittleEndian)
	out := make([]float32, 0, n)
	for i := 0; i < n; i++ {
		out = append(out, r.Float32())
	}
	return out, nil
}

// TOK-1: tokens of the scanner line indexed without a length test (panics on a cut last line)
func verifControlTOK1Bad(in io.Reader, n int) ([]string, error) {
	s := bufio.NewScanner(in)
	out := make([]string, 0, n)
	for len(out) < n {
		if !s.Scan() {
			return nil, io.ErrUnexpectedEOF
		}
		f := strings.Fields(s.Text())
		out = append(out, f[1])
	}
	return out, nil
}

// TOK-1: the length test proves too little for the index used
func verifControlTOK1OffByOneBad(in io.Reader, n int) ([]string, error) {
	s := bufio.NewScanner(in)
	out := make([]string, 0, n)
	for len(out) < n {
		if !s.Scan() {
			return nil, io.ErrUnexpectedEOF
		}
		f := strings.Fields(s.Text())
		if len(f) < 2 {
			return nil, errors.New("short line")
		}
		out = append(out, f[2])
	}
	return out, nil
}

// PRE-2: a short line is counted although nothing is stored for it
func verifControlPRE2Bad(in io.Reader, n int) ([]string, error) {
	s := bufio.NewScanner(in)
	out := make([]string, n)
	for i := 0; i < n; i++ {
		if !s.Scan() {
			return nil, io.ErrUnexpectedEOF
		}
		f := strings.Fields(s.Text())
		if len(f) > 0 {
			out[i] = f[0]
		}
	}
	return out, nil
}

// PRE-3: the completeness check compares a 1-based line counter, not the record counter
func verifControlPRE3Bad(in io.Reader, n int) ([]string, error) {
	s := bufio.NewScanner(in)
	out := make([]string, n)
	lineNo := 1
	cur := 0
	for s.Scan() && cur < n {
		lineNo++
		out[cur] = s.Text()
		cur++
	}
	if s.Err() != nil {
		return nil, s.Err()
	}
	if lineNo < n {
		return nil, errors.New("short")
	}
	return out, nil
}

// CNT-1: the declared count is lowered to what a Len()-aware source still holds
func verifControlCNT1Bad(in io.Reader) ([]uint32, error) {
	var n uint32
	if err := binary.Read(in, binary.LittleEndian, &n); err != nil {
		return nil, err
	}
	if l, ok := in.(interface{ Len() int }); ok && int(n) > l.Len()/4 {
		n = uint32(l.Len() / 4)
	}
	out := make([]uint32, n)
	if err := binary.Read(in, binary.LittleEndian, &out); err != nil {
		return nil, err
	}
	return out, nil
}

// CNT-1: copy() lets the tokens on the line clamp the declared count
func verifControlCNT1CopyBad(in io.Reader, n int) ([]string, error) {
	s := bufio.NewScanner(in)
	if !s.Scan() {
		return nil, io.ErrUnexpectedEOF
	}
	f := strings.Fields(s.Text())
	out := make([]string, n)
	copy(out, f)
	return out, nil
}

// TOK-2: a default is substituted for a column the line does not have
func verifControlTOK2Bad(in io.Reader, n int) ([]string, error) {
	s := bufio.NewScanner(in)
	out := make([]string, 0, n)
	for len(out) < n {
		if !s.Scan() {
			return nil, io.ErrUnexpectedEOF
		}
		f := strings.Fields(s.Text())
		if len(f) < 1 {
			return nil, errors.New("empty line")
		}
		alpha := "255"
		if 1 < len(f) {
			alpha = f[1]
		}
		out = append(out, f[0]+alpha)
	}
	return out, nil
}

// TOK-2: the column helper answers a constant with a nil error when the column is missing
func verifControlCol(f []string, k int) (string, error) {
	if k >= len(f) {
		return "0", nil
	}
	return f[k], nil
}

func verifControlTOK2RetBad(in io.Reader, n int) ([]string, error) {
	s := bufio.NewScanner(in)
	out := make([]string, 0, n)
	for len(out) < n {
		if !s.Scan() {
			return nil, io.ErrUnexpectedEOF
		}
		v, err := verifControlCol(strings.Fields(s.Text()), 2)
		if err != nil {
			return nil, err
		}
		out = append(out, v)
	}
	return out, nil
}

// TOK-3: an optional column is stored only when the line has it; nothing forces all lines to agree
func verifControlTOK3Bad(in io.Reader, n int) ([]string, []string, error) {
	s := bufio.NewScanner(in)
	a := make([]string, n)
	b := make([]string, n)
	has := false
	cur := 0
	for s.Scan() && cur < n {
		f := strings.Fields(s.Text())
		if len(f) < 1 {
			return nil, nil, io.ErrUnexpectedEOF
		}
		a[cur] = f[0]
		if len(f) > 1 {
			b[cur] = f[1]
			has = true
		}
		cur++
	}
	if cur < n {
		return nil, nil, io.ErrUnexpectedEOF
	}
	if !has {
		b = nil
	}
	return a, b, nil
}

// ---- must stay silent ------------------------------------------------------

// checked Scan, ErrUnexpectedEOF, if err := …; err != nil, fmt.Errorf wrapping, continue after a consumed line
func verifControlGood1(in io.Reader, n int) ([]string, error) {
	s := bufio.NewScanner(in)
	out := make([]string, n)
	i := 0
	for i < n {
		if !s.Scan() {
			if err := s.Err(); err != nil {
				return nil, fmt.Errorf("read: %w", err)
			}
			return nil, io.ErrUnexpectedEOF
		}
		line := s.Text()
		if line == "" {
			continue
		}
		out[i] = line
		i++
	}
	return out, nil
}

// pts style: loop may run dry, the count is checked afterwards; Err() consulted twice
func verifControlGood2(in io.Reader, n int) ([]string, error) {
	s := bufio.NewScanner(in)
	s.Scan()
	out := make([]string, n)
	cur := 0
	for s.Scan() && cur < n {
		out[cur] = s.Text()
		cur++
	}
	if s.Err() != nil {
		return nil, s.Err()
	}
	if cur != n {
		return nil, errors.New("short")
	}
	return out, nil
}

// helper forwarding its error to a caller that checks it with a switch
func verifControlHelper4(in io.Reader, buf []byte) error {
	_, err := io.ReadFull(in, buf)
	return err
}

func verifControlGood4(in io.Reader, n int) ([]byte, error) {
	out := make([]byte, n)
	buf := make([]byte, 1)
	for i := range out {
		err := verifControlHelper4(in, buf)
		switch {
		case err == nil:
		case errors.Is(err, io.EOF):
			return nil, io.ErrUnexpectedEOF
		default:
			return nil, fmt.Errorf("byte %d: %w", i, err)
		}
		out[i] = buf[0]
	}
	return out, nil
}

// sticky reader consulted before returning
func verifControlGood5(in io.Reader, n int) ([]float32, error) {
	r := bitlib.NewReader(in, binary.LittleEndian)
	out := make([]float32, n)
	for i := 0; i < n; i++ {
		out[i] = r.Float32()
	}
	if err := r.Error(); err != nil {
		return nil, err
	}
	return out, nil
}

// (value, ok) helper around Scan; the caller counts with len(appended slice)
func verifControlNext6(s *bufio.Scanner) (string, bool) {
	if !s.Scan() {
		return "", false
	}
	return s.Text(), true
}

func verifControlGood6(in io.Reader, n int) ([]string, error) {
	s := bufio.NewScanner(in)
	var out []string
	for len(out) < n {
		line, ok := verifControlNext6(s)
		if !ok {
			return nil, io.ErrUnexpectedEOF
		}
		out = append(out, line)
	}
	return out, nil
}

// tokens tested in a helper (index related to len) and in the caller (constant bounds)
func verifControlTok9(f []string, k int) (string, error) {
	if k >= len(f) {
		return "", errors.New("short line")
	}
	return f[k], nil
}

func verifControlGood9(in io.Reader, n int) ([]string, error) {
	s := bufio.NewScanner(in)
	out := make([]string, n)
	for i := range out {
		if !s.Scan() {
			return nil, io.ErrUnexpectedEOF
		}
		f := strings.Fields(strings.TrimSpace(s.Text()))
		v, err := verifControlTok9(f, 3)
		if err != nil {
			return nil, err
		}
		if len(f) < 2 {
			return nil, errors.New("short line")
		}
		out[i] = f[0] + f[1] + v
	}
	return out, nil
}

// only the capacity of the pre-allocation is clamped; the declared count bounds the loop
func verifControlGood10(in io.Reader) ([]uint32, error) {
	var n uint32
	if err := binary.Read(in, binary.LittleEndian, &n); err != nil {
		return nil, err
	}
	hint := n
	if l, ok := in.(interface{ Len() int }); ok && int(hint) > l.Len()/4 {
		hint = uint32(l.Len() / 4)
	}
	out := make([]uint32, 0, hint)
	for i := uint32(0); i < n; i++ {
		var v uint32
		if err := binary.Read(in, binary.LittleEndian, &v); err != nil {
			return nil, err
		}
		out = append(out, v)
	}
	return out, nil
}

// copy out of the tokens behind a test of their number; records counted in their own variable
func verifControlGood11(in io.Reader, n int) ([]string, error) {
	s := bufio.NewScanner(in)
	out := make([]string, n)
	lineNo, cur, stored := 1, 0, 0
	for s.Scan() && cur < n {
		lineNo++
		f := strings.Fields(s.Text())
		if len(f) < 1 {
			return nil, fmt.Errorf("line %d: empty", lineNo)
		}
		copy(out[cur:cur+1], f)
		cur++
		stored++
	}
	if stored < n {
		return nil, fmt.Errorf("input ends after line %d", lineNo)
	}
	return out, nil
}

// per-column helper that fails on a missing column; an optional trailing column is skipped, not defaulted
func verifControlCol13(f []string, k int) (string, error) {
	if k >= len(f) {
		return "", fmt.Errorf("no column %d: %w", k, io.ErrUnexpectedEOF)
	}
	return f[k], nil
}

func verifControlGood13(in io.Reader, n int) ([]string, []string, error) {
	s := bufio.NewScanner(in)
	out := make([]string, 0, n)
	var extra []string
	for len(out) < n {
		if !s.Scan() {
			return nil, nil, io.ErrUnexpectedEOF
		}
		f := strings.Fields(s.Text())
		v, err := verifControlCol13(f, 0)
		if err != nil {
			return nil, nil, err
		}
		if len(f) > 1 {
			extra = append(extra, f[1])
		}
		out = append(out, v)
	}
	return out, extra, nil
}

// the optional column is stored only when present, but every line must have the field count of the first one
func verifControlGood14(in io.Reader, n int) ([]string, []string, error) {
	s := bufio.NewScanner(in)
	a := make([]string, n)
	b := make([]string, n)
	has := false
	width := -1
	cur := 0
	for s.Scan() && cur < n {
		f := strings.Fields(s.Text())
		if len(f) < 1 {
			return nil, nil, io.ErrUnexpectedEOF
		}
		if width == -1 {
			width = len(f)
		}
		if width != len(f) {
			return nil, nil, fmt.Errorf("line %d has %d fields, expected %d: %w", cur, len(f), width, io.ErrUnexpectedEOF)
		}
		a[cur] = f[0]
		if len(f) > 1 {
			b[cur] = f[1]
			has = true
		}
		cur++
	}
	if cur < n {
		return nil, nil, io.ErrUnexpectedEOF
	}
	if !has {
		b = nil
	}
	return a, b, nil
}

// error kept in a variable assigned in several places, checked once; raw Read with n used
func verifControlGood7(in io.Reader, n int) ([]byte, error) {
	out := make([]byte, 0, n)
	buf := make([]byte, 64)
	for len(out) < n {
		k, err := in.Read(buf)
		out = append(out, buf[:k]...)
		if err != nil {
			if err == io.EOF && len(out) >= n {
				break
			}
			return nil, err
		}
	}
	return out, nil
}

// TOK-4: the helper fills a caller-owned container and answers it at its full length
func verifControlFieldsInto(dst []string, s string) []string {
	n := 0
	for _, f := range strings.Fields(s) {
		if n < len(dst) {
			dst[n] = f
			n++
		}
	}
	return dst
}

func verifControlTOK4Bad(in io.Reader, n int) ([]string, error) {
	s := bufio.NewScanner(in)
	out := make([]string, 0, n)
	f := make([]string, 2)
	for len(out) < n {
		if !s.Scan() {
			return nil, io.ErrUnexpectedEOF
		}
		f = verifControlFieldsInto(f, s.Text())
		if len(f) < 2 {
			return nil, io.ErrUnexpectedEOF
		}
		out = append(out, f[0]+f[1])
	}
	return out, nil
}

// TOK-4: pieces of the line are stored into a buffer made before the loop, which is then length-tested itself
func verifControlTOK4BufBad(in io.Reader, n int) ([]string, error) {
	s := bufio.NewScanner(in)
	out := make([]string, 0, n)
	f := make([]string, 2)
	for len(out) < n {
		if !s.Scan() {
			return nil, io.ErrUnexpectedEOF
		}
		line := s.Text()
		if k := strings.IndexByte(line, ' '); k < 0 {
			f[0] = line
		} else {
			f[0] = line[:k]
			f[1] = line[k+1:]
		}
		if len(f) < 2 {
			return nil, io.ErrUnexpectedEOF
		}
		out = append(out, f[0]+f[1])
	}
	return out, nil
}

// a reused buffer is fine when the helper answers a view as long as the tokens it found on this line
func verifControlFieldsN(dst []string, s string) []string {
	n := 0
	for _, f := range strings.Fields(s) {
		if n < len(dst) {
			dst[n] = f
			n++
		}
	}
	return dst[:n]
}

func verifControlGood15(in io.Reader, n int) ([]string, error) {
	s := bufio.NewScanner(in)
	out := make([]string, 0, n)
	buf := make([]string, 2)
	for len(out) < n {
		if !s.Scan() {
			return nil, io.ErrUnexpectedEOF
		}
		f := verifControlFieldsN(buf, s.Text())
		if len(f) < 2 {
			return nil, io.ErrUnexpectedEOF
		}
		out = append(out, f[0]+f[1])
	}
	return out, nil
}
`
