package c14

import (
	"go/token"
	"sort"
	"strings"

	"golang.org/x/tools/go/ssa"

	"polycheck/ob"
	"polycheck/ssau"
)

// finding is one decided obligation, routed either to the repository record or
// to the self-test controls.
type finding struct {
	rule, construct string
	pos             token.Pos
	verdict         ob.Verdict
	msg             string
	facts           []string
	fn              *ssa.Function
}

// ---------------------------------------------------------------------------
// "is the outcome looked at": value flow from the result to a branch / return.
// ---------------------------------------------------------------------------

// outcomeRoots: the SSA values carrying the outcome (error / bool) of a site.
func outcomeRoots(c *ssa.Call, s *site) []ssa.Value {
	if s.errIdx < 0 {
		return []ssa.Value{c}
	}
	var out []ssa.Value
	for _, r := range ssau.Refs(c) {
		if ex, ok := r.(*ssa.Extract); ok && ex.Index == s.errIdx {
			out = append(out, ex)
		}
	}
	return out
}

// errUsed reports whether the outcome of the call reaches a branch condition, a
// comparison, a return, a panic, a type switch, errors.Is/As, or is kept in a
// structure — directly or through phis, local variables, conversions and
// wrapping calls (fmt.Errorf, helpers that take an error and return one).
func errUsed(fi *fnInfo, c *ssa.Call, s *site) bool {
	seen := map[ssa.Value]bool{}
	work := outcomeRoots(c, s)
	for len(work) > 0 {
		v := work[len(work)-1]
		work = work[:len(work)-1]
		if seen[v] {
			continue
		}
		seen[v] = true
		for _, r := range ssau.Refs(v) {
			switch r := r.(type) {
			case *ssa.If, *ssa.Return, *ssa.Panic, *ssa.TypeAssert, *ssa.MapUpdate, *ssa.Send, *ssa.MakeClosure:
				return true
			case *ssa.BinOp:
				if r.Op == token.EQL || r.Op == token.NEQ {
					return true
				}
				work = append(work, r)
			case *ssa.UnOp:
				if r.Op == token.NOT {
					work = append(work, r)
				}
			case *ssa.Phi:
				work = append(work, r)
			case *ssa.MakeInterface:
				work = append(work, r)
			case *ssa.ChangeInterface:
				work = append(work, r)
			case *ssa.ChangeType:
				work = append(work, r)
			case *ssa.Convert:
				work = append(work, r)
			case *ssa.Slice:
				work = append(work, r)
			case *ssa.Store:
				if r.Val != v {
					continue
				}
				switch ad := r.Addr.(type) {
				case *ssa.Alloc:
					if fi.strict[ad] {
						for _, l := range ssau.Refs(ad) {
							if u, ok := l.(*ssa.UnOp); ok && u.Op == token.MUL {
								work = append(work, u)
							}
						}
					} else {
						return true // address-taken / captured variable: somebody else may look
					}
				case *ssa.IndexAddr:
					if al, ok := ad.X.(*ssa.Alloc); ok {
						// varargs array: the slice made of it is the argument
						for _, l := range ssau.Refs(al) {
							if sl, ok := l.(*ssa.Slice); ok {
								work = append(work, sl)
							}
						}
					} else {
						return true
					}
				default:
					return true // field / global: kept (sticky-error style)
				}
			case ssa.CallInstruction:
				cc := r.Common()
				if cc.Value == v {
					continue // method call on the error itself (err.Error()): not a check
				}
				obj := ssau.CalleeObj(r)
				if obj != nil && (ssau.IsFunc(obj, "errors", "Is") || ssau.IsFunc(obj, "errors", "As")) {
					return true
				}
				if call, ok := r.(*ssa.Call); ok && ssau.Builtin(call) == "" {
					if isErrorType(call.Type()) {
						work = append(work, call) // wrapping
					} else if tup := call.Type(); tup != nil {
						// (T, error) helpers that are handed the error: follow the error result
						for _, rr := range ssau.Refs(call) {
							if ex, ok := rr.(*ssa.Extract); ok && isErrorType(ex.Type()) {
								work = append(work, ex)
							}
						}
					}
				}
			}
		}
	}
	return false
}

// ---------------------------------------------------------------------------
// Rules.
// ---------------------------------------------------------------------------

func exhaustedText(s *site) string {
	switch s.kind {
	case kBool:
		return s.name + "() == false"
	case kSticky:
		return s.name + "() at end of input (sticky error)"
	}
	return "err != nil from " + s.name
}

func whatText(a av) string {
	switch a {
	case avNil:
		return "a nil error"
	case avFalse, avTrue:
		return "a success flag"
	}
	return "an error value that is not known to be non-nil"
}

func (a *analysis) checkFunction(fi *fnInfo, out *[]finding) (nSites int) {
	fn := fi.fn
	add := func(rule, construct string, pos token.Pos, v ob.Verdict, msg string, facts ...string) {
		*out = append(*out, finding{rule: rule, construct: construct, pos: pos, verdict: v, msg: msg, facts: facts, fn: fn})
	}
	var sticky []*site
	for _, s := range fi.sites {
		pos := ssau.PosOf(s.call)
		if s.kind == kSticky {
			sticky = append(sticky, s)
			continue
		}
		nSites++
		inLoop := len(fi.loopsContaining(s.call.Block())) > 0
		used := errUsed(fi, s.call, s)
		runIO2 := true
		switch s.kind {
		case kBool:
			switch {
			case used:
				add("IO-1", s.key, pos, ob.Holds, "", "boolean result of "+s.name+" reaches a branch / return")
			case inLoop:
				add("IO-1", s.key, pos, ob.Violation,
					s.name+"() is called inside a loop and its boolean result is never tested: at end of input the loop goes on with an empty token (placeholder data / no progress)",
					"call has no referrer that reaches a branch")
				runIO2 = false
			default:
				// untested outside a loop (a header line): IO-2 decides whether what follows notices the missing input
			}
		case kErr:
			if used {
				add("IO-3", s.key, pos, ob.Holds, "", "error result of "+s.name+" reaches a comparison / return / wrap")
			} else {
				what := "input primitive"
				if s.helper {
					what = "decode helper"
				} else if !s.prim {
					what = "input wrapper"
				}
				add("IO-3", s.key, pos, ob.Violation,
					"the error result of "+what+" "+s.name+" is dropped: a short or undecodable read goes unnoticed and the stale/zero buffer is decoded as data",
					"error result has no referrer that reaches a comparison, return, panic or wrap")
				runIO2 = false
			}
		}
		if s.helper {
			continue
		}
		if s.rawRead {
			n := 0
			for _, r := range ssau.Refs(s.call) {
				if ex, ok := r.(*ssa.Extract); ok && ex.Index == 0 {
					n += len(ssau.Refs(ex))
				}
			}
			if n == 0 {
				add("IO-5", s.key, pos, ob.Violation,
					"the byte count of a raw "+s.name+" is ignored: Read may deliver fewer bytes than the buffer holds without an error, so a short (truncated) read is decoded as a full record — use io.ReadFull or test n",
					"extract #0 (n) has no referrers")
			} else {
				add("IO-5", s.key, pos, ob.Holds, "", "n result of the raw Read is used")
			}
		}
		if !runIO2 {
			continue
		}
		// IO-2: from the exhausted outcome, no path to a nil-error return (modulo count check / clean-EOF stream)
		e := a.newExplorer(fi, modeIO2)
		e.seed = s
		e.seedCounters(s.call.Block())
		e.stale = staleRoots(s.call)
		if s.eofDist && s.errIdx == 1 {
			for _, r := range ssau.Refs(s.call) {
				if ex, ok := r.(*ssa.Extract); ok && ex.Index == 0 && len(ssau.Refs(ex)) > 0 {
					e.nVal = ex
				}
			}
		}
		st := newState()
		if s.kind == kBool {
			st.vals[s.call] = avFalse
		} else {
			st.vals[s.call] = avSeed
		}
		st.exhausted = s
		e.push(s.call.Block(), ssau.InstrIndex(s.call)+1, nil, st)
		e.run()
		switch {
		case e.overflow:
			add("IO-2", s.key, pos, ob.Undecided, "path exploration from the exhausted outcome exceeded its budget")
		case len(e.badReturns) > 0:
			br := firstBad(e.badReturns)
			msg := "after " + exhaustedText(s) + " a path reaches the return at " + a.p.Pos(posOfReturn(br.ret)) + " which yields " + whatText(br.what) +
				" without a check that the record counter reached the declared count: a truncated input is accepted"
			if fi.errRes < 0 && fi.boolRes < 0 {
				msg = "after " + exhaustedText(s) + " the function returns normally at " + a.p.Pos(posOfReturn(br.ret)) + " and has no error/ok result to tell its caller"
			}
			if br.how != "" {
				msg += " (" + br.how + ")"
			}
			if e.weakCount != "" {
				msg += "; " + e.weakCount
			}
			add("IO-2", s.key, pos, ob.Violation, msg, "exhausted outcome: "+exhaustedText(s),
				"offending return: "+a.p.Pos(posOfReturn(br.ret)), "states explored: "+itoa(len(e.visited)))
		}
		if s.prim && s.eofDist && e.countless && e.streaming && !e.overflow {
			// REC-WHOLE (beyond the design): what a count-less record stream returns after the read that came up short
			switch {
			case len(e.badReturns) > 0 && e.badUse != nil:
				add("REC-WHOLE", s.key, pos, ob.Violation,
					"after the read that came up short the buffer is used at "+a.p.Pos(ssau.PosOf(e.badUse))+" and no branch on the path proves that the bytes used lie within the n bytes the read delivered"+
						" (a decode loop bounded in bytes — offset < n — instead of whole records — offset+size <= n — decodes the trailing partial record from stale/zero bytes), and the result is returned with a nil error",
					"windows proven within the delivered bytes: "+itoa(e.windows))
			case len(e.badReturns) > 0:
				add("REC-WHOLE", s.key, pos, ob.Violation,
					"after the read that came up short data that does not come out of a validated window of the delivered bytes is appended/stored and returned with a nil error")
			default:
				add("REC-WHOLE", s.key, pos, ob.Holds, "", "only whole records reach the result after the short read",
					"windows of the buffer proven to lie within the delivered bytes: "+itoa(e.windows))
			}
		}
		switch {
		case e.overflow, len(e.badReturns) > 0:
		default:
			facts := []string{"exhausted outcome: " + exhaustedText(s)}
			ok := sortedKeys(e.okFacts)
			if len(ok) > 3 {
				ok = ok[:3]
			}
			facts = append(facts, ok...)
			if e.okReturns == 0 {
				facts = append(facts, "every exhausted path ends in panic or never returns")
			}
			facts = append(facts, "states explored: "+itoa(len(e.visited)))
			add("IO-2", s.key, pos, ob.Holds, "", facts...)
		}
	}

	// IO-4: loops that contain an input site
	for _, l := range fi.loops {
		var in []*site
		for _, s := range fi.sites {
			if !s.helper && !s.stickyE && l.Blocks[s.call.Block()] {
				in = append(in, s)
			}
		}
		if len(in) == 0 {
			continue
		}
		e := a.newExplorer(fi, modeIO4)
		e.runLoop(l)
		pos := loopPos(l)
		key := fi.name + "/loop{" + strings.TrimPrefix(in[0].key, fi.name+"→") + "}"
		var ctr []string
		for _, p := range fi.exitCtl[l] {
			ctr = append(ctr, nameOfPhi(p))
		}
		sort.Strings(ctr)
		desc := "exit-controlling counters: [" + strings.Join(ctr, ",") + "]; input sites in loop: " + itoa(len(in))
		switch {
		case e.overflow:
			add("IO-4", key, pos, ob.Undecided, "loop exploration exceeded its budget")
		case len(e.badCycles) > 0:
			bc := e.badCycles[0]
			for _, c := range e.badCycles {
				if !c.undec && (bc.undec || c.latch.Index < bc.latch.Index) {
					bc = c
				}
			}
			msg := bc.how
			if bc.site != nil {
				msg += "; on that path " + exhaustedText(bc.site) + " (at " + a.p.Pos(ssau.PosOf(bc.site.call)) + ") — at end of input the loop never terminates"
			}
			v := ob.Violation
			if bc.undec {
				v = ob.Undecided
			}
			add("IO-4", key, pos, v, msg, desc, "back edge from block "+itoa(bc.latch.Index)+" near "+a.p.Pos(blockPos(bc.latch)))
		default:
			add("IO-4", key, pos, ob.Holds, "", desc, "every cycle advances a counter or passes the success side of an input call; states explored: "+itoa(len(e.visited)))
		}
	}

	a.pre1(fi, add)
	a.pre3(fi, add)
	a.tok3(fi, add)
	a.cnt1(fi, add)
	a.tok1(fi, add)
	a.tok4(fi, add)
	a.sticky(fi, sticky, add)
	return nSites
}

func constStart(p *ssa.Phi, l *ssau.Loop) (int64, bool) {
	var c0 int64
	seen := false
	for i, pred := range l.Header.Preds {
		if l.Blocks[pred] {
			continue
		}
		k, isC := ssau.ConstInt(p.Edges[i])
		if !isC || (seen && k != c0) {
			return 0, false
		}
		c0, seen = k, true
	}
	return c0, seen
}

func firstBad(bs []badReturn) badReturn {
	best := bs[0]
	for _, b := range bs[1:] {
		// prefer definite nil over unknown, then the earliest position
		if (b.what == avNil) != (best.what == avNil) {
			if b.what == avNil {
				best = b
			}
			continue
		}
		if posOfReturn(b.ret) < posOfReturn(best.ret) {
			best = b
		}
	}
	return best
}

func nameOfPhi(p *ssa.Phi) string {
	if p.Comment != "" {
		return p.Comment
	}
	return p.Name()
}

func blockPos(b *ssa.BasicBlock) token.Pos {
	for _, in := range b.Instrs {
		if in.Pos().IsValid() {
			return in.Pos()
		}
	}
	if len(b.Instrs) > 0 {
		return ssau.PosOf(b.Instrs[0])
	}
	return b.Parent().Pos()
}

func loopPos(l *ssau.Loop) token.Pos {
	// the first valid position in the header, else anywhere in the loop
	if p := blockPos(l.Header); p.IsValid() && p != l.Header.Parent().Pos() {
		return p
	}
	best := token.NoPos
	for b := range l.Blocks {
		for _, in := range b.Instrs {
			if in.Pos().IsValid() && (best == token.NoPos || in.Pos() < best) {
				best = in.Pos()
			}
		}
	}
	if best.IsValid() {
		return best
	}
	return l.Header.Parent().Pos()
}

// PRE-1: a loop that fills (by index) an array pre-sized from a run-time count
// may reach a nil-error return only through "counter reached count".
func (a *analysis) pre1(fi *fnInfo, add func(rule, construct string, pos token.Pos, v ob.Verdict, msg string, facts ...string)) {
	if fi.errRes < 0 {
		return
	}
	type fill struct {
		loop  *ssau.Loop
		makes map[*ssa.MakeSlice]bool
		idx   map[*ssa.Phi]bool // counters the stores are subscripted with
	}
	fills := map[*ssau.Loop]*fill{}
	ssau.AllInstrs(fi.fn, func(in ssa.Instruction) {
		ms, ok := in.(*ssa.MakeSlice)
		if !ok {
			return
		}
		if _, isConst := ms.Len.(*ssa.Const); isConst {
			return
		}
		for _, r := range ssau.Refs(ms) {
			ia, ok := r.(*ssa.IndexAddr)
			if !ok || ia.X != ms {
				continue
			}
			for _, rr := range ssau.Refs(ia) {
				st, ok := rr.(*ssa.Store)
				if !ok || st.Addr != ia {
					continue
				}
				for _, l := range fi.loopsContaining(st.Block()) {
					if l.Blocks[ms.Block()] {
						continue
					}
					f := fills[l]
					if f == nil {
						f = &fill{loop: l, makes: map[*ssa.MakeSlice]bool{}, idx: map[*ssa.Phi]bool{}}
						fills[l] = f
					}
					f.makes[ms] = true
					roots := map[any]bool{}
					intRoots(ia.Index, roots, 0)
					for r := range roots {
						if p, ok := r.(*ssa.Phi); ok && fi.counters[p] == l {
							f.idx[p] = true
						}
					}
				}
			}
		}
	})
	nFill := 0
	for _, l := range fi.loops {
		f := fills[l]
		if f == nil {
			continue
		}
		nFill++
		var mk []string
		for ms := range f.makes {
			mk = append(mk, a.p.Pos(ms.Pos()))
		}
		sort.Strings(mk)
		key := fi.name + "/fill-loop#" + itoa(nFill)
		pos := loopPos(l)
		type exitEdge struct {
			b *ssa.BasicBlock
			k int
		}
		var exits []exitEdge
		countExits := 0
		for _, b := range fi.fn.Blocks {
			if !l.Blocks[b] {
				continue
			}
			for k, s := range b.Succs {
				if l.Blocks[s] {
					continue
				}
				if ifi, ok := b.Instrs[len(b.Instrs)-1].(*ssa.If); ok {
					if cc, ok := fi.cmps[ifi]; ok && fi.counters[cc.phi] == l && cc.reached == k {
						// the loop's own bound; with a constant start value the bound must cover it
						if c0, known := constStart(cc.phi, l); !known || cc.lb >= c0 {
							countExits++
							continue
						}
					}
				}
				exits = append(exits, exitEdge{b, k})
			}
		}
		var bad *badReturn
		var badEdge exitEdge
		weak := ""
		overflow := false
		states := 0
		for _, ex := range exits {
			e := a.newExplorer(fi, modePRE1)
			for p, pl := range fi.counters {
				if pl == l {
					e.ctrs[p] = true
				}
			}
			st := newState()
			if ifi, ok := ex.b.Instrs[len(ex.b.Instrs)-1].(*ssa.If); ok {
				e.refine(ifi.Cond, ex.k == 0, st)
			}
			e.push(ex.b.Succs[ex.k], 0, ex.b, st)
			e.run()
			states += len(e.visited)
			if e.overflow {
				overflow = true
			}
			if len(e.badReturns) > 0 && bad == nil {
				br := firstBad(e.badReturns)
				bad, badEdge = &br, ex
				weak = e.weakCount
			}
		}
		facts := []string{"arrays made at " + strings.Join(mk, ", "), "count exits: " + itoa(countExits) + ", other exits examined: " + itoa(len(exits)), "states explored: " + itoa(states)}
		switch {
		case overflow:
			add("PRE-1", key, pos, ob.Undecided, "exit exploration exceeded its budget", facts...)
		case bad != nil:
			add("PRE-1", key, pos, ob.Violation,
				"the loop fills arrays pre-sized from a declared count but can be left at "+a.p.Pos(blockPos(badEdge.b))+
					" (not the counter reaching the count) towards the return at "+a.p.Pos(posOfReturn(bad.ret))+" yielding "+whatText(bad.what)+
					": the unfilled tail is returned as zero-valued placeholder elements"+pick(weak != "", "; "+weak, ""),
				facts...)
		default:
			add("PRE-1", key, pos, ob.Holds, "", facts...)
		}

		// PRE-2 (beyond the design): an iteration that counts a record stores an element
		e2 := a.newExplorer(fi, modePRE2)
		e2.fillArr = map[ssa.Value]bool{}
		for ms := range f.makes {
			e2.fillArr[ms] = true
		}
		e2.pre2set = map[*ssa.Phi]bool{}
		for p := range f.idx {
			e2.pre2set[p] = true
		}
		for _, p := range fi.exitCtl[l] {
			e2.pre2set[p] = true
		}
		e2.runFill(l)
		switch {
		case e2.overflow:
			add("PRE-2", key, pos, ob.Undecided, "loop exploration exceeded its budget", facts[0])
		case len(e2.badCycles) > 0:
			bc := e2.badCycles[0]
			for _, c := range e2.badCycles {
				if c.latch.Index < bc.latch.Index {
					bc = c
				}
			}
			add("PRE-2", key, pos, ob.Violation,
				"a path through the loop body advances the record counter without storing into any of the pre-sized arrays: a record with too few tokens (the last line of a cut file) is counted and its zero-valued element returned",
				facts[0], "back edge from block "+itoa(bc.latch.Index)+" near "+a.p.Pos(blockPos(bc.latch)))
		default:
			add("PRE-2", key, pos, ob.Holds, "", facts[0], "every counted iteration stores an element; states explored: "+itoa(len(e2.visited)))
		}
	}
}

// TOK-3 (beyond the design): in a counted line-record reader an array made with the declared count is
// stored on every accepted line, or not at all. If the store sits on one side of a test of the line's token
// count while the other side still lets the line be counted, the element of a short line keeps the zero
// value (a placeholder, once any other line made the attribute appear). That is acceptable only when the
// decision is the same for every line: the loop carries the token count of the first record in a variable
// that starts negative and rejects (error) every later line whose count differs — see uniCheck.
func (a *analysis) tok3(fi *fnInfo, add func(rule, construct string, pos token.Pos, v ob.Verdict, msg string, facts ...string)) {
	if fi.errRes < 0 || len(fi.loops) == 0 {
		return
	}
	// run-time sized makes, numbered as in CNT-1
	num := map[*ssa.MakeSlice]int{}
	n := 0
	ssau.AllInstrs(fi.fn, func(in ssa.Instruction) {
		if ms, ok := in.(*ssa.MakeSlice); ok {
			if _, isConst := ms.Len.(*ssa.Const); !isConst {
				n++
				num[ms] = n
			}
		}
	})
	type uniKey struct {
		l *ssau.Loop
		t *ssa.Call
	}
	uniMemo := map[uniKey]*uniCheck{}
	for _, l := range fi.loops {
		// the scanner-line token lists split in this loop
		var toks []*ssa.Call
		for _, b := range fi.fn.Blocks {
			if !l.Blocks[b] {
				continue
			}
			for _, in := range b.Instrs {
				if c, ok := in.(*ssa.Call); ok && isSplitter(c) && isTokenList(c.Type()) && a.fromScannerLine(c.Call.Args[0], 0, map[ssa.Value]bool{}) {
					toks = append(toks, c)
				}
			}
		}
		if len(toks) == 0 {
			continue
		}
		// pre-sized arrays stored by index in this loop
		fillArr := map[ssa.Value]bool{}
		stores := map[*ssa.MakeSlice][]*ssa.Store{}
		var order []*ssa.MakeSlice
		for ms := range num {
			if l.Blocks[ms.Block()] {
				continue
			}
			for _, r := range ssau.Refs(ms) {
				ia, ok := r.(*ssa.IndexAddr)
				if !ok || ia.X != ms {
					continue
				}
				for _, rr := range ssau.Refs(ia) {
					if st, ok := rr.(*ssa.Store); ok && st.Addr == ia && l.Blocks[st.Block()] {
						if len(stores[ms]) == 0 {
							order = append(order, ms)
						}
						stores[ms] = append(stores[ms], st)
						fillArr[ms] = true
					}
				}
			}
		}
		sort.Slice(order, func(i, j int) bool { return num[order[i]] < num[order[j]] })
		for _, ms := range order {
			key := fi.name + "→make#" + itoa(num[ms])
			// is a store on one side of a token-count test whose other side still reaches the next line?
			var cond *lenGuard
			var condTok *ssa.Call
			for _, st := range stores[ms] {
				for _, t := range toks {
					for _, g := range lenGuards(t) {
						g := g
						ib := g.ifi.Block()
						if !l.Blocks[ib] {
							continue
						}
						side := sideOf(g.ifi, st.Block())
						if side < 0 {
							continue
						}
						opp := ib.Succs[1-side]
						if !l.Blocks[opp] {
							continue
						}
						for _, latch := range l.Latch {
							if opp == latch || ssau.Reaches(opp, latch) {
								cond, condTok = &g, t
							}
						}
					}
				}
			}
			if cond == nil {
				add("TOK-3", key, ms.Pos(), ob.Holds, "", "stored on every line that is counted: no test of the line's token count lets a line through without the store")
				continue
			}
			uk := uniKey{l, condTok}
			uc := uniMemo[uk]
			if uc == nil {
				uc = &uniCheck{lenVals: map[ssa.Value]bool{}, ok: map[*ssa.Phi]bool{}, why: map[*ssa.Phi]string{}}
				for _, r := range ssau.Refs(condTok) {
					if c, ok := r.(*ssa.Call); ok && ssau.Builtin(c) == "len" && len(c.Call.Args) == 1 && c.Call.Args[0] == ssa.Value(condTok) {
						uc.lenVals[c] = true
					}
				}
				for _, in := range l.Header.Instrs {
					p, ok := in.(*ssa.Phi)
					if !ok {
						break
					}
					if !isIntType(p.Type()) {
						continue
					}
					if c0, known := constStart(p, l); known && c0 < 0 {
						uc.ok[p] = true
					}
				}
				if len(uc.ok) > 0 {
					e := a.newExplorer(fi, modePRE2)
					e.uni = uc
					e.fillArr = fillArr
					e.loop = l
					st := newState()
					e.resetIteration(st)
					st.uniEq, st.uniNeg, st.uniLen = map[*ssa.Phi]bool{}, map[*ssa.Phi]bool{}, map[ssa.Value]bool{}
					for p := range uc.ok {
						st.rel[p] = relv{base: p}
					}
					first := 0
					for first < len(l.Header.Instrs) {
						if _, ok := l.Header.Instrs[first].(*ssa.Phi); !ok {
							break
						}
						first++
					}
					e.push(l.Header, first, nil, st)
					e.run()
					if e.overflow {
						for p := range uc.ok {
							uc.ok[p] = false
							uc.why[p] = "exploration exceeded its budget"
						}
					}
				}
				uniMemo[uk] = uc
			}
			uniform := ""
			var whys []string
			for p, ok := range uc.ok {
				if ok && uc.cycles > 0 {
					uniform = nameOfPhi(p)
				} else if uc.why[p] != "" {
					whys = append(whys, uc.why[p])
				}
			}
			sort.Strings(whys)
			tp := cond.ifi.Cond.Pos()
			if !tp.IsValid() {
				tp = blockPos(cond.ifi.Block())
			}
			testPos := a.p.Pos(tp)
			if uniform != "" {
				add("TOK-3", key, ms.Pos(), ob.Holds, "", "the store depends on the token-count test at "+testPos,
					"every accepted line has the token count latched in '"+uniform+"' at the first record (later lines with another count end in an error), so the decision is the same for all lines")
				continue
			}
			why := "the loop carries no variable that starts negative, takes the token count of the first record and rejects every later line whose count differs"
			if len(whys) > 0 {
				why = whys[0]
			}
			add("TOK-3", key, ms.Pos(), ob.Violation,
				"the array is made with the declared count but a line is counted without storing its element when the token-count test at "+testPos+
					" fails, and nothing makes that test come out the same for every line ("+why+"): the last line of a file cut at a token boundary keeps the zero value as a placeholder while earlier lines make the attribute appear",
				"store at "+a.p.Pos(ssau.PosOf(stores[ms][0])), "token-count test at "+testPos)
		}
	}
}

// PRE-3 (beyond the design): a completeness check — a branch after a record loop that compares one of
// the loop's counters with a run-time count and whose "fewer" side ends in error returns only — must
// compare a *record counter* (see recordCounter) and prove counter >= count + start value.
func (a *analysis) pre3(fi *fnInfo, add func(rule, construct string, pos token.Pos, v ob.Verdict, msg string, facts ...string)) {
	if fi.errRes < 0 {
		return
	}
	n := 0
	for _, b := range fi.fn.Blocks {
		if len(b.Instrs) == 0 {
			continue
		}
		ifi, ok := b.Instrs[len(b.Instrs)-1].(*ssa.If)
		if !ok {
			continue
		}
		cc, ok := fi.cmps[ifi]
		if !ok || cc.constB {
			continue
		}
		l := fi.counters[cc.phi]
		if l == nil || l.Blocks[b] {
			continue // the loop's own condition is judged by PRE-1 / IO-4
		}
		// is the other side an error guard?
		e := a.newExplorer(fi, modePRE1)
		st := newState()
		e.refine(ifi.Cond, 1-cc.reached == 0, st)
		e.push(b.Succs[1-cc.reached], 0, b, st)
		e.run()
		if e.overflow || len(e.badReturns) > 0 || e.okReturns == 0 {
			continue
		}
		n++
		key := fi.name + "/count-check#" + itoa(n)
		pos := ssau.PosOf(ifi)
		if bp := blockPos(b); bp.IsValid() {
			pos = bp
		}
		rc := a.recordCounter(fi, cc.phi)
		fact := "counter '" + nameOfPhi(cc.phi) + "', start " + itoa(int(rc.c0)) + ", comparison proves counter >= count" + signed(cc.lb)
		if rc.ok && cc.lb >= rc.c0 {
			add("PRE-3", key, pos, ob.Holds, "", fact, "steps by one, every increment stores a record")
			continue
		}
		add("PRE-3", key, pos, ob.Violation,
			"the check that all declared records were read does not count records: "+rc.describe(a, cc)+
				" — a file that lost its last record(s) passes the check and the pre-sized / missing tail is returned", fact)
	}
}

// STK-1: values read through a sticky-error reader may only be returned with a
// nil error after Reader.Error() was consulted.
func (a *analysis) sticky(fi *fnInfo, sticky []*site, add func(rule, construct string, pos token.Pos, v ob.Verdict, msg string, facts ...string)) {
	if len(sticky) == 0 {
		return
	}
	var bad *badReturn
	var badSite *site
	overflow := false
	for _, s := range sticky {
		e := a.newExplorer(fi, modeSTK)
		e.seed = s
		e.seedCounters(s.call.Block())
		st := newState()
		e.push(s.call.Block(), ssau.InstrIndex(s.call)+1, nil, st)
		e.run()
		if e.overflow {
			overflow = true
		}
		if len(e.badReturns) > 0 && bad == nil {
			br := firstBad(e.badReturns)
			bad, badSite = &br, s
		}
	}
	key := fi.name + "/sticky-reader"
	pos := ssau.PosOf(sticky[0].call)
	switch {
	case overflow:
		add("STK-1", key, pos, ob.Undecided, "exploration exceeded its budget")
	case bad != nil:
		add("STK-1", key, ssau.PosOf(badSite.call), ob.Violation,
			"values read with "+badSite.name+" (reader with a sticky error) reach the return at "+a.p.Pos(posOfReturn(bad.ret))+
				" without a checked Reader.Error(): at end of input the reader yields zeros",
			"sticky reads in function: "+itoa(len(sticky)))
	default:
		add("STK-1", key, pos, ob.Holds, "", "sticky reads in function: "+itoa(len(sticky)), "every nil-error return is preceded by a checked Reader.Error()")
	}
}
