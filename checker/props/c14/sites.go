package c14

import (
	"go/types"
	"sort"
	"strings"

	"golang.org/x/tools/go/ssa"

	"polycheck/load"
	"polycheck/ssau"
)

// ---------------------------------------------------------------------------
// Input primitives, wrappers, decode helpers: all resolved by callee object.
// ---------------------------------------------------------------------------

type siteKind int

const (
	kErr    siteKind = iota // exhausted outcome: error result != nil
	kBool                   // exhausted outcome: boolean result == false ((*bufio.Scanner).Scan, bool wrappers)
	kSticky                 // reader with a sticky error (bitlib.Reader.Float32 …): exhausted outcome only visible through Reader.Error()
)

// site is one call in a decode-side function whose outcome carries end-of-input.
type site struct {
	call    *ssa.Call
	fn      *ssa.Function
	kind    siteKind
	prim    bool // input primitive (table) — otherwise a repository wrapper found by summary
	helper  bool // decode helper of the scoped packages that returns an error but reads no input (IO-3 only)
	eofDist bool // primitive documented to return io.EOF only when *nothing* was read (io.ReadFull, io.ReadAtLeast, binary.Read)
	rawRead bool // Read([]byte) (int, error): may return fewer bytes than asked without an error
	stickyE bool // the (bitlib.Reader).Error() accessor
	errIdx  int  // index of the error (kErr) / bool (kBool) result in the call's result tuple; -1 if the call has a single result
	name    string
	key     string // construct key fn→callee#k
}

const bitlibPath = "github.com/EliCDavis/bitlib"

var scopeRel = []string{"formats/ply", "formats/stl", "formats/spz", "formats/splat", "formats/pts"}

func isErrorType(t types.Type) bool {
	return types.Identical(t, types.Universe.Lookup("error").Type())
}

func isBoolType(t types.Type) bool {
	b, ok := t.Underlying().(*types.Basic)
	return ok && b.Kind() == types.Bool
}

// lastResult returns (index, isError, isBool) of the last result of sig.
func lastResult(sig *types.Signature) (int, bool, bool) {
	n := sig.Results().Len()
	if n == 0 {
		return -1, false, false
	}
	t := sig.Results().At(n - 1).Type()
	return n - 1, isErrorType(t), isBoolType(t)
}

func recvName(f *types.Func) string {
	if n := ssau.RecvNamed(f); n != nil {
		return n.Origin().Obj().Name()
	}
	return ""
}

func calleeDisplay(f *types.Func) string {
	pkg := ""
	if f.Pkg() != nil {
		pkg = f.Pkg().Path()
		pkg = strings.TrimPrefix(pkg, load.Module+"/")
		if i := strings.LastIndexByte(pkg, '/'); i >= 0 && !strings.HasPrefix(pkg, "formats/") {
			pkg = pkg[i+1:]
		}
		pkg = strings.TrimPrefix(pkg, "formats/")
	}
	if r := recvName(f); r != "" {
		return pkg + "." + r + "." + f.Name()
	}
	return pkg + "." + f.Name()
}

// isRawReadSig: func([]byte) (int, error)
func isRawReadSig(sig *types.Signature) bool {
	if sig.Params().Len() != 1 || sig.Results().Len() != 2 {
		return false
	}
	sl, ok := sig.Params().At(0).Type().Underlying().(*types.Slice)
	if !ok {
		return false
	}
	if b, ok := sl.Elem().Underlying().(*types.Basic); !ok || b.Kind() != types.Byte && b.Kind() != types.Uint8 {
		return false
	}
	if b, ok := sig.Results().At(0).Type().Underlying().(*types.Basic); !ok || b.Kind() != types.Int {
		return false
	}
	return isErrorType(sig.Results().At(1).Type())
}

type primInfo struct {
	kind    siteKind
	eofDist bool
	rawRead bool
	stickyE bool
}

// classifyPrim decides whether f is an input primitive (by package, receiver and name
// of the *resolved object*, never by the text of the call).
func classifyPrim(f *types.Func) (primInfo, bool) {
	if f == nil || f.Pkg() == nil {
		return primInfo{}, false
	}
	sig, _ := f.Type().(*types.Signature)
	if sig == nil {
		return primInfo{}, false
	}
	pkg, recv, name := f.Pkg().Path(), recvName(f), f.Name()
	_, lastErr, _ := lastResult(sig)
	switch pkg {
	case "io":
		if recv == "" {
			switch name {
			case "ReadFull", "ReadAtLeast":
				return primInfo{kind: kErr, eofDist: true}, true
			case "ReadAll", "CopyN", "Copy", "CopyBuffer":
				return primInfo{kind: kErr}, true
			}
		}
		switch name {
		case "ReadByte", "ReadRune", "ReadAt", "ReadFrom":
			if lastErr {
				return primInfo{kind: kErr}, true
			}
		}
	case "encoding/binary":
		if recv == "" && name == "Read" {
			return primInfo{kind: kErr, eofDist: true}, true
		}
	case "bufio":
		if recv == "Scanner" && name == "Scan" {
			return primInfo{kind: kBool}, true
		}
		if recv == "Reader" {
			switch name {
			case "ReadByte", "ReadBytes", "ReadLine", "ReadRune", "ReadSlice", "ReadString", "Peek", "Discard":
				return primInfo{kind: kErr}, true
			}
		}
	case "compress/gzip", "compress/zlib":
		if recv == "" && (name == "NewReader" || name == "NewReaderDict") && lastErr {
			return primInfo{kind: kErr}, true
		}
		if recv == "Reader" && name == "Reset" && lastErr {
			return primInfo{kind: kErr}, true
		}
	case "fmt":
		if recv == "" && (name == "Fscan" || name == "Fscanf" || name == "Fscanln") {
			return primInfo{kind: kErr}, true
		}
	case "os":
		if recv == "" && name == "ReadFile" {
			return primInfo{kind: kErr}, true
		}
	case bitlibPath:
		if recv == "Reader" {
			if name == "Error" {
				return primInfo{kind: kErr, stickyE: true}, true
			}
			if lastErr {
				if isRawReadSig(sig) {
					return primInfo{kind: kErr, rawRead: true}, true
				}
				return primInfo{kind: kErr}, true
			}
			if sig.Results().Len() > 0 {
				return primInfo{kind: kSticky}, true
			}
		}
		if recv == "" && (name == "Read" || name == "ReadArray") && lastErr {
			return primInfo{kind: kErr}, true
		}
	}
	// any Read([]byte) (int, error) method: io.Reader.Read and every concrete reader
	if name == "Read" && sig.Recv() != nil && isRawReadSig(sig) {
		return primInfo{kind: kErr, rawRead: true}, true
	}
	return primInfo{}, false
}

// ---------------------------------------------------------------------------

type analysis struct {
	p         *load.Program
	scopePkg  map[*types.Package]bool
	fns       []*ssa.Function        // every function with a body in the scoped packages (closures included)
	reading   map[*ssa.Function]bool // transitively contains an input primitive
	impls     map[*types.Func][]*ssa.Function
	infos     map[*ssa.Function]*fnInfo // decode-side functions only
	named     []*types.Named            // named types of the scoped packages
	nn        map[*ssa.Function]int     // never-nil-error summaries (1 = no / in progress, 2 = yes)
	tokParams map[*ssa.Parameter]bool   // parameters that receive scanner-line tokens
	countless map[*types.Package]bool   // formats that declare no record count (from the format specs, not from today's source)
}

// countlessRel: .splat is a bare sequence of 32-byte records (antimatter15/splat); PLY, STL, SPZ and PTS all declare counts.
var countlessRel = map[string]bool{"formats/splat": true}

func newAnalysis(p *load.Program) (*analysis, []string) {
	a := &analysis{p: p, scopePkg: map[*types.Package]bool{}, reading: map[*ssa.Function]bool{},
		impls: map[*types.Func][]*ssa.Function{}, infos: map[*ssa.Function]*fnInfo{}, nn: map[*ssa.Function]int{}, countless: map[*types.Package]bool{}}
	var missing []string
	for _, rel := range scopeRel {
		sp := p.SSAPkg(rel)
		if sp == nil {
			missing = append(missing, rel)
			continue
		}
		a.scopePkg[sp.Pkg] = true
		if countlessRel[rel] {
			a.countless[sp.Pkg] = true
		}
		a.fns = append(a.fns, p.FuncsOf(sp)...)
		sc := sp.Pkg.Scope()
		for _, n := range sc.Names() {
			if tn, ok := sc.Lookup(n).(*types.TypeName); ok && !tn.IsAlias() {
				if nt, ok := tn.Type().(*types.Named); ok && nt.TypeParams().Len() == 0 {
					a.named = append(a.named, nt)
				}
			}
		}
	}
	a.fixpoint()
	return a, missing
}

// calleeOf resolves the callee object and (for static calls) the SSA function.
func calleeOf(c *ssa.Call) (*types.Func, *ssa.Function) {
	if ssau.Builtin(c) != "" {
		return nil, nil
	}
	return ssau.CalleeObj(c), c.Common().StaticCallee()
}

// implementations of an interface method declared in the scoped packages, among
// the named types of the scoped packages.
func (a *analysis) implsOf(m *types.Func) []*ssa.Function {
	if r, ok := a.impls[m]; ok {
		return r
	}
	var out []*ssa.Function
	sig, _ := m.Type().(*types.Signature)
	if sig != nil && sig.Recv() != nil {
		if it, ok := sig.Recv().Type().Underlying().(*types.Interface); ok {
			for _, nt := range a.named {
				for _, t := range []types.Type{nt, types.NewPointer(nt)} {
					if _, isIface := nt.Underlying().(*types.Interface); isIface {
						continue
					}
					if !types.Implements(t, it) {
						continue
					}
					sel := a.p.SSA.MethodSets.MethodSet(t).Lookup(m.Pkg(), m.Name())
					if sel == nil {
						continue
					}
					if f := a.p.SSA.MethodValue(sel); f != nil {
						// wrappers (*T).M for value methods: use the declared method
						if f.Synthetic != "" {
							if o, ok := sel.Obj().(*types.Func); ok {
								if g := a.p.SSA.FuncValue(o); g != nil {
									f = g
								}
							}
						}
						out = append(out, f)
					}
				}
			}
		}
	}
	a.impls[m] = out
	return out
}

func (a *analysis) inScope(f *types.Func) bool {
	return f != nil && f.Pkg() != nil && a.scopePkg[f.Pkg()]
}

// calleeReads: does calling this read input (by summary)?
func (a *analysis) calleeReads(obj *types.Func, static *ssa.Function) bool {
	if static != nil {
		if a.reading[static] {
			return true
		}
		if o := static.Origin(); o != nil && a.reading[o] {
			return true
		}
		return false
	}
	if a.inScope(obj) {
		for _, f := range a.implsOf(obj) {
			if a.reading[f] {
				return true
			}
		}
	}
	return false
}

func (a *analysis) fixpoint() {
	for changed := true; changed; {
		changed = false
		for _, fn := range a.fns {
			if a.reading[fn] {
				continue
			}
			reads := false
			ssau.AllInstrs(fn, func(in ssa.Instruction) {
				if reads {
					return
				}
				switch c := in.(type) {
				case *ssa.Call:
					obj, st := calleeOf(c)
					if _, ok := classifyPrim(obj); ok {
						reads = true
						return
					}
					if a.calleeReads(obj, st) {
						reads = true
					}
				case *ssa.MakeClosure:
					// a function literal that reads input makes its parent decode-side too
					if f, ok := c.Fn.(*ssa.Function); ok && a.reading[f] {
						reads = true
					}
				}
			})
			if reads {
				a.reading[fn] = true
				changed = true
			}
		}
	}
}

// sitesOf lists the sites of a decode-side function in source order and assigns
// the construct keys fn→callee#k.
func (a *analysis) sitesOf(fn *ssa.Function) []*site {
	var out []*site
	ssau.AllInstrs(fn, func(in ssa.Instruction) {
		c, ok := in.(*ssa.Call)
		if !ok {
			return
		}
		obj, st := calleeOf(c)
		if obj == nil {
			// a function literal called directly, or a function value (table of readers, callback):
			// in a decode-side function its error is an end-of-input carrier like any other
			if ssau.Builtin(c) != "" || c.Call.IsInvoke() {
				return
			}
			sig := c.Call.Signature()
			idx, lastErr, _ := lastResult(sig)
			if !lastErr {
				return
			}
			if sig.Results().Len() == 1 {
				idx = -1
			}
			s := &site{call: c, fn: fn, errIdx: idx, kind: kErr, name: "func-value"}
			if st != nil && !a.reading[st] {
				s.helper = true // a literal that provably reads nothing: only IO-3
			}
			out = append(out, s)
			return
		}
		sig, _ := obj.Type().(*types.Signature)
		if sig == nil {
			return
		}
		idx, lastErr, lastBool := lastResult(sig)
		if sig.Results().Len() == 1 {
			idx = -1
		}
		s := &site{call: c, fn: fn, errIdx: idx, name: calleeDisplay(obj)}
		if pi, ok := classifyPrim(obj); ok {
			s.prim, s.kind, s.eofDist, s.rawRead, s.stickyE = true, pi.kind, pi.eofDist, pi.rawRead, pi.stickyE
			out = append(out, s)
			return
		}
		inRepoScope := a.inScope(obj) || (st != nil && st.Pkg != nil && a.scopePkg[st.Pkg.Pkg])
		if !inRepoScope {
			return
		}
		reads := a.calleeReads(obj, st)
		switch {
		case reads && lastErr:
			s.kind = kErr
		case reads && lastBool:
			s.kind = kBool
		case !reads && lastErr:
			s.kind, s.helper = kErr, true
		default:
			return
		}
		out = append(out, s)
	})
	sort.SliceStable(out, func(i, j int) bool {
		pi, pj := ssau.PosOf(out[i].call), ssau.PosOf(out[j].call)
		if pi != pj {
			return pi < pj
		}
		return out[i].call.Name() < out[j].call.Name()
	})
	cnt := map[string]int{}
	fname := a.p.FuncName(fn)
	for _, s := range out {
		cnt[s.name]++
		s.key = fname + "→" + s.name + "#" + itoa(cnt[s.name])
	}
	return out
}

func itoa(n int) string {
	if n == 0 {
		return "0"
	}
	neg := n < 0
	if neg {
		n = -n
	}
	var b [20]byte
	i := len(b)
	for n > 0 {
		i--
		b[i] = byte('0' + n%10)
		n /= 10
	}
	if neg {
		i--
		b[i] = '-'
	}
	return string(b[i:])
}
