package c14

import (
	"go/token"
	"go/types"

	"golang.org/x/tools/go/ssa"

	"polycheck/ob"
	"polycheck/ssau"
)

// TOK-4 (round 6, beyond the design): the token list a record is parsed from belongs to THIS line.
//
// TOK-1/2/3 reason about len(tokens): "the line is short" is only observable if the length of the list is
// the number of tokens found on the current scanner line. That holds for the library splitters
// (strings.Fields …: a new slice per call). It does not hold when the list is a container that outlives the
// line — a buffer made before the loop, a parameter, a field — handed back at its full length: the short-line
// test compares the container's size, never fires, and the slots a cut line does not overwrite still carry
// the previous record's tokens (fabricated geometry).
//
// Obligations, per decode-side function:
//  (1) `fn→linetokens#n`: every call that is handed (a string derived from) the scanner's current line and
//      answers a token list. The answer must be line-fresh (see fresh()).
//  (2) `fn→linebuf#n`: every token container that receives pieces of the current line element by element
//      (here, or in a scoped helper that is handed both the line and the container). If the container is
//      not line-fresh, it may only be looked at through a line-fresh view (buf[:n]); len(), element loads,
//      full-length re-slices and hand-overs of the container itself are reported.
//
// line-fresh: a library splitter's result; a slice allocated in the same loop iteration / in the helper
// call; append() onto a line-fresh or emptied (x[:0], nil) base; a re-slice of a line-fresh list; a re-slice
// x[:n] of anything whose upper bound is computed (not a constant, not len()/cap() of a stale container);
// a helper's result if every return is line-fresh (parameters resolved at the call site); nil.

type freshKey struct {
	v     ssa.Value
	depth int
}

type freshCk struct {
	a     *analysis
	site  *ssa.BasicBlock
	memo  map[freshKey]bool
	busy  map[freshKey]bool
	why   string
	undec string
}

func (a *analysis) newFresh(site *ssa.BasicBlock) *freshCk {
	return &freshCk{a: a, site: site, memo: map[freshKey]bool{}, busy: map[freshKey]bool{}}
}

func (f *freshCk) fail(why string) bool {
	if f.why == "" {
		f.why = why
	}
	return false
}

// sameCycle: is there a CFG cycle through both blocks (i.e. m executes once per iteration of s's loop)?
func sameCycle(m, s *ssa.BasicBlock) bool {
	if m == nil || s == nil || m.Parent() != s.Parent() {
		return false
	}
	from := func(x, y *ssa.BasicBlock) bool {
		for _, su := range x.Succs {
			if ssau.Reaches(su, y) {
				return true
			}
		}
		return false
	}
	return from(m, s) && from(s, m)
}

func inCycle(b *ssa.BasicBlock) bool { return sameCycle(b, b) }

// calleesOf: the scoped functions a call may run, and the offset between argument and parameter indices.
func (a *analysis) calleesOf(cc *ssa.CallCommon) (fns []*ssa.Function, off int, external bool) {
	if cc.IsInvoke() {
		if a.inScope(cc.Method) {
			for _, f := range a.implsOf(cc.Method) {
				if f.Blocks != nil {
					fns = append(fns, f)
				}
			}
			return fns, 1, len(fns) == 0
		}
		return nil, 1, true
	}
	if f := cc.StaticCallee(); f != nil && f.Blocks != nil && f.Pkg != nil && a.scopePkg[f.Pkg.Pkg] {
		return []*ssa.Function{f}, 0, false
	}
	return nil, 0, true
}

func (f *freshCk) fresh(v ssa.Value, stack []*ssa.Call) bool {
	k := freshKey{v, len(stack)}
	if r, ok := f.memo[k]; ok {
		return r
	}
	if f.busy[k] {
		return true // loop-carried: decided by the other edges
	}
	if len(stack) > 6 {
		f.undec = "helper nesting too deep"
		return false
	}
	f.busy[k] = true
	r := f.fresh1(v, stack)
	delete(f.busy, k)
	f.memo[k] = r
	return r
}

func (f *freshCk) callResult(c *ssa.Call, idx int, stack []*ssa.Call) bool {
	if b := ssau.Builtin(c); b != "" {
		if b == "append" && len(c.Call.Args) > 0 {
			return f.fresh(c.Call.Args[0], stack)
		}
		return f.fail("built-in " + b)
	}
	if isSplitter(c) {
		return true
	}
	fns, _, external := f.a.calleesOf(c.Common())
	if external {
		for _, arg := range c.Call.Args {
			if isTokenList(arg.Type()) {
				f.undec = "token list produced by a call outside the decoder packages that is handed a token container (" + f.a.p.Pos(ssau.PosOf(c)) + ")"
				return false
			}
		}
		return true // nothing to reuse: the callee allocates
	}
	inner := append(append([]*ssa.Call{}, stack...), c)
	for _, fn := range fns {
		for _, b := range fn.Blocks {
			r, ok := b.Instrs[len(b.Instrs)-1].(*ssa.Return)
			if !ok || idx >= len(r.Results) {
				continue
			}
			if !f.fresh(r.Results[idx], inner) {
				return f.fail("the helper " + f.a.p.FuncName(fn) + " answers with a container that is not made from the line (return at " + f.a.p.Pos(posOfReturn(r)) + ")")
			}
		}
	}
	return true
}

func (f *freshCk) fresh1(v ssa.Value, stack []*ssa.Call) bool {
	switch x := v.(type) {
	case *ssa.Const:
		return true
	case *ssa.Call:
		return f.callResult(x, 0, stack)
	case *ssa.Extract:
		if c, ok := x.Tuple.(*ssa.Call); ok {
			return f.callResult(c, x.Index, stack)
		}
		return f.fail("value of unknown origin")
	case *ssa.ChangeType:
		return f.fresh(x.X, stack)
	case *ssa.Slice:
		if x.High != nil {
			if hi, isC := ssau.ConstInt(x.High); isC && hi == 0 {
				return true // emptied
			}
			if _, isC := ssau.ConstInt(x.High); !isC && !f.staleLen(x.High, stack) {
				return true // a view whose length is computed
			}
		}
		save := f.why
		if f.fresh(x.X, stack) {
			return true
		}
		if f.why == save || f.why == "" {
			f.why = "re-slice at " + f.a.p.Pos(ssau.PosOf(x)) + " keeps the container's own length"
		}
		return false
	case *ssa.MakeSlice:
		if len(stack) > 0 {
			return true // allocated by the helper call that handles this line
		}
		if f.site == nil || !inCycle(f.site) || sameCycle(x.Block(), f.site) {
			return true
		}
		return f.fail("the container is allocated once, at " + f.a.p.Pos(ssau.PosOf(x)) + ", outside the loop that reads the lines; its length is fixed there and its elements survive from line to line")
	case *ssa.Alloc:
		// make([]T, constant) is an array allocation that is sliced
		if len(stack) > 0 {
			return true
		}
		if f.site == nil || !inCycle(f.site) || sameCycle(x.Block(), f.site) {
			return true
		}
		return f.fail("the container is allocated once, at " + f.a.p.Pos(ssau.PosOf(x)) + ", outside the loop that reads the lines; its length is fixed there and its elements survive from line to line")
	case *ssa.Phi:
		for _, e := range x.Edges {
			if e != x && !f.fresh(e, stack) {
				return false
			}
		}
		return true
	case *ssa.Parameter:
		if len(stack) == 0 {
			return f.fail("the container is a parameter of " + f.a.p.FuncName(x.Parent()) + ": it exists before the line is read")
		}
		call := stack[len(stack)-1]
		idx := -1
		for i, p := range x.Parent().Params {
			if p == x {
				idx = i
			}
		}
		if call.Call.IsInvoke() {
			idx--
		}
		if idx < 0 || idx >= len(call.Call.Args) {
			return f.fail("the container is the receiver / an unresolved parameter of " + f.a.p.FuncName(x.Parent()))
		}
		return f.fresh(call.Call.Args[idx], stack[:len(stack)-1])
	case *ssa.UnOp:
		if x.Op == token.MUL {
			if al, ok := x.X.(*ssa.Alloc); ok {
				n := 0
				for _, r := range ssau.Refs(al) {
					if st, ok := r.(*ssa.Store); ok && st.Addr == al {
						n++
						if !f.fresh(st.Val, stack) {
							return false
						}
					}
				}
				if n > 0 {
					return true
				}
			}
			if fld := ssau.FieldOf(x.X); fld != nil {
				return f.fail("the container is the field " + fld.Name() + ", which outlives the line")
			}
		}
		return f.fail("the container is loaded from memory that outlives the line")
	}
	return f.fail("the container does not originate from a split of the line")
}

// staleLen: is the bound h the own length / capacity of a token container that is not line-fresh?
func (f *freshCk) staleLen(h ssa.Value, stack []*ssa.Call) bool {
	for {
		switch x := h.(type) {
		case *ssa.Convert:
			h = x.X
			continue
		case *ssa.ChangeType:
			h = x.X
			continue
		case *ssa.Call:
			if b := ssau.Builtin(x); (b == "len" || b == "cap") && len(x.Call.Args) == 1 && isTokenList(x.Call.Args[0].Type()) {
				save := f.why
				ok := f.fresh(x.Call.Args[0], stack)
				f.why = save
				return !ok
			}
		}
		return false
	}
}

// storesElements: does fn (or a scoped helper it passes the parameter on to) store into elements of p?
func (a *analysis) storesElements(p *ssa.Parameter, depth int, seen map[*ssa.Parameter]bool) bool {
	if depth > 4 || seen[p] {
		return false
	}
	seen[p] = true
	var walk func(v ssa.Value, d int) bool
	walk = func(v ssa.Value, d int) bool {
		if d > 4 {
			return false
		}
		for _, r := range ssau.Refs(v) {
			switch r := r.(type) {
			case *ssa.IndexAddr:
				if r.X != v {
					continue
				}
				for _, rr := range ssau.Refs(r) {
					if st, ok := rr.(*ssa.Store); ok && st.Addr == r {
						return true
					}
				}
			case *ssa.Slice:
				if r.X == v && walk(r, d+1) {
					return true
				}
			case *ssa.Phi:
				if walk(r, d+1) {
					return true
				}
			case *ssa.Call:
				if b := ssau.Builtin(r); b != "" {
					if b == "copy" && len(r.Call.Args) == 2 && r.Call.Args[0] == v {
						return true
					}
					continue
				}
				fns, off, _ := a.calleesOf(r.Common())
				for k, arg := range r.Call.Args {
					if arg != v {
						continue
					}
					for _, fn := range fns {
						if k+off < len(fn.Params) && a.storesElements(fn.Params[k+off], depth+1, seen) {
							return true
						}
					}
				}
			}
		}
		return false
	}
	return walk(p, 0)
}

// fillerArgs: the token-list arguments of call c that a scoped callee fills element by element, provided
// the call is also handed the current scanner line.
func (a *analysis) fillerArgs(c *ssa.Call) []ssa.Value {
	if ssau.Builtin(c) != "" || isSplitter(c) {
		return nil
	}
	line := false
	for _, arg := range c.Call.Args {
		if isStringish(arg.Type()) && a.fromScannerLine(arg, 0, map[ssa.Value]bool{}) {
			line = true
		}
	}
	if !line {
		return nil
	}
	fns, off, _ := a.calleesOf(c.Common())
	var out []ssa.Value
	for k, arg := range c.Call.Args {
		if !isTokenList(arg.Type()) {
			continue
		}
		for _, fn := range fns {
			if k+off < len(fn.Params) && a.storesElements(fn.Params[k+off], 0, map[*ssa.Parameter]bool{}) {
				out = append(out, arg)
				break
			}
		}
	}
	return out
}

// staleRead: the first place where the (not line-fresh) container v is looked at at its own length.
func (a *analysis) staleRead(v ssa.Value, site *ssa.BasicBlock, depth int, seen map[ssa.Value]bool) string {
	if depth > 5 || seen[v] {
		return ""
	}
	seen[v] = true
	for _, r := range ssau.Refs(v) {
		// what happens to the container after the loop (an output array being returned, copied out) is not
		// the per-line role
		if inCycle(site) && r.Block() != site && !sameCycle(r.Block(), site) {
			continue
		}
		switch r := r.(type) {
		case *ssa.Index:
			if r.X == v {
				return "element read at " + a.p.Pos(ssau.PosOf(r))
			}
		case *ssa.IndexAddr:
			if r.X != v {
				continue
			}
			for _, rr := range ssau.Refs(r) {
				if u, ok := rr.(*ssa.UnOp); ok && u.Op == token.MUL {
					return "element read at " + a.p.Pos(ssau.PosOf(r))
				}
			}
		case *ssa.Slice:
			if r.X != v {
				continue
			}
			if a.newFresh(site).fresh(r, nil) {
				continue // a view of computed length
			}
			if d := a.staleRead(r, site, depth+1, seen); d != "" {
				return d
			}
		case *ssa.Phi:
			if d := a.staleRead(r, site, depth+1, seen); d != "" {
				return d
			}
		case *ssa.Call:
			if b := ssau.Builtin(r); b != "" {
				if b == "len" {
					return "len() at " + a.p.Pos(ssau.PosOf(r))
				}
				if (b == "copy" || b == "append") && len(r.Call.Args) == 2 && r.Call.Args[1] == v {
					return b + "() out of it at " + a.p.Pos(ssau.PosOf(r))
				}
				continue
			}
			filled := false
			for _, fa := range a.fillerArgs(r) {
				if fa == v {
					filled = true
				}
			}
			if !filled {
				return "hand-over at " + a.p.Pos(ssau.PosOf(r))
			}
		}
	}
	return ""
}

func (a *analysis) tok4(fi *fnInfo, add func(rule, construct string, pos token.Pos, v ob.Verdict, msg string, facts ...string)) {
	const tail = " — the short-line test compares the container's size instead of the number of tokens on this line, so the last line of a file cut at a token boundary is accepted and the values it lacks are the previous record's"
	n, m := 0, 0
	bufSeen := map[ssa.Value]bool{}
	linebuf := func(x ssa.Value, at ssa.Instruction, how string) {
		if bufSeen[x] {
			return
		}
		bufSeen[x] = true
		m++
		key := fi.name + "→linebuf#" + itoa(m)
		ck := a.newFresh(at.Block())
		if ck.fresh(x, nil) {
			add("TOK-4", key, ssau.PosOf(at), ob.Holds, "", "token container filled from the scanner line ("+how+")", "the container is made for this line")
			return
		}
		if ck.undec != "" {
			add("TOK-4", key, ssau.PosOf(at), ob.Undecided, ck.undec, "token container filled from the scanner line ("+how+")")
			return
		}
		if d := a.staleRead(x, at.Block(), 0, map[ssa.Value]bool{}); d != "" {
			add("TOK-4", key, ssau.PosOf(at), ob.Violation,
				"a token container that outlives the line ("+ck.why+") is filled from the scanner line and then looked at at its own length ("+d+")"+tail,
				"token container filled from the scanner line ("+how+")", "first full-length use: "+d)
			return
		}
		add("TOK-4", key, ssau.PosOf(at), ob.Holds, "", "token container filled from the scanner line ("+how+")", "the container outlives the line but inside the line loop it is only looked at through views of computed length (or not at all: an output array)")
	}
	ssau.AllInstrs(fi.fn, func(in ssa.Instruction) {
		switch c := in.(type) {
		case *ssa.Store:
			ia, ok := c.Addr.(*ssa.IndexAddr)
			if !ok || !isTokenList(ia.X.Type()) || !isStringish(c.Val.Type()) {
				return
			}
			if _, isC := c.Val.(*ssa.Const); isC || !a.fromScannerLine(c.Val, 0, map[ssa.Value]bool{}) {
				return
			}
			linebuf(ia.X, c, "element store")
		case *ssa.Call:
			if ssau.Builtin(c) != "" {
				return
			}
			for _, x := range a.fillerArgs(c) {
				linebuf(x, c, "by "+calleeText(a, c))
			}
			// (1) a token list answered for the line
			idx := -1
			switch t := c.Type().(type) {
			case *types.Tuple:
				for i := 0; i < t.Len(); i++ {
					if isTokenList(t.At(i).Type()) && idx < 0 {
						idx = i
					}
				}
			default:
				if isTokenList(t) {
					idx = 0
				}
			}
			if idx < 0 {
				return
			}
			line := false
			for _, arg := range c.Call.Args {
				if isStringish(arg.Type()) && a.fromScannerLine(arg, 0, map[ssa.Value]bool{}) {
					line = true
				}
			}
			if !line {
				return
			}
			n++
			key := fi.name + "→linetokens#" + itoa(n)
			ck := a.newFresh(c.Block())
			desc := "token list answered by " + calleeText(a, c) + " for the scanner line"
			switch {
			case ck.callResult(c, idx, nil):
				add("TOK-4", key, ssau.PosOf(c), ob.Holds, "", desc, "made from this line: its length is the number of tokens found")
			case ck.undec != "":
				add("TOK-4", key, ssau.PosOf(c), ob.Undecided, ck.undec, desc)
			default:
				add("TOK-4", key, ssau.PosOf(c), ob.Violation,
					"the token list a record is parsed from is not produced from this line only: "+ck.why+tail, desc)
			}
		}
	})
}

func calleeText(a *analysis, c *ssa.Call) string {
	if obj := ssau.CalleeObj(c); obj != nil {
		if obj.Pkg() != nil {
			if r := recvName(obj); r != "" {
				return obj.Pkg().Name() + "." + r + "." + obj.Name()
			}
			return obj.Pkg().Name() + "." + obj.Name()
		}
		return obj.Name()
	}
	return "a function value"
}
