package c14

import (
	"go/token"
	"go/types"

	"golang.org/x/tools/go/ssa"

	"polycheck/ob"
	"polycheck/ssau"
)

// TOK-1 (beyond the design): the last line of a cut ASCII body is handed out by
// the scanner although it is incomplete (no newline needed), so the number of
// tokens on a line is input-dependent. Every token list split from a scanner
// line (strings.Fields / Split of (*bufio.Scanner).Text()) must have its length
// tested on the way to every indexing / slicing of it — in the function that
// split it, or in the decode helper it is handed to. Otherwise a cut at a token
// boundary inside the line ends in an index-out-of-range panic.

func isScannerToken(c *ssa.Call) bool {
	obj := ssau.CalleeObj(c)
	return obj != nil && obj.Pkg() != nil && obj.Pkg().Path() == "bufio" && recvName(obj) == "Scanner" && (obj.Name() == "Text" || obj.Name() == "Bytes")
}

func isStringish(t types.Type) bool {
	switch u := t.Underlying().(type) {
	case *types.Basic:
		return u.Info()&types.IsString != 0
	case *types.Slice:
		if b, ok := u.Elem().Underlying().(*types.Basic); ok {
			return b.Kind() == types.Byte || b.Kind() == types.Uint8
		}
	}
	return false
}

// fromScannerLine: v is (a string transformation of) the scanner's current token,
// possibly handed back by a helper of the scoped packages.
func (a *analysis) fromScannerLine(v ssa.Value, depth int, seen map[ssa.Value]bool) bool {
	if depth > 8 || seen[v] {
		return false
	}
	seen[v] = true
	returned := func(c *ssa.Call, idx int) bool {
		f := c.Call.StaticCallee()
		if f == nil || f.Blocks == nil || f.Pkg == nil || !a.scopePkg[f.Pkg.Pkg] {
			return false
		}
		for _, b := range f.Blocks {
			if r, ok := b.Instrs[len(b.Instrs)-1].(*ssa.Return); ok && idx < len(r.Results) {
				if a.fromScannerLine(r.Results[idx], depth+1, seen) {
					return true
				}
			}
		}
		return false
	}
	switch x := v.(type) {
	case *ssa.Call:
		if isScannerToken(x) {
			return true
		}
		if ssau.Builtin(x) != "" || !isStringish(x.Type()) {
			return false
		}
		for _, arg := range x.Call.Args {
			if isStringish(arg.Type()) && a.fromScannerLine(arg, depth+1, seen) {
				return true
			}
		}
		return returned(x, 0)
	case *ssa.Extract:
		if c, ok := x.Tuple.(*ssa.Call); ok && isStringish(x.Type()) {
			return returned(c, x.Index)
		}
	case *ssa.Phi:
		for _, e := range x.Edges {
			if a.fromScannerLine(e, depth+1, seen) {
				return true
			}
		}
	case *ssa.Convert:
		return a.fromScannerLine(x.X, depth+1, seen)
	case *ssa.ChangeType:
		return a.fromScannerLine(x.X, depth+1, seen)
	case *ssa.Slice:
		return a.fromScannerLine(x.X, depth+1, seen)
	}
	return false
}

func isSplitter(c *ssa.Call) bool {
	obj := ssau.CalleeObj(c)
	if obj == nil || obj.Pkg() == nil {
		return false
	}
	if p := obj.Pkg().Path(); p != "strings" && p != "bytes" {
		return false
	}
	switch obj.Name() {
	case "Fields", "FieldsFunc", "Split", "SplitN", "SplitAfter", "SplitAfterN":
		return len(c.Call.Args) > 0
	}
	return false
}

func isTokenList(t types.Type) bool {
	sl, ok := t.Underlying().(*types.Slice)
	return ok && isStringish(sl.Elem())
}

// lenGuard is one branch `len(v) OP other` (normalised: len on the left).
type lenGuard struct {
	ifi   *ssa.If
	op    token.Token
	other ssa.Value
	neg   bool  // the If tests the negation of the comparison
	off   int64 // the compared quantity is len(v) + off
}

// lenGuards finds the branches whose condition compares len(v) (possibly after
// conversion / ± constant, which is folded into nothing: such guards only count
// for variable indices).
func lenGuards(v ssa.Value) []lenGuard {
	var out []lenGuard
	var toIf func(x ssa.Value, g lenGuard, d int)
	toIf = func(x ssa.Value, g lenGuard, d int) {
		if d > 4 {
			return
		}
		for _, r := range ssau.Refs(x) {
			switch r := r.(type) {
			case *ssa.If:
				g.ifi = r
				out = append(out, g)
			case *ssa.UnOp:
				if r.Op == token.NOT {
					g2 := g
					g2.neg = !g.neg
					toIf(r, g2, d+1)
				}
			}
		}
	}
	var fromLen func(x ssa.Value, off int64, d int)
	fromLen = func(x ssa.Value, off int64, d int) {
		if d > 4 {
			return
		}
		for _, r := range ssau.Refs(x) {
			switch r := r.(type) {
			case *ssa.Convert:
				fromLen(r, off, d+1)
			case *ssa.BinOp:
				switch r.Op {
				case token.LSS, token.LEQ, token.GTR, token.GEQ, token.EQL, token.NEQ:
					g := lenGuard{op: r.Op, other: r.Y, off: off}
					if r.Y == x {
						g.other = r.X
						switch r.Op { // flip: len on the left
						case token.LSS:
							g.op = token.GTR
						case token.LEQ:
							g.op = token.GEQ
						case token.GTR:
							g.op = token.LSS
						case token.GEQ:
							g.op = token.LEQ
						}
					}
					toIf(r, g, 0)
				case token.ADD, token.SUB:
					// len(v) ± constant
					if k, isC := ssau.ConstInt(r.Y); isC && r.X == x {
						if r.Op == token.SUB {
							k = -k
						}
						fromLen(r, off+k, d+1)
					} else if k, isC := ssau.ConstInt(r.X); isC && r.Y == x && r.Op == token.ADD {
						fromLen(r, off+k, d+1)
					}
				}
			}
		}
	}
	for _, r := range ssau.Refs(v) {
		if c, ok := r.(*ssa.Call); ok && ssau.Builtin(c) == "len" && len(c.Call.Args) == 1 && c.Call.Args[0] == v {
			fromLen(c, 0, 0)
		}
	}
	return out
}

// sideOf: on which successor (0 true / 1 false) of the guard's If does block u lie; -1 if on both / neither.
func sideOf(ifi *ssa.If, u *ssa.BasicBlock) int {
	b := ifi.Block()
	if len(b.Succs) != 2 || !b.Dominates(u) || b.Succs[0] == b.Succs[1] {
		return -1
	}
	s0, s1 := b.Succs[0], b.Succs[1]
	switch {
	case len(s0.Preds) == 1 && s0.Dominates(u):
		return 0
	case len(s1.Preds) == 1 && s1.Dominates(u):
		return 1
	}
	r0, r1 := ssau.Reaches(s0, u), ssau.Reaches(s1, u)
	switch {
	case r0 && !r1:
		return 0
	case r1 && !r0:
		return 1
	}
	return -1
}

// lowerBound: what `len OP c` proves about len on the given side (-1: nothing).
func lowerBound(op token.Token, c int64, truth bool) (int64, bool) {
	if !truth { // negate the comparison
		switch op {
		case token.LSS:
			op = token.GEQ
		case token.LEQ:
			op = token.GTR
		case token.GTR:
			op = token.LEQ
		case token.GEQ:
			op = token.LSS
		case token.EQL:
			op = token.NEQ
		case token.NEQ:
			op = token.EQL
		}
	}
	switch op {
	case token.GEQ, token.EQL:
		return c, true
	case token.GTR:
		return c + 1, true
	}
	return 0, false
}

// intRoots: the variables an integer expression is built from (constants dropped;
// a field is identified by its object, so two loads of x.f agree).
func intRoots(v ssa.Value, out map[any]bool, d int) {
	if v == nil || d > 6 {
		return
	}
	switch x := v.(type) {
	case *ssa.Const:
	case *ssa.Convert:
		intRoots(x.X, out, d+1)
	case *ssa.ChangeType:
		intRoots(x.X, out, d+1)
	case *ssa.BinOp:
		intRoots(x.X, out, d+1)
		intRoots(x.Y, out, d+1)
	case *ssa.UnOp:
		if x.Op == token.MUL {
			if f := ssau.FieldOf(x.X); f != nil {
				out[f] = true
				return
			}
			out[x.X] = true
			return
		}
		intRoots(x.X, out, d+1)
	default:
		out[v] = true
	}
}

// affine: v == root + off, with root nil for constants. A field load is
// identified by the field object so that two loads of x.f agree.
func affine(v ssa.Value, d int) (root any, off int64, ok bool) {
	if v == nil || d > 6 {
		return nil, 0, false
	}
	switch x := v.(type) {
	case *ssa.Const:
		if c, isInt := ssau.ConstInt(x); isInt {
			return nil, c, true
		}
		return nil, 0, false
	case *ssa.Convert:
		return affine(x.X, d+1)
	case *ssa.ChangeType:
		return affine(x.X, d+1)
	case *ssa.BinOp:
		if x.Op == token.ADD || x.Op == token.SUB {
			if c, isC := ssau.ConstInt(x.Y); isC {
				if r, o, ok := affine(x.X, d+1); ok {
					if x.Op == token.SUB {
						c = -c
					}
					return r, o + c, true
				}
			}
			if c, isC := ssau.ConstInt(x.X); isC && x.Op == token.ADD {
				if r, o, ok := affine(x.Y, d+1); ok {
					return r, o + c, true
				}
			}
		}
		return nil, 0, false
	case *ssa.UnOp:
		if x.Op == token.MUL {
			if f := ssau.FieldOf(x.X); f != nil {
				return f, 0, true
			}
		}
	case *ssa.Call:
		if ssau.Builtin(x) == "len" && len(x.Call.Args) == 1 {
			return lenOf(x.Call.Args[0]), 0, true
		}
	}
	return v, 0, true
}

// lenKey identifies "the length of this slice variable" (a field by its object).
type lenKey struct{ of any }

func lenOf(sl ssa.Value) any {
	if u, ok := sl.(*ssa.UnOp); ok && u.Op == token.MUL {
		if f := ssau.FieldOf(u.X); f != nil {
			return lenKey{f}
		}
	}
	return lenKey{sl}
}

// req: the access needs len(v) >= root + off (root nil: a constant).
type req struct {
	expr   ssa.Value
	root   any
	off    int64
	affine bool
}

// guardedAt: is every requirement of an access in block u established by a
// dominating length test? No requirement (tokens handed to a helper): any
// length test will do.
func guardedAt(v ssa.Value, u *ssa.BasicBlock, reqs []req) bool {
	guards := lenGuards(v)
	type sided struct {
		g     lenGuard
		truth bool
	}
	var gs []sided
	for _, g := range guards {
		if side := sideOf(g.ifi, u); side >= 0 {
			gs = append(gs, sided{g, (side == 0) != g.neg})
		}
	}
	if len(reqs) == 0 {
		return len(gs) > 0
	}
	for _, rq := range reqs {
		ok := false
		for _, sg := range gs {
			groot, goff, gaff := affine(sg.g.other, 0)
			switch {
			case rq.affine && gaff && groot == rq.root:
				// same variable (or both constant): evaluate the bound the test proves
				if lb, proven := lowerBound(sg.g.op, goff, sg.truth); proven && lb-sg.g.off >= rq.off {
					ok = true
				} else if !proven && groot == nil && goff-sg.g.off == 0 && rq.off <= 1 {
					// len(v) != 0 (either spelling): at least one element
					if (sg.g.op == token.NEQ && sg.truth) || (sg.g.op == token.EQL && !sg.truth) {
						ok = true
					}
				}
			case rq.affine && rq.root == nil:
				// constant index, length compared with a run-time count (e.g. the number of declared properties): not evaluated
				ok = true
			default:
				// different shapes: accept a test that relates len() to a variable of the index expression
				a, b := map[any]bool{}, map[any]bool{}
				intRoots(rq.expr, a, 0)
				intRoots(sg.g.other, b, 0)
				for k := range a {
					if b[k] {
						ok = true
					}
				}
			}
			if ok {
				break
			}
		}
		if !ok {
			return false
		}
	}
	return true
}

// accessReqs: what an index (element k needs len >= k+1) or a slice expression (len >= bound) requires.
func accessReqs(index ssa.Value, low, high ssa.Value) []req {
	var out []req
	mk := func(e ssa.Value, plus int64) {
		if e == nil {
			return
		}
		r, o, ok := affine(e, 0)
		out = append(out, req{expr: e, root: r, off: o + plus, affine: ok})
	}
	mk(index, 1)
	mk(low, 0)
	mk(high, 0)
	return out
}

// copyClamp (CNT-1): copy(dst, tokens[k:]) takes min(len(dst), available) elements. When the source is
// open-ended (its length is "what is left on the line") and the destination's length is not, the copy
// silently clamps a declared count unless a dominating test proves len(tokens) >= k + len(dst), or the
// number copied is compared afterwards. A source with explicit (TOK-1 guarded) bounds has a fixed length.
func (t *tokCheck) copyClamp(src ssa.Value, call *ssa.Call) string {
	if !t.a.openTokens(src, 0) {
		return ""
	}
	base, low := src, int64(0)
	for {
		sl, ok := base.(*ssa.Slice)
		if !ok || sl.High != nil {
			break
		}
		if sl.Low != nil {
			k, isC := ssau.ConstInt(sl.Low)
			if !isC {
				break
			}
			low += k
		}
		base = sl.X
	}
	// the number copied is looked at
	seen := map[ssa.Value]bool{}
	work := []ssa.Value{call}
	for len(work) > 0 {
		v := work[len(work)-1]
		work = work[:len(work)-1]
		if seen[v] {
			continue
		}
		seen[v] = true
		for _, r := range ssau.Refs(v) {
			switch r := r.(type) {
			case *ssa.BinOp:
				switch r.Op {
				case token.LSS, token.LEQ, token.GTR, token.GEQ, token.EQL, token.NEQ:
					for _, rr := range ssau.Refs(r) {
						if _, ok := rr.(*ssa.If); ok {
							return ""
						}
					}
				case token.ADD, token.SUB:
					work = append(work, r)
				}
			case *ssa.Convert:
				work = append(work, r)
			}
		}
	}
	// len(dst)
	dst := call.Call.Args[0]
	rq := req{expr: dst, affine: true}
	if ds, ok := dst.(*ssa.Slice); ok && ds.High != nil {
		root, off, aff := affine(ds.High, 0)
		if ds.Low != nil {
			lroot, loff, laff := affine(ds.Low, 0)
			switch {
			case !laff:
				aff = false
			case lroot == nil:
				off -= loff
			case lroot == root:
				root, off = nil, off-loff // dst[i : i+k]: k elements
			default:
				aff = false
			}
		}
		rq.expr, rq.root, rq.off, rq.affine = ds.High, root, off+low, aff
	} else if ms, ok := dst.(*ssa.MakeSlice); ok {
		root, off, aff := affine(ms.Len, 0)
		rq.expr, rq.root, rq.off, rq.affine = ms.Len, root, off+low, aff
	} else {
		rq.root, rq.off = lenOf(dst), low
	}
	if c := (&cntCheck{a: t.a, av: map[ssa.Value]bool{}, avCell: map[*ssa.Alloc]bool{}, reader: map[ssa.Value]bool{}, fi: t.a.info(call.Parent())}); rq.affine && rq.root != nil {
		// a destination sized by the available tokens themselves is no clamp of a declared count
		if v, ok := rq.root.(ssa.Value); ok && c.isAV(v, 0) {
			return ""
		}
	}
	if guardedAt(base, call.Block(), []req{rq}) {
		return ""
	}
	return "copy at " + t.a.p.Pos(ssau.PosOf(call)) + " takes min(len(destination), tokens left on the line) elements and no test proves that as many tokens are left as the destination (sized by the declared count) expects"
}

func reqText(rs []req) string {
	for _, r := range rs {
		if r.affine && r.root == nil {
			return " (no dominating test proves len() >= " + itoa(int(r.off)) + ")"
		}
	}
	return " (no dominating test proves len() large enough for the index expression)"
}

type tokCheck struct {
	substAt string             // TOK-2: first constant substituted for a missing token
	guards  int                // TOK-2: length tests examined
	seenTok map[ssa.Value]bool // TOK-2 traversal
	copies  int                // copy() calls out of the token list
	clamp   string             // CNT-1: first copy that lets the available tokens clamp a declared count
	a       *analysis
	memo    map[*ssa.Parameter]string // "" = guarded, else description of the first unguarded use
	busy    map[*ssa.Parameter]bool
	uses    int
}

// unguarded returns a description of the first indexing of token list v (or of a
// helper's parameter it is handed to) that is not preceded by a length test; "" if none.
func (t *tokCheck) unguarded(v ssa.Value, depth int) string {
	if depth > 6 {
		return ""
	}
	for _, r := range ssau.Refs(v) {
		switch r := r.(type) {
		case *ssa.IndexAddr:
			if r.X != v {
				continue
			}
			t.uses++
			rs := accessReqs(r.Index, nil, nil)
			if !guardedAt(v, r.Block(), rs) {
				return "element access at " + t.a.p.Pos(ssau.PosOf(r)) + reqText(rs)
			}
		case *ssa.Index:
			if r.X != v {
				continue
			}
			t.uses++
			rs := accessReqs(r.Index, nil, nil)
			if !guardedAt(v, r.Block(), rs) {
				return "element access at " + t.a.p.Pos(ssau.PosOf(r)) + reqText(rs)
			}
		case *ssa.Slice:
			if r.X != v {
				continue
			}
			if r.Low != nil || r.High != nil {
				t.uses++
				rs := accessReqs(nil, r.Low, r.High)
				if !guardedAt(v, r.Block(), rs) {
					return "re-slice at " + t.a.p.Pos(ssau.PosOf(r)) + reqText(rs)
				}
			}
			if d := t.unguarded(r, depth+1); d != "" {
				return d
			}
		case *ssa.Phi:
			if d := t.unguarded(r, depth+1); d != "" {
				return d
			}
		case *ssa.Call:
			if ssau.Builtin(r) == "copy" && len(r.Call.Args) == 2 && r.Call.Args[1] == v {
				t.copies++
				if d := t.copyClamp(v, r); d != "" && t.clamp == "" {
					t.clamp = d
				}
				continue
			}
			if ssau.Builtin(r) != "" {
				continue
			}
			if guardedAt(v, r.Block(), nil) {
				t.uses++
				continue // the caller tested the count before handing the tokens on
			}
			cc := r.Common()
			for k, arg := range cc.Args {
				if arg != v {
					continue
				}
				var callees []*ssa.Function
				off := 0
				if cc.IsInvoke() {
					off = 1
					if t.a.inScope(cc.Method) {
						callees = t.a.implsOf(cc.Method)
					}
				} else if f := cc.StaticCallee(); f != nil && f.Pkg != nil && t.a.scopePkg[f.Pkg.Pkg] {
					callees = []*ssa.Function{f}
				}
				for _, f := range callees {
					if f.Blocks == nil || k+off >= len(f.Params) {
						continue
					}
					t.uses++
					if d := t.param(f.Params[k+off], depth+1); d != "" {
						return "handed to " + t.a.p.FuncName(f) + " without a length test, where: " + d
					}
				}
			}
		}
	}
	return ""
}

func (t *tokCheck) param(p *ssa.Parameter, depth int) string {
	if d, ok := t.memo[p]; ok {
		return d
	}
	if t.busy[p] {
		return ""
	}
	t.busy[p] = true
	d := t.unguarded(p, depth)
	delete(t.busy, p)
	t.memo[p] = d
	return d
}

// ---- TOK-2 (beyond the design): a missing token is an error, never a default ---------------------------
//
// The last line of a cut file is short. On the side of a len(tokens) test where the line is *short*
// (the side that does not prove a lower bound on len), the decoder must not manufacture the datum:
//  (a) no phi joins a value parsed from the tokens with a constant when the constant arrives from the
//      short side (`w := 1.0; if wOffset < len(buf) { w = parse(buf[wOffset]) }`);
//  (b) a helper that returns (value, …, error) and is handed the tokens does not return a constant value
//      with a nil error from the short side (`if column >= len(buf) { return 0, nil }`).
// Skipping an optional column altogether (no value produced: pts intensity / colour) is not a substitution
// and is not reported.

func constLike(v ssa.Value, d int) bool {
	if d > 4 {
		return false
	}
	switch x := v.(type) {
	case *ssa.Const:
		return true
	case *ssa.Convert:
		return constLike(x.X, d+1)
	case *ssa.ChangeType:
		return constLike(x.X, d+1)
	case *ssa.Phi:
		for _, e := range x.Edges {
			if e != x && !constLike(e, d+1) {
				return false
			}
		}
		return true
	}
	return false
}

// tokenData: is v computed from an element of the token list tok (or by a call that is handed the list)?
func tokenData(v ssa.Value, tok map[ssa.Value]bool, d int, seen map[ssa.Value]bool) bool {
	if v == nil || d > 10 || seen[v] {
		return false
	}
	seen[v] = true
	switch x := v.(type) {
	case *ssa.Const, *ssa.Global, *ssa.Parameter, *ssa.Function, *ssa.Builtin, *ssa.FreeVar:
		return false
	case *ssa.IndexAddr:
		if tok[x.X] {
			return true
		}
	case *ssa.Index:
		if tok[x.X] {
			return true
		}
	case *ssa.Call:
		if ssau.Builtin(x) == "" {
			for _, arg := range x.Call.Args {
				if tok[arg] {
					return true
				}
			}
		} else if ssau.Builtin(x) == "len" {
			return false
		}
	}
	in, ok := v.(ssa.Instruction)
	if !ok {
		return false
	}
	var buf [8]*ssa.Value
	for _, op := range in.Operands(buf[:0]) {
		if *op != nil && tokenData(*op, tok, d+1, seen) {
			return true
		}
	}
	return false
}

// shortSide: the successor (0/1) of the guard's If on which nothing bounds len() from below.
func shortSide(g lenGuard) int {
	// successor 0 is taken when the If's condition is true; the condition is the comparison, negated if g.neg
	for side := 0; side < 2; side++ {
		truth := (side == 0) != g.neg
		if _, proven := lowerBound(g.op, 0, truth); !proven {
			if (g.op == token.NEQ && truth) || (g.op == token.EQL && !truth) {
				continue // len != x: not the short side of an ordering test
			}
			return side
		}
	}
	return -1
}

func (t *tokCheck) substScan(v ssa.Value, depth int) {
	if depth > 6 || t.seenTok[v] {
		return
	}
	t.seenTok[v] = true
	fn := valueParent(v)
	if fn != nil {
		// the token values of this function that alias v
		tok := map[ssa.Value]bool{v: true}
		for _, r := range ssau.Refs(v) {
			if sl, ok := r.(*ssa.Slice); ok && sl.X == v {
				tok[sl] = true
			}
		}
		for _, g := range lenGuards(v) {
			t.guards++
			side := shortSide(g)
			if side < 0 || t.substAt != "" {
				continue
			}
			ifb := g.ifi.Block()
			// (a) phi joining token data with a constant that arrives from the short side
			for _, b := range fn.Blocks {
				if !ifb.Dominates(b) || b == ifb {
					continue
				}
				for _, in := range b.Instrs {
					phi, ok := in.(*ssa.Phi)
					if !ok {
						break
					}
					hasTok, constFromShort := false, false
					for i, e := range phi.Edges {
						if tokenData(e, tok, 0, map[ssa.Value]bool{}) {
							hasTok = true
							continue
						}
						if constLike(e, 0) && i < len(b.Preds) && edgeSide(g.ifi, b.Preds[i], b) == side {
							constFromShort = true
						}
					}
					if hasTok && constFromShort && t.substAt == "" {
						t.substAt = "at " + t.a.p.Pos(ssau.PosOf(phi)) + " the variable '" + nameOfPhi(phi) + "' takes a constant instead of the value parsed from the line when the test at " +
							t.a.p.Pos(blockPos(ifb)) + " finds the line short"
					}
				}
			}
			// (b) (value, …, error) helper answering a constant with a nil error from the short side
			if t.substAt == "" && fn.Signature.Results().Len() >= 2 {
				fi := t.a.info(fn)
				if fi.errRes >= 0 {
					e := t.a.newExplorer(fi, modeNN)
					st := newState()
					e.refine(g.ifi.Cond, side == 0, st)
					e.push(ifb.Succs[side], 0, ifb, st)
					e.run()
					for _, br := range e.badReturns {
						if br.what != avNil {
							continue
						}
						for i, res := range br.ret.Results {
							if i != fi.errRes && constLike(res, 0) && t.substAt == "" {
								t.substAt = "the helper " + fi.name + " returns a constant with a nil error at " + t.a.p.Pos(posOfReturn(br.ret)) +
									" when the test at " + t.a.p.Pos(blockPos(ifb)) + " finds the line short"
							}
						}
					}
				}
			}
		}
	}
	// follow the tokens: re-slices, phis, helpers
	for _, r := range ssau.Refs(v) {
		switch r := r.(type) {
		case *ssa.Slice:
			if r.X == v {
				t.substScan(r, depth+1)
			}
		case *ssa.Phi:
			t.substScan(r, depth+1)
		case *ssa.Call:
			if ssau.Builtin(r) != "" {
				continue
			}
			cc := r.Common()
			for k, arg := range cc.Args {
				if arg != v {
					continue
				}
				var callees []*ssa.Function
				off := 0
				if cc.IsInvoke() {
					off = 1
					if t.a.inScope(cc.Method) {
						callees = t.a.implsOf(cc.Method)
					}
				} else if f := cc.StaticCallee(); f != nil && f.Pkg != nil && t.a.scopePkg[f.Pkg.Pkg] {
					callees = []*ssa.Function{f}
				}
				for _, f := range callees {
					if f.Blocks != nil && k+off < len(f.Params) {
						t.substScan(f.Params[k+off], depth+1)
					}
				}
			}
		}
	}
}

// edgeSide: on which side of the If does the CFG edge pred->b lie (-1: both / neither)?
func edgeSide(ifi *ssa.If, pred, b *ssa.BasicBlock) int {
	ib := ifi.Block()
	if pred == ib {
		switch {
		case ib.Succs[0] == b && ib.Succs[1] != b:
			return 0
		case ib.Succs[1] == b && ib.Succs[0] != b:
			return 1
		}
		return -1
	}
	return sideOf(ifi, pred)
}

func valueParent(v ssa.Value) *ssa.Function {
	switch x := v.(type) {
	case ssa.Instruction:
		return x.Parent()
	case *ssa.Parameter:
		return x.Parent()
	}
	return nil
}

func (a *analysis) tok1(fi *fnInfo, add func(rule, construct string, pos token.Pos, v ob.Verdict, msg string, facts ...string)) {
	n := 0
	ssau.AllInstrs(fi.fn, func(in ssa.Instruction) {
		c, ok := in.(*ssa.Call)
		if !ok || !isSplitter(c) || !isTokenList(c.Type()) {
			return
		}
		if !a.fromScannerLine(c.Call.Args[0], 0, map[ssa.Value]bool{}) {
			return
		}
		n++
		key := fi.name + "→tokens#" + itoa(n)
		t := &tokCheck{a: a, memo: map[*ssa.Parameter]string{}, busy: map[*ssa.Parameter]bool{}, seenTok: map[ssa.Value]bool{}}
		t.substScan(c, 0)
		if t.substAt != "" {
			add("TOK-2", key, ssau.PosOf(c), ob.Violation,
				"a constant is substituted for a token that is missing from the line: "+t.substAt+" — the last line of a file cut at a token boundary is accepted with a made-up value instead of being rejected",
				"token list split from (*bufio.Scanner).Text()", "length tests examined: "+itoa(t.guards))
		} else {
			add("TOK-2", key, ssau.PosOf(c), ob.Holds, "", "token list split from (*bufio.Scanner).Text()",
				"length tests examined: "+itoa(t.guards)+"; on the short side of none is a constant joined with parsed data or returned with a nil error")
		}
		d := t.unguarded(c, 0)
		if t.copies > 0 {
			ckey := fi.name + "→tokens#" + itoa(n) + "/copy"
			if t.clamp != "" {
				add("CNT-1", ckey, ssau.PosOf(c), ob.Violation,
					t.clamp+": a line cut short keeps whatever the (reused) destination held before — the declared count is clamped to what is there instead of the input being rejected",
					"token list split from (*bufio.Scanner).Text()", "copies out of the list examined: "+itoa(t.copies))
			} else {
				add("CNT-1", ckey, ssau.PosOf(c), ob.Holds, "", "copies out of the token list examined: "+itoa(t.copies), "source bounded by guarded slice bounds, or a length test covers the destination, or the number copied is compared")
			}
		}
		if d != "" {
			add("TOK-1", key, ssau.PosOf(c), ob.Violation,
				"the tokens of a scanner line are indexed without a test of how many there are ("+d+"): the last line of a file cut at a token boundary is shorter than a record and the access panics (index out of range)",
				"token list split from (*bufio.Scanner).Text()", "first unguarded use: "+d)
			return
		}
		add("TOK-1", key, ssau.PosOf(c), ob.Holds, "", "token list split from (*bufio.Scanner).Text()", "indexing / hand-over sites examined: "+itoa(t.uses)+", each behind a len() test")
	})
}
