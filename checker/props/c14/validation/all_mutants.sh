#!/bin/bash
cd /tmp/c14_scratch; M=./mut.sh
$M M01_plybin_vertex_drop_check formats/ply/reader.go '
s=s.replace("""			_, err := io.ReadFull(reader, vertexBuf)
			if err != nil {
				return nil, fmt.Errorf("can\x27t read %q element %w", mr.AttributeElement, err)
			}
""","""			io.ReadFull(reader, vertexBuf)
""")'
$M M02_plybin_vertex_break formats/ply/reader.go '
s=s.replace("""			if err != nil {
				return nil, fmt.Errorf("can\x27t read %q element %w", mr.AttributeElement, err)
			}
""","""			if err != nil {
				break
			}
""")'
$M M03_plybin_vertex_eof_ok formats/ply/reader.go '
s=s.replace("""			_, err := io.ReadFull(reader, vertexBuf)
			if err != nil {""","""			_, err := io.ReadFull(reader, vertexBuf)
			if err != nil && err != io.EOF {""")'
$M M04_plylist_count_drop_err formats/ply/reader_list_binary.go '
s=s.replace("""		_, err := io.ReadFull(in, lpr.buf[:1])
		return int32(lpr.buf[0]), err""","""		io.ReadFull(in, lpr.buf[:1])
		return int32(lpr.buf[0]), nil""")'
$M M05_plylist_read_return_nil formats/ply/reader_list_binary.go '
s=s.replace("""	_, err = io.ReadFull(in, lpr.buf[:payloadSize])
	return err""","""	_, err = io.ReadFull(in, lpr.buf[:payloadSize])
	return nil""")'
$M M06_plylist_read_count_err_overwritten formats/ply/reader_list_binary.go '
s=s.replace("""	lpr.lastReadListSize, err = lpr.Count(in)
	if err != nil {
		return err
	}
""","""	lpr.lastReadListSize, err = lpr.Count(in)
""")'
$M M07_stl_partial_tris_ok formats/stl/read.go '
s=s.replace("""	if err := binary.Read(in, binary.LittleEndian, &tris); err != nil {""","""	if err := binary.Read(in, binary.LittleEndian, &tris); err != nil && err != io.ErrUnexpectedEOF {""")'
$M M08_stl_tricount_err_dropped formats/stl/read.go '
s=s.replace("""	if err := binary.Read(in, binary.LittleEndian, &triCount); err != nil {
		return nil, fmt.Errorf("unable to read tri count: %w", err)
	}""","""	binary.Read(in, binary.LittleEndian, &triCount)""")'
$M M09_spz_gzip_err_ignored formats/spz/load.go '
s=s.replace("""	in, err := gzip.NewReader(inUncompressed)
	if err != nil {
		return nil, err
	}

	var header Header""","""	in, _ := gzip.NewReader(inUncompressed)

	var header Header""")'
$M M10_spz_alphas_unchecked formats/spz/header.go '
s=s.replace("""	if _, err := io.ReadFull(in, alpha); err != nil {
		return nil, err
	}""","""	io.ReadFull(in, alpha)""")'
$M M11_spz_read_alphas_blank formats/spz/load.go '
s=s.replace("""	alphas, err := header.readAlphas(in)
	if err != nil {
		return nil, err
	}""","""	alphas, _ := header.readAlphas(in)""")'
$M M12_spz_read_colors_swallow formats/spz/load.go '
s=s.replace("""	colors, err := header.readColors(in)
	if err != nil {
		return nil, err
	}""","""	colors, err := header.readColors(in)
	if err != nil {
		colors = nil
	}""")'
$M M13_splat_continue_on_err formats/splat/read.go '
s=s.replace("""		if err != nil {
			break
		}""","""		if err != nil && err != io.EOF {
			continue
		}
		if err != nil {
			break
		}""")'
$M M14_splat_check_after_appends formats/splat/read.go '
s=s.replace("""		_, err = io.ReadFull(in, splatBuffer)
		if err != nil {
			break
		}
""","""		_, err = io.ReadFull(in, splatBuffer)
""").replace("""			(float64(splatBuffer[31])-128)/128,
		).ToFloat64())
	}""","""			(float64(splatBuffer[31])-128)/128,
		).ToFloat64())
		if err != nil {
			break
		}
	}""")'
$M M15_splat_break_only_on_eof formats/splat/read.go '
s=s.replace("""		if err != nil {
			break
		}""","""		if err == io.EOF {
			break
		}""")'
$M M15b_splat_swallow_unexpected_ALLOWED formats/splat/read.go '
s=s.replace("""	if err == io.EOF {
		err = nil
	}""","""	if err == io.EOF || err == io.ErrUnexpectedEOF {
		err = nil
	}""")'
$M M16_pts_revert_count_check formats/pts/reader.go '
s=s.replace("""	if curLine < parsedCount {
		return nil, fmt.Errorf("pts declares %d points but only %d were found: %w", parsedCount, curLine, io.ErrUnexpectedEOF)
	}
""","""	_ = fmt.Sprint
""")'
$M M17_pts_wrong_direction formats/pts/reader.go '
s=s.replace("""	if curLine < parsedCount {""","""	if curLine > parsedCount {""")'
$M M18_pts_const_check formats/pts/reader.go '
s=s.replace("""	if curLine < parsedCount {""","""	if curLine == 0 {""")'
$M M19_plyascii_vertex_break formats/ply/reader.go '
s=s.replace("""			if !scanner.Scan() {
				if err := scanner.Err(); err != nil {
					return nil, err
				}
				return nil, fmt.Errorf("can\x27t read %q element: %w", mr.AttributeElement, io.ErrUnexpectedEOF)
			}""","""			if !scanner.Scan() {
				break
			}""")'
$M M20_plyascii_face_continue formats/ply/reader.go '
s=s.replace("""		if !scanner.Scan() {
			if err := scanner.Err(); err != nil {
				return nil, nil, err
			}
			return nil, nil, fmt.Errorf("can\x27t read %q element: %w", element.Name, io.ErrUnexpectedEOF)
		}""","""		if !scanner.Scan() {
			continue
		}""")'
$M M21_plyascii_vertex_return_scannerErr formats/ply/reader.go '
s=s.replace("""			if !scanner.Scan() {
				if err := scanner.Err(); err != nil {
					return nil, err
				}
				return nil, fmt.Errorf("can\x27t read %q element: %w", mr.AttributeElement, io.ErrUnexpectedEOF)
			}""","""			if !scanner.Scan() {
				return nil, scanner.Err()
			}""")'
$M M22_readLine_eof_ignored formats/ply/reader.go '
s=s.replace("""		_, err = io.ReadFull(in, buf)
		if err != nil {
			return "", err
		}""","""		_, err = io.ReadFull(in, buf)
		if err != nil && err != io.EOF {
			return "", err
		}""")'
$M M23_ply_ignore_face_err formats/ply/reader.go '
s=s.replace("""			indices, uvs, err = readBinaryFaceElement(*facesElement, endian, reader)
			if err != nil {
				return nil, err
			}""","""			indices, uvs, _ = readBinaryFaceElement(*facesElement, endian, reader)""")'
$M M24_ReadHeader_break_on_err formats/ply/reader.go '
s=s.replace("""		line, err := readLine(in)
		if err != nil {
			return header, err
		}

		if strings.TrimSpace(line) == "" {""","""		line, err := readLine(in)
		if err != nil {
			break
		}

		if strings.TrimSpace(line) == "" {""")'
$M M25_raw_read_vertex formats/ply/reader.go '
s=s.replace("""			_, err := io.ReadFull(reader, vertexBuf)""","""			_, err := reader.Read(vertexBuf)""")'
$M M26_spz_header_partial_ok formats/spz/load.go '
s=s.replace("""	var header Header
	if err := binary.Read(in, binary.LittleEndian, &header); err != nil {
		return nil, err
	}
	// panic""","""	var header Header
	if err := binary.Read(in, binary.LittleEndian, &header); err != nil && !errors.Is(err, io.ErrUnexpectedEOF) {
		return nil, err
	}
	// panic""").replace("""	"encoding/binary"
	"fmt\"""","""	"encoding/binary"
	"errors"
	"fmt\"""")'
$M M27_plybin_face_partial_ok formats/ply/reader.go '
s=s.replace("""			err := reader.Read(in)
			if err != nil {
				return nil, nil, err
			}""","""			err := reader.Read(in)
			if err != nil {
				return indices, uvs, nil
			}""")'
$M M32_plyascii_vertex_check_after_use formats/ply/reader.go '
s=s.replace("""			if !scanner.Scan() {
				if err := scanner.Err(); err != nil {
					return nil, err
				}
				return nil, fmt.Errorf("can\x27t read %q element: %w", mr.AttributeElement, io.ErrUnexpectedEOF)
			}

			text := scanner.Text()
			if text == "" {
				continue
			}
""","""			ok := scanner.Scan()

			text := scanner.Text()
			if text == "" {
				continue
			}
			if !ok {
				return nil, io.ErrUnexpectedEOF
			}
""")'
$M M33_plyascii_face_partial_ok formats/ply/reader.go '
s=s.replace("""		if !scanner.Scan() {
			if err := scanner.Err(); err != nil {
				return nil, nil, err
			}
			return nil, nil, fmt.Errorf("can\x27t read %q element: %w", element.Name, io.ErrUnexpectedEOF)
		}""","""		if !scanner.Scan() {
			return indices, uvs, scanner.Err()
		}""")'
$M M34_ply_node_swallow formats/ply/types.go '
s=s.replace("""		return modeling.EmptyMesh(modeling.PointTopology), err
	}
	return *mesh, nil""","""		return modeling.EmptyMesh(modeling.PointTopology), nil
	}
	return *mesh, nil""")'
$M M35_plybin_face_int_err_dropped formats/ply/reader.go '
s=s.replace("""				err = reader.Int(indicesBuf)
				if err != nil {
					return nil, nil, err
				}
			}

			if readerIndex == texCordProp {
				err = reader.Float64(texBuf)
				if err != nil {
					return nil, nil, err
				}
			}
		}

		// Interpret read data ================================================
		points := readers[indicesProp].lastReadListSize

		if points < 3 || points > 4 {
			return nil, nil, fmt.Errorf("face contained indices entry of size %d", points)
		}

		indices = append(indices, indicesBuf[:3]...)

		// Tesselate the quad
		if points == 4 {
			indices = append(indices, indicesBuf[0], indicesBuf[2], indicesBuf[3])
		}

		if texCordProp > -1 {
			uvs = append(
				uvs,
				vector2.New(texBuf[0], texBuf[1]),
				vector2.New(texBuf[2], texBuf[3]),
				vector2.New(texBuf[4], texBuf[5]),
			)

			// Tesselate the quad
			if points == 4 {
				uvs = append(
					uvs,
					vector2.New(texBuf[0], texBuf[1]),
					vector2.New(texBuf[4], texBuf[5]),
					vector2.New(texBuf[6], texBuf[7]),
				)
			}
		}
	}
""","""				reader.Int(indicesBuf)
			}

			if readerIndex == texCordProp {
				err = reader.Float64(texBuf)
				if err != nil {
					return nil, nil, err
				}
			}
		}

		// Interpret read data ================================================
		points := readers[indicesProp].lastReadListSize

		if points < 3 || points > 4 {
			return nil, nil, fmt.Errorf("face contained indices entry of size %d", points)
		}

		indices = append(indices, indicesBuf[:3]...)

		// Tesselate the quad
		if points == 4 {
			indices = append(indices, indicesBuf[0], indicesBuf[2], indicesBuf[3])
		}

		if texCordProp > -1 {
			uvs = append(
				uvs,
				vector2.New(texBuf[0], texBuf[1]),
				vector2.New(texBuf[2], texBuf[3]),
				vector2.New(texBuf[4], texBuf[5]),
			)

			// Tesselate the quad
			if points == 4 {
				uvs = append(
					uvs,
					vector2.New(texBuf[0], texBuf[1]),
					vector2.New(texBuf[4], texBuf[5]),
					vector2.New(texBuf[6], texBuf[7]),
				)
			}
		}
	}
""",1)'
$M M38_ply_header_err_empty_mesh formats/ply/reader.go '
s=s.replace("""	header, err := ReadHeader(reader)
	if err != nil {
		return nil, err
	}""","""	header, err := ReadHeader(reader)
	if err != nil {
		empty := modeling.EmptyMesh(modeling.PointTopology)
		return &empty, nil
	}""")'
$M M39_spz_sh_swallow formats/spz/header.go '
s=s.replace("""	if _, err := io.ReadFull(in, shData); err != nil {
		return nil, err
	}""","""	if _, err := io.ReadFull(in, shData); err != nil {
		return nil, nil
	}""")'
$M M40_spz_positions_raw_read formats/spz/header.go '
s=s.replace("""	if _, err := io.ReadFull(in, positionData); err != nil {""","""	if _, err := in.Read(positionData); err != nil {""")'
$M M41_pts_short_line_skipped formats/pts/reader.go '
s=s.replace("""		if len(contents) < 3 {
			return nil, fmt.Errorf("pts point %d has %d fields, expected at least 3: %w", curLine, len(contents), io.ErrUnexpectedEOF)
		}
""","""		if len(contents) < 3 {
			curLine++
			continue
		}
""")'
$M M42_plyascii_vertex_tokcount_unchecked formats/ply/reader.go '
s=s.replace("""			if len(contents) < len(vertexElement.Properties) {""","""			if false {""")'
$M M43_plyascii_list_len_unchecked formats/ply/reader_list_ascii.go '
s=s.replace("""	if len(line) <= int(lpr.lastReadListSize) {""","""	if lpr.lastReadListSize < 0 {""")'
$M M44_pts_intensity_index_unguarded formats/pts/reader.go '
s=s.replace("""		if len(contents) > 3 {""","""		if readIntensity || curLine == 0 {""")'
$M M45_pts_guard_off_by_one formats/pts/reader.go '
s=s.replace("""		if len(contents) < 3 {""","""		if len(contents) < 2 {""")'
$M M46_plyascii_vertex_guard_minus_one_EXPECT_MISS formats/ply/reader.go '
s=s.replace("""			if len(contents) < len(vertexElement.Properties) {""","""			if len(contents) < len(vertexElement.Properties)-1 {""")'
$M M47_plyascii_list_guard_off_by_one_EXPECT_MISS formats/ply/reader_list_ascii.go '
s=s.replace("""	if len(line) <= int(lpr.lastReadListSize) {""","""	if len(line) < int(lpr.lastReadListSize) {""")'
$M M48_plyascii_face_offset_guard_removed formats/ply/reader.go '
s=s.replace("""			if currentOffset >= len(contents) {""","""			if currentOffset < 0 {""")'
$M M49_pts_first_scan_and_loop_no_count formats/pts/reader.go '
s=s.replace("""	for scanner.Scan() && curLine < parsedCount {""","""	for curLine < parsedCount && scanner.Scan() {""")'
$M M50_stl_readmesh_ignore_err formats/stl/read.go '
s=s.replace("""	bin, err := Read(in)
	if err != nil {
		return nil, err
	}""","""	bin, err := Read(in)
	if err != nil && bin == nil {
		return nil, err
	}""")'
