import json, sys
import os
REPO=os.environ.get('C14_REPO','/repo').rstrip('/')+'/'
out=[]
def src(f): return open(REPO+f).read()
def entry(name, kind, file, find, replace, expect=None, note=None, edits=None):
    e={"name":name,"kind":kind,"file":file,"find":find,"replace":replace}
    if edits: e["edits"]=[{"file":f,"find":a,"replace":b} for (f,a,b) in edits]
    if expect: e["expect"]=expect
    if note: e["note"]=note
    out.append(e)
def M(name,file,find,replace,expect,note="existing tests: pass",edits=None): entry(name,"mutant",file,find,replace,expect,note,edits)
def R(name,file,find,replace,note=None,edits=None): entry(name,"refactor",file,find,replace,None,note,edits)

PLY='formats/ply/reader.go'; LB='formats/ply/reader_list_binary.go'; LA='formats/ply/reader_list_ascii.go'
STL='formats/stl/read.go'; SPZL='formats/spz/load.go'; SPZH='formats/spz/header.go'; SPL='formats/splat/read.go'; PTS='formats/pts/reader.go'

VCHK='''			_, err := io.ReadFull(reader, vertexBuf)
			if err != nil {
				return nil, fmt.Errorf("can't read %q element %w", mr.AttributeElement, err)
			}
'''
M("M01: ply.MeshReader.Read binary vertex loop: io.ReadFull as a statement (check dropped)",PLY,VCHK,"\t\t\tio.ReadFull(reader, vertexBuf)\n",["IO-3"])
M("M02: ply.MeshReader.Read binary vertex loop: break on short read",PLY,
'''			if err != nil {
				return nil, fmt.Errorf("can't read %q element %w", mr.AttributeElement, err)
			}
''','''			if err != nil {
				break
			}
''',["IO-2"])
M("M03: ply.MeshReader.Read binary vertex loop: io.EOF tolerated in a counted format",PLY,
"\t\t\t_, err := io.ReadFull(reader, vertexBuf)\n\t\t\tif err != nil {","\t\t\t_, err := io.ReadFull(reader, vertexBuf)\n\t\t\tif err != nil && err != io.EOF {",["IO-2"])
M("M04: ply.listBinaryPropertyReader.Count: ReadFull error dropped",LB,
"\t\t_, err := io.ReadFull(in, lpr.buf[:1])\n\t\treturn int32(lpr.buf[0]), err","\t\tio.ReadFull(in, lpr.buf[:1])\n\t\treturn int32(lpr.buf[0]), nil",["IO-3"])
M("M05: ply.listBinaryPropertyReader.Read: payload read error replaced by return nil",LB,
"\t_, err = io.ReadFull(in, lpr.buf[:payloadSize])\n\treturn err","\t_, err = io.ReadFull(in, lpr.buf[:payloadSize])\n\treturn nil",["IO-3"])
M("M06: ply.listBinaryPropertyReader.Read: error of Count overwritten unchecked",LB,
"\tlpr.lastReadListSize, err = lpr.Count(in)\n\tif err != nil {\n\t\treturn err\n\t}\n","\tlpr.lastReadListSize, err = lpr.Count(in)\n",["IO-3"])
M("M07: stl.Read: triangle read tolerates io.ErrUnexpectedEOF (partial triangles accepted)",STL,
"\tif err := binary.Read(in, binary.LittleEndian, &tris); err != nil {","\tif err := binary.Read(in, binary.LittleEndian, &tris); err != nil && err != io.ErrUnexpectedEOF {",["IO-2"])
M("M08: stl.Read: triangle-count read unchecked",STL,
'''	if err := binary.Read(in, binary.LittleEndian, &triCount); err != nil {
		return nil, fmt.Errorf("unable to read tri count: %w", err)
	}''',"\tbinary.Read(in, binary.LittleEndian, &triCount)",["IO-3"])
M("M09: spz.Read: gzip.NewReader error ignored",SPZL,
'''	in, err := gzip.NewReader(inUncompressed)
	if err != nil {
		return nil, err
	}

	var header Header''',"\tin, _ := gzip.NewReader(inUncompressed)\n\n\tvar header Header",["IO-3"])
M("M10: spz.Header.readAlphas: io.ReadFull unchecked",SPZH,
"\tif _, err := io.ReadFull(in, alpha); err != nil {\n\t\treturn nil, err\n\t}","\tio.ReadFull(in, alpha)",["IO-3"])
M("M11: spz.Read: error of readAlphas blanked",SPZL,
"\talphas, err := header.readAlphas(in)\n\tif err != nil {\n\t\treturn nil, err\n\t}","\talphas, _ := header.readAlphas(in)",["IO-3"])
M("M12: spz.Read: colour plane error swallowed (colors = nil)",SPZL,
"\tcolors, err := header.readColors(in)\n\tif err != nil {\n\t\treturn nil, err\n\t}","\tcolors, err := header.readColors(in)\n\tif err != nil {\n\t\tcolors = nil\n\t}",["IO-2"])
M("M13: splat.Read: continue on a non-EOF read error",SPL,
"\t\tif err != nil {\n\t\t\tbreak\n\t\t}","\t\tif err != nil && err != io.EOF {\n\t\t\tcontinue\n\t\t}\n\t\tif err != nil {\n\t\t\tbreak\n\t\t}",["IO-4","IO-2"])
M("M14: splat.Read: error looked at only after the appends (stale record appended)",SPL,
"\t\t_, err = io.ReadFull(in, splatBuffer)\n\t\tif err != nil {\n\t\t\tbreak\n\t\t}\n","\t\t_, err = io.ReadFull(in, splatBuffer)\n",["IO-2"],
 edits=[(SPL,"\t\t\t(float64(splatBuffer[31])-128)/128,\n\t\t).ToFloat64())\n\t}","\t\t\t(float64(splatBuffer[31])-128)/128,\n\t\t).ToFloat64())\n\t\tif err != nil {\n\t\t\tbreak\n\t\t}\n\t}")])
M("M15: splat.Read: break only on io.EOF (partial record decoded)",SPL,
"\t\tif err != nil {\n\t\t\tbreak\n\t\t}","\t\tif err == io.EOF {\n\t\t\tbreak\n\t\t}",["IO-2","IO-4"])
R("M15b: splat.Read also maps io.ErrUnexpectedEOF to nil (returns exactly the whole records: allowed by the property statement)",SPL,
"\tif err == io.EOF {\n\t\terr = nil\n\t}","\tif err == io.EOF || err == io.ErrUnexpectedEOF {\n\t\terr = nil\n\t}",note="correctly silent: behaviour change the property permits")
CNT='''	if curLine < parsedCount {
		return nil, fmt.Errorf("pts declares %d points but only %d were found: %w", parsedCount, curLine, io.ErrUnexpectedEOF)
	}
'''
M("M16: pts.ReadPointCloud: count check after the loop removed (fix 59f541b reverted in part)",PTS,CNT,"",["IO-2","PRE-1"])
M("M17: pts.ReadPointCloud: count check in the wrong direction (curLine > parsedCount)",PTS,"\tif curLine < parsedCount {","\tif curLine > parsedCount {",["IO-2","PRE-1"])
M("M18: pts.ReadPointCloud: count check against a constant (curLine == 0)",PTS,"\tif curLine < parsedCount {","\tif curLine == 0 {",["IO-2","PRE-1"])
VSCAN='''			if !scanner.Scan() {
				if err := scanner.Err(); err != nil {
					return nil, err
				}
				return nil, fmt.Errorf("can't read %q element: %w", mr.AttributeElement, io.ErrUnexpectedEOF)
			}'''
FSCAN='''		if !scanner.Scan() {
			if err := scanner.Err(); err != nil {
				return nil, nil, err
			}
			return nil, nil, fmt.Errorf("can't read %q element: %w", element.Name, io.ErrUnexpectedEOF)
		}'''
M("M19: ply.MeshReader.Read ASCII vertex loop: break when Scan() fails",PLY,VSCAN,"\t\t\tif !scanner.Scan() {\n\t\t\t\tbreak\n\t\t\t}",["IO-2"])
M("M20: ply.readAsciiFaceElement: continue when Scan() fails (spins at EOF)",PLY,FSCAN,"\t\tif !scanner.Scan() {\n\t\t\tcontinue\n\t\t}",["IO-4","IO-2"])
M("M21: ply.MeshReader.Read ASCII vertex loop: return nil, scanner.Err() (nil at a clean EOF)",PLY,VSCAN,"\t\t\tif !scanner.Scan() {\n\t\t\t\treturn nil, scanner.Err()\n\t\t\t}",["IO-2"])
M("M22: ply.readLine: io.EOF tolerated",PLY,
"\t\t_, err = io.ReadFull(in, buf)\n\t\tif err != nil {\n\t\t\treturn \"\", err\n\t\t}","\t\t_, err = io.ReadFull(in, buf)\n\t\tif err != nil && err != io.EOF {\n\t\t\treturn \"\", err\n\t\t}",["IO-2","IO-4"])
M("M23: ply.MeshReader.Read: error of readBinaryFaceElement blanked",PLY,
"\t\t\tindices, uvs, err = readBinaryFaceElement(*facesElement, endian, reader)\n\t\t\tif err != nil {\n\t\t\t\treturn nil, err\n\t\t\t}","\t\t\tindices, uvs, _ = readBinaryFaceElement(*facesElement, endian, reader)",["IO-3"])
M("M24: ply.ReadHeader: break on readLine error (truncated header accepted)",PLY,
"\t\tline, err := readLine(in)\n\t\tif err != nil {\n\t\t\treturn header, err\n\t\t}\n\n\t\tif strings.TrimSpace(line) == \"\" {","\t\tline, err := readLine(in)\n\t\tif err != nil {\n\t\t\tbreak\n\t\t}\n\n\t\tif strings.TrimSpace(line) == \"\" {",["IO-2"])
M("M25: ply.MeshReader.Read binary vertex loop: raw reader.Read instead of io.ReadFull",PLY,
"\t\t\t_, err := io.ReadFull(reader, vertexBuf)","\t\t\t_, err := reader.Read(vertexBuf)",["IO-5"],note="existing tests: 3 fail")
M("M26: spz.Read: header read tolerates io.ErrUnexpectedEOF",SPZL,
"\tvar header Header\n\tif err := binary.Read(in, binary.LittleEndian, &header); err != nil {\n\t\treturn nil, err\n\t}\n\t// panic",
"\tvar header Header\n\tif err := binary.Read(in, binary.LittleEndian, &header); err != nil && !errors.Is(err, io.ErrUnexpectedEOF) {\n\t\treturn nil, err\n\t}\n\t// panic",["IO-2"],
 edits=[(SPZL,"\t\"encoding/binary\"\n\t\"fmt\"","\t\"encoding/binary\"\n\t\"errors\"\n\t\"fmt\"")])
M("M27: ply.readBinaryFaceElement: partial faces returned with nil error on a short read",PLY,
"\t\t\terr := reader.Read(in)\n\t\t\tif err != nil {\n\t\t\t\treturn nil, nil, err\n\t\t\t}","\t\t\terr := reader.Read(in)\n\t\t\tif err != nil {\n\t\t\t\treturn indices, uvs, nil\n\t\t\t}",["IO-2"])
M("M28: ply.MeshReader.Read binary vertex loop bound off by one (Count-1)",PLY,
"\t\tfor i := int64(0); i < vertexElement.Count; i++ {\n\t\t\t_, err := io.ReadFull","\t\tfor i := int64(0); i < vertexElement.Count-1; i++ {\n\t\t\t_, err := io.ReadFull",["IO-2","PRE-1","PRE-2"],
 note="known miss: not a truncation matter (last vertex left zero on complete files too); the pre-sized arrays live in the property readers, across functions; existing tests: 3 fail")
M("M32: ply.MeshReader.Read ASCII vertex loop: Scan() result tested only after the empty-text continue",PLY,
VSCAN+"\n\n\t\t\ttext := scanner.Text()\n\t\t\tif text == \"\" {\n\t\t\t\tcontinue\n\t\t\t}\n",
"\t\t\tok := scanner.Scan()\n\n\t\t\ttext := scanner.Text()\n\t\t\tif text == \"\" {\n\t\t\t\tcontinue\n\t\t\t}\n\t\t\tif !ok {\n\t\t\t\treturn nil, io.ErrUnexpectedEOF\n\t\t\t}\n",["IO-2"])
M("M33: ply.readAsciiFaceElement: partial faces returned with scanner.Err() when Scan() fails",PLY,FSCAN,"\t\tif !scanner.Scan() {\n\t\t\treturn indices, uvs, scanner.Err()\n\t\t}",["IO-2"])
M("M35: ply.readBinaryFaceElement: error of reader.Int dropped (fix f61ff4d reverted)",PLY,
"\t\t\terr := reader.Read(in)\n\t\t\tif err != nil {\n\t\t\t\treturn nil, nil, err\n\t\t\t}\n\t\t\tif readerIndex == indicesProp {\n\t\t\t\terr = reader.Int(indicesBuf)\n\t\t\t\tif err != nil {\n\t\t\t\t\treturn nil, nil, err\n\t\t\t\t}\n",
"\t\t\terr := reader.Read(in)\n\t\t\tif err != nil {\n\t\t\t\treturn nil, nil, err\n\t\t\t}\n\t\t\tif readerIndex == indicesProp {\n\t\t\t\treader.Int(indicesBuf)\n",["IO-3"])
M("M38: ply.MeshReader.Read: header error mapped to an empty mesh with nil error",PLY,
"\theader, err := ReadHeader(reader)\n\tif err != nil {\n\t\treturn nil, err\n\t}","\theader, err := ReadHeader(reader)\n\tif err != nil {\n\t\tempty := modeling.EmptyMesh(modeling.PointTopology)\n\t\treturn &empty, nil\n\t}",["IO-2"],note="existing tests: 8 fail")
M("M39: spz.Header.readSh: short read returns nil, nil",SPZH,
"\tif _, err := io.ReadFull(in, shData); err != nil {\n\t\treturn nil, err\n\t}","\tif _, err := io.ReadFull(in, shData); err != nil {\n\t\treturn nil, nil\n\t}",["IO-2"])
M("M40: spz.Header.readPositions: raw in.Read instead of io.ReadFull",SPZH,
"\tif _, err := io.ReadFull(in, positionData); err != nil {","\tif _, err := in.Read(positionData); err != nil {",["IO-5"])
SHORT='''		if len(contents) < 3 {
			return nil, fmt.Errorf("pts point %d has %d fields, expected at least 3: %w", curLine, len(contents), io.ErrUnexpectedEOF)
		}
'''
M("M41: pts.ReadPointCloud: short line counted and skipped (zero vertex left in place)",PTS,SHORT,"\t\tif len(contents) < 3 {\n\t\t\tcurLine++\n\t\t\tcontinue\n\t\t}\n",["PRE-2"])
M("M42: ply.MeshReader.Read ASCII vertex loop: token-count test disabled",PLY,"\t\t\tif len(contents) < len(vertexElement.Properties) {","\t\t\tif false {",["TOK-1"])
M("M43: ply.listAsciiPropertyReader.Read: second length test replaced by size < 0",LA,"\tif len(line) <= int(lpr.lastReadListSize) {","\tif lpr.lastReadListSize < 0 {",["TOK-1"])
M("M44: pts.ReadPointCloud: intensity guard replaced by an unrelated condition (contents[3] unguarded)",PTS,"\t\tif len(contents) > 3 {","\t\tif readIntensity || curLine == 0 {",["TOK-1"],note="existing tests: 3 fail")
M("M45: pts.ReadPointCloud: field-count guard off by one (len(contents) < 2)",PTS,"\t\tif len(contents) < 3 {","\t\tif len(contents) < 2 {",["TOK-1"])
M("M46: ply.MeshReader.Read ASCII vertex loop: token-count guard len(props)-1",PLY,"\t\t\tif len(contents) < len(vertexElement.Properties) {","\t\t\tif len(contents) < len(vertexElement.Properties)-1 {",["TOK-1"],
 note="known miss: TOK-1 does not know how many tokens the property readers need; a length test against a run-time count is accepted unevaluated")
M("M47: ply.listAsciiPropertyReader.Read: list length guard off by one (len(line) < size)",LA,"\tif len(line) <= int(lpr.lastReadListSize) {","\tif len(line) < int(lpr.lastReadListSize) {",["TOK-1"])
M("M48: ply.readAsciiFaceElement: offset guard disabled before contents[currentOffset:]",PLY,"\t\t\tif currentOffset >= len(contents) {","\t\t\tif currentOffset < 0 {",["TOK-1"])
R("M49: pts.ReadPointCloud loop condition reordered (curLine < parsedCount && scanner.Scan())",PTS,
"\tfor scanner.Scan() && curLine < parsedCount {","\tfor curLine < parsedCount && scanner.Scan() {",note="correctly silent: equivalent for truncation (does not consume an extra line)")
M("M50: stl.ReadMesh: error of Read ignored unless the result is nil",STL,
"\tbin, err := Read(in)\n\tif err != nil {\n\t\treturn nil, err\n\t}","\tbin, err := Read(in)\n\tif err != nil && bin == nil {\n\t\treturn nil, err\n\t}",["IO-2"])
PLANES_OLD='''	positions, err := header.readPositions(in)
	if err != nil {
		return nil, err
	}

	alphas, err := header.readAlphas(in)
	if err != nil {
		return nil, err
	}

	colors, err := header.readColors(in)
	if err != nil {
		return nil, err
	}

	scales, err := header.readScale(in)
	if err != nil {
		return nil, err
	}

	rotations, err := header.readRotations(in)
	if err != nil {
		return nil, err
	}

	sh, err := header.readSh(in)
	if err != nil {
		return nil, err
	}
'''
PLANES_NEW='''	var positions, colors, scales []vector3.Float64
	var alphas []float64
	var rotations []vector4.Float64
	var sh [][]vector3.Float64
	planes := []func(io.Reader) error{
		func(r io.Reader) (err error) { positions, err = header.readPositions(r); return },
		func(r io.Reader) (err error) { alphas, err = header.readAlphas(r); return },
		func(r io.Reader) (err error) { colors, err = header.readColors(r); return },
		func(r io.Reader) (err error) { scales, err = header.readScale(r); return },
		func(r io.Reader) (err error) { rotations, err = header.readRotations(r); return },
		func(r io.Reader) (err error) { sh, err = header.readSh(r); return },
	}
	for _, readPlane := range planes {
%s	}
'''
M("M51: spz.Read as a table of reader closures, call through the function value unchecked",SPZL,PLANES_OLD,PLANES_NEW%"\t\treadPlane(in)\n",["IO-3"])

# ---- refactors ----
s=src(PLY)
ed=[(PLY,"scanner","sc")]*(s.count("scanner")-1)+[(PLY,"vertexBuf","rec")]*s.count("vertexBuf")
R("R01: rename locals scanner->sc, vertexBuf->rec in ply/reader.go",PLY,"scanner","sc",edits=ed)
R("R02: spz readAlphas / readScale: counted loops -> range loops",SPZH,
"\tfor i := 0; i < len(alphas); i++ {\n\t\tx := float64(alpha[i]) / 255.","\tfor i := range alphas {\n\t\tx := float64(alpha[i]) / 255.",
 edits=[(SPZH,"\tfor i := 0; i < len(scales); i++ {\n\t\ti3 := i * 3","\tfor i := range scales {\n\t\ti3 := i * 3")])
HELP='''func nextBodyLine(scanner *bufio.Scanner, what string) (string, error) {
	if !scanner.Scan() {
		if err := scanner.Err(); err != nil {
			return "", err
		}
		return "", fmt.Errorf("can't read %q element: %w", what, io.ErrUnexpectedEOF)
	}
	return scanner.Text(), nil
}

func readAsciiFaceElement('''
R("R03: extract nextBodyLine(scanner, what) (string, error), used by both ASCII loops",PLY,"func readAsciiFaceElement(",HELP,
 edits=[(PLY,VSCAN+"\n\n\t\t\ttext := scanner.Text()","\t\t\ttext, err := nextBodyLine(scanner, mr.AttributeElement)\n\t\t\tif err != nil {\n\t\t\t\treturn nil, err\n\t\t\t}"),
        (PLY,FSCAN+"\n\t\tline := scanner.Text()","\t\tline, err := nextBodyLine(scanner, element.Name)\n\t\tif err != nil {\n\t\t\treturn nil, nil, err\n\t\t}")])
R("R04: splat.Read: if -> switch err { case io.EOF }, errors.Is in the loop",SPL,
"\tif err == io.EOF {\n\t\terr = nil\n\t}","\tswitch err {\n\tcase io.EOF:\n\t\terr = nil\n\t}",
 edits=[(SPL,"\t\tif err != nil {\n\t\t\tbreak\n\t\t}","\t\tif errors.Is(err, io.EOF) || err != nil {\n\t\t\tbreak\n\t\t}"),
        (SPL,"\t\"encoding/binary\"\n\t\"io\"","\t\"encoding/binary\"\n\t\"errors\"\n\t\"io\"")])
R("R05: hoist vertexElement.Count and int(element.Count) into locals (binary loops)",PLY,
"\t\t// Read vertex buffers\n\t\tvertexBuf := make([]byte, totalSize)\n\t\tfor i := int64(0); i < vertexElement.Count; i++ {",
"\t\t// Read vertex buffers\n\t\tvertexBuf := make([]byte, totalSize)\n\t\tvertexCount := vertexElement.Count\n\t\tfor i := int64(0); i < vertexCount; i++ {",
 edits=[(PLY,"\tfor i := 0; i < int(element.Count); i++ {\n\t\t// Read everything\n\t\tfor readerIndex, reader := range readers {\n\t\t\terr := reader.Read(in)",
             "\tfaceCount := int(element.Count)\n\tfor i := 0; i < faceCount; i++ {\n\t\t// Read everything\n\t\tfor readerIndex, reader := range readers {\n\t\t\terr := reader.Read(in)")])
R("R06: spz header readers: separate statement + fmt.Errorf %w, switch with errors.Is",SPZH,
"\tif _, err := io.ReadFull(in, rotationData); err != nil {\n\t\treturn nil, err\n\t}",
"\t_, err := io.ReadFull(in, rotationData)\n\tif err != nil {\n\t\treturn nil, fmt.Errorf(\"spz rotations: %w\", err)\n\t}",
 edits=[(SPZH,"\tif err := binary.Read(in, binary.LittleEndian, &positionData); err != nil {\n\t\treturn nil, err\n\t}",
  "\terr := binary.Read(in, binary.LittleEndian, &positionData)\n\tswitch {\n\tcase err == nil:\n\tcase errors.Is(err, io.EOF), errors.Is(err, io.ErrUnexpectedEOF):\n\t\treturn nil, fmt.Errorf(\"spz float16 positions cut short: %w\", err)\n\tdefault:\n\t\treturn nil, err\n\t}"),
  (SPZH,"\t\"encoding/binary\"\n\t\"fmt\"","\t\"encoding/binary\"\n\t\"errors\"\n\t\"fmt\"")])
R("R07: pts.ReadPointCloud: logging, an unrelated loop before the record loop, an unrelated function",PTS,
"\treadIntensity := false","\tchecksum := 0\n\tfor _, c := range countText {\n\t\tchecksum += int(c)\n\t}\n\tlog.Printf(\"pts: reading %d points (header checksum %d)\", parsedCount, checksum)\n\n\treadIntensity := false",
 edits=[(PTS,"\t\tcurLine++\n\t}","\t\tcurLine++\n\t\tif curLine%100000 == 0 {\n\t\t\tlog.Printf(\"pts: %d points\", curLine)\n\t\t}\n\t}"),
        (PTS,"\t\"io\"\n\t\"strconv\"","\t\"io\"\n\t\"log\"\n\t\"strconv\""),
        (PTS,"\treturn &finalMesh, nil\n}","\treturn &finalMesh, nil\n}\n\nfunc unrelatedHelper(xs []int) int {\n\tt := 0\n\tfor _, x := range xs {\n\t\tt += x\n\t}\n\treturn t\n}")])
R("R08: pts: (string, bool) helper around Scan, loop breaks on !ok, count checked afterwards",PTS,
"func ReadPointCloud(in io.Reader)","func nextLine(s *bufio.Scanner) (string, bool) {\n\tif !s.Scan() {\n\t\treturn \"\", false\n\t}\n\treturn strings.TrimSpace(s.Text()), true\n}\n\nfunc ReadPointCloud(in io.Reader)",
 edits=[(PTS,"\tfor scanner.Scan() && curLine < parsedCount {\n\t\tline := strings.TrimSpace(scanner.Text())","\tfor curLine < parsedCount {\n\t\tline, ok := nextLine(scanner)\n\t\tif !ok {\n\t\t\tbreak\n\t\t}")])
R("R09: ply.listBinaryPropertyReader.Read: named result rewritten by a deferred literal",LB,
"func (lpr *listBinaryPropertyReader) Read(in io.Reader) (err error) {\n\tlpr.lastReadListSize, err = lpr.Count(in)",
"func (lpr *listBinaryPropertyReader) Read(in io.Reader) (err error) {\n\tdefer func() {\n\t\tif err != nil {\n\t\t\terr = fmt.Errorf(\"list property %q: %w\", lpr.property.PropertyName, err)\n\t\t}\n\t}()\n\tlpr.lastReadListSize, err = lpr.Count(in)")
R("R10: pts: position array appended instead of pre-sized, len(readVerts) != parsedCount check",PTS,
"\treadVerts := make([]vector3.Float64, parsedCount)","\treadVerts := make([]vector3.Float64, 0, parsedCount)",
 edits=[(PTS,"\t\treadVerts[curLine] = pos\n","\t\treadVerts = append(readVerts, pos)\n"),(PTS,"\tif curLine < parsedCount {","\tif len(readVerts) != parsedCount {")])
R("R11: stl: reorder independent statements (makes in ReadMesh, declarations in Read)",STL,
"\tindices := make([]int, len(bin.Triangles)*3)\n\tposition := make([]vector3.Float64, len(bin.Triangles)*3)\n\tnormals := make([]vector3.Float64, len(bin.Triangles)*3)\n\tnormalExists := false",
"\tnormalExists := false\n\tnormals := make([]vector3.Float64, len(bin.Triangles)*3)\n\tposition := make([]vector3.Float64, len(bin.Triangles)*3)\n\tindices := make([]int, len(bin.Triangles)*3)",
 edits=[(STL,"\theader := new(Header)\n\tif err := binary.Read(in, binary.LittleEndian, header); err != nil {\n\t\treturn nil, fmt.Errorf(\"unable to read header %w\", err)\n\t}\n\n\tvar triCount uint32",
  "\tvar triCount uint32\n\theader := new(Header)\n\tif err := binary.Read(in, binary.LittleEndian, header); err != nil {\n\t\treturn nil, fmt.Errorf(\"unable to read header %w\", err)\n\t}\n")])
R("R12: splat.Read: position decoding extracted into decodePos(buf)",SPL,
"\t\tpositionData = append(positionData, vector3.New(\n\t\t\tmath.Float32frombits(binary.LittleEndian.Uint32(splatBuffer)),\n\t\t\tmath.Float32frombits(binary.LittleEndian.Uint32(splatBuffer[4:])),\n\t\t\tmath.Float32frombits(binary.LittleEndian.Uint32(splatBuffer[8:])),\n\t\t).ToFloat64())",
"\t\tpositionData = append(positionData, decodePos(splatBuffer))",
 edits=[(SPL,"\t\tnil,\n\t), err\n}","\t\tnil,\n\t), err\n}\n\nfunc decodePos(splatBuffer []byte) vector3.Float64 {\n\treturn vector3.New(\n\t\tmath.Float32frombits(binary.LittleEndian.Uint32(splatBuffer)),\n\t\tmath.Float32frombits(binary.LittleEndian.Uint32(splatBuffer[4:])),\n\t\tmath.Float32frombits(binary.LittleEndian.Uint32(splatBuffer[8:])),\n\t).ToFloat64()\n}")])
R("R13: ply binary vertex loop: if _, err = io.ReadFull(...); err != nil form",PLY,
"\t\t\t_, err := io.ReadFull(reader, vertexBuf)\n\t\t\tif err != nil {\n\t\t\t\treturn nil, fmt.Errorf(","\t\t\tif _, err = io.ReadFull(reader, vertexBuf); err != nil {\n\t\t\t\treturn nil, fmt.Errorf(")
R("R14: stl.Read: one error variable threaded through the three reads, single check",STL,
'''	header := new(Header)
	if err := binary.Read(in, binary.LittleEndian, header); err != nil {
		return nil, fmt.Errorf("unable to read header %w", err)
	}

	var triCount uint32
	if err := binary.Read(in, binary.LittleEndian, &triCount); err != nil {
		return nil, fmt.Errorf("unable to read tri count: %w", err)
	}

	tris := make([]Triangle, triCount)
	if err := binary.Read(in, binary.LittleEndian, &tris); err != nil {
		return nil, fmt.Errorf("unable to read tris: %w", err)
	}
''','''	header := new(Header)
	var triCount uint32
	var tris []Triangle
	stage := "header"
	err := binary.Read(in, binary.LittleEndian, header)
	if err == nil {
		stage = "tri count"
		err = binary.Read(in, binary.LittleEndian, &triCount)
	}
	if err == nil {
		stage = "tris"
		tris = make([]Triangle, triCount)
		err = binary.Read(in, binary.LittleEndian, &tris)
	}
	if err != nil {
		return nil, fmt.Errorf("unable to read %s: %w", stage, err)
	}
''')
R("R17: spz.Read planes as a table of closures called through a function value (checked)",SPZL,PLANES_OLD,PLANES_NEW%"\t\tif err := readPlane(in); err != nil {\n\t\t\treturn nil, err\n\t\t}\n")
R("R18: ply ASCII vertex loop: var i; for ; i < n; i++ and if ok := Scan(); !ok",PLY,
"\t\tfor i := int64(0); i < vertexElement.Count; i++ {\n\t\t\tif !scanner.Scan() {","\t\tvar i int64\n\t\tfor ; i < vertexElement.Count; i++ {\n\t\t\tif ok := scanner.Scan(); !ok {")
R("R19: splat.Read: errors.Is + early return form after the loop",SPL,
"\tif err == io.EOF {\n\t\terr = nil\n\t}\n","\tif err != nil && !errors.Is(err, io.EOF) {\n\t\treturn modeling.EmptyMesh(modeling.PointTopology), err\n\t}\n\terr = nil\n",
 edits=[(SPL,"\t\"encoding/binary\"\n\t\"io\"","\t\"encoding/binary\"\n\t\"errors\"\n\t\"io\"")])

# ---- round 2: declared count honoured (CNT-1), completeness check counts records (PRE-3) ----
M("M52: pts.ReadPointCloud: completeness check compares a 1-based line counter (seed C14-r23)",PTS,
"\tcurLine := 0\n\tfor scanner.Scan() && curLine < parsedCount {\n","\tlineNo := 1\n\tcurLine := 0\n\tfor scanner.Scan() && curLine < parsedCount {\n\t\tlineNo++\n",["PRE-3"],
 edits=[(PTS,"\tif curLine < parsedCount {\n\t\treturn nil, fmt.Errorf(\"pts declares %d points but only %d were found: %w\", parsedCount, curLine, io.ErrUnexpectedEOF)","\tif lineNo < parsedCount {\n\t\treturn nil, fmt.Errorf(\"pts declares %d points but only %d were found: %w\", parsedCount, lineNo, io.ErrUnexpectedEOF)")])
M("M53: pts.ReadPointCloud: completeness check off by one (curLine < parsedCount-1)",PTS,"\tif curLine < parsedCount {","\tif curLine < parsedCount-1 {",["PRE-3","IO-2"])
M("M54: pts.ReadPointCloud: completeness check on a counter that also counts skipped blank lines",PTS,
"\tcurLine := 0\n\tfor scanner.Scan() && curLine < parsedCount {\n\t\tline := strings.TrimSpace(scanner.Text())\n\t\tif line == \"\" {\n\t\t\treturn nil, errors.New(\"encountered empty line in pts\")\n\t\t}\n",
"\tseen := 0\n\tcurLine := 0\n\tfor scanner.Scan() && curLine < parsedCount {\n\t\tseen++\n\t\tline := strings.TrimSpace(scanner.Text())\n\t\tif line == \"\" {\n\t\t\tcontinue\n\t\t}\n",["PRE-3"],
 edits=[(PTS,"\tif curLine < parsedCount {","\tif seen < parsedCount {"),(PTS,"\t\"errors\"\n","")])
CLAMP_OLD="\ttris := make([]Triangle, triCount)\n"
M("M55: stl.Read: declared triangle count lowered to what a Len()-aware source still holds (seed C14-r24)",STL,CLAMP_OLD,
"\tif sized, ok := in.(interface{ Len() int }); ok {\n\t\tif available := uint32(sized.Len() / 50); triCount > available {\n\t\t\ttriCount = available\n\t\t}\n\t}\n\n"+CLAMP_OLD,["CNT-1"])
M("M56: stl.Read: make([]Triangle, min(triCount, available)) (builtin min form)",STL,CLAMP_OLD,
"\tn := triCount\n\tif sized, ok := in.(interface{ Len() int }); ok {\n\t\tn = min(n, uint32(sized.Len()/50))\n\t}\n\ttris := make([]Triangle, n)\n",["CNT-1"])
COPY_OLD="\tif len(line) <= int(lpr.lastReadListSize) {\n\t\treturn -1, fmt.Errorf(\"list declares %d entries but only %d follow\", lpr.lastReadListSize, len(line)-1)\n\t}\n"
M("M57: ply.listAsciiPropertyReader.Read: copy() clamps a short list (seed C14-r21)",LA,COPY_OLD,"\tif v < 0 {\n\t\treturn -1, fmt.Errorf(\"list declares a negative size: %d\", v)\n\t}\n",["CNT-1"],
 edits=[(LA,"\tcopy(lpr.buf, line[1:lpr.lastReadListSize+1])\n\treturn int(lpr.lastReadListSize) + 1, err","\tn := copy(lpr.buf[:lpr.lastReadListSize], line[1:])\n\treturn n + 1, nil")])
M("M58: ply.listAsciiPropertyReader.Read: list size clamped to the tokens left (if size > len(line)-1 { size = len(line)-1 })",LA,
"\tlpr.lastReadListSize = int32(v)\n\n"+COPY_OLD,"\tif int(v) > len(line)-1 {\n\t\tv = int64(len(line) - 1)\n\t}\n\tlpr.lastReadListSize = int32(v)\n",["CNT-1"],
 edits=[(LA,"\t\"errors\"\n\t\"fmt\"\n","\t\"errors\"\n")])
R("R20: stl.Read: triangles read one by one, only the capacity of the pre-allocation is clamped to Len()",STL,
"\ttris := make([]Triangle, triCount)\n\tif err := binary.Read(in, binary.LittleEndian, &tris); err != nil {\n\t\treturn nil, fmt.Errorf(\"unable to read tris: %w\", err)\n\t}\n",
"\tcapHint := triCount\n\tif sized, ok := in.(interface{ Len() int }); ok {\n\t\tif available := uint32(sized.Len() / 50); capHint > available {\n\t\t\tcapHint = available\n\t\t}\n\t}\n\ttris := make([]Triangle, 0, capHint)\n\tfor i := uint32(0); i < triCount; i++ {\n\t\tvar t Triangle\n\t\tif err := binary.Read(in, binary.LittleEndian, &t); err != nil {\n\t\t\treturn nil, fmt.Errorf(\"unable to read tris: %w\", err)\n\t\t}\n\t\ttris = append(tris, t)\n\t}\n")
R("R21: pts: line numbers in error messages (seed C14-r23 without the defect), completeness check still on the point counter",PTS,
"\tcurLine := 0\n\tfor scanner.Scan() && curLine < parsedCount {\n","\tlineNo := 1\n\tcurLine := 0\n\tfor scanner.Scan() && curLine < parsedCount {\n\t\tlineNo++\n",
 edits=[(PTS,"\t\t\treturn nil, errors.New(\"encountered empty line in pts\")","\t\t\treturn nil, fmt.Errorf(\"pts line %d: encountered empty line in pts\", lineNo)"),(PTS,"\t\"errors\"\n","")])
R("R22: pts: records counted in a separate variable, check on it",PTS,
"\tcurLine := 0\n","\tnRead := 0\n\tcurLine := 0\n",
 edits=[(PTS,"\t\tcurLine++\n","\t\tcurLine++\n\t\tnRead++\n"),(PTS,"\tif curLine < parsedCount {","\tif nRead < parsedCount {")])
R("R23: ply.listAsciiPropertyReader.Read: explicit len(line)-1 < size test, then copy from the open-ended tail",LA,
"\tif len(line) <= int(lpr.lastReadListSize) {","\tif len(line)-1 < int(lpr.lastReadListSize) {",
 edits=[(LA,"\tcopy(lpr.buf, line[1:lpr.lastReadListSize+1])\n\treturn int(lpr.lastReadListSize) + 1, err","\tn := copy(lpr.buf[:lpr.lastReadListSize], line[1:])\n\treturn n + 1, nil")])
R("R24: pts: completeness check written as len(points) < declared on an appended slice",PTS,
"\treadVerts := make([]vector3.Float64, parsedCount)","\treadVerts := make([]vector3.Float64, 0, parsedCount)",
 edits=[(PTS,"\t\treadVerts[curLine] = pos\n","\t\treadVerts = append(readVerts, pos)\n"),(PTS,"\tif curLine < parsedCount {","\tif len(readVerts) < parsedCount {")])
R("R25: ply.listAsciiPropertyReader.Read: number copied compared with the declared size afterwards",LA,COPY_OLD,"",
 edits=[(LA,"\tcopy(lpr.buf, line[1:lpr.lastReadListSize+1])\n\treturn int(lpr.lastReadListSize) + 1, err","\tif n := copy(lpr.buf[:lpr.lastReadListSize], line[1:]); n < int(lpr.lastReadListSize) {\n\t\treturn -1, fmt.Errorf(\"list declares %d entries but only %d follow\", lpr.lastReadListSize, n)\n\t}\n\treturn int(lpr.lastReadListSize) + 1, err")])

# ---- round 3: count-less record stream returns whole records only (REC-WHOLE) ----
SPLAT_HEAD='\t// 12 + 12 + 4 + 4 = 32\n\tsplatBuffer := make([]byte, 32)\n\n\tpositionData := make([]vector3.Float64, 0)\n\tscaleData := make([]vector3.Float64, 0)\n\tcolorData := make([]vector3.Float64, 0)\n\topacityData := make([]float64, 0)\n\trotationData := make([]vector4.Float64, 0)\n\n\tvar err error\n\tfor {\n\t\t_, err = io.ReadFull(in, splatBuffer)\n\t\tif err != nil {\n\t\t\tbreak\n\t\t}\n\n\t\tpositionData = append(positionData, vector3.New(\n\t\t\tmath.Float32frombits(binary.LittleEndian.Uint32(splatBuffer)),\n\t\t\tmath.Float32frombits(binary.LittleEndian.Uint32(splatBuffer[4:])),\n\t\t\tmath.Float32frombits(binary.LittleEndian.Uint32(splatBuffer[8:])),\n\t\t).ToFloat64())\n\n\t\tscaleData = append(scaleData, vector3.New(\n\t\t\tmath.Log(float64(math.Float32frombits(binary.LittleEndian.Uint32(splatBuffer[12:])))),\n\t\t\tmath.Log(float64(math.Float32frombits(binary.LittleEndian.Uint32(splatBuffer[16:])))),\n\t\t\tmath.Log(float64(math.Float32frombits(binary.LittleEndian.Uint32(splatBuffer[20:])))),\n\t\t).ToFloat64())\n\n\t\tcolorData = append(colorData, vector3.New(\n\t\t\t((float64(splatBuffer[24])/255.)-0.5)/SH_C0,\n\t\t\t((float64(splatBuffer[25])/255.)-0.5)/SH_C0,\n\t\t\t((float64(splatBuffer[26])/255.)-0.5)/SH_C0,\n\t\t).ToFloat64())\n\n\t\ta := (float64(splatBuffer[27]) / 255.)\n\t\topacityData = append(opacityData, -math.Log((1/a)-1))\n\n\t\trotationData = append(rotationData, vector4.New(\n\t\t\t(float64(splatBuffer[28])-128)/128,\n\t\t\t(float64(splatBuffer[29])-128)/128,\n\t\t\t(float64(splatBuffer[30])-128)/128,\n\t\t\t(float64(splatBuffer[31])-128)/128,\n\t\t).ToFloat64())\n\t}\n\n\tif err == io.EOF {\n\t\terr = nil\n\t}\n'
SPLAT_R34='\t// 12 + 12 + 4 + 4 = 32\n\tconst splatSize = 32\n\n\t// Scenes run into the millions of splats, pull them in a block at a time\n\t// instead of issuing one read per splat\n\tconst splatsPerRead = 2048\n\treadBuffer := make([]byte, splatSize*splatsPerRead)\n\n\tpositionData := make([]vector3.Float64, 0)\n\tscaleData := make([]vector3.Float64, 0)\n\tcolorData := make([]vector3.Float64, 0)\n\topacityData := make([]float64, 0)\n\trotationData := make([]vector4.Float64, 0)\n\n\tvar err error\n\tfor err == nil {\n\t\tvar n int\n\t\tn, err = io.ReadFull(in, readBuffer)\n\n\t\tfor offset := 0; offset < n; offset += splatSize {\n\t\t\tsplatBuffer := readBuffer[offset : offset+splatSize]\n\n\t\t\tpositionData = append(positionData, vector3.New(\n\t\t\t\tmath.Float32frombits(binary.LittleEndian.Uint32(splatBuffer)),\n\t\t\t\tmath.Float32frombits(binary.LittleEndian.Uint32(splatBuffer[4:])),\n\t\t\t\tmath.Float32frombits(binary.LittleEndian.Uint32(splatBuffer[8:])),\n\t\t\t).ToFloat64())\n\n\t\t\tscaleData = append(scaleData, vector3.New(\n\t\t\t\tmath.Log(float64(math.Float32frombits(binary.LittleEndian.Uint32(splatBuffer[12:])))),\n\t\t\t\tmath.Log(float64(math.Float32frombits(binary.LittleEndian.Uint32(splatBuffer[16:])))),\n\t\t\t\tmath.Log(float64(math.Float32frombits(binary.LittleEndian.Uint32(splatBuffer[20:])))),\n\t\t\t).ToFloat64())\n\n\t\t\tcolorData = append(colorData, vector3.New(\n\t\t\t\t((float64(splatBuffer[24])/255.)-0.5)/SH_C0,\n\t\t\t\t((float64(splatBuffer[25])/255.)-0.5)/SH_C0,\n\t\t\t\t((float64(splatBuffer[26])/255.)-0.5)/SH_C0,\n\t\t\t).ToFloat64())\n\n\t\t\ta := (float64(splatBuffer[27]) / 255.)\n\t\t\topacityData = append(opacityData, -math.Log((1/a)-1))\n\n\t\t\trotationData = append(rotationData, vector4.New(\n\t\t\t\t(float64(splatBuffer[28])-128)/128,\n\t\t\t\t(float64(splatBuffer[29])-128)/128,\n\t\t\t\t(float64(splatBuffer[30])-128)/128,\n\t\t\t\t(float64(splatBuffer[31])-128)/128,\n\t\t\t).ToFloat64())\n\t\t}\n\t}\n\n\t// The last block of a file is rarely a full one\n\tif err == io.EOF || err == io.ErrUnexpectedEOF {\n\t\terr = nil\n\t}\n'
SPLAT_BLOCK_DROP='\t// 12 + 12 + 4 + 4 = 32\n\tconst splatSize = 32\n\n\t// Scenes run into the millions of splats, pull them in a block at a time\n\t// instead of issuing one read per splat\n\tconst splatsPerRead = 2048\n\treadBuffer := make([]byte, splatSize*splatsPerRead)\n\n\tpositionData := make([]vector3.Float64, 0)\n\tscaleData := make([]vector3.Float64, 0)\n\tcolorData := make([]vector3.Float64, 0)\n\topacityData := make([]float64, 0)\n\trotationData := make([]vector4.Float64, 0)\n\n\tvar err error\n\tfor err == nil {\n\t\tvar n int\n\t\tn, err = io.ReadFull(in, readBuffer)\n\n\t\tfor offset := 0; offset+splatSize <= n; offset += splatSize {\n\t\t\tsplatBuffer := readBuffer[offset : offset+splatSize]\n\n\t\t\tpositionData = append(positionData, vector3.New(\n\t\t\t\tmath.Float32frombits(binary.LittleEndian.Uint32(splatBuffer)),\n\t\t\t\tmath.Float32frombits(binary.LittleEndian.Uint32(splatBuffer[4:])),\n\t\t\t\tmath.Float32frombits(binary.LittleEndian.Uint32(splatBuffer[8:])),\n\t\t\t).ToFloat64())\n\n\t\t\tscaleData = append(scaleData, vector3.New(\n\t\t\t\tmath.Log(float64(math.Float32frombits(binary.LittleEndian.Uint32(splatBuffer[12:])))),\n\t\t\t\tmath.Log(float64(math.Float32frombits(binary.LittleEndian.Uint32(splatBuffer[16:])))),\n\t\t\t\tmath.Log(float64(math.Float32frombits(binary.LittleEndian.Uint32(splatBuffer[20:])))),\n\t\t\t).ToFloat64())\n\n\t\t\tcolorData = append(colorData, vector3.New(\n\t\t\t\t((float64(splatBuffer[24])/255.)-0.5)/SH_C0,\n\t\t\t\t((float64(splatBuffer[25])/255.)-0.5)/SH_C0,\n\t\t\t\t((float64(splatBuffer[26])/255.)-0.5)/SH_C0,\n\t\t\t).ToFloat64())\n\n\t\t\ta := (float64(splatBuffer[27]) / 255.)\n\t\t\topacityData = append(opacityData, -math.Log((1/a)-1))\n\n\t\t\trotationData = append(rotationData, vector4.New(\n\t\t\t\t(float64(splatBuffer[28])-128)/128,\n\t\t\t\t(float64(splatBuffer[29])-128)/128,\n\t\t\t\t(float64(splatBuffer[30])-128)/128,\n\t\t\t\t(float64(splatBuffer[31])-128)/128,\n\t\t\t).ToFloat64())\n\t\t}\n\t}\n\n\t// The last block of a file is rarely a full one\n\tif err == io.EOF || err == io.ErrUnexpectedEOF {\n\t\terr = nil\n\t}\n'
SPLAT_BLOCK_ERR='\t// 12 + 12 + 4 + 4 = 32\n\tconst splatSize = 32\n\n\t// Scenes run into the millions of splats, pull them in a block at a time\n\t// instead of issuing one read per splat\n\tconst splatsPerRead = 2048\n\treadBuffer := make([]byte, splatSize*splatsPerRead)\n\n\tpositionData := make([]vector3.Float64, 0)\n\tscaleData := make([]vector3.Float64, 0)\n\tcolorData := make([]vector3.Float64, 0)\n\topacityData := make([]float64, 0)\n\trotationData := make([]vector4.Float64, 0)\n\n\tvar err error\n\tfor err == nil {\n\t\tvar n int\n\t\tn, err = io.ReadFull(in, readBuffer)\n\t\tif err == io.ErrUnexpectedEOF && n%splatSize == 0 {\n\t\t\terr = io.EOF\n\t\t}\n\n\t\tfor offset := 0; offset+splatSize <= n; offset += splatSize {\n\t\t\tsplatBuffer := readBuffer[offset : offset+splatSize]\n\n\t\t\tpositionData = append(positionData, vector3.New(\n\t\t\t\tmath.Float32frombits(binary.LittleEndian.Uint32(splatBuffer)),\n\t\t\t\tmath.Float32frombits(binary.LittleEndian.Uint32(splatBuffer[4:])),\n\t\t\t\tmath.Float32frombits(binary.LittleEndian.Uint32(splatBuffer[8:])),\n\t\t\t).ToFloat64())\n\n\t\t\tscaleData = append(scaleData, vector3.New(\n\t\t\t\tmath.Log(float64(math.Float32frombits(binary.LittleEndian.Uint32(splatBuffer[12:])))),\n\t\t\t\tmath.Log(float64(math.Float32frombits(binary.LittleEndian.Uint32(splatBuffer[16:])))),\n\t\t\t\tmath.Log(float64(math.Float32frombits(binary.LittleEndian.Uint32(splatBuffer[20:])))),\n\t\t\t).ToFloat64())\n\n\t\t\tcolorData = append(colorData, vector3.New(\n\t\t\t\t((float64(splatBuffer[24])/255.)-0.5)/SH_C0,\n\t\t\t\t((float64(splatBuffer[25])/255.)-0.5)/SH_C0,\n\t\t\t\t((float64(splatBuffer[26])/255.)-0.5)/SH_C0,\n\t\t\t).ToFloat64())\n\n\t\t\ta := (float64(splatBuffer[27]) / 255.)\n\t\t\topacityData = append(opacityData, -math.Log((1/a)-1))\n\n\t\t\trotationData = append(rotationData, vector4.New(\n\t\t\t\t(float64(splatBuffer[28])-128)/128,\n\t\t\t\t(float64(splatBuffer[29])-128)/128,\n\t\t\t\t(float64(splatBuffer[30])-128)/128,\n\t\t\t\t(float64(splatBuffer[31])-128)/128,\n\t\t\t).ToFloat64())\n\t\t}\n\t}\n\n\tif err == io.EOF {\n\t\terr = nil\n\t}\n'
SPLAT_BLOCK_HALF='\t// 12 + 12 + 4 + 4 = 32\n\tconst splatSize = 32\n\n\t// Scenes run into the millions of splats, pull them in a block at a time\n\t// instead of issuing one read per splat\n\tconst splatsPerRead = 2048\n\treadBuffer := make([]byte, splatSize*splatsPerRead)\n\n\tpositionData := make([]vector3.Float64, 0)\n\tscaleData := make([]vector3.Float64, 0)\n\tcolorData := make([]vector3.Float64, 0)\n\topacityData := make([]float64, 0)\n\trotationData := make([]vector4.Float64, 0)\n\n\tvar err error\n\tfor err == nil {\n\t\tvar n int\n\t\tn, err = io.ReadFull(in, readBuffer)\n\n\t\tfor offset := 0; offset+splatSize/2 <= n; offset += splatSize {\n\t\t\tsplatBuffer := readBuffer[offset : offset+splatSize]\n\n\t\t\tpositionData = append(positionData, vector3.New(\n\t\t\t\tmath.Float32frombits(binary.LittleEndian.Uint32(splatBuffer)),\n\t\t\t\tmath.Float32frombits(binary.LittleEndian.Uint32(splatBuffer[4:])),\n\t\t\t\tmath.Float32frombits(binary.LittleEndian.Uint32(splatBuffer[8:])),\n\t\t\t).ToFloat64())\n\n\t\t\tscaleData = append(scaleData, vector3.New(\n\t\t\t\tmath.Log(float64(math.Float32frombits(binary.LittleEndian.Uint32(splatBuffer[12:])))),\n\t\t\t\tmath.Log(float64(math.Float32frombits(binary.LittleEndian.Uint32(splatBuffer[16:])))),\n\t\t\t\tmath.Log(float64(math.Float32frombits(binary.LittleEndian.Uint32(splatBuffer[20:])))),\n\t\t\t).ToFloat64())\n\n\t\t\tcolorData = append(colorData, vector3.New(\n\t\t\t\t((float64(splatBuffer[24])/255.)-0.5)/SH_C0,\n\t\t\t\t((float64(splatBuffer[25])/255.)-0.5)/SH_C0,\n\t\t\t\t((float64(splatBuffer[26])/255.)-0.5)/SH_C0,\n\t\t\t).ToFloat64())\n\n\t\t\ta := (float64(splatBuffer[27]) / 255.)\n\t\t\topacityData = append(opacityData, -math.Log((1/a)-1))\n\n\t\t\trotationData = append(rotationData, vector4.New(\n\t\t\t\t(float64(splatBuffer[28])-128)/128,\n\t\t\t\t(float64(splatBuffer[29])-128)/128,\n\t\t\t\t(float64(splatBuffer[30])-128)/128,\n\t\t\t\t(float64(splatBuffer[31])-128)/128,\n\t\t\t).ToFloat64())\n\t\t}\n\t}\n\n\t// The last block of a file is rarely a full one\n\tif err == io.EOF || err == io.ErrUnexpectedEOF {\n\t\terr = nil\n\t}\n'
M("M59: splat.Read reads 2048-record blocks, decode loop bounded in bytes (offset < n), ErrUnexpectedEOF = end of file (seed C14-r34)",SPL,SPLAT_HEAD,SPLAT_R34,["REC-WHOLE"])
M("M60: splat.Read block reader, decode window only half covered by the bound (offset+16 <= n)",SPL,SPLAT_HEAD,SPLAT_BLOCK_HALF,["REC-WHOLE"])
R("R26: splat.Read block reader bounded in whole records (offset+32 <= n); a partial tail is reported as io.ErrUnexpectedEOF",SPL,SPLAT_HEAD,SPLAT_BLOCK_ERR)
R("R27: splat.Read block reader bounded in whole records; a partial tail is dropped silently (exactly the whole records: allowed by the property)",SPL,SPLAT_HEAD,SPLAT_BLOCK_DROP,note="behaviour change the property permits")

# ---- round 4: a missing token is an error, never a default (TOK-2) ----
R41=[('formats/ply/reader.go', '\tRead(buf []string, i int64) error\n}\n\ntype binaryPropertyReader interface {\n\tbuiltPropertyReader\n\tRead(buf []byte, i int64)\n', '\tRead(buf []string, i int64) error\n}\n\n// asciiField parses the value found in the given column of an ASCII element\n// line on behalf of the named property.\nfunc asciiField(buf []string, column int, property string) (float64, error) {\n\tif column >= len(buf) {\n\t\treturn 0, fmt.Errorf("line has %d values, none left for property %q: %w", len(buf), property, io.ErrUnexpectedEOF)\n\t}\n\treturn strconv.ParseFloat(buf[column], 32)\n}\n\ntype binaryPropertyReader interface {\n\tbuiltPropertyReader\n\tRead(buf []byte, i int64)\n'), ('formats/ply/reader.go', '\t\t\t}\n\n\t\t\tcontents := strings.Fields(text)\n\t\t\tif len(contents) < len(vertexElement.Properties) {\n\t\t\t\treturn nil, fmt.Errorf("%q element %d has %d values, expected %d: %w", mr.AttributeElement, i, len(contents), len(vertexElement.Properties), io.ErrUnexpectedEOF)\n\t\t\t}\n\n\t\t\tfor _, reader := range asciiReaders {\n\t\t\t\terr = reader.Read(contents, i)\n\t\t\t\tif err != nil {\n\t\t\t\t\treturn nil, err\n\t\t\t\t}\n\t\t\t}\n\n', '\t\t\t}\n\n\t\t\tcontents := strings.Fields(text)\n\n\t\t\t// Every reader checks the columns it consumes itself (see\n\t\t\t// asciiField), so a reader set that leaves trailing columns\n\t\t\t// unclaimed does not trip over lines it never looks at.\n\t\t\tfor _, reader := range asciiReaders {\n\t\t\t\terr = reader.Read(contents, i)\n\t\t\t\tif err != nil {\n\t\t\t\t\treturn nil, fmt.Errorf("%q element %d: %w", mr.AttributeElement, i, err)\n\t\t\t\t}\n\t\t\t}\n\n'), ('formats/ply/reader_vector1.go', '\t"encoding/binary"\n\t"fmt"\n\t"math"\n\t"strconv"\n\n\t"github.com/EliCDavis/polyform/modeling"\n)\n', '\t"encoding/binary"\n\t"fmt"\n\t"math"\n\n\t"github.com/EliCDavis/polyform/modeling"\n)\n'), ('formats/ply/reader_vector1.go', '}\n\nfunc (bav3pr builtAsciiVector1PropertyReader) Read(buf []string, i int64) error {\n\tv, err := strconv.ParseFloat(buf[bav3pr.offset], 32)\n\tif err != nil {\n\t\treturn err\n\t}\n', '}\n\nfunc (bav3pr builtAsciiVector1PropertyReader) Read(buf []string, i int64) error {\n\tv, err := asciiField(buf, bav3pr.offset, bav3pr.plyProperty)\n\tif err != nil {\n\t\treturn err\n\t}\n'), ('formats/ply/reader_vector2.go', '\t"encoding/binary"\n\t"fmt"\n\t"math"\n\t"strconv"\n\n\t"github.com/EliCDavis/polyform/modeling"\n\t"github.com/EliCDavis/vector/vector2"\n', '\t"encoding/binary"\n\t"fmt"\n\t"math"\n\n\t"github.com/EliCDavis/polyform/modeling"\n\t"github.com/EliCDavis/vector/vector2"\n'), ('formats/ply/reader_vector2.go', '}\n\nfunc (bav3pr builtAsciiVector2PropertyReader) Read(buf []string, i int64) error {\n\txParsed, err := strconv.ParseFloat(buf[bav3pr.xOffset], 32)\n\tif err != nil {\n\t\treturn err\n\t}\n\n\tyParsed, err := strconv.ParseFloat(buf[bav3pr.yOffset], 32)\n\tif err != nil {\n\t\treturn err\n\t}\n', '}\n\nfunc (bav3pr builtAsciiVector2PropertyReader) Read(buf []string, i int64) error {\n\txParsed, err := asciiField(buf, bav3pr.xOffset, bav3pr.plyPropertyX)\n\tif err != nil {\n\t\treturn err\n\t}\n\n\tyParsed, err := asciiField(buf, bav3pr.yOffset, bav3pr.plyPropertyY)\n\tif err != nil {\n\t\treturn err\n\t}\n'), ('formats/ply/reader_vector3.go', '\t"encoding/binary"\n\t"fmt"\n\t"math"\n\t"strconv"\n\n\t"github.com/EliCDavis/polyform/modeling"\n\t"github.com/EliCDavis/vector/vector3"\n', '\t"encoding/binary"\n\t"fmt"\n\t"math"\n\n\t"github.com/EliCDavis/polyform/modeling"\n\t"github.com/EliCDavis/vector/vector3"\n'), ('formats/ply/reader_vector3.go', '}\n\nfunc (bav3pr builtAsciiVector3PropertyReader) Read(buf []string, i int64) error {\n\txParsed, err := strconv.ParseFloat(buf[bav3pr.xOffset], 32)\n\tif err != nil {\n\t\treturn err\n\t}\n\n\tyParsed, err := strconv.ParseFloat(buf[bav3pr.yOffset], 32)\n\tif err != nil {\n\t\treturn err\n\t}\n\n\tzParsed, err := strconv.ParseFloat(buf[bav3pr.zOffset], 32)\n\tif err != nil {\n\t\treturn err\n\t}\n', '}\n\nfunc (bav3pr builtAsciiVector3PropertyReader) Read(buf []string, i int64) error {\n\txParsed, err := asciiField(buf, bav3pr.xOffset, bav3pr.plyPropertyX)\n\tif err != nil {\n\t\treturn err\n\t}\n\n\tyParsed, err := asciiField(buf, bav3pr.yOffset, bav3pr.plyPropertyY)\n\tif err != nil {\n\t\treturn err\n\t}\n\n\tzParsed, err := asciiField(buf, bav3pr.zOffset, bav3pr.plyPropertyZ)\n\tif err != nil {\n\t\treturn err\n\t}\n'), ('formats/ply/reader_vector4.go', '\t"encoding/binary"\n\t"fmt"\n\t"math"\n\t"strconv"\n\n\t"github.com/EliCDavis/polyform/modeling"\n\t"github.com/EliCDavis/vector/vector4"\n', '\t"encoding/binary"\n\t"fmt"\n\t"math"\n\n\t"github.com/EliCDavis/polyform/modeling"\n\t"github.com/EliCDavis/vector/vector4"\n'), ('formats/ply/reader_vector4.go', '\t\t\tplyPropertyW:   v4pr.PlyPropertyW,\n\t\t\tmodelAttribute: v4pr.ModelAttribute,\n\t\t\tscalarType:     scalarType,\n\t\t}\n\t}\n\n', '\t\t\tplyPropertyW:   v4pr.PlyPropertyW,\n\t\t\tmodelAttribute: v4pr.ModelAttribute,\n\t\t\tscalarType:     scalarType,\n\t\t\tignorableW:     v4pr.IgnorableW,\n\t\t}\n\t}\n\n'), ('formats/ply/reader_vector4.go', '\tarr            []vector4.Float64\n\tscalarType     ScalarPropertyType\n\tmodelAttribute string\n\txOffset        int\n\tyOffset        int\n\tzOffset        int\n', '\tarr            []vector4.Float64\n\tscalarType     ScalarPropertyType\n\tmodelAttribute string\n\tignorableW     bool\n\txOffset        int\n\tyOffset        int\n\tzOffset        int\n'), ('formats/ply/reader_vector4.go', '}\n\nfunc (bav3pr builtAsciiVector4PropertyReader) Read(buf []string, i int64) error {\n\txParsed, err := strconv.ParseFloat(buf[bav3pr.xOffset], 32)\n\tif err != nil {\n\t\treturn err\n\t}\n\n\tyParsed, err := strconv.ParseFloat(buf[bav3pr.yOffset], 32)\n\tif err != nil {\n\t\treturn err\n\t}\n\n\tzParsed, err := strconv.ParseFloat(buf[bav3pr.zOffset], 32)\n\tif err != nil {\n\t\treturn err\n\t}\n\n\twParsed, err := strconv.ParseFloat(buf[bav3pr.wOffset], 32)\n\tif err != nil {\n\t\treturn err\n\t}\n\n\tv := vector4.New(xParsed, yParsed, zParsed, wParsed)\n', '}\n\nfunc (bav3pr builtAsciiVector4PropertyReader) Read(buf []string, i int64) error {\n\txParsed, err := asciiField(buf, bav3pr.xOffset, bav3pr.plyPropertyX)\n\tif err != nil {\n\t\treturn err\n\t}\n\n\tyParsed, err := asciiField(buf, bav3pr.yOffset, bav3pr.plyPropertyY)\n\tif err != nil {\n\t\treturn err\n\t}\n\n\tzParsed, err := asciiField(buf, bav3pr.zOffset, bav3pr.plyPropertyZ)\n\tif err != nil {\n\t\treturn err\n\t}\n\n\t// An ignorable W that is not there reads as fully opaque / unit weight,\n\t// in the units of the other three components.\n\twParsed := 1.\n\tif bav3pr.scalarType == UChar {\n\t\twParsed = 255.\n\t}\n\tif bav3pr.wOffset < len(buf) || !bav3pr.ignorableW {\n\t\twParsed, err = asciiField(buf, bav3pr.wOffset, bav3pr.plyPropertyW)\n\t\tif err != nil {\n\t\t\treturn err\n\t\t}\n\t}\n\n\tv := vector4.New(xParsed, yParsed, zParsed, wParsed)\n')]
R41_OK=[('formats/ply/reader.go', '\tRead(buf []string, i int64) error\n}\n\ntype binaryPropertyReader interface {\n\tbuiltPropertyReader\n\tRead(buf []byte, i int64)\n', '\tRead(buf []string, i int64) error\n}\n\n// asciiField parses the value found in the given column of an ASCII element\n// line on behalf of the named property.\nfunc asciiField(buf []string, column int, property string) (float64, error) {\n\tif column >= len(buf) {\n\t\treturn 0, fmt.Errorf("line has %d values, none left for property %q: %w", len(buf), property, io.ErrUnexpectedEOF)\n\t}\n\treturn strconv.ParseFloat(buf[column], 32)\n}\n\ntype binaryPropertyReader interface {\n\tbuiltPropertyReader\n\tRead(buf []byte, i int64)\n'), ('formats/ply/reader.go', '\t\t\t}\n\n\t\t\tcontents := strings.Fields(text)\n\t\t\tif len(contents) < len(vertexElement.Properties) {\n\t\t\t\treturn nil, fmt.Errorf("%q element %d has %d values, expected %d: %w", mr.AttributeElement, i, len(contents), len(vertexElement.Properties), io.ErrUnexpectedEOF)\n\t\t\t}\n\n\t\t\tfor _, reader := range asciiReaders {\n\t\t\t\terr = reader.Read(contents, i)\n\t\t\t\tif err != nil {\n\t\t\t\t\treturn nil, err\n\t\t\t\t}\n\t\t\t}\n\n', '\t\t\t}\n\n\t\t\tcontents := strings.Fields(text)\n\n\t\t\t// Every reader checks the columns it consumes itself (see\n\t\t\t// asciiField), so a reader set that leaves trailing columns\n\t\t\t// unclaimed does not trip over lines it never looks at.\n\t\t\tfor _, reader := range asciiReaders {\n\t\t\t\terr = reader.Read(contents, i)\n\t\t\t\tif err != nil {\n\t\t\t\t\treturn nil, fmt.Errorf("%q element %d: %w", mr.AttributeElement, i, err)\n\t\t\t\t}\n\t\t\t}\n\n'), ('formats/ply/reader_vector1.go', '\t"encoding/binary"\n\t"fmt"\n\t"math"\n\t"strconv"\n\n\t"github.com/EliCDavis/polyform/modeling"\n)\n', '\t"encoding/binary"\n\t"fmt"\n\t"math"\n\n\t"github.com/EliCDavis/polyform/modeling"\n)\n'), ('formats/ply/reader_vector1.go', '}\n\nfunc (bav3pr builtAsciiVector1PropertyReader) Read(buf []string, i int64) error {\n\tv, err := strconv.ParseFloat(buf[bav3pr.offset], 32)\n\tif err != nil {\n\t\treturn err\n\t}\n', '}\n\nfunc (bav3pr builtAsciiVector1PropertyReader) Read(buf []string, i int64) error {\n\tv, err := asciiField(buf, bav3pr.offset, bav3pr.plyProperty)\n\tif err != nil {\n\t\treturn err\n\t}\n'), ('formats/ply/reader_vector2.go', '\t"encoding/binary"\n\t"fmt"\n\t"math"\n\t"strconv"\n\n\t"github.com/EliCDavis/polyform/modeling"\n\t"github.com/EliCDavis/vector/vector2"\n', '\t"encoding/binary"\n\t"fmt"\n\t"math"\n\n\t"github.com/EliCDavis/polyform/modeling"\n\t"github.com/EliCDavis/vector/vector2"\n'), ('formats/ply/reader_vector2.go', '}\n\nfunc (bav3pr builtAsciiVector2PropertyReader) Read(buf []string, i int64) error {\n\txParsed, err := strconv.ParseFloat(buf[bav3pr.xOffset], 32)\n\tif err != nil {\n\t\treturn err\n\t}\n\n\tyParsed, err := strconv.ParseFloat(buf[bav3pr.yOffset], 32)\n\tif err != nil {\n\t\treturn err\n\t}\n', '}\n\nfunc (bav3pr builtAsciiVector2PropertyReader) Read(buf []string, i int64) error {\n\txParsed, err := asciiField(buf, bav3pr.xOffset, bav3pr.plyPropertyX)\n\tif err != nil {\n\t\treturn err\n\t}\n\n\tyParsed, err := asciiField(buf, bav3pr.yOffset, bav3pr.plyPropertyY)\n\tif err != nil {\n\t\treturn err\n\t}\n'), ('formats/ply/reader_vector3.go', '\t"encoding/binary"\n\t"fmt"\n\t"math"\n\t"strconv"\n\n\t"github.com/EliCDavis/polyform/modeling"\n\t"github.com/EliCDavis/vector/vector3"\n', '\t"encoding/binary"\n\t"fmt"\n\t"math"\n\n\t"github.com/EliCDavis/polyform/modeling"\n\t"github.com/EliCDavis/vector/vector3"\n'), ('formats/ply/reader_vector3.go', '}\n\nfunc (bav3pr builtAsciiVector3PropertyReader) Read(buf []string, i int64) error {\n\txParsed, err := strconv.ParseFloat(buf[bav3pr.xOffset], 32)\n\tif err != nil {\n\t\treturn err\n\t}\n\n\tyParsed, err := strconv.ParseFloat(buf[bav3pr.yOffset], 32)\n\tif err != nil {\n\t\treturn err\n\t}\n\n\tzParsed, err := strconv.ParseFloat(buf[bav3pr.zOffset], 32)\n\tif err != nil {\n\t\treturn err\n\t}\n', '}\n\nfunc (bav3pr builtAsciiVector3PropertyReader) Read(buf []string, i int64) error {\n\txParsed, err := asciiField(buf, bav3pr.xOffset, bav3pr.plyPropertyX)\n\tif err != nil {\n\t\treturn err\n\t}\n\n\tyParsed, err := asciiField(buf, bav3pr.yOffset, bav3pr.plyPropertyY)\n\tif err != nil {\n\t\treturn err\n\t}\n\n\tzParsed, err := asciiField(buf, bav3pr.zOffset, bav3pr.plyPropertyZ)\n\tif err != nil {\n\t\treturn err\n\t}\n'), ('formats/ply/reader_vector4.go', '\t"encoding/binary"\n\t"fmt"\n\t"math"\n\t"strconv"\n\n\t"github.com/EliCDavis/polyform/modeling"\n\t"github.com/EliCDavis/vector/vector4"\n', '\t"encoding/binary"\n\t"fmt"\n\t"math"\n\n\t"github.com/EliCDavis/polyform/modeling"\n\t"github.com/EliCDavis/vector/vector4"\n'), ('formats/ply/reader_vector4.go', '}\n\nfunc (bav3pr builtAsciiVector4PropertyReader) Read(buf []string, i int64) error {\n\txParsed, err := strconv.ParseFloat(buf[bav3pr.xOffset], 32)\n\tif err != nil {\n\t\treturn err\n\t}\n\n\tyParsed, err := strconv.ParseFloat(buf[bav3pr.yOffset], 32)\n\tif err != nil {\n\t\treturn err\n\t}\n\n\tzParsed, err := strconv.ParseFloat(buf[bav3pr.zOffset], 32)\n\tif err != nil {\n\t\treturn err\n\t}\n\n\twParsed, err := strconv.ParseFloat(buf[bav3pr.wOffset], 32)\n\tif err != nil {\n\t\treturn err\n\t}\n\n\tv := vector4.New(xParsed, yParsed, zParsed, wParsed)\n', '}\n\nfunc (bav3pr builtAsciiVector4PropertyReader) Read(buf []string, i int64) error {\n\txParsed, err := asciiField(buf, bav3pr.xOffset, bav3pr.plyPropertyX)\n\tif err != nil {\n\t\treturn err\n\t}\n\n\tyParsed, err := asciiField(buf, bav3pr.yOffset, bav3pr.plyPropertyY)\n\tif err != nil {\n\t\treturn err\n\t}\n\n\tzParsed, err := asciiField(buf, bav3pr.zOffset, bav3pr.plyPropertyZ)\n\tif err != nil {\n\t\treturn err\n\t}\n\n\twParsed, err := asciiField(buf, bav3pr.wOffset, bav3pr.plyPropertyW)\n\tif err != nil {\n\t\treturn err\n\t}\n\n\tv := vector4.New(xParsed, yParsed, zParsed, wParsed)\n')]
R41_COLZERO=[('formats/ply/reader.go', '\tRead(buf []string, i int64) error\n}\n\ntype binaryPropertyReader interface {\n\tbuiltPropertyReader\n\tRead(buf []byte, i int64)\n', '\tRead(buf []string, i int64) error\n}\n\n// asciiField parses the value found in the given column of an ASCII element\n// line on behalf of the named property.\nfunc asciiField(buf []string, column int, property string) (float64, error) {\n\tif column >= len(buf) {\n\t\treturn 0, nil\n\t}\n\treturn strconv.ParseFloat(buf[column], 32)\n}\n\ntype binaryPropertyReader interface {\n\tbuiltPropertyReader\n\tRead(buf []byte, i int64)\n'), ('formats/ply/reader.go', '\t\t\t}\n\n\t\t\tcontents := strings.Fields(text)\n\t\t\tif len(contents) < len(vertexElement.Properties) {\n\t\t\t\treturn nil, fmt.Errorf("%q element %d has %d values, expected %d: %w", mr.AttributeElement, i, len(contents), len(vertexElement.Properties), io.ErrUnexpectedEOF)\n\t\t\t}\n\n\t\t\tfor _, reader := range asciiReaders {\n\t\t\t\terr = reader.Read(contents, i)\n\t\t\t\tif err != nil {\n\t\t\t\t\treturn nil, err\n\t\t\t\t}\n\t\t\t}\n\n', '\t\t\t}\n\n\t\t\tcontents := strings.Fields(text)\n\n\t\t\t// Every reader checks the columns it consumes itself (see\n\t\t\t// asciiField), so a reader set that leaves trailing columns\n\t\t\t// unclaimed does not trip over lines it never looks at.\n\t\t\tfor _, reader := range asciiReaders {\n\t\t\t\terr = reader.Read(contents, i)\n\t\t\t\tif err != nil {\n\t\t\t\t\treturn nil, fmt.Errorf("%q element %d: %w", mr.AttributeElement, i, err)\n\t\t\t\t}\n\t\t\t}\n\n'), ('formats/ply/reader_vector1.go', '\t"encoding/binary"\n\t"fmt"\n\t"math"\n\t"strconv"\n\n\t"github.com/EliCDavis/polyform/modeling"\n)\n', '\t"encoding/binary"\n\t"fmt"\n\t"math"\n\n\t"github.com/EliCDavis/polyform/modeling"\n)\n'), ('formats/ply/reader_vector1.go', '}\n\nfunc (bav3pr builtAsciiVector1PropertyReader) Read(buf []string, i int64) error {\n\tv, err := strconv.ParseFloat(buf[bav3pr.offset], 32)\n\tif err != nil {\n\t\treturn err\n\t}\n', '}\n\nfunc (bav3pr builtAsciiVector1PropertyReader) Read(buf []string, i int64) error {\n\tv, err := asciiField(buf, bav3pr.offset, bav3pr.plyProperty)\n\tif err != nil {\n\t\treturn err\n\t}\n'), ('formats/ply/reader_vector2.go', '\t"encoding/binary"\n\t"fmt"\n\t"math"\n\t"strconv"\n\n\t"github.com/EliCDavis/polyform/modeling"\n\t"github.com/EliCDavis/vector/vector2"\n', '\t"encoding/binary"\n\t"fmt"\n\t"math"\n\n\t"github.com/EliCDavis/polyform/modeling"\n\t"github.com/EliCDavis/vector/vector2"\n'), ('formats/ply/reader_vector2.go', '}\n\nfunc (bav3pr builtAsciiVector2PropertyReader) Read(buf []string, i int64) error {\n\txParsed, err := strconv.ParseFloat(buf[bav3pr.xOffset], 32)\n\tif err != nil {\n\t\treturn err\n\t}\n\n\tyParsed, err := strconv.ParseFloat(buf[bav3pr.yOffset], 32)\n\tif err != nil {\n\t\treturn err\n\t}\n', '}\n\nfunc (bav3pr builtAsciiVector2PropertyReader) Read(buf []string, i int64) error {\n\txParsed, err := asciiField(buf, bav3pr.xOffset, bav3pr.plyPropertyX)\n\tif err != nil {\n\t\treturn err\n\t}\n\n\tyParsed, err := asciiField(buf, bav3pr.yOffset, bav3pr.plyPropertyY)\n\tif err != nil {\n\t\treturn err\n\t}\n'), ('formats/ply/reader_vector3.go', '\t"encoding/binary"\n\t"fmt"\n\t"math"\n\t"strconv"\n\n\t"github.com/EliCDavis/polyform/modeling"\n\t"github.com/EliCDavis/vector/vector3"\n', '\t"encoding/binary"\n\t"fmt"\n\t"math"\n\n\t"github.com/EliCDavis/polyform/modeling"\n\t"github.com/EliCDavis/vector/vector3"\n'), ('formats/ply/reader_vector3.go', '}\n\nfunc (bav3pr builtAsciiVector3PropertyReader) Read(buf []string, i int64) error {\n\txParsed, err := strconv.ParseFloat(buf[bav3pr.xOffset], 32)\n\tif err != nil {\n\t\treturn err\n\t}\n\n\tyParsed, err := strconv.ParseFloat(buf[bav3pr.yOffset], 32)\n\tif err != nil {\n\t\treturn err\n\t}\n\n\tzParsed, err := strconv.ParseFloat(buf[bav3pr.zOffset], 32)\n\tif err != nil {\n\t\treturn err\n\t}\n', '}\n\nfunc (bav3pr builtAsciiVector3PropertyReader) Read(buf []string, i int64) error {\n\txParsed, err := asciiField(buf, bav3pr.xOffset, bav3pr.plyPropertyX)\n\tif err != nil {\n\t\treturn err\n\t}\n\n\tyParsed, err := asciiField(buf, bav3pr.yOffset, bav3pr.plyPropertyY)\n\tif err != nil {\n\t\treturn err\n\t}\n\n\tzParsed, err := asciiField(buf, bav3pr.zOffset, bav3pr.plyPropertyZ)\n\tif err != nil {\n\t\treturn err\n\t}\n'), ('formats/ply/reader_vector4.go', '\t"encoding/binary"\n\t"fmt"\n\t"math"\n\t"strconv"\n\n\t"github.com/EliCDavis/polyform/modeling"\n\t"github.com/EliCDavis/vector/vector4"\n', '\t"encoding/binary"\n\t"fmt"\n\t"math"\n\n\t"github.com/EliCDavis/polyform/modeling"\n\t"github.com/EliCDavis/vector/vector4"\n'), ('formats/ply/reader_vector4.go', '}\n\nfunc (bav3pr builtAsciiVector4PropertyReader) Read(buf []string, i int64) error {\n\txParsed, err := strconv.ParseFloat(buf[bav3pr.xOffset], 32)\n\tif err != nil {\n\t\treturn err\n\t}\n\n\tyParsed, err := strconv.ParseFloat(buf[bav3pr.yOffset], 32)\n\tif err != nil {\n\t\treturn err\n\t}\n\n\tzParsed, err := strconv.ParseFloat(buf[bav3pr.zOffset], 32)\n\tif err != nil {\n\t\treturn err\n\t}\n\n\twParsed, err := strconv.ParseFloat(buf[bav3pr.wOffset], 32)\n\tif err != nil {\n\t\treturn err\n\t}\n\n\tv := vector4.New(xParsed, yParsed, zParsed, wParsed)\n', '}\n\nfunc (bav3pr builtAsciiVector4PropertyReader) Read(buf []string, i int64) error {\n\txParsed, err := asciiField(buf, bav3pr.xOffset, bav3pr.plyPropertyX)\n\tif err != nil {\n\t\treturn err\n\t}\n\n\tyParsed, err := asciiField(buf, bav3pr.yOffset, bav3pr.plyPropertyY)\n\tif err != nil {\n\t\treturn err\n\t}\n\n\tzParsed, err := asciiField(buf, bav3pr.zOffset, bav3pr.plyPropertyZ)\n\tif err != nil {\n\t\treturn err\n\t}\n\n\twParsed, err := asciiField(buf, bav3pr.wOffset, bav3pr.plyPropertyW)\n\tif err != nil {\n\t\treturn err\n\t}\n\n\tv := vector4.New(xParsed, yParsed, zParsed, wParsed)\n')]
def multi(kind,name,eds,expect=None,note=None):
    f,a,b=eds[0]
    entry(name,kind,f,a,b,expect,note,eds[1:])
multi("mutant","M61: ply ASCII vertex readers: width check moved into asciiField, Vector4 fills a missing trailing alpha with 1/255 (seed C14-r41)",R41,["TOK-2"],"existing tests: pass")
multi("mutant","M62: ply ASCII vertex readers: asciiField answers 0, nil for a column that is not on the line",R41_COLZERO,["TOK-2"])
multi("refactor","R28: ply ASCII vertex readers: width check moved into the per-column helper asciiField, every column (W included) fails on a missing token",R41_OK)

# ---- round 5: optional columns decided the same way on every line (TOK-3) ----
# The entries are written against whichever text the repository holds: before the repair of
# pts.ReadPointCloud (fields latch) they carry the repair as their first edits, afterwards they are single
# edits of the repaired text. Re-run this generator after the fix is committed.
SHORTCHK="\t\tif len(contents) < 3 {\n\t\t\treturn nil, fmt.Errorf(\"pts point %d has %d fields, expected at least 3: %w\", curLine, len(contents), io.ErrUnexpectedEOF)\n\t\t}\n"
LATCH="\n\t\tif fields < 0 {\n\t\t\tfields = len(contents)\n\t\t} else if len(contents) != fields {\n\t\t\treturn nil, fmt.Errorf(\"pts point %d has %d fields, expected %d: %w\", curLine, len(contents), fields, io.ErrUnexpectedEOF)\n\t\t}\n"
REPAIRED = "fields := -1" in src(PTS)
def latch_variant(name, kind, latch, expect=None, note=None, extra=None):
    if REPAIRED:
        eds=[(PTS,LATCH,latch)]
    else:
        eds=[(PTS,"\tcurLine := 0\n","\tfields := -1\n\tcurLine := 0\n"),(PTS,SHORTCHK,SHORTCHK+latch)]
    eds += (extra or [])
    f,a,b=eds[0]
    entry(name,kind,f,a,b,expect,note,eds[1:])
if not REPAIRED:
    latch_variant("R29: pts.ReadPointCloud: field count of the first point latched (fields := -1), later lines with another count rejected (the intended repair)","refactor",LATCH,note="becomes the repository text once the fix is committed; then dropped by the generator")
# The mutants are emitted only once the repair is in the repository: before that the unchanged tree already
# reports the same TOK-3 constructs and the self-validation (which ignores baseline reports) would count them as missed.
MUT = latch_variant if REPAIRED else (lambda *a, **k: None)
MUT("M63: pts field-count latch rejects only longer lines (len(contents) > fields): the cut last line passes","mutant",
 LATCH.replace("len(contents) != fields","len(contents) > fields"),["TOK-3"])
MUT("M63b: pts field-count latch rejects only shorter lines (len(contents) < fields instead of !=): lines longer than the first are accepted and the first keeps placeholders","mutant",
 LATCH.replace("len(contents) != fields","len(contents) < fields"),["TOK-3"],"not a truncation defect by itself (the cut line is rejected); violates the same invariant")
MUT("M64: pts field-count latch re-assigned on every line before it is compared (the test is always true)","mutant",
 "\n\t\tif fields >= 0 && len(contents) != fields {\n\t\t\tfields = len(contents)\n\t\t}\n\t\tif fields < 0 {\n\t\t\tfields = len(contents)\n\t\t}\n",["TOK-3"])
MUT("M65: pts field count latched but never compared","mutant","\n\t\tif fields < 0 {\n\t\t\tfields = len(contents)\n\t\t}\n",["TOK-3"],
 extra=[(PTS,"\tif curLine < parsedCount {","\t_ = fields\n\tif curLine < parsedCount {")])
latch_variant("R30: pts field-count latch written as two ifs with the sentinel tested by == -1","refactor",
 "\n\t\tif fields == -1 {\n\t\t\tfields = len(contents)\n\t\t}\n\t\tif fields != len(contents) {\n\t\t\treturn nil, fmt.Errorf(\"pts point %d has %d fields, expected %d: %w\", curLine, len(contents), fields, io.ErrUnexpectedEOF)\n\t\t}\n")
latch_variant("R31: pts field-count check placed after the stores of the line (still before the line is counted): a differing line ends in the same error, nothing is returned",
 "refactor","",note="behaviourally equivalent: the rule is about accepted lines, not about the position of the check",
 extra=[(PTS,"\t\tcurLine++\n","\t\tif fields < 0 {\n\t\t\tfields = len(contents)\n\t\t} else if len(contents) != fields {\n\t\t\treturn nil, fmt.Errorf(\"pts point %d has %d fields, expected %d: %w\", curLine, len(contents), fields, io.ErrUnexpectedEOF)\n\t\t}\n\t\tcurLine++\n")])

# sanity: every fragment present when applied sequentially
bad=0
for e in out:
    files={}
    for (f,a,b) in [(e["file"],e["find"],e["replace"])]+[(x["file"],x["find"],x["replace"]) for x in e.get("edits",[])]:
        s=files.get(f) or src(f)
        if a not in s:
            print("STALE",e["name"],"::",repr(a[:60])); bad+=1
        files[f]=s.replace(a,b,1)
json.dump(out,open(sys.argv[1],'w'),indent=1,ensure_ascii=False)
print(len(out),"entries;",sum(1 for e in out if e["kind"]=="mutant"),"mutants;",sum(1 for e in out if e["kind"]=="refactor"),"refactors; stale:",bad)
