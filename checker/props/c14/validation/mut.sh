#!/bin/bash
# usage: mut.sh NAME FILE PYTHON_REPLACE_SCRIPT   (script reads s, must change it)
export GOFLAGS=-mod=mod GOPROXY=off GOSUMDB=off GOTOOLCHAIN=local; unset GOWORK
name=$1; file=$2; script=$3
cd /tmp/wt_c14 && git checkout -q . && git apply /verif/checker/props/c14/fixes.patch || { echo "RESET FAILED"; exit 1; }
python3 - "$file" <<PY || { echo "[$name] MUTATION DID NOT APPLY"; exit 1; }
import sys
p=sys.argv[1]
s=open(p).read()
o=s
$script
if s==o:
    sys.exit(1)
open(p,'w').write(s)
PY
if ! go build ./formats/... 2>/tmp/c14_scratch/build.err; then echo "[$name] DOES NOT COMPILE"; head -5 /tmp/c14_scratch/build.err; exit 1; fi
t=$(go test -vet=off -count=1 -timeout 60s ./formats/ply/ ./formats/stl/ ./formats/spz/ ./formats/splat/ ./formats/pts/ 2>&1 | grep -c "^FAIL\|^---" )
out=$(/tmp/dev_c14 -property C14 -verif /tmp/verif_c14 -repo /tmp/wt_c14 2>&1)
echo "[$name] tests_failing_lines=$t"
echo "$out" | grep "^VIOLATION rule\|^UNDECIDED\|^CHECK-FAILED" | cut -c1-230
echo "$out" | tail -1
