#!/bin/bash
cd /tmp/c14_scratch; M=./mut.sh
$M R01_rename_locals formats/ply/reader.go '
import re
s=re.sub(r"\bscanner\b","sc",s)
s=re.sub(r"\bcontents\b","fields",s)
s=re.sub(r"\bvertexBuf\b","rec",s)
s=s.replace("bufio.NewScanner","bufio.NewScanner")'
$M R02_counted_to_range_spz formats/spz/header.go '
s=s.replace("""	for i := 0; i < len(alphas); i++ {
		x := float64(alpha[i]) / 255.""","""	for i := range alphas {
		x := float64(alpha[i]) / 255.""")
s=s.replace("""	for i := 0; i < len(scales); i++ {
		i3 := i * 3""","""	for i := range scales {
		i3 := i * 3""")'
$M R03_extract_line_helper formats/ply/reader.go '
s=s.replace("""func readAsciiFaceElement(""","""func nextBodyLine(scanner *bufio.Scanner, what string) (string, error) {
	if !scanner.Scan() {
		if err := scanner.Err(); err != nil {
			return "", err
		}
		return "", fmt.Errorf("can\x27t read %q element: %w", what, io.ErrUnexpectedEOF)
	}
	return scanner.Text(), nil
}

func readAsciiFaceElement(""")
s=s.replace("""			if !scanner.Scan() {
				if err := scanner.Err(); err != nil {
					return nil, err
				}
				return nil, fmt.Errorf("can\x27t read %q element: %w", mr.AttributeElement, io.ErrUnexpectedEOF)
			}

			text := scanner.Text()""","""			text, err := nextBodyLine(scanner, mr.AttributeElement)
			if err != nil {
				return nil, err
			}""")
s=s.replace("""		if !scanner.Scan() {
			if err := scanner.Err(); err != nil {
				return nil, nil, err
			}
			return nil, nil, fmt.Errorf("can\x27t read %q element: %w", element.Name, io.ErrUnexpectedEOF)
		}
		line := scanner.Text()""","""		line, err := nextBodyLine(scanner, element.Name)
		if err != nil {
			return nil, nil, err
		}""")'
$M R04_if_to_switch formats/splat/read.go '
s=s.replace("""	if err == io.EOF {
		err = nil
	}""","""	switch err {
	case io.EOF:
		err = nil
	}""")
s=s.replace("""		if err != nil {
			break
		}""","""		if errors.Is(err, io.EOF) || err != nil {
			break
		}""")
s=s.replace("""	"encoding/binary"
	"io\"""","""	"encoding/binary"
	"errors"
	"io\"""")'
$M R05_hoist_counts formats/ply/reader.go '
s=s.replace("""		// Read vertex buffers
		vertexBuf := make([]byte, totalSize)
		for i := int64(0); i < vertexElement.Count; i++ {""","""		// Read vertex buffers
		vertexBuf := make([]byte, totalSize)
		vertexCount := vertexElement.Count
		for i := int64(0); i < vertexCount; i++ {""")
s=s.replace("""	for i := 0; i < int(element.Count); i++ {
		// Read everything
		for readerIndex, reader := range readers {
			err := reader.Read(in)""","""	faceCount := int(element.Count)
	for i := 0; i < faceCount; i++ {
		// Read everything
		for readerIndex, reader := range readers {
			err := reader.Read(in)""")'
$M R06_separate_stmt_and_wrap formats/spz/header.go '
s=s.replace("""	if _, err := io.ReadFull(in, rotationData); err != nil {
		return nil, err
	}""","""	_, err := io.ReadFull(in, rotationData)
	if err != nil {
		return nil, fmt.Errorf("spz rotations: %w", err)
	}""")
s=s.replace("""	if err := binary.Read(in, binary.LittleEndian, &positionData); err != nil {
		return nil, err
	}""","""	err := binary.Read(in, binary.LittleEndian, &positionData)
	switch {
	case err == nil:
	case errors.Is(err, io.EOF), errors.Is(err, io.ErrUnexpectedEOF):
		return nil, fmt.Errorf("spz float16 positions cut short: %w", err)
	default:
		return nil, err
	}""")
s=s.replace("""	"encoding/binary"
	"fmt\"""","""	"encoding/binary"
	"errors"
	"fmt\"""")'
$M R07_logging_unrelated_code formats/pts/reader.go '
s=s.replace("""	readIntensity := false""","""	checksum := 0
	for _, c := range countText {
		checksum += int(c)
	}
	log.Printf("pts: reading %d points (header checksum %d)", parsedCount, checksum)

	readIntensity := false""")
s=s.replace("""		curLine++
	}""","""		curLine++
		if curLine%100000 == 0 {
			log.Printf("pts: %d points", curLine)
		}
	}""")
s=s.replace("""	"io"
	"strconv\"""","""	"io"
	"log"
	"strconv\"""")
s+="""

func unrelatedHelper(xs []int) int {
	t := 0
	for _, x := range xs {
		t += x
	}
	return t
}
"""'
$M R08_pts_ok_helper formats/pts/reader.go '
s=s.replace("""func ReadPointCloud(in io.Reader)""","""func nextLine(s *bufio.Scanner) (string, bool) {
	if !s.Scan() {
		return "", false
	}
	return strings.TrimSpace(s.Text()), true
}

func ReadPointCloud(in io.Reader)""")
s=s.replace("""	for scanner.Scan() && curLine < parsedCount {
		line := strings.TrimSpace(scanner.Text())""","""	for curLine < parsedCount {
		line, ok := nextLine(scanner)
		if !ok {
			break
		}""")'
$M R09_named_result_defer formats/ply/reader_list_binary.go '
s=s.replace("""func (lpr *listBinaryPropertyReader) Read(in io.Reader) (err error) {
	lpr.lastReadListSize, err = lpr.Count(in)""","""func (lpr *listBinaryPropertyReader) Read(in io.Reader) (err error) {
	defer func() {
		if err != nil {
			err = fmt.Errorf("list property %q: %w", lpr.property.PropertyName, err)
		}
	}()
	lpr.lastReadListSize, err = lpr.Count(in)""")'
$M R10_pts_append_instead_of_presize formats/pts/reader.go '
s=s.replace("""	readVerts := make([]vector3.Float64, parsedCount)""","""	readVerts := make([]vector3.Float64, 0, parsedCount)""")
s=s.replace("""		readVerts[curLine] = pos
""","""		readVerts = append(readVerts, pos)
""")
s=s.replace("""	if curLine < parsedCount {""","""	if len(readVerts) != parsedCount {""")'
$M R11_reorder_independent formats/stl/read.go '
s=s.replace("""	indices := make([]int, len(bin.Triangles)*3)
	position := make([]vector3.Float64, len(bin.Triangles)*3)
	normals := make([]vector3.Float64, len(bin.Triangles)*3)
	normalExists := false""","""	normalExists := false
	normals := make([]vector3.Float64, len(bin.Triangles)*3)
	position := make([]vector3.Float64, len(bin.Triangles)*3)
	indices := make([]int, len(bin.Triangles)*3)""")
s=s.replace("""	header := new(Header)
	if err := binary.Read(in, binary.LittleEndian, header); err != nil {
		return nil, fmt.Errorf("unable to read header %w", err)
	}

	var triCount uint32""","""	var triCount uint32
	header := new(Header)
	if err := binary.Read(in, binary.LittleEndian, header); err != nil {
		return nil, fmt.Errorf("unable to read header %w", err)
	}
""")'
$M R12_splat_extract_decode formats/splat/read.go '
s=s.replace("""		positionData = append(positionData, vector3.New(
			math.Float32frombits(binary.LittleEndian.Uint32(splatBuffer)),
			math.Float32frombits(binary.LittleEndian.Uint32(splatBuffer[4:])),
			math.Float32frombits(binary.LittleEndian.Uint32(splatBuffer[8:])),
		).ToFloat64())""","""		positionData = append(positionData, decodePos(splatBuffer))""")
s+="""

func decodePos(splatBuffer []byte) vector3.Float64 {
	return vector3.New(
		math.Float32frombits(binary.LittleEndian.Uint32(splatBuffer)),
		math.Float32frombits(binary.LittleEndian.Uint32(splatBuffer[4:])),
		math.Float32frombits(binary.LittleEndian.Uint32(splatBuffer[8:])),
	).ToFloat64()
}
"""'
$M R13_plybin_vertex_init_stmt_form formats/ply/reader.go '
s=s.replace("""			_, err := io.ReadFull(reader, vertexBuf)
			if err != nil {
				return nil, fmt.Errorf(""","""			if _, err = io.ReadFull(reader, vertexBuf); err != nil {
				return nil, fmt.Errorf(""")'
$M R14_stl_error_var_reuse formats/stl/read.go '
s=s.replace("""	header := new(Header)
	if err := binary.Read(in, binary.LittleEndian, header); err != nil {
		return nil, fmt.Errorf("unable to read header %w", err)
	}

	var triCount uint32
	if err := binary.Read(in, binary.LittleEndian, &triCount); err != nil {
		return nil, fmt.Errorf("unable to read tri count: %w", err)
	}

	tris := make([]Triangle, triCount)
	if err := binary.Read(in, binary.LittleEndian, &tris); err != nil {
		return nil, fmt.Errorf("unable to read tris: %w", err)
	}
""","""	header := new(Header)
	var triCount uint32
	var tris []Triangle
	stage := "header"
	err := binary.Read(in, binary.LittleEndian, header)
	if err == nil {
		stage = "tri count"
		err = binary.Read(in, binary.LittleEndian, &triCount)
	}
	if err == nil {
		stage = "tris"
		tris = make([]Triangle, triCount)
		err = binary.Read(in, binary.LittleEndian, &tris)
	}
	if err != nil {
		return nil, fmt.Errorf("unable to read %s: %w", stage, err)
	}
""")'
