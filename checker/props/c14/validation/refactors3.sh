#!/bin/bash
cd /tmp/c14_scratch; M=./mut.sh
$M R17_spz_table_of_readers formats/spz/load.go '
s=s.replace("""	positions, err := header.readPositions(in)
	if err != nil {
		return nil, err
	}

	alphas, err := header.readAlphas(in)
	if err != nil {
		return nil, err
	}

	colors, err := header.readColors(in)
	if err != nil {
		return nil, err
	}

	scales, err := header.readScale(in)
	if err != nil {
		return nil, err
	}

	rotations, err := header.readRotations(in)
	if err != nil {
		return nil, err
	}

	sh, err := header.readSh(in)
	if err != nil {
		return nil, err
	}
""","""	var positions, colors, scales []vector3.Float64
	var alphas []float64
	var rotations []vector4.Float64
	var sh [][]vector3.Float64
	planes := []func(io.Reader) error{
		func(r io.Reader) (err error) { positions, err = header.readPositions(r); return },
		func(r io.Reader) (err error) { alphas, err = header.readAlphas(r); return },
		func(r io.Reader) (err error) { colors, err = header.readColors(r); return },
		func(r io.Reader) (err error) { scales, err = header.readScale(r); return },
		func(r io.Reader) (err error) { rotations, err = header.readRotations(r); return },
		func(r io.Reader) (err error) { sh, err = header.readSh(r); return },
	}
	for _, readPlane := range planes {
		if err := readPlane(in); err != nil {
			return nil, err
		}
	}
""")'
$M M51_spz_table_of_readers_err_dropped formats/spz/load.go '
s=s.replace("""	positions, err := header.readPositions(in)
	if err != nil {
		return nil, err
	}

	alphas, err := header.readAlphas(in)
	if err != nil {
		return nil, err
	}

	colors, err := header.readColors(in)
	if err != nil {
		return nil, err
	}

	scales, err := header.readScale(in)
	if err != nil {
		return nil, err
	}

	rotations, err := header.readRotations(in)
	if err != nil {
		return nil, err
	}

	sh, err := header.readSh(in)
	if err != nil {
		return nil, err
	}
""","""	var positions, colors, scales []vector3.Float64
	var alphas []float64
	var rotations []vector4.Float64
	var sh [][]vector3.Float64
	planes := []func(io.Reader) error{
		func(r io.Reader) (err error) { positions, err = header.readPositions(r); return },
		func(r io.Reader) (err error) { alphas, err = header.readAlphas(r); return },
		func(r io.Reader) (err error) { colors, err = header.readColors(r); return },
		func(r io.Reader) (err error) { scales, err = header.readScale(r); return },
		func(r io.Reader) (err error) { rotations, err = header.readRotations(r); return },
		func(r io.Reader) (err error) { sh, err = header.readSh(r); return },
	}
	for _, readPlane := range planes {
		readPlane(in)
	}
""")'
$M R18_ascii_vertex_while_loop formats/ply/reader.go '
s=s.replace("""		for i := int64(0); i < vertexElement.Count; i++ {
			if !scanner.Scan() {""","""		var i int64
		for ; i < vertexElement.Count; i++ {
			if ok := scanner.Scan(); !ok {""")'
$M R19_splat_errors_is_and_early_return formats/splat/read.go '
s=s.replace("""	if err == io.EOF {
		err = nil
	}
""","""	if err != nil && !errors.Is(err, io.EOF) {
		return modeling.EmptyMesh(modeling.PointTopology), err
	}
	err = nil
""")
s=s.replace("""	"encoding/binary"
	"io\"""","""	"encoding/binary"
	"errors"
	"io\"""")'
