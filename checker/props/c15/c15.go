// Package c15: gaussian-splat codecs (.splat record codec, SPZ plane decoder, splat PLY export) — layout exactness.
package c15

import (
	"go/types"

	"golang.org/x/tools/go/ssa"

	"polycheck/load"
	"polycheck/props"
	"polycheck/props/c07/sx"
)

func init() {
	props.Register(&props.Prop{
		ID: "C15",
		Explanation: "Gaussian-splat codecs decided on source. .splat: SYM-BYTES (one record = 6×float32 + 8 bytes = 32, one record per splat, reader consumes " +
			"len(buffer)=32 per iteration), LAY-1 (the reader's constant byte ranges tile [0,32)), LAY-2 (per attribute component the writer's byte range, " +
			"size and byte order equal the reader's; attributes linked through the modeling.*Attribute constants), AXIS-1/3 (components in axis order on " +
			"both sides), INV-1 (the reader's value map is the reversed chain of inverses of the writer's: Exp↔Log, ·c↔/c with the same constant, " +
			"+c↔−c, logistic pair) — pairing by callee / constant, no numeric proof. SPZ: LAY-6 (16-byte header, field order), TAB (ShDimensions = " +
			"{0,3,8,15}), PLANE-1 (planes read in the published order positions, alphas, colours, scales, rotations, SH, linked to the mesh attributes " +
			"they become), SYM-BYTES (plane sizes 9N/6N, N, 3N, 3N, 3N, 3·N·shDim), SYM-STRIDE (affine subscripts cover each plane exactly once; record i " +
			"→ output i; component k from bytes k·w..k·w+w−1), every output array is make(…, NumPoints), SIGN-1 (24-bit little-endian assembly with shifts " +
			"0/8/16, sign test 1<<23, extension mask 0xff000000), DEQ-1 (published dequantisation maps per plane as linear chains: colours /255 −0.5 /0.15, " +
			"scales /16 −10, rotations /127.5 −1, SH −128 /128, positions ·1/(1<<FractionalBits)), HALF-1 (binary16 bit fields). PLY export: LAY-2 between SplatPly.Write's property names / Float types and the default " +
			"reader's splat properties. Layout exactness for every count / SH degree (strides symbolic); value tolerances, clamping and half-float " +
			"arithmetic are not decided.",
		Assumptions: []string{
			"encoding/binary serialises fixed-size values field by field in declaration order without padding",
			"bitlib.Writer.Float32/Byte/… write exactly the wire size of their parameter type in the byte order given to NewWriter",
			"value-receiver accessors (Mesh.PrimitiveCount, Header.ShDimensions, …) are pure functions of their receiver",
			"symbolic counts (NumPoints, shDim) are non-negative and products do not overflow",
		},
		Controls: controls,
		Run:      run,
	})
}

type anchors struct {
	c        *props.Ctx
	p        *load.Program
	modeling *types.Package
	splat    *ssa.Package
	spz      *ssa.Package
	ply      *ssa.Package
	shTable  map[int64]int64 // degree -> coefficient count, as read from spz.Header.ShDimensions
}

func (a *anchors) modelingPath() string { return a.modeling.Path() }

func (a *anchors) isMeshMethod(c *ssa.Call, name string) bool {
	callee := c.Call.StaticCallee()
	if callee == nil {
		return false
	}
	o, _ := callee.Object().(*types.Func)
	if o == nil || o.Name() != name {
		return false
	}
	sig := o.Type().(*types.Signature)
	if sig.Recv() == nil {
		return false
	}
	n, ok := sig.Recv().Type().(*types.Named)
	return ok && n.Obj().Name() == "Mesh" && n.Obj().Pkg() == a.modeling
}

func (a *anchors) walker() *walker {
	return &walker{modelingPath: a.modelingPath(), envs: map[*ssa.Function]*sx.Env{}, inline: func(fn *ssa.Function) bool {
		return fn.Pkg == a.splat || fn.Pkg == a.spz
	}}
}

func resolve(c *props.Ctx) *anchors {
	a := &anchors{c: c, p: c.P}
	mp := c.P.Pkg("modeling")
	if mp == nil {
		c.R.Failf("anchor package modeling not found")
		return nil
	}
	a.modeling = mp.Types
	ok := true
	for _, x := range []struct {
		rel string
		dst **ssa.Package
	}{{"formats/splat", &a.splat}, {"formats/spz", &a.spz}, {"formats/ply", &a.ply}} {
		*x.dst = c.P.SSAPkg(x.rel)
		if *x.dst == nil {
			c.R.Failf("anchor package %s not found", x.rel)
			ok = false
		}
	}
	if !ok {
		return nil
	}
	return a
}

func (a *anchors) fn(rel, name string) *ssa.Function {
	f := a.p.Func(rel, name)
	if f == nil || f.Blocks == nil {
		a.c.R.Failf("anchor function %s.%s not found", rel, name)
		return nil
	}
	return f
}

func run(c *props.Ctx) {
	a := resolve(c)
	if a == nil {
		return
	}
	r := &sx.Rep{C: c}

	// ---- .splat
	w, rd := a.fn("formats/splat", "Write"), a.fn("formats/splat", "Read")
	if w != nil && rd != nil {
		ws := splatWriter(a, r, w)
		rs := splatReader(a, r, rd)
		splatPair(a, r, ws, rs)
		qrange(c, w)
	}

	// ---- SPZ
	spzChecks(a, r)

	// ---- PLY export
	plySplat(a, r)

	runControls(a)

	c.R.Extra["functions_analysed"] = len(c.P.FuncsOf(a.splat)) + len(c.P.FuncsOf(a.spz))
	floors(c)
}
