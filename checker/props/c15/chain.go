package c15

import (
	"fmt"
	"go/constant"
	"go/token"
	"go/types"
	"strings"

	"golang.org/x/tools/go/ssa"

	"polycheck/props/c07/sx"
	"polycheck/ssau"
)

// A value map of a codec field is read off the SSA as a *linear chain* of
// elementary operations between the source (a mesh attribute component on the
// write side, bytes of the record on the read side) and the sink. Conversions,
// bit reinterpretation and clamping are quantisation steps and are skipped.

type opKind int

const (
	opMul  opKind = iota // x * c
	opQuo                // x / c
	opAdd                // x + c
	opSub                // x - c
	opRSub               // c - x
	opRQuo               // c / x
	opNeg                // -x
	opCall               // F(x), F a math function (or the component-wise vector method of the same name)
)

type chainOp struct {
	kind opKind
	c    constant.Value // constant operand
	fn   string         // opCall: "Exp", "Log", …
	pos  token.Pos
}

func (o chainOp) String() string {
	cs := ""
	if o.c != nil {
		cs = o.c.String()
	}
	switch o.kind {
	case opMul:
		return "·" + cs
	case opQuo:
		return "/" + cs
	case opAdd:
		return "+" + cs
	case opSub:
		return "−" + cs
	case opRSub:
		return cs + "−x"
	case opRQuo:
		return cs + "/x"
	case opNeg:
		return "neg"
	}
	return o.fn
}

// inverseOf reports whether b undoes a.
func inverseOf(a, b chainOp) bool {
	eq := func() bool { return a.c != nil && b.c != nil && constant.Compare(a.c, token.EQL, b.c) }
	switch a.kind {
	case opMul:
		return b.kind == opQuo && eq()
	case opQuo:
		return b.kind == opMul && eq()
	case opAdd:
		return b.kind == opSub && eq()
	case opSub:
		return b.kind == opAdd && eq()
	case opRSub:
		return b.kind == opRSub && eq()
	case opRQuo:
		return b.kind == opRQuo && eq()
	case opNeg:
		return b.kind == opNeg
	case opCall:
		if b.kind != opCall {
			return false
		}
		inv := map[string]string{"Exp": "Log", "Log": "Exp", "Exp2": "Log2", "Log2": "Exp2", "Sqrt": "", "Log10": "", "Log1p": "Expm1", "Expm1": "Log1p"}
		return inv[a.fn] != "" && inv[a.fn] == b.fn
	}
	return false
}

type srcKind int

const (
	srcNone  srcKind = iota
	srcAttr          // component of a mesh attribute element: Mesh.FloatNAttribute(attr).At(idx)
	srcBytes         // bytes of a buffer: buf[off : off+width]
)

// source is where a chain starts.
type source struct {
	kind  srcKind
	attr  string    // srcAttr
	mesh  ssa.Value // srcAttr: the mesh the attribute is taken from
	index ssa.Value // srcAttr: element index ; srcBytes: subscript value (nil when constant-sliced)
	base  ssa.Value // srcBytes: buffer slice value
	off   sx.Poly   // srcBytes: element offset
	width int64     // srcBytes: bytes
	order *ssa.Global
	fn    *ssa.Function
	at    ssa.Instruction // the instruction that reads the source (load / UintN call / At call)
}

// chain is the result of walking one sink back to its source.
type chain struct {
	ops     []chainOp // in evaluation order: source first
	src     source
	axis    int  // component of the source vector selected (-1: scalar source)
	clamped bool // a clamp was skipped
	ok      bool
	why     string // when !ok
	swizzle bool
}

func (c chain) opsString() string {
	if len(c.ops) == 0 {
		return "id"
	}
	var parts []string
	for _, o := range c.ops {
		parts = append(parts, o.String())
	}
	return strings.Join(parts, " ")
}

type walker struct {
	modelingPath string
	inline       func(*ssa.Function) bool
	envs         map[*ssa.Function]*sx.Env
}

func (w *walker) env(fn *ssa.Function) *sx.Env {
	if e, ok := w.envs[fn]; ok {
		return e
	}
	e := sx.NewEnv(fn)
	w.envs[fn] = e
	return e
}

func constOf(v ssa.Value) constant.Value {
	for {
		switch x := v.(type) {
		case *ssa.Convert:
			v = x.X
			continue
		case *ssa.ChangeType:
			v = x.X
			continue
		}
		break
	}
	if c, ok := v.(*ssa.Const); ok && c.Value != nil {
		switch c.Value.Kind() {
		case constant.Int, constant.Float:
			return constant.ToFloat(c.Value)
		}
	}
	return nil
}

func calleeObj(c *ssa.Call) *types.Func { return ssau.CalleeObj(c) }

// bindParam resolves a parameter (possibly re-sliced / converted) to the caller's argument through the context.
func bindParam(v ssa.Value, ctx *sx.Ctx) (ssa.Value, *sx.Ctx) {
	for i := 0; i < 8; i++ {
		p, ok := v.(*ssa.Parameter)
		if !ok || ctx == nil {
			return v, ctx
		}
		found := false
		for k, q := range p.Parent().Params {
			if q == p && k < len(ctx.Call.Call.Args) {
				v, ctx, found = ctx.Call.Call.Args[k], ctx.Parent, true
				break
			}
		}
		if !found {
			return v, ctx
		}
	}
	return v, ctx
}

// substParams replaces symbols that name parameters of fn by the caller's argument values.
func (w *walker) substParams(p sx.Poly, fn *ssa.Function, ctx *sx.Ctx) (sx.Poly, bool) {
	if ctx == nil || fn == nil {
		return p, true
	}
	caller := ctx.Call.Parent()
	for _, sym := range p.Symbols() {
		for i, q := range fn.Params {
			if q.Name() == sym && i < len(ctx.Call.Call.Args) {
				p = p.Subst(sym, w.env(caller).Int(ctx.Call.Call.Args[i]))
			}
		}
	}
	return p, true
}

// bufferOf resolves a byte-slice operand to (slice value in the function that
// owns the buffer, extra offset accumulated in callees). It follows a helper's
// slice parameter to the caller's argument and a closure's captured buffer
// variable to the value the enclosing function stored in it; offsets that are
// helper parameters are replaced by the caller's arguments.
func (w *walker) bufferOf(v ssa.Value, ctx *sx.Ctx) (ssa.Value, sx.Poly, bool) {
	var extra sx.Poly
	for i := 0; i < 8; i++ {
		fn := fnOfValue(v)
		if fn == nil {
			return v, extra, true
		}
		e := w.env(fn)
		root, off := e.SliceRoot(v)
		if ctx == nil {
			return v, extra, true
		}
		switch x := root.(type) {
		case *ssa.Parameter:
			off, _ = w.substParams(off, fn, ctx)
			if _, isC := off.IsConst(); !isC {
				return v, extra, false
			}
			nv, nctx := bindParam(x, ctx)
			if nv == ssa.Value(x) {
				return v, extra, true
			}
			extra = extra.Add(off)
			v, ctx = nv, nctx
			continue
		case *ssa.UnOp:
			// *capturedVar inside a closure
			fv, isFV := x.X.(*ssa.FreeVar)
			mc, isMC := ctx.Call.Call.Value.(*ssa.MakeClosure)
			if x.Op != token.MUL || !isFV || !isMC {
				return v, extra, true
			}
			off, _ = w.substParams(off, fn, ctx)
			if _, isC := off.IsConst(); !isC {
				return v, extra, false
			}
			var bound ssa.Value
			for k, f := range fn.FreeVars {
				if f == fv && k < len(mc.Bindings) {
					bound = mc.Bindings[k]
				}
			}
			al, isAl := bound.(*ssa.Alloc)
			if !isAl {
				return v, extra, true
			}
			ce := w.env(al.Parent())
			sts := ce.Stores(al)
			if len(sts) != 1 || len(sts[0].Ad.Path) != 0 {
				return v, extra, false
			}
			extra = extra.Add(off)
			v, ctx = sts[0].St.Val, ctx.Parent
			continue
		}
		return v, extra, true
	}
	return v, extra, true
}

// outermost returns the instruction in the outermost analysed function at which
// the read happens: the read itself, or the call through which a helper performs it.
func outermost(in ssa.Instruction, ctx *sx.Ctx) ssa.Instruction {
	for c := ctx; c != nil; c = c.Parent {
		in = c.Call
	}
	return in
}

func fnOfValue(v ssa.Value) *ssa.Function {
	switch x := v.(type) {
	case ssa.Instruction:
		return x.Parent()
	case *ssa.Parameter:
		return x.Parent()
	}
	return nil
}

// scalar walks a scalar-valued sink.
func (w *walker) scalar(v ssa.Value, ctx *sx.Ctx) chain {
	var rev []chainOp // sink first
	res := chain{axis: -1}
	fail := func(format string, a ...any) chain {
		res.why = fmt.Sprintf(format, a...)
		return res
	}
	finish := func() chain {
		for i := len(rev) - 1; i >= 0; i-- {
			res.ops = append(res.ops, rev[i])
		}
		res.ok = true
		return res
	}
	for steps := 0; steps < 200; steps++ {
		switch x := v.(type) {
		case *ssa.Convert:
			v = x.X
			continue
		case *ssa.ChangeType:
			v = x.X
			continue
		case *ssa.Parameter:
			if ctx == nil {
				return fail("value comes from parameter %s", x.Name())
			}
			found := false
			for i, p := range x.Parent().Params {
				if p == x && i < len(ctx.Call.Call.Args) {
					v, ctx, found = ctx.Call.Call.Args[i], ctx.Parent, true
					break
				}
			}
			if !found {
				return fail("parameter %s not bound", x.Name())
			}
			continue
		case *ssa.UnOp:
			switch x.Op {
			case token.SUB:
				rev = append(rev, chainOp{kind: opNeg, pos: x.Pos()})
				v = x.X
				continue
			case token.MUL:
				ad := sx.ResolveAddr(x.X)
				if ad.Slice != nil && len(ad.Path) == 0 {
					e := w.env(x.Parent())
					idx := e.Int(ad.SliceIdx)
					base, extra, okB := w.bufferOf(ad.Slice, ctx)
					if !okB {
						return fail("buffer re-sliced by a non-constant amount in a helper")
					}
					if base != ad.Slice {
						// the subscript must be a constant when the buffer belongs to a caller
						if _, isC := idx.IsConst(); !isC {
							return fail("helper subscripts a caller's buffer with a non-constant index")
						}
					}
					be := w.env(fnOfValue(base))
					_, off := be.SliceRoot(base)
					res.src = source{kind: srcBytes, base: base, index: ad.SliceIdx, off: off.Add(extra).Add(idx), width: elemSize(ad.Slice.Type()), fn: fnOfValue(base), at: outermost(x, ctx)}
					return finish()
				}
				// local cell with a single store
				if al, ok := ad.Root.(*ssa.Alloc); ok && len(ad.Path) == 0 && ad.Slice == nil {
					e := w.env(x.Parent())
					sts := e.Stores(al)
					if len(sts) == 1 && len(e.Escapes(al)) == 0 && ssau.Before(sts[0].St, x) {
						v = sts[0].St.Val
						continue
					}
				}
				return fail("load the rule does not follow")
			}
			return fail("unary %s", x.Op)
		case *ssa.BinOp:
			cx, cy := constOf(x.X), constOf(x.Y)
			var k opKind
			var c constant.Value
			var next ssa.Value
			switch {
			case cx != nil && cy != nil:
				return fail("constant expression")
			case cy != nil:
				c, next = cy, x.X
				switch x.Op {
				case token.MUL:
					k = opMul
				case token.QUO:
					k = opQuo
				case token.ADD:
					k = opAdd
				case token.SUB:
					k = opSub
				default:
					return fail("operator %s", x.Op)
				}
			case cx != nil:
				c, next = cx, x.Y
				switch x.Op {
				case token.MUL:
					k = opMul
				case token.ADD:
					k = opAdd
				case token.SUB:
					k = opRSub
				case token.QUO:
					k = opRQuo
				default:
					return fail("operator %s", x.Op)
				}
			default:
				return fail("the value map is not a linear chain (binary %s of two non-constant operands)", x.Op)
			}
			rev = append(rev, chainOp{kind: k, c: c, pos: x.Pos()})
			v = next
			continue
		case *ssa.Extract:
			// one result of a package-local helper with a single return statement
			if c, ok := x.Tuple.(*ssa.Call); ok {
				if callee := c.Call.StaticCallee(); callee != nil && callee.Blocks != nil && w.inline != nil && w.inline(callee) && (ctx == nil || ctx.Depth < 4) {
					if rv, ok := tupleReturn(callee, x.Index); ok {
						d := 0
						if ctx != nil {
							d = ctx.Depth
						}
						ctx = &sx.Ctx{Call: c, Parent: ctx, Depth: d + 1}
						v = rv
						continue
					}
				}
			}
			return fail("result of a call the rule does not follow")
		case *ssa.Call:
			obj := calleeObj(x)
			args := x.Call.Args
			// the min / max builtins clamp like math.Min / math.Max
			if b, isB := x.Call.Value.(*ssa.Builtin); isB && (b.Name() == "min" || b.Name() == "max") && len(args) == 2 {
				switch {
				case constOf(args[0]) != nil:
					v = args[1]
				case constOf(args[1]) != nil:
					v = args[0]
				default:
					return fail("%s of two non-constant operands", b.Name())
				}
				res.clamped = true
				continue
			}
			// component getter: continue on the vector
			if a, ok := sx.AxisGetter(obj); ok {
				vc := w.vector(args[0], a, ctx)
				vc.axisJoin(a)
				return vc.prepend(rev)
			}
			if obj != nil && obj.Pkg() != nil && obj.Pkg().Path() == "math" {
				switch {
				case obj.Name() == "Float32frombits" || obj.Name() == "Float64frombits" || obj.Name() == "Float32bits" || obj.Name() == "Float64bits":
					v = args[0]
					continue
				case len(args) == 1:
					rev = append(rev, chainOp{kind: opCall, fn: obj.Name(), pos: x.Pos()})
					v = args[0]
					continue
				case (obj.Name() == "Max" || obj.Name() == "Min") && len(args) == 2:
					switch {
					case constOf(args[0]) != nil:
						v = args[1]
					case constOf(args[1]) != nil:
						v = args[0]
					default:
						return fail("math.%s of two non-constant operands", obj.Name())
					}
					res.clamped = true
					continue
				}
				return fail("math.%s", obj.Name())
			}
			// ByteOrder.UintN(buf[off:])
			if obj != nil && obj.Pkg() != nil && obj.Pkg().Path() == "encoding/binary" && len(args) == 2 {
				var wd int64
				switch obj.Name() {
				case "Uint16":
					wd = 2
				case "Uint32":
					wd = 4
				case "Uint64":
					wd = 8
				}
				if wd > 0 {
					base, extra, okB := w.bufferOf(args[1], ctx)
					if !okB {
						return fail("buffer re-sliced by a non-constant amount in a helper")
					}
					be := w.env(fnOfValue(base))
					_, off := be.SliceRoot(base)
					src := source{kind: srcBytes, base: base, off: off.Add(extra), width: wd, fn: fnOfValue(base), at: outermost(x, ctx)}
					if ld, ok := args[0].(*ssa.UnOp); ok && ld.Op == token.MUL {
						if g, ok := ld.X.(*ssa.Global); ok {
							src.order = g
						}
					}
					res.src = src
					return finish()
				}
			}
			// iterator element
			if isIterAt(obj) && len(args) == 2 {
				attr, mesh, ok := w.attrOfIter(args[0])
				if !ok {
					return fail("element of an iterator that is not a mesh attribute accessor")
				}
				res.src = source{kind: srcAttr, attr: attr, mesh: mesh, index: args[1], fn: x.Parent()}
				return finish()
			}
			// inline small repository helpers
			if callee := x.Call.StaticCallee(); callee != nil && callee.Blocks != nil && w.inline != nil && w.inline(callee) {
				if rv, ok := singleReturn(callee); ok && (ctx == nil || ctx.Depth < 4) {
					d := 0
					if ctx != nil {
						d = ctx.Depth
					}
					ctx = &sx.Ctx{Call: x, Parent: ctx, Depth: d + 1}
					v = rv
					continue
				}
			}
			name := "?"
			if obj != nil {
				name = obj.Name()
			}
			return fail("call of %s", name)
		}
		return fail("%T on the value path", v)
	}
	return fail("value path too long")
}

func (c *chain) axisJoin(a int) {
	if c.ok && c.axis == -1 {
		c.axis = a
	}
}

// prepend adds the sink-side ops (given sink first) after the chain's own ops.
func (c chain) prepend(revSinkFirst []chainOp) chain {
	for i := len(revSinkFirst) - 1; i >= 0; i-- {
		c.ops = append(c.ops, revSinkFirst[i])
	}
	return c
}

// tupleReturn returns result idx of the function's only return statement.
func tupleReturn(fn *ssa.Function, idx int) (ssa.Value, bool) {
	var out ssa.Value
	n := 0
	for _, b := range fn.Blocks {
		if len(b.Instrs) == 0 {
			continue
		}
		if r, ok := b.Instrs[len(b.Instrs)-1].(*ssa.Return); ok {
			n++
			if idx >= len(r.Results) {
				return nil, false
			}
			out = r.Results[idx]
		}
	}
	return out, n == 1
}

func singleReturn(fn *ssa.Function) (ssa.Value, bool) {
	var out ssa.Value
	n := 0
	for _, b := range fn.Blocks {
		if len(b.Instrs) == 0 {
			continue
		}
		if r, ok := b.Instrs[len(b.Instrs)-1].(*ssa.Return); ok {
			n++
			if len(r.Results) != 1 {
				return nil, false
			}
			out = r.Results[0]
		}
	}
	return out, n == 1
}

func elemSize(t types.Type) int64 {
	sl, ok := t.Underlying().(*types.Slice)
	if !ok {
		return 0
	}
	l, err := sx.Flatten(sl.Elem())
	if err != nil {
		return 0
	}
	return l.Size
}

func isIterAt(fn *types.Func) bool {
	if fn == nil || fn.Name() != "At" {
		return false
	}
	n := ssau.RecvNamed(fn)
	return n != nil && n.Origin().Obj().Name() == "ArrayIterator" && n.Origin().Obj().Pkg() != nil && n.Origin().Obj().Pkg().Path() == "github.com/EliCDavis/iter"
}

// attrOfIter resolves an iterator value to Mesh.Float{1,2,3,4}Attribute(mesh, "<attr>").
func (w *walker) attrOfIter(v ssa.Value) (attr string, mesh ssa.Value, ok bool) {
	for i := 0; i < 8; i++ {
		switch x := v.(type) {
		case *ssa.UnOp:
			if x.Op == token.MUL {
				// *iterator (value receiver) or a local cell
				if al, isAl := x.X.(*ssa.Alloc); isAl {
					e := w.env(x.Parent())
					sts := e.Stores(al)
					if len(sts) == 1 {
						v = sts[0].St.Val
						continue
					}
					return "", nil, false
				}
				v = x.X
				continue
			}
		case *ssa.ChangeType:
			v = x.X
			continue
		case *ssa.Call:
			obj := calleeObj(x)
			for _, n := range []string{"Float1Attribute", "Float2Attribute", "Float3Attribute", "Float4Attribute"} {
				if ssau.IsMethod(obj, w.modelingPath, "Mesh", n) && len(x.Call.Args) == 2 {
					if s, isC := ssau.ConstString(x.Call.Args[1]); isC {
						return s, x.Call.Args[0], true
					}
					return "", nil, false
				}
			}
		}
		return "", nil, false
	}
	return "", nil, false
}

// vector walks a vector-valued value, tracking component comp.
func (w *walker) vector(v ssa.Value, comp int, ctx *sx.Ctx) chain {
	var rev []chainOp
	res := chain{axis: -1}
	fail := func(format string, a ...any) chain {
		res.why = fmt.Sprintf(format, a...)
		return res
	}
	for steps := 0; steps < 100; steps++ {
		switch x := v.(type) {
		case *ssa.ChangeType:
			v = x.X
			continue
		case *ssa.Parameter:
			if ctx == nil {
				return fail("vector comes from parameter %s", x.Name())
			}
			found := false
			for i, p := range x.Parent().Params {
				if p == x && i < len(ctx.Call.Call.Args) {
					v, ctx, found = ctx.Call.Call.Args[i], ctx.Parent, true
					break
				}
			}
			if !found {
				return fail("parameter not bound")
			}
			continue
		case *ssa.UnOp:
			if x.Op == token.MUL {
				if al, ok := x.X.(*ssa.Alloc); ok {
					e := w.env(x.Parent())
					sts := e.Stores(al)
					if len(sts) == 1 && len(sts[0].Ad.Path) == 0 && len(e.Escapes(al)) == 0 && ssau.Before(sts[0].St, x) {
						v = sts[0].St.Val
						continue
					}
				}
			}
			return fail("vector loaded from memory the rule does not follow")
		case *ssa.Extract:
			// one result of a package-local helper with a single return statement
			if c, ok := x.Tuple.(*ssa.Call); ok {
				if callee := c.Call.StaticCallee(); callee != nil && callee.Blocks != nil && w.inline != nil && w.inline(callee) && (ctx == nil || ctx.Depth < 4) {
					if rv, ok := tupleReturn(callee, x.Index); ok {
						d := 0
						if ctx != nil {
							d = ctx.Depth
						}
						ctx = &sx.Ctx{Call: c, Parent: ctx, Depth: d + 1}
						v = rv
						continue
					}
				}
			}
			return fail("result of a call the rule does not follow")
		case *ssa.Call:
			obj := calleeObj(x)
			args := x.Call.Args
			if sx.IsSwizzle(obj) {
				res.swizzle = true
				return fail("component-permuting method %s", obj.Name())
			}
			if dim, ok := sx.VecNew(obj); ok && comp < dim && len(args) == dim {
				sc := w.scalar(args[comp], ctx)
				return sc.prepend(rev)
			}
			if isIterAt(obj) && len(args) == 2 {
				attr, mesh, ok := w.attrOfIter(args[0])
				if !ok {
					return fail("element of an iterator that is not a mesh attribute accessor")
				}
				res.src = source{kind: srcAttr, attr: attr, mesh: mesh, index: args[1], fn: x.Parent()}
				res.axis = comp
				res.ok = true
				return res.prepend(rev)
			}
			if obj != nil && ssau.RecvNamed(obj) != nil && isVecRecv(obj) {
				switch obj.Name() {
				case "ToFloat64", "ToFloat32", "ToInt", "ToInt64":
					v = args[0]
					continue
				case "Scale", "DivByConstant":
					c := constOf(args[1])
					if c == nil {
						return fail("%s by a non-constant", obj.Name())
					}
					k := opMul
					if obj.Name() == "DivByConstant" {
						k = opQuo
					}
					rev = append(rev, chainOp{kind: k, c: c, pos: x.Pos()})
					v = args[0]
					continue
				case "Add", "Sub":
					c := fillConst(args[1])
					if c == nil {
						return fail("%s of a non-constant vector", obj.Name())
					}
					k := opAdd
					if obj.Name() == "Sub" {
						k = opSub
					}
					rev = append(rev, chainOp{kind: k, c: c, pos: x.Pos()})
					v = args[0]
					continue
				case "Clamp":
					res.clamped = true
					v = args[0]
					continue
				case "Exp", "Log", "Exp2", "Log2", "Log10", "Sqrt", "Expm1":
					rev = append(rev, chainOp{kind: opCall, fn: obj.Name(), pos: x.Pos()})
					v = args[0]
					continue
				}
				return fail("vector method %s", obj.Name())
			}
			if callee := x.Call.StaticCallee(); callee != nil && callee.Blocks != nil && w.inline != nil && w.inline(callee) {
				if rv, ok := singleReturn(callee); ok && (ctx == nil || ctx.Depth < 4) {
					d := 0
					if ctx != nil {
						d = ctx.Depth
					}
					ctx = &sx.Ctx{Call: x, Parent: ctx, Depth: d + 1}
					v = rv
					continue
				}
			}
			name := "?"
			if obj != nil {
				name = obj.Name()
			}
			return fail("call of %s", name)
		}
		return fail("%T on the vector path", v)
	}
	return fail("vector path too long")
}

func isVecRecv(fn *types.Func) bool {
	n := ssau.RecvNamed(fn)
	if n == nil {
		return false
	}
	_, ok := sx.IsVecType(n)
	return ok
}

// fillConst recognises vectorN.Fill(c).
func fillConst(v ssa.Value) constant.Value {
	c, ok := v.(*ssa.Call)
	if !ok {
		return nil
	}
	if sx.VecFunc(calleeObj(c), "Fill") && len(c.Call.Args) == 1 {
		return constOf(c.Call.Args[0])
	}
	return nil
}
