package c15

import (
	"golang.org/x/tools/go/ssa"

	"polycheck/ob"
	"polycheck/props"
	"polycheck/props/c07/sx"
)

func floors(c *props.Ctx) {
	c.R.Floor("SYM-BYTES", 5)
	c.R.Floor("LAY-1", 1)
	c.R.Floor("LAY-2", 8)
	c.R.Floor("INV-1", 8)
	c.R.Floor("AXIS-3", 3)
	c.R.Floor("AXIS-1", 3)
	c.R.Floor("LAY-6", 1)
	c.R.Floor("TAB", 1)
	c.R.Floor("PLANE-1", 5)
	c.R.Floor("OUT-1", 4)
	c.R.Floor("SYM-STRIDE", 18)
	c.R.Floor("SIGN-1", 2)
	c.R.Floor("DEQ-1", 7)
	c.R.Floor("HALF-1", 1)
	c.R.Floor("HALF-2", 1)
	c.R.Floor("DEQ-2", 1)
	c.R.Floor("REC-ALL", 5)
	c.R.Floor("SH-COUNT", 1)
}

const (
	ctlSplat = "formats/splat/zz_verif_control_c15.go"
	ctlSpz   = "formats/spz/zz_verif_control_c15.go"
)

func controls() map[string]string {
	return map[string]string{ctlSplat: ctlSplatSrc, ctlSpz: ctlSpzSrc}
}

const ctlSplatSrc = `package splat

import (
	"encoding/binary"
	"io"
	"math"

	"github.com/EliCDavis/bitlib"
	"github.com/EliCDavis/polyform/modeling"
	"github.com/EliCDavis/vector/vector3"
	"github.com/EliCDavis/vector/vector4"
)

// must be reported: rotation y/z swapped on the write side, scale written without Exp
func verifControlSplatBadWrite(out io.Writer, mesh modeling.Mesh) error {
	count := mesh.PrimitiveCount()
	posData := mesh.Float3Attribute(modeling.PositionAttribute)
	scaleData := mesh.Float3Attribute(modeling.ScaleAttribute)
	fdcData := mesh.Float3Attribute(modeling.FDCAttribute)
	opacityData := mesh.Float1Attribute(modeling.OpacityAttribute)
	rotationData := mesh.Float4Attribute(modeling.RotationAttribute)
	writer := bitlib.NewWriter(out, binary.LittleEndian)
	for i := 0; i < count; i++ {
		pos := posData.At(i)
		writer.Float32(float32(pos.X()))
		writer.Float32(float32(pos.Y()))
		writer.Float32(float32(pos.Z()))
		scale := scaleData.At(i)
		writer.Float32(float32(scale.X()))
		writer.Float32(float32(scale.Y()))
		writer.Float32(float32(scale.Z()))
		color := fdcData.At(i).Scale(SH_C0).Add(vector3.Fill(0.5)).Clamp(0, 1)
		writer.Byte(byte(color.X() * 255))
		writer.Byte(byte(color.Y() * 255))
		writer.Byte(byte(color.Z() * 255))
		alpha := 1. / (1 + math.Exp(-opacityData.At(i)))
		writer.Byte(byte(alpha * 255))
		rot := rotationData.At(i)
		writer.Byte(byte((rot.X() * 128) + 128))
		writer.Byte(byte((rot.Z() * 128) + 128))
		writer.Byte(byte((rot.Y() * 128) + 128))
		writer.Byte(byte((rot.W() * 128) + 128))
		if writer.Error() != nil {
			return writer.Error()
		}
	}
	return nil
}

func verifControlUnorm(b byte) float64 { return float64(b) / 255. }

// accepted idioms: helper functions, hoisted locals, different names, vector Exp/Log methods are not used but
// constants on the other side of the operator, explicit little-endian decoding through a local
func verifControlSplatGoodRead(src io.Reader) (modeling.Mesh, error) {
	rec := make([]byte, 32)
	var p, s, c []vector3.Float64
	var o []float64
	var q []vector4.Float64
	le := binary.LittleEndian
	_ = le
	var err error
	for {
		if _, err = io.ReadFull(src, rec); err != nil {
			break
		}
		px := math.Float32frombits(binary.LittleEndian.Uint32(rec[0:]))
		py := math.Float32frombits(binary.LittleEndian.Uint32(rec[4:]))
		pz := math.Float32frombits(binary.LittleEndian.Uint32(rec[8:12]))
		p = append(p, vector3.New(px, py, pz).ToFloat64())

		opacity := verifControlUnorm(rec[27])
		o = append(o, -math.Log((1/opacity)-1))

		s = append(s, vector3.New(
			math.Log(float64(math.Float32frombits(binary.LittleEndian.Uint32(rec[12:])))),
			math.Log(float64(math.Float32frombits(binary.LittleEndian.Uint32(rec[16:])))),
			math.Log(float64(math.Float32frombits(binary.LittleEndian.Uint32(rec[20:])))),
		))
		q = append(q, vector4.New(
			(float64(rec[28])-128)/128,
			(float64(rec[29])-128)/128,
			(float64(rec[30])-128)/128,
			(float64(rec[31])-128)/128,
		))
		c = append(c, vector3.New(verifControlUnorm(rec[24]), verifControlUnorm(rec[25]), verifControlUnorm(rec[26])).
			Sub(vector3.Fill(0.5)).DivByConstant(SH_C0))
	}
	if err == io.EOF {
		err = nil
	}
	return modeling.NewPointCloud(
		map[string][]vector4.Vector[float64]{modeling.RotationAttribute: q},
		map[string][]vector3.Vector[float64]{modeling.PositionAttribute: p, modeling.ScaleAttribute: s, modeling.FDCAttribute: c},
		nil,
		map[string][]float64{modeling.OpacityAttribute: o},
		nil,
	), err
}

// accepted idioms on the write side: hoisted element values, helper, different names, count from AttributeLength
func verifControlQuant(v float64) byte { return byte(v * 255) }

func verifControlSplatGoodWrite(sink io.Writer, cloud modeling.Mesh) error {
	n := cloud.AttributeLength()
	if n == 0 {
		return nil
	}
	rotations := cloud.Float4Attribute(modeling.RotationAttribute)
	opacities := cloud.Float1Attribute(modeling.OpacityAttribute)
	colours := cloud.Float3Attribute(modeling.FDCAttribute)
	scales := cloud.Float3Attribute(modeling.ScaleAttribute)
	positions := cloud.Float3Attribute(modeling.PositionAttribute)
	w := bitlib.NewWriter(sink, binary.LittleEndian)
	for k := 0; k < n; k++ {
		p, s, q := positions.At(k), scales.At(k), rotations.At(k)
		px, py, pz := float32(p.X()), float32(p.Y()), float32(p.Z())
		w.Float32(px)
		w.Float32(py)
		w.Float32(pz)
		w.Float32(float32(math.Exp(s.X())))
		w.Float32(float32(math.Exp(s.Y())))
		w.Float32(float32(math.Exp(s.Z())))
		c := colours.At(k).Scale(SH_C0).Add(vector3.Fill(0.5)).Clamp(0, 1)
		w.Byte(verifControlQuant(c.X()))
		w.Byte(verifControlQuant(c.Y()))
		w.Byte(verifControlQuant(c.Z()))
		w.Byte(verifControlQuant(1. / (1 + math.Exp(-opacities.At(k)))))
		w.Byte(byte(128 + 128*q.X()))
		w.Byte(byte(128 + 128*q.Y()))
		w.Byte(byte(128 + 128*q.Z()))
		w.Byte(byte(128 + 128*q.W()))
		if err := w.Error(); err != nil {
			return err
		}
	}
	return nil
}
`

const ctlSpzSrc = `package spz

import (
	"io"

	"github.com/EliCDavis/vector/vector3"
)

func verifControlUnq(b uint8) float64 { return (float64(b) - 128) / 128 }

// must be reported: per-point stride 3*(shDim-1)
func (pgh Header) verifControlReadShBad(in io.Reader) ([][]vector3.Float64, error) {
	shDim, err := pgh.ShDimensions()
	if err != nil {
		return nil, err
	}
	if shDim == 0 {
		return nil, nil
	}
	shData := make([]byte, pgh.NumPoints*3*uint32(shDim))
	if _, err := io.ReadFull(in, shData); err != nil {
		return nil, err
	}
	sh := make([][]vector3.Float64, uint32(shDim))
	for i := 0; i < len(sh); i++ {
		sh[i] = make([]vector3.Vector[float64], pgh.NumPoints)
	}
	for i := 0; i < int(pgh.NumPoints); i++ {
		for d := 0; d < shDim; d++ {
			i3 := d*3 + (i * 3 * int(shDim-1))
			sh[d][i] = vector3.New(verifControlUnq(shData[i3+0]), verifControlUnq(shData[i3+1]), verifControlUnq(shData[i3+2]))
		}
	}
	return sh, nil
}

// accepted idioms: coefficient loop outermost, range loops, hoisted counts, different names
func (h Header) verifControlReadShGood(r io.Reader) ([][]vector3.Float64, error) {
	dims, err := h.ShDimensions()
	if err != nil {
		return nil, err
	}
	if dims == 0 {
		return nil, nil
	}
	n := int(h.NumPoints)
	raw := make([]byte, 3*n*dims)
	if _, err := io.ReadFull(r, raw); err != nil {
		return nil, err
	}
	out := make([][]vector3.Float64, dims)
	for k := range out {
		out[k] = make([]vector3.Float64, n)
	}
	for k := range out {
		coeffs := out[k]
		for p := range coeffs {
			at := 3 * (p*dims + k)
			coeffs[p] = vector3.New(verifControlUnq(raw[at]), verifControlUnq(raw[at+1]), verifControlUnq(raw[at+2]))
		}
	}
	return out, nil
}

// must be reported: sign mask 0xff0000, bytes assembled big-endian
func (pgh Header) verifControlReadPosBad(in io.Reader) ([]vector3.Float64, error) {
	data := make([]byte, pgh.NumPoints*9)
	if _, err := io.ReadFull(in, data); err != nil {
		return nil, err
	}
	scale := 1.0 / float64(int(1)<<pgh.FractionalBits)
	positions := make([]vector3.Float64, pgh.NumPoints)
	for i := 0; i < len(positions); i++ {
		i9 := i * 9
		x := uint32(data[i9+0])
		x |= uint32(data[i9+1]) << 8
		x |= uint32(data[i9+2]) << 16
		if x&0x800000 > 0 {
			x |= 0xff0000
		}
		y := uint32(data[i9+3]) << 16
		y |= uint32(data[i9+4]) << 8
		y |= uint32(data[i9+5])
		if y&0x800000 > 0 {
			y |= 0xff000000
		}
		z := uint32(data[i9+6])
		z |= uint32(data[i9+7]) << 8
		z |= uint32(data[i9+8]) << 16
		if z&0x800000 > 0 {
			z |= 0xff000000
		}
		positions[i] = vector3.New(int32(x), int32(y), int32(z)).ToFloat64().Scale(scale)
	}
	return positions, nil
}

func verifControlSext24(b0, b1, b2 byte) int32 {
	return int32((uint32(b0)|uint32(b1)<<8|uint32(b2)<<16)<<8) >> 8
}

// accepted idioms: shift-based sign extension, != 0 test, range loop, + instead of |
func (h Header) verifControlReadPosGood(r io.Reader) ([]vector3.Float64, error) {
	raw := make([]byte, 9*h.NumPoints)
	if _, err := io.ReadFull(r, raw); err != nil {
		return nil, err
	}
	inv := 1.0 / float64(int(1)<<h.FractionalBits)
	out := make([]vector3.Float64, h.NumPoints)
	for p := range out {
		o := 9 * p
		x := int32((uint32(raw[o])|uint32(raw[o+1])<<8|uint32(raw[o+2])<<16)<<8) >> 8
		y := uint32(raw[o+3]) + uint32(raw[o+4])<<8 + uint32(raw[o+5])<<16
		if y&0x800000 != 0 {
			y = y | 0xff000000
		}
		z := uint32(raw[o+8])<<16 | uint32(raw[o+7])<<8 | uint32(raw[o+6])
		if z >= 0x800000 {
			z |= 0xff000000
		}
		out[p] = vector3.New(x, int32(y), int32(z)).ToFloat64().Scale(inv)
	}
	return out, nil
}
`

func runControls(a *anchors) {
	c := a.c
	if len(c.P.Controls) == 0 {
		return
	}
	hobj := a.spz.Pkg.Scope().Lookup("Header")
	if hobj == nil {
		return
	}
	hdrT := hobj.Type()
	method := func(name string) *ssa.Function {
		f := a.p.Func(spzRel, "Header."+name)
		if f == nil || f.Blocks == nil {
			return nil
		}
		return f
	}
	sfn := func(name string) *ssa.Function {
		f := a.splat.Func(name)
		if f == nil || f.Blocks == nil {
			return nil
		}
		return f
	}
	ctls := []sx.Control{
		{Rule: "INV-1", Label: "control:splat-bad", Want: ob.Violation, Run: func(r *sx.Rep) bool {
			w, rd := sfn("verifControlSplatBadWrite"), sfn("verifControlSplatGoodRead")
			if w == nil || rd == nil {
				return false
			}
			ws, rs := splatWriter(a, r, w), splatReader(a, r, rd)
			splatPair(a, r, ws, rs)
			// both defects must be seen
			b1, _ := r.Bad("INV-1")
			b2, _ := r.Bad("AXIS-3")
			if !(b1 && b2) {
				r.Findings = nil
			}
			return true
		}},
		{Rule: "LAY-2", Label: "control:splat-good", Want: ob.Holds, Run: func(r *sx.Rep) bool {
			w, rd := sfn("verifControlSplatGoodWrite"), sfn("verifControlSplatGoodRead")
			if w == nil || rd == nil {
				return false
			}
			ws := splatWriter(a, r, w)
			rs := splatReader(a, r, rd)
			splatPair(a, r, ws, rs)
			return true
		}},
		{Rule: "SYM-STRIDE", Label: "control:sh-bad", Want: ob.Violation, Run: func(r *sx.Rep) bool {
			f := method("verifControlReadShBad")
			if f == nil {
				return false
			}
			planeReader(a, r, f, "SH", hdrT, 0)
			return true
		}},
		{Rule: "SYM-STRIDE", Label: "control:sh-good", Want: ob.Holds, Run: func(r *sx.Rep) bool {
			f := method("verifControlReadShGood")
			if f == nil {
				return false
			}
			planeReader(a, r, f, "SH", hdrT, 0)
			return true
		}},
		{Rule: "SIGN-1", Label: "control:sign-bad", Want: ob.Violation, Run: func(r *sx.Rep) bool {
			f := method("verifControlReadPosBad")
			if f == nil {
				return false
			}
			planeReader(a, r, f, a.attr("PositionAttribute"), hdrT, 0)
			n := 0
			for _, fd := range r.Findings {
				if fd.Rule == "SIGN-1" && fd.V != ob.Holds {
					n++
				}
			}
			if n < 2 {
				r.Findings = nil
			}
			return true
		}},
		{Rule: "SIGN-1", Label: "control:sign-good", Want: ob.Holds, Run: func(r *sx.Rep) bool {
			f := method("verifControlReadPosGood")
			if f == nil {
				return false
			}
			planeReader(a, r, f, a.attr("PositionAttribute"), hdrT, 0)
			return true
		}},
	}
	sx.RunControls(c, "formats/splat+spz/zz_verif_control_c15.go", ctls)
}
