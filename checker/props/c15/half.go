package c15

import (
	"fmt"
	"go/constant"
	"go/token"
	"go/types"
	"math/big"

	"golang.org/x/tools/go/ssa"

	"polycheck/props/c07/sx"
	"polycheck/ssau"
)

// HALF-2: full IEEE 754 binary16 case analysis of the half-float decoder,
// decided on constants and structure. The function is abstractly interpreted
// over the classes  sign ∈ {0,1} × exponent field ∈ {0, 1..30, 31} × mantissa ∈
// {0, 1..1023}: branch conditions on the three bit fields are decided per
// class (sx.BoolEval), the return reached is evaluated symbolically to
//     c · 2^(a·e + b) · (c0 + c1·m)
// (exact rationals; math.Pow(2,·), math.Exp2, math.Ldexp, constant shifts,
// ·, /, +, − and class-resolved joins are followed) and compared with
//     e = 0      : ± m · 2^-24                (no implicit leading 1)
//     e = 1..30  : ± (1 + m/1024) · 2^(e−15)
//     e = 31     : ±Inf (m = 0) / NaN (m ≠ 0).
// Nothing is executed.

type halfField int

const (
	hfNone halfField = iota
	hfSign
	hfExp
	hfMant
)

func stripIntConv(v ssa.Value) ssa.Value {
	for {
		switch x := v.(type) {
		case *ssa.Convert:
			bt, ok1 := x.Type().Underlying().(*types.Basic)
			bf, ok2 := x.X.Type().Underlying().(*types.Basic)
			if ok1 && ok2 && bt.Info()&types.IsInteger != 0 && bf.Info()&types.IsInteger != 0 {
				v = x.X
				continue
			}
		case *ssa.ChangeType:
			v = x.X
			continue
		}
		return v
	}
}

// fieldExtract recognises (h >> s) & mask through integer conversions at any position.
func fieldExtract(v ssa.Value, h *ssa.Parameter) (shift, mask uint64, ok bool) {
	bo, isB := stripIntConv(v).(*ssa.BinOp)
	if !isB || bo.Op != token.AND {
		return 0, 0, false
	}
	m, isM := constU64(bo.Y)
	in := bo.X
	if !isM {
		m, isM = constU64(bo.X)
		in = bo.Y
	}
	if !isM {
		return 0, 0, false
	}
	in = stripIntConv(in)
	if sh, isS := in.(*ssa.BinOp); isS && sh.Op == token.SHR {
		s, okS := constU64(sh.Y)
		if !okS {
			return 0, 0, false
		}
		shift, in = s, stripIntConv(sh.X)
	}
	if in != ssa.Value(h) {
		return 0, 0, false
	}
	return shift, m, true
}

// halfFieldOf recognises (h>>15)&1, (h>>10)&0x1f, h&0x3ff through integer conversions.
func halfFieldOf(v ssa.Value, h *ssa.Parameter) halfField {
	shift, m, ok := fieldExtract(v, h)
	if !ok {
		return hfNone
	}
	switch {
	case shift == 15 && m == 1:
		return hfSign
	case shift == 10 && m == 0x1f:
		return hfExp
	case shift == 0 && m == 0x3ff:
		return hfMant
	}
	return hfNone
}

type halfCase struct {
	sign  int // 0, 1
	eCls  int // 0: e=0, 1: e in 1..30, 2: e=31
	mZero bool
}

func (c halfCase) String() string {
	e := [...]string{"exponent field 0 (subnormal/zero)", "exponent field 1..30 (normal)", "exponent field 31 (inf/NaN)"}[c.eCls]
	m := "mantissa ≠ 0"
	if c.mZero {
		m = "mantissa = 0"
	}
	return fmt.Sprintf("sign bit %d, %s, %s", c.sign, e, m)
}

// rng returns the value range of a field in a case.
func (c halfCase) rng(f halfField) (lo, hi int64) {
	switch f {
	case hfSign:
		return int64(c.sign), int64(c.sign)
	case hfExp:
		switch c.eCls {
		case 0:
			return 0, 0
		case 1:
			return 1, 30
		}
		return 31, 31
	case hfMant:
		if c.mZero {
			return 0, 0
		}
		return 1, 1023
	}
	return 0, -1
}

func cmpRange(op token.Token, lo, hi, c int64) sx.Tri {
	at := func(v int64) bool {
		switch op {
		case token.EQL:
			return v == c
		case token.NEQ:
			return v != c
		case token.LSS:
			return v < c
		case token.LEQ:
			return v <= c
		case token.GTR:
			return v > c
		case token.GEQ:
			return v >= c
		}
		return false
	}
	// monotone / point predicates: decide on the end points and, for ==/!=, on membership
	switch op {
	case token.EQL, token.NEQ:
		if c < lo || c > hi {
			if op == token.EQL {
				return sx.TF
			}
			return sx.TT
		}
		if lo == hi {
			if at(lo) {
				return sx.TT
			}
			return sx.TF
		}
		return sx.TU
	}
	a, b := at(lo), at(hi)
	if a && b {
		return sx.TT
	}
	if !a && !b {
		return sx.TF
	}
	return sx.TU
}

// hval: kind finite:  coef · 2^(expE·e + expC) · (c0 + c1·m)  (coef folded into c0,c1)
type hval struct {
	kind       int // 0 finite, 1 NaN, 2 +Inf, 3 −Inf
	expE, expC *big.Rat
	c0, c1     *big.Rat
}

func rat(i int64) *big.Rat { return big.NewRat(i, 1) }

func hconst(c *big.Rat) hval { return hval{expE: rat(0), expC: rat(0), c0: c, c1: rat(0)} }

type halfEval struct {
	fn    *ssa.Function
	h     *ssa.Parameter
	cs    halfCase
	be    *sx.BoolEval
	why   string
	depth int
}

func (g *halfEval) fail(format string, a ...any) (hval, bool) {
	if g.why == "" {
		g.why = fmt.Sprintf(format, a...)
	}
	return hval{}, false
}

func newHalfEval(fn *ssa.Function, cs halfCase) *halfEval {
	g := &halfEval{fn: fn, h: fn.Params[0], cs: cs}
	g.be = &sx.BoolEval{}
	g.be.Atom = func(v ssa.Value, ctx *sx.Ctx) (sx.Tri, bool) {
		bo, ok := v.(*ssa.BinOp)
		if !ok {
			return sx.TU, false
		}
		switch bo.Op {
		case token.EQL, token.NEQ, token.LSS, token.LEQ, token.GTR, token.GEQ:
		default:
			return sx.TU, false
		}
		x, y, op := bo.X, bo.Y, bo.Op
		if _, isC := x.(*ssa.Const); isC {
			x, y = y, x
			switch op {
			case token.LSS:
				op = token.GTR
			case token.GTR:
				op = token.LSS
			case token.LEQ:
				op = token.GEQ
			case token.GEQ:
				op = token.LEQ
			}
		}
		c, isC := ssau.ConstInt(y)
		if !isC {
			return sx.TU, false
		}
		f := halfFieldOf(x, g.h)
		if f == hfNone {
			return sx.TU, false
		}
		lo, hi := cs.rng(f)
		return cmpRange(op, lo, hi, c), true
	}
	return g
}

// edgeTaken: is the edge pred->blk taken in this case?
func (g *halfEval) edgeTaken(pred, blk *ssa.BasicBlock) sx.Tri {
	reach := g.be.Reached(pred, g.fn.Blocks[0], nil)
	if reach == sx.TF {
		return sx.TF
	}
	ec := sx.TT
	if iff, ok := pred.Instrs[len(pred.Instrs)-1].(*ssa.If); ok {
		c := g.be.Value(iff.Cond, nil)
		switch {
		case pred.Succs[0] == blk && pred.Succs[1] != blk:
			ec = c
		case pred.Succs[1] == blk && pred.Succs[0] != blk:
			ec = c.Not()
		}
	}
	switch {
	case ec == sx.TF:
		return sx.TF
	case reach == sx.TT && ec == sx.TT:
		return sx.TT
	}
	return sx.TU
}

func constRat(v ssa.Value) (*big.Rat, bool) {
	c, ok := v.(*ssa.Const)
	if !ok || c.Value == nil {
		return nil, false
	}
	switch c.Value.Kind() {
	case constant.Int, constant.Float:
		f := constant.ToFloat(c.Value)
		if f.Kind() != constant.Float && f.Kind() != constant.Int {
			return nil, false
		}
		r := new(big.Rat)
		if _, ok := r.SetString(f.ExactString()); ok {
			return r, true
		}
	}
	return nil, false
}

// affE evaluates an expression affine in the exponent field: a·e + b.
func (g *halfEval) affE(v ssa.Value) (a, b *big.Rat, ok bool) {
	g.depth++
	defer func() { g.depth-- }()
	if g.depth > 60 {
		return nil, nil, false
	}
	if c, isC := constRat(v); isC {
		return rat(0), c, true
	}
	if halfFieldOf(v, g.h) == hfExp {
		return rat(1), rat(0), true
	}
	switch x := v.(type) {
	case *ssa.Convert:
		return g.affE(x.X)
	case *ssa.ChangeType:
		return g.affE(x.X)
	case *ssa.UnOp:
		if x.Op == token.SUB {
			a, b, ok := g.affE(x.X)
			if !ok {
				return nil, nil, false
			}
			return new(big.Rat).Neg(a), new(big.Rat).Neg(b), true
		}
	case *ssa.BinOp:
		switch x.Op {
		case token.ADD, token.SUB:
			a1, b1, ok1 := g.affE(x.X)
			a2, b2, ok2 := g.affE(x.Y)
			if !ok1 || !ok2 {
				return nil, nil, false
			}
			if x.Op == token.ADD {
				return new(big.Rat).Add(a1, a2), new(big.Rat).Add(b1, b2), true
			}
			return new(big.Rat).Sub(a1, a2), new(big.Rat).Sub(b1, b2), true
		}
	case *ssa.Phi:
		if ed, ok := g.phiEdge(x); ok {
			return g.affE(ed)
		}
	}
	return nil, nil, false
}

func (g *halfEval) phiEdge(x *ssa.Phi) (ssa.Value, bool) {
	blk := x.Block()
	var pick ssa.Value
	for i, p := range blk.Preds {
		switch g.edgeTaken(p, blk) {
		case sx.TT:
			return x.Edges[i], true
		case sx.TU:
			if pick != nil && pick != x.Edges[i] {
				return nil, false
			}
			pick = x.Edges[i]
		}
	}
	return pick, pick != nil
}

func mulH(x, y hval) hval {
	out := hval{expE: new(big.Rat).Add(x.expE, y.expE), expC: new(big.Rat).Add(x.expC, y.expC)}
	out.c0 = new(big.Rat).Mul(x.c0, y.c0)
	out.c1 = new(big.Rat).Add(new(big.Rat).Mul(x.c0, y.c1), new(big.Rat).Mul(x.c1, y.c0))
	return out
}

func (g *halfEval) val(v ssa.Value) (hval, bool) {
	g.depth++
	defer func() { g.depth-- }()
	if g.depth > 60 {
		return g.fail("expression too deep")
	}
	if c, ok := constRat(v); ok {
		return hconst(c), true
	}
	switch halfFieldOf(v, g.h) {
	case hfMant:
		return hval{expE: rat(0), expC: rat(0), c0: rat(0), c1: rat(1)}, true
	case hfSign:
		return hconst(rat(int64(g.cs.sign))), true
	case hfExp:
		return g.fail("the exponent field is used outside a power of two")
	}
	switch x := v.(type) {
	case *ssa.Convert:
		// float64(uint(1) << k) style powers
		if sh, ok := x.X.(*ssa.BinOp); ok && sh.Op == token.SHL {
			if c, isC := constRat(sh.X); isC {
				if a, b, ok := g.affE(sh.Y); ok {
					return hval{expE: a, expC: b, c0: c, c1: rat(0)}, true
				}
			}
		}
		return g.val(x.X)
	case *ssa.ChangeType:
		return g.val(x.X)
	case *ssa.UnOp:
		if x.Op == token.SUB {
			y, ok := g.val(x.X)
			if !ok || y.kind != 0 {
				return y, ok
			}
			y.c0, y.c1 = new(big.Rat).Neg(y.c0), new(big.Rat).Neg(y.c1)
			return y, true
		}
		return g.fail("unary %s", x.Op)
	case *ssa.Phi:
		ed, ok := g.phiEdge(x)
		if !ok {
			return g.fail("a join is not decided by the bit-field classes")
		}
		return g.val(ed)
	case *ssa.BinOp:
		l, ok1 := g.val(x.X)
		if !ok1 {
			return l, false
		}
		r, ok2 := g.val(x.Y)
		if !ok2 {
			return r, false
		}
		if l.kind != 0 || r.kind != 0 {
			return g.fail("arithmetic on inf/NaN")
		}
		switch x.Op {
		case token.MUL:
			if l.c1.Sign() != 0 && r.c1.Sign() != 0 {
				return g.fail("mantissa squared")
			}
			return mulH(l, r), true
		case token.QUO:
			if r.c1.Sign() != 0 || r.c0.Sign() == 0 {
				return g.fail("division by a mantissa-dependent or zero value")
			}
			inv := hval{expE: new(big.Rat).Neg(r.expE), expC: new(big.Rat).Neg(r.expC), c0: new(big.Rat).Inv(r.c0), c1: rat(0)}
			return mulH(l, inv), true
		case token.ADD, token.SUB:
			if l.expE.Cmp(r.expE) != 0 || l.expC.Cmp(r.expC) != 0 {
				// bring to a common power only when both are pure constants powers (no e)
				if l.expE.Sign() != 0 || r.expE.Sign() != 0 || !l.expC.IsInt() || !r.expC.IsInt() {
					return g.fail("sum of terms with different powers of two")
				}
				l = foldPow(l)
				r = foldPow(r)
			}
			out := hval{expE: l.expE, expC: l.expC}
			if x.Op == token.ADD {
				out.c0, out.c1 = new(big.Rat).Add(l.c0, r.c0), new(big.Rat).Add(l.c1, r.c1)
			} else {
				out.c0, out.c1 = new(big.Rat).Sub(l.c0, r.c0), new(big.Rat).Sub(l.c1, r.c1)
			}
			return out, true
		}
		return g.fail("operator %s", x.Op)
	case *ssa.Call:
		obj := ssau.CalleeObj(x)
		if obj == nil || obj.Pkg() == nil || obj.Pkg().Path() != "math" {
			name := "?"
			if obj != nil {
				name = obj.Name()
			}
			return g.fail("call of %s", name)
		}
		args := x.Call.Args
		switch obj.Name() {
		case "NaN":
			return hval{kind: 1}, true
		case "Inf":
			s, ok := g.val(args[0])
			if !ok || s.kind != 0 || s.c1.Sign() != 0 {
				return g.fail("sign argument of math.Inf not decided")
			}
			if s.c0.Sign() >= 0 {
				return hval{kind: 2}, true
			}
			return hval{kind: 3}, true
		case "Pow":
			base, ok := constRat(args[0])
			if !ok {
				return g.fail("math.Pow with a non-constant base")
			}
			k, okP := log2Rat(base)
			if !okP {
				return g.fail("math.Pow base %s is not a power of two", base.RatString())
			}
			a, b, ok := g.affE(args[1])
			if !ok {
				return g.fail("math.Pow exponent is not affine in the exponent field")
			}
			kk := rat(k)
			return hval{expE: new(big.Rat).Mul(a, kk), expC: new(big.Rat).Mul(b, kk), c0: rat(1), c1: rat(0)}, true
		case "Exp2":
			a, b, ok := g.affE(args[0])
			if !ok {
				return g.fail("math.Exp2 argument is not affine in the exponent field")
			}
			return hval{expE: a, expC: b, c0: rat(1), c1: rat(0)}, true
		case "Ldexp":
			fr, ok := g.val(args[0])
			if !ok {
				return fr, false
			}
			a, b, ok := g.affE(args[1])
			if !ok {
				return g.fail("math.Ldexp exponent is not affine in the exponent field")
			}
			return mulH(fr, hval{expE: a, expC: b, c0: rat(1), c1: rat(0)}), true
		case "Float32frombits", "Float64frombits":
			return g.fail("re-packing through math.%s is not followed", obj.Name())
		case "Copysign":
			return g.fail("math.Copysign is not followed")
		}
		return g.fail("math.%s", obj.Name())
	}
	return g.fail("%T in the value expression", v)
}

// foldPow moves an integer constant power of two into the coefficients.
func foldPow(x hval) hval {
	k := x.expC.Num().Int64()
	f := pow2(k)
	return hval{expE: x.expE, expC: rat(0), c0: new(big.Rat).Mul(x.c0, f), c1: new(big.Rat).Mul(x.c1, f)}
}

func pow2(k int64) *big.Rat {
	one := big.NewInt(1)
	if k >= 0 {
		return new(big.Rat).SetInt(new(big.Int).Lsh(one, uint(k)))
	}
	return new(big.Rat).SetFrac(one, new(big.Int).Lsh(one, uint(-k)))
}

func log2Rat(r *big.Rat) (int64, bool) {
	if r.Sign() <= 0 {
		return 0, false
	}
	for k := int64(-64); k <= 64; k++ {
		if pow2(k).Cmp(r) == 0 {
			return k, true
		}
	}
	return 0, false
}

func ratStr(r *big.Rat) string {
	if k, ok := log2Rat(new(big.Rat).Abs(r)); ok && (k > 3 || k < -3) {
		s := ""
		if r.Sign() < 0 {
			s = "−"
		}
		return fmt.Sprintf("%s2^%d", s, k)
	}
	return r.RatString()
}

// halfCases decides HALF-2.
func halfCases(a *anchors, r *sx.Rep, fn *ssa.Function) {
	key := a.p.FuncName(fn)
	pos := a.p.Pos(fn.Pos())
	if len(fn.Params) != 1 {
		r.Undecide("HALF-2", key, pos, "unexpected signature")
		return
	}
	// loop-free
	for _, b := range fn.Blocks {
		for _, s := range b.Succs {
			if s.Dominates(b) {
				r.Undecide("HALF-2", key, pos, "the decoder contains a loop")
				return
			}
		}
	}
	var rets []*ssa.Return
	for _, b := range fn.Blocks {
		if len(b.Instrs) == 0 {
			continue
		}
		if ret, ok := b.Instrs[len(b.Instrs)-1].(*ssa.Return); ok && len(ret.Results) == 1 {
			rets = append(rets, ret)
		}
	}
	var facts []string
	for _, eCls := range []int{0, 1, 2} {
		for _, mZero := range []bool{true, false} {
			for _, sign := range []int{0, 1} {
				cs := halfCase{sign: sign, eCls: eCls, mZero: mZero}
				g := newHalfEval(fn, cs)
				var hit *ssa.Return
				undec := false
				for _, ret := range rets {
					switch g.be.Reached(ret.Block(), fn.Blocks[0], nil) {
					case sx.TT:
						if hit != nil {
							undec = true
						}
						hit = ret
					case sx.TU:
						undec = true
					}
				}
				if undec || hit == nil {
					r.Undecide("HALF-2", key, pos, "the return reached for "+cs.String()+" is not decided by comparisons of the three bit fields with constants")
					return
				}
				v, ok := g.val(hit.Results[0])
				if !ok {
					r.Undecide("HALF-2", key, a.p.Pos(hit.Pos()), "value expression for "+cs.String()+" not followed: "+g.why)
					return
				}
				sgn := rat(1)
				if sign == 1 {
					sgn = rat(-1)
				}
				switch eCls {
				case 2:
					want := 1
					wantS := "NaN"
					if mZero {
						want, wantS = 2+sign, [...]string{"+Inf", "−Inf"}[sign]
					}
					if v.kind != want {
						got := [...]string{"a finite value", "NaN", "+Inf", "−Inf"}[v.kind]
						r.Violate("HALF-2", key, a.p.Pos(hit.Pos()), fmt.Sprintf("binary16 with %s is %s; the decoder returns %s", cs.String(), wantS, got))
						return
					}
				default:
					if v.kind != 0 {
						r.Violate("HALF-2", key, a.p.Pos(hit.Pos()), "binary16 with "+cs.String()+" is finite; the decoder returns inf/NaN")
						return
					}
					// substitute the class: e = 0 for the subnormal class; m = 0 for the zero-mantissa class
					expE, expC := v.expE, v.expC
					if eCls == 0 {
						expE = rat(0)
					}
					if !expC.IsInt() || !expE.IsInt() {
						r.Undecide("HALF-2", key, a.p.Pos(hit.Pos()), "non-integral power of two for "+cs.String())
						return
					}
					f := pow2(expC.Num().Int64())
					t0, t1 := new(big.Rat).Mul(v.c0, f), new(big.Rat).Mul(v.c1, f)
					if mZero {
						t1 = rat(0)
					}
					var w0, w1, wE *big.Rat
					var law string
					if eCls == 0 {
						w0, w1, wE = rat(0), new(big.Rat).Mul(sgn, pow2(-24)), rat(0)
						law = "± m · 2^-24 (= 2^-14 · m/1024, no implicit leading 1)"
					} else {
						w0, w1, wE = new(big.Rat).Mul(sgn, pow2(-15)), new(big.Rat).Mul(sgn, pow2(-25)), rat(1)
						law = "± (1 + m/1024) · 2^(e−15)"
					}
					if mZero {
						w1 = rat(0)
					}
					if expE.Cmp(wE) != 0 || t0.Cmp(w0) != 0 || t1.Cmp(w1) != 0 {
						r.Violate("HALF-2", key, a.p.Pos(hit.Pos()), fmt.Sprintf("IEEE 754 binary16 with %s is %s; the decoder computes 2^(%s·e) · (%s + %s·m)", cs.String(), law, expE.RatString(), ratStr(t0), ratStr(t1)))
						return
					}
					if sign == 0 && !mZero {
						facts = append(facts, fmt.Sprintf("%s: 2^(%s·e)·(%s + %s·m)", [...]string{"e=0", "e=1..30"}[eCls], expE.RatString(), ratStr(t0), ratStr(t1)))
					}
				}
			}
		}
	}
	facts = append(facts, "e=31: ±Inf for m=0, NaN otherwise", "12 classes (sign × exponent class × mantissa zero/non-zero) evaluated symbolically")
	r.Hold("HALF-2", key, pos, facts...)
}
