package c15

import (
	"fmt"
	"go/constant"
	"go/token"
	"go/types"
	"math"
	"regexp"
	"sort"
	"strings"

	"golang.org/x/tools/go/ssa"

	"polycheck/props/c07/sx"
	"polycheck/ssau"
)

// ---------------------------------------------------------------------------
// DEQ-1: dequantisation maps of the SPZ planes (published constants)

type deqStep struct {
	kind opKind
	c    float64
}

func f64(v constant.Value) float64 {
	f, _ := constant.Float64Val(constant.ToFloat(v))
	return f
}

func near(a, b float64) bool {
	return math.Abs(a-b) <= 1e-12*math.Max(1, math.Max(math.Abs(a), math.Abs(b)))
}

// sameStep compares a chain op with a published step, identifying x·c with x/(1/c).
func sameStep(o chainOp, s deqStep) bool {
	if o.c == nil {
		return false
	}
	c := f64(o.c)
	switch {
	case o.kind == s.kind:
		return near(c, s.c)
	case o.kind == opMul && s.kind == opQuo, o.kind == opQuo && s.kind == opMul:
		return c != 0 && near(1/c, s.c)
	case o.kind == opAdd && s.kind == opSub, o.kind == opSub && s.kind == opAdd:
		return near(-c, s.c)
	}
	return false
}

func deqString(ss []deqStep) string {
	var parts []string
	for _, s := range ss {
		parts = append(parts, chainOp{kind: s.kind, c: constant.MakeFloat64(s.c)}.String())
	}
	return strings.Join(parts, " ")
}

func deq(a *anchors, r *sx.Rep, e *sx.Env, name, role string, stored ssa.Value, slots []ssa.Value, spec planeSpec, at token.Pos) {
	pos := a.p.Pos(at)
	var want []deqStep
	note := ""
	switch role {
	case a.attr("FDCAttribute"):
		want = []deqStep{{opQuo, 255}, {opSub, 0.5}, {opQuo, 0.15}}
	case a.attr("ScaleAttribute"):
		want = []deqStep{{opQuo, 16}, {opSub, 10}}
	case a.attr("RotationAttribute"):
		want = []deqStep{{opQuo, 127.5}, {opSub, 1}}
	case "SH":
		want = []deqStep{{opSub, 128}, {opQuo, 128}}
	case a.attr("OpacityAttribute"):
		want = []deqStep{{opQuo, 255}}
		note = "alpha is kept as byte/255 (the inverse sigmoid of the reference decoder is deliberately not applied by this code base; not judged)"
	case a.attr("PositionAttribute"):
		if spec.width > 1 {
			deqPositions(a, r, e, name, stored, pos)
		}
		return
	default:
		return
	}
	w := a.walker()
	w.envs[e.Fn] = e
	for k := int64(0); k < spec.comps; k++ {
		key := fmt.Sprintf("%s#slot%d", name, k)
		var ch chain
		if _, isVec := sx.IsVecType(stored.Type()); isVec {
			ch = w.vector(stored, int(k), nil)
		} else {
			ch = w.scalar(stored, nil)
		}
		if !ch.ok {
			r.Undecide("DEQ-1", key, pos, "dequantisation map not recognised: "+ch.why)
			continue
		}
		okD := len(ch.ops) == len(want)
		if okD {
			for i := range want {
				if !sameStep(ch.ops[i], want[i]) {
					okD = false
				}
			}
		}
		if okD {
			facts := []string{"byte ↦ " + ch.opsString() + " (published: " + deqString(want) + ")"}
			if note != "" {
				facts = append(facts, note)
			}
			r.Hold("DEQ-1", key, pos, facts...)
		} else {
			r.Violate("DEQ-1", key, pos, fmt.Sprintf("the %s plane dequantises as byte ↦ %s; the published map is %s", role, ch.opsString(), deqString(want)))
		}
	}
}

// deqPositions: fixed-point positions are scaled by 1/(1<<FractionalBits).
func deqPositions(a *anchors, r *sx.Rep, e *sx.Env, name string, stored ssa.Value, pos string) {
	key := name + "#scale"
	// find the Scale(…)/MultByConstant argument on the vector path
	var arg ssa.Value
	v := stored
	for i := 0; i < 16 && arg == nil; i++ {
		c, ok := v.(*ssa.Call)
		if !ok {
			break
		}
		obj := ssau.CalleeObj(c)
		if obj == nil || !isVecRecv(obj) {
			break
		}
		if obj.Name() == "Scale" || obj.Name() == "DivByConstant" {
			arg = c.Call.Args[1]
			if obj.Name() == "DivByConstant" {
				key += "/"
			}
			break
		}
		v = c.Call.Args[0]
	}
	if arg == nil {
		r.Undecide("DEQ-1", name+"#scale", pos, "the fixed-point positions are not scaled by a vector Scale / DivByConstant call")
		return
	}
	div := strings.HasSuffix(key, "/")
	key = strings.TrimSuffix(key, "/")
	hdrT := e.Fn.Params[0].Type()
	sl := sx.NewSlicer(nil).WithEnv(e)
	sl.From(arg, nil, nil)
	fr := sl.FieldReads(hdrT)
	fb := sx.FieldIndex(hdrT, "FractionalBits")
	st := hdrT.Underlying().(*types.Struct)
	okField := fb >= 0 && len(fr) == 1 && fr[st.Field(fb)]
	shl, recip := false, false
	for _, x := range sl.Values() {
		if bo, ok := x.(*ssa.BinOp); ok {
			if bo.Op == token.SHL {
				if c, isC := ssau.ConstInt(bo.X); isC && c == 1 {
					// the shift amount is the header field itself
					y := bo.Y
					for {
						if cv, ok := y.(*ssa.Convert); ok {
							y = cv.X
							continue
						}
						break
					}
					if ld, ok := y.(*ssa.UnOp); ok && ld.Op == token.MUL {
						if ad := sx.ResolveAddr(ld.X); len(ad.Path) == 1 && ad.Path[0] == fb {
							shl = true
						}
					}
				}
			}
			if bo.Op == token.QUO {
				if c := constOf(bo.X); c != nil && near(f64(c), 1) {
					recip = true
				}
			}
		}
	}
	switch {
	case !okField:
		r.Violate("DEQ-1", key, pos, "the position scale does not depend on Header.FractionalBits alone")
	case !shl:
		r.Violate("DEQ-1", key, pos, "the position scale is not derived from 1 << FractionalBits")
	case recip == div:
		r.Violate("DEQ-1", key, pos, "positions must be multiplied by 1/(1<<FractionalBits) (or divided by 1<<FractionalBits)")
	default:
		r.Hold("DEQ-1", key, pos, "fixed point ↦ ·1/(1<<Header.FractionalBits)")
	}
}

// ---------------------------------------------------------------------------
// HALF-1: bit fields of the IEEE half float decoder

func halfFloat(a *anchors, r *sx.Rep) {
	fn := a.p.Func(spzRel, "halfToFloat")
	if fn == nil || fn.Blocks == nil {
		a.c.R.Note("formats/spz.halfToFloat not found: HALF-1 not evaluated")
		return
	}
	key := a.p.FuncName(fn)
	pos := a.p.Pos(fn.Pos())
	if len(fn.Params) != 1 {
		r.Undecide("HALF-1", key, pos, "unexpected signature")
		return
	}
	h := fn.Params[0]
	// collect (shift, mask) extractions of the parameter
	type ext struct{ shift, mask uint64 }
	got := map[ext]bool{}
	ssau.AllInstrs(fn, func(in ssa.Instruction) {
		bo, ok := in.(*ssa.BinOp)
		if !ok || bo.Op != token.AND {
			return
		}
		if sh, m, ok := fieldExtract(bo, h); ok {
			got[ext{sh, m}] = true
		}
	})
	want := []ext{{10, 0x1f}, {0, 0x3ff}, {15, 0x1}}
	var desc []string
	for g := range got {
		desc = append(desc, fmt.Sprintf("(h>>%d)&%#x", g.shift, g.mask))
	}
	sort.Strings(desc)
	okH := len(got) == len(want)
	for _, w := range want {
		if !got[w] {
			okH = false
		}
	}
	defer halfCases(a, r, fn)
	if len(got) == 0 {
		r.Undecide("HALF-1", key, pos, "no (h >> s) & mask extraction of the parameter recognised")
		return
	}
	if okH {
		r.Hold("HALF-1", key, pos, "bit fields "+strings.Join(desc, ", ")+" = mantissa, exponent, sign of IEEE binary16")
	} else {
		r.Violate("HALF-1", key, pos, "IEEE binary16 is sign (h>>15)&1, exponent (h>>10)&0x1f, mantissa h&0x3ff; the decoder extracts "+strings.Join(desc, ", "))
	}
}

// ---------------------------------------------------------------------------
// PLY splat export: LAY-2 between SplatPly.Write and the default reader

type propEntry struct {
	typ    string // Vector3PropertyWriter, …
	dim    int
	fields map[string]string // field name -> constant string | "fmt:<format>(<arg>)" | "?"
	pos    token.Pos
	alloc  *ssa.Alloc
	fn     *ssa.Function
	fmtIdx map[string]ssa.Value // field -> the single integer argument of its fmt.Sprintf
}

var propTypeRe = regexp.MustCompile(`^Vector([1-4])Property(Writer|Reader)$`)

func propEntries(a *anchors, fn *ssa.Function, kind string) []propEntry {
	e := sx.NewEnv(fn)
	var out []propEntry
	ssau.AllInstrs(fn, func(in ssa.Instruction) {
		al, ok := in.(*ssa.Alloc)
		if !ok {
			return
		}
		n := ssau.NamedOf(al.Type())
		if n == nil || n.Obj().Pkg() != a.ply.Pkg {
			return
		}
		m := propTypeRe.FindStringSubmatch(n.Obj().Name())
		if m == nil || m[2] != kind {
			return
		}
		st := n.Underlying().(*types.Struct)
		pe := propEntry{typ: n.Obj().Name(), dim: int(m[1][0] - '0'), fields: map[string]string{}, pos: al.Pos(), alloc: al, fn: fn, fmtIdx: map[string]ssa.Value{}}
		for _, s := range e.Stores(al) {
			if len(s.Ad.Path) != 1 {
				continue
			}
			fname := st.Field(s.Ad.Path[0]).Name()
			switch v := s.St.Val.(type) {
			case *ssa.Const:
				if v.Value != nil && v.Value.Kind() == constant.String {
					pe.fields[fname] = constant.StringVal(v.Value)
				} else if v.Value != nil {
					pe.fields[fname] = v.Value.String()
				}
			case *ssa.Call:
				if ssau.IsFunc(ssau.CalleeObj(v), "fmt", "Sprintf") {
					f, _ := ssau.ConstString(v.Call.Args[0])
					arg := "?"
					if sl, ok := v.Call.Args[1].(*ssa.Slice); ok {
						if va, ok := sl.X.(*ssa.Alloc); ok {
							var parts []string
							sts := e.Stores(va)
							for _, vs := range sts {
								parts = append(parts, e.Int(stripIface(vs.St.Val)).String())
							}
							if len(sts) == 1 {
								pe.fmtIdx[fname] = stripIface(sts[0].St.Val)
							}
							arg = strings.Join(parts, ",")
						}
					}
					pe.fields[fname] = "fmt:" + f + "(" + arg + ")"
				} else {
					pe.fields[fname] = "?"
				}
			default:
				pe.fields[fname] = "?"
			}
		}
		out = append(out, pe)
	})
	return out
}

// flowsToGlobal: does the value (an alloc) end up, through stores / interface boxing / slicing, in the global?
func flowsToGlobal(start ssa.Value, g *ssa.Global) bool {
	seen := map[ssa.Value]bool{}
	work := []ssa.Value{start}
	for len(work) > 0 {
		v := work[len(work)-1]
		work = work[:len(work)-1]
		if seen[v] {
			continue
		}
		seen[v] = true
		if v == ssa.Value(g) {
			return true
		}
		refs := v.Referrers()
		if refs == nil {
			continue
		}
		for _, ref := range *refs {
			switch x := ref.(type) {
			case *ssa.MakeInterface:
				work = append(work, x)
			case *ssa.ChangeType:
				work = append(work, x)
			case *ssa.Slice:
				work = append(work, x)
			case *ssa.Phi:
				work = append(work, x)
			case *ssa.UnOp:
				if x.Op == token.MUL {
					work = append(work, x)
				}
			case *ssa.Store:
				if x.Val == v {
					ad := sx.ResolveAddr(x.Addr)
					if ad.Root != nil {
						work = append(work, ad.Root)
					}
					if ad.Slice != nil {
						work = append(work, ad.Slice)
					}
				}
			case *ssa.Call:
				if ssau.Builtin(x) == "append" {
					work = append(work, x)
				}
			}
		}
	}
	return false
}

func compNames(pe propEntry) ([]string, bool) {
	var keys []string
	if pe.dim == 1 {
		keys = []string{"PlyProperty"}
	} else {
		keys = []string{"PlyPropertyX", "PlyPropertyY", "PlyPropertyZ", "PlyPropertyW"}[:pe.dim]
	}
	var out []string
	for _, k := range keys {
		v, ok := pe.fields[k]
		if !ok {
			return nil, false
		}
		out = append(out, v)
	}
	return out, true
}

func plySplat(a *anchors, r *sx.Rep) {
	wfn := a.fn("formats/ply", "SplatPly.Write")
	rm := a.fn("formats/ply", "ReadMesh")
	if wfn == nil || rm == nil {
		return
	}
	wname := a.p.FuncName(wfn)
	// the reader configuration used by ReadMesh
	var g *ssa.Global
	ssau.AllInstrs(rm, func(in ssa.Instruction) {
		if ld, ok := in.(*ssa.UnOp); ok && ld.Op == token.MUL {
			if gg, ok := ld.X.(*ssa.Global); ok && ssau.IsNamed(gg.Type(), a.ply.Pkg.Path(), "MeshReader") {
				g = gg
			}
		}
	})
	if g == nil {
		r.Undecide("LAY-2", wname, a.p.Pos(rm.Pos()), "ply.ReadMesh does not use a package-level MeshReader configuration")
		return
	}
	initFn := a.ply.Func("init")
	if initFn == nil {
		a.c.R.Failf("formats/ply package initialiser not found")
		return
	}
	var readers []propEntry
	for _, pe := range propEntries(a, initFn, "Reader") {
		if flowsToGlobal(pe.alloc, g) {
			readers = append(readers, pe)
		}
	}
	// LoadUnspecifiedProperties of that configuration
	loadUnspec := false
	ie := sx.NewEnv(initFn)
	roots := []ssa.Value{g}
	ssau.AllInstrs(initFn, func(in ssa.Instruction) {
		if al, ok := in.(*ssa.Alloc); ok && ssau.IsNamed(al.Type(), a.ply.Pkg.Path(), "MeshReader") && flowsToGlobal(al, g) {
			roots = append(roots, al)
		}
	})
	if mr := ssau.NamedOf(g.Type()); mr != nil {
		if st, ok := mr.Underlying().(*types.Struct); ok {
			for _, root := range roots {
				for _, s := range ie.Stores(root) {
					if len(s.Ad.Path) == 1 && s.Ad.Path[0] < st.NumFields() && st.Field(s.Ad.Path[0]).Name() == "LoadUnspecifiedProperties" {
						if c, ok := s.St.Val.(*ssa.Const); ok && c.Value != nil && c.Value.String() == "true" {
							loadUnspec = true
						}
					}
				}
			}
		}
	}
	writers := propEntries(a, wfn, "Writer")
	// entries built by package-local helpers called from the export function
	seenHelper := map[*ssa.Function]bool{}
	ssau.AllInstrs(wfn, func(in ssa.Instruction) {
		c, ok := in.(*ssa.Call)
		if !ok {
			return
		}
		callee := c.Call.StaticCallee()
		if callee == nil || callee.Blocks == nil || callee.Pkg != a.ply || seenHelper[callee] || callee.Signature.Recv() != nil {
			return
		}
		seenHelper[callee] = true
		writers = append(writers, propEntries(a, callee, "Writer")...)
	})
	if len(writers) == 0 || len(readers) == 0 {
		r.Undecide("LAY-2", wname, a.p.Pos(wfn.Pos()), fmt.Sprintf("property tables not recognised (%d writer entries, %d default-reader entries)", len(writers), len(readers)))
		return
	}
	floatVal := "float"
	if c, ok := a.ply.Pkg.Scope().Lookup("Float").(*types.Const); ok && c.Val().Kind() == constant.String {
		floatVal = constant.StringVal(c.Val())
	}
	harmonicCount(a, r, wfn, writers)
	seenAttr := map[string]bool{}
	for _, w := range writers {
		attr := w.fields["ModelAttribute"]
		key := wname + "#" + attr
		pos := a.p.Pos(w.pos)
		if t := w.fields["Type"]; t != floatVal {
			r.Violate("LAY-2", key, pos, fmt.Sprintf("splat attributes are exported at float32 precision; property type is %q", t))
			continue
		}
		names, ok := compNames(w)
		if !ok {
			r.Violate("LAY-2", key, pos, "a component of "+attr+" has no PLY property name")
			continue
		}
		if strings.HasPrefix(attr, "fmt:") {
			// harmonics: attribute name and property name are the same formatted string, picked up by LoadUnspecifiedProperties
			key = wname + "#harmonics"
			switch {
			case w.dim != 1 || names[0] != attr:
				r.Violate("LAY-2", key, pos, fmt.Sprintf("harmonic attribute %s is written under a different property name %s: the default reader loads unspecified properties under the property's own name", attr, names[0]))
			case !loadUnspec:
				r.Violate("LAY-2", key, pos, "the default reader does not load unspecified properties: the harmonics written are dropped on read")
			default:
				r.Hold("LAY-2", key, pos, "attribute name = property name = "+attr+"; default reader has LoadUnspecifiedProperties = true")
			}
			continue
		}
		if attr == "" || attr == "?" {
			r.Undecide("LAY-2", wname+"#?", pos, "a property writer's ModelAttribute is not a constant")
			continue
		}
		seenAttr[attr] = true
		var sameSet []string
		found := false
		for _, rd := range readers {
			if rd.dim != w.dim || rd.fields["ModelAttribute"] != attr {
				continue
			}
			rn, ok := compNames(rd)
			if !ok {
				continue
			}
			if strings.Join(rn, ",") == strings.Join(names, ",") {
				found = true
				break
			}
			a1, a2 := append([]string{}, rn...), append([]string{}, names...)
			sort.Strings(a1)
			sort.Strings(a2)
			if strings.Join(a1, ",") == strings.Join(a2, ",") {
				sameSet = rn
			}
		}
		switch {
		case found:
			r.Hold("LAY-2", key, pos, fmt.Sprintf("Vector%d %s ↔ properties %s (type %s) on both sides, same component order", w.dim, attr, strings.Join(names, ","), floatVal))
		case sameSet != nil:
			r.Violate("AXIS-1", key, pos, fmt.Sprintf("components of %s are written as %s but the default reader reads them as %s", attr, strings.Join(names, ","), strings.Join(sameSet, ",")))
		default:
			r.Violate("LAY-2", key, pos, fmt.Sprintf("%s is written as a %d-vector under properties %s; the default reader has no %d-vector reader for %s with these names", attr, w.dim, strings.Join(names, ","), w.dim, attr))
		}
	}
	for _, s := range splatSpec {
		v := a.attr(s.attrConst)
		if !seenAttr[v] {
			r.Violate("LAY-2", wname+"#"+v, a.p.Pos(wfn.Pos()), "the splat attribute "+v+" is not exported")
		}
	}
}

var fRestRe = regexp.MustCompile(`^f_rest_(\d+)$`)

// harmonicCount decides SH-COUNT: the export emits exactly the property writers
// f_rest_0 … f_rest_(3·15−1): 3 colour channels × the 15 coefficients of SH
// degrees 1–3 (published 3DGS PLY layout; 15 is read from the SPZ
// ShDimensions table), contiguous from 0.
func harmonicCount(a *anchors, r *sx.Rep, wfn *ssa.Function, writers []propEntry) {
	key := a.p.FuncName(wfn) + "#harmonics.count"
	pos := a.p.Pos(wfn.Pos())
	maxDim := int64(15)
	src := "published table"
	if len(a.shTable) > 0 {
		maxDim = 0
		for _, v := range a.shTable {
			if v > maxDim {
				maxDim = v
			}
		}
		src = "max of spz.Header.ShDimensions"
	}
	want := 3 * maxDim
	consts := map[int64]bool{}
	var dyn []propEntry
	for _, w := range writers {
		attr := w.fields["ModelAttribute"]
		if m := fRestRe.FindStringSubmatch(attr); m != nil {
			var k int64
			fmt.Sscan(m[1], &k)
			consts[k] = true
		}
		if strings.HasPrefix(attr, "fmt:f_rest_%d(") {
			dyn = append(dyn, w)
		}
	}
	law := fmt.Sprintf("f_rest_0 … f_rest_%d (%d = 3 colour channels × %d coefficients, %s)", want-1, want, maxDim, src)
	switch {
	case len(dyn) == 0 && len(consts) == 0:
		r.Violate("SH-COUNT", key, pos, "no f_rest_<k> property writers are emitted; the splat PLY layout has "+law)
		return
	case len(dyn) == 0:
		okC := int64(len(consts)) == want
		for k := int64(0); k < want; k++ {
			if !consts[k] {
				okC = false
			}
		}
		if okC {
			r.Hold("SH-COUNT", key, pos, fmt.Sprintf("%d literal writers ", want)+law)
		} else {
			r.Violate("SH-COUNT", key, pos, fmt.Sprintf("%d literal f_rest writers are emitted; the layout has %s", len(consts), law))
		}
		return
	case len(dyn) > 1 || len(consts) > 0:
		r.Undecide("SH-COUNT", key, pos, "harmonics are emitted by more than one writer site")
		return
	}
	w := dyn[0]
	pos = a.p.Pos(w.pos)
	idx := w.fmtIdx["ModelAttribute"]
	if idx == nil {
		r.Undecide("SH-COUNT", key, pos, "the harmonic index is not a single integer argument of the name format")
		return
	}
	we := sx.NewEnv(wfn)
	var idxPoly sx.Poly
	var site ssa.Instruction = w.alloc
	if w.fn == wfn {
		idxPoly = we.Int(idx)
	} else {
		// built in a helper: the index must be (an offset of) a parameter bound at exactly one call site of the export function
		he := sx.NewEnv(w.fn)
		p := he.Int(idx)
		var param *ssa.Parameter
		for _, q := range w.fn.Params {
			if p.Has(q.Name()) {
				param = q
			}
		}
		if param == nil || len(p.Symbols()) != 1 {
			r.Undecide("SH-COUNT", key, pos, "the harmonic index built in helper "+w.fn.Name()+" is not one of its parameters")
			return
		}
		var calls []*ssa.Call
		ssau.AllInstrs(wfn, func(in ssa.Instruction) {
			if c, ok := in.(*ssa.Call); ok && c.Call.StaticCallee() == w.fn {
				calls = append(calls, c)
			}
		})
		if len(calls) != 1 {
			r.Undecide("SH-COUNT", key, pos, fmt.Sprintf("helper %s is called %d times", w.fn.Name(), len(calls)))
			return
		}
		var arg ssa.Value
		for i, q := range w.fn.Params {
			if q == param && i < len(calls[0].Call.Args) {
				arg = calls[0].Call.Args[i]
			}
		}
		if arg == nil {
			r.Undecide("SH-COUNT", key, pos, "helper argument not found")
			return
		}
		idxPoly = p.Subst(param.Name(), we.Int(arg))
		site = calls[0]
	}
	ivs, ok := we.EnclosingIVs(site.Block())
	if !ok || len(ivs) != 1 {
		r.Undecide("SH-COUNT", key, pos, "the harmonic writers are not emitted in one canonical counted loop")
		return
	}
	iv := ivs[0]
	for _, l := range iv.Loop.Latch {
		if !site.Block().Dominates(l) {
			r.Undecide("SH-COUNT", key, pos, "the harmonic writer is emitted conditionally inside the loop")
			return
		}
	}
	for _, x := range sx.LoopExitTargets(iv.Loop) {
		if x != iv.NormalExit() && !sx.ErrorOnly(x, nil) {
			r.Violate("SH-COUNT", key, pos, "the harmonics loop can be left early")
			return
		}
	}
	coef, rest, lin := idxPoly.Linear(iv.Sym)
	c1, isC1 := coef.IsConst()
	c0, isC0 := rest.IsConst()
	lo, isLo := iv.Lo.IsConst()
	hi, isHi := iv.Hi.IsConst()
	if !lin || !isC1 || !isC0 || !isLo || !isHi {
		r.Undecide("SH-COUNT", key, pos, fmt.Sprintf("index %s over [%s,%s) is not a constant range", idxPoly, iv.Lo, iv.Hi))
		return
	}
	if c1 != 1 {
		r.Violate("SH-COUNT", key, pos, fmt.Sprintf("harmonic indices advance in steps of %d; the layout has contiguous %s", c1, law))
		return
	}
	first, last := lo+c0, hi+c0-1
	if first == 0 && last == want-1 {
		r.Hold("SH-COUNT", key, pos, fmt.Sprintf("writers f_rest_%d … f_rest_%d emitted once each = ", first, last)+law)
	} else {
		r.Violate("SH-COUNT", key, pos, fmt.Sprintf("the export emits f_rest_%d … f_rest_%d (%d properties); the splat PLY layout has %s", first, last, last-first+1, law))
	}
}
