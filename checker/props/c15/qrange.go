package c15

import (
	"fmt"
	"go/constant"
	"go/token"
	"go/types"
	"math"
	"strings"

	"golang.org/x/tools/go/ssa"

	"polycheck/props"
	"polycheck/ssau"
)

// QRANGE-1 — every value the .splat writer narrows to a byte lies in [0, 256) for every finite input.
//
// "colour, opacity and rotation within one 8-bit step of the original (colours clamp to the displayable range)":
// a float that is converted to a byte outside [0, 256) does not clamp, it wraps (the conversion is
// implementation-defined; on amd64 256.0 becomes 0) — the value read back is then a full range away from the
// original. Decided by interval arithmetic over the SSA expression of each float→uint8 conversion in Write and the
// same-package functions it calls: constants, + − × ÷, negation, float conversions, math.Exp (≥ 0), math.Max /
// math.Min / the min / max builtins, component accessors of a vector clamped with Clamp(lo, hi), φ joins and the
// results of same-package helpers (parameters are unbounded). Attribute values read from the mesh are unbounded:
// the bound has to come from the expression itself (a clamp, a sigmoid), not from what inputs usually look like.
type ival struct{ lo, hi float64 }

var top = ival{math.Inf(-1), math.Inf(1)}

func (a ival) join(b ival) ival { return ival{math.Min(a.lo, b.lo), math.Max(a.hi, b.hi)} }

func mulB(x, y float64) float64 {
	if x == 0 || y == 0 {
		return 0 // 0 × ±Inf: the finite factor wins (inputs are finite; Inf only stands for "unbounded")
	}
	return x * y
}

func (a ival) mul(b ival) ival {
	c := []float64{mulB(a.lo, b.lo), mulB(a.lo, b.hi), mulB(a.hi, b.lo), mulB(a.hi, b.hi)}
	r := ival{c[0], c[0]}
	for _, v := range c[1:] {
		r.lo, r.hi = math.Min(r.lo, v), math.Max(r.hi, v)
	}
	return r
}

func (a ival) inv() ival {
	if a.lo <= 0 && a.hi >= 0 {
		return top
	}
	lo, hi := 1/a.hi, 1/a.lo
	return ival{math.Min(lo, hi), math.Max(lo, hi)}
}

func isFloat(t types.Type) bool {
	b, ok := t.Underlying().(*types.Basic)
	return ok && b.Info()&types.IsFloat != 0
}

type qr struct {
	pkg  *ssa.Package
	seen map[ssa.Value]bool
}

func (q *qr) iv(v ssa.Value, depth int) ival {
	if depth > 40 {
		return top
	}
	switch x := v.(type) {
	case *ssa.Const:
		if x.Value != nil && (x.Value.Kind() == constant.Float || x.Value.Kind() == constant.Int) {
			f, _ := constant.Float64Val(constant.ToFloat(x.Value))
			return ival{f, f}
		}
	case *ssa.Convert:
		if isFloat(x.X.Type()) && isFloat(x.Type()) {
			return q.iv(x.X, depth+1)
		}
	case *ssa.UnOp:
		if x.Op == token.SUB {
			a := q.iv(x.X, depth+1)
			return ival{-a.hi, -a.lo}
		}
	case *ssa.BinOp:
		if !isFloat(x.Type()) {
			return top
		}
		a, b := q.iv(x.X, depth+1), q.iv(x.Y, depth+1)
		switch x.Op {
		case token.ADD:
			return ival{a.lo + b.lo, a.hi + b.hi}
		case token.SUB:
			return ival{a.lo - b.hi, a.hi - b.lo}
		case token.MUL:
			return a.mul(b)
		case token.QUO:
			return a.mul(b.inv())
		}
	case *ssa.Phi:
		if q.seen[x] {
			return top
		}
		q.seen[x] = true
		defer delete(q.seen, x)
		r := ival{math.Inf(1), math.Inf(-1)}
		for _, e := range x.Edges {
			r = r.join(q.iv(e, depth+1))
		}
		return r
	case *ssa.Call:
		switch ssau.Builtin(x) {
		case "max":
			r := q.iv(x.Call.Args[0], depth+1)
			for _, a := range x.Call.Args[1:] {
				b := q.iv(a, depth+1)
				r = ival{math.Max(r.lo, b.lo), math.Max(r.hi, b.hi)}
			}
			return r
		case "min":
			r := q.iv(x.Call.Args[0], depth+1)
			for _, a := range x.Call.Args[1:] {
				b := q.iv(a, depth+1)
				r = ival{math.Min(r.lo, b.lo), math.Min(r.hi, b.hi)}
			}
			return r
		}
		o := ssau.CalleeObj(x)
		if o == nil {
			return top
		}
		if o.Pkg() != nil && o.Pkg().Path() == "math" && len(x.Call.Args) >= 1 {
			switch o.Name() {
			case "Exp", "Exp2", "Abs", "Sqrt":
				return ival{0, math.Inf(1)}
			case "Max":
				a, b := q.iv(x.Call.Args[0], depth+1), q.iv(x.Call.Args[1], depth+1)
				return ival{math.Max(a.lo, b.lo), math.Max(a.hi, b.hi)}
			case "Min":
				a, b := q.iv(x.Call.Args[0], depth+1), q.iv(x.Call.Args[1], depth+1)
				return ival{math.Min(a.lo, b.lo), math.Min(a.hi, b.hi)}
			case "Floor", "Ceil", "Round", "Trunc":
				a := q.iv(x.Call.Args[0], depth+1)
				return ival{math.Floor(a.lo), math.Ceil(a.hi)}
			}
			return top
		}
		// component of a clamped vector
		if rn := ssau.RecvNamed(o); rn != nil && rn.Obj().Pkg() != nil && strings.HasPrefix(rn.Obj().Pkg().Path(), "github.com/EliCDavis/vector") && len(x.Call.Args) == 1 {
			switch o.Name() {
			case "X", "Y", "Z", "W":
				if cl, ok := x.Call.Args[0].(*ssa.Call); ok {
					if co := ssau.CalleeObj(cl); co != nil && co.Name() == "Clamp" && len(cl.Call.Args) == 3 {
						if crn := ssau.RecvNamed(co); crn != nil && crn.Obj().Pkg() == rn.Obj().Pkg() {
							lo, hi := q.iv(cl.Call.Args[1], depth+1), q.iv(cl.Call.Args[2], depth+1)
							if lo.lo == lo.hi && hi.lo == hi.hi && lo.lo <= hi.lo {
								return ival{lo.lo, hi.lo}
							}
						}
					}
				}
			}
			return top
		}
		// same-package helper with one float result
		if callee := x.Call.StaticCallee(); callee != nil && callee.Blocks != nil && callee.Pkg == q.pkg && isFloat(x.Type()) && depth < 20 {
			r := ival{math.Inf(1), math.Inf(-1)}
			for _, b := range callee.Blocks {
				if ret, ok := b.Instrs[len(b.Instrs)-1].(*ssa.Return); ok && len(ret.Results) == 1 {
					r = r.join(q.iv(ret.Results[0], depth+10))
				}
			}
			if r.lo <= r.hi {
				return r
			}
		}
	}
	return top
}

func qrange(c *props.Ctx, w *ssa.Function) {
	p := c.P
	q := &qr{pkg: w.Pkg, seen: map[ssa.Value]bool{}}
	// Write and the same-package functions reachable from it
	var fns []*ssa.Function
	seen := map[*ssa.Function]bool{}
	var visit func(f *ssa.Function)
	visit = func(f *ssa.Function) {
		if f == nil || seen[f] || f.Blocks == nil || f.Pkg != w.Pkg {
			return
		}
		seen[f] = true
		fns = append(fns, f)
		for _, an := range f.AnonFuncs {
			visit(an)
		}
		ssau.AllInstrs(f, func(in ssa.Instruction) {
			if call, ok := in.(ssa.CallInstruction); ok {
				visit(call.Common().StaticCallee())
			}
		})
	}
	visit(w)
	for _, f := range fns {
		n := 0
		ssau.AllInstrs(f, func(in ssa.Instruction) {
			cv, ok := in.(*ssa.Convert)
			if !ok || !isFloat(cv.X.Type()) {
				return
			}
			b, ok := cv.Type().Underlying().(*types.Basic)
			if !ok || b.Kind() != types.Uint8 {
				return
			}
			n++
			construct := fmt.Sprintf("%s→byte#%d", p.FuncName(f), n)
			r := q.iv(cv.X, 0)
			if r.lo >= 0 && r.hi < 256 {
				c.R.Hold("QRANGE-1", construct, p.Pos(ssau.PosOf(cv)), fmt.Sprintf("the value narrowed to a byte lies in [%g, %g] for every input", r.lo, r.hi))
			} else {
				c.R.Violate("QRANGE-1", construct, p.Pos(ssau.PosOf(cv)), fmt.Sprintf("the value narrowed to a byte ranges over [%g, %g]: outside [0, 256) the conversion wraps instead of clamping (1.0·128+128 = 256 becomes 0), so the component read back is a full range away from the one written", r.lo, r.hi))
			}
		})
	}
	c.R.Floor("QRANGE-1", 4)
}
