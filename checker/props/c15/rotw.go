package c15

import (
	"fmt"
	"go/constant"
	"go/token"
	"go/types"

	"golang.org/x/tools/go/ssa"

	"polycheck/props/c07/sx"
	"polycheck/ssau"
)

// DEQ-2: the derived real part of an SPZ rotation. The published decoder is
//     w = sqrt(max(0, 1 − dot(xyz, xyz)))
// — the three stored components are quantised, so 1 − |xyz|² is slightly
// negative for representable inputs (half-turn rotations) and an un-clamped
// square root yields NaN. Decided on structure:
//   * the fourth constructor slot is math.Sqrt(c);
//   * c is clamped below at 0: math.Max(0, e), builtin max(0, e), or a join of e
//     and the constant 0 in which 0 is selected exactly when e < 0 (or e <= 0);
//   * e = 1 − (x²+y²+z²) as a polynomial identity in the three decoded
//     components (the SSA values of slots 0..2), in any association / order,
//     through Dot / LengthSquared of a vector built from them, math.Pow(·,2),
//     or a package-local helper.

type wEval struct {
	comps  [3]ssa.Value
	inline func(*ssa.Function) bool
	why    string
}

func (g *wEval) fail(format string, a ...any) (sx.Poly, bool) {
	if g.why == "" {
		g.why = fmt.Sprintf(format, a...)
	}
	return sx.Poly{}, false
}

func stripFloatConv(v ssa.Value) ssa.Value {
	for {
		switch x := v.(type) {
		case *ssa.Convert:
			bt, ok1 := x.Type().Underlying().(*types.Basic)
			bf, ok2 := x.X.Type().Underlying().(*types.Basic)
			if ok1 && ok2 && bt.Info()&types.IsFloat != 0 && bf.Info()&types.IsFloat != 0 {
				v = x.X
				continue
			}
		case *ssa.ChangeType:
			v = x.X
			continue
		}
		return v
	}
}

func intConst(v ssa.Value) (int64, bool) {
	c, ok := v.(*ssa.Const)
	if !ok || c.Value == nil {
		return 0, false
	}
	switch c.Value.Kind() {
	case constant.Int, constant.Float:
		return constant.Int64Val(constant.ToInt(c.Value))
	}
	return 0, false
}

func (g *wEval) scal(v ssa.Value, ctx *sx.Ctx, depth int) (sx.Poly, bool) {
	if depth > 40 {
		return g.fail("expression too deep")
	}
	v = stripFloatConv(v)
	if rv := resolveGetter(v); rv != v {
		v = stripFloatConv(rv)
	}
	for k, c := range g.comps {
		if v == c || v == stripFloatConv(c) {
			return sx.Sym(string("xyz"[k])), true
		}
	}
	if i, ok := intConst(v); ok {
		return sx.Const(i), true
	}
	switch x := v.(type) {
	case *ssa.Parameter:
		if nv, nctx := bindParam(x, ctx); nv != ssa.Value(x) {
			return g.scal(nv, nctx, depth+1)
		}
		return g.fail("free parameter %s", x.Name())
	case *ssa.UnOp:
		if x.Op == token.SUB {
			p, ok := g.scal(x.X, ctx, depth+1)
			return p.Neg(), ok
		}
	case *ssa.BinOp:
		switch x.Op {
		case token.ADD, token.SUB, token.MUL:
			l, ok1 := g.scal(x.X, ctx, depth+1)
			if !ok1 {
				return l, false
			}
			r, ok2 := g.scal(x.Y, ctx, depth+1)
			if !ok2 {
				return r, false
			}
			switch x.Op {
			case token.ADD:
				return l.Add(r), true
			case token.SUB:
				return l.Sub(r), true
			}
			return l.Mul(r), true
		}
		return g.fail("operator %s", x.Op)
	case *ssa.Call:
		obj := ssau.CalleeObj(x)
		args := x.Call.Args
		switch {
		case obj != nil && isVecRecv(obj) && obj.Name() == "Dot" && len(args) == 2:
			l, ok1 := g.vec(args[0], ctx, depth+1)
			r, ok2 := g.vec(args[1], ctx, depth+1)
			if !ok1 || !ok2 || len(l) != len(r) {
				return g.fail("Dot of vectors that are not built from the decoded components")
			}
			var s sx.Poly
			for i := range l {
				s = s.Add(l[i].Mul(r[i]))
			}
			return s, true
		case obj != nil && isVecRecv(obj) && obj.Name() == "LengthSquared" && len(args) == 1:
			l, ok := g.vec(args[0], ctx, depth+1)
			if !ok {
				return g.fail("LengthSquared of a vector that is not built from the decoded components")
			}
			var s sx.Poly
			for i := range l {
				s = s.Add(l[i].Mul(l[i]))
			}
			return s, true
		case obj != nil && obj.Pkg() != nil && obj.Pkg().Path() == "math" && obj.Name() == "Pow" && len(args) == 2:
			if k, ok := intConst(args[1]); ok && k >= 0 && k <= 4 {
				b, ok := g.scal(args[0], ctx, depth+1)
				if !ok {
					return b, false
				}
				out := sx.Const(1)
				for i := int64(0); i < k; i++ {
					out = out.Mul(b)
				}
				return out, true
			}
			return g.fail("math.Pow with a non-integer exponent")
		}
		if callee := x.Call.StaticCallee(); callee != nil && callee.Blocks != nil && g.inline != nil && g.inline(callee) {
			if rv, ok := singleReturn(callee); ok && (ctx == nil || ctx.Depth < 4) {
				d := 0
				if ctx != nil {
					d = ctx.Depth
				}
				return g.scal(rv, &sx.Ctx{Call: x, Parent: ctx, Depth: d + 1}, depth+1)
			}
		}
		n := "?"
		if obj != nil {
			n = obj.Name()
		}
		return g.fail("call of %s", n)
	}
	return g.fail("%T in the expression", v)
}

func (g *wEval) vec(v ssa.Value, ctx *sx.Ctx, depth int) ([]sx.Poly, bool) {
	for i := 0; i < 8; i++ {
		switch x := v.(type) {
		case *ssa.ChangeType:
			v = x.X
			continue
		case *ssa.Parameter:
			nv, nctx := bindParam(x, ctx)
			if nv == ssa.Value(x) {
				return nil, false
			}
			v, ctx = nv, nctx
			continue
		case *ssa.Call:
			obj := ssau.CalleeObj(x)
			if dim, ok := sx.VecNew(obj); ok && len(x.Call.Args) == dim {
				out := make([]sx.Poly, dim)
				for k := 0; k < dim; k++ {
					p, ok := g.scal(x.Call.Args[k], ctx, depth+1)
					if !ok {
						return nil, false
					}
					out[k] = p
				}
				return out, true
			}
			if obj != nil && isVecRecv(obj) && (obj.Name() == "ToFloat64" || obj.Name() == "ToFloat32") {
				v = x.Call.Args[0]
				continue
			}
		}
		return nil, false
	}
	return nil, false
}

func isFloatZero(v ssa.Value) bool {
	c, ok := stripFloatConv(v).(*ssa.Const)
	if !ok || c.Value == nil {
		return false
	}
	switch c.Value.Kind() {
	case constant.Int, constant.Float:
		return constant.Sign(c.Value) == 0
	}
	return false
}

// clampAtZero recognises max(0, e) in its three idioms and returns e.
func clampAtZero(v ssa.Value) (inner ssa.Value, how string, ok bool) {
	v = stripFloatConv(v)
	switch x := v.(type) {
	case *ssa.Call:
		args := x.Call.Args
		if o := ssau.CalleeObj(x); o != nil && o.Pkg() != nil && o.Pkg().Path() == "math" && o.Name() == "Max" && len(args) == 2 {
			switch {
			case isFloatZero(args[0]):
				return args[1], "math.Max(0, e)", true
			case isFloatZero(args[1]):
				return args[0], "math.Max(e, 0)", true
			}
		}
		if ssau.Builtin(x) == "max" && len(args) == 2 {
			switch {
			case isFloatZero(args[0]):
				return args[1], "max(0, e)", true
			case isFloatZero(args[1]):
				return args[0], "max(e, 0)", true
			}
		}
	case *ssa.Phi:
		if len(x.Edges) != 2 {
			return nil, "", false
		}
		iz := -1
		for i, ed := range x.Edges {
			if isFloatZero(ed) {
				iz = i
			}
		}
		if iz < 0 || isFloatZero(x.Edges[1-iz]) {
			return nil, "", false
		}
		e := x.Edges[1-iz]
		blk := x.Block()
		pz := blk.Preds[iz]
		// the branch that selects the zero edge
		var iff *ssa.If
		onTrue := false
		if i2, ok := pz.Instrs[len(pz.Instrs)-1].(*ssa.If); ok && (pz.Succs[0] == blk) != (pz.Succs[1] == blk) {
			iff, onTrue = i2, pz.Succs[0] == blk
		} else if len(pz.Preds) == 1 {
			cb := pz.Preds[0]
			if i2, ok := cb.Instrs[len(cb.Instrs)-1].(*ssa.If); ok && (cb.Succs[0] == pz) != (cb.Succs[1] == pz) {
				iff, onTrue = i2, cb.Succs[0] == pz
			}
		}
		if iff == nil {
			return nil, "", false
		}
		cmp, ok := iff.Cond.(*ssa.BinOp)
		if !ok {
			return nil, "", false
		}
		cx, cy, op := stripFloatConv(cmp.X), stripFloatConv(cmp.Y), cmp.Op
		if isFloatZero(cx) {
			cx, cy = cy, cx
			switch op {
			case token.LSS:
				op = token.GTR
			case token.GTR:
				op = token.LSS
			case token.LEQ:
				op = token.GEQ
			case token.GEQ:
				op = token.LEQ
			}
		}
		if !isFloatZero(cy) || cx != stripFloatConv(e) {
			return nil, "", false
		}
		if !onTrue {
			switch op {
			case token.LSS:
				op = token.GEQ
			case token.LEQ:
				op = token.GTR
			case token.GTR:
				op = token.LEQ
			case token.GEQ:
				op = token.LSS
			}
		}
		// zero selected when e OP 0
		if op == token.LSS || op == token.LEQ {
			return e, "if e " + op.String() + " 0 { e = 0 }", true
		}
		return nil, "", false
	}
	return nil, "", false
}

// rotW decides DEQ-2 for the derived fourth component of a rotation.
func rotW(a *anchors, r *sx.Rep, name string, slots []ssa.Value, at token.Pos) {
	if len(slots) != 4 {
		return
	}
	key := name + "#slot3"
	pos := a.p.Pos(at)
	w := stripFloatConv(slots[3])
	sq, ok := w.(*ssa.Call)
	isSqrt := false
	if ok {
		if o := ssau.CalleeObj(sq); o != nil && o.Pkg() != nil && o.Pkg().Path() == "math" && o.Name() == "Sqrt" && len(sq.Call.Args) == 1 {
			isSqrt = true
		}
	}
	if !isSqrt {
		r.Undecide("DEQ-2", key, pos, "the derived real part of the rotation is not of the form math.Sqrt(…)")
		return
	}
	g := &wEval{comps: [3]ssa.Value{slots[0], slots[1], slots[2]}, inline: func(f *ssa.Function) bool { return f.Pkg == a.spz }}
	want := sx.Const(1).Sub(sx.Sym("x").Mul(sx.Sym("x"))).Sub(sx.Sym("y").Mul(sx.Sym("y"))).Sub(sx.Sym("z").Mul(sx.Sym("z")))
	arg := sq.Call.Args[0]
	inner, how, clamped := clampAtZero(arg)
	if !clamped {
		// un-clamped: a violation when the argument is the bare 1 − |xyz|²
		if p, ok := g.scal(arg, nil, 0); ok {
			if p.Equal(want) {
				r.Violate("DEQ-2", key, pos, "w = sqrt(1 − |xyz|²) without a clamp at 0: the stored components are quantised, so 1 − |xyz|² is negative for representable byte triples (e.g. cc 80 e6 → −0.006) and the real part decodes as NaN; the published decoder takes sqrt(max(0, 1 − dot(xyz, xyz)))")
			} else {
				r.Violate("DEQ-2", key, pos, fmt.Sprintf("w = sqrt(%s), un-clamped and not 1 − (x²+y²+z²); the published decoder takes sqrt(max(0, 1 − dot(xyz, xyz)))", p))
			}
			return
		}
		r.Undecide("DEQ-2", key, pos, "the argument of the square root is neither a recognised clamp at 0 (math.Max / max / if e < 0 { e = 0 }) nor an expression the rule follows: "+g.why)
		return
	}
	p, ok := g.scal(inner, nil, 0)
	if !ok {
		r.Undecide("DEQ-2", key, pos, "clamped by "+how+", but the clamped expression is not followed: "+g.why)
		return
	}
	if !p.Equal(want) {
		r.Violate("DEQ-2", key, pos, fmt.Sprintf("w = sqrt(max(0, %s)); the published decoder takes 1 − (x²+y²+z²) of the three decoded components", p))
		return
	}
	r.Hold("DEQ-2", key, pos, "w = sqrt(clamp₀(1 − x² − y² − z²)), clamp: "+how+" (polynomial identity in the three decoded components)")
}
