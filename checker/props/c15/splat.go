package c15

import (
	"fmt"
	"go/token"
	"go/types"
	"sort"
	"strings"

	"golang.org/x/tools/go/ssa"

	"polycheck/props/c07/sx"
	"polycheck/ssau"
)

// recField is one scalar field of a fixed-size record, as seen by one side of the codec.
type recField struct {
	attr  string
	comp  int // component ordinal within the attribute (axis on the write side, constructor slot on the read side)
	off   int64
	size  int64
	ch    chain
	pos   token.Pos
	order *ssa.Global
}

type recSide struct {
	fn      *ssa.Function
	fields  []recField
	recLen  int64
	ok      bool
	orderOK bool
}

func (s *recSide) byAttr() map[string][]recField {
	m := map[string][]recField{}
	for _, f := range s.fields {
		m[f.attr] = append(m[f.attr], f)
	}
	for k := range m {
		fs := m[k]
		sort.SliceStable(fs, func(i, j int) bool { return fs[i].comp < fs[j].comp })
	}
	return m
}

// spec of the .splat record (antimatter15/splat convert.py): the published layout.
var splatSpec = []struct {
	attrConst string
	off, size int64
	n         int
}{
	{"PositionAttribute", 0, 4, 3},
	{"ScaleAttribute", 12, 4, 3},
	{"FDCAttribute", 24, 1, 3},
	{"OpacityAttribute", 27, 1, 1},
	{"RotationAttribute", 28, 1, 4},
}

const splatRecordLen = 32

func meshParamOf(a *anchors, fn *ssa.Function) *ssa.Parameter {
	for _, p := range fn.Params {
		if n, ok := p.Type().(*types.Named); ok && n.Obj().Name() == "Mesh" && n.Obj().Pkg() == a.modeling {
			return p
		}
	}
	return nil
}

func streamParamOf(fn *ssa.Function) *ssa.Parameter {
	for _, p := range fn.Params {
		if it, ok := p.Type().Underlying().(*types.Interface); ok {
			for i := 0; i < it.NumMethods(); i++ {
				if n := it.Method(i).Name(); n == "Read" || n == "Write" {
					return p
				}
			}
		}
	}
	return nil
}

// splatWriter analyses the record writer: SYM-BYTES, AXIS-3, and the per-field table.
func splatWriter(a *anchors, r *sx.Rep, fn *ssa.Function) *recSide {
	side := &recSide{fn: fn}
	name := a.p.FuncName(fn)
	pos := a.p.Pos(fn.Pos())
	e := sx.NewEnv(fn)
	mesh := meshParamOf(a, fn)
	out := streamParamOf(fn)
	if mesh == nil || out == nil {
		r.Undecide("SYM-BYTES", name, pos, "no (io.Writer, modeling.Mesh) parameters")
		return side
	}
	var ops []*sx.IOOp
	for _, op := range e.FindIO(nil) {
		ops = append(ops, op)
	}
	// other emitting methods of the typed writer make the size undecidable
	var other *ssa.Call
	ssau.AllInstrs(fn, func(in ssa.Instruction) {
		if c, ok := in.(*ssa.Call); ok {
			if callee := c.Call.StaticCallee(); callee != nil && sx.IsTypedWriterOther(callee) {
				other = c
			}
		}
	})
	if other != nil {
		r.Undecide("SYM-BYTES", name, a.p.Pos(other.Pos()), "a variable-size method of bitlib.Writer is used; the record size is not decided")
		return side
	}
	if len(ops) == 0 {
		r.Undecide("SYM-BYTES", name, pos, "no typed write recognised")
		return side
	}
	if !sx.TotallyOrdered(ops) {
		r.Undecide("SYM-BYTES", name, pos, "the writes of a record are not totally ordered (conditional layout)")
		return side
	}
	// one typed writer created from the output parameter with little-endian order
	var stream ssa.Value
	for _, op := range ops {
		if op.Kind != sx.IOTyped {
			r.Undecide("SYM-BYTES", name, a.p.Pos(op.Call.Pos()), "mixed stream operations ("+op.Kind.String()+") in the record writer")
			return side
		}
		if stream == nil {
			stream = op.Stream
		} else if stream != op.Stream {
			r.Undecide("SYM-BYTES", name, a.p.Pos(op.Call.Pos()), "more than one writer object")
			return side
		}
	}
	nw, ok := stream.(*ssa.Call)
	if !ok || !ssau.IsFunc(ssau.CalleeObj(nw), "github.com/EliCDavis/bitlib", "NewWriter") || len(nw.Call.Args) != 2 {
		r.Undecide("SYM-BYTES", name, pos, "the typed writer is not created by bitlib.NewWriter in this function")
		return side
	}
	if stripIface(nw.Call.Args[0]) != ssa.Value(out) {
		r.Violate("SYM-BYTES", name, a.p.Pos(nw.Pos()), "the typed writer does not write to the function's output parameter")
		return side
	}
	var order *ssa.Global
	if ld, ok := stripIface(nw.Call.Args[1]).(*ssa.UnOp); ok && ld.Op == token.MUL {
		order, _ = ld.X.(*ssa.Global)
	}
	side.orderOK = order != nil
	// all in one counted loop, each executed every iteration
	lp := ops[0].Loop
	for _, op := range ops {
		if op.Loop == nil || op.Loop != lp || len(e.LoopsOf(op.Call.Block())) != 1 {
			r.Undecide("SYM-BYTES", name, a.p.Pos(op.Call.Pos()), "the record writes are not all inside one canonical counted loop")
			return side
		}
		for _, l := range lp.Loop.Latch {
			if !op.Call.Block().Dominates(l) {
				r.Undecide("SYM-BYTES", name, a.p.Pos(op.Call.Pos()), "a record write is conditional inside the loop")
				return side
			}
		}
	}
	for _, x := range sx.LoopExitTargets(lp.Loop) {
		if x != lp.NormalExit() && !sx.ErrorOnly(x, nil) {
			r.Violate("SYM-BYTES", name, a.p.Pos(lp.Phi.Pos()), "the record loop can be left early on a success path: fewer records than splats")
			return side
		}
	}
	// record count = a count accessor of the mesh
	trip := lp.Trip()
	cntOK := false
	ssau.AllInstrs(fn, func(in ssa.Instruction) {
		if c, ok := in.(*ssa.Call); ok && (a.isMeshMethod(c, "PrimitiveCount") || a.isMeshMethod(c, "AttributeLength")) && c.Call.Args[0] == ssa.Value(mesh) {
			if e.Int(c).Equal(trip) {
				cntOK = true
			}
		}
	})
	// success returns: after the loop, or the empty-cloud guard before anything is written
	guardFacts := []string{}
	for _, ret := range sx.SuccessReturns(fn) {
		if lp.Loop.Header.Dominates(ret.Block()) {
			continue
		}
		if g := emptyGuard(a, ret, mesh); g != "" {
			guardFacts = append(guardFacts, "early success return under "+g+" writes nothing")
			continue
		}
		r.Violate("SYM-BYTES", name, a.p.Pos(ret.Pos()), "a success return bypasses the record loop without being guarded by an empty cloud")
		return side
	}
	// sizes
	off := int64(0)
	for _, op := range ops {
		b, err := e.Bytes(op)
		if err != nil {
			r.Undecide("SYM-BYTES", name, a.p.Pos(op.Call.Pos()), err.Error())
			return side
		}
		sz, _ := b.IsConst()
		f := recField{off: off, size: sz, pos: op.Call.Pos(), order: order}
		off += sz
		w := a.walker()
		f.ch = w.scalar(op.Data, nil)
		if f.ch.ok && f.ch.src.kind == srcAttr {
			f.attr, f.comp = f.ch.src.attr, f.ch.axis
			if f.comp < 0 {
				f.comp = 0
			}
		}
		side.fields = append(side.fields, f)
	}
	side.recLen = off
	switch {
	case !cntOK:
		r.Violate("SYM-BYTES", name, a.p.Pos(lp.Phi.Pos()), fmt.Sprintf("the record loop runs %s times; it must run once per splat (PrimitiveCount / AttributeLength of the mesh)", trip))
	case off != splatRecordLen:
		r.Violate("SYM-BYTES", name, pos, fmt.Sprintf("one record is %d bytes; a .splat record is 6×float32 + 8 bytes = %d", off, splatRecordLen), sizesFact(side))
	default:
		facts := append([]string{fmt.Sprintf("bytes emitted = %d·%s", off, trip), sizesFact(side)}, guardFacts...)
		r.Hold("SYM-BYTES", name, pos, facts...)
	}
	// per field: source resolved, index is the loop's record ordinal, same mesh
	for i, f := range side.fields {
		key := fmt.Sprintf("%s#write%d", name, i)
		p := a.p.Pos(f.pos)
		switch {
		case f.ch.swizzle:
			r.Violate("AXIS-1", key, p, "the value written passes through a component-permuting vector method")
		case !f.ch.ok:
			r.Undecide("LAY-2", key, p, "value map not recognised: "+f.ch.why)
		case f.ch.src.kind != srcAttr:
			r.Undecide("LAY-2", key, p, "the value written is not taken from a mesh attribute")
		case f.ch.src.mesh != ssa.Value(mesh):
			r.Violate("SHAPE-2", key, p, "the attribute is taken from a different mesh value")
		case !e.Int(f.ch.src.index).Equal(sx.Sym(lp.Sym).Sub(lp.Lo)):
			r.Violate("SHAPE-2", key, p, fmt.Sprintf("record %s − (%s) is built from element %s of attribute %s", lp.Sym, lp.Lo, e.Int(f.ch.src.index), f.attr))
		default:
			continue
		}
		return side
	}
	side.ok = true
	// AXIS-3: components of one attribute are written in axis order, contiguously
	by := side.byAttr()
	var attrs []string
	for k := range by {
		attrs = append(attrs, k)
	}
	sort.Strings(attrs)
	for _, at := range attrs {
		fs := by[at]
		key := name + "#" + at
		okAxis := true
		for i, f := range fs {
			if f.comp != i {
				okAxis = false
			}
			if i > 0 && f.off != fs[i-1].off+fs[i-1].size {
				okAxis = false
			}
		}
		var desc []string
		for _, f := range fs {
			desc = append(desc, fmt.Sprintf("%s@%d", sx.AxisName(f.comp), f.off))
		}
		if okAxis {
			r.Hold("AXIS-3", key, a.p.Pos(fs[0].pos), "components written in axis order, contiguously: "+strings.Join(desc, " "))
		} else {
			r.Violate("AXIS-3", key, a.p.Pos(fs[0].pos), "components of "+at+" are not written once each in axis order at consecutive offsets: "+strings.Join(desc, " "))
		}
	}
	return side
}

func sizesFact(s *recSide) string {
	var parts []string
	for _, f := range s.fields {
		parts = append(parts, fmt.Sprintf("%d", f.size))
	}
	return "field sizes " + strings.Join(parts, "+")
}

func stripIface(v ssa.Value) ssa.Value {
	for {
		switch x := v.(type) {
		case *ssa.MakeInterface:
			v = x.X
		case *ssa.ChangeType:
			v = x.X
		case *ssa.ChangeInterface:
			v = x.X
		default:
			return v
		}
	}
}

// emptyGuard recognises `if mesh.AttributeLength() == 0 { return nil }` (or PrimitiveCount).
func emptyGuard(a *anchors, ret *ssa.Return, mesh *ssa.Parameter) string {
	b := ret.Block()
	if len(b.Preds) != 1 {
		return ""
	}
	p := b.Preds[0]
	iff, ok := p.Instrs[len(p.Instrs)-1].(*ssa.If)
	if !ok {
		return ""
	}
	cmp, ok := iff.Cond.(*ssa.BinOp)
	if !ok {
		return ""
	}
	x, y := cmp.X, cmp.Y
	if _, isC := x.(*ssa.Const); isC {
		x, y = y, x
	}
	c, isC := ssau.ConstInt(y)
	call, isCall := x.(*ssa.Call)
	if !isC || c != 0 || !isCall || len(call.Call.Args) == 0 || call.Call.Args[0] != ssa.Value(mesh) {
		return ""
	}
	var acc string
	switch {
	case a.isMeshMethod(call, "AttributeLength"):
		acc = "AttributeLength"
	case a.isMeshMethod(call, "PrimitiveCount"):
		acc = "PrimitiveCount"
	default:
		return ""
	}
	onTrue := p.Succs[0] == b
	switch {
	case cmp.Op == token.EQL && onTrue, cmp.Op == token.NEQ && !onTrue, cmp.Op == token.LEQ && onTrue, cmp.Op == token.GTR && !onTrue:
		return "mesh." + acc + "() == 0"
	}
	return ""
}

// appendedElems follows a slice value back through phis and append calls and
// returns the element values appended to it.
func appendedElems(e *sx.Env, v ssa.Value) (elems []ssa.Value, ok bool) {
	seen := map[ssa.Value]bool{}
	ok = true
	var walk func(v ssa.Value)
	walk = func(v ssa.Value) {
		if seen[v] {
			return
		}
		seen[v] = true
		switch x := v.(type) {
		case *ssa.Phi:
			for _, ed := range x.Edges {
				walk(ed)
			}
		case *ssa.Call:
			if ssau.Builtin(x) != "append" || len(x.Call.Args) != 2 {
				ok = false
				return
			}
			walk(x.Call.Args[0])
			// varargs array
			sl, isSl := x.Call.Args[1].(*ssa.Slice)
			if !isSl {
				ok = false
				return
			}
			al, isAl := sl.X.(*ssa.Alloc)
			if !isAl {
				ok = false
				return
			}
			for _, st := range e.Stores(al) {
				elems = append(elems, st.St.Val)
			}
		case *ssa.Slice:
			// make([]T, 0): slice of a zero-length array
			if l, isC := e.Len(x).IsConst(); !isC || l != 0 {
				ok = false
			}
		case *ssa.MakeSlice:
			if l, isC := e.Len(x).IsConst(); !isC || l != 0 {
				ok = false
			}
		case *ssa.Const:
		default:
			ok = false
		}
	}
	walk(v)
	return elems, ok
}

// splatReader analyses the record reader: SYM-BYTES (record length), LAY-1 tiling and the per-field table.
func splatReader(a *anchors, r *sx.Rep, fn *ssa.Function) *recSide {
	side := &recSide{fn: fn}
	name := a.p.FuncName(fn)
	pos := a.p.Pos(fn.Pos())
	e := sx.NewEnv(fn)
	in := streamParamOf(fn)
	if in == nil {
		r.Undecide("SYM-BYTES", name, pos, "no io.Reader parameter")
		return side
	}
	ops := e.FindIO(nil)
	if len(ops) != 1 || ops[0].Kind != sx.IOReadFull {
		r.Undecide("SYM-BYTES", name, pos, fmt.Sprintf("expected exactly one io.ReadFull of a record buffer, found %d stream operations", len(ops)))
		return side
	}
	rf := ops[0]
	if rf.Stream != ssa.Value(in) {
		r.Violate("SYM-BYTES", name, a.p.Pos(rf.Call.Pos()), "the record is not read from the function's input parameter")
		return side
	}
	if !rf.InLoop {
		r.Violate("SYM-BYTES", name, a.p.Pos(rf.Call.Pos()), "the record read is not inside a loop: at most one splat is decoded")
		return side
	}
	bufRoot, bufOff := e.SliceRoot(rf.Data)
	blen, isC := e.Len(rf.Data).IsConst()
	if !isC || !bufOff.IsZero() {
		r.Undecide("SYM-BYTES", name, a.p.Pos(rf.Call.Pos()), "the record buffer does not have a constant length")
		return side
	}
	side.recLen = blen
	if blen != splatRecordLen {
		r.Violate("SYM-BYTES", name, a.p.Pos(rf.Call.Pos()), fmt.Sprintf("each iteration consumes %d bytes; a .splat record is %d bytes", blen, splatRecordLen))
	} else {
		r.Hold("SYM-BYTES", name, a.p.Pos(rf.Call.Pos()), fmt.Sprintf("each iteration consumes len(buffer) = %d bytes through io.ReadFull", blen))
	}
	// attribute arrays handed to NewPointCloud
	attrs := pointCloudAttrs(a, fn)
	if len(attrs) == 0 {
		r.Undecide("LAY-2", name, pos, "no modeling.NewPointCloud call with map literals keyed by constant attribute names")
		return side
	}
	var names []string
	for k := range attrs {
		names = append(names, k)
	}
	sort.Strings(names)
	w := a.walker()
	for _, at := range names {
		key := name + "#" + at
		elems, ok := appendedElems(e, attrs[at])
		if !ok || len(elems) != 1 {
			r.Undecide("LAY-2", key, a.p.Pos(attrs[at].Pos()), fmt.Sprintf("the %s array is not built by exactly one append per record (found %d)", at, len(elems)))
			return side
		}
		el := elems[0]
		// the append must happen after the record was read, in the same iteration
		ncomp := 1
		if d, isVec := sx.IsVecType(el.Type()); isVec {
			ncomp = d
		}
		for k := 0; k < ncomp; k++ {
			var ch chain
			if ncomp == 1 {
				ch = w.scalar(el, nil)
			} else {
				ch = w.vector(el, k, nil)
			}
			p := el.Pos()
			fkey := fmt.Sprintf("%s.%d", key, k)
			switch {
			case ch.swizzle:
				r.Violate("AXIS-1", fkey, a.p.Pos(p), "the decoded vector passes through a component-permuting method")
				return side
			case !ch.ok:
				r.Undecide("LAY-2", fkey, a.p.Pos(p), "value map not recognised: "+ch.why)
				return side
			case ch.src.kind != srcBytes:
				r.Undecide("LAY-2", fkey, a.p.Pos(p), "the decoded value is not read from the record buffer")
				return side
			}
			root, _ := e.SliceRoot(ch.src.base)
			if root != bufRoot {
				r.Violate("LAY-2", fkey, a.p.Pos(p), "the decoded value is read from a buffer other than the one io.ReadFull fills")
				return side
			}
			if ch.src.at != nil && ch.src.at.Parent() == fn && !ssau.Before(rf.Call, ch.src.at) {
				r.Violate("LAY-2", fkey, a.p.Pos(p), "the field is decoded before io.ReadFull has filled the record buffer in this iteration (it sees the previous record)")
				return side
			}
			off, isC := ch.src.off.IsConst()
			if !isC {
				r.Undecide("LAY-1", fkey, a.p.Pos(p), "non-constant offset "+ch.src.off.String()+" into the record")
				return side
			}
			side.fields = append(side.fields, recField{attr: at, comp: k, off: off, size: ch.src.width, ch: ch, pos: p, order: ch.src.order})
		}
	}
	recAll(a, r, e, fn, rf, bufRoot, attrs, names)
	side.ok = true
	// LAY-1: the ranges tile [0, len)
	fs := append([]recField{}, side.fields...)
	sort.SliceStable(fs, func(i, j int) bool { return fs[i].off < fs[j].off })
	cur := int64(0)
	tileOK := true
	var why string
	for _, f := range fs {
		switch {
		case f.off < cur:
			tileOK, why = false, fmt.Sprintf("bytes [%d,%d) of the record are decoded twice (%s.%d)", f.off, cur, f.attr, f.comp)
		case f.off > cur:
			tileOK, why = false, fmt.Sprintf("bytes [%d,%d) of the record are never decoded", cur, f.off)
		}
		if !tileOK {
			break
		}
		cur = f.off + f.size
	}
	if tileOK && cur != blen {
		tileOK = false
		if cur < blen {
			why = fmt.Sprintf("bytes [%d,%d) of the record are never decoded", cur, blen)
		} else {
			why = fmt.Sprintf("the last field ends at byte %d, beyond the %d-byte record", cur, blen)
		}
	}
	var desc []string
	for _, f := range fs {
		desc = append(desc, fmt.Sprintf("[%d,%d)→%s.%d", f.off, f.off+f.size, f.attr, f.comp))
	}
	if tileOK {
		r.Hold("LAY-1", name, a.p.Pos(rf.Call.Pos()), "constant ranges tile [0,"+fmt.Sprint(blen)+"): "+strings.Join(desc, " "))
	} else {
		r.Violate("LAY-1", name, a.p.Pos(rf.Call.Pos()), why, strings.Join(desc, " "))
	}
	// AXIS-1: constructor slots take increasing, contiguous byte ranges
	by := side.byAttr()
	for _, at := range names {
		fl := by[at]
		okAxis := true
		for i := 1; i < len(fl); i++ {
			if fl[i].off != fl[i-1].off+fl[i-1].size {
				okAxis = false
			}
		}
		var d []string
		for _, f := range fl {
			d = append(d, fmt.Sprintf("slot%d@%d", f.comp, f.off))
		}
		if okAxis {
			r.Hold("AXIS-1", name+"#"+at, a.p.Pos(fl[0].pos), "constructor slots read consecutive ranges in order: "+strings.Join(d, " "))
		} else {
			r.Violate("AXIS-1", name+"#"+at, a.p.Pos(fl[0].pos), "the components of "+at+" are not decoded from consecutive byte ranges in slot order: "+strings.Join(d, " "))
		}
	}
	return side
}

// pointCloudAttrs returns attribute name -> array value for the maps handed to modeling.NewPointCloud.
func pointCloudAttrs(a *anchors, fn *ssa.Function) map[string]ssa.Value {
	out := map[string]ssa.Value{}
	ssau.AllInstrs(fn, func(in ssa.Instruction) {
		c, ok := in.(*ssa.Call)
		if !ok || !ssau.IsFunc(ssau.CalleeObj(c), a.modelingPath(), "NewPointCloud") {
			return
		}
		for _, arg := range c.Call.Args {
			mm, ok := arg.(*ssa.MakeMap)
			if !ok {
				continue
			}
			for _, ref := range *mm.Referrers() {
				if mu, ok := ref.(*ssa.MapUpdate); ok && mu.Map == ssa.Value(mm) {
					if k, ok := ssau.ConstString(mu.Key); ok {
						out[k] = mu.Value
					}
				}
			}
		}
	})
	return out
}

// splatPair decides LAY-2 (offsets, sizes, byte order per attribute component) and INV-1 (value maps are inverse chains).
func splatPair(a *anchors, r *sx.Rep, ws, rs *recSide) {
	if !ws.ok || !rs.ok {
		return
	}
	wname, rname := a.p.FuncName(ws.fn), a.p.FuncName(rs.fn)
	wb, rb := ws.byAttr(), rs.byAttr()
	all := map[string]bool{}
	for k := range wb {
		all[k] = true
	}
	for k := range rb {
		all[k] = true
	}
	var names []string
	for k := range all {
		names = append(names, k)
	}
	sort.Strings(names)
	specName := map[string]int{}
	for i, s := range splatSpec {
		if v, ok := sx.StringConst(a.modeling, s.attrConst); ok {
			specName[v] = i
		} else {
			a.c.R.Failf("anchor constant modeling.%s not found", s.attrConst)
		}
	}
	for _, at := range names {
		key := wname + "~" + rname + "#" + at
		wf, rf := wb[at], rb[at]
		switch {
		case len(wf) == 0:
			r.Violate("LAY-2", key, a.p.Pos(rf[0].pos), "the reader decodes attribute "+at+" which the writer never writes")
			continue
		case len(rf) == 0:
			r.Violate("LAY-2", key, a.p.Pos(wf[0].pos), "the writer encodes attribute "+at+" which the reader never decodes")
			continue
		case len(wf) != len(rf):
			r.Violate("LAY-2", key, a.p.Pos(rf[0].pos), fmt.Sprintf("writer emits %d components of %s, reader decodes %d", len(wf), at, len(rf)))
			continue
		}
		if _, ok := specName[at]; !ok {
			r.Violate("LAY-2", key, a.p.Pos(wf[0].pos), "attribute "+at+" is not one of the five .splat attributes (Position, Scale, FDC, Opacity, Rotation)")
			continue
		}
		bad := false
		var facts []string
		for i := range wf {
			w, rd := wf[i], rf[i]
			if w.comp != rd.comp {
				r.Violate("LAY-2", key, a.p.Pos(w.pos), fmt.Sprintf("writer component %s has no reader slot", sx.AxisName(w.comp)))
				bad = true
				break
			}
			if w.off != rd.off || w.size != rd.size {
				r.Violate("LAY-2", key, a.p.Pos(rd.pos), fmt.Sprintf("%s.%s is written at bytes [%d,%d) but read from bytes [%d,%d)", at, sx.AxisName(w.comp), w.off, w.off+w.size, rd.off, rd.off+rd.size))
				bad = true
				break
			}
			if w.size > 1 {
				switch {
				case w.order == nil || rd.order == nil:
					r.Undecide("LAY-2", key, a.p.Pos(rd.pos), "byte order of a multi-byte field is not a package-level ByteOrder object")
					bad = true
				case w.order != rd.order:
					r.Violate("LAY-2", key, a.p.Pos(rd.pos), "writer uses encoding/binary."+w.order.Name()+", reader encoding/binary."+rd.order.Name())
					bad = true
				case !sx.IsGlobal(w.order, "encoding/binary", "LittleEndian"):
					r.Violate("LAY-2", key, a.p.Pos(rd.pos), ".splat floats are little-endian; both sides use encoding/binary."+w.order.Name())
					bad = true
				}
				if bad {
					break
				}
			}
			facts = append(facts, fmt.Sprintf("%s:[%d,%d)", sx.AxisName(w.comp), w.off, w.off+w.size))
		}
		if bad {
			continue
		}
		sp := splatSpec[specName[at]]
		if wf[0].off == sp.off && wf[0].size == sp.size && len(wf) == sp.n {
			facts = append(facts, "matches the published .splat layout")
		} else {
			facts = append(facts, fmt.Sprintf("NOTE: the published .splat layout puts %s at byte %d (%d×%d bytes)", at, sp.off, sp.n, sp.size))
		}
		r.Hold("LAY-2", key, a.p.Pos(rf[0].pos), facts...)

		// INV-1 per component
		for i := range wf {
			w, rd := wf[i], rf[i]
			ikey := fmt.Sprintf("%s.%s", key, sx.AxisName(w.comp))
			wo, ro := w.ch.ops, rd.ch.ops
			okInv := len(wo) == len(ro)
			if okInv {
				for j := range wo {
					if !inverseOf(wo[len(wo)-1-j], ro[j]) {
						okInv = false
					}
				}
			}
			fact := "write: " + w.ch.opsString() + " ; read: " + rd.ch.opsString()
			if w.ch.clamped {
				fact += " (write side clamps)"
			}
			if okInv {
				r.Hold("INV-1", ikey, a.p.Pos(rd.pos), fact, "read chain is the reversed chain of inverses (Exp↔Log, ·c↔/c, +c↔−c, c/x and c−x self-inverse, neg↔neg)")
			} else {
				r.Violate("INV-1", ikey, a.p.Pos(rd.pos), "the reader's value map is not the inverse of the writer's: "+fact)
			}
		}
	}
	for _, s := range splatSpec {
		v, _ := sx.StringConst(a.modeling, s.attrConst)
		if !all[v] {
			r.Violate("LAY-2", wname+"~"+rname+"#"+v, a.p.Pos(ws.fn.Pos()), "the .splat attribute "+v+" is neither written nor read")
		}
	}
	if ws.recLen != rs.recLen {
		r.Violate("LAY-2", wname+"~"+rname+"#record", a.p.Pos(rs.fn.Pos()), fmt.Sprintf("writer emits %d bytes per splat, reader consumes %d", ws.recLen, rs.recLen))
	} else {
		r.Hold("LAY-2", wname+"~"+rname+"#record", a.p.Pos(rs.fn.Pos()), fmt.Sprintf("both sides: %d bytes per splat", ws.recLen))
	}
}

// appendCallsOf returns the append calls that build a slice value (through phis).
func appendCallsOf(v ssa.Value) []*ssa.Call {
	var out []*ssa.Call
	seen := map[ssa.Value]bool{}
	var walk func(v ssa.Value)
	walk = func(v ssa.Value) {
		if seen[v] {
			return
		}
		seen[v] = true
		switch x := v.(type) {
		case *ssa.Phi:
			for _, ed := range x.Edges {
				walk(ed)
			}
		case *ssa.Call:
			if ssau.Builtin(x) == "append" && len(x.Call.Args) == 2 {
				out = append(out, x)
				walk(x.Call.Args[0])
			}
		}
	}
	walk(v)
	return out
}

// recAll decides REC-ALL for the append form of a record decoder: every record
// that io.ReadFull delivered yields exactly one element of every attribute
// array — the append executes in every iteration that gets past the read; a
// branch that lets an iteration reach the back edge without appending is a skip.
// A skip whose condition derives from the record bytes is a violation (the
// splat is dropped, the count shrinks, later splats shift); only the outcome of
// the read itself may end or skip an iteration.
func recAll(a *anchors, r *sx.Rep, e *sx.Env, fn *ssa.Function, rf *sx.IOOp, bufRoot ssa.Value, attrs map[string]ssa.Value, names []string) {
	name := a.p.FuncName(fn)
	loops := e.LoopsOf(rf.Call.Block())
	if len(loops) == 0 {
		return
	}
	loop := loops[len(loops)-1]
	okAll := true
	for _, at := range names {
		for _, ac := range appendCallsOf(attrs[at]) {
			if !loop.Blocks[ac.Block()] {
				continue
			}
			skipped := false
			for _, l := range loop.Latch {
				if !ac.Block().Dominates(l) {
					skipped = true
				}
			}
			if !skipped {
				continue
			}
			okAll = false
			// classify the skipping branch
			var culprit *ssa.If
			fromBytes := false
			for _, b := range fn.Blocks {
				if !loop.Blocks[b] || len(b.Instrs) == 0 || !rf.Call.Block().Dominates(b) {
					continue
				}
				iff, ok := b.Instrs[len(b.Instrs)-1].(*ssa.If)
				if !ok {
					continue
				}
				// one successor reaches the loop header again without passing the append
				skips := false
				for _, s := range b.Succs {
					if !loop.Blocks[s] {
						continue
					}
					if s == loop.Header || ssau.ReachesAvoiding(s, loop.Header, map[*ssa.BasicBlock]bool{ac.Block(): true}) && s != ac.Block() {
						skips = true
					}
				}
				if !skips || !b.Dominates(ac.Block()) && ac.Block() != b {
					continue
				}
				sl := sx.NewSlicer(nil).WithEnv(e)
				sl.StopAt = func(v ssa.Value) bool { return v == ssa.Value(rf.Call) }
				sl.From(iff.Cond, nil, nil)
				dep := false
				for _, v := range sl.Values() {
					if _, isSl := v.Type().Underlying().(*types.Slice); isSl {
						if root, _ := e.SliceRoot(v); root == bufRoot {
							dep = true
						}
					}
				}
				if dep || culprit == nil {
					culprit, fromBytes = iff, dep
				}
			}
			key := name + "#" + at
			switch {
			case culprit != nil && fromBytes:
				r.Violate("REC-ALL", key, a.p.Pos(ssau.PosOf(culprit)), "a record that was read is skipped depending on its decoded bytes: the "+at+" array gets no element for it, so the splat is dropped, the count shrinks and later splats shift (every record yields one splat; only the read's error / EOF may end the loop)")
			case culprit != nil:
				r.Undecide("REC-ALL", key, a.p.Pos(ssau.PosOf(culprit)), "the append to the "+at+" array does not execute in every iteration that gets past the read; the skipping condition is not derived from the record bytes")
			default:
				r.Undecide("REC-ALL", key, a.p.Pos(ac.Pos()), "the append to the "+at+" array does not execute in every iteration that gets past the read")
			}
		}
	}
	if okAll {
		r.Hold("REC-ALL", name+"#records", a.p.Pos(rf.Call.Pos()), fmt.Sprintf("every iteration that gets past io.ReadFull appends exactly one element to each of the %d attribute arrays (append blocks dominate the back edge)", len(names)))
	}
}
