package c15

import (
	"fmt"
	"go/constant"
	"go/token"
	"go/types"
	"sort"
	"strings"

	"golang.org/x/tools/go/ssa"

	"polycheck/props/c07/sx"
	"polycheck/ssau"
)

const spzRel = "formats/spz"

// published SPZ plane order (nianticlabs/spz load-spz.cc: positions, alphas, colors, scales, rotations, sh)
var spzPlaneOrder = []string{"PositionAttribute", "OpacityAttribute", "FDCAttribute", "ScaleAttribute", "RotationAttribute", "SH"}

// published SPZ header (16 bytes)
var spzHeaderSpec = []struct {
	name string
	kind types.BasicKind
}{
	{"Magic", types.Uint32}, {"Version", types.Uint32}, {"NumPoints", types.Uint32},
	{"ShDegree", types.Uint8}, {"FractionalBits", types.Uint8}, {"Flags", types.Uint8}, {"Reserved", types.Uint8},
}

func spzChecks(a *anchors, r *sx.Rep) {
	hobj := a.spz.Pkg.Scope().Lookup("Header")
	if hobj == nil {
		a.c.R.Failf("anchor type formats/spz.Header not found")
		return
	}
	hdrT := hobj.Type()
	spzHeader(a, r, hdrT)
	shDims(a, r, hdrT)
	read := a.fn(spzRel, "Read")
	if read == nil {
		return
	}
	spzRead(a, r, read, hdrT)
	halfFloat(a, r)
}

// ---- LAY-6

func spzHeader(a *anchors, r *sx.Rep, hdrT types.Type) {
	key := "formats/spz.Header"
	pos := a.p.Pos(hdrT.(*types.Named).Obj().Pos())
	st, ok := hdrT.Underlying().(*types.Struct)
	if !ok {
		r.Violate("LAY-6", key, pos, "Header is not a struct")
		return
	}
	l, err := sx.Flatten(hdrT)
	if err != nil {
		r.Violate("LAY-6", key, pos, "Header has no fixed wire layout: "+err.Error())
		return
	}
	var got, want []string
	for i := 0; i < st.NumFields(); i++ {
		b, _ := st.Field(i).Type().Underlying().(*types.Basic)
		k := "?"
		if b != nil {
			k = b.Name()
		}
		got = append(got, st.Field(i).Name()+":"+k)
	}
	for _, s := range spzHeaderSpec {
		want = append(want, s.name+":"+types.Typ[s.kind].Name())
	}
	switch {
	case l.Size != 16:
		r.Violate("LAY-6", key, pos, fmt.Sprintf("the SPZ header is 16 bytes; wire layout is %s = %d bytes", l.Sig(), l.Size))
	case strings.Join(got, ",") != strings.Join(want, ","):
		r.Violate("LAY-6", key, pos, "the SPZ header is "+strings.Join(want, ",")+"; declared "+strings.Join(got, ","))
	default:
		r.Hold("LAY-6", key, pos, "wire layout "+l.Sig()+" = 16 bytes; fields "+strings.Join(got, ","))
	}
}

// ---- TAB: ShDimensions = {0:0, 1:3, 2:8, 3:15}

func shDimsFn(a *anchors) *ssa.Function { return a.p.Func(spzRel, "Header.ShDimensions") }

func shDims(a *anchors, r *sx.Rep, hdrT types.Type) {
	fn := shDimsFn(a)
	if fn == nil || fn.Blocks == nil {
		a.c.R.Failf("anchor function formats/spz.Header.ShDimensions not found")
		return
	}
	key := a.p.FuncName(fn)
	pos := a.p.Pos(fn.Pos())
	e := sx.NewEnv(fn)
	degIdx := sx.FieldIndex(hdrT, "ShDegree")
	table := map[int64]int64{}
	dup := false
	var defaultOK = true
	for _, b := range fn.Blocks {
		if len(b.Instrs) == 0 {
			continue
		}
		ret, ok := b.Instrs[len(b.Instrs)-1].(*ssa.Return)
		if !ok || len(ret.Results) != 2 {
			continue
		}
		errC, isC := ret.Results[1].(*ssa.Const)
		if !isC || !errC.IsNil() {
			continue // error return
		}
		val, isInt := ssau.ConstInt(ret.Results[0])
		if !isInt {
			r.Undecide("TAB", key, a.p.Pos(ret.Pos()), "a success return of ShDimensions does not return a constant: the degree→dimension table is not a switch over constants")
			return
		}
		// path condition: the unique predecessor tests ShDegree == k on the edge into b
		if len(b.Preds) != 1 {
			r.Undecide("TAB", key, a.p.Pos(ret.Pos()), "a table row is reachable from several branches")
			return
		}
		p := b.Preds[0]
		iff, ok := p.Instrs[len(p.Instrs)-1].(*ssa.If)
		if !ok || p.Succs[0] != b {
			defaultOK = false
			continue
		}
		cmp, ok := iff.Cond.(*ssa.BinOp)
		if !ok || cmp.Op != token.EQL {
			r.Undecide("TAB", key, a.p.Pos(ret.Pos()), "a table row is not selected by an equality test")
			return
		}
		x, y := cmp.X, cmp.Y
		if _, isC := x.(*ssa.Const); isC {
			x, y = y, x
		}
		k, isK := ssau.ConstInt(y)
		ld, isLd := x.(*ssa.UnOp)
		if cv, isCv := x.(*ssa.Convert); isCv {
			ld, isLd = cv.X.(*ssa.UnOp)
		}
		if !isK || !isLd || ld.Op != token.MUL {
			r.Undecide("TAB", key, a.p.Pos(ret.Pos()), "a table row is not selected by comparing the header's SH degree with a constant")
			return
		}
		ad := sx.ResolveAddr(ld.X)
		al, isAl := ad.Root.(*ssa.Alloc)
		if !isAl || len(ad.Path) != 1 || ad.Path[0] != degIdx {
			r.Undecide("TAB", key, a.p.Pos(ret.Pos()), "the switch is not over Header.ShDegree")
			return
		}
		if _, isSpill := e.Spill(al); !isSpill {
			r.Undecide("TAB", key, a.p.Pos(ret.Pos()), "the switch is not over the receiver's ShDegree")
			return
		}
		if _, had := table[k]; had {
			dup = true
		}
		table[k] = val
	}
	_ = defaultOK
	want := map[int64]int64{0: 0, 1: 3, 2: 8, 3: 15}
	var rows []string
	var ks []int64
	for k := range table {
		ks = append(ks, k)
	}
	sort.Slice(ks, func(i, j int) bool { return ks[i] < ks[j] })
	okT := !dup && len(table) == len(want)
	for _, k := range ks {
		rows = append(rows, fmt.Sprintf("%d→%d", k, table[k]))
		if w, ok := want[k]; !ok || w != table[k] {
			okT = false
		}
	}
	a.shTable = table
	if okT {
		r.Hold("TAB", key, pos, "degree→coefficients "+strings.Join(rows, " ")+" = (d+1)²−1")
	} else {
		r.Violate("TAB", key, pos, "SH coefficient counts per degree must be 0→0 1→3 2→8 3→15 ((d+1)²−1); the switch gives "+strings.Join(rows, " "))
	}
}

// ---- PLANE-1 and the per-plane checks

type planeCall struct {
	op   *sx.IOOp
	role string // modeling attribute value, or "SH"
}

func spzRead(a *anchors, r *sx.Rep, read *ssa.Function, hdrT types.Type) {
	name := a.p.FuncName(read)
	pos := a.p.Pos(read.Pos())
	e := sx.NewEnv(read)
	isSpz := func(fn *ssa.Function) bool { return fn.Pkg == a.spz }
	ops := e.FindIO(isSpz)
	if len(ops) == 0 || !sx.TotallyOrdered(ops) {
		r.Undecide("PLANE-1", name, pos, "stream operations of the SPZ decoder are not a totally ordered sequence")
		return
	}
	// one stream: the gzip reader over the input parameter (or the parameter itself)
	stream := ops[0].Stream
	for _, op := range ops {
		if op.Stream != stream {
			r.Violate("PLANE-1", name, a.p.Pos(op.Call.Pos()), "planes are read from different stream objects")
			return
		}
		if op.InLoop {
			r.Undecide("PLANE-1", name, a.p.Pos(op.Call.Pos()), "a plane is read inside a loop")
			return
		}
	}
	in := streamParamOf(read)
	streamOK := stream == ssa.Value(in)
	if ex, ok := stream.(*ssa.Extract); ok {
		if c, ok := ex.Tuple.(*ssa.Call); ok && ssau.IsFunc(ssau.CalleeObj(c), "compress/gzip", "NewReader") && stripIface(c.Call.Args[0]) == ssa.Value(in) {
			streamOK = true
		}
	}
	if !streamOK {
		r.Undecide("PLANE-1", name, pos, "the decoder's stream is neither its input parameter nor a gzip reader over it")
		return
	}
	// header first
	h := ops[0]
	hkey := name + "#header"
	var hdrAlloc *ssa.Alloc
	switch {
	case h.Kind != sx.IOBinaryRead || !types.Identical(h.Type, hdrT):
		r.Violate("PLANE-1", hkey, a.p.Pos(h.Call.Pos()), "the first stream operation is not binary.Read of the 16-byte Header")
		return
	case !h.OrderOK || !sx.IsGlobal(h.Order, "encoding/binary", "LittleEndian"):
		hdrAlloc, _ = h.Data.(*ssa.Alloc)
		r.Violate("LAY-2", hkey, a.p.Pos(h.Call.Pos()), "the SPZ header is little-endian")
	default:
		hdrAlloc, _ = h.Data.(*ssa.Alloc)
		r.Hold("PLANE-1", hkey, a.p.Pos(h.Call.Pos()), "header read first: binary.Read(LittleEndian, *Header)")
	}
	// roles of the plane calls, located in Read's same-package call tree
	pr := newPlaneRoles(a, read)
	var planes []planeCall
	if !pr.collect(r, name, read, ops[1:], hdrAlloc, hdrT, 0, &planes) {
		return
	}
	var want []string
	for _, s := range spzPlaneOrder {
		if s == "SH" {
			want = append(want, "SH")
			continue
		}
		v, ok := sx.StringConst(a.modeling, s)
		if !ok {
			a.c.R.Failf("anchor constant modeling.%s not found", s)
			return
		}
		want = append(want, v)
	}
	var got []string
	for _, p := range planes {
		got = append(got, p.role)
	}
	for i, w := range want {
		key := name + "#plane." + w
		if i >= len(planes) {
			r.Violate("PLANE-1", key, pos, fmt.Sprintf("plane %d (%s) of the published layout is never read; planes read: %s", i+1, w, strings.Join(got, ", ")))
			continue
		}
		p := planes[i]
		if p.role == w {
			r.Hold("PLANE-1", key, a.p.Pos(p.op.Call.Pos()), fmt.Sprintf("plane %d of the stream becomes attribute %s (via %s)", i+1, w, p.op.Callee.Name()))
		} else {
			role := p.role
			if role == "" {
				role = "<no mesh attribute>"
			}
			r.Violate("PLANE-1", key, a.p.Pos(p.op.Call.Pos()), fmt.Sprintf("plane %d of the stream must be %s (published order positions, alphas, colours, scales, rotations, SH) but is decoded as %s", i+1, w, role))
		}
	}
	if len(planes) > len(want) {
		r.Violate("PLANE-1", name+"#plane.extra", a.p.Pos(planes[len(want)].op.Call.Pos()), "more planes are read than the format has")
	}
	// per plane reader (each distinct callee once, under its role)
	done := map[*ssa.Function]bool{}
	for i, p := range planes {
		if i >= len(want) || p.role != want[i] || done[p.op.Callee] {
			continue
		}
		done[p.op.Callee] = true
		planeReader(a, r, p.op.Callee, p.role, hdrT, 0)
	}
}

// planeSpec: stored components per splat and bytes per component, by role.
type planeSpec struct {
	comps    int64 // stored components per record
	width    int64 // plane elements per component
	elemSize int64 // bytes per plane element
	perPoint string
}

// planeReader analyses one plane reader function (and the variant it forwards to).
func planeReader(a *anchors, r *sx.Rep, fn *ssa.Function, role string, hdrT types.Type, depth int) {
	name := a.p.FuncName(fn)
	pos := a.p.Pos(fn.Pos())
	e := sx.NewEnv(fn)
	isSpz := func(f *ssa.Function) bool { return f.Pkg == a.spz }
	if len(fn.Params) < 2 || !types.Identical(fn.Params[0].Type(), hdrT) {
		r.Undecide("SYM-BYTES", name, pos, "plane reader is not a value-receiver method of Header")
		return
	}
	recv := fn.Params[0]
	in := streamParamOf(fn)
	N := sx.Sym(recv.Name() + ".NumPoints")
	ops := e.FindIO(isSpz)
	var rd *sx.IOOp
	var forwards []*sx.IOOp
	for _, op := range ops {
		switch op.Kind {
		case sx.IOCall:
			if fillHelper(op.Callee) >= 0 {
				// a package-local "allocate n bytes and fill them from the stream" helper is the plane read
				if rd != nil {
					r.Undecide("SYM-BYTES", name, a.p.Pos(op.Call.Pos()), "more than one read in a plane reader")
					return
				}
				rd = op
			} else {
				forwards = append(forwards, op)
			}
		case sx.IOReadFull, sx.IOBinaryRead:
			if rd != nil {
				r.Undecide("SYM-BYTES", name, a.p.Pos(op.Call.Pos()), "more than one read in a plane reader")
				return
			}
			rd = op
		default:
			r.Undecide("SYM-BYTES", name, a.p.Pos(op.Call.Pos()), "unexpected stream operation "+op.Kind.String())
			return
		}
		if op.Stream != ssa.Value(in) {
			r.Violate("SYM-BYTES", name, a.p.Pos(op.Call.Pos()), "the plane is not read from the stream parameter")
			return
		}
		if op.InLoop {
			r.Undecide("SYM-BYTES", name, a.p.Pos(op.Call.Pos()), "the plane is read inside a loop")
			return
		}
	}
	// forwarding variants: `if cond { return other(in) }`
	for _, f := range forwards {
		if depth > 1 {
			r.Undecide("SYM-BYTES", name, a.p.Pos(f.Call.Pos()), "nested plane reader variants")
			return
		}
		if !forwardsResult(f.Call) {
			r.Undecide("SYM-BYTES", name, a.p.Pos(f.Call.Pos()), "a nested stream call whose results are not returned as they are")
			return
		}
		if rd != nil && (ssau.CanFollow(rd.Call, f.Call) || ssau.CanFollow(f.Call, rd.Call)) {
			r.Violate("SYM-BYTES", name, a.p.Pos(f.Call.Pos()), "two plane reads can execute on one path")
			return
		}
		if role == a.attr("PositionAttribute") {
			variantGuard(a, r, fn, f, hdrT)
		}
		planeReader(a, r, f.Callee, role, hdrT, depth+1)
	}
	if rd == nil {
		if len(forwards) == 0 {
			r.Violate("SYM-BYTES", name, pos, "the plane reader reads nothing")
		}
		return
	}
	// ---- plane buffer and size
	var bufRoot ssa.Value
	var planeLen sx.Poly
	viaHelper := false
	switch rd.Kind {
	case sx.IOCall:
		si := fillHelper(rd.Callee)
		if si < 0 || si >= len(rd.Call.Call.Args) {
			r.Undecide("SYM-BYTES", name, a.p.Pos(rd.Call.Pos()), "fill helper argument not found")
			return
		}
		planeLen = e.Int(rd.Call.Call.Args[si])
		for _, ref := range *rd.Call.Referrers() {
			if ex, ok := ref.(*ssa.Extract); ok && ex.Index == 0 {
				bufRoot = ex
			}
		}
		if bufRoot == nil {
			r.Undecide("SYM-BYTES", name, a.p.Pos(rd.Call.Pos()), "the buffer returned by the fill helper is not used")
			return
		}
		viaHelper = true
	case sx.IOReadFull:
		root, off := e.SliceRoot(rd.Data)
		if !off.IsZero() {
			r.Undecide("SYM-BYTES", name, a.p.Pos(rd.Call.Pos()), "the plane buffer is re-sliced")
			return
		}
		bufRoot, planeLen = root, e.Len(rd.Data)
	case sx.IOBinaryRead:
		if _, isSl := rd.Type.Underlying().(*types.Slice); !isSl {
			r.Undecide("SYM-BYTES", name, a.p.Pos(rd.Call.Pos()), "binary.Read of a non-slice in a plane reader")
			return
		}
		if !rd.OrderOK || !sx.IsGlobal(rd.Order, "encoding/binary", "LittleEndian") {
			r.Violate("LAY-2", name, a.p.Pos(rd.Call.Pos()), "SPZ planes are little-endian")
			return
		}
		n, err := e.PayloadLen(rd)
		if err != nil {
			r.Undecide("SYM-BYTES", name, a.p.Pos(rd.Call.Pos()), err.Error())
			return
		}
		planeLen = n
		al, _ := rd.Data.(*ssa.Alloc)
		if al == nil {
			r.Undecide("SYM-BYTES", name, a.p.Pos(rd.Call.Pos()), "binary.Read destination is not a local slice variable")
			return
		}
		for _, st := range e.Stores(al) {
			if len(st.Ad.Path) == 0 {
				bufRoot, _ = e.SliceRoot(st.St.Val)
			}
		}
	}
	if _, isMk := bufRoot.(*ssa.MakeSlice); !isMk && !viaHelper {
		r.Undecide("SYM-BYTES", name, a.p.Pos(rd.Call.Pos()), "the plane buffer is not a make([]T, n) of this function")
		return
	}
	es := elemSize(bufRoot.Type())
	planeBytes := planeLen.MulConst(es)
	// shDim symbol (SH plane only)
	var S sx.Poly
	haveS := false
	if sd := shDimsFn(a); sd != nil {
		ssau.AllInstrs(fn, func(in ssa.Instruction) {
			if ex, ok := in.(*ssa.Extract); ok && ex.Index == 0 {
				if c, ok := ex.Tuple.(*ssa.Call); ok && c.Call.StaticCallee() == sd {
					S, haveS = e.Int(ex), true
				}
			}
		})
	}
	spec, wantBytes, okSpec := planeSpecFor(a, role, es, N, S, haveS)
	if !okSpec {
		r.Undecide("SYM-BYTES", name, a.p.Pos(rd.Call.Pos()), "no published size for role "+role+" with this element size")
		return
	}
	if !planeBytes.Equal(wantBytes) {
		r.Violate("SYM-BYTES", name, a.p.Pos(rd.Call.Pos()), fmt.Sprintf("the %s plane read is %s bytes; the published layout has %s (%s)", role, planeBytes, wantBytes, spec.perPoint))
		return
	}
	// success returns: after the read, forwarding returns, or a zero-size-plane guard
	guardFact := ""
	for _, ret := range sx.SuccessReturns(fn) {
		if rd.Call.Block().Dominates(ret.Block()) {
			continue
		}
		if g := zeroPlaneGuard(e, ret, planeBytes); g != "" {
			guardFact = "early success return under " + g + " (plane size 0)"
			continue
		}
		r.Violate("SYM-BYTES", name, a.p.Pos(ret.Pos()), "a success return skips the plane without its size being zero: the following planes are mis-aligned")
		return
	}
	facts := []string{fmt.Sprintf("plane bytes = %s (%s)", planeBytes, spec.perPoint)}
	if guardFact != "" {
		facts = append(facts, guardFact)
	}
	r.Hold("SYM-BYTES", name, a.p.Pos(rd.Call.Pos()), facts...)

	// ---- output array(s)
	var outRoot ssa.Value
	for _, ret := range sx.SuccessReturns(fn) {
		if !rd.Call.Block().Dominates(ret.Block()) || len(ret.Results) == 0 {
			continue
		}
		root, off := e.SliceRoot(ret.Results[0])
		if !off.IsZero() || (outRoot != nil && outRoot != root) {
			r.Undecide("OUT-1", name, a.p.Pos(ret.Pos()), "the result is not one array made in this function")
			return
		}
		outRoot = root
	}
	outMk, isMk := outRoot.(*ssa.MakeSlice)
	if !isMk {
		r.Undecide("OUT-1", name, pos, "the result is not a make([]T, n) of this function")
		return
	}
	twoLevel := false
	if sl, ok := outMk.Type().Underlying().(*types.Slice); ok {
		_, twoLevel = sl.Elem().Underlying().(*types.Slice)
	}
	outLen := e.Len(outMk)
	var innerStores []sx.StoreAt // stores of elements (into out for one-level, into out[d] for two-level)
	var outerIdx func(st sx.StoreAt) (sx.Poly, bool)
	if !twoLevel {
		if !outLen.Equal(N) {
			r.Violate("OUT-1", name, a.p.Pos(outMk.Pos()), fmt.Sprintf("the output array has length %s; every attribute array must have NumPoints = %s elements", outLen, N))
			return
		}
		r.Hold("OUT-1", name, a.p.Pos(outMk.Pos()), fmt.Sprintf("output = make(…, %s)", outLen))
		for _, st := range e.SliceStores() {
			if root, _ := e.SliceRoot(st.Ad.Slice); root == outRoot {
				innerStores = append(innerStores, st)
			}
		}
	} else {
		if !haveS || !outLen.Equal(S) {
			r.Violate("OUT-1", name, a.p.Pos(outMk.Pos()), fmt.Sprintf("the outer SH array has length %s; one array per coefficient needs shDim", outLen))
			return
		}
		// outer elements: make(…, N) for every index
		var idx []sx.Poly
		var ivs []*sx.IV
		okInner := true
		var firstPos token.Pos
		for _, st := range e.SliceStores() {
			if root, _ := e.SliceRoot(st.Ad.Slice); root != outRoot {
				continue
			}
			mk, isMk := st.St.Val.(*ssa.MakeSlice)
			if !isMk || !e.Len(mk).Equal(N) {
				okInner = false
				r.Violate("OUT-1", name, a.p.Pos(st.St.Pos()), fmt.Sprintf("an SH coefficient array is not make(…, NumPoints) (length %s)", e.Len(st.St.Val)))
				return
			}
			iv, ok := e.EnclosingIVs(st.St.Block())
			if !ok || len(iv) == 0 {
				r.Undecide("OUT-1", name, a.p.Pos(st.St.Pos()), "SH coefficient arrays are not allocated in a canonical counted loop")
				return
			}
			ivs = iv
			idx = append(idx, e.Int(st.Ad.SliceIdx))
			firstPos = st.St.Pos()
		}
		res := sx.Cover(idx, ivs, outLen)
		if !okInner || !res.OK {
			r.Violate("OUT-1", name, a.p.Pos(outMk.Pos()), "not every SH coefficient array is allocated: "+res.Why)
			return
		}
		r.Hold("OUT-1", name, a.p.Pos(firstPos), fmt.Sprintf("outer = make(…, %s); each element = make(…, %s); %s", outLen, N, res.Explain))
		// element stores: address = IndexAddr(load(IndexAddr(out, d)), i)
		for _, st := range e.SliceStores() {
			if ld, ok := st.Ad.Slice.(*ssa.UnOp); ok && ld.Op == token.MUL {
				ad := sx.ResolveAddr(ld.X)
				if ad.Slice != nil {
					if root, _ := e.SliceRoot(ad.Slice); root == outRoot {
						innerStores = append(innerStores, st)
					}
				}
			}
		}
		outerIdx = func(st sx.StoreAt) (sx.Poly, bool) {
			ld := st.Ad.Slice.(*ssa.UnOp)
			ad := sx.ResolveAddr(ld.X)
			return e.Int(ad.SliceIdx), true
		}
	}
	if len(innerStores) != 1 {
		r.Undecide("SYM-STRIDE", name, pos, fmt.Sprintf("expected exactly one element store into the output per iteration, found %d", len(innerStores)))
		return
	}
	st := innerStores[0]
	ivs, okIV := e.EnclosingIVs(st.St.Block())
	if !okIV || len(ivs) == 0 {
		r.Undecide("SYM-STRIDE", name, a.p.Pos(st.St.Pos()), "the decode loop is not a canonical counted loop nest")
		return
	}
	for _, iv := range ivs {
		for _, x := range sx.LoopExitTargets(iv.Loop) {
			if x != iv.NormalExit() && !sx.ErrorOnly(x, nil) {
				r.Violate("SYM-STRIDE", name, a.p.Pos(st.St.Pos()), "the decode loop can be left early on a success path")
				return
			}
		}
	}
	// REC-ALL: the element store executes in every iteration of the decode loop nest
	{
		b := st.St.Block()
		uncond := true
		for i := len(ivs) - 1; i >= 0; i-- {
			for _, l := range ivs[i].Loop.Latch {
				if !b.Dominates(l) {
					uncond = false
				}
			}
			b = ivs[i].Loop.Header
		}
		if !uncond {
			r.Violate("REC-ALL", name, a.p.Pos(st.St.Pos()), "the decoded element is stored conditionally inside the decode loop: some records yield no output element (every record yields one splat, unconditionally)")
			return
		}
		r.Hold("REC-ALL", name, a.p.Pos(st.St.Pos()), "the element store executes in every iteration of the decode loop nest")
	}
	I := e.Int(st.Ad.SliceIdx)
	// output coverage
	var ordinal sx.Poly // record ordinal of the plane this store decodes
	if !twoLevel {
		res := sx.Cover([]sx.Poly{I}, ivs, N)
		if !res.OK {
			r.Violate("SYM-STRIDE", name+"#out", a.p.Pos(st.St.Pos()), "output subscripts do not cover [0,NumPoints) exactly once: "+res.Why)
			return
		}
		r.Hold("SYM-STRIDE", name+"#out", a.p.Pos(st.St.Pos()), "output: "+res.Explain)
		ordinal = I
	} else {
		D, _ := outerIdx(st)
		// (d, i) ranges over [0,shDim)×[0,N): encode as i·S + d and require exact cover of [0, N·S)
		comb := I.Mul(S).Add(D)
		res := sx.Cover([]sx.Poly{comb}, ivs, N.Mul(S))
		if !res.OK {
			r.Violate("SYM-STRIDE", name+"#out", a.p.Pos(st.St.Pos()), "the (coefficient, point) pairs written do not cover [0,shDim)×[0,NumPoints) exactly once: "+res.Why)
			return
		}
		// and the inner subscript must be the point, the outer the coefficient
		okRoles := false
		for _, iv := range ivs {
			if I.Equal(sx.Sym(iv.Sym).Sub(iv.Lo)) && iv.Trip().Equal(N) {
				okRoles = true
			}
		}
		if !okRoles {
			r.Violate("SYM-STRIDE", name+"#out", a.p.Pos(st.St.Pos()), "the inner subscript of sh[d][i] does not range over the points")
			return
		}
		r.Hold("SYM-STRIDE", name+"#out", a.p.Pos(st.St.Pos()), "output sh[d][i]: "+res.Explain)
		ordinal = comb
	}
	// ---- slots
	slots, swz, okSlots := vecSlots(st.St.Val)
	if swz {
		r.Violate("AXIS-1", name, a.p.Pos(st.St.Pos()), "the decoded vector passes through a component-permuting method")
		return
	}
	if !okSlots {
		r.Undecide("SYM-STRIDE", name, a.p.Pos(st.St.Pos()), "the stored element is not built by a positional vector constructor (or a scalar)")
		return
	}
	K := spec.comps * spec.width
	base := ordinal.MulConst(K)
	var all []sx.Poly
	inline := func(f *ssa.Function) bool { return f.Pkg == a.spz }
	for k, slot := range slots {
		skey := fmt.Sprintf("%s#slot%d", name, k)
		sl := sx.NewSlicer(inline).WithEnv(e)
		sl.From(slot, nil, nil)
		var offs []int64
		bad := false
		for _, mr := range sl.MemReads() {
			root, off := e.SliceRoot(mr.Base)
			if root != bufRoot {
				continue
			}
			p := e.Int(mr.Index).Add(off)
			d := p.Sub(base)
			c, isC := d.IsConst()
			if !isC {
				r.Violate("SYM-STRIDE", skey, a.p.Pos(st.St.Pos()), fmt.Sprintf("output element %s is decoded from plane subscript %s, which is not inside record %s (base %s)", I, p, ordinal, base))
				bad = true
				break
			}
			offs = append(offs, c)
			if int64(k) < spec.comps {
				dup := false
				for _, q := range all {
					if q.Equal(p) {
						dup = true
					}
				}
				if !dup {
					all = append(all, p)
				}
			}
		}
		if bad {
			return
		}
		sort.Slice(offs, func(i, j int) bool { return offs[i] < offs[j] })
		offs = uniq(offs)
		if int64(k) < spec.comps {
			var want []int64
			for j := int64(0); j < spec.width; j++ {
				want = append(want, int64(k)*spec.width+j)
			}
			if fmt.Sprint(offs) != fmt.Sprint(want) {
				r.Violate("SYM-STRIDE", skey, a.p.Pos(st.St.Pos()), fmt.Sprintf("component %d of a record must be decoded from its elements %v; it reads %v (record base %s)", k, want, offs, base))
				return
			}
			r.Hold("SYM-STRIDE", skey, a.p.Pos(st.St.Pos()), fmt.Sprintf("component %d ← plane[%s + %v]", k, base, offs))
		} else {
			// derived component (quaternion w): may only use the same record
			okD := len(offs) > 0
			for _, o := range offs {
				if o < 0 || o >= K {
					okD = false
				}
			}
			if !okD {
				r.Violate("SYM-STRIDE", skey, a.p.Pos(st.St.Pos()), fmt.Sprintf("derived component %d reads plane offsets %v outside its own record", k, offs))
				return
			}
			r.Hold("SYM-STRIDE", skey, a.p.Pos(st.St.Pos()), fmt.Sprintf("derived component %d ← plane[%s + %v]", k, base, offs))
		}
	}
	if int64(len(slots)) < spec.comps {
		r.Violate("SYM-STRIDE", name, a.p.Pos(st.St.Pos()), fmt.Sprintf("only %d of the %d stored components are decoded", len(slots), spec.comps))
		return
	}
	res := sx.Cover(all, ivs, planeLen)
	if !res.OK {
		r.Violate("SYM-STRIDE", name+"#plane", a.p.Pos(st.St.Pos()), "plane subscripts do not cover the plane exactly once: "+res.Why)
		return
	}
	r.Hold("SYM-STRIDE", name+"#plane", a.p.Pos(st.St.Pos()), "plane: "+res.Explain)

	// ---- SIGN-1 for multi-byte components
	if spec.width > 1 && spec.elemSize == 1 {
		for k := int64(0); k < spec.comps; k++ {
			signExt(a, r, e, fmt.Sprintf("%s#slot%d", name, k), slots[k], bufRoot, base, k*spec.width, spec.width, st.St.Pos())
		}
	}
	// ---- DEQ-1: dequantisation maps of the single-byte planes
	deq(a, r, e, name, role, st.St.Val, slots, spec, st.St.Pos())
	if role == a.attr("RotationAttribute") {
		rotW(a, r, name, slots, st.St.Pos())
	}
}

func uniq(xs []int64) []int64 {
	var out []int64
	for i, x := range xs {
		if i == 0 || x != xs[i-1] {
			out = append(out, x)
		}
	}
	return out
}

func (a *anchors) attr(constName string) string {
	v, _ := sx.StringConst(a.modeling, constName)
	return v
}

func planeSpecFor(a *anchors, role string, elemSz int64, N, S sx.Poly, haveS bool) (planeSpec, sx.Poly, bool) {
	switch role {
	case a.attr("PositionAttribute"):
		switch elemSz {
		case 1:
			return planeSpec{3, 3, 1, "3 × 24-bit fixed point per splat"}, N.MulConst(9), true
		case 2:
			return planeSpec{3, 1, 2, "3 × float16 per splat (version 1)"}, N.MulConst(6), true
		}
	case a.attr("OpacityAttribute"):
		if elemSz == 1 {
			return planeSpec{1, 1, 1, "1 byte per splat"}, N, true
		}
	case a.attr("FDCAttribute"), a.attr("ScaleAttribute"):
		if elemSz == 1 {
			return planeSpec{3, 1, 1, "3 bytes per splat"}, N.MulConst(3), true
		}
	case a.attr("RotationAttribute"):
		if elemSz == 1 {
			return planeSpec{3, 1, 1, "3 bytes per splat (x,y,z of the quaternion; w derived)"}, N.MulConst(3), true
		}
	case "SH":
		if elemSz == 1 && haveS {
			return planeSpec{3, 1, 1, "3 bytes per coefficient, shDim coefficients per splat"}, N.MulConst(3).Mul(S), true
		}
	}
	return planeSpec{}, sx.Poly{}, false
}

// forwardsResult: the block of call c returns exactly the call's results.
func forwardsResult(c *ssa.Call) bool {
	b := c.Block()
	ret, ok := b.Instrs[len(b.Instrs)-1].(*ssa.Return)
	if !ok {
		return false
	}
	for i, res := range ret.Results {
		ex, ok := res.(*ssa.Extract)
		if !ok || ex.Tuple != ssa.Value(c) || ex.Index != i {
			return false
		}
	}
	return len(ret.Results) > 0
}

// zeroPlaneGuard recognises an early success return under `x == 0` where x is a factor of the plane size.
func zeroPlaneGuard(e *sx.Env, ret *ssa.Return, planeBytes sx.Poly) string {
	b := ret.Block()
	if len(b.Preds) != 1 {
		return ""
	}
	p := b.Preds[0]
	iff, ok := p.Instrs[len(p.Instrs)-1].(*ssa.If)
	if !ok {
		return ""
	}
	cmp, ok := iff.Cond.(*ssa.BinOp)
	if !ok {
		return ""
	}
	onTrue := p.Succs[0] == b
	if !((cmp.Op == token.EQL && onTrue) || (cmp.Op == token.NEQ && !onTrue)) {
		return ""
	}
	x, y := e.Int(cmp.X), e.Int(cmp.Y)
	if c, isC := x.IsConst(); isC && c == 0 {
		x, y = y, x
	}
	if c, isC := y.IsConst(); !isC || c != 0 {
		return ""
	}
	syms := x.Symbols()
	if len(syms) != 1 || !x.Equal(sx.Sym(syms[0])) {
		return ""
	}
	// the plane size vanishes when the symbol does
	if !planeBytes.Subst(syms[0], sx.Const(0)).IsZero() {
		return ""
	}
	return syms[0] + " == 0"
}

// variantGuard: the float16 variant of the positions plane is selected exactly by Version == 1.
func variantGuard(a *anchors, r *sx.Rep, fn *ssa.Function, f *sx.IOOp, hdrT types.Type) {
	key := a.p.FuncName(fn) + "→" + f.Callee.Name()
	b := f.Call.Block()
	pos := a.p.Pos(f.Call.Pos())
	// is the variant the half-float one?
	if len(b.Preds) != 1 {
		r.Undecide("PLANE-1", key, pos, "the positions variant is not selected by a single branch")
		return
	}
	p := b.Preds[0]
	iff, ok := p.Instrs[len(p.Instrs)-1].(*ssa.If)
	if !ok {
		r.Undecide("PLANE-1", key, pos, "the positions variant is not selected by a branch")
		return
	}
	onTrue := p.Succs[0] == b
	vIdx := sx.FieldIndex(hdrT, "Version")
	st := hdrT.Underlying().(*types.Struct)
	inline := func(f *ssa.Function) bool { return f.Pkg == a.spz }
	be := &sx.BoolEval{Inline: inline}
	eval := func(version int64) sx.Tri {
		be.Atom = func(v ssa.Value, ctx *sx.Ctx) (sx.Tri, bool) {
			bo, ok := v.(*ssa.BinOp)
			if !ok {
				return sx.TU, false
			}
			x, y := bo.X, bo.Y
			op := bo.Op
			if _, isC := x.(*ssa.Const); isC {
				x, y = y, x
				switch op {
				case token.LSS:
					op = token.GTR
				case token.GTR:
					op = token.LSS
				case token.LEQ:
					op = token.GEQ
				case token.GEQ:
					op = token.LEQ
				}
			}
			c, isC := ssau.ConstInt(y)
			if !isC {
				return sx.TU, false
			}
			sl := sx.NewSlicer(inline)
			sl.From(x, nil, ctx)
			fr := sl.FieldReads(hdrT)
			if len(fr) != 1 || !fr[st.Field(vIdx)] {
				return sx.TU, false
			}
			var res bool
			switch op {
			case token.EQL:
				res = version == c
			case token.NEQ:
				res = version != c
			case token.LSS:
				res = version < c
			case token.LEQ:
				res = version <= c
			case token.GTR:
				res = version > c
			case token.GEQ:
				res = version >= c
			default:
				return sx.TU, false
			}
			if res {
				return sx.TT, true
			}
			return sx.TF, true
		}
		t := be.Value(iff.Cond, nil)
		if !onTrue {
			t = t.Not()
		}
		return t
	}
	isHalf := false
	// the variant reads uint16 elements?
	ve := sx.NewEnv(f.Callee)
	for _, op := range ve.FindIO(nil) {
		if op.Kind == sx.IOBinaryRead {
			if sl, ok := op.Type.Underlying().(*types.Slice); ok {
				if l, err := sx.Flatten(sl.Elem()); err == nil && l.Size == 2 {
					isHalf = true
				}
			}
		}
	}
	v1, v2 := eval(1), eval(2)
	switch {
	case v1 == sx.TU || v2 == sx.TU:
		r.Undecide("PLANE-1", key, pos, "the condition selecting the positions variant is not a test of Header.Version against constants")
	case isHalf && v1 == sx.TT && v2 == sx.TF:
		r.Hold("PLANE-1", key, pos, "float16 positions selected for Version = 1, 24-bit fixed point for Version = 2 (abstract evaluation of the guard)")
	case !isHalf && v1 == sx.TF && v2 == sx.TT:
		r.Hold("PLANE-1", key, pos, "24-bit positions variant selected for Version = 2")
	default:
		r.Violate("PLANE-1", key, pos, fmt.Sprintf("version 1 streams store float16 positions and version 2 streams 24-bit fixed point; the guard selects this variant for v1:%v v2:%v (half-float variant: %v)", v1 == sx.TT, v2 == sx.TT, isHalf))
	}
}

// vecSlots returns the positional constructor arguments behind a stored
// vector value (through component-wise methods), or the value itself for scalars.
func vecSlots(v ssa.Value) (slots []ssa.Value, swizzle, ok bool) {
	if _, isVec := sx.IsVecType(v.Type()); !isVec {
		return []ssa.Value{v}, false, true
	}
	for i := 0; i < 32; i++ {
		c, isCall := v.(*ssa.Call)
		if !isCall {
			return nil, false, false
		}
		obj := ssau.CalleeObj(c)
		if sx.IsSwizzle(obj) {
			return nil, true, false
		}
		if dim, isNew := sx.VecNew(obj); isNew && len(c.Call.Args) == dim {
			out := make([]ssa.Value, dim)
			for k := range out {
				out[k] = resolveGetter(c.Call.Args[k])
			}
			return out, false, true
		}
		if obj != nil && isVecRecv(obj) {
			switch obj.Name() {
			case "ToFloat64", "ToFloat32", "Scale", "DivByConstant", "Clamp", "Add", "Sub", "MultByConstant":
				if (obj.Name() == "Add" || obj.Name() == "Sub") && fillConst(c.Call.Args[1]) == nil {
					return nil, false, false
				}
				v = c.Call.Args[0]
				continue
			}
		}
		return nil, false, false
	}
	return nil, false, false
}

// resolveGetter turns New(a,b,c).X() into a (component-sensitive shortcut).
func resolveGetter(v ssa.Value) ssa.Value {
	for i := 0; i < 8; i++ {
		c, ok := v.(*ssa.Call)
		if !ok {
			return v
		}
		ax, isG := sx.AxisGetter(ssau.CalleeObj(c))
		if !isG {
			return v
		}
		inner, ok := c.Call.Args[0].(*ssa.Call)
		if !ok {
			return v
		}
		dim, isNew := sx.VecNew(ssau.CalleeObj(inner))
		if !isNew || ax >= dim {
			return v
		}
		v = inner.Call.Args[ax]
	}
	return v
}

// ---- SIGN-1

type bitTerm struct {
	off   int64 // plane offset relative to the record base
	shift int64
}

// bitAssemble decodes an OR/ADD tree of zero-extended plane bytes shifted by constants.
func bitAssemble(e *sx.Env, v ssa.Value, bufRoot ssa.Value, base sx.Poly, ctx *sx.Ctx) ([]bitTerm, bool) {
	switch x := v.(type) {
	case *ssa.Parameter:
		if nv, nctx := bindParam(x, ctx); nv != ssa.Value(x) {
			return bitAssemble(e, nv, bufRoot, base, nctx)
		}
		return nil, false
	case *ssa.Convert:
		// widening of an unsigned byte
		if b, ok := x.X.Type().Underlying().(*types.Basic); ok && b.Info()&types.IsUnsigned != 0 {
			return bitAssemble(e, x.X, bufRoot, base, ctx)
		}
		return nil, false
	case *ssa.BinOp:
		switch x.Op {
		case token.OR, token.ADD, token.XOR:
			l, ok1 := bitAssemble(e, x.X, bufRoot, base, ctx)
			rr, ok2 := bitAssemble(e, x.Y, bufRoot, base, ctx)
			if !ok1 || !ok2 {
				return nil, false
			}
			return append(l, rr...), true
		case token.SHL:
			s, ok := ssau.ConstInt(x.Y)
			if !ok {
				return nil, false
			}
			l, ok := bitAssemble(e, x.X, bufRoot, base, ctx)
			if !ok {
				return nil, false
			}
			out := make([]bitTerm, len(l))
			for i, t := range l {
				out[i] = bitTerm{t.off, t.shift + s}
			}
			return out, true
		}
	case *ssa.UnOp:
		if x.Op == token.MUL {
			ad := sx.ResolveAddr(x.X)
			if ad.Slice == nil {
				return nil, false
			}
			root, off := e.SliceRoot(ad.Slice)
			if root != bufRoot {
				return nil, false
			}
			d := e.Int(ad.SliceIdx).Add(off).Sub(base)
			c, isC := d.IsConst()
			if !isC {
				return nil, false
			}
			return []bitTerm{{c, 0}}, true
		}
	}
	return nil, false
}

func constU64(v ssa.Value) (uint64, bool) {
	c, ok := v.(*ssa.Const)
	if !ok || c.Value == nil || c.Value.Kind() != constant.Int {
		return 0, false
	}
	return constant.Uint64Val(c.Value)
}

// signExt decides SIGN-1 for one component assembled from `width` plane bytes starting at record offset first.
func signExt(a *anchors, r *sx.Rep, e *sx.Env, key string, slot ssa.Value, bufRoot ssa.Value, base sx.Poly, first, width int64, at token.Pos) {
	pos := a.p.Pos(at)
	var ctx *sx.Ctx
	W := uint(8 * width)
	wantSign := uint64(1) << (W - 1)
	wantExt := (^uint64(0) << W) & 0xffffffff
	checkTerms := func(v ssa.Value) (string, bool) {
		terms, ok := bitAssemble(e, v, bufRoot, base, ctx)
		if !ok {
			return "the component is not an OR of zero-extended plane bytes shifted by constants", false
		}
		sort.Slice(terms, func(i, j int) bool { return terms[i].off < terms[j].off })
		if int64(len(terms)) != width {
			return fmt.Sprintf("the component is assembled from %d bytes, %d are stored", len(terms), width), false
		}
		var d []string
		okT := true
		for j, t := range terms {
			d = append(d, fmt.Sprintf("byte+%d<<%d", t.off, t.shift))
			if t.off != first+int64(j) || t.shift != int64(8*j) {
				okT = false
			}
		}
		if !okT {
			return fmt.Sprintf("24-bit little-endian assembly needs byte+%d<<0, byte+%d<<8, byte+%d<<16; found %s", first, first+1, first+2, strings.Join(d, ", ")), false
		}
		return strings.Join(d, " | "), true
	}
	// strip the final signed conversion (looking into a small repository helper if the slot is a call)
	v := slot
	signedConv := false
	for i := 0; i < 8; i++ {
		if cv, ok := v.(*ssa.Convert); ok {
			if b, ok := cv.Type().Underlying().(*types.Basic); ok && b.Info()&types.IsInteger != 0 && b.Info()&types.IsUnsigned == 0 {
				signedConv = true
			}
			v = cv.X
			continue
		}
		if c, ok := v.(*ssa.Call); ok && ctx == nil {
			if callee := c.Call.StaticCallee(); callee != nil && callee.Blocks != nil && callee.Pkg == a.spz {
				if rv, ok := singleReturn(callee); ok {
					ctx = &sx.Ctx{Call: c, Depth: 1}
					v = rv
					continue
				}
			}
		}
		break
	}
	// form (b): int32(x << (32-W)) >> (32-W)
	if sh, ok := v.(*ssa.BinOp); ok && sh.Op == token.SHR {
		if s, isC := ssau.ConstInt(sh.Y); isC {
			inner := sh.X
			isSigned := false
			if b, ok := inner.Type().Underlying().(*types.Basic); ok && b.Info()&types.IsUnsigned == 0 {
				isSigned = true
			}
			for {
				cv, ok := inner.(*ssa.Convert)
				if !ok {
					break
				}
				inner = cv.X
			}
			if shl, ok := inner.(*ssa.BinOp); ok && shl.Op == token.SHL {
				if s2, isC2 := ssau.ConstInt(shl.Y); isC2 {
					desc, okT := checkTerms(shl.X)
					switch {
					case !okT:
						r.Violate("SIGN-1", key, pos, desc)
					case !isSigned || s != s2 || s != int64(32-W):
						r.Violate("SIGN-1", key, pos, fmt.Sprintf("sign extension by shifting needs a signed 32-bit value shifted left and right by %d; found <<%d >>%d (signed: %v)", 32-W, s2, s, isSigned))
					default:
						r.Hold("SIGN-1", key, pos, desc, fmt.Sprintf("sign-extended by int32(x<<%d)>>%d", s2, s))
					}
					return
				}
			}
		}
	}
	// form (a): phi[base, base | EXT] selected by (base & SIGN) != 0
	phi, isPhi := v.(*ssa.Phi)
	if !isPhi {
		if desc, okT := checkTerms(v); okT {
			r.Violate("SIGN-1", key, pos, "the 24-bit value ("+desc+") is used without sign extension: negative coordinates decode as large positive ones")
		} else {
			r.Undecide("SIGN-1", key, pos, "sign-extension idiom not recognised: "+desc)
		}
		return
	}
	if len(phi.Edges) != 2 {
		r.Undecide("SIGN-1", key, pos, "sign-extension idiom not recognised: join of "+fmt.Sprint(len(phi.Edges))+" values")
		return
	}
	var raw ssa.Value
	var ext *ssa.BinOp
	extEdge := -1
	for i, ed := range phi.Edges {
		if bo, ok := ed.(*ssa.BinOp); ok && bo.Op == token.OR {
			other := phi.Edges[1-i]
			if bo.X == other || bo.Y == other {
				ext, raw, extEdge = bo, other, i
			}
		}
	}
	if ext == nil {
		r.Undecide("SIGN-1", key, pos, "sign-extension idiom not recognised: no alternative of the form x | mask")
		return
	}
	desc, okT := checkTerms(raw)
	if !okT {
		r.Violate("SIGN-1", key, pos, desc)
		return
	}
	maskV := ext.Y
	if ext.Y == raw {
		maskV = ext.X
	}
	mask, okM := constU64(maskV)
	if !okM {
		r.Undecide("SIGN-1", key, pos, "extension mask is not a constant")
		return
	}
	if mask&0xffffffff != wantExt {
		r.Violate("SIGN-1", key, pos, fmt.Sprintf("sign extension of a %d-bit value into 32 bits must set bits %d..31 (mask %#x); mask is %#x", W, W, wantExt, mask))
		return
	}
	// the selecting test
	blk := phi.Block()
	extPred := blk.Preds[extEdge]
	var iff *ssa.If
	var onTrue bool
	if len(extPred.Preds) == 1 {
		pp := extPred.Preds[0]
		if i2, ok := pp.Instrs[len(pp.Instrs)-1].(*ssa.If); ok {
			iff, onTrue = i2, pp.Succs[0] == extPred
		}
	}
	if iff == nil {
		r.Undecide("SIGN-1", key, pos, "the test selecting sign extension is not a single branch")
		return
	}
	cmp, ok := iff.Cond.(*ssa.BinOp)
	if !ok {
		r.Undecide("SIGN-1", key, pos, "the test selecting sign extension is not a comparison")
		return
	}
	// evaluate the test abstractly for bit (W-1) set / clear, all other bits arbitrary:
	// accepted shapes: (raw & M) OP c   and   raw OP c
	testOK, testDesc := signTest(cmp, raw, wantSign, onTrue)
	switch testOK {
	case sx.TT:
		r.Hold("SIGN-1", key, pos, desc, fmt.Sprintf("sign bit tested with %s; extension mask %#x", testDesc, mask&0xffffffff), fmt.Sprintf("converted to a signed integer: %v", signedConv))
		if !signedConv {
			r.Violate("SIGN-1", key+".conv", pos, "the sign-extended pattern is never converted to a signed integer")
		}
	case sx.TF:
		r.Violate("SIGN-1", key, pos, fmt.Sprintf("sign extension must be applied exactly when bit %d (mask %#x) is set; the test is %s", W-1, wantSign, testDesc))
	default:
		r.Undecide("SIGN-1", key, pos, "the test selecting sign extension is not recognised: "+testDesc)
	}
}

// signTest decides whether the branch (taken on onTrue) fires exactly when the sign bit of raw is set.
func signTest(cmp *ssa.BinOp, raw ssa.Value, sign uint64, onTrue bool) (sx.Tri, string) {
	x, y := cmp.X, cmp.Y
	op := cmp.Op
	if _, isC := x.(*ssa.Const); isC {
		x, y = y, x
		switch op {
		case token.LSS:
			op = token.GTR
		case token.GTR:
			op = token.LSS
		case token.LEQ:
			op = token.GEQ
		case token.GEQ:
			op = token.LEQ
		}
	}
	c, isC := constU64(y)
	if !isC {
		return sx.TU, "comparison with a non-constant"
	}
	if !onTrue {
		switch op {
		case token.EQL:
			op = token.NEQ
		case token.NEQ:
			op = token.EQL
		case token.LSS:
			op = token.GEQ
		case token.GEQ:
			op = token.LSS
		case token.GTR:
			op = token.LEQ
		case token.LEQ:
			op = token.GTR
		}
	}
	if and, ok := x.(*ssa.BinOp); ok && and.Op == token.AND {
		m, isM := constU64(and.Y)
		inner := and.X
		if !isM {
			m, isM = constU64(and.X)
			inner = and.Y
		}
		if !isM || inner != raw {
			return sx.TU, "mask test of a different value"
		}
		desc := fmt.Sprintf("(x & %#x) %s %#x", m, op, c)
		// fires iff bit set?  (x&m) takes values {0, m} when m is a single bit
		if m != sign {
			return sx.TF, desc
		}
		fires := func(v uint64) bool {
			switch op {
			case token.EQL:
				return v == c
			case token.NEQ:
				return v != c
			case token.GTR:
				return v > c
			case token.GEQ:
				return v >= c
			case token.LSS:
				return v < c
			case token.LEQ:
				return v <= c
			}
			return false
		}
		if fires(m) && !fires(0) {
			return sx.TT, desc
		}
		return sx.TF, desc
	}
	if x == raw {
		// raw is a W-bit value: raw >= sign  <=>  sign bit set
		desc := fmt.Sprintf("x %s %#x", op, c)
		if (op == token.GEQ && c == sign) || (op == token.GTR && c == sign-1) {
			return sx.TT, desc
		}
		return sx.TF, desc
	}
	return sx.TU, "test of a different value"
}

// fillHelper recognises a package-local helper `func(in io.Reader, n T) ([]byte, error)` that
// allocates make([]byte, n), fills it with exactly one io.ReadFull from its stream parameter and
// returns it on success; the result is the index of the size argument (static call, receiver-less), or -1.
func fillHelper(fn *ssa.Function) int {
	if fn == nil || fn.Blocks == nil || fn.Signature.Recv() != nil || fn.Signature.Results().Len() != 2 {
		return -1
	}
	in := streamParamOf(fn)
	if in == nil {
		return -1
	}
	e := sx.NewEnv(fn)
	ops := e.FindIO(nil)
	if len(ops) != 1 || ops[0].Kind != sx.IOReadFull || ops[0].Stream != ssa.Value(in) || ops[0].InLoop {
		return -1
	}
	root, off := e.SliceRoot(ops[0].Data)
	mk, isMk := root.(*ssa.MakeSlice)
	if !isMk || !off.IsZero() {
		return -1
	}
	l := e.Int(mk.Len)
	si := -1
	for i, p := range fn.Params {
		if l.Equal(sx.Sym(p.Name())) {
			si = i
		}
	}
	if si < 0 {
		return -1
	}
	n := 0
	for _, ret := range sx.SuccessReturns(fn) {
		r0, o0 := e.SliceRoot(ret.Results[0])
		if r0 != root || !o0.IsZero() || !ops[0].Call.Block().Dominates(ret.Block()) {
			return -1
		}
		n++
	}
	if n == 0 {
		return -1
	}
	return si
}

// ---------------------------------------------------------------------------
// plane roles through helpers

// planeRoles resolves which mesh attribute a decoded plane becomes, following
// the value through same-package helpers: directly (map key in the function
// that calls the plane reader) or through a field of a package-local struct
// that carries the decoded planes to the function that builds the point cloud.
type planeRoles struct {
	a         *anchors
	closure   []*ssa.Function
	attrs     map[*ssa.Function]map[string]ssa.Value
	fieldRole map[*types.Var]string
}

func newPlaneRoles(a *anchors, read *ssa.Function) *planeRoles {
	pr := &planeRoles{a: a, attrs: map[*ssa.Function]map[string]ssa.Value{}, fieldRole: map[*types.Var]string{}}
	seen := map[*ssa.Function]bool{}
	var add func(f *ssa.Function)
	add = func(f *ssa.Function) {
		if f == nil || f.Blocks == nil || seen[f] || f.Pkg != a.spz {
			return
		}
		seen[f] = true
		pr.closure = append(pr.closure, f)
		ssau.AllInstrs(f, func(in ssa.Instruction) {
			if c, ok := in.(ssa.CallInstruction); ok {
				add(c.Common().StaticCallee())
			}
		})
	}
	add(read)
	for _, f := range pr.closure {
		pr.attrs[f] = pointCloudAttrs(a, f)
	}
	// fields of package-local structs whose content becomes an attribute
	for _, f := range pr.closure {
		ssau.AllInstrs(f, func(in ssa.Instruction) {
			var fv *types.Var
			var v ssa.Value
			switch x := in.(type) {
			case *ssa.UnOp:
				if x.Op == token.MUL {
					if fa, ok := x.X.(*ssa.FieldAddr); ok {
						fv, v = ssau.FieldOf(fa), x
					}
				}
			case *ssa.Field:
				fv, v = ssau.FieldOf(x), x
			}
			if fv == nil || fv.Pkg() != a.spz.Pkg {
				return
			}
			if role := pr.direct(f, v); role != "" {
				pr.fieldRole[fv] = role
			}
		})
	}
	return pr
}

// direct: the value is put into an attribute map of fn under a constant key, or ranged over into SH_<k> keys.
func (pr *planeRoles) direct(fn *ssa.Function, v ssa.Value) string {
	for k, av := range pr.attrs[fn] {
		if av == v {
			return k
		}
	}
	if v.Referrers() == nil {
		return ""
	}
	for _, ref := range *v.Referrers() {
		ia, ok := ref.(*ssa.IndexAddr)
		if !ok {
			continue
		}
		for _, r2 := range *ia.Referrers() {
			ld, ok := r2.(*ssa.UnOp)
			if !ok {
				continue
			}
			for _, r3 := range *ld.Referrers() {
				if mu, ok := r3.(*ssa.MapUpdate); ok && mu.Value == ssa.Value(ld) {
					if c, ok := mu.Key.(*ssa.Call); ok && ssau.IsFunc(ssau.CalleeObj(c), "fmt", "Sprintf") {
						if f, ok := ssau.ConstString(c.Call.Args[0]); ok && strings.HasPrefix(f, "SH_") {
							return "SH"
						}
					}
				}
			}
		}
	}
	return ""
}

// roleOf: role of the first result of a plane-reader call.
func (pr *planeRoles) roleOf(fn *ssa.Function, call *ssa.Call) string {
	for _, ref := range *call.Referrers() {
		ex, ok := ref.(*ssa.Extract)
		if !ok || ex.Index != 0 {
			continue
		}
		if role := pr.direct(fn, ex); role != "" {
			return role
		}
		// stored into a field of a carrier struct
		for _, r2 := range *ex.Referrers() {
			if st, ok := r2.(*ssa.Store); ok && st.Val == ssa.Value(ex) {
				if fa, ok := st.Addr.(*ssa.FieldAddr); ok {
					if role := pr.fieldRole[ssau.FieldOf(fa)]; role != "" {
						return role
					}
				}
			}
		}
	}
	return ""
}

// isAggregator: a same-package function that reads nothing itself but calls further stream functions
// whose results it does not simply forward (it sequences several plane readers).
func isAggregator(a *anchors, fn *ssa.Function) ([]*sx.IOOp, bool) {
	if fn == nil || fn.Blocks == nil || fn.Pkg != a.spz {
		return nil, false
	}
	e := sx.NewEnv(fn)
	ops := e.FindIO(func(f *ssa.Function) bool { return f.Pkg == a.spz })
	if len(ops) < 2 {
		return nil, false
	}
	for _, op := range ops {
		if op.Kind != sx.IOCall || fillHelper(op.Callee) >= 0 {
			return nil, false
		}
	}
	fwd := 0
	for _, op := range ops {
		if forwardsResult(op.Call) {
			fwd++
		}
	}
	if fwd == len(ops) {
		return nil, false
	}
	return ops, true
}

// collect appends the plane calls of fn (in stream order) to out, descending into aggregators.
func (pr *planeRoles) collect(r *sx.Rep, name string, fn *ssa.Function, ops []*sx.IOOp, hdrAlloc *ssa.Alloc, hdrT types.Type, depth int, out *[]planeCall) bool {
	a := pr.a
	if !sx.TotallyOrdered(ops) {
		r.Undecide("PLANE-1", name, a.p.Pos(fn.Pos()), "stream operations of "+fn.Name()+" are not a totally ordered sequence")
		return false
	}
	var stream ssa.Value
	for _, op := range ops {
		if op.Kind != sx.IOCall {
			r.Undecide("PLANE-1", name, a.p.Pos(op.Call.Pos()), "a plane is read inline ("+op.Kind.String()+") rather than by a plane reader function")
			return false
		}
		if op.InLoop {
			r.Undecide("PLANE-1", name, a.p.Pos(op.Call.Pos()), "a plane is read inside a loop")
			return false
		}
		if stream == nil {
			stream = op.Stream
		} else if stream != op.Stream {
			r.Violate("PLANE-1", name, a.p.Pos(op.Call.Pos()), "planes are read from different stream objects")
			return false
		}
		// the receiver / header argument is the header read from this stream
		okRecv := false
		for _, arg := range op.Call.Call.Args {
			if !types.Identical(arg.Type(), hdrT) && !(isPtrToType(arg.Type(), hdrT)) {
				continue
			}
			switch {
			case hdrAlloc != nil:
				if ld, ok := arg.(*ssa.UnOp); ok && ld.Op == token.MUL && ld.X == ssa.Value(hdrAlloc) {
					okRecv = true
				}
				if arg == ssa.Value(hdrAlloc) {
					okRecv = true
				}
			default:
				// inside an aggregator: the header is one of its parameters (possibly spilled)
				if _, ok := arg.(*ssa.Parameter); ok {
					okRecv = true
				}
				if ld, ok := arg.(*ssa.UnOp); ok && ld.Op == token.MUL {
					if al, ok := ld.X.(*ssa.Alloc); ok {
						for _, ref := range *al.Referrers() {
							if st, ok := ref.(*ssa.Store); ok && st.Addr == ssa.Value(al) {
								if _, isP := st.Val.(*ssa.Parameter); isP {
									okRecv = true
								}
							}
						}
					}
				}
			}
		}
		if !okRecv {
			r.Violate("PLANE-1", name+"→"+op.Callee.Name(), a.p.Pos(op.Call.Pos()), "the plane reader is not invoked on the header read from this stream")
			return false
		}
		for _, ret := range sx.SuccessReturns(fn) {
			if !op.Call.Block().Dominates(ret.Block()) {
				r.Violate("PLANE-1", name+"→"+op.Callee.Name(), a.p.Pos(ret.Pos()), "a success return of "+fn.Name()+" is reachable without reading this plane")
				return false
			}
		}
		if sub, ok := isAggregator(a, op.Callee); ok {
			if depth >= 3 {
				r.Undecide("PLANE-1", name, a.p.Pos(op.Call.Pos()), "plane readers nested too deeply in helpers")
				return false
			}
			// the aggregator must read from the stream it is handed
			if sp := streamParamOf(op.Callee); sp == nil || len(sub) == 0 || sub[0].Stream != ssa.Value(sp) {
				r.Undecide("PLANE-1", name, a.p.Pos(op.Call.Pos()), "helper "+op.Callee.Name()+" does not read the planes from its stream parameter")
				return false
			}
			if !pr.collect(r, name, op.Callee, sub, nil, hdrT, depth+1, out) {
				return false
			}
			continue
		}
		*out = append(*out, planeCall{op, pr.roleOf(fn, op.Call)})
	}
	return true
}

func isPtrToType(t, elem types.Type) bool {
	p, ok := t.Underlying().(*types.Pointer)
	return ok && types.Identical(p.Elem(), elem)
}
