package c16

import (
	"go/types"

	"golang.org/x/tools/go/ssa"

	"polycheck/props"
	mc "polycheck/props/meshcommon"
	"polycheck/ssau"
)

// ATTR-2 — the tree is built over the attribute that was asked for. Every function of package modeling that builds
// a trees.OctTree from a mesh and takes an attribute-name parameter hands that very parameter to every
// Primitive.Scope(…) call that produces the tree's elements (directly or inside the scan callback), and the depth
// parameter to the tree constructor. A tree scoped over another attribute answers every query for different
// geometry than the exhaustive search over the requested attribute.
func attrScope(c *props.Ctx) {
	sp := c.P.SSAPkg("modeling")
	if sp == nil {
		c.R.Failf("anchor package modeling not found")
		return
	}
	n := 0
	for _, fn := range c.P.FuncsOf(sp) {
		if fn.Parent() != nil || c.P.IsControl(fn.Pos()) {
			continue
		}
		res := fn.Signature.Results()
		if res.Len() != 1 || !isOctTreePtr(res.At(0).Type()) {
			continue
		}
		var strParams []*ssa.Parameter
		for _, p := range fn.Params {
			if b, ok := p.Type().Underlying().(*types.Basic); ok && b.Kind() == types.String {
				strParams = append(strParams, p)
			}
		}
		if len(strParams) != 1 {
			continue
		}
		atr := strParams[0]
		scopes, good := 0, 0
		var visit func(f *ssa.Function, bind map[*ssa.FreeVar]ssa.Value)
		visit = func(f *ssa.Function, bind map[*ssa.FreeVar]ssa.Value) {
			ssau.AllInstrs(f, func(in ssa.Instruction) {
				switch x := in.(type) {
				case *ssa.MakeClosure:
					if cf, ok := x.Fn.(*ssa.Function); ok {
						b := map[*ssa.FreeVar]ssa.Value{}
						for i, fv := range cf.FreeVars {
							if i < len(x.Bindings) {
								b[fv] = x.Bindings[i]
							}
						}
						for k, v := range bind {
							b[k] = v
						}
						visit(cf, b)
					}
				case ssa.CallInstruction:
					cc := x.Common()
					name := ""
					var args []ssa.Value
					if cc.IsInvoke() {
						name, args = cc.Method.Name(), cc.Args
					} else if o := ssau.CalleeObj(x); o != nil {
						name = o.Name()
						if len(cc.Args) > 0 {
							args = cc.Args[1:]
						}
					}
					if name != "Scope" || len(args) != 1 {
						return
					}
					scopes++
					if resolveToParam(args[0], bind, 0) == atr {
						good++
					}
				}
			})
		}
		visit(fn, map[*ssa.FreeVar]ssa.Value{})
		if scopes == 0 {
			continue
		}
		n++
		construct := c.P.FuncName(fn) + "(" + atr.Name() + ")→Scope"
		if good == scopes {
			c.R.Hold("ATTR-2", construct, c.P.Pos(fn.Pos()), "every element of the tree is scoped over the attribute parameter")
		} else {
			c.R.Violate("ATTR-2", construct, c.P.Pos(fn.Pos()), "the tree's elements are scoped over something other than the attribute parameter "+atr.Name()+": queries are answered for another attribute's geometry")
		}
	}
	_ = mc.ModelingPath
	c.R.Floor("ATTR-2", 1)
}

func isOctTreePtr(t types.Type) bool {
	p, ok := t.Underlying().(*types.Pointer)
	if !ok {
		return false
	}
	n, ok := p.Elem().(*types.Named)
	return ok && n.Obj().Name() == "OctTree"
}

// resolveToParam follows a value through closure bindings and local cells to a parameter.
func resolveToParam(v ssa.Value, bind map[*ssa.FreeVar]ssa.Value, depth int) *ssa.Parameter {
	if depth > 8 {
		return nil
	}
	switch x := v.(type) {
	case *ssa.Parameter:
		return x
	case *ssa.FreeVar:
		if b, ok := bind[x]; ok {
			return resolveToParam(b, bind, depth+1)
		}
	case *ssa.UnOp:
		// load of a captured / spilled cell
		switch a := x.X.(type) {
		case *ssa.FreeVar:
			if b, ok := bind[a]; ok {
				return resolveToParam(b, bind, depth+1)
			}
		case *ssa.Alloc:
			var vals []ssa.Value
			for _, r := range ssau.Refs(a) {
				if st, ok := r.(*ssa.Store); ok && st.Addr == a {
					vals = append(vals, st.Val)
				}
			}
			if len(vals) == 1 {
				return resolveToParam(vals[0], bind, depth+1)
			}
		}
	case *ssa.Alloc:
		var vals []ssa.Value
		for _, r := range ssau.Refs(x) {
			if st, ok := r.(*ssa.Store); ok && st.Addr == x {
				vals = append(vals, st.Val)
			}
		}
		if len(vals) == 1 {
			return resolveToParam(vals[0], bind, depth+1)
		}
	}
	return nil
}
