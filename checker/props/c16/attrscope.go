package c16

import (
	"go/types"

	"golang.org/x/tools/go/ssa"

	"polycheck/props"
	mc "polycheck/props/meshcommon"
	"polycheck/ssau"
)

// ATTR-2 — the tree is built over the attribute that was asked for. Every function of package modeling that builds
// a trees.OctTree from a mesh and takes an attribute-name parameter hands that very parameter to every
// Primitive.Scope(…) call that produces the tree's elements (directly or inside the scan callback), and the depth
// parameter to the tree constructor. A tree scoped over another attribute answers every query for different
// geometry than the exhaustive search over the requested attribute.
func attrScope(c *props.Ctx) {
	sp := c.P.SSAPkg("modeling")
	if sp == nil {
		c.R.Failf("anchor package modeling not found")
		return
	}
	n := 0
	for _, fn := range c.P.FuncsOf(sp) {
		if fn.Parent() != nil || c.P.IsControl(fn.Pos()) {
			continue
		}
		res := fn.Signature.Results()
		if res.Len() != 1 || !isOctTreePtr(res.At(0).Type()) {
			continue
		}
		var strParams []*ssa.Parameter
		for _, p := range fn.Params {
			if b, ok := p.Type().Underlying().(*types.Basic); ok && b.Kind() == types.String {
				strParams = append(strParams, p)
			}
		}
		if len(strParams) != 1 {
			continue
		}
		atr := strParams[0]
		scopes, good, misplaced := 0, 0, 0
		var visit func(f *ssa.Function, bind map[*ssa.FreeVar]ssa.Value)
		visit = func(f *ssa.Function, bind map[*ssa.FreeVar]ssa.Value) {
			ssau.AllInstrs(f, func(in ssa.Instruction) {
				switch x := in.(type) {
				case *ssa.MakeClosure:
					if cf, ok := x.Fn.(*ssa.Function); ok {
						b := map[*ssa.FreeVar]ssa.Value{}
						for i, fv := range cf.FreeVars {
							if i < len(x.Bindings) {
								b[fv] = x.Bindings[i]
							}
						}
						for k, v := range bind {
							b[k] = v
						}
						visit(cf, b)
					}
				case ssa.CallInstruction:
					cc := x.Common()
					name := ""
					var args []ssa.Value
					if cc.IsInvoke() {
						name, args = cc.Method.Name(), cc.Args
					} else if o := ssau.CalleeObj(x); o != nil {
						name = o.Name()
						if len(cc.Args) > 0 {
							args = cc.Args[1:]
						}
					}
					if name != "Scope" || len(args) != 1 {
						return
					}
					scopes++
					if resolveToParam(args[0], bind, 0) == atr {
						good++
					}
					// the element must land in slot i of the primitive list, for every primitive: stored at the
					// scan's own primitive number, unconditionally (a skipped or compacted primitive shifts the
					// identity every query reports)
					if v, ok := x.(ssa.Value); ok {
						if !storedAtOwnIndex(v, f) {
							misplaced++
						}
					}
				}
			})
		}
		visit(fn, map[*ssa.FreeVar]ssa.Value{})
		if scopes == 0 {
			continue
		}
		n++
		construct := c.P.FuncName(fn) + "(" + atr.Name() + ")→Scope"
		if misplaced > 0 {
			c.R.Violate("IDENT-2", c.P.FuncName(fn)+"→elements", c.P.Pos(fn.Pos()), "a scoped primitive is not stored at its own primitive number on every path (appended, skipped under a condition, or stored elsewhere): element i of the tree is no longer primitive i, so every query reports shifted identities")
		} else {
			c.R.Hold("IDENT-2", c.P.FuncName(fn)+"→elements", c.P.Pos(fn.Pos()), "element i of the tree is primitive i: every scoped primitive is stored at the scan's own index, unconditionally")
		}
		if good == scopes {
			c.R.Hold("ATTR-2", construct, c.P.Pos(fn.Pos()), "every element of the tree is scoped over the attribute parameter")
		} else {
			c.R.Violate("ATTR-2", construct, c.P.Pos(fn.Pos()), "the tree's elements are scoped over something other than the attribute parameter "+atr.Name()+": queries are answered for another attribute's geometry")
		}
	}
	_ = mc.ModelingPath
	c.R.Floor("ATTR-2", 1)
	c.R.Floor("IDENT-2", 1)
	attrReach(c)
}

// storedAtOwnIndex: v (a Scope result inside the scan callback f) is stored into slice[i] with i the callback's
// integer parameter, in a block that dominates every return of the callback.
func storedAtOwnIndex(v ssa.Value, f *ssa.Function) bool {
	var idxParam *ssa.Parameter
	for _, p := range f.Params {
		if b, ok := p.Type().Underlying().(*types.Basic); ok && b.Info()&types.IsInteger != 0 {
			idxParam = p
		}
	}
	if idxParam == nil {
		return false
	}
	ok := false
	var walk func(x ssa.Value, depth int)
	walk = func(x ssa.Value, depth int) {
		if depth > 4 {
			return
		}
		for _, r := range *x.Referrers() {
			switch y := r.(type) {
			case *ssa.Store:
				ia, isIA := y.Addr.(*ssa.IndexAddr)
				if !isIA || y.Val != x || ia.Index != idxParam {
					continue
				}
				dom := true
				ssau.AllInstrs(f, func(in ssa.Instruction) {
					if ret, isRet := in.(*ssa.Return); isRet && !y.Block().Dominates(ret.Block()) {
						dom = false
					}
				})
				if dom {
					ok = true
				}
			case *ssa.MakeInterface:
				walk(y, depth+1)
			case *ssa.ChangeInterface:
				walk(y, depth+1)
			}
		}
	}
	walk(v, 0)
	return ok
}

// attrReach (ATTR-3): in the call tree of the Primitive.Scope implementations (package modeling), a function that
// takes an attribute-name parameter reads attribute data through that parameter only — never through a constant
// attribute name: a helper that ignores its attribute parameter makes the scoped element measure another
// attribute's geometry than the one the tree was asked for.
func attrReach(c *props.Ctx) {
	sp := c.P.SSAPkg("modeling")
	if sp == nil {
		return
	}
	var roots []*ssa.Function
	for _, fn := range c.P.FuncsOf(sp) {
		if fn.Name() == "Scope" && fn.Signature.Recv() != nil && fn.Signature.Params().Len() == 1 {
			roots = append(roots, fn)
		}
	}
	seen := map[*ssa.Function]bool{}
	var order []*ssa.Function
	var visit func(f *ssa.Function)
	visit = func(f *ssa.Function) {
		if f == nil || seen[f] || f.Pkg != sp || len(f.Blocks) == 0 {
			return
		}
		seen[f] = true
		order = append(order, f)
		ssau.AllInstrs(f, func(in ssa.Instruction) {
			if ci, ok := in.(ssa.CallInstruction); ok {
				visit(ci.Common().StaticCallee())
			}
		})
		for _, a := range f.AnonFuncs {
			visit(a)
		}
	}
	for _, r := range roots {
		visit(r)
	}
	n := 0
	for _, f := range order {
		if c.P.IsControl(f.Pos()) {
			continue
		}
		var sparam *ssa.Parameter
		for _, p := range f.Params {
			if b, ok := p.Type().Underlying().(*types.Basic); ok && b.Kind() == types.String {
				sparam = p
			}
		}
		if sparam == nil {
			continue
		}
		n++
		constUse := ""
		ssau.AllInstrs(f, func(in ssa.Instruction) {
			switch x := in.(type) {
			case *ssa.Lookup:
				if k, ok := x.Index.(*ssa.Const); ok && k.Value != nil {
					if mt, ok := x.X.Type().Underlying().(*types.Map); ok && types.Identical(mt.Key(), types.Typ[types.String]) {
						constUse = "map lookup under the constant " + k.Value.ExactString()
					}
				}
			case ssa.CallInstruction:
				cal := x.Common().StaticCallee()
				if cal == nil || cal.Pkg != sp {
					return
				}
				for i, a := range x.Common().Args {
					if k, ok := a.(*ssa.Const); ok && k.Value != nil && i < len(cal.Params) {
						if b, ok := cal.Params[i].Type().Underlying().(*types.Basic); ok && b.Kind() == types.String {
							constUse = "call of " + cal.Name() + " with the constant " + k.Value.ExactString()
						}
					}
				}
			}
		})
		construct := c.P.FuncName(f) + "(" + sparam.Name() + ")"
		switch {
		case constUse != "":
			c.R.Violate("ATTR-3", construct, c.P.Pos(f.Pos()), "reached from a Scope implementation with an attribute parameter, but reads attribute data by a constant name ("+constUse+"): the scoped element measures another attribute than the tree was built over")
		case len(*sparam.Referrers()) == 0:
			c.R.Violate("ATTR-3", construct, c.P.Pos(f.Pos()), "reached from a Scope implementation, but its attribute parameter is never used")
		default:
			c.R.Hold("ATTR-3", construct, c.P.Pos(f.Pos()), "attribute data is read through the attribute parameter only")
		}
	}
	c.R.Extra["scope_call_tree_functions"] = len(order)
	c.R.Floor("ATTR-3", 3)
}

func isOctTreePtr(t types.Type) bool {
	p, ok := t.Underlying().(*types.Pointer)
	if !ok {
		return false
	}
	n, ok := p.Elem().(*types.Named)
	return ok && n.Obj().Name() == "OctTree"
}

// resolveToParam follows a value through closure bindings and local cells to a parameter.
func resolveToParam(v ssa.Value, bind map[*ssa.FreeVar]ssa.Value, depth int) *ssa.Parameter {
	if depth > 8 {
		return nil
	}
	switch x := v.(type) {
	case *ssa.Parameter:
		return x
	case *ssa.FreeVar:
		if b, ok := bind[x]; ok {
			return resolveToParam(b, bind, depth+1)
		}
	case *ssa.UnOp:
		// load of a captured / spilled cell
		switch a := x.X.(type) {
		case *ssa.FreeVar:
			if b, ok := bind[a]; ok {
				return resolveToParam(b, bind, depth+1)
			}
		case *ssa.Alloc:
			var vals []ssa.Value
			for _, r := range ssau.Refs(a) {
				if st, ok := r.(*ssa.Store); ok && st.Addr == a {
					vals = append(vals, st.Val)
				}
			}
			if len(vals) == 1 {
				return resolveToParam(vals[0], bind, depth+1)
			}
		}
	case *ssa.Alloc:
		var vals []ssa.Value
		for _, r := range ssau.Refs(x) {
			if st, ok := r.(*ssa.Store); ok && st.Addr == x {
				vals = append(vals, st.Val)
			}
		}
		if len(vals) == 1 {
			return resolveToParam(vals[0], bind, depth+1)
		}
	}
	return nil
}
