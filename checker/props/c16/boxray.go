package c16

// BOX-RAY: the ray/box test every index prunes and accepts with — geometry.AABB.IntersectsRayInRange —
// is the slab predicate on the window [tmin, tmax]:
//
//	crosses  ⇔  max(tmin, near_x, near_y, near_z) < min(tmax, far_x, far_y, far_z),
//	near_k / far_k = min / max of  a_k = (Min().k − ε − o.k)/d.k  and  b_k = (Max().k + ε − o.k)/d.k
//
// (ε ≥ 0 a constant of the source). Decided without numerics, as an ordering argument: the function is
// interpreted symbolically path by path (C17's engine); the comparisons a path has made between the
// eight terms {tmin, tmax, a_k, b_k} are closed under transitivity; a path that answers "crosses" must
// thereby IMPLY the predicate (for every near-set N_i and far-set F_j some n < f is derivable), a path
// that answers "misses" must REFUTE it (for some i, j every f ≤ n is derivable). A "crosses" path on
// which tmin or tmax is never compared is a violation outright: the window is a free parameter, so no
// condition that ignores it can imply the predicate. Anything else that cannot be derived is UNDECIDED.
// Not decided: d.k = 0 (division), NaN, rounding; the sign of d is never needed (near/far are fixed by
// the path's own a_k/b_k comparison).

import (
	"fmt"
	"go/constant"
	"go/token"
	"math/big"
	"sort"
	"strings"

	"golang.org/x/tools/go/ssa"

	"polycheck/props"
	"polycheck/props/c17"
	"polycheck/ssau"
)

type ordRel struct {
	lo, hi int
	strict bool
}

const (
	relNone = 0
	relLE   = 1
	relLT   = 2
)

func checkBoxRay(c *props.Ctx) {
	P := c.P
	R := c.R
	fn := P.Func("math/geometry", "AABB.IntersectsRayInRange")
	if fn == nil || fn.Blocks == nil {
		R.Failf("anchor math/geometry.AABB.IntersectsRayInRange not found: the ray/box test of the spatial indices cannot be decided")
		return
	}
	s, prob := c17.NewSession(c)
	if prob != "" {
		R.Failf("BOX-RAY: engine: %s", prob)
		return
	}
	R.Floor("BOX-RAY", 1)
	sp := P.SSAPkg("math/geometry")
	var fns []*ssa.Function
	fns = append(fns, fn)
	for _, f := range P.FuncsOf(sp) {
		if P.IsControl(f.Pos()) && strings.Contains(f.Name(), "verifControlBOXRAY") {
			fns = append(fns, f)
		}
	}
	for _, f := range fns {
		isCtl := P.IsControl(f.Pos())
		rec := newRecorder(c, isCtl)
		boxRayOne(c, s, rec, f)
		rec.finishControl(P.FuncName(f))
	}
}

func boxRayOne(c *props.Ctx, s *c17.Session, rec *recorder, fn *ssa.Function) {
	P := c.P
	e := s.Engine()
	name := P.FuncName(fn)
	pos := fn.Pos()
	if len(fn.Params) != 4 {
		rec.undecide("BOX-RAY", name, pos, "the test no longer has the shape (box, ray, tmin, tmax)")
		return
	}
	box := e.Sym("box", fn.Params[0].Type())
	ray := e.Sym("ray", fn.Params[1].Type())
	tmin := e.Sym("tmin", fn.Params[2].Type())
	tmax := e.Sym("tmax", fn.Params[3].Type())
	tminS, ok1 := tmin.(c17.Scalar)
	tmaxS, ok2 := tmax.(c17.Scalar)
	if !ok1 || !ok2 {
		rec.undecide("BOX-RAY", name, pos, "the window bounds are not scalars")
		return
	}
	// the box corners and the ray through the package's own accessors
	acc := func(rel, nm string, arg c17.Val) ([]c17.Scalar, string) {
		f := P.Func(rel, nm)
		if f == nil || f.Blocks == nil {
			return nil, "anchor " + nm + " not found"
		}
		v, prob := s.Call(f, arg)
		if prob != "" {
			return nil, nm + ": " + prob
		}
		l := c17.Leaves(v)
		if len(l) != 3 {
			return nil, nm + " does not return a 3-vector"
		}
		return l, ""
	}
	lo, p1 := acc("math/geometry", "AABB.Min", box)
	hi, p2 := acc("math/geometry", "AABB.Max", box)
	o, p3 := acc("math/geometry", "Ray.Origin", ray)
	d, p4 := acc("math/geometry", "Ray.Direction", ray)
	if p1+p2+p3+p4 != "" {
		rec.undecide("BOX-RAY", name, pos, p1+p2+p3+p4)
		return
	}
	// interpret the test
	savedPaths, savedExt := e.MaxPaths, e.Ext
	e.MaxPaths = 40000
	res := e.Run(fn, []c17.Val{box, ray, tmin, tmax})
	looped := false
	for _, p := range res.Paths {
		if p.Kind == c17.EndLoopBack {
			looped = true
		}
	}
	if looped {
		// a slab loop over the three axes: let the engine execute constant-bound loops iteration by iteration
		e.Ext = true
		res = e.Run(fn, []c17.Val{box, ray, tmin, tmax})
	}
	e.MaxPaths = savedPaths
	usedExt := e.Ext
	e.Ext = savedExt
	if res.Err != "" {
		rec.undecide("BOX-RAY", name, pos, "the engine cannot follow the test: "+res.Err)
		return
	}
	type outcome = rayOutcome
	var outs []outcome
	for _, p := range res.Paths {
		switch p.Kind {
		case c17.EndAbort:
			rec.undecide("BOX-RAY", name, pos, "the engine cannot follow a path of the test: "+p.Abort)
			return
		case c17.EndLoopBack:
			rec.undecide("BOX-RAY", name, pos, "the test loops in a way the engine does not unroll")
			return
		case c17.EndReturn:
			if len(p.Ret) != 1 {
				continue
			}
			b, ok := p.Ret[0].(c17.BoolV)
			if !ok {
				rec.undecide("BOX-RAY", name, pos, "a path returns a value that is not a boolean the engine tracks")
				return
			}
			if isC, v := b.Const(); isC {
				outs = append(outs, outcome{p.Conds, v})
			} else {
				outs = append(outs, outcome{append(append([]c17.Atom{}, p.Conds...), b.Atom()), true},
					outcome{append(append([]c17.Atom{}, p.Conds...), b.Atom().Not()), false})
			}
		}
	}
	if len(outs) == 0 {
		rec.undecide("BOX-RAY", name, pos, "no returning path")
		return
	}
	// ε candidates: 0 and the float constants of the source (exact and as float64)
	cands := []*big.Rat{new(big.Rat)}
	seenC := map[string]bool{"0": true}
	var scan func(f *ssa.Function, depth int)
	scanned := map[*ssa.Function]bool{}
	scan = func(f *ssa.Function, depth int) {
		if f == nil || f.Blocks == nil || scanned[f] || depth > 2 {
			return
		}
		scanned[f] = true
		ssau.AllInstrs(f, func(in ssa.Instruction) {
			for _, op := range in.Operands(nil) {
				if op == nil || *op == nil {
					continue
				}
				if k, ok := (*op).(*ssa.Const); ok && k.Value != nil && (k.Value.Kind() == constant.Float || k.Value.Kind() == constant.Int) {
					if r, ok := new(big.Rat).SetString(k.Value.ExactString()); ok && r.Sign() > 0 && r.Cmp(big.NewRat(1, 100)) < 0 {
						for _, x := range []*big.Rat{r, roundFloat(r)} {
							if !seenC[x.String()] {
								seenC[x.String()] = true
								cands = append(cands, x)
							}
						}
					}
				}
			}
			if call, ok := in.(*ssa.Call); ok {
				if callee := call.Common().StaticCallee(); callee != nil && callee.Pkg == fn.Pkg {
					scan(callee, depth+1)
				}
			}
		})
	}
	scan(fn, 0)

	type verdict struct {
		violations, undecided []string
		decided               int
		eps                   *big.Rat
		usedSign              bool
	}
	var best *verdict
	for _, eps := range cands {
		v := decideBoxRay(s, outs, lo, hi, o, d, tminS, tmaxS, eps)
		v2 := &verdict{v.violations, v.undecided, v.decided, eps, v.usedSign}
		if best == nil || len(v2.undecided) < len(best.undecided) || (len(v2.undecided) == len(best.undecided) && len(v2.violations) < len(best.violations)) {
			best = v2
		}
		if len(v2.undecided) == 0 && len(v2.violations) == 0 {
			break
		}
	}
	epsStr := best.eps.FloatString(12)
	switch {
	case len(best.violations) > 0:
		rec.violate("BOX-RAY", name, pos, best.violations[0], best.violations...)
	case len(best.undecided) > 0:
		rec.undecide("BOX-RAY", name, pos, fmt.Sprintf("%d of %d outcomes are not decided by the orderings their paths establish (ε = %s); e.g. %s", len(best.undecided), len(outs), epsStr, best.undecided[0]))
	default:
		how := "paths"
		if usedExt && looped {
			how = "paths (slab loop unrolled)"
		}
		if best.usedSign {
			how += "; near/far chosen by the sign of the direction: assumes the box is not inverted (Min().k − ε ≤ Max().k + ε)"
		}
		rec.hold("BOX-RAY", name, pos,
			"crosses ⇔ max(tmin, near_k) < min(tmax, far_k), near/far = min/max((Min().k−ε−o.k)/d.k, (Max().k+ε−o.k)/d.k), ε = "+epsStr,
			fmt.Sprintf("%d feasible outcomes over %d %s: every `true` implies the predicate and every `false` refutes it by the transitive closure of the path's own comparisons", best.decided, len(res.Paths), how))
	}
}

func roundFloat(r *big.Rat) *big.Rat {
	f, _ := r.Float64()
	out := new(big.Rat)
	out.SetFloat64(f)
	return out
}

type rayOutcome struct {
	conds  []c17.Atom
	result bool
}

type boxRayVerdict struct {
	violations, undecided []string
	decided               int
	usedSign              bool
}

// decideBoxRay judges every outcome for one ε.
func decideBoxRay(s *c17.Session, list []rayOutcome, lo, hi, o, d []c17.Scalar, tmin, tmax c17.Scalar, eps *big.Rat) boxRayVerdict {
	e := s.Engine()
	epsS := s.ConstRat(eps)
	// terms: 0 tmin, 1 tmax, 2+2k a_k, 3+2k b_k
	terms := []c17.Scalar{tmin, tmax}
	names := []string{"tmin", "tmax"}
	for k := 0; k < 3; k++ {
		a, okA := e.Div(e.Sub(e.Sub(lo[k], epsS), o[k]), d[k])
		b, okB := e.Div(e.Sub(e.Add(hi[k], epsS), o[k]), d[k])
		if !okA || !okB {
			return boxRayVerdict{undecided: []string{"division by an identically zero direction"}}
		}
		terms = append(terms, a, b)
		ax := "xyz"[k : k+1]
		names = append(names, "a_"+ax, "b_"+ax)
	}
	table := map[string]ordRel{}
	add := func(key string, r ordRel) {
		if _, have := table[key]; !have {
			table[key] = r
		}
	}
	for x := range terms {
		for y := range terms {
			if x == y {
				continue
			}
			for _, op := range []token.Token{token.LSS, token.LEQ, token.GTR, token.GEQ} {
				b := e.CmpAtom(op, terms[x], terms[y])
				if isC, _ := b.Const(); isC {
					continue
				}
				var pos, neg ordRel
				switch op {
				case token.LSS: // x < y ; ¬: y <= x
					pos, neg = ordRel{x, y, true}, ordRel{y, x, false}
				case token.LEQ:
					pos, neg = ordRel{x, y, false}, ordRel{y, x, true}
				case token.GTR: // y < x ; ¬: x <= y
					pos, neg = ordRel{y, x, true}, ordRel{x, y, false}
				case token.GEQ:
					pos, neg = ordRel{y, x, false}, ordRel{x, y, true}
				}
				add(b.Atom().Key(), pos)
				add(b.Atom().NegKey(), neg)
			}
		}
	}
	// the textbook form orders a_k, b_k by the sign of the direction (or of its reciprocal): with a box that is
	// not inverted (Min().k − ε ≤ Max().k + ε, an assumption recorded when used) d.k < 0 ⇒ b_k ≤ a_k, d.k > 0 ⇒ a_k ≤ b_k
	signKeys := map[string]bool{}
	for k := 0; k < 3; k++ {
		inv, okInv := e.Div(s.Const(1), d[k])
		xs := []c17.Scalar{d[k]}
		if okInv {
			xs = append(xs, inv)
		}
		a, b := 2+2*k, 3+2*k
		for _, x := range xs {
			for _, op := range []token.Token{token.LSS, token.LEQ, token.GTR, token.GEQ} {
				bv := e.CmpAtom(op, x, s.Const(0))
				if isC, _ := bv.Const(); isC {
					continue
				}
				neg, pos := ordRel{b, a, false}, ordRel{a, b, false} // x negative / x positive
				var onTrue, onFalse ordRel
				switch op {
				case token.LSS, token.LEQ:
					onTrue, onFalse = neg, pos
				default:
					onTrue, onFalse = pos, neg
				}
				if _, have := table[bv.Atom().Key()]; !have {
					table[bv.Atom().Key()] = onTrue
					signKeys[bv.Atom().Key()] = true
				}
				if _, have := table[bv.Atom().NegKey()]; !have {
					table[bv.Atom().NegKey()] = onFalse
					signKeys[bv.Atom().NegKey()] = true
				}
			}
		}
	}
	nearSets := [][]int{{0}, {2, 3}, {4, 5}, {6, 7}}
	farSets := [][]int{{1}, {2, 3}, {4, 5}, {6, 7}}
	var out boxRayVerdict
	n := len(terms)
	for _, oc := range list {
		var R [8][8]int
		mentions := [2]bool{}
		for _, a := range oc.conds {
			if strings.Contains(a.Key(), "tmin") {
				mentions[0] = true
			}
			if strings.Contains(a.Key(), "tmax") {
				mentions[1] = true
			}
			if signKeys[a.Key()] {
				out.usedSign = true
			}
			if r, ok := table[a.Key()]; ok {
				v := relLE
				if r.strict {
					v = relLT
				}
				if R[r.lo][r.hi] < v {
					R[r.lo][r.hi] = v
				}
			}
		}
		// transitive closure (a chain is strict if one link is)
		for k := 0; k < n; k++ {
			for i := 0; i < n; i++ {
				if R[i][k] == relNone {
					continue
				}
				for j := 0; j < n; j++ {
					if R[k][j] == relNone {
						continue
					}
					v := relLE
					if R[i][k] == relLT || R[k][j] == relLT {
						v = relLT
					}
					if R[i][j] < v {
						R[i][j] = v
					}
				}
			}
		}
		infeasible := false
		for i := 0; i < n; i++ {
			if R[i][i] == relLT {
				infeasible = true
			}
		}
		if infeasible {
			continue
		}
		conds := func() string {
			var cs []string
			for _, a := range oc.conds {
				k := a.Key()
				if len(k) > 90 {
					k = k[:90] + "…"
				}
				cs = append(cs, k)
			}
			if len(cs) > 6 {
				cs = append(cs[:6], "…")
			}
			return strings.Join(cs, " ∧ ")
		}
		if oc.result {
			// must imply: for all i, j some n in N_i, f in F_j with n < f
			if !mentions[0] || !mentions[1] {
				var which []string
				if !mentions[0] {
					which = append(which, "tmin")
				}
				if !mentions[1] {
					which = append(which, "tmax")
				}
				out.violations = append(out.violations, "the test answers `crosses` on a path that never compares the window bound "+strings.Join(which, " / ")+" (conditions: "+conds()+"): a ray whose window lies entirely outside the stretch where it is inside the box is reported as crossing, so the indices return elements the exhaustive scan does not")
				continue
			}
			ok := true
			var miss string
			for i, N := range nearSets {
				for j, F := range farSets {
					found := false
					for _, a := range N {
						for _, f := range F {
							if a != f && R[a][f] == relLT {
								found = true
							}
						}
					}
					if !found {
						ok = false
						miss = fmt.Sprintf("near_%d < far_%d", i, j)
					}
				}
			}
			if ok {
				out.decided++
			} else {
				out.undecided = append(out.undecided, "`crosses` under "+conds()+" does not establish "+miss)
			}
			continue
		}
		// must refute: some i, j with every f <= n
		refuted := false
		for _, N := range nearSets {
			for _, F := range farSets {
				all := true
				for _, a := range N {
					for _, f := range F {
						if a == f {
							continue
						}
						if R[f][a] == relNone {
							all = false
						}
					}
				}
				// (same axis: every f <= n then means a_k = b_k, an empty slab interior — a genuine miss)
				if all {
					refuted = true
				}
			}
		}
		if refuted {
			out.decided++
		} else {
			out.undecided = append(out.undecided, "`misses` under "+conds()+" does not establish that some near bound reaches some far bound")
		}
	}
	sort.Strings(out.violations)
	out.violations = uniq(out.violations)
	_ = names
	return out
}
