package c16

// Construction rules of the octree: BND-1 (node bounds), CONS-1 (no element lost or
// duplicated while distributing; every bucket recursed; every non-nil child kept),
// IDENT-1 (b) (the original index is assigned once, from the input position).

import (
	"fmt"
	"go/token"
	"go/types"
	"regexp"
	"sort"
	"strings"

	"golang.org/x/tools/go/ssa"

	"polycheck/ob"
	"polycheck/props"
	"polycheck/ssau"
)

// ---------------------------------------------------------------- recorder (repository vs control)

type recorder struct {
	c                            *props.Ctx
	ctl                          bool
	holds, violations, undecided int
	note                         string
	msgs                         []string
}

func newRecorder(c *props.Ctx, isCtl bool) *recorder { return &recorder{c: c, ctl: isCtl} }

func (r *recorder) hold(rule, construct string, pos token.Pos, facts ...string) {
	r.holds++
	if !r.ctl {
		r.c.R.Hold(rule, construct, r.c.P.Pos(pos), facts...)
	}
}

func (r *recorder) violate(rule, construct string, pos token.Pos, msg string, facts ...string) {
	r.violations++
	r.msgs = append(r.msgs, rule+": "+msg)
	if !r.ctl {
		r.c.R.Violate(rule, construct, r.c.P.Pos(pos), msg, facts...)
	}
}

func (r *recorder) undecide(rule, construct string, pos token.Pos, msg string) {
	r.undecided++
	r.msgs = append(r.msgs, rule+" undecided: "+msg)
	if !r.ctl {
		r.c.R.Undecide(rule, construct, r.c.P.Pos(pos), msg)
	}
}

// loopVerdict: an understood-but-partial loop is a violation, an unknown loop shape is undecided.
func (r *recorder) loopVerdict(il *indexLoop, rule, construct string, pos token.Pos, msg string) {
	if il.partial {
		r.violate(rule, construct, pos, "the loop does not cover every element: "+il.why)
		return
	}
	r.undecide(rule, construct, pos, msg)
}

var ctlName = regexp.MustCompile(`verifControl([A-Za-z]+?)([0-9]*)(Bad|Good)`)

var ruleNames = map[string]string{"PRUNE": "PRUNE-1", "CHILD": "CHILD-1", "IDENT": "IDENT-1", "KEY": "KEY-1", "ORD": "ORD-3", "BND": "BND-1", "CONS": "CONS-1", "BVH": "BVH-2", "SPLIT": "BVH-1", "BOXRAY": "BOX-RAY"}

// finishControl turns what was collected for a control function into a Control record.
func (r *recorder) finishControl(name string) {
	if !r.ctl {
		return
	}
	m := ctlName.FindStringSubmatch(name)
	if m == nil {
		return
	}
	rule := ruleNames[m[1]]
	if rule == "" {
		rule = m[1]
	}
	got := ob.Holds
	if r.violations+r.undecided > 0 {
		got = ob.Violation
	}
	want := ob.Holds
	msg := "accepted idiom must stay silent"
	if m[3] == "Bad" {
		want = ob.Violation
		msg = "seeded defect must be reported"
	}
	if len(r.msgs) > 0 {
		s := r.msgs[0]
		if len(s) > 220 {
			s = s[:220] + "…"
		}
		msg += ": " + s
	}
	short := name
	if i := strings.LastIndex(name, "."); i >= 0 {
		short = name[i+1:]
	}
	r.c.R.Control(rule, "control:"+short, "zz_verif_control_c16.go", got, want, msg)
}

// ---------------------------------------------------------------- tree literals

type treeLit struct {
	fn     *ssa.Function
	alloc  *ssa.Alloc
	fields map[*types.Var]ssa.Value
}

func (a *anchors) treeLiterals(fn *ssa.Function) []*treeLit {
	var out []*treeLit
	ssau.AllInstrs(fn, func(in ssa.Instruction) {
		al, ok := in.(*ssa.Alloc)
		if !ok || !sameNamed(al.Type().Underlying().(*types.Pointer).Elem(), a.tree) {
			return
		}
		lit := &treeLit{fn: fn, alloc: al, fields: map[*types.Var]ssa.Value{}}
		for _, r := range ssau.Refs(al) {
			fa, ok := r.(*ssa.FieldAddr)
			if !ok || fa.X != al {
				continue
			}
			for _, r2 := range ssau.Refs(fa) {
				if st, ok := r2.(*ssa.Store); ok && st.Addr == fa {
					lit.fields[ssau.FieldOf(fa)] = st.Val
				}
			}
		}
		// a local copy of the receiver/parameter is not a literal
		for _, r := range ssau.Refs(al) {
			if st, ok := r.(*ssa.Store); ok && st.Addr == al {
				return
			}
		}
		if len(lit.fields) > 0 {
			out = append(out, lit)
		}
	})
	return out
}

func (a *anchors) elemSliceParam(fn *ssa.Function) *ssa.Parameter {
	var found *ssa.Parameter
	for _, p := range fn.Params {
		if sl, ok := p.Type().Underlying().(*types.Slice); ok && sameNamed(sl.Elem(), a.elem) {
			if found != nil {
				return nil
			}
			found = p
		}
	}
	return found
}

// curElem: is t the element S[index] of the recognised loop il?
func curElem(tm *termer, il *indexLoop, t *term) bool {
	e := strip(t)
	return e.op == "elem" && len(e.args) == 2 && e.args[1].val == il.index && e.args[0].String() == tm.of(il.slice).String()
}

func (a *anchors) checkBuilders() {
	c := a.c
	P := c.P
	nLits := 0
	for _, fn := range a.fns {
		if fn.Parent() != nil {
			continue
		}
		lits := a.treeLiterals(fn)
		if len(lits) == 0 {
			continue
		}
		isCtl := P.IsControl(fn.Pos())
		rec := newRecorder(c, isCtl)
		name := P.FuncName(fn)
		tm := newTermer(fn)
		loops := ssau.Loops(fn)
		S := a.elemSliceParam(fn)
		for _, lit := range lits {
			if !isCtl {
				nLits++
			}
			a.bnd1(rec, fn, name, tm, loops, S, lit)
		}
		// CONS-1 applies to builders that recurse
		recursive := false
		ssau.AllInstrs(fn, func(in ssa.Instruction) {
			if call, ok := in.(*ssa.Call); ok && call.Common().StaticCallee() == fn {
				recursive = true
			}
		})
		if recursive && S != nil {
			a.cons1(rec, fn, name, tm, loops, S, lits)
		}
		rec.finishControl(name)
	}
	c.R.Extra["bnd1_tree_literals"] = nLits
}

func litKey(a *anchors, tm *termer, lit *treeLit) string {
	if cv, has := lit.fields[a.fChildren]; has && !isNilConst(cv) {
		return "#inner"
	}
	ev, ok := lit.fields[a.fElements]
	if !ok {
		return "#empty"
	}
	if _, isParam := ev.(*ssa.Parameter); isParam {
		return "#leaf"
	}
	if sl, isSl := ev.(*ssa.Slice); isSl {
		if arr, isAl := sl.X.(*ssa.Alloc); isAl {
			if at, isArr := arr.Type().Underlying().(*types.Pointer).Elem().Underlying().(*types.Array); isArr {
				return fmt.Sprintf("#leaf%d", at.Len())
			}
		}
	}
	return "#leaf?"
}

func (a *anchors) bnd1(rec *recorder, fn *ssa.Function, name string, tm *termer, loops []*ssau.Loop, S *ssa.Parameter, lit *treeLit) {
	construct := name + "→" + a.tree.Obj().Name() + litKey(a, tm, lit)
	pos := lit.alloc.Pos()
	bv, ok := lit.fields[a.fBounds]
	if !ok {
		rec.violate("BND-1", construct, pos, "a tree node is built without bounds (the zero box prunes everything away from the origin)")
		return
	}
	bt := tm.of(bv)
	// a local box that is grown through its address is case (ii) whatever it was initialised with
	grown := false
	if ld, isLoad := bv.(*ssa.UnOp); isLoad && ld.Op == token.MUL {
		if al, isAl := ld.X.(*ssa.Alloc); isAl {
			for _, r := range ssau.Refs(al) {
				if call, isCall := r.(*ssa.Call); isCall && len(call.Common().Args) > 0 && call.Common().Args[0] == ssa.Value(al) {
					grown = true
				}
			}
		}
	}
	// (i) one element's bounds, the node holding exactly that element
	if !grown && bt.op == "field" && bt.obj == a.fEBounds {
		owner := strip(bt.args[0])
		ev := lit.fields[a.fElements]
		if sl, ok := ev.(*ssa.Slice); ok {
			if arr, ok := sl.X.(*ssa.Alloc); ok {
				if at, ok := arr.Type().Underlying().(*types.Pointer).Elem().Underlying().(*types.Array); ok && at.Len() == 1 {
					var stored *term
					for _, r := range ssau.Refs(arr) {
						if ia, ok := r.(*ssa.IndexAddr); ok {
							for _, r2 := range ssau.Refs(ia) {
								if st, ok := r2.(*ssa.Store); ok && st.Addr == ia {
									stored = strip(tm.of(st.Val))
								}
							}
						}
					}
					if stored != nil && stored.String() == owner.String() {
						if cv, has := lit.fields[a.fChildren]; has && !isNilConst(cv) {
							rec.violate("BND-1", construct, pos, "the node takes the bounds of one element but also has children")
							return
						}
						rec.hold("BND-1", construct, pos, "bounds = bounds of the single element the node holds ("+owner.String()+")")
						return
					}
					rec.violate("BND-1", construct, pos, "the node takes the bounds of "+owner.String()+" but holds "+fmt.Sprint(stored))
					return
				}
			}
		}
		rec.violate("BND-1", construct, pos, "the node takes the bounds of one element ("+owner.String()+") but does not hold exactly that element")
		return
	}
	// (ii) a local box grown over every element of the slice being distributed
	ld, ok := bv.(*ssa.UnOp)
	var box *ssa.Alloc
	if ok && ld.Op == token.MUL {
		box, _ = ld.X.(*ssa.Alloc)
	}
	if box == nil || !isAABB(box.Type().Underlying().(*types.Pointer).Elem()) {
		rec.undecide("BND-1", construct, pos, "the bounds value is neither an element's bounds nor a local box: "+bt.String())
		return
	}
	if S == nil {
		rec.undecide("BND-1", construct, pos, "the builder has no unique []"+a.elem.Obj().Name()+" parameter")
		return
	}
	var grow *ssa.Call
	var growLoop *ssau.Loop
	var growIL *indexLoop
	var problems []string
	for _, r := range ssau.Refs(box) {
		switch x := r.(type) {
		case *ssa.Call:
			if len(x.Common().Args) == 0 || x.Common().Args[0] != box {
				problems = append(problems, "?the box is passed to "+tm.of(x).String())
				continue
			}
			obj := ssau.CalleeObj(x)
			switch {
			case ssau.IsMethod(obj, geomPath, "AABB", "EncapsulateBounds"):
				l := ssau.InnermostLoop(loops, x.Block())
				if l == nil {
					continue // an extra encapsulation outside a loop only grows the box
				}
				il := recogniseIndexLoop(l)
				if il.why != "" {
					if il.partial && il.slice == ssa.Value(S) {
						problems = append(problems, "the loop that grows the box does not cover every element: "+il.why)
					} else {
						problems = append(problems, "?the loop that grows the box is not a recognised full-range loop: "+il.why)
					}
					continue
				}
				if il.slice != ssa.Value(S) {
					continue
				}
				arg := tm.of(x.Common().Args[1])
				if !(arg.op == "field" && arg.obj == a.fEBounds && curElem(tm, il, arg.args[0])) {
					problems = append(problems, "the box is grown by "+arg.String()+", not by the bounds of the element under the loop index")
					continue
				}
				grow, growLoop, growIL = x, l, il
			case ssau.IsMethod(obj, geomPath, "AABB", "EncapsulatePoint"):
			default:
				problems = append(problems, "?the box is modified by "+tm.of(x).String())
			}
		case *ssa.Store:
			if x.Addr == box {
				// whole-value stores must precede the growing loop (checked below)
			}
		}
	}
	_ = growIL
	if grow == nil {
		msg := "the bounds box is never grown by EncapsulateBounds over all elements of " + S.Name()
		if len(problems) > 0 {
			msg += " (" + strings.TrimPrefix(problems[0], "?") + ")"
		}
		rec.violate("BND-1", construct, pos, msg)
		return
	}
	for _, p := range problems {
		if strings.HasPrefix(p, "?") {
			rec.undecide("BND-1", construct, pos, p[1:])
		} else {
			rec.violate("BND-1", construct, pos, p)
		}
		return
	}
	if ex := earlyExits(growLoop); len(ex) > 0 {
		rec.violate("BND-1", construct, pos, fmt.Sprintf("the loop that grows the bounds can be left early (block %d): later elements may lie outside the node's bounds and are then pruned away", ex[0].Index))
		return
	}
	if skippable(growLoop, grow.Block(), nil) {
		rec.violate("BND-1", construct, pos, "an iteration of the loop that grows the bounds can skip EncapsulateBounds: that element may lie outside the node's bounds")
		return
	}
	if growLoop.Blocks[lit.alloc.Block()] || !growLoop.Header.Dominates(lit.alloc.Block()) {
		rec.violate("BND-1", construct, pos, "the node is built before / inside the loop that grows its bounds")
		return
	}
	for _, r := range ssau.Refs(box) {
		if st, ok := r.(*ssa.Store); ok && st.Addr == box {
			if !st.Block().Dominates(growLoop.Header) || growLoop.Blocks[st.Block()] {
				rec.violate("BND-1", construct, pos, "the bounds box is overwritten after (or while) it was grown over the elements")
				return
			}
		}
	}
	rec.hold("BND-1", construct, pos, "bounds = local box after EncapsulateBounds("+S.Name()+"[i].bounds) for every i (full-range loop, no early exit, dominates the literal)")
}

// ---------------------------------------------------------------- CONS-1

// intSet evaluates the set of integer values v can take (constants through phi / or / add / calls).
func intSet(v ssa.Value, depth int) (map[int64]bool, bool) {
	if depth > 6 {
		return nil, false
	}
	switch x := v.(type) {
	case *ssa.Const:
		if k, ok := ssau.ConstInt(x); ok {
			return map[int64]bool{k: true}, true
		}
	case *ssa.Phi:
		out := map[int64]bool{}
		for _, e := range x.Edges {
			s, ok := intSet(e, depth+1)
			if !ok {
				return nil, false
			}
			for k := range s {
				out[k] = true
			}
		}
		return out, true
	case *ssa.Convert:
		return intSet(x.X, depth+1)
	case *ssa.BinOp:
		l, ok1 := intSet(x.X, depth+1)
		r, ok2 := intSet(x.Y, depth+1)
		if !ok1 || !ok2 || len(l)*len(r) > 256 {
			return nil, false
		}
		out := map[int64]bool{}
		for a := range l {
			for b := range r {
				switch x.Op {
				case token.OR:
					out[a|b] = true
				case token.ADD:
					out[a+b] = true
				case token.SUB:
					out[a-b] = true
				case token.MUL:
					out[a*b] = true
				case token.AND:
					out[a&b] = true
				case token.XOR:
					out[a^b] = true
				case token.SHL:
					if b < 0 || b > 32 {
						return nil, false
					}
					out[a<<uint(b)] = true
				default:
					return nil, false
				}
			}
		}
		return out, true
	case *ssa.Call:
		callee := x.Common().StaticCallee()
		if callee == nil || callee.Blocks == nil {
			return nil, false
		}
		out := map[int64]bool{}
		ok := true
		ssau.AllInstrs(callee, func(in ssa.Instruction) {
			if r, isRet := in.(*ssa.Return); isRet && len(r.Results) == 1 {
				s, ok2 := intSet(r.Results[0], depth+1)
				if !ok2 {
					ok = false
					return
				}
				for k := range s {
					out[k] = true
				}
			}
		})
		return out, ok && len(out) > 0
	}
	return nil, false
}

// bodyPathCounts enumerates the acyclic paths of one loop iteration and returns
// the minimum and maximum number of marked instructions met on a path.
func bodyPathCounts(l *ssau.Loop, weight map[*ssa.BasicBlock]int) (min, max int, ok bool) {
	min, max = 1<<30, -1
	var walk func(b *ssa.BasicBlock, n int, onPath map[*ssa.BasicBlock]bool) bool
	steps := 0
	walk = func(b *ssa.BasicBlock, n int, onPath map[*ssa.BasicBlock]bool) bool {
		steps++
		if steps > 20000 {
			return false
		}
		if b == l.Header {
			if n < min {
				min = n
			}
			if n > max {
				max = n
			}
			return true
		}
		if !l.Blocks[b] {
			return true // leaves the loop: early exits are judged separately
		}
		if onPath[b] {
			return false // inner cycle
		}
		onPath[b] = true
		defer delete(onPath, b)
		n += weight[b]
		for _, s := range b.Succs {
			if !walk(s, n, onPath) {
				return false
			}
		}
		return true
	}
	if !walk(l.Header.Succs[0], 0, map[*ssa.BasicBlock]bool{}) {
		return 0, 0, false
	}
	return min, max, max >= 0
}

func flowsTo(from ssa.Value, to ssa.Value) bool {
	seen := map[ssa.Value]bool{}
	var rec func(v ssa.Value) bool
	rec = func(v ssa.Value) bool {
		if v == from {
			return true
		}
		if seen[v] {
			return false
		}
		seen[v] = true
		switch x := v.(type) {
		case *ssa.Phi:
			for _, e := range x.Edges {
				if rec(e) {
					return true
				}
			}
		case *ssa.Call:
			if base, _, _, ok := appendedValues(x); ok {
				return rec(base)
			}
		case *ssa.Slice:
			return rec(x.X)
		}
		return false
	}
	return rec(to)
}

func (a *anchors) cons1(rec *recorder, fn *ssa.Function, name string, tm *termer, loops []*ssau.Loop, S *ssa.Parameter, lits []*treeLit) {
	pos := fn.Pos()
	// ---- distribution loop(s): full-range loops over S that append S[i] somewhere
	type app struct {
		call *ssa.Call
		il   *indexLoop
	}
	var apps []app
	distLoops := map[*ssau.Loop]*indexLoop{}
	var undec, partial []string
	ssau.AllInstrs(fn, func(in ssa.Instruction) {
		call, ok := in.(*ssa.Call)
		if !ok {
			return
		}
		_, vals, _, ok := appendedValues(call)
		if !ok || vals == nil {
			return
		}
		sl, isSl := call.Type().Underlying().(*types.Slice)
		if !isSl || !sameNamed(sl.Elem(), a.elem) {
			return
		}
		l := ssau.InnermostLoop(loops, call.Block())
		if l == nil {
			return
		}
		il := distLoops[l]
		if il == nil {
			il = recogniseIndexLoop(l)
			distLoops[l] = il
		}
		if il.why != "" || il.slice != ssa.Value(S) {
			if il.why != "" && lenOfSliceIs(il, S) {
				if il.partial {
					partial = append(partial, il.why)
				} else {
					undec = append(undec, "the loop that distributes the elements is not a recognised full-range loop: "+il.why)
				}
			}
			return
		}
		for _, v := range vals {
			if curElem(tm, il, tm.of(v)) {
				apps = append(apps, app{call, il})
			} else {
				undec = append(undec, "inside the distribution loop "+tm.of(v).String()+" is appended, not the element under the loop index")
			}
		}
	})
	dist := name + "#distribution"
	if len(partial) > 0 {
		rec.violate("CONS-1", dist, pos, "the distribution loop does not cover every element of "+S.Name()+": "+partial[0]+" (the others are in no child and not in the node)")
		return
	}
	if len(undec) > 0 {
		rec.undecide("CONS-1", dist, pos, undec[0])
		return
	}
	if len(apps) == 0 {
		rec.violate("CONS-1", dist, pos, "the recursive builder never distributes the elements of "+S.Name()+" into child lists")
		return
	}
	ok := true
	var dl *ssau.Loop
	for _, ap := range apps {
		if dl != nil && dl != ap.il.loop {
			rec.undecide("CONS-1", dist, pos, "elements are distributed by more than one loop")
			return
		}
		dl = ap.il.loop
	}
	if ex := earlyExits(dl); len(ex) > 0 {
		rec.violate("CONS-1", dist, pos, fmt.Sprintf("the distribution loop can be left early (block %d): the remaining elements are in no child and not in the node", ex[0].Index))
		ok = false
	}
	weight := map[*ssa.BasicBlock]int{}
	for _, ap := range apps {
		weight[ap.call.Block()]++
	}
	mn, mx, okPaths := bodyPathCounts(dl, weight)
	switch {
	case !okPaths:
		rec.undecide("CONS-1", dist, pos, "the body of the distribution loop is not a simple branch structure")
		ok = false
	case mn == 0:
		rec.violate("CONS-1", dist, pos, "on some path through the distribution loop the element is appended to no list: it disappears from the tree")
		ok = false
	case mx > 1:
		rec.violate("CONS-1", dist, pos, fmt.Sprintf("on some path through the distribution loop the element is appended %d times: it is returned more than once", mx))
		ok = false
	}
	// ---- where do the appends go?
	var bucketArr *ssa.Alloc // array behind the slice of buckets
	var bucketSlice ssa.Value
	var idxVals []ssa.Value
	var lists []ssa.Value // loop-carried plain lists (leftOver)
	for _, ap := range apps {
		base, _, _, _ := appendedValues(ap.call)
		if ld, isLoad := base.(*ssa.UnOp); isLoad && ld.Op == token.MUL {
			if ia, isIA := ld.X.(*ssa.IndexAddr); isIA {
				// result must be stored back to the same bucket
				stored := false
				for _, r := range ssau.Refs(ap.call) {
					if st, isSt := r.(*ssa.Store); isSt && st.Val == ssa.Value(ap.call) {
						ia2, isIA2 := st.Addr.(*ssa.IndexAddr)
						if !isIA2 || tm.of(ia2.X).String() != tm.of(ia.X).String() || ia2.Index != ia.Index {
							rec.violate("CONS-1", dist, ap.call.Pos(), "a bucket is extended from "+tm.of(ld).String()+" but the result is stored into another bucket: the elements of one octant overwrite another's")
							ok = false
						}
						stored = true
					}
				}
				if !stored {
					rec.violate("CONS-1", dist, ap.call.Pos(), "the extended bucket is never stored back: the element is lost")
					ok = false
				}
				if bucketSlice != nil && tm.of(bucketSlice).String() != tm.of(ia.X).String() {
					rec.undecide("CONS-1", dist, pos, "elements are distributed into more than one bucket table")
					return
				}
				bucketSlice = ia.X
				idxVals = append(idxVals, ia.Index)
				continue
			}
		}
		// plain list: the append must feed the loop-carried variable it extends
		fed := false
		for _, in := range dl.Header.Instrs {
			if phi, isPhi := in.(*ssa.Phi); isPhi && flowsTo(ssa.Value(ap.call), phi) && flowsTo(phi, base) {
				lists = append(lists, phi)
				fed = true
			}
		}
		if !fed {
			rec.violate("CONS-1", dist, ap.call.Pos(), "the list extended with the element is not carried to the next iteration: the element is lost")
			ok = false
		}
	}
	if ok {
		rec.hold("CONS-1", dist, pos, fmt.Sprintf("every path of the full-range loop over %s appends %s[i] to exactly one list (%d append sites), no early exit", S.Name(), S.Name(), len(apps)))
	}
	// ---- buckets: every bucket recursed, index in range
	var recCalls []*ssa.Call
	ssau.AllInstrs(fn, func(in ssa.Instruction) {
		if call, isCall := in.(*ssa.Call); isCall && call.Common().StaticCallee() == fn {
			recCalls = append(recCalls, call)
		}
	})
	bk := name + "#buckets"
	nBuckets := -1
	if bucketSlice != nil {
		if sl, isSl := bucketSlice.(*ssa.Slice); isSl {
			bucketArr, _ = sl.X.(*ssa.Alloc)
		}
		if bucketArr != nil {
			if at, isArr := bucketArr.Type().Underlying().(*types.Pointer).Elem().Underlying().(*types.Array); isArr {
				nBuckets = int(at.Len())
			}
		}
		// a bucket table that is an array ([8][]T): the count is the array length of its type
		var tableArr *ssa.Alloc
		if nBuckets < 0 {
			if pt, isP := bucketSlice.Type().Underlying().(*types.Pointer); isP {
				if at, isArr := pt.Elem().Underlying().(*types.Array); isArr {
					nBuckets = int(at.Len())
					tableArr, _ = bucketSlice.(*ssa.Alloc)
				}
			}
		}
		if nBuckets < 0 {
			if ms, isMS := bucketSlice.(*ssa.MakeSlice); isMS {
				if k, isC := ssau.ConstInt(ms.Len); isC {
					nBuckets = int(k)
				}
			}
		}
		if nBuckets < 0 {
			rec.undecide("CONS-1", bk, pos, "the number of buckets is not a constant the rule can read ("+tm.of(bucketSlice).String()+")")
		} else {
			bad := false
			// index range
			for _, iv := range idxVals {
				set, okSet := intSet(iv, 0)
				if !okSet {
					rec.undecide("CONS-1", bk, pos, "the bucket index "+tm.of(iv).String()+" is not built from constants the rule can enumerate")
					bad = true
					break
				}
				var outOf []int64
				for k := range set {
					if k < 0 || k >= int64(nBuckets) {
						outOf = append(outOf, k)
					}
				}
				if len(outOf) > 0 {
					sort.Slice(outOf, func(i, j int) bool { return outOf[i] < outOf[j] })
					rec.violate("CONS-1", bk, pos, fmt.Sprintf("the bucket index can be %v but there are only %d buckets", outOf, nBuckets))
					bad = true
					break
				}
			}
			// recursion over every bucket
			seenK := map[int64]int{}
			tableKey := strip(tm.of(bucketSlice)).String()
			for _, call := range recCalls {
				at := strip(tm.of(call.Common().Args[0]))
				if at.op != "elem" || strip(at.args[0]).String() != tableKey {
					rec.undecide("CONS-1", bk, call.Pos(), "a recursive call is not made on one of the buckets: "+at.String())
					bad = true
					continue
				}
				k, isC := ssau.ConstInt(at.args[1].val)
				if !isC {
					// a loop over the buckets: accept a recognised full-range loop over the bucket table
					l := ssau.InnermostLoop(loops, call.Block())
					if l != nil {
						il := recogniseIndexLoop(l)
						if il.why == "" && strip(tm.of(il.slice)).String() == tableKey && at.args[1].val == il.index && len(earlyExits(l)) == 0 && !skippable(l, call.Block(), nil) {
							for j := 0; j < nBuckets; j++ {
								seenK[int64(j)]++
							}
							continue
						}
						// an array table walked by a loop with a constant bound (range over [K]T, i < K)
						if idx, bound, why := recogniseConstLoop(l); why == "" && at.args[1].val == idx {
							if ex := earlyExits(l); len(ex) > 0 {
								rec.violate("CONS-1", bk, call.Pos(), fmt.Sprintf("the loop over the buckets can be left early (block %d): the remaining buckets are never built into children", ex[0].Index))
								bad = true
								continue
							}
							if skippable(l, call.Block(), nil) {
								rec.violate("CONS-1", bk, call.Pos(), "an iteration of the loop over the buckets can skip building the bucket into a child")
								bad = true
								continue
							}
							// a by-value copy of the array table must be taken after the distribution loop
							if tableArr != nil {
								if ix, isIx := call.Common().Args[0].(*ssa.Index); isIx {
									if ld, isLd := ix.X.(*ssa.UnOp); isLd && ld.X == ssa.Value(tableArr) {
										if dl.Blocks[ld.Block()] || !dl.Header.Dominates(ld.Block()) {
											rec.violate("CONS-1", bk, call.Pos(), "the bucket table is copied before the elements were distributed into it: the children are built from empty buckets")
											bad = true
											continue
										}
									}
								}
							}
							for j := int64(0); j < bound; j++ {
								seenK[j]++
							}
							continue
						}
					}
					rec.undecide("CONS-1", bk, call.Pos(), "the bucket of a recursive call is not selected by a constant or a full-range loop")
					bad = true
					continue
				}
				seenK[k]++
			}
			if !bad {
				var missing, twice []int
				for j := 0; j < nBuckets; j++ {
					switch n := seenK[int64(j)]; {
					case n == 0:
						missing = append(missing, j)
					case n > 1:
						twice = append(twice, j)
					}
				}
				switch {
				case len(missing) > 0:
					rec.violate("CONS-1", bk, pos, fmt.Sprintf("bucket(s) %v receive elements but are never built into a child: those elements vanish from the tree", missing))
				case len(twice) > 0:
					rec.violate("CONS-1", bk, pos, fmt.Sprintf("bucket(s) %v are built into more than one child: their elements are returned twice", twice))
				default:
					rec.hold("CONS-1", bk, pos, fmt.Sprintf("%d buckets, bucket index ⊆ [0,%d), each bucket recursed exactly once", nBuckets, nBuckets))
				}
			}
		}
	}
	// ---- children kept, lists kept: the node that is finally returned
	var final *treeLit
	for _, lit := range lits {
		if cv, has := lit.fields[a.fChildren]; has && !isNilConst(cv) {
			if final != nil {
				rec.undecide("CONS-1", name+"#children", pos, "more than one inner-node literal")
				return
			}
			final = lit
		}
	}
	// ---- leaves: a node without children must hold the whole input
	lk := name + "#leaves"
	leavesOK := true
	nLeaves := 0
	for _, lit := range lits {
		if cvv, has := lit.fields[a.fChildren]; has && !isNilConst(cvv) {
			continue
		}
		nLeaves++
		ev := lit.fields[a.fElements]
		if ev == ssa.Value(S) {
			continue
		}
		okLeaf := false
		if sl, isSl := ev.(*ssa.Slice); isSl {
			if arr, isAl := sl.X.(*ssa.Alloc); isAl {
				if at, isArr := arr.Type().Underlying().(*types.Pointer).Elem().Underlying().(*types.Array); isArr {
					// {S[0], …, S[k-1]} under the guard len(S) == k
					n := int(at.Len())
					held := map[int64]bool{}
					for _, r := range ssau.Refs(arr) {
						if ia, isIA := r.(*ssa.IndexAddr); isIA {
							for _, r2 := range ssau.Refs(ia) {
								if st, isSt := r2.(*ssa.Store); isSt && st.Addr == ia {
									e := strip(tm.of(st.Val))
									if e.op == "elem" && e.args[0].String() == tm.of(S).String() {
										if k, isC := ssau.ConstInt(e.args[1].val); isC {
											held[k] = true
										}
									}
								}
							}
						}
					}
					all := len(held) == n
					for k := 0; k < n; k++ {
						if !held[int64(k)] {
							all = false
						}
					}
					want := canonCmp(token.EQL, &term{op: "len", args: []*term{tm.of(S)}}, &term{op: "const", name: fmt.Sprint(n)}).String()
					guarded := false
					for _, g := range guardsOf(lit.alloc.Block(), nil) {
						t := tm.of(g.cond)
						if !g.pol {
							t = negate(t)
						}
						if t.String() == want {
							guarded = true
						}
					}
					switch {
					case !all:
						rec.violate("CONS-1", lk, lit.alloc.Pos(), fmt.Sprintf("a leaf holds a literal of %d element(s) that are not exactly %s[0..%d]", n, S.Name(), n-1))
						leavesOK = false
					case !guarded:
						rec.violate("CONS-1", lk, lit.alloc.Pos(), fmt.Sprintf("a leaf holding %d element(s) of %s is built without the guard len(%s) == %d: the other elements are dropped", n, S.Name(), S.Name(), n))
						leavesOK = false
					}
					okLeaf = true
				}
			}
		}
		if !okLeaf {
			rec.violate("CONS-1", lk, lit.alloc.Pos(), "a leaf holds "+tm.of(ev).String()+" instead of all the elements it was given ("+S.Name()+")")
			leavesOK = false
		}
	}
	if leavesOK && nLeaves > 0 {
		rec.hold("CONS-1", lk, pos, fmt.Sprintf("%d leaf literal(s) hold the whole input (the slice itself, or {s[0..k-1]} under len(s) == k)", nLeaves))
	}
	ck := name + "#children"
	if final == nil {
		rec.violate("CONS-1", ck, pos, "the recursive builder never stores the children it built into a node")
		return
	}
	cv := final.fields[a.fChildren]
	// appends that feed cv
	var childApps []*ssa.Call
	ssau.AllInstrs(fn, func(in ssa.Instruction) {
		call, isCall := in.(*ssa.Call)
		if !isCall {
			return
		}
		_, vals, _, okA := appendedValues(call)
		if !okA || vals == nil {
			return
		}
		if sl, isSl := call.Type().Underlying().(*types.Slice); isSl {
			if p, isP := sl.Elem().Underlying().(*types.Pointer); isP && sameNamed(p.Elem(), a.tree) && flowsTo(ssa.Value(call), cv) {
				childApps = append(childApps, call)
			}
		}
	})
	kept := map[*ssa.Call]bool{}
	okChildren := true
	for _, capp := range childApps {
		_, vals, _, _ := appendedValues(capp)
		for _, v := range vals {
			// direct: the recursive result itself
			if rc, isCall := v.(*ssa.Call); isCall && rc.Common().StaticCallee() == fn {
				if bad := nonNilGuardsAfter(tm, capp.Block(), rc.Block()); bad != "" {
					rec.violate("CONS-1", ck, capp.Pos(), "a built child is kept only under "+bad)
					okChildren = false
				}
				kept[rc] = true
				continue
			}
			// via a table of results walked by a full-range loop
			vt := strip(tm.of(v))
			l := ssau.InnermostLoop(loops, capp.Block())
			if vt.op != "elem" || l == nil {
				rec.undecide("CONS-1", ck, capp.Pos(), "the child appended is "+vt.String())
				okChildren = false
				continue
			}
			il := recogniseIndexLoop(l)
			if il.why != "" || vt.args[1].val != il.index || vt.args[0].String() != tm.of(il.slice).String() {
				rec.undecide("CONS-1", ck, capp.Pos(), "the loop that collects the children is not a recognised full-range loop over the table of results")
				okChildren = false
				continue
			}
			if ex := earlyExits(l); len(ex) > 0 {
				rec.violate("CONS-1", ck, capp.Pos(), fmt.Sprintf("the loop that collects the children can be left early (block %d): later children (and all their elements) are dropped", ex[0].Index))
				okChildren = false
				continue
			}
			var allowed []guard
			for _, g := range guardsOf(capp.Block(), l.Blocks) {
				if g.at == l.Header {
					continue
				}
				t := tm.of(g.cond)
				if !g.pol {
					t = negate(t)
				}
				if isNilCheck(t) {
					allowed = append(allowed, g)
					continue
				}
				rec.violate("CONS-1", ck, capp.Pos(), "a built child is kept only under "+t.String()+" (only a nil check may drop a child)")
				okChildren = false
			}
			if skippable(l, capp.Block(), allowed) {
				rec.violate("CONS-1", ck, capp.Pos(), "an iteration of the loop that collects the children can skip a non-nil child")
				okChildren = false
			}
			// which recursive results are in the table?
			if sl, isSl := il.slice.(*ssa.Slice); isSl {
				if arr, isAl := sl.X.(*ssa.Alloc); isAl {
					for _, r := range ssau.Refs(arr) {
						if ia, isIA := r.(*ssa.IndexAddr); isIA {
							for _, r2 := range ssau.Refs(ia) {
								if st, isSt := r2.(*ssa.Store); isSt && st.Addr == ia {
									if rc, isCall := st.Val.(*ssa.Call); isCall && rc.Common().StaticCallee() == fn {
										kept[rc] = true
									}
								}
							}
						}
					}
				}
			}
		}
	}
	for _, rc := range recCalls {
		if !kept[rc] {
			rec.violate("CONS-1", ck, rc.Pos(), "the result of a recursive build ("+strip(tm.of(rc.Common().Args[0])).String()+") never reaches the node's children: that subtree and its elements are dropped")
			okChildren = false
		}
	}
	// plain lists (leftOver) must be the node's own elements
	ev := final.fields[a.fElements]
	for _, lst := range lists {
		if ev == nil || !flowsTo(lst, ev) {
			rec.violate("CONS-1", ck, pos, "elements set aside during distribution are not stored in the node that is returned")
			okChildren = false
		}
	}
	// shortcut returns: returning something other than a literal needs the guards that make it lossless
	ssau.AllInstrs(fn, func(in ssa.Instruction) {
		ret, isRet := in.(*ssa.Return)
		if !isRet || len(ret.Results) != 1 {
			return
		}
		v := ret.Results[0]
		if isNilConst(v) {
			// returning nil is lossless only when there is nothing to hold
			want := canonCmp(token.EQL, &term{op: "len", args: []*term{tm.of(S)}}, &term{op: "const", name: "0"}).String()
			found := false
			for _, g := range guardsOf(ret.Block(), nil) {
				t := tm.of(g.cond)
				if !g.pol {
					t = negate(t)
				}
				if t.String() == want {
					found = true
				}
			}
			if !found {
				rec.violate("CONS-1", ck, ret.Pos(), "nil is returned without the guard len("+S.Name()+") == 0: the elements are dropped")
				okChildren = false
			}
			return
		}
		if al, isAl := v.(*ssa.Alloc); isAl {
			for _, lit := range lits {
				if lit.alloc == al {
					return
				}
			}
		}
		vt := strip(tm.of(v))
		if vt.op == "elem" && flowsToTerm(tm, cv, vt.args[0]) {
			if k, isC := ssau.ConstInt(vt.args[1].val); isC && k == 0 {
				need := []string{canonCmp(token.EQL, &term{op: "len", args: []*term{vt.args[0]}}, &term{op: "const", name: "1"}).String()}
				if len(lists) > 0 && ev != nil {
					need = append(need, canonCmp(token.EQL, &term{op: "len", args: []*term{tm.of(ev)}}, &term{op: "const", name: "0"}).String())
				}
				have := map[string]bool{}
				for _, g := range guardsOf(ret.Block(), nil) {
					t := tm.of(g.cond)
					if !g.pol {
						t = negate(t)
					}
					have[t.String()] = true
				}
				for _, n := range need {
					if !have[n] {
						rec.violate("CONS-1", ck, ret.Pos(), "a single child is returned in place of the node without the guard "+n+": the other children / the node's own elements are dropped")
						okChildren = false
					}
				}
				return
			}
		}
		rec.undecide("CONS-1", ck, ret.Pos(), "the builder returns "+vt.String()+", which is neither a node literal, nil, nor the only child")
		okChildren = false
	})
	if okChildren {
		rec.hold("CONS-1", ck, pos, fmt.Sprintf("all %d recursive results reach the returned node's children (dropped only when nil); shortcut returns are guarded", len(recCalls)))
	}
}

// feedsTree: does fn hand its records to a builder of the queried tree type?
func feedsTree(a *anchors, fn *ssa.Function) bool {
	found := false
	ssau.AllInstrs(fn, func(in ssa.Instruction) {
		call, ok := in.(*ssa.Call)
		if !ok {
			return
		}
		callee := call.Common().StaticCallee()
		if callee == nil {
			return
		}
		res := callee.Signature.Results()
		for i := 0; i < res.Len(); i++ {
			if n := ssau.NamedOf(res.At(i).Type()); n != nil && n.Obj() == a.tree.Obj() {
				found = true
			}
		}
	})
	return found
}

func lenOfSliceIs(il *indexLoop, S *ssa.Parameter) bool { return il.slice == ssa.Value(S) }

// flowsToTerm: does the value cv (children list) correspond to term t (the list a return indexes)?
func flowsToTerm(tm *termer, cv ssa.Value, t *term) bool {
	if t.val != nil && (t.val == cv || flowsTo(t.val, cv) || flowsTo(cv, t.val)) {
		return true
	}
	return tm.of(cv).String() == t.String()
}

// nonNilGuardsAfter describes the first guard of block b, decided after block `since` ran, that is not a nil check.
func nonNilGuardsAfter(tm *termer, b, since *ssa.BasicBlock) string {
	for _, g := range guardsOf(b, nil) {
		if !since.Dominates(g.at) {
			continue
		}
		t := tm.of(g.cond)
		if !g.pol {
			t = negate(t)
		}
		if isNilCheck(t) {
			continue
		}
		return t.String()
	}
	return ""
}

// ---------------------------------------------------------------- IDENT-1 (b): assignment of the original index

func (a *anchors) checkIndexAssignment() {
	c := a.c
	P := c.P
	construct := "trees." + a.elem.Obj().Name() + "." + a.fIndex.Name()
	sites := 0
	okAll := true
	for _, fn := range a.fns {
		if P.IsControl(fn.Pos()) {
			continue
		}
		tm := newTermer(fn)
		loops := ssau.Loops(fn)
		ssau.AllInstrs(fn, func(in ssa.Instruction) {
			st, ok := in.(*ssa.Store)
			if !ok {
				return
			}
			fa, ok := st.Addr.(*ssa.FieldAddr)
			if !ok {
				return
			}
			fv := ssau.FieldOf(fa)
			if fv != a.fIndex && fv != a.fPrim && fv != a.fEBounds {
				return
			}
			if fv != a.fIndex {
				return // primitive / bounds are checked together with the index of the same literal
			}
			sites++
			name := P.FuncName(fn)
			l := ssau.InnermostLoop(loops, st.Block())
			if l == nil {
				c.R.Violate("IDENT-1", construct, P.Pos(st.Pos()), "the original index is assigned outside a loop over the input elements (in "+name+")")
				okAll = false
				return
			}
			il := recogniseIndexLoop(l)
			if il.why != "" {
				if il.partial {
					c.R.Violate("IDENT-1", construct, P.Pos(st.Pos()), "the loop that numbers the elements does not cover every element: "+il.why)
				} else {
					c.R.Undecide("IDENT-1", construct, P.Pos(st.Pos()), "the loop that numbers the elements is not a recognised full-range loop: "+il.why)
				}
				okAll = false
				return
			}
			if _, isParam := il.slice.(*ssa.Parameter); !isParam {
				c.R.Violate("IDENT-1", construct, P.Pos(st.Pos()), "the loop that numbers the elements does not range over the caller's element slice")
				okAll = false
				return
			}
			if st.Val != il.index {
				c.R.Violate("IDENT-1", construct, P.Pos(st.Pos()), "the original index stored is "+tm.of(st.Val).String()+", not the input position of the element")
				okAll = false
				return
			}
			if ex := earlyExits(l); len(ex) > 0 {
				c.R.Violate("IDENT-1", construct, P.Pos(st.Pos()), "the numbering loop can be left early: later elements keep index 0")
				okAll = false
				return
			}
			// the same literal pairs the index with primitive = S[i], bounds = S[i].BoundingBox(), and lands in dst[i]
			base := fa.X
			var prim, bnd ssa.Value
			for _, r := range ssau.Refs(base) {
				fa2, ok := r.(*ssa.FieldAddr)
				if !ok {
					continue
				}
				for _, r2 := range ssau.Refs(fa2) {
					if s2, ok := r2.(*ssa.Store); ok && s2.Addr == fa2 {
						switch ssau.FieldOf(fa2) {
						case a.fPrim:
							prim = s2.Val
						case a.fEBounds:
							bnd = s2.Val
						}
					}
				}
			}
			if prim == nil || !curElem(tm, il, tm.of(prim)) {
				got := "nothing"
				if prim != nil {
					got = tm.of(prim).String()
				}
				c.R.Violate("IDENT-1", construct, P.Pos(st.Pos()), "index i is paired with primitive "+got+", not with the input element at position i")
				okAll = false
				return
			}
			if bnd != nil {
				bt := tm.of(bnd)
				if !(bt.op == "invoke" && bt.name == "BoundingBox" && curElem(tm, il, bt.args[0])) {
					c.R.Violate("IDENT-1", construct, P.Pos(st.Pos()), "index i is paired with bounds "+bt.String()+", not with the bounding box of the input element at position i")
					okAll = false
					return
				}
			} else if feedsTree(a, fn) {
				c.R.Violate("IDENT-1", construct, P.Pos(st.Pos()), "the element record handed to the "+a.tree.Obj().Name()+" builder is built without bounds: every bounds test sees the zero box")
				okAll = false
				return
			}
			// destination slot
			if ia, ok := base.(*ssa.IndexAddr); ok {
				if ia.Index != il.index {
					c.R.Violate("IDENT-1", construct, P.Pos(st.Pos()), "record i is written to slot "+tm.of(ia.Index).String())
					okAll = false
					return
				}
				if ms, ok := ia.X.(*ssa.MakeSlice); ok {
					if lenOf(ms.Len) != il.slice {
						c.R.Violate("IDENT-1", construct, P.Pos(st.Pos()), "the record table is not made with the length of the input")
						okAll = false
						return
					}
				}
			}
			if skippable(l, st.Block(), nil) {
				c.R.Violate("IDENT-1", construct, P.Pos(st.Pos()), "an iteration of the numbering loop can skip the element")
				okAll = false
			}
		})
	}
	switch {
	case sites == 0:
		c.R.Violate("IDENT-1", construct, P.Pos(a.fIndex.Pos()), "the original index is never assigned: every query returns 0")
	case sites > 1 && okAll:
		c.R.Hold("IDENT-1", construct, P.Pos(a.fIndex.Pos()), fmt.Sprintf("%d assignment sites, each = input position i paired with elements[i] and its bounding box", sites))
	case okAll:
		c.R.Hold("IDENT-1", construct, P.Pos(a.fIndex.Pos()), "assigned once, = input position i, paired with primitive elements[i] and bounds elements[i].BoundingBox(), stored in slot i of a table of len(elements)")
	}
}
