package c16

// BVH rules: BVH-1 (NewBVHTree splits [start,end) into two adjacent ranges of the same
// slice, sorts only that range, small cases use the elements of the range) and
// BVH-2 (BVHNode.Hit: box test first, both children consulted, the second search
// narrowed by the first hit, result = either).

import (
	"fmt"
	"go/token"
	"go/types"
	"strings"

	"golang.org/x/tools/go/ssa"

	"polycheck/props"
	"polycheck/ssau"
)

func checkBVH(c *props.Ctx) {
	P := c.P
	sp := P.SSAPkg("rendering")
	if sp == nil {
		c.R.Failf("anchor package rendering not found")
		return
	}
	build := P.Func("rendering", "NewBVHTree")
	if build == nil || build.Blocks == nil {
		c.R.Failf("anchor rendering.NewBVHTree not found")
		return
	}
	node := ssau.NamedOf(build.Signature.Results().At(0).Type())
	if node == nil {
		c.R.Failf("rendering.NewBVHTree does not return a named node type")
		return
	}
	nst, _ := node.Underlying().(*types.Struct)
	var boxF *types.Var
	var kids []*types.Var
	if nst != nil {
		for i := 0; i < nst.NumFields(); i++ {
			f := nst.Field(i)
			if isAABB(f.Type()) {
				boxF = f
			} else if types.IsInterface(f.Type()) {
				kids = append(kids, f)
			}
		}
	}
	if boxF == nil || len(kids) != 2 || !types.Identical(kids[0].Type(), kids[1].Type()) {
		c.R.Failf("anchor: %s is not {AABB box, two children of one interface type}", node.Obj().Name())
		return
	}
	for _, fn := range P.FuncsOf(sp) {
		if fn.Parent() != nil {
			continue
		}
		isCtl := P.IsControl(fn.Pos())
		if fn == build || (isCtl && strings.Contains(fn.Name(), "verifControlSPLIT")) {
			rec := newRecorder(c, isCtl)
			bvhSplit(c, rec, fn, node, kids)
			rec.finishControl(P.FuncName(fn))
		}
		if fn.Name() == "Hit" || (isCtl && strings.Contains(fn.Name(), "verifControlBVH")) {
			if fn.Signature.Recv() == nil {
				continue
			}
			if n := ssau.NamedOf(fn.Signature.Recv().Type()); n == nil || n.Obj() != node.Obj() {
				continue
			}
			rec := newRecorder(c, isCtl)
			bvhHit(c, rec, fn, boxF, kids)
			rec.finishControl(P.FuncName(fn))
		}
	}
	c.R.Floor("BVH-1", 1)
	c.R.Floor("BVH-2", 1)
}

func bvhSplit(c *props.Ctx, rec *recorder, fn *ssa.Function, node *types.Named, kids []*types.Var) {
	P := c.P
	name := P.FuncName(fn)
	tm := newTermer(fn)
	// parameters: the object slice, start, end
	var O, start, end *ssa.Parameter
	for _, p := range fn.Params {
		switch t := p.Type().Underlying().(type) {
		case *types.Slice:
			if O == nil {
				O = p
			}
		case *types.Basic:
			if t.Kind() == types.Int {
				if start == nil {
					start = p
				} else if end == nil {
					end = p
				}
			}
		}
	}
	if O == nil || start == nil || end == nil {
		rec.undecide("BVH-1", name, fn.Pos(), "the builder does not have the shape (objects []T, start, end int, …)")
		return
	}
	tO, tS, tE := tm.of(O).String(), tm.of(start).String(), tm.of(end).String()
	span := "bin:-(" + tE + ", " + tS + ")"
	var calls []*ssa.Call
	ssau.AllInstrs(fn, func(in ssa.Instruction) {
		if call, ok := in.(*ssa.Call); ok && call.Common().StaticCallee() == fn {
			calls = append(calls, call)
		}
	})
	ok := true
	if len(calls) != 2 {
		rec.undecide("BVH-1", name, fn.Pos(), fmt.Sprintf("%d recursive calls (the rule knows the binary split)", len(calls)))
		return
	}
	argIdx := func(p *ssa.Parameter) int {
		for i, q := range fn.Params {
			if q == p {
				return i
			}
		}
		return -1
	}
	iO, iS, iE := argIdx(O), argIdx(start), argIdx(end)
	A, B := calls[0], calls[1]
	if A.Common().Args[iS] != ssa.Value(start) {
		A, B = B, A
	}
	aArgs, bArgs := A.Common().Args, B.Common().Args
	switch {
	case aArgs[iO] != ssa.Value(O) || bArgs[iO] != ssa.Value(O):
		rec.violate("BVH-1", name, A.Pos(), "a subtree is built over a different slice than the one being split")
		ok = false
	case aArgs[iS] != ssa.Value(start):
		rec.violate("BVH-1", name, A.Pos(), "no subtree starts at `start`: the first objects of the range are in neither subtree")
		ok = false
	case bArgs[iE] != ssa.Value(end):
		rec.violate("BVH-1", name, B.Pos(), "no subtree ends at `end`: the last objects of the range are in neither subtree")
		ok = false
	case aArgs[iE] != bArgs[iS]:
		rec.violate("BVH-1", name, B.Pos(), "the first subtree ends at "+tm.of(aArgs[iE]).String()+" but the second starts at "+tm.of(bArgs[iS]).String()+": objects in between are lost or shared")
		ok = false
	}
	if ok {
		mid := tm.of(aArgs[iE]).String()
		half := "bin:/(" + span + ", const:2)"
		forms := []string{
			"bin:+(" + tS + ", " + half + ")", "bin:+(" + half + ", " + tS + ")",
			"bin:/(bin:+(" + tS + ", " + tE + "), const:2)", "bin:/(bin:+(" + tE + ", " + tS + "), const:2)",
			"bin:-(" + tE + ", " + half + ")",
		}
		found := false
		for _, f := range forms {
			if f == mid {
				found = true
			}
		}
		if !found {
			rec.undecide("BVH-1", name, A.Pos(), "the split point "+mid+" is not one of the recognised midpoints of [start,end) (start + (end-start)/2, (start+end)/2, end - (end-start)/2): it may fall outside the range")
			ok = false
		}
	}
	// the two results become the two children
	if ok {
		fields := map[*types.Var]bool{}
		for _, call := range calls {
			for _, r := range ssau.Refs(call) {
				var users []ssa.Instruction
				if mi, isMI := r.(*ssa.MakeInterface); isMI {
					users = ssau.Refs(mi)
				} else {
					users = []ssa.Instruction{r}
				}
				for _, u := range users {
					if st, isSt := u.(*ssa.Store); isSt {
						if fa, isFA := st.Addr.(*ssa.FieldAddr); isFA {
							fields[ssau.FieldOf(fa)] = true
						}
					}
				}
			}
		}
		if !fields[kids[0]] || !fields[kids[1]] {
			rec.violate("BVH-1", name, fn.Pos(), "the two subtrees are not stored as the node's two children: one half of the objects is unreachable")
			ok = false
		}
	}
	// sorting touches objects[start:end] only
	wantSlice := "slice:(" + tO + ", " + tS + ", " + tE + ")"
	ssau.AllInstrs(fn, func(in ssa.Instruction) {
		call, isCall := in.(*ssa.Call)
		if !isCall {
			return
		}
		obj := ssau.CalleeObj(call)
		if obj == nil || obj.Pkg() == nil || (obj.Pkg().Path() != "sort" && obj.Pkg().Path() != "slices") || !strings.Contains(obj.Name(), "Sort") && obj.Name() != "Slice" && obj.Name() != "Stable" {
			return
		}
		if len(call.Common().Args) == 0 {
			return
		}
		at := tm.of(call.Common().Args[0])
		bad := ""
		nSlices := 0
		at.walk(func(s *term) {
			if s.op == "slice" && s.args[0].String() == tO {
				nSlices++
				if s.String() != wantSlice {
					bad = s.String()
				}
			}
			if s.op == "param" && s.String() == tO {
				// reached the slice itself: only fine below a slice node (counted above)
			}
		})
		if bad != "" {
			rec.violate("BVH-1", name, call.Pos(), "the sort permutes "+bad+" instead of "+wantSlice+": objects move across the boundary of the range, so some end up in two subtrees and others in none")
			ok = false
		} else if nSlices == 0 {
			if strings.Contains(at.String(), tO) {
				rec.violate("BVH-1", name, call.Pos(), "the sort permutes the whole object slice instead of objects[start:end]")
				ok = false
			} else {
				rec.undecide("BVH-1", name, call.Pos(), "what the sort permutes is not understood: "+at.String())
				ok = false
			}
		}
	})
	// small cases: children taken from inside the range
	one := canonCmp(token.EQL, &term{op: "bin", name: "-", args: []*term{tm.of(end), tm.of(start)}}, &term{op: "const", name: "1"}).String()
	two := canonCmp(token.EQL, &term{op: "bin", name: "-", args: []*term{tm.of(end), tm.of(start)}}, &term{op: "const", name: "2"}).String()
	startPlus1 := []string{"bin:+(" + tS + ", const:1)", "bin:+(const:1, " + tS + ")", "bin:-(" + tE + ", const:1)"}
	byBlock := map[*ssa.BasicBlock]map[*types.Var]string{}
	var blocks []*ssa.BasicBlock
	ssau.AllInstrs(fn, func(in ssa.Instruction) {
		st, isSt := in.(*ssa.Store)
		if !isSt {
			return
		}
		fa, isFA := st.Addr.(*ssa.FieldAddr)
		if !isFA {
			return
		}
		fv := ssau.FieldOf(fa)
		if fv != kids[0] && fv != kids[1] {
			return
		}
		vt := strip(tm.of(st.Val))
		if vt.op == "call" {
			return // recursive results, judged above
		}
		if vt.op != "elem" || vt.args[0].String() != tO {
			rec.undecide("BVH-1", name, st.Pos(), "a child is set to "+vt.String())
			ok = false
			return
		}
		if byBlock[st.Block()] == nil {
			byBlock[st.Block()] = map[*types.Var]string{}
			blocks = append(blocks, st.Block())
		}
		byBlock[st.Block()][fv] = vt.args[1].String()
	})
	for _, b := range blocks {
		m := byBlock[b]
		g1, g2 := false, false
		for _, g := range guardsOf(b, nil) {
			t := tm.of(g.cond)
			if !g.pol {
				t = negate(t)
			}
			if t.String() == one {
				g1 = true
			}
			if t.String() == two {
				g2 = true
			}
		}
		l, r := m[kids[0]], m[kids[1]]
		isS := func(s string) bool { return s == tS }
		isS1 := func(s string) bool {
			for _, f := range startPlus1 {
				if s == f {
					return true
				}
			}
			return false
		}
		switch {
		case g1:
			if !isS(l) || !isS(r) {
				rec.violate("BVH-1", name, b.Instrs[0].Pos(), "with one object in the range the children are objects["+l+"] and objects["+r+"], not objects[start]")
				ok = false
			}
		case g2:
			if !((isS(l) && isS1(r)) || (isS1(l) && isS(r))) {
				rec.violate("BVH-1", name, b.Instrs[0].Pos(), "with two objects in the range the children are objects["+l+"] and objects["+r+"], not {objects[start], objects[start+1]}")
				ok = false
			}
		default:
			rec.undecide("BVH-1", name, b.Instrs[0].Pos(), "children are taken directly from the slice without a guard on the size of the range")
			ok = false
		}
	}
	if ok {
		rec.hold("BVH-1", name, fn.Pos(), "subtrees cover [start,mid) and [mid,end) of the same slice with a recognised midpoint; sorting is confined to objects[start:end]; ranges of 1 and 2 take objects[start], objects[start+1]")
	}
}

func bvhHit(c *props.Ctx, rec *recorder, fn *ssa.Function, boxF *types.Var, kids []*types.Var) {
	P := c.P
	name := P.FuncName(fn)
	tm := newTermer(fn)
	// parameters by type: receiver #0, ray pointer, two floats (min,max), record pointer
	var floats []*ssa.Parameter
	var recP *ssa.Parameter
	for i, p := range fn.Params {
		if i == 0 {
			continue
		}
		if b, ok := p.Type().Underlying().(*types.Basic); ok && b.Kind() == types.Float64 {
			floats = append(floats, p)
		}
		if pt, ok := p.Type().Underlying().(*types.Pointer); ok {
			if n := ssau.NamedOf(pt.Elem()); n != nil && n.Obj().Name() == "HitRecord" {
				recP = p
			}
		}
	}
	if len(floats) != 2 || recP == nil {
		rec.undecide("BVH-2", name, fn.Pos(), "unexpected signature")
		return
	}
	pmin, pmax := floats[0], floats[1]
	// the two child calls
	var calls []*ssa.Call
	which := map[*ssa.Call]*types.Var{}
	ssau.AllInstrs(fn, func(in ssa.Instruction) {
		call, ok := in.(*ssa.Call)
		if !ok || !call.Common().IsInvoke() || call.Common().Method.Name() != fn.Name() && call.Common().Method.Name() != "Hit" {
			return
		}
		rt := tm.of(call.Common().Value)
		if rt.op == "field" && (rt.obj == kids[0] || rt.obj == kids[1]) {
			if o := strip(rt.args[0]); o.op == "param" && o.name == "#0" {
				calls = append(calls, call)
				which[call] = rt.obj.(*types.Var)
			}
		}
	})
	if len(calls) != 2 || which[calls[0]] == which[calls[1]] {
		seen := map[*types.Var]bool{}
		for _, cl := range calls {
			seen[which[cl]] = true
		}
		for _, k := range kids {
			if !seen[k] {
				rec.violate("BVH-2", name, fn.Pos(), "child "+k.Name()+" is never asked for a hit: everything below it is invisible")
				return
			}
		}
		rec.undecide("BVH-2", name, fn.Pos(), fmt.Sprintf("%d child hit calls (the rule knows one per child)", len(calls)))
		return
	}
	c1, c2 := calls[0], calls[1]
	if !ssau.Before(c1, c2) {
		c1, c2 = c2, c1
	}
	if !ssau.Before(c1, c2) {
		rec.undecide("BVH-2", name, fn.Pos(), "the two child searches are not ordered (neither dominates the other)")
		return
	}
	ok := true
	// (1) box test first
	var pass *ssa.BasicBlock
	for _, g := range guardsOf(c1.Block(), nil) {
		t := tm.of(g.cond)
		if !g.pol {
			t = negate(t)
		}
		if t.op == "call" && t.obj != nil && ssau.IsMethod(t.obj.(*types.Func), geomPath, "AABB", "IntersectsRayInRange") && len(t.args) == 4 {
			b := t.args[0]
			if b.op == "field" && b.obj == boxF && strip(b.args[0]).op == "param" {
				if t.args[2].String() == tm.of(pmin).String() && t.args[3].String() == tm.of(pmax).String() {
					if g.pol {
						pass = g.at.Succs[0]
					} else {
						pass = g.at.Succs[1]
					}
				} else {
					rec.violate("BVH-2", name, g.cond.Pos(), "the box is tested against the range ("+t.args[2].String()+", "+t.args[3].String()+"), not against the (min,max) the caller asked for")
					ok = false
				}
			}
		}
	}
	if pass == nil && ok {
		// no pruning is not wrong; but then the property "box test before children" of the design does not hold
		rec.violate("BVH-2", name, fn.Pos(), "the children are searched without first testing the node's box against the ray (the hierarchy prunes nothing)")
		ok = false
		pass = fn.Blocks[0]
	}
	// (2) both children consulted on every path that passed the box test
	if ok {
		for _, cl := range []*ssa.Call{c1, c2} {
			for _, b := range fn.Blocks {
				if len(b.Instrs) == 0 {
					continue
				}
				if _, isRet := b.Instrs[len(b.Instrs)-1].(*ssa.Return); !isRet {
					continue
				}
				if b != cl.Block() && reachableAvoiding(pass, b, map[*ssa.BasicBlock]bool{cl.Block(): true}) {
					rec.violate("BVH-2", name, cl.Pos(), "child "+which[cl].Name()+" is not searched on every path (a return can be reached without it): a nearer hit below it is missed")
					ok = false
				}
			}
		}
	}
	// (3) arguments: same ray / record, min; second search narrowed by the first hit
	if ok {
		a1, a2 := c1.Common().Args, c2.Common().Args
		if len(a1) != 4 || len(a2) != 4 {
			rec.undecide("BVH-2", name, fn.Pos(), "unexpected child call arity")
			return
		}
		if a1[0] != a2[0] || a1[3] != a2[3] || a1[3] != ssa.Value(recP) {
			rec.violate("BVH-2", name, c2.Pos(), "the two children are not searched with the same ray and the caller's hit record")
			ok = false
		}
		if a1[1] != ssa.Value(pmin) || a2[1] != ssa.Value(pmin) {
			rec.violate("BVH-2", name, c2.Pos(), "a child is searched from "+tm.of(a2[1]).String()+" instead of the caller's min")
			ok = false
		}
		if a1[2] != ssa.Value(pmax) {
			rec.violate("BVH-2", name, c1.Pos(), "the first child is searched up to "+tm.of(a1[2]).String()+" instead of the caller's max")
			ok = false
		}
		// narrowing
		phi, isPhi := a2[2].(*ssa.Phi)
		narrowed := false
		if isPhi && len(phi.Edges) == 2 {
			var sawMax, sawDist bool
			for i, e := range phi.Edges {
				pred := phi.Block().Preds[i]
				if e == ssa.Value(pmax) {
					sawMax = true
					continue
				}
				et := tm.of(e)
				if et.op == "field" && et.name == "Distance" && strip(et.args[0]).String() == tm.of(recP).String() {
					// the edge must be taken only when the first child hit
					for _, g := range guardsOf(pred, nil) {
						if g.cond == ssa.Value(c1) && g.pol {
							sawDist = true
						}
					}
					if pred == c1.Block() {
						// same block as the If: the edge itself is the true edge?
						if ifi, isIf := pred.Instrs[len(pred.Instrs)-1].(*ssa.If); isIf && ifi.Cond == ssa.Value(c1) && pred.Succs[0] == phi.Block() {
							sawDist = true
						}
					}
				}
			}
			narrowed = sawMax && sawDist
		}
		if !narrowed && ok {
			if a2[2] == ssa.Value(pmax) {
				rec.violate("BVH-2", name, c2.Pos(), "the second child is searched up to the caller's max even when the first child already hit: a farther hit overwrites the nearer one in the hit record")
			} else {
				rec.violate("BVH-2", name, c2.Pos(), "the upper bound of the second search is "+tm.of(a2[2]).String()+", not (first child hit ? hitRecord.Distance : max)")
			}
			ok = false
		}
	}
	// (4) result = hit1 || hit2
	if ok {
		for _, v1 := range []bool{false, true} {
			for _, v2 := range []bool{false, true} {
				got, why := simulateBool(fn, c1.Block(), map[ssa.Value]bool{c1: v1, c2: v2})
				if why != "" {
					rec.undecide("BVH-2", name, fn.Pos(), "the result could not be evaluated as a function of the two child results: "+why)
					return
				}
				if got != (v1 || v2) {
					rec.violate("BVH-2", name, fn.Pos(), fmt.Sprintf("with first child hit=%v and second child hit=%v the node reports %v (must be %v)", v1, v2, got, v1 || v2))
					ok = false
				}
			}
		}
	}
	if ok {
		rec.hold("BVH-2", name, fn.Pos(), "box.IntersectsRayInRange(ray,min,max) guards both child searches; both children searched on every path; second search bounded by (first hit ? hitRecord.Distance : max); result = hit1 || hit2")
	}
}

// simulateBool walks the CFG from block `from` with the given boolean values and returns the returned bool.
func simulateBool(fn *ssa.Function, from *ssa.BasicBlock, env map[ssa.Value]bool) (bool, string) {
	var eval func(v ssa.Value, prev, cur *ssa.BasicBlock) (bool, string)
	eval = func(v ssa.Value, prev, cur *ssa.BasicBlock) (bool, string) {
		if b, ok := env[v]; ok {
			return b, ""
		}
		switch x := v.(type) {
		case *ssa.Const:
			if x.Value != nil && x.Value.Kind().String() == "Bool" {
				return x.Value.ExactString() == "true", ""
			}
		case *ssa.UnOp:
			if x.Op == token.NOT {
				b, why := eval(x.X, prev, cur)
				return !b, why
			}
		case *ssa.BinOp:
			l, w1 := eval(x.X, prev, cur)
			r, w2 := eval(x.Y, prev, cur)
			if w1+w2 != "" {
				return false, w1 + w2
			}
			switch x.Op {
			case token.OR, token.LOR:
				return l || r, ""
			case token.AND, token.LAND:
				return l && r, ""
			case token.EQL:
				return l == r, ""
			case token.NEQ, token.XOR:
				return l != r, ""
			}
		case *ssa.Phi:
			if b, ok := env[x]; ok {
				return b, ""
			}
		}
		return false, "value " + v.Name() + " is not a boolean combination of the child results"
	}
	var prev *ssa.BasicBlock
	cur := from
	for steps := 0; steps < 200; steps++ {
		// phis of cur
		if prev != nil {
			for _, in := range cur.Instrs {
				phi, ok := in.(*ssa.Phi)
				if !ok {
					break
				}
				if phi.Type().Underlying().(*types.Basic) == nil {
					continue
				}
				if b, isB := phi.Type().Underlying().(*types.Basic); !isB || b.Kind() != types.Bool {
					continue
				}
				for i, p := range cur.Preds {
					if p == prev {
						b, why := eval(phi.Edges[i], prev, cur)
						if why != "" {
							return false, why
						}
						env[phi] = b
					}
				}
			}
		}
		last := cur.Instrs[len(cur.Instrs)-1]
		switch t := last.(type) {
		case *ssa.Return:
			if len(t.Results) != 1 {
				return false, "not a single result"
			}
			return eval(t.Results[0], prev, cur)
		case *ssa.Jump:
			prev, cur = cur, cur.Succs[0]
		case *ssa.If:
			b, why := eval(t.Cond, prev, cur)
			if why != "" {
				return false, why
			}
			if b {
				prev, cur = cur, cur.Succs[0]
			} else {
				prev, cur = cur, cur.Succs[1]
			}
		default:
			return false, "path ends without a return"
		}
	}
	return false, "path too long"
}
