// Package c16: spatial index queries agree with exhaustive search (structural clauses).
package c16

import (
	"fmt"
	"os"
	"strings"

	"golang.org/x/tools/go/ssa"

	"polycheck/eng"
	"polycheck/ob"
	"polycheck/props"
	mc "polycheck/props/meshcommon"
	"polycheck/ssau"
)

func init() {
	props.Register(&props.Prop{
		ID: "C16",
		Explanation: "Structural necessary conditions of 'index queries return what an exhaustive scan returns', decided on source (go/ssa, type-resolved roles): " +
			"ORD-2 no query keeps the address of a per-loop variable (go.mod selects pre-1.22 loop semantics) beyond the iteration; " +
			"ORD-3/KEY-1 every priority key of the best-first queue is the same distance function of (closest point of the queued cell's bounds | of the queued element's primitive, query) and the stored point is the point measured; " +
			"PRUNE-1 every test that decides whether a cell's content is visited (entry test, guard of the recursion) is the element acceptance test with the cell bounds substituted (so > prunes exactly what <= would not accept); " +
			"CHILD-1 every query visits all children and all elements (full-range loops, no early exit, only nil checks / the bounds predicate skip); " +
			"IDENT-1 every index emitted is elements[i].originalIndex of the element tested, results are built only from emissions and recursive results, and originalIndex is assigned from the input position next to that input's primitive and bounding box; " +
			"BND-1 node bounds are one element's bounds (single-element leaf) or a box grown by EncapsulateBounds over every element of the slice being distributed; " +
			"CONS-1 the distribution loop puts every element in exactly one bucket/list, every bucket is recursed once, bucket indices are in range, every non-nil child and every set-aside element is kept; " +
			"BVH-1 NewBVHTree splits [start,end) at a midpoint into the two children and sorts only that range; BVH-2 BVHNode.Hit tests the box first, consults both children, bounds the second search by the first hit, returns either. " +
			"Not decided: that pruning by bounds is geometrically correct for every layout, the slab test, tie handling, numeric error.",
		Controls: controls,
		Run:      run,
	})
}

func controls() map[string]string {
	return map[string]string{
		"trees/zz_verif_control_c16.go": `package trees

import (
	"github.com/EliCDavis/vector/vector3"
)

type verifCtlItem struct{ e *elementReference }

// must fire: address of the range variable kept in a slice that outlives the iteration
func verifControlORD2Bad(es []elementReference) []verifCtlItem {
	var out []verifCtlItem
	for _, e := range es {
		out = append(out, verifCtlItem{e: &e})
	}
	return out
}

// must stay silent: per-iteration copy, immediate return, index-based address
func verifControlORD2Good(es []elementReference) []verifCtlItem {
	var out []verifCtlItem
	for _, e := range es {
		e := e
		out = append(out, verifCtlItem{e: &e})
	}
	for i := range es {
		out = append(out, verifCtlItem{e: &es[i]})
	}
	for _, e := range es {
		if e.originalIndex == 3 {
			return []verifCtlItem{{e: &e}}
		}
	}
	return out
}

// must fire (PRUNE-1): the cell is pruned with >= where elements are accepted with <=
func (ot OctTree) verifControlPRUNEBad(position vector3.Float64, distance float64) []int {
	if ot.bounds.ClosestPoint(position).Distance(position) >= distance {
		return nil
	}
	points := make([]int, 0)
	for _, ele := range ot.elements {
		if ele.bounds.ClosestPoint(position).Distance(position) <= distance {
			points = append(points, ele.originalIndex)
		}
	}
	for _, child := range ot.children {
		points = append(points, child.verifControlPRUNEBad(position, distance)...)
	}
	return points
}

// must stay silent: the same query with the cell test moved to the recursion site, operands swapped, counted loops
func (ot OctTree) verifControlPRUNEGood(position vector3.Float64, distance float64) []int {
	var points []int
	for i := 0; i < len(ot.elements); i++ {
		d := ot.elements[i].bounds.ClosestPoint(position).Distance(position)
		if distance >= d {
			points = append(points, ot.elements[i].originalIndex)
		}
	}
	for i := 0; i < len(ot.children); i++ {
		child := ot.children[i]
		if child == nil || child.bounds.ClosestPoint(position).Distance(position) > distance {
			continue
		}
		points = append(points, child.verifControlPRUNEGood(position, distance)...)
	}
	return points
}

// must fire (CHILD-1): the first child is never searched
func (ot OctTree) verifControlCHILDBad(v vector3.Float64) []int {
	out := make([]int, 0)
	for i := 0; i < len(ot.elements); i++ {
		if ot.elements[i].bounds.Contains(v) {
			out = append(out, ot.elements[i].originalIndex)
		}
	}
	for i := 1; i < len(ot.children); i++ {
		out = append(out, ot.children[i].verifControlCHILDBad(v)...)
	}
	return out
}

// must fire (IDENT-1): the position inside the leaf is returned instead of the original index
func (ot OctTree) verifControlIDENTBad(v vector3.Float64) []int {
	out := make([]int, 0)
	for i := 0; i < len(ot.elements); i++ {
		if ot.elements[i].bounds.Contains(v) {
			out = append(out, i)
		}
	}
	for _, child := range ot.children {
		out = append(out, child.verifControlIDENTBad(v)...)
	}
	return out
}

// must fire (KEY-1): the key of an element is measured to its box, the point stored is on the primitive
func verifControlKEYBad(e *elementReference, v vector3.Float64) octDistItem {
	return octDistItem{dist: e.bounds.ClosestPoint(v).DistanceSquared(v), element: e, point: e.primitive.ClosestPoint(v)}
}

// must stay silent (KEY-1)
func verifControlKEYGood(e *elementReference, v vector3.Float64) octDistItem {
	p := e.primitive.ClosestPoint(v)
	return octDistItem{point: p, element: e, dist: p.DistanceSquared(v)}
}

// must fire (ORD-3): plain distance where the repository's keys are squared
func verifControlORDBad(cell *OctTree, v vector3.Float64) octDistItem {
	return octDistItem{dist: cell.bounds.ClosestPoint(v).Distance(v), cell: cell}
}

// must fire (BND-1): the loop that grows the bounds stops at the first big element
func verifControlBNDBad(elements []elementReference) *OctTree {
	bounds := elements[0].bounds
	for _, item := range elements {
		if item.bounds.Volume() > 100 {
			break
		}
		bounds.EncapsulateBounds(item.bounds)
	}
	return &OctTree{bounds: bounds, elements: elements}
}

// must stay silent (BND-1): counted loop, element bounds read through the index
func verifControlBNDGood(elements []elementReference) *OctTree {
	box := elements[0].bounds
	for i := 0; i < len(elements); i++ {
		box.EncapsulateBounds(elements[i].bounds)
	}
	return &OctTree{elements: elements, bounds: box}
}
`,
		"math/geometry/zz_verif_control_c16.go": `package geometry

// must fire (BOX-RAY): "the origin is inside" answers crosses whatever the window is
func (aabb AABB) verifControlBOXRAYBad(ray Ray, min, max float64) bool {
	if aabb.Contains(ray.origin) {
		return true
	}
	return aabb.IntersectsRayInRange(ray, min, max)
}

// must stay silent (BOX-RAY): the slab test written per axis with explicit near/far and no helper
func (aabb AABB) verifControlBOXRAYGood(ray Ray, min, max float64) bool {
	const eps = 0.0000000001
	lo, hi := aabb.Min(), aabb.Max()
	tNear, tFar := min, max
	for axis := 0; axis < 3; axis++ {
		o, d := ray.origin.Component(axis), ray.direction.Component(axis)
		a := (lo.Component(axis) - eps - o) / d
		b := (hi.Component(axis) + eps - o) / d
		if a > b {
			a, b = b, a
		}
		if tNear < a {
			tNear = a
		}
		if b < tFar {
			tFar = b
		}
		if tFar <= tNear {
			return false
		}
	}
	return true
}
`,
		"rendering/zz_verif_control_c16.go": `package rendering

// must fire (BVH-2): the second child is searched up to max even after the first one hit
func (bvhn BVHNode) verifControlBVHBad(r *TemporalRay, min, max float64, hitRecord *HitRecord) bool {
	if !bvhn.box.IntersectsRayInRange(r.Ray(), min, max) {
		return false
	}
	left := bvhn.left.Hit(r, min, max, hitRecord)
	right := bvhn.right.Hit(r, min, max, hitRecord)
	return left || right
}

// must stay silent (BVH-2): right child first, explicit if/else
func (bvhn BVHNode) verifControlBVHGood(r *TemporalRay, min, max float64, hitRecord *HitRecord) bool {
	if bvhn.box.IntersectsRayInRange(r.Ray(), min, max) {
		hitR := bvhn.right.Hit(r, min, max, hitRecord)
		limit := max
		if hitR {
			limit = hitRecord.Distance
		}
		if bvhn.left.Hit(r, min, limit, hitRecord) {
			return true
		}
		return hitR
	}
	return false
}
`,
	}
}

var scope = []string{"trees", "rendering", "math/geometry", "modeling"}

func run(c *props.Ctx) {
	var fns []*ssa.Function
	for _, rel := range scope {
		sp := c.P.SSAPkg(rel)
		if sp == nil {
			c.R.Failf("anchor package %s not found", rel)
			continue
		}
		fns = append(fns, c.P.FuncsOf(sp)...)
	}
	ord2(c, fns)
	if a := resolveAnchors(c); a != nil {
		a.checkKeys()
		a.checkHeap()
		a.checkQueries()
		a.checkQueueQueries()
		a.checkIndexAssignment()
		a.checkBuilders()
	}
	checkBVH(c)
	checkBoxRay(c)
	primitiveScopes(c)
	attrScope(c)
	c.R.Floor("KEY-1", 2)
	c.R.Floor("ORD-3", 1)
	c.R.Floor("CHILD-1", 7)
	c.R.Floor("IDENT-1", 4)
	c.R.Floor("PRUNE-1", 3)
	c.R.Floor("BND-1", 2)
	c.R.Floor("CONS-1", 3)
	if os.Getenv("C16_DEBUG") != "" {
		for _, o := range c.R.Obs {
			fmt.Printf("  [%s] %-8s %-60s %s %s\n", o.Verdict, o.Rule, o.Construct, o.Msg, fmt.Sprint(o.Facts))
		}
	}
}

// primitiveScopes: the elements the trees are built over (modeling.Tri / Line / Point scopes and their
// geometry helpers in tri.go, line.go, point.go) fetch their corners through the vertex ids of the index array:
// index-space typing (IDX-1 attribute data never subscripted by an index position, IDX-3 the index array never
// by a vertex id, IDX-6 a vertex id never offset by a constant) restricted to those three anchored files. A
// primitive whose corner is taken from the wrong space answers queries for a different segment / triangle than
// the one exhaustive search measures — invisible on identity-indexed meshes.
func primitiveScopes(c *props.Ctx) {
	fns := mc.ScopeFuncs(c, "modeling")
	x := eng.NewIdx(mc.ModelingPath)
	x.Analyse(fns)
	own := func(s eng.IdxSite) bool {
		rel := c.P.RelFile(s.Fn.Pos())
		return rel == "modeling/tri.go" || rel == "modeling/line.go" || rel == "modeling/point.go"
	}
	mc.ReportIdx(c, x, own, map[string]bool{}, map[string]bool{})
	c.R.Floor("IDX-1", 8)
}

func ord2(c *props.Ctx, fns []*ssa.Function) {
	escs, st := eng.LoopVarAddrEscapes(fns)
	byFn := map[*ssa.Function][]eng.LoopVarEscape{}
	for _, e := range escs {
		byFn[e.Fn] = append(byFn[e.Fn], e)
	}
	ctlBad, ctlGood := false, true
	loopsFns := 0
	for _, fn := range fns {
		if len(ssau.Loops(fn)) == 0 {
			continue
		}
		name := c.P.FuncName(fn)
		isCtl := c.P.IsControl(fn.Pos())
		es := byFn[fn]
		if isCtl {
			if strings.Contains(name, "verifControlORD2Bad") && len(es) > 0 {
				ctlBad = true
			}
			if strings.Contains(name, "verifControlORD2Good") && len(es) > 0 {
				ctlGood = false
			}
			continue
		}
		loopsFns++
		if len(es) == 0 {
			c.R.Hold("ORD-2", name, c.P.Pos(fn.Pos()))
			continue
		}
		for _, e := range es {
			c.R.Violate("ORD-2", name+"#"+e.Var.Comment, c.P.Pos(ssau.PosOf(e.At)),
				"address of per-loop variable '"+e.Var.Comment+"' "+e.How+" while the loop continues: every kept pointer ends up naming the last iteration's value",
				"variable declared at "+c.P.Pos(e.Var.Pos()))
		}
	}
	c.R.Extra["ord2_loops_examined"] = st.Loops
	c.R.Extra["ord2_reassigned_outer_vars"] = st.Candidates
	c.R.Extra["ord2_address_taken"] = st.AddrTaken
	if len(c.P.Controls) > 0 {
		v := ob.Holds
		if ctlBad {
			v = ob.Violation
		}
		c.R.Control("ORD-2", "control:bad", "trees/zz_verif_control_c16.go", v, ob.Violation, "positive control must be reported")
		v = ob.Holds
		if !ctlGood {
			v = ob.Violation
		}
		c.R.Control("ORD-2", "control:good", "trees/zz_verif_control_c16.go", v, ob.Holds, "accepted idioms must stay silent")
	}
	c.R.Floor("ORD-2", 20)
}
